/-!
# Model of the bounded copy in `deflater.Decompress` (compress.go:72-96, 255-272)

`io.CopyBuffer(dst, limitReader(src, M), buf)` — `dst` is a `bytes.Buffer`, so the copy is
`dst.ReadFrom(reader)`: the size of each read is the buffer's spare capacity (at least 512 bytes; the
32 KiB `buf` is not used) — : each iteration reads one chunk through
`limitedReader.Read` — which forwards to the source, adds the chunk length to its counter `N` and
replaces the error by `CloseMessageTooLarge` when `N > M` — writes the bytes that were read (also when
the read reported an error), and stops at the first error (`io.EOF` ends the copy successfully).
A source read is modelled by its length and how it ended.
-/

namespace Limited

inductive Status where
  | more        -- err == nil
  | eof         -- io.EOF (possibly together with the last bytes)
  | fail        -- any other error of the inflater (corrupt input, unexpected EOF)
deriving Repr, DecidableEq

inductive Outcome where
  | ok          -- copy finished at EOF within the limit
  | tooLarge    -- the limited reader reported CloseMessageTooLarge
  | fail        -- the inflater's own error
  | starved     -- the script of reads ended without EOF (cannot happen with a real reader)
deriving Repr, DecidableEq

/-- the copy loop; `n` = the limited reader's counter, `w` = bytes written to the destination -/
def copy (M : Nat) : (reads : List (Nat × Status)) → (n w : Nat) → Nat × Outcome
  | [], _, w => (w, .starved)
  | (k, st) :: rest, n, w =>
    let n' := n + k
    let w' := w + k                       -- `if nr > 0 { dst.Write(buf[:nr]) }` happens before the error test
    if n' > M then (w', .tooLarge)        -- limitedReader: N > M replaces whatever error the source gave
    else match st with
      | .more => copy M rest n' w'
      | .eof => (w', .ok)
      | .fail => (w', .fail)

def run (M : Nat) (reads : List (Nat × Status)) : Nat × Outcome := copy M reads 0 0

/-- total length of the reads up to and including the first one that does not say `more` -/
def consumed : List (Nat × Status) → Nat
  | [] => 0
  | (k, .more) :: rest => k + consumed rest
  | (k, _) :: _ => k

end Limited
