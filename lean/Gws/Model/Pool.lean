import Gws.Generated.Facts
/-!
# Model of `BufferPool.Get` capacity (internal/pool.go:47-72)

`cap n` is the capacity of the buffer `binaryPool.Get(n)` returns, for `0 ≤ n`.  The model follows
the repaired code: requests above the largest pooled size bypass the `uint32` rounding.
-/
namespace Pool

/-- `binaryCeil` on a `uint32`: next power of two (wraps to 0 above 2^31 and for 0) -/
def binaryCeil (v : BitVec 32) : BitVec 32 :=
  let v := v - 1
  let v := v ||| (v >>> 1)
  let v := v ||| (v >>> 2)
  let v := v ||| (v >>> 4)
  let v := v ||| (v >>> 8)
  let v := v ||| (v >>> 16)
  v + 1

def isShard (size : Nat) : Bool :=
  -- shards exist for begin, 2·begin, …, end (begin = binaryCeil(128), end = binaryCeil(bufferThreshold))
  decide (Facts.poolMin ≤ size ∧ size ≤ Facts.poolMax) && (size &&& (size - 1) == 0)

/-- capacity handed out for a request of `n` bytes -/
def cap (n : Nat) : Nat :=
  if n ≤ Facts.poolMax then
    let size := max (binaryCeil (BitVec.ofNat 32 n)).toNat Facts.poolMin
    if isShard size then size else n
  else n

end Pool
