/-!
# Model of `internal.Deque` (internal/deque.go)

An index-linked list stored in a growable slot array (`elements`, slot 0 is the nil sentinel) with a
stack of recycled slots.  Every function below follows the Go function of the same name statement by
statement, on `Nat` values (the property does not depend on the element type).

Conventions of the model:

* `Pointer` (a `uint32`) and the slot indices are `Nat`; `length` (a Go `int`, decremented without a
  guard) is `Int`.  Overflow at 2^32 slots is not modelled.
* A Go `*Element[T]` that points into `c.elements` is modelled by its index; `nil` is `0`.  This is
  faithful because `Get` is the only source of such pointers, returns `nil` exactly for address 0 and
  `&c.elements[addr]` otherwise, and because the code never keeps a pointer across the `append` in
  `getElement` (the Go comment on `getElement` demands this; every caller obeys it, and the
  correspondence suite would see a stale pointer as a lost write).
* `Option` is the outcome of a Go call: `none` is *abnormal termination* – a run-time panic: index
  out of range in `Get`, a nil dereference in `getElement`, `make` with a negative capacity in `New`;
  and, for `Range` only, a walk that does not end because the links are cyclic.  None of them is
  reachable from a well-formed deque through live handles (Props/C20).
* `load`/`store` read and write through a pointer obtained from `get`; the bounds check has happened
  in `get`, so they are total (`l[p]?.getD`/`List.set` on an index known to be in range).
* the free-slot `Stack` is a `List` whose head is the top of the Go stack.
-/

structure Elem where
  prev : Nat := 0
  addr : Nat := 0
  next : Nat := 0
  value : Nat := 0
deriving DecidableEq, Repr, Inhabited

structure Deque where
  head : Nat := 0
  tail : Nat := 0
  length : Int := 0
  stack : List Nat := []
  elements : List Elem := []
  template : Elem := {}
deriving DecidableEq, Repr, Inhabited

namespace Deque

/-- the zero value `Deque[T]{}` (as embedded in `workerQueue`): `elements` is a nil slice -/
def zero : Deque := {}

/-- `New(capacity)`: `make([]Element[T], 1, 1+capacity)` panics for a negative capacity; the capacity
itself is unobservable (no pointer survives an `append`). -/
def new (capacity : Int) : Option Deque :=
  if capacity < 0 then none else some { elements := [{}] }

/-- `*p` for a pointer `p` obtained from `get` -/
def load (d : Deque) (p : Nat) : Elem := d.elements[p]?.getD d.template

/-- `*p = e` for a pointer `p` obtained from `get` -/
def store (d : Deque) (p : Nat) (e : Elem) : Deque := { d with elements := d.elements.set p e }

@[reducible] def setPrev (d : Deque) (p x : Nat) : Deque := d.store p { d.load p with prev := x }
@[reducible] def setAddr (d : Deque) (p x : Nat) : Deque := d.store p { d.load p with addr := x }
@[reducible] def setNext (d : Deque) (p x : Nat) : Deque := d.store p { d.load p with next := x }
@[reducible] def setValue (d : Deque) (p x : Nat) : Deque := d.store p { d.load p with value := x }

/-- `Get(addr)`: `nil` (0) for address 0, otherwise `&c.elements[addr]`, which is bounds-checked. -/
def get (d : Deque) (addr : Nat) : Option Nat :=
  if addr > 0 then
    if addr < d.elements.length then some addr else none
  else some 0

/-- `getElement`: initialise the sentinel slot of a zero value, then pop a recycled slot or append a
copy of the template; the slot's `addr` field is set, nothing else is touched. -/
def getElement (d : Deque) : Option (Deque × Nat) := do
  -- if len(c.elements) == 0 { c.elements = append(c.elements, c.template) }
  let d := if d.elements.length = 0 then { d with elements := d.elements ++ [d.template] } else d
  match d.stack with
  | addr :: rest =>
    -- if c.stack.Len() > 0 { addr := c.stack.Pop(); v := c.Get(addr); v.addr = addr; return v }
    let d := { d with stack := rest }
    let v ← d.get addr
    if v = 0 then none   -- `v.addr = addr` through a nil pointer
    else
      let d := d.setAddr v addr
      return (d, v)
  | [] =>
    -- addr := Pointer(len(c.elements)); c.elements = append(c.elements, c.template)
    let addr := d.elements.length
    let d := { d with elements := d.elements ++ [d.template] }
    let v ← d.get addr
    let d := d.setAddr v addr
    return (d, v)

/-- `putElement(ele)`: `c.stack.Push(ele.addr); *ele = c.template` -/
def putElement (d : Deque) (ele : Nat) : Deque :=
  let d := { d with stack := (d.load ele).addr :: d.stack }
  d.store ele d.template

/-- `autoReset`: the slot array is cut back to the sentinel slot; a zero value (or a clone of one)
that was never pushed to has no slot array yet and keeps it that way (`if len(c.elements) > 0`; before
that guard was added the slice expression `c.elements[:1]` panicked on the nil slice). -/
def autoReset (d : Deque) : Deque :=
  let d := { d with head := 0, tail := 0, length := 0 }
  let d := { d with stack := [] }
  if d.elements.length > 0 then { d with elements := d.elements.take 1 } else d

def reset (d : Deque) : Deque := d.autoReset

def len (d : Deque) : Int := d.length

def front (d : Deque) : Option Nat := d.get d.head

def back (d : Deque) : Option Nat := d.get d.tail

def doPushFront (d : Deque) (ele : Nat) : Option Deque := do
  let d := { d with length := d.length + 1 }
  if d.head = 0 then
    return { d with head := (d.load ele).addr, tail := (d.load ele).addr }
  let head ← d.get d.head
  let d := d.setPrev head (d.load ele).addr
  let d := d.setNext ele (d.load head).addr
  return { d with head := (d.load ele).addr }

def pushFront (d : Deque) (value : Nat) : Option (Deque × Nat) := do
  let (d, ele) ← d.getElement
  let d := d.setValue ele value
  let d ← d.doPushFront ele
  return (d, ele)

/-- `doPushBack`: note that `ele.next` is *not* cleared here; the code relies on a slot handed out by
`getElement` (or cleared by `MoveToBack`) having `next = 0`. Likewise `doPushFront` and `ele.prev`. -/
def doPushBack (d : Deque) (ele : Nat) : Option Deque := do
  let d := { d with length := d.length + 1 }
  if d.tail = 0 then
    return { d with head := (d.load ele).addr, tail := (d.load ele).addr }
  let tail ← d.get d.tail
  let d := d.setNext tail (d.load ele).addr
  let d := d.setPrev ele (d.load tail).addr
  return { d with tail := (d.load ele).addr }

def pushBack (d : Deque) (value : Nat) : Option (Deque × Nat) := do
  let (d, ele) ← d.getElement
  let d := d.setValue ele value
  let d ← d.doPushBack ele
  return (d, ele)

def doRemove (d : Deque) (ele : Nat) : Option Deque := do
  -- var prev, next *Element[T] = nil, nil; var state = 0
  let (prev, state) ← (if (d.load ele).prev ≠ 0 then do
      let p ← d.get (d.load ele).prev
      pure (p, 1)
    else pure (0, 0) : Option (Nat × Nat))
  let (next, state) ← (if (d.load ele).next ≠ 0 then do
      let n ← d.get (d.load ele).next
      pure (n, state + 2)
    else pure (0, state) : Option (Nat × Nat))
  let d := { d with length := d.length - 1 }
  match state with
  | 3 =>
    let d := d.setNext prev (d.load next).addr
    let d := d.setPrev next (d.load prev).addr
    return d
  | 2 =>
    let d := d.setPrev next 0
    return { d with head := (d.load next).addr }
  | 1 =>
    let d := d.setNext prev 0
    return { d with tail := (d.load prev).addr }
  | _ =>
    return { d with head := 0, tail := 0 }

/-- `PopFront`; on an empty deque the zero value of `T` (0) is returned -/
def popFront (d : Deque) : Option (Deque × Nat) := do
  let ele ← d.front
  if ele ≠ 0 then
    let value := (d.load ele).value
    let d ← d.doRemove ele
    let d := d.putElement ele
    let d := if d.length = 0 then d.autoReset else d
    return (d, value)
  return (d, 0)

def popBack (d : Deque) : Option (Deque × Nat) := do
  let ele ← d.back
  if ele ≠ 0 then
    let value := (d.load ele).value
    let d ← d.doRemove ele
    let d := d.putElement ele
    let d := if d.length = 0 then d.autoReset else d
    return (d, value)
  return (d, 0)

/-- `InsertAfter(value, mark)`; `length` is incremented before `getElement`, and the three fields of
`e1` are assigned from values read before the assignment (Go tuple assignment). -/
def insertAfter (d : Deque) (value mark : Nat) : Option (Deque × Nat) := do
  if mark = 0 then return (d, 0)
  let d := { d with length := d.length + 1 }
  let (d, e1) ← d.getElement
  let e0 ← d.get mark
  let e2 ← d.get (d.load e0).next
  let d := d.store e1 { d.load e1 with prev := (d.load e0).addr, next := (d.load e0).next, value := value }
  let d := if e2 ≠ 0 then d.setPrev e2 (d.load e1).addr else d
  let d := d.setNext e0 (d.load e1).addr
  let d := if (d.load e1).next = 0 then { d with tail := (d.load e1).addr } else d
  return (d, e1)

def insertBefore (d : Deque) (value mark : Nat) : Option (Deque × Nat) := do
  if mark = 0 then return (d, 0)
  let d := { d with length := d.length + 1 }
  let (d, e1) ← d.getElement
  let e2 ← d.get mark
  let e0 ← d.get (d.load e2).prev
  let d := d.store e1 { d.load e1 with prev := (d.load e2).prev, next := (d.load e2).addr, value := value }
  let d := if e0 ≠ 0 then d.setNext e0 (d.load e1).addr else d
  let d := d.setPrev e2 (d.load e1).addr
  let d := if (d.load e1).prev = 0 then { d with head := (d.load e1).addr } else d
  return (d, e1)

def moveToBack (d : Deque) (addr : Nat) : Option Deque := do
  let ele ← d.get addr
  if ele ≠ 0 then
    let d ← d.doRemove ele
    let d := d.store ele { d.load ele with prev := 0, next := 0 }
    d.doPushBack ele
  else return d

def moveToFront (d : Deque) (addr : Nat) : Option Deque := do
  let ele ← d.get addr
  if ele ≠ 0 then
    let d ← d.doRemove ele
    let d := d.store ele { d.load ele with prev := 0, next := 0 }
    d.doPushFront ele
  else return d

def update (d : Deque) (addr value : Nat) : Option Deque := do
  let ele ← d.get addr
  if ele ≠ 0 then return d.setValue ele value
  else return d

def remove (d : Deque) (addr : Nat) : Option Deque := do
  let ele ← d.get addr
  if ele ≠ 0 then
    let d ← d.doRemove ele
    let d := d.putElement ele
    return if d.length = 0 then d.autoReset else d
  else return d

/-- The loop of `Range`, from pointer `i`.  The callback may keep state of its own (`σ`, e.g. a
counter or the list of what it saw) and answers whether to continue; it sees the element by value and
cannot modify the deque.  `fuel` bounds the walk: running out of it means more visits than there are
slots, i.e. cyclic links, where the Go loop would not end by itself. -/
def rangeLoop {σ : Type} (d : Deque) (f : σ → Elem → σ × Bool) : Nat → Nat → σ → Option σ
  | 0, i, s => if i = 0 then some s else none
  | fuel + 1, i, s =>
    if i = 0 then some s else
    let r := f s (d.load i)
    if r.2 = false then some r.1 else
    match d.get (d.load i).next with
    | none => none
    | some j => rangeLoop d f fuel j r.1

/-- `Range(f)`: `for i := c.Get(c.head); i != nil; i = c.Get(i.next) { if !f(i) { break } }` -/
def range {σ : Type} (d : Deque) (f : σ → Elem → σ × Bool) (s : σ) : Option σ := do
  let i ← d.get d.head
  rangeLoop d f d.elements.length i s

/-- `Clone`: a copy of the struct whose two slices are fresh `make(len)`s filled by `copy`. In a value
model this is the identity; that the Go copies do not alias the original is checked by the
correspondence suite only. -/
def clone (d : Deque) : Deque :=
  { d with elements := d.elements.take d.elements.length, stack := d.stack.take d.stack.length }

end Deque
