/-!
# Parallel message handling (task.go:84-97, reader.go:154-177)

With `ParallelEnabled` the reader does `readQueue.Go(msg, c.dispatch)`: `c <- struct{}{}` (blocks
while `ParallelGolimit` handlers are running), then `go func() { _ = f(m); c.done() }()`, where
`dispatch` is `defer Recovery(logger); handler.OnMessage(c, msg)`.  Atomic actions: the reader's
channel send (one slot taken, handler goroutine created) and a handler's return (slot released).
A handler either returns or panics; a panic is caught by the deferred `Recovery` iff the configured
function recovers — then `dispatch` returns normally and the slot is released; otherwise the panic
leaves the goroutine and the process dies (outcome `crashed`).
-/

namespace Par

inductive Outcome where
  | returns
  | panics
deriving Repr, DecidableEq

structure State where
  cap : Nat                      -- ParallelGolimit (buffer size of the channel)
  recovers : Bool                -- does the configured Recovery call recover()
  inbox : List Nat               -- messages read off the wire, not yet dispatched (wire order)
  running : List Nat             -- messages whose handler goroutine is live
  handled : List Nat             -- messages whose handler finished (returned or recovered)
  dispatched : List Nat          -- log: messages in the order the reader dispatched them
  crashed : Bool                 -- an unrecovered panic killed the process
deriving Repr, DecidableEq

def init (cap : Nat) (recovers : Bool) (msgs : List Nat) : State :=
  { cap, recovers, inbox := msgs, running := [], handled := [], dispatched := [], crashed := false }

inductive Action where
  | dispatch                     -- the reader sends on the channel and starts the handler of the next message
  | finish (m : Nat) (o : Outcome)   -- the handler of m ends
deriving Repr, DecidableEq

def step (s : State) : Action → Option State
  | .dispatch =>
    if s.crashed then none
    else match s.inbox with
      | [] => none
      | m :: rest =>
        if s.running.length < s.cap then       -- `c <- struct{}{}` does not block
          some { s with inbox := rest, running := m :: s.running, dispatched := s.dispatched ++ [m] }
        else none                               -- the reader is blocked: back-pressure, nothing is dropped
  | .finish m o =>
    if s.crashed ∨ m ∉ s.running then none
    else if o = .panics ∧ ¬ s.recovers then some { s with crashed := true }
    else some { s with running := s.running.erase m, handled := s.handled ++ [m] }   -- `c.done()`

def run (s : State) : List Action → Option State
  | [] => some s
  | a :: as => match step s a with
    | none => none
    | some s' => run s' as

end Par
