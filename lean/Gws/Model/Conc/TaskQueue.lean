/-!
# Model of `workerQueue` (task.go:36-82) as a transition system over its atomic section

`getJob(newJob, delta)` is one `mu.Lock() … Unlock()` region: it is one atomic action on `(q, cur)`.
`Push(job)` = `getJob(job, 0)` and, if a job comes back, `go do(job)`; a worker runs its job and then
calls `getJob(nil, -1)`, taking the next job or retiring.  Jobs are identified by `Nat`s.  The queue
`q` is the arena deque used through `PushBack`/`PopFront` only; by C20 it behaves as a list.
That a mutex region is atomic with respect to other regions of the same mutex is assumed.
-/

structure TQ where
  q : List Nat              -- queued jobs, front first
  cur : Int                 -- curConcurrency
  max : Int                 -- maxConcurrency
  running : List Nat        -- jobs held by live workers (each worker holds exactly one)
  started : List Nat        -- log: jobs handed to a worker, in hand-out order
  submitted : List Nat      -- log: jobs pushed, in the order of their critical sections
  finished : List Nat       -- log: jobs whose worker returned from them
deriving Repr, DecidableEq

namespace TQ

def init (max : Int) : TQ := { q := [], cur := 0, max := max, running := [], started := [], submitted := [], finished := [] }

/-- `if newJob != nil { c.q.PushBack(newJob) }` -/
def enq (q : List Nat) : Option Nat → List Nat
  | some j => q ++ [j]
  | none => q

@[simp] theorem enq_some (q : List Nat) (j : Nat) : enq q (some j) = q ++ [j] := rfl
@[simp] theorem enq_none (q : List Nat) : enq q none = q := rfl

/-- the critical section of `getJob` -/
def getJob (s : TQ) (newJob : Option Nat) (delta : Int) : TQ × Option Nat :=
  let q1 := enq s.q newJob
  let cur1 := s.cur + delta
  if cur1 ≥ s.max then ({ s with q := q1, cur := cur1 }, none)
  else match q1 with
    | [] => ({ s with q := q1, cur := cur1 }, none)
    | j :: rest => ({ s with q := rest, cur := cur1 + 1 }, some j)

/-- a job returned by `getJob` is now held by a worker (a new goroutine for `Push`, the same one in `do`) -/
def handOut (s : TQ) : Option Nat → TQ
  | none => s
  | some k => { s with running := k :: s.running, started := s.started ++ [k] }

inductive Act where
  | push (j : Nat)     -- some goroutine calls Push(j)
  | next (j : Nat)     -- the worker holding j returns from it and calls getJob(nil, -1)
deriving Repr, DecidableEq

def step (s : TQ) : Act → Option TQ
  | .push j =>
    let r := s.getJob (some j) 0
    some (({ r.1 with submitted := r.1.submitted ++ [j] } : TQ).handOut r.2)
  | .next j =>
    if j ∈ s.running then
      let r := ({ s with running := s.running.erase j, finished := s.finished ++ [j] } : TQ).getJob none (-1)
      some (r.1.handOut r.2)
    else none

/-- run a whole action sequence; `none` if some action was not enabled -/
def run (s : TQ) : List Act → Option TQ
  | [] => some s
  | a :: as => match s.step a with
    | none => none
    | some s' => run s' as

/-- completing the job at the head of `running`, repeatedly -/
def drain : Nat → TQ → TQ
  | 0, s => s
  | n + 1, s =>
    match s.running with
    | [] => s
    | j :: _ => match s.step (.next j) with
      | some s' => drain n s'
      | none => s

end TQ
