/-!
# C14 — buffer ownership as a protocol

A functional model has no aliasing, so "gws never touches memory it does not own" cannot be stated
about values.  It is stated about an explicit *ownership heap*: every pooled buffer, every
per-connection window, every mutex-guarded scratch area and every caller payload is a numbered
location with an owner, and every code path of the library is the list of ownership events it
performs, in program order (derived by reading the Go source; the `get`/`put` projection of each list
is compared with the pool-hook trace of the real code by suite `own trace …`).

`step` returns `none` on any violation of the protocol:
use by a non-owner, double `put`, `get` of a buffer that is not in the pool, a write to a caller
payload, a read of a caller payload outside its lend interval, any library event on a buffer the
application owns.  For the three mutex events `none` means *not enabled* (a `lock` of a held mutex
blocks; `tryLockFail` of a free mutex cannot be observed).

## Locations

* `Buf` — a pooled or heap buffer *incarnation*: the thing that exists between one `Get` (or `make`)
  and the matching `Put` (or the moment it becomes garbage).  `sync.Pool` hands out only what it
  holds, and hands it to one taker (assumption on `sync.Pool`, not proved); a later `Get` of the same
  physical memory is therefore a new `Buf`.  Owner `pool` means "free: in a pool, or not allocated".
* A `Buf` also carries a mutex (`held`).  A buffer whose owner is `guarded` is parked in a longer-lived
  object and may be used exactly by the path that holds that mutex: the compression window
  `c.cpsWindow.dict` under `c.mu`; the inflater scratch `dpsBuffer`/`buf` of a `deflater` shared by
  several connections under `dpsLocker`; the shared `flate.Writer` under `cpsLocker`.  A connection
  without a window still has `c.mu`: then the location is used as a mutex only.
* `CBuf` — a payload slice passed by the application to a write call (application memory).  The
  library may read it between `callerLend` (the call starts) and `callerReturn` (the call, or the
  completion callback of an async write, or for a broadcaster its `Close` and its last pending send,
  has finished), and may never write it.
* `Pid` — a path instance: one goroutine's execution of one library path.  The read loop of a
  connection (all its `readMessage` iterations and the final reclamation) is one `Pid`; a broadcaster
  (its `Broadcast` calls and all its pending sends, which only *read* the shared frame) is one `Pid`.
-/

namespace Own

abbrev Buf := Nat
abbrev CBuf := Nat
abbrev Pid := Nat

inductive Owner where
  | pool                -- free: in binaryPool / a generic pool, or not allocated, or garbage
  | lib (p : Pid)       -- exclusively held by path instance `p` of the library
  | app                 -- delivered to the application (Message.Data, ping/pong payload)
  | guarded             -- parked in a connection / deflater: usable by the holder of the location's mutex
deriving DecidableEq, Repr

structure Cell where
  own : Owner := .pool
  held : Option Pid := none
deriving DecidableEq, Repr

/-- operations on a buffer location -/
inductive BOp where
  | get (p : Pid)          -- binaryPool.Get / Pool.Get: pool → lib p
  | alloc (p : Pid)        -- make / bytes.NewBuffer: unallocated → lib p (invisible to the pool hook)
  | put (p : Pid)          -- binaryPool.Put / Pool.Put by the library: → pool
  | drop (p : Pid)         -- the library forgets a buffer (garbage; also a Put that the pool refuses: capacity changed)
  | read (p : Pid)         -- the library reads the bytes
  | write (p : Pid)        -- the library writes the bytes
  | handoff (p : Pid)      -- lib p → app (the buffer becomes Message.Data / the OnPing argument)
  | appRead                -- the application reads a delivered buffer
  | appClose               -- Message.Close(): the application puts the buffer (binaryPool.Put) — or lets it go
  | guard (p : Pid)        -- lib p parks the buffer under this location's mutex (handshake: window into the Conn)
  | lock (p : Pid)
  | unlock (p : Pid)
  | tryLockFail (p : Pid)  -- `TryLock()` returned false: somebody else holds the mutex
deriving DecidableEq, Repr

/-- operations on a caller payload -/
inductive COp where
  | lend (p : Pid)         -- a write call starts: `p` may read the payload
  | ret (p : Pid)          -- the call / the callback / Close + pending sends are over
  | read (p : Pid)
  | write (p : Pid)        -- never allowed
deriving DecidableEq, Repr

inductive Ev where
  | buf (b : Buf) (op : BOp)
  | caller (c : CBuf) (op : COp)
deriving DecidableEq, Repr

namespace Ev
@[match_pattern] abbrev get (b : Buf) (p : Pid) : Ev := .buf b (.get p)
@[match_pattern] abbrev alloc (b : Buf) (p : Pid) : Ev := .buf b (.alloc p)
@[match_pattern] abbrev put (b : Buf) (p : Pid) : Ev := .buf b (.put p)
@[match_pattern] abbrev drop (b : Buf) (p : Pid) : Ev := .buf b (.drop p)
@[match_pattern] abbrev libRead (b : Buf) (p : Pid) : Ev := .buf b (.read p)
@[match_pattern] abbrev libWrite (b : Buf) (p : Pid) : Ev := .buf b (.write p)
@[match_pattern] abbrev handoff (b : Buf) (p : Pid) : Ev := .buf b (.handoff p)
@[match_pattern] abbrev appRead (b : Buf) : Ev := .buf b .appRead
@[match_pattern] abbrev appClose (b : Buf) : Ev := .buf b .appClose
@[match_pattern] abbrev guard (b : Buf) (p : Pid) : Ev := .buf b (.guard p)
@[match_pattern] abbrev lock (b : Buf) (p : Pid) : Ev := .buf b (.lock p)
@[match_pattern] abbrev unlock (b : Buf) (p : Pid) : Ev := .buf b (.unlock p)
@[match_pattern] abbrev tryLockFail (b : Buf) (p : Pid) : Ev := .buf b (.tryLockFail p)
@[match_pattern] abbrev callerLend (c : CBuf) (p : Pid) : Ev := .caller c (.lend p)
@[match_pattern] abbrev callerReturn (c : CBuf) (p : Pid) : Ev := .caller c (.ret p)
@[match_pattern] abbrev libReadCaller (c : CBuf) (p : Pid) : Ev := .caller c (.read p)
@[match_pattern] abbrev libWriteCaller (c : CBuf) (p : Pid) : Ev := .caller c (.write p)
end Ev

/-- `p` may use the buffer: it holds it, or the buffer is parked and `p` holds the mutex -/
def Cell.usable (c : Cell) (p : Pid) : Prop := c.own = .lib p ∨ (c.own = .guarded ∧ c.held = some p)

instance (c : Cell) (p : Pid) : Decidable (c.usable p) := by unfold Cell.usable; exact inferInstance

def BOp.apply (c : Cell) : BOp → Option Cell
  | .get p | .alloc p => if c.own = .pool then some { c with own := .lib p } else none
  | .put p | .drop p => if c.usable p then some { c with own := .pool } else none
  | .read p | .write p => if c.usable p then some c else none
  | .handoff p => if c.own = .lib p then some { c with own := .app } else none
  | .appRead => if c.own = .app then some c else none
  | .appClose => if c.own = .app then some { c with own := .pool } else none
  | .guard p => if c.own = .lib p then some { c with own := .guarded } else none
  | .lock p => if c.held = none then some { c with held := some p } else none
  | .unlock p => if c.held = some p then some { c with held := none } else none
  | .tryLockFail p => if c.held ≠ none ∧ c.held ≠ some p then some c else none

def COp.apply (l : Option Pid) : COp → Option (Option Pid)
  | .lend p => if l = none then some (some p) else none
  | .ret p => if l = some p then some none else none
  | .read p => if l = some p then some l else none
  | .write _ => none

def upd {α : Type} (f : Nat → α) (k : Nat) (v : α) : Nat → α := fun x => if x = k then v else f x

structure Heap where
  cell : Buf → Cell
  lent : CBuf → Option Pid

/-- everything free, nothing lent, no mutex held -/
def Heap.empty : Heap := { cell := fun _ => {}, lent := fun _ => none }

def step (h : Heap) : Ev → Option Heap
  | .buf b op => (op.apply (h.cell b)).map fun c => { h with cell := upd h.cell b c }
  | .caller c op => (op.apply (h.lent c)).map fun l => { h with lent := upd h.lent c l }

/-- run an event list; `none` as soon as one event violates the protocol -/
def run (h : Heap) : List Ev → Option Heap
  | [] => some h
  | e :: es => (step h e).bind fun h' => run h' es

/-- the events of `l` when `c` holds -/
def optl (c : Bool) (l : List Ev) : List Ev := if c then l else []

/-! ## The paths of the library

Every path is a function of the path instance and of the (fresh) locations it uses. The comments name
the Go statement that performs each event. -/

/-- what the application's handler does with a delivered buffer: read it, and close it now or keep it.
(With `ParallelEnabled` these events happen in another goroutine; they concern the delivered buffer
only, so every interleaving with the rest is covered by the interleaving theorem.) -/
def handler (b : Buf) (closeNow : Bool) : List Ev := .appRead b :: optl closeNow [.appClose b]

/-- `deflater.Decompress(src, dict)` followed by `dpsWindow.Write` and the UTF-8 check (`emitMessage`):
`src` is the frame / reassembly buffer, `dst` the fresh output buffer, `s` the deflater's scratch
(`dpsBuffer`, `buf`; shared by every connection that uses this deflater, guarded by `dpsLocker`),
`d` the connection's decompression window (present under context takeover; used by the read loop only). -/
def inflate (p : Pid) (src dst s : Buf) (d : Option Buf) : List Ev :=
  [.lock s p,                               -- c.dpsLocker.Lock()
   .libWrite src p] ++                      -- src.Write(flateTail)
  d.toList.map (fun d => Ev.libRead d p) ++ -- resetter.Reset(src, dict): the dictionary is copied into the inflater
  [.libRead src p, .libWrite s p,           -- io.CopyBuffer(c.dpsBuffer, reader, c.buf)
   .get dst p,                              -- binaryPool.Get(c.dpsBuffer.Len())
   .libRead s p, .libWrite dst p,           -- c.dpsBuffer.WriteTo(dst)
   .unlock s p,                             -- deferred Unlock
   .libRead dst p] ++
  d.toList.map (fun d => Ev.libWrite d p) ++ -- c.dpsWindow.Write(msg.Bytes())
  [.libRead dst p]                          -- internal.CheckEncoding

/-- `readMessage` for an unfragmented data frame (reader.go:71-129, sequential handling).
Uncompressed: the frame buffer `a` itself is delivered (`closer.Data = nil`). Compressed: the inflated
copy `b` is delivered and `a` goes back when `readMessage` returns, after the handler. -/
def readSingle (compressed masked closeNow : Bool) (p : Pid) (a b s : Buf) (d : Option Buf) : List Ev :=
  [.get a p,                                -- binaryPool.Get(contentLength + len(flateTail))
   .libWrite a p] ++                        -- internal.ReadN(c.br, p)
  optl masked [.libWrite a p] ++            -- internal.MaskXOR
  (if compressed then
    inflate p a b s d ++ [.handoff b p] ++ handler b closeNow ++
    [.put a p]                              -- deferred closer.Close()
   else
    [.libRead a p,                          -- internal.CheckEncoding
     .handoff a p] ++ handler a closeNow)   -- closer.Data = nil: the deferred Close puts nothing

/-- one non-final fragment: the payload is copied into the (non-pooled) reassembly buffer `k` -/
def fragment (masked : Bool) (p : Pid) (k : Buf) (a : Buf) : List Ev :=
  [.get a p, .libWrite a p] ++ optl masked [.libWrite a p] ++
  [.libRead a p, .libWrite k p,             -- c.continuationFrame.buffer.Write(p)
   .put a p]                                -- deferred closer.Close()

/-- the final frame of a fragmented message: its payload is appended to `k`; the reassembled message
(uncompressed: `k` itself; compressed: the inflated copy `b`, and `k` is garbage) is delivered; the
frame buffer goes back when `readMessage` returns. -/
def lastFragment (compressed masked closeNow : Bool) (p : Pid) (k aLast b s : Buf) (d : Option Buf) : List Ev :=
  [.get aLast p, .libWrite aLast p] ++ optl masked [.libWrite aLast p] ++
  [.libRead aLast p, .libWrite k p] ++      -- c.continuationFrame.buffer.Write(p)
  (if compressed then
    inflate p k b s d ++
    [.drop k p,                             -- msg.Data = dst: the reassembly buffer is garbage
     .handoff b p] ++ handler b closeNow
   else
    [.libRead k p, .handoff k p] ++ handler k closeNow) ++
  [.put aLast p]                            -- deferred closer.Close()

/-- `readMessage` over a fragmented message: `as` are the frame buffers of the non-final frames (the
first of them allocates the reassembly buffer `k`), `aLast` that of the final frame. -/
def readFragments (compressed masked closeNow : Bool) (p : Pid) (k : Buf) (as : List Buf) (aLast b s : Buf)
    (d : Option Buf) : List Ev :=
  [.alloc k p] ++                           -- bytes.NewBuffer(make([]byte, 0, contentLength))
  (as.map (fragment masked p k)).flatten ++
  lastFragment compressed masked closeNow p k aLast b s d

/-- `readControl` for a ping/pong with payload: a private slice, delivered, never reclaimed -/
def readControl (masked : Bool) (p : Pid) (k : Buf) : List Ev :=
  [.alloc k p, .libWrite k p] ++ optl masked [.libWrite k p] ++ [.handoff k p, .appRead k]

/-- `genFrame` + transport write + `binaryPool.Put(frame)` from a library-owned source `src`
(`doWriteFile`'s callback): frame buffer `f`. -/
def frameFrom (client : Bool) (p : Pid) (src f : Buf) : List Ev :=
  [.get f p,                                -- binaryPool.Get(n + frameHeaderSize)
   .libWrite f p,                           -- buf.Write(framePadding)
   .libRead src p, .libWrite f p] ++        -- payload.WriteTo(buf)
  optl client [.libWrite f p] ++            -- internal.MaskXOR
  [.libWrite f p,                           -- copy(contents[m:], header)
   .libRead f p,                            -- internal.WriteN(c.conn, frame.Bytes())
   .put f p]

/-- `doWrite` (writer.go:118-152) as called by `WriteMessage`/`WriteAsync`/`WritePing`…:
`c` the caller's payload, `m` the connection mutex `c.mu` which guards the compression window
(used when `window`: permessage-deflate with context takeover, data frame), `z` the deflater's shared
`flate.Writer` (under `cpsLocker`), `f` the frame buffer. The caller's payload is copied (or
compressed) into `f` *before* masking, and read once more for the window, all before the call returns. -/
def writeFrame (compressed window client : Bool) (p : Pid) (c : CBuf) (m z f : Buf) : List Ev :=
  [.callerLend c p,
   .lock m p,                               -- c.mu.Lock()
   .libReadCaller c p,                      -- payload.CheckEncoding / Len
   .get f p,                                -- binaryPool.Get(n + frameHeaderSize)
   .libWrite f p] ++                        -- buf.Write(framePadding)
  (if compressed then
    optl window [.libRead m p] ++           -- dict = c.cpsWindow.dict
    [.lock z p,                             -- c.cpsLocker.Lock()
     .libReadCaller c p, .libWrite z p, .libWrite f p, -- compressTo(c.cpsWriter, src, dst, dict)
     .unlock z p]
   else
    [.libReadCaller c p, .libWrite f p]) ++ -- payload.WriteTo(buf)
  optl client [.libWrite f p] ++            -- internal.MaskXOR(contents[frameHeaderSize:], maskBytes)
  [.libWrite f p,                           -- copy(contents[m:], header)
   .libRead f p] ++                         -- internal.WriteN(c.conn, frame.Bytes())
  optl window [.libReadCaller c p, .libWrite m p] ++ -- payload.WriteTo(&c.cpsWindow)
  [.put f p,                                -- binaryPool.Put(frame)
   .unlock m p,                             -- deferred c.mu.Unlock()
   .callerReturn c p]

/-- a writer that finds the connection closed after taking the lock: `return ErrConnClosed` -/
def writeFrameClosed (p : Pid) (c : CBuf) (m : Buf) : List Ev :=
  [.callerLend c p, .lock m p, .unlock m p, .callerReturn c p]

/-- `WriteClose(code, reason)` (writer.go:17-30): code and reason are assembled in a pooled buffer `q`,
which `doWrite` frames like any payload — but a payload the library owns; `q` goes back after the write. -/
def writeClose (client : Bool) (p : Pid) (m q f : Buf) : List Ev :=
  [.get q p, .libWrite q p,                 -- binaryPool.Get(128); buf.Write(code); buf.Write(reason)
   .lock m p] ++                            -- doWrite: c.mu.Lock()
  frameFrom client p q f ++
  [.unlock m p,
   .put q p]                                -- binaryPool.Put(buf)

/-- `WriteFile`, uncompressed (`splitReader`): `s` the 128 KiB segment buffer which the caller's
`io.Reader` fills on the library's behalf, `fs` one frame buffer per segment. -/
def writeFilePlain (client : Bool) (p : Pid) (m s : Buf) (fs : List Buf) : List Ev :=
  [.lock m p, .get s p] ++
  (fs.map fun f => Ev.libWrite s p :: frameFrom client p s f).flatten ++ -- r.Read(p); cb(index, eof, p[:n])
  [.put s p,                                -- deferred binaryPool.Put(buf)
   .unlock m p]

/-- how `WriteFile` gets its `flate.Writer`: a server takes a `bigDeflater` from `bdPool`, a client
locks its single writer (`cpsLocker`) -/
def bigDeflaterGet (client : Bool) (p : Pid) (z : Buf) : Ev := if client then .lock z p else .get z p
def bigDeflaterPut (client : Bool) (p : Pid) (z : Buf) : Ev := if client then .unlock z p else .put z p

/-- `flateWriter.Write` while the input is being streamed: the current output buffer `cur` is full, the
next one `b'` is opened, `cur` is framed (frame buffer `f`) and released — all while the input segment
`r` is held. `mid` lists the `(b', f)` pairs in order. -/
def streamFrom (client : Bool) (p : Pid) (z r : Buf) (cur : Buf) : List (Buf × Buf) → List Ev
  | [] => []
  | (b', f) :: rest =>
    [.libWrite r p, .libRead r p, .libWrite z p, -- c.r.Read(p); w.Write(p[:n]) into the flate.Writer
     .get b' p,                             -- flateWriter.write: tail full, binaryPool.Get(size)
     .libRead z p, .libWrite b' p] ++
    frameFrom client p cur f ++             -- c.cb(c.index, false, c.buffers[0].Bytes())
    [.put cur p] ++                         -- binaryPool.Put(c.buffers[0])
    streamFrom client p z r b' rest

/-- the output buffer that is open after the streamed part -/
def lastBuf (cur : Buf) : List (Buf × Buf) → Buf
  | [] => cur
  | (b', _) :: rest => lastBuf b' rest

/-- compressed `WriteFile` up to the streamed part -/
def wfcPre (window client early : Bool) (p : Pid) (m z r b0 : Buf) : List Ev :=
  [.lock m p, bigDeflaterGet client p z] ++
  optl window [.libRead m p] ++             -- cpsWriter.ResetDict(w, c.cpsWindow.dict)
  [.get r p,                                -- readerWrapper.WriteTo: binaryPool.Get(segmentSize)
   .libWrite r p, .libRead r p, .libWrite z p] ++ -- c.r.Read(p); w.Write(p[:n])
  optl early [.get b0 p, .libRead z p, .libWrite b0 p] ++
  optl window [.libRead r p, .libWrite m p] -- c.sw.Write(p[:n])

/-- compressed `WriteFile` after the streamed part: `bl` is the output buffer that is open (or, without
`early`, about to be opened) -/
def wfcPost (client early : Bool) (p : Pid) (m z r bl fLast : Buf) : List Ev :=
  [.put r p] ++                             -- deferred binaryPool.Put(buf) in WriteTo
  optl (!early) [.get bl p] ++
  [.libRead z p, .libWrite bl p] ++         -- cpsWriter.Flush() → flateWriter.Write
  frameFrom client p bl fLast ++            -- flateWriter.Flush: c.cb(c.index, true, buf.Bytes())
  [.put bl p,
   bigDeflaterPut client p z,
   .unlock m p]

/-- `WriteFile`, compressed (`bigDeflater.Compress` through `readerWrapper` and `flateWriter`):
`r` the input segment buffer, `z` the `flate.Writer`, `m` = `c.mu` + compression window.
`b0` is the first output buffer; `early` says whether the compressor emitted output (opening `b0`)
while the input was still being read — small inputs produce everything in `Flush`, after `r` has
been released; `mid` (only with `early`) the output buffers opened, and the frames written, during
streaming; the buffer left over is framed by `flateWriter.Flush` (frame buffer `fLast`). -/
def writeFileCompressed (window client early : Bool) (p : Pid) (m z r b0 : Buf)
    (mid : List (Buf × Buf)) (fLast : Buf) : List Ev :=
  wfcPre window client early p m z r b0 ++
  streamFrom client p z r b0 mid ++
  wfcPost client early p m z r (lastBuf b0 mid) fLast

/-- the reclamation of the compression window at the end of `ReadLoop` (conn.go:117-121):
`if c.cpsWindow.enabled && c.mu.TryLock() { cswPool.Put(dict); dict = nil; c.mu.Unlock() }` -/
def reclaimWindow (tryLockOk : Bool) (p : Pid) (m : Buf) : List Ev :=
  if tryLockOk then
    [.lock m p,                             -- c.mu.TryLock() = true
     .put m p,                              -- c.config.cswPool.Put(c.cpsWindow.dict); dict = nil
     .unlock m p]
  else [.tryLockFail m p]                   -- a writer holds c.mu: the window is left to the garbage collector

/-- the end of `ReadLoop` on a server (conn.go:112-128): the reader, the compression window (only if
`c.mu.TryLock()` succeeds) and the decompression window go back to their pools. `m` = `c.mu` +
compression window, `rd` the `bufio.Reader`, `d` the decompression window. -/
def readLoopEnd (tryLockOk : Bool) (p : Pid) (rd m : Buf) (d : Option Buf) : List Ev :=
  [.put rd p] ++                            -- c.config.brPool.Put(c.br)
  reclaimWindow tryLockOk p m ++
  d.toList.map (fun d => Ev.put d p)        -- c.config.dswPool.Put(c.dpsWindow.dict)

/-- server handshake (upgrader.go:196-259): the 101 response is built in a pooled buffer, which goes
back when `doUpgradeFromConn` returns (deferred `rw.Close()`); reader and windows are taken from the
generic pools; the compression window is parked under `c.mu`. -/
def upgradeServer (p : Pid) (rw rd m : Buf) (d : Option Buf) : List Ev :=
  [.get rd p,                               -- c.option.config.brPool.Get()
   .get rw p, .libWrite rw p,               -- new(responseWriter).Init(); WithHeader …
   .libRead rw p,                           -- rw.Write(netConn, …)
   .get m p, .guard m p] ++                 -- socket.cpsWindow.initialize(config.cswPool, …)
  d.toList.map (fun d => Ev.get d p) ++     -- socket.dpsWindow.initialize(config.dswPool, …)
  [.put rw p]                               -- deferred rw.Close()

/-! ## The broadcaster as a transition system

`state` starts at `math.MaxInt32`; `Broadcast` adds 1 and queues a send; a finished send subtracts 1;
`Close` subtracts `math.MaxInt32`; whoever brings the counter to 0 runs `doClose`, which puts the
shared frames. The frames (one per kind: plain / compressed) are generated by the first `Broadcast`
of that kind. All events are performed in the name of the broadcaster `p`: pending sends only read
the frame. (Only the shared frames and the payload are tracked here; that each send runs under its
connection's `c.mu`, and that a compressed frame is built under the deflater's `cpsLocker`, is as in
`writeFrame`.) -/

def maxInt32 : Int := 2147483647

inductive BAct where
  | bcast (i : Nat) (z : Bool)   -- Broadcast(socket i); `z`: that connection negotiated compression
  | sendDone (i : Nat)           -- the queued send for socket i has run (writeFrame + AddInt64(-1))
  | close                        -- Close()
deriving DecidableEq, Repr

structure BC where
  p : Pid
  c : CBuf                      -- the broadcaster's payload
  f0 : Buf                      -- msgs[0].frame (plain)
  f1 : Buf                      -- msgs[1].frame (compressed)
  state : Int := maxInt32
  gen0 : Bool := false
  gen1 : Bool := false
  pending : List (Nat × Bool) := []
  closed : Bool := false        -- Close() has been called
  released : Nat := 0           -- how many times doClose ran
  trace : List Ev := []
deriving Repr

namespace BC

/-- `doClose`: put every frame that exists (`binaryPool.Put(nil)` is a no-op); from here on the
payload is not looked at any more -/
def doCloseEvs (s : BC) : List Ev :=
  optl s.gen0 [.put s.f0 s.p] ++ optl s.gen1 [.put s.f1 s.p] ++ [.callerReturn s.c s.p]

def frameOf (s : BC) (z : Bool) : Buf := if z then s.f1 else s.f0

/-- `msg.once.Do(genFrame …)` for kind `z` -/
def genEvs (s : BC) (z : Bool) : List Ev :=
  if (if z then s.gen1 else s.gen0) then []
  else [.libReadCaller s.c s.p, .get (s.frameOf z) s.p, .libWrite (s.frameOf z) s.p]

/-- `Broadcaster.writeFrame`: the shared frame is written to the transport; a compressed frame also
feeds the payload to the connection's window -/
def sendEvs (s : BC) (z : Bool) : List Ev :=
  .libRead (s.frameOf z) s.p :: optl z [.libReadCaller s.c s.p]

def maybeClose (s : BC) : BC :=
  if s.state = 0 then { s with released := s.released + 1, trace := s.trace ++ s.doCloseEvs } else s

/-- the transitions; `none` when the action is not possible at all (a send that was never queued).
`bcast` after `close` is *possible* (it is API misuse) and is modelled faithfully. -/
def step (s : BC) : BAct → Option BC
  | .bcast i z =>
    some { s with
      trace := s.trace ++ s.genEvs z
      gen0 := s.gen0 || !z
      gen1 := s.gen1 || z
      state := s.state + 1
      pending := (i, z) :: s.pending }
  | .sendDone i =>
    match s.pending.find? (·.1 = i) with
    | none => none
    | some (_, z) =>
      some (maybeClose { s with
        trace := s.trace ++ s.sendEvs z
        state := s.state - 1
        pending := s.pending.erase (i, z) })
  | .close =>
    some (maybeClose { s with state := s.state - maxInt32, closed := true })

def run (s : BC) : List BAct → Option BC
  | [] => some s
  | a :: as => (s.step a).bind fun s' => run s' as

/-- `NewBroadcaster(opcode, payload)`: the payload is lent from now on -/
def init (p : Pid) (c : CBuf) (f0 f1 : Buf) : BC := { p, c, f0, f1, trace := [.callerLend c p] }

end BC

/-- the API precondition of `Broadcaster`: "call Close after all the Broadcasts have been completed"
(writer.go:300), once; sockets are distinct per broadcaster use here (index = the queued send) -/
def BAct.isBcast : BAct → Bool
  | .bcast _ _ => true
  | _ => false

def ApiOk : List BAct → Prop
  | [] => True
  | .close :: rest => ∀ a ∈ rest, a ≠ .close ∧ a.isBcast = false
  | _ :: rest => ApiOk rest

/-! ## Teardown of a server connection concurrent with writers

Threads: any number of writers (each a `doWrite` on this connection: `c.mu.Lock()`, the closed test
under the lock, then either `ErrConnClosed` or the frame with its window update, `Unlock`), the
`closed` flag (set once by whoever wins the CAS), and the read loop's reclamation, which runs after
the flag is set (`emitError` precedes it in `ReadLoop`) and puts the window only if `TryLock`
succeeds. Every transition performs ONE event (one lock operation, or one use), so every interleaving
at event granularity is a transition sequence. -/

structure Writer where
  p : Pid
  c : CBuf
  z : Buf
  f : Buf
  compressed : Bool
  client : Bool
deriving Repr, DecidableEq

/-- a writer thread: not started, blocked before `c.mu.Lock()`, or past it with its remaining events -/
inductive Th where
  | absent
  | waiting (w : Writer)
  | running (rest : List Ev)
deriving Repr, DecidableEq

inductive TAct where
  | spawn (w : Writer)     -- a write call starts (callerLend)
  | wLock (p : Pid)        -- writer p acquires c.mu and tests the closed flag
  | wStep (p : Pid)        -- writer p performs its next event
  | setClosed              -- somebody wins the CAS on c.closed
  | rTry                   -- the read loop (finished) reaches the reclamation: TryLock
  | rStep                  -- the read loop performs its next event
deriving Repr, DecidableEq

structure TD where
  m : Buf                              -- c.mu + compression window
  r : Pid                              -- the read loop
  closed : Bool := false
  holder : Option Pid := none          -- who holds c.mu
  thr : Pid → Th := fun _ => .absent   -- the writers
  reader : Option (List Ev) := none    -- the read loop's remaining reclamation events, once it tried
  reclaimed : Bool := false            -- the window has been put
  trace : List Ev := []

namespace TD

/-- the part of `writeFrame` after the `lock` event (a server connection with context takeover: the
window is in use) -/
def body (w : Writer) (m : Buf) : List Ev := (writeFrame w.compressed true w.client w.p w.c m w.z w.f).drop 2

def closedBody (w : Writer) (m : Buf) : List Ev := (writeFrameClosed w.p w.c m).drop 2

def init (m : Buf) (r : Pid) : TD := { m, r }

def step (s : TD) : TAct → Option TD
  | .spawn w =>
    if s.thr w.p = .absent ∧ w.p ≠ s.r ∧ w.z ≠ s.m ∧ w.f ≠ s.m then
      some { s with thr := upd s.thr w.p (.waiting w), trace := s.trace ++ [.callerLend w.c w.p] }
    else none
  | .wLock p =>
    match s.thr p, s.holder with
    | .waiting w, none =>
      some { s with
        holder := some p
        thr := upd s.thr p (.running (if s.closed then closedBody w s.m else body w s.m))
        trace := s.trace ++ [.lock s.m p] }
    | _, _ => none
  | .wStep p =>
    match s.thr p with
    | .running (e :: rest) =>
      some { s with
        holder := if e = .unlock s.m p then none else s.holder
        thr := upd s.thr p (.running rest)
        trace := s.trace ++ [e] }
    | _ => none
  | .setClosed => some { s with closed := true }
  | .rTry =>
    if s.closed = true ∧ s.reader = none then
      match reclaimWindow s.holder.isNone s.r s.m with
      | e :: rest =>
        some { s with holder := if s.holder.isNone then some s.r else s.holder, reader := some rest,
                      trace := s.trace ++ [e] }
      | [] => none
    else none
  | .rStep =>
    match s.reader with
    | some (e :: rest) =>
      some { s with
        holder := if e = .unlock s.m s.r then none else s.holder
        reclaimed := s.reclaimed || (e == .put s.m s.r)
        reader := some rest
        trace := s.trace ++ [e] }
    | _ => none

def run (s : TD) : List TAct → Option TD
  | [] => some s
  | a :: as => (s.step a).bind fun s' => run s' as

end TD

/-! ## Interleavings -/

/-- `l` is an interleaving of `l1` and `l2`: both keep their program order -/
inductive Interleave {α : Type} : List α → List α → List α → Prop where
  | nil : Interleave [] [] []
  | left (e : α) {l1 l2 l : List α} : Interleave l1 l2 l → Interleave (e :: l1) l2 (e :: l)
  | right (e : α) {l1 l2 l : List α} : Interleave l1 l2 l → Interleave l1 (e :: l2) (e :: l)

/-- `l` is an interleaving of all the lists in `ls` -/
inductive InterleaveN : List (List Ev) → List Ev → Prop where
  | nil : InterleaveN [] []
  | cons {l0 l' l : List Ev} {ls : List (List Ev)} : InterleaveN ls l' → Interleave l0 l' l → InterleaveN (l0 :: ls) l

/-- the location an event touches -/
def Ev.loc : Ev → Sum Buf CBuf
  | .buf b _ => .inl b
  | .caller c _ => .inr c

/-- no location is touched by both lists -/
def DisjointLocs (l1 l2 : List Ev) : Prop := ∀ e1 ∈ l1, ∀ e2 ∈ l2, e1.loc ≠ e2.loc

/-! ### Interleavings that share mutex-guarded locations

Two paths on the same connection share `c.mu` (and the window it guards); two connections that were
given the same `deflater` share its scratch buffer and its `flate.Writer` under `dpsLocker` /
`cpsLocker`. Such paths are not over disjoint locations. What protects them is the mutex: a `lock`
of a held mutex is not a violation, it is *not enabled* (the goroutine blocks). `runB` tells the two
apart. -/

inductive Outcome where
  | ok (h : Heap)
  | blocked       -- the first event that could not be performed is a `lock` of a held mutex: not a possible schedule
  | violation     -- the first event that could not be performed violates the ownership protocol

def Ev.isLock : Ev → Bool
  | .buf _ (.lock _) => true
  | _ => false

def runB (h : Heap) : List Ev → Outcome
  | [] => .ok h
  | e :: es =>
    match step h e with
    | some h' => runB h' es
    | none => if e.isLock then .blocked else .violation

/-- the operations a path performs on a mutex-guarded location are a sequence of critical sections:
`lock p`, uses by `p` (allowed for the owner state `o` the location is in: parked, or `p`'s own),
`unlock p` -/
inductive Bracketed (o : Owner) : List BOp → Prop where
  | nil : Bracketed o []
  | sect (p : Pid) (body rest : List BOp) :
      (∀ op ∈ body, (op = .read p ∨ op = .write p) ∧ (o = .guarded ∨ o = .lib p)) →
      Bracketed o rest → Bracketed o (.lock p :: (body ++ .unlock p :: rest))

/-- the library touches the buffer (as opposed to the application, or a mutex operation) -/
def BOp.libTouch : BOp → Bool
  | .get _ | .alloc _ | .put _ | .drop _ | .read _ | .write _ | .handoff _ | .guard _ => true
  | _ => false

/-- `l` is *well owned* from `h`: it runs without violation, and when it ends every location is as it
was before — every buffer taken is back in its pool, every mutex released, every caller payload
returned — except the buffers in `delivered`, which now belong to the application. In particular
nothing is left in the hands of the library. -/
def WellOwned (h : Heap) (l : List Ev) (delivered : List Buf) : Prop :=
  ∃ h', run h l = some h' ∧ h'.lent = h.lent ∧
    ∀ x, h'.cell x = if x ∈ delivered then ⟨.app, (h.cell x).held⟩ else h.cell x

/-! ## Projection to what the pool hook sees -/

/-- what kind of memory a location is, for the hook: `bin` — from `binaryPool` (Get and Put visible);
`gen name` — from a generic pool (only Put is hooked; printed as `name`); `heap` — allocated with
`make`, never pooled; `heapPooled` — allocated with `make` but of a pool capacity, so that
`Message.Close` donates it to the pool (a Put without Get); `mutex` — no memory. -/
inductive Class where
  | bin | gen (name : String) | heap | heapPooled | mutex
deriving Repr, DecidableEq

structure ProjSt where
  next : Nat := 0
  live : List (Buf × Nat) := []
  out : List String := []

def projPut (side : String) (b : Buf) (st : ProjSt) : ProjSt :=
  match st.live.lookup b with
  | some n => { st with live := st.live.filter (·.1 ≠ b), out := st.out ++ [s!"{side}:put:b{n}"] }
  | none => { st with next := st.next + 1, out := st.out ++ [s!"{side}:put:b{st.next}"] }

def projEv (side : String) (cls : Buf → Class) (st : ProjSt) : Ev → ProjSt
  | .buf b (.get _) =>
    match cls b with
    | .bin => { next := st.next + 1, live := (b, st.next) :: st.live, out := st.out ++ [s!"{side}:get:b{st.next}"] }
    | _ => st
  | .buf b (.put _) =>
    match cls b with
    | .bin => projPut side b st
    | .gen name => { st with out := st.out ++ [s!"{side}:put:{name}"] }
    | _ => st
  | .buf b .appClose =>
    match cls b with
    | .bin | .heapPooled => projPut side b st
    | _ => st
  | _ => st

/-- the canonical trace string of the harness (`-` when empty) -/
def project (side : String) (cls : Buf → Class) (l : List Ev) : String :=
  let st := l.foldl (projEv side cls) {}
  if st.out.isEmpty then "-" else ",".intercalate st.out

end Own
