/-!
# Model of the session storage maps (session_storage.go)

`ConcurrentMap` (session_storage.go:95-215) is an array of `num` shards, each a builtin map guarded
by its own mutex; `smap` (session_storage.go:36-90) is one builtin map guarded by one mutex.

Concurrency is modelled as a transition system over **atomic sections**: one action = one critical
section of one shard's mutex.  `Load`, `Store` and `Delete` are one section on the shard of their
key; `ConcurrentMap.Len` is `num` sections (one per shard, in index order) and therefore *not*
atomic; `ConcurrentMap.Range` is one section per shard, the whole iteration of that shard under its
lock.  Any finite list of actions is one interleaving of any number of goroutines.

**Trusted base.**  That a region between `Lock()` and `Unlock()` of one mutex executes atomically
with respect to every other region of the same mutex, and that regions of *different* shards
commute, is assumed, not proved (it is the contract of `sync.Mutex` and of the Go memory model).
The suite `cmapconc` samples real concurrent histories as a plausibility check of that assumption.

Keys and values are `Nat`; the hash function is an arbitrary parameter.  A shard is an association
list; `Shard.size` is its length, which is the number of keys present because keys stay unique
(`Shard.WF`, proved preserved in `Gws.Lemmas.Conc.Map`).
-/

namespace CMap

abbrev Entry := Nat × Nat

/-- one builtin Go map `map[K]V`: association list with (invariantly) unique keys -/
abbrev Shard := List Entry

namespace Shard

/-- `v, ok = m[k]` -/
def load : Shard → Nat → Option Nat
  | [], _ => none
  | (k', v) :: m, k => if k' = k then some v else load m k

/-- `m[k] = v`: overwrite in place if present, else add -/
def store : Shard → Nat → Nat → Shard
  | [], k, v => [(k, v)]
  | (k', v') :: m, k, v => if k' = k then (k, v) :: m else (k', v') :: store m k v

/-- `delete(m, k)` -/
def delete (m : Shard) (k : Nat) : Shard := m.filter (fun e => e.1 != k)

/-- `len(m)` -/
def size (m : Shard) : Nat := m.length

def keys (m : Shard) : List Nat := m.map (·.1)

end Shard

/-- The loop `for k, v := range m { if !f(k, v) { return } }` over the entries in the order `es`
(Go leaves the order unspecified: `es` is any enumeration of the map).  `log` is the list of
callback invocations made so far by this `Range` call; the callback is a function of that history
including the current entry (this covers every deterministic stateful closure).  Returns the new
log and whether the callback's last answer was `true`. -/
def visit (cb : List Entry → Bool) (log : List Entry) : List Entry → List Entry × Bool
  | [] => (log, true)
  | e :: es => if cb (log ++ [e]) then visit cb (log ++ [e]) es else (log ++ [e], false)

/-- `internal.ToBinaryNumber` (internal/utils.go:181): `x := 1; for x < n { x *= 2 }; return x`.
The loop is run with fuel `n`, which never runs out (`CMap.toBinaryNumber_pow2` shows the result is
`≥ n`, i.e. the loop exited through its condition).  The model is over `Nat`: for `n > 2^63` the Go
loop on `uint64` would overflow to 0 and spin forever; such a shard count cannot be allocated
anyway. -/
def toBinaryNumber.loop (n : Nat) : Nat → Nat → Nat
  | 0, x => x
  | fuel + 1, x => if x < n then loop n fuel (x * 2) else x

def toBinaryNumber (n : Nat) : Nat := toBinaryNumber.loop n n 1

/-- construction parameters of a `ConcurrentMap`: the (randomly seeded) hasher and the requested
number of shards (`0` = the default; `NewConcurrentMap()` without arguments passes 0) -/
structure Cfg where
  hash : Nat → Nat
  n : Nat

/-- `num = ToBinaryNumber(SelectValue(num <= 0, 16, num))` -/
def Cfg.num (c : Cfg) : Nat := toBinaryNumber (if c.n = 0 then 16 else c.n)

/-- `GetSharding`: `hashCode & (num - 1)` -/
def Cfg.idx (c : Cfg) (k : Nat) : Nat := c.hash k &&& (c.num - 1)

/-- an in-progress `ConcurrentMap.Len` call: loop index and the local `length` -/
structure LenCall where
  next : Nat
  sum : Nat
deriving Repr, DecidableEq

/-- an in-progress `ConcurrentMap.Range` call: the user callback, the loop index `i`, the variable
`next` of the Go code (`go`) and the list of callback invocations made so far -/
structure RangeCall where
  cb : List Entry → Bool
  next : Nat
  go : Bool
  log : List Entry

structure State where
  shards : List Shard
  /-- in-progress (or completed) `Len` calls by call id -/
  lens : Nat → Option LenCall
  ranges : Nat → Option RangeCall

def upd {α : Type} (f : Nat → Option α) (id : Nat) (v : α) : Nat → Option α :=
  fun i => if i = id then some v else f i

namespace State

/-- `NewConcurrentMap`: `num` empty shards -/
def init (c : Cfg) : State :=
  { shards := List.replicate c.num [], lens := fun _ => none, ranges := fun _ => none }

/-- `c.shardings[i]` -/
def shard (s : State) (i : Nat) : Shard := s.shards.getD i []

def setShard (s : State) (i : Nat) (m : Shard) : State := { s with shards := s.shards.set i m }

/-- `ConcurrentMap.Load`: one critical section on the key's shard -/
def load (c : Cfg) (s : State) (k : Nat) : Option Nat := (s.shard (c.idx k)).load k

/-- `ConcurrentMap.Store`: one critical section on the key's shard -/
def store (c : Cfg) (s : State) (k v : Nat) : State :=
  s.setShard (c.idx k) ((s.shard (c.idx k)).store k v)

/-- `ConcurrentMap.Delete`: one critical section on the key's shard -/
def delete (c : Cfg) (s : State) (k : Nat) : State :=
  s.setShard (c.idx k) ((s.shard (c.idx k)).delete k)

/-- total number of entries (what an atomic `Len` would return) -/
def size (s : State) : Nat := (s.shards.map Shard.size).sum

/-- entries in the shards not yet visited by a loop whose index is `n` -/
def restSize (s : State) (n : Nat) : Nat := ((s.shards.drop n).map Shard.size).sum

end State

/-- atomic actions; a list of actions is an interleaving -/
inductive Act
  | load (k : Nat)
  | store (k v : Nat)
  | delete (k : Nat)
  /-- a goroutine calls `Len` (no shard touched yet); `id` names the call -/
  | lenStart (id : Nat)
  /-- call `id` locks its next shard, adds that shard's `len`, unlocks -/
  | lenStep (id : Nat)
  /-- a goroutine calls `Range(cb)` -/
  | rangeStart (id : Nat) (cb : List Entry → Bool)
  /-- call `id` locks its next shard and iterates over it in the order `order` (any enumeration of
  the shard's entries) until the end or until the callback returns false, then unlocks -/
  | rangeStep (id : Nat) (order : List Entry)

/-- One atomic section.  `none` = the action is not enabled in this state (unknown or re-used call
id, a loop that has already ended, an `order` that is not an enumeration of the shard). -/
def step (c : Cfg) (s : State) : Act → Option State
  | .load _ => some s
  | .store k v => some (s.store c k v)
  | .delete k => some (s.delete c k)
  | .lenStart id =>
    match s.lens id with
    | none => some { s with lens := upd s.lens id { next := 0, sum := 0 } }
    | some _ => none
  | .lenStep id =>
    match s.lens id with
    | some lc =>
      if lc.next < c.num then
        some { s with lens := upd s.lens id { next := lc.next + 1, sum := lc.sum + (s.shard lc.next).size } }
      else none
    | none => none
  | .rangeStart id cb =>
    match s.ranges id with
    | none => some { s with ranges := upd s.ranges id { cb := cb, next := 0, go := true, log := [] } }
    | some _ => none
  | .rangeStep id order =>
    match s.ranges id with
    | some rc =>
      if rc.go = true ∧ rc.next < c.num ∧ order.Perm (s.shard rc.next) then
        let r := visit rc.cb rc.log order
        some { s with ranges := upd s.ranges id { rc with next := rc.next + 1, go := r.2, log := r.1 } }
      else none
    | none => none

/-- run an interleaving; `none` if some action was not enabled -/
def run (c : Cfg) (s : State) : List Act → Option State
  | [] => some s
  | a :: tr => match step c s a with
    | some s' => run c s' tr
    | none => none

/-- the return value of `Len` call `id`, once its loop has ended -/
def lenResult (c : Cfg) (s : State) (id : Nat) : Option Nat :=
  match s.lens id with
  | some lc => if lc.next = c.num then some lc.sum else none
  | none => none

/-- `Range` call `id` has returned (or will return without touching the map again) -/
def rangeDone (c : Cfg) (s : State) (id : Nat) : Bool :=
  match s.ranges id with
  | some rc => rc.next == c.num || !rc.go
  | none => false

/-! ## The specification: one plain map, operations applied one at a time -/

abbrev Spec := Nat → Option Nat

def Spec.store (m : Spec) (k v : Nat) : Spec := fun k' => if k' = k then some v else m k'
def Spec.delete (m : Spec) (k : Nat) : Spec := fun k' => if k' = k then none else m k'

/-- abstraction function: the value of `k` is whatever the shard selected for `k` holds -/
def abs (c : Cfg) (s : State) : Spec := fun k => (s.shard (c.idx k)).load k

/-- the spec map after the single-section operations of a trace, applied sequentially in trace order -/
def Spec.run (m : Spec) : List Act → Spec
  | [] => m
  | .store k v :: tr => Spec.run (m.store k v) tr
  | .delete k :: tr => Spec.run (m.delete k) tr
  | _ :: tr => Spec.run m tr

/-- results of the `Load`s of a trace when run sequentially on the spec map in trace order -/
def Spec.loads (m : Spec) : List Act → List (Option Nat)
  | [] => []
  | .load k :: tr => m k :: Spec.loads m tr
  | .store k v :: tr => Spec.loads (m.store k v) tr
  | .delete k :: tr => Spec.loads (m.delete k) tr
  | _ :: tr => Spec.loads m tr

/-- results returned by the model's `Load` sections along an interleaving -/
def loads (c : Cfg) (s : State) : List Act → List (Option Nat)
  | [] => []
  | a :: tr => match step c s a with
    | some s' => (match a with | .load k => [s.load c k] | _ => []) ++ loads c s' tr
    | none => []

/-- 1 if the action is a `Store` section that adds a key which is absent, else 0 -/
def insertsKey (c : Cfg) (s : State) : Act → Nat
  | .store k _ => if abs c s k = none then 1 else 0
  | _ => 0

/-- 1 if the action is a `Delete` section that removes a key which is present, else 0 -/
def removesKey (c : Cfg) (s : State) : Act → Nat
  | .delete k => if abs c s k = none then 0 else 1
  | _ => 0

/-- number of `Store` sections in the interleaving that added a key which was absent -/
def inserts (c : Cfg) (s : State) : List Act → Nat
  | [] => 0
  | a :: tr => match step c s a with
    | some s' => insertsKey c s a + inserts c s' tr
    | none => 0

/-- number of `Delete` sections in the interleaving that removed a key which was present -/
def removes (c : Cfg) (s : State) : List Act → Nat
  | [] => 0
  | a :: tr => match step c s a with
    | some s' => removesKey c s a + removes c s' tr
    | none => 0

/-- the entry `k ↦ v` is present with that value in every state the interleaving passes through -/
def stable (c : Cfg) (k v : Nat) (s : State) : List Act → Prop
  | [] => abs c s k = some v
  | a :: tr => abs c s k = some v ∧ match step c s a with
    | some s' => stable c k v s' tr
    | none => True

/-- state invariant: `num` shards, keys unique inside a shard, every key lives in the shard its hash
selects -/
structure WF (c : Cfg) (s : State) : Prop where
  len : s.shards.length = c.num
  nodup : ∀ i, (s.shard i).keys.Nodup
  home : ∀ i k, k ∈ (s.shard i).keys → c.idx k = i

end CMap

/-! ## `smap`: one map, one mutex, every method a single critical section -/

namespace SMap
open CMap

/-- atomic actions of `smap`; `Len` and `Range` hold the only mutex for their whole duration -/
inductive Act
  | load (k : Nat)
  | store (k v : Nat)
  | delete (k : Nat)
  | len
  /-- `Range(cb)` iterating in the order `order` -/
  | range (cb : List Entry → Bool) (order : List Entry)

/-- what a section returns -/
inductive Ret
  | unit
  | val (r : Option Nat)
  | len (n : Nat)
  /-- the callback invocations made by a `Range`, in order, and the callback's last answer -/
  | visited (log : List Entry) (go : Bool)
deriving Repr, DecidableEq

/-- one method call = one critical section on `c.data` -/
def step (m : Shard) : Act → Option (Shard × Ret)
  | .load k => some (m, .val (m.load k))
  | .store k v => some (m.store k v, .unit)
  | .delete k => some (m.delete k, .unit)
  | .len => some (m, .len m.size)
  | .range cb order =>
    if order.Perm m then
      let r := visit cb [] order
      some (m, .visited r.1 r.2)
    else none

def run (m : Shard) : List Act → Option (Shard × List Ret)
  | [] => some (m, [])
  | a :: tr => match step m a with
    | some (m', r) => (run m' tr).map fun (m'', rs) => (m'', r :: rs)
    | none => none

def abs (m : Shard) : Spec := fun k => m.load k

/-- effect of a method on the plain map -/
def specNext (m : Spec) : Act → Spec
  | .store k v => m.store k v
  | .delete k => m.delete k
  | _ => m

/-- `r` is a correct result for the method executed atomically on the plain map `m`: `Load` returns
the value; `Len` returns the number of keys present; `Range` passes each key at most once, only
entries of `m`, stops at the first `false` from the callback (every invocation followed by another
one had returned true; `go` is the last answer), and passes every entry if it was never told to
stop. -/
def specOk (m : Spec) : Act → Ret → Prop
  | .load k, .val r => r = m k
  | .store _ _, .unit => True
  | .delete _, .unit => True
  | .len, .len n => ∃ keys : List Nat, keys.Nodup ∧ keys.length = n ∧ ∀ k, k ∈ keys ↔ m k ≠ none
  | .range cb _, .visited log go =>
    (log.map (·.1)).Nodup ∧ (∀ e ∈ log, m e.1 = some e.2) ∧
    (∀ i, i + 1 < log.length → cb (log.take (i + 1)) = true) ∧
    (log ≠ [] → cb log = go) ∧ (log = [] → go = true) ∧
    (go = true → ∀ k v, m k = some v → (k, v) ∈ log)
  | _, _ => False

/-- the sequential specification accepts the history: every result is correct for the plain map
obtained by applying the preceding methods one at a time -/
def accepts (m : Spec) : List Act → List Ret → Prop
  | [], [] => True
  | a :: tr, r :: rs => specOk m a r ∧ accepts (specNext m a) tr rs
  | _, _ => False

end SMap
