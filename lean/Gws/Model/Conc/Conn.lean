import Gws.Generated.Facts
/-!
# Connection protocol as a transition system over atomic sections (writer.go, writefile.go, conn.go)

Actors are goroutines inside one gws call: a `doWrite` (any single-frame write API), a `WriteFile`,
a broadcast `writeFrame`, a closer (`WriteClose`, or `emitError`/`emitClose` run by any goroutine),
and the `ReadLoop`.  An action is what an actor does between two scheduling points: one CAS, one
"acquire `c.mu` + closed-check", one "transport write + window update + release", one transport
close, one callback.  The scheduling points are the `verifSched` hook points in the source, so a
schedule of this model can be replayed on the real code one action at a time.

A state is reachable by any finite action sequence with any number of actors spawned at any time:
an invariant proved for `step` holds under every interleaving and every fault position.  The
environment decides, per transport write, whether it fails (`fault`); writes on a closed transport
always fail.  Where the broadcast path tests `closed` (before or after taking the lock) is read from
`Facts.bcClosedCheckUnderLock`, i.e. from the current source.

Assumed (trusted base): a `mu.Lock() … Unlock()` region is atomic w.r.t. other regions of `c.mu`;
`atomic.CompareAndSwapUint32` is atomic; each frame is handed to the transport in one `Write`.
-/

namespace Conc

/-- what an actor's call eventually returns / reports -/
inductive Ret where
  | ok
  | closed          -- ErrConnClosed
  | rejected        -- ErrTextEncoding / ErrMessageTooLarge (content)
  | ioErr           -- the transport write failed
deriving Repr, DecidableEq

/-- one frame handed to the transport by one `Write` call -/
inductive Frame where
  | data (owner : Nat) (idx : Nat) (last : Bool)   -- frame `idx` of the message actor `owner` is sending
  | close (owner : Nat)
deriving Repr, DecidableEq

def Frame.isClose : Frame → Bool
  | .close _ => true
  | _ => false

inductive Inbound where
  | msg            -- a complete data/ping/pong message: one callback
  | peerClose      -- a Close frame from the peer: emitClose
  | readErr        -- protocol violation, I/O error or EOF: emitError(true, err)
deriving Repr, DecidableEq

inductive Kind where
  | write (rejected : Bool)     -- doWrite of one frame; `rejected`: genFrame refuses the content
  | file (n : Nat)              -- WriteFile that would produce n+1 frames
  | bcast                       -- Broadcaster.writeFrame
  | closer                      -- WriteClose
  | reader (script : List Inbound)
deriving Repr, DecidableEq

/-- what follows an actor's close sequence (emitError / emitClose / WriteClose) -/
inductive Cont where
  | ret (r : Ret)               -- return r to the caller
  | readerOnClose               -- the ReadLoop goes on to OnClose
  | readerAgain                 -- emitClose returned: ReadLoop now calls emitError(true, CloseNormalClosure)
deriving Repr, DecidableEq

inductive Pc where
  | idle
  | wLock (rejected : Bool)               -- doWrite: before `c.mu.Lock()`
  | wWrite                                -- doWrite: holding mu, check passed, before the transport write
  | fLock (n : Nat)                       -- doWriteFile: before Lock
  | fCheck (i n : Nat)                    -- holding mu, before the closed test of frame i (of 0..n)
  | bStart                                -- writeFrame: entry (only distinct when the check precedes the lock)
  | bLock                                 -- writeFrame: before Lock
  | bWrite                                -- holding mu, before the transport write
  | cCas (k : Cont)                       -- before CompareAndSwap(&closed, 0, 1)
  | kLock (k : Cont)                      -- CAS won, cause stored; doWrite(Close): before Lock
  | kWrite (k : Cont)                     -- holding mu, before writing the Close frame
  | cTclose (k : Cont)                    -- before conn.Close()
  | rOpen (script : List Inbound)         -- ReadLoop: before OnOpen
  | rLoop (script : List Inbound)         -- ReadLoop: before the next readMessage
  | rOnClose                              -- before handler.OnClose
  | done (r : Ret)
deriving Repr, DecidableEq

/-- is the actor inside a `c.mu` critical section -/
def Pc.holdsLock : Pc → Bool
  | .wWrite | .fCheck _ _ | .bWrite | .kWrite _ => true
  | _ => false

inductive Cb where
  | opened
  | message
  | closedCb (causeStored : Bool)     -- OnClose; the argument is the stored cause, or `errEmpty` (both non-nil)
deriving Repr, DecidableEq

structure State where
  closed : Bool := false
  tclosed : Bool := false
  winner : Option Nat := none         -- ghost: who won the CAS
  causeStored : Bool := false
  wire : List Frame := []             -- frames accepted by the transport, in order
  partialAfter : Bool := false        -- a failed write may have left a partial frame at the end of the wire
  pcs : List (Nat × Pc) := []         -- actors by id (ids are unique: `spawn` requires a fresh id)
  cbs : List Cb := []
deriving Repr, DecidableEq

def State.pc (s : State) (a : Nat) : Pc := ((s.pcs.find? (·.1 == a)).map (·.2)).getD .idle

def State.setPc (s : State) (a : Nat) (p : Pc) : State :=
  { s with pcs := (a, p) :: s.pcs.filter (·.1 != a) }

def State.lockHeld (s : State) : Bool := s.pcs.any (·.2.holdsLock)

inductive Action where
  | spawn (a : Nat) (k : Kind)
  | act (a : Nat) (fault : Bool)      -- actor a performs its next atomic section; `fault`: a transport write in it fails
deriving Repr, DecidableEq

/-- a transport write of frame `f`: accepted unless the transport is closed or the environment fails it -/
def State.tryWrite (s : State) (f : Frame) (fault : Bool) : State × Bool :=
  if s.tclosed then (s, false)
  else if fault then ({ s with partialAfter := true }, false)
  else ({ s with wire := s.wire ++ [f] }, true)

def startPc : Kind → Pc
  | .write r => .wLock r
  | .file n => .fLock n
  | .bcast => if Facts.bcClosedCheckUnderLock then .bLock else .bStart
  | .closer => .cCas (.ret .ok)
  | .reader sc => .rOpen sc

def step (s : State) : Action → Option State
  | .spawn a k => if s.pc a = .idle ∧ ¬ s.pcs.any (·.1 == a) then some (s.setPc a (startPc k)) else none
  | .act a fault =>
    match s.pc a with
    | .idle | .done _ => none
    -- doWrite --------------------------------------------------------------------------------
    | .wLock rejected =>
      if s.lockHeld then none                                   -- blocked on the mutex
      else if s.closed then some (s.setPc a (.cCas (.ret .closed)))   -- ErrConnClosed; WriteMessage then calls emitError(false, err)
      else if rejected then some (s.setPc a (.cCas (.ret .rejected)))  -- genFrame error: released, then emitError(false, err)
      else some (s.setPc a .wWrite)
    | .wWrite =>
      let (s1, ok) := s.tryWrite (.data a 0 true) fault
      some (s1.setPc a (if ok then .done .ok else .cCas (.ret .ioErr)))
    -- doWriteFile ----------------------------------------------------------------------------
    | .fLock n => if s.lockHeld then none else some (s.setPc a (.fCheck 0 n))
    | .fCheck i n =>
      if s.closed then some (s.setPc a (.cCas (.ret .closed)))
      else
        let (s1, ok) := s.tryWrite (.data a i (i == n)) fault
        if ¬ ok then some (s1.setPc a (.cCas (.ret .ioErr)))
        else if i == n then some (s1.setPc a (.done .ok))
        else some (s1.setPc a (.fCheck (i + 1) n))
    -- Broadcaster.writeFrame -----------------------------------------------------------------
    | .bStart =>                                                -- closed test BEFORE the lock (Facts.bcClosedCheckUnderLock = false)
      if s.closed then some (s.setPc a (.cCas (.ret .closed))) else some (s.setPc a .bLock)
    | .bLock =>
      if s.lockHeld then none
      else if Facts.bcClosedCheckUnderLock ∧ s.closed then some (s.setPc a (.cCas (.ret .closed)))
      else some (s.setPc a .bWrite)
    | .bWrite =>
      let (s1, ok) := s.tryWrite (.data a 0 true) fault
      some (s1.setPc a (if ok then .done .ok else .cCas (.ret .ioErr)))
    -- close sequence: emitError / emitClose / WriteClose -----------------------------------------
    | .cCas k =>
      if s.closed then
        some (s.setPc a (match k with
          | .ret .ok => .done .closed          -- WriteClose on a closed connection: ErrConnClosed
          | .ret r => .done r
          | .readerOnClose => .rOnClose
          | .readerAgain => .cCas .readerOnClose))
      else some ({ s with closed := true, winner := some a, causeStored := true }.setPc a (.kLock k))
    | .kLock k => if s.lockHeld then none else some (s.setPc a (.kWrite k))   -- no closed test for the Close opcode
    | .kWrite k =>
      let (s1, ok) := s.tryWrite (.close a) fault
      -- WriteClose returns the error of writing the Close frame
      some (s1.setPc a (.cTclose (if ¬ ok ∧ k = .ret .ok then .ret .ioErr else k)))
    | .cTclose k =>
      some ({ s with tclosed := true }.setPc a (match k with
        | .ret r => .done r
        | .readerOnClose => .rOnClose
        | .readerAgain => .cCas .readerOnClose))
    -- ReadLoop -------------------------------------------------------------------------------
    | .rOpen sc => some ({ s with cbs := s.cbs ++ [Cb.opened] }.setPc a (.rLoop sc))
    | .rLoop [] => some (s.setPc a (.cCas .readerOnClose))       -- end of input: read error
    | .rLoop (.msg :: sc) => some ({ s with cbs := s.cbs ++ [Cb.message] }.setPc a (.rLoop sc))
    | .rLoop (.peerClose :: _) => some (s.setPc a (.cCas .readerAgain))
    | .rLoop (.readErr :: _) => some (s.setPc a (.cCas .readerOnClose))
    | .rOnClose => some ({ s with cbs := s.cbs ++ [Cb.closedCb s.causeStored] }.setPc a (.done .ok))

def run (s : State) : List Action → Option State
  | [] => some s
  | x :: xs => match step s x with
    | none => none
    | some s' => run s' xs

/-- reachable from the initial state -/
def Reachable (s : State) : Prop := ∃ xs, run {} xs = some s

end Conc
