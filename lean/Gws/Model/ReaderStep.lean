import Gws.Model.Frame
import Gws.Model.Close
import Gws.Model.Codec
import Gws.Model.Window
import Gws.Model.Mask
import Gws.Model.Pool
/-!
# Model of the read path (reader.go, conn.go:96-159)

Input: the byte stream the connection receives after the handshake, followed by end-of-stream.
`step` is one call of `readMessage`; `readLoop` is `ReadLoop`'s `for` with the error path
(`emitError(true, err)` / `emitClose`).  Checks are in the code's order.  Where Go would panic the
model returns an explicit `panic` outcome.
-/

namespace Reader

structure Cfg where
  isServer : Bool
  pdEnabled : Bool
  readMax : Int            -- ReadMaxPayloadSize (positive after option normalisation)
  checkUtf8 : Bool
deriving Repr

/-- `continuationFrame` -/
structure Cont where
  initialized : Bool := false
  compressed : Bool := false
  opcode : Nat := 0
  buffer : Bytes := []
deriving Repr

structure State where
  cont : Cont := {}
  dps : Win := Win.disabled     -- decompression window of this direction
deriving Repr

/-- a callback delivered to the application -/
inductive Ev where
  | msg (opcode : Nat) (payload : Bytes)
  | ping (payload : Bytes)
  | pong (payload : Bytes)
deriving Repr, DecidableEq

/-- why the loop ended -/
inductive End where
  | err (e : Close.ReadErr)                  -- readMessage returned an error: emitError(true, e)
  | peerClose (pc : Close.PeerClose)          -- a Close frame arrived: emitClose
  | panic (what : String)
deriving Repr, DecidableEq

inductive Step where
  | ok (st : State) (evs : List Ev) (rest : Bytes)
  | stop (evs : List Ev) (e : End)
deriving Repr

def toKey (k : Bytes) : Mask.Key :=
  match k with
  | [a, b, c, d] => ⟨a.toBitVec, b.toBitVec, c.toBitVec, d.toBitVec⟩
  | _ => ⟨0, 0, 0, 0⟩

/-- `internal.MaskXOR(p, key)` at the `UInt8` boundary -/
def unmask (key : Bytes) (p : Bytes) : Bytes :=
  (Mask.maskXOR (toKey key) (p.map (·.toBitVec))).map UInt8.ofBitVec

def protoErr : End := .err (.status Facts.closeProtocolError)
def tooLarge : End := .err (.status Facts.closeMessageTooLarge)
def ioErr : End := .err .other

/-- `emitMessage` (sequential dispatch) -/
def emitMessage (cfg : Cfg) (codec : Codec) (st : State) (opcode : Nat) (data : Bytes) (compressed : Bool) :
    (State × Option Ev) ⊕ End :=
  if compressed then
    match codec.decompress cfg.readMax st.dps.dict data with
    | .ok out =>
      let st' := { st with dps := st.dps.write out }
      if !Utf8.checkEncoding cfg.checkUtf8 opcode out then .inr (.err (.coded Facts.closeUnsupportedData))
      else .inl (st', some (.msg opcode out))
    | _ => .inr (.err (.coded Facts.closeInternalErr))
  else
    if !Utf8.checkEncoding cfg.checkUtf8 opcode data then .inr (.err (.coded Facts.closeUnsupportedData))
    else .inl (st, some (.msg opcode data))

/-- `readControl` after the header checks of `readMessage` -/
def readControl (cfg : Cfg) (st : State) (h : Frame.Hdr) (rest : Bytes) : Step :=
  if !Frame.getFIN h.b0 then .stop [] protoErr
  else
    let n := Frame.getLengthCode h.b1
    if n > Facts.thresholdV1 then .stop [] protoErr
    else if rest.length < n then .stop [] ioErr
    else
      let raw := rest.take n
      let payload := if n > 0 ∧ Frame.getMask h.b1 then unmask h.key raw else raw
      let rest' := rest.drop n
      let opcode := Frame.getOpcode h.b0
      if opcode = Facts.opPing then .ok st [.ping payload] rest'
      else if opcode = Facts.opPong then .ok st [.pong payload] rest'
      else if opcode = Facts.opClose then .stop [] (.peerClose (Close.emitClose cfg.checkUtf8 payload))
      else .stop [] (.err (.coded Facts.closeProtocolError))

/-- the header checks of `readMessage` that precede any payload read, in the code's order;
`none` = passed -/
def headerCheck (cfg : Cfg) (h : Frame.Hdr) : Option End :=
  if h.len < 0 ∨ h.len > cfg.readMax then some tooLarge
  else
  let opcode := Frame.getOpcode h.b0
  if Frame.getRSV2 h.b0 ∨ Frame.getRSV3 h.b0 ∨
      (Frame.getRSV1 h.b0 ∧ ¬ (cfg.pdEnabled ∧ (opcode = Facts.opText ∨ opcode = Facts.opBinary))) then some protoErr
  else
  let maskOn := Frame.getMask h.b1
  if (cfg.isServer ∧ ¬ maskOn) ∨ (¬ cfg.isServer ∧ maskOn) then some protoErr
  else none

/-- the part of `readMessage` that follows the payload read of a data frame: `p` is the unmasked
payload, `rest` the unread input -/
def afterPayload (cfg : Cfg) (codec : Codec) (st : State) (h : Frame.Hdr) (p rest : Bytes) : Step :=
  let opcode := Frame.getOpcode h.b0
  let fin := Frame.getFIN h.b0
  let compressed := cfg.pdEnabled && Frame.getRSV1 h.b0
  if opcode ≠ Facts.opContinuation ∧ st.cont.initialized then .stop [] protoErr
  else if fin ∧ opcode ≠ Facts.opContinuation then
    match emitMessage cfg codec st opcode p compressed with
    | .inl (st', ev) => .ok st' ev.toList rest
    | .inr e => .stop [] e
  else
  let cont : Cont :=
    if ¬ fin ∧ opcode ≠ Facts.opContinuation then
      { initialized := true, compressed := compressed, opcode := opcode, buffer := [] }
    else st.cont
  if ¬ cont.initialized then .stop [] protoErr
  else
  let cont := { cont with buffer := cont.buffer ++ p }
  if (cont.buffer.length : Int) > cfg.readMax then .stop [] tooLarge
  else if ¬ fin then .ok { st with cont := cont } [] rest
  else
    match emitMessage cfg codec { st with cont := {} } cont.opcode cont.buffer cont.compressed with
    | .inl (st', ev) => .ok st' ev.toList rest
    | .inr e => .stop [] e

/-- a data frame after the header checks: buffer allocation, payload read, unmasking -/
def dataFrame (cfg : Cfg) (codec : Codec) (st : State) (h : Frame.Hdr) (rest : Bytes) : Step :=
  let n := h.len.toNat
  -- buf = binaryPool.Get(contentLength + len(flateTail)); p = buf.Bytes()[:contentLength]
  if Pool.cap (n + Facts.flateTail.length) < n then .stop [] (.panic "slice bounds out of range")
  else if rest.length < n then .stop [] ioErr
  else
  let raw := rest.take n
  let p := if Frame.getMask h.b1 then unmask h.key raw else raw
  afterPayload cfg codec st h p (rest.drop n)

/-- one `readMessage` -/
def step (cfg : Cfg) (codec : Codec) (st : State) (b : Bytes) : Step :=
  match Frame.parse b with
  | .needMore => .stop [] ioErr
  | .ok h rest =>
    match headerCheck cfg h with
    | some e => .stop [] e
    | none =>
      if Frame.getOpcode h.b0 > Facts.dataFrameMaxOpcode then readControl cfg st h rest
      else dataFrame cfg codec st h rest

end Reader

