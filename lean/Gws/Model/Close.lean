import Gws.Model.Frame
import Gws.Model.Utf8
/-!
# Model of close-status handling (conn.go:136-198, writer.go:17-40, internal/error.go)

The literals of the classification in `emitClose` come from `Facts` (regenerated from the source).
-/
namespace Close

/-- `StatusCode.Bytes()` -/
def statusBytes (c : Nat) : Bytes :=
  if c = 0 then [] else [UInt8.ofNat (c / 256 % 256), UInt8.ofNat (c % 256)]

/-- what `emitClose` computes from the body of a received Close frame -/
structure PeerClose where
  realCode : Nat      -- reported to the application
  reason : Bytes      -- reported to the application
  response : Nat      -- status sent back; 0 = empty body
deriving Repr, DecidableEq

/-- the `switch realCode` / range test of `emitClose` -/
def classify (realCode : Nat) : Nat :=
  if realCode ∈ Facts.closeListed1002 then Facts.closeProtocolError
  else if realCode < Facts.closeBelow1002 ∨ realCode ≥ Facts.closeFrom1002 ∨
      (realCode ≥ Facts.closeResLo1002 ∧ realCode < Facts.closeResHi1002) then Facts.closeProtocolError
  else if realCode < Facts.closeNormalBelow then Facts.closeNormalClosure
  else realCode

def emitClose (checkUtf8 : Bool) (body : Bytes) : PeerClose :=
  match body with
  | [] => { realCode := 0, reason := [], response := 0 }
  | [x] => { realCode := x.toNat, reason := [], response := Facts.closeProtocolError }
  | a :: b :: reason =>
    let realCode := Frame.be16 a b
    let r0 := classify realCode
    let r := if !Utf8.checkEncoding checkUtf8 Facts.opClose reason then Facts.closeUnsupportedData else r0
    { realCode, reason, response := r }

/-- `writeClose`: the Close body is cut to `ThresholdV1` bytes -/
def cutBody (body : Bytes) : Bytes :=
  if body.length > Facts.closeBodyCut then body.take Facts.closeBodyCut else body

/-- `WriteClose(code, reason)`: the body of the Close frame a locally requested close sends -/
def localCloseBody (code : Nat) (reason : Bytes) : Bytes :=
  let code' := if code < Facts.localCloseMinCode then Facts.localCloseRaisedTo else code
  cutBody (statusBytes code' ++ reason)

/-- `closeViaWrite(body)`: a Close payload handed to a generic write API is split into the status and the reason
that `WriteClose` is then called with -/
def viaWriteSplit (body : Bytes) : Nat × Bytes :=
  match body with
  | a :: b :: reason => (Frame.be16 a b, reason)
  | _ => (Facts.closeNormalClosure, [])

/-- `emitError(reading = true, err)`: status sent for an error of the read path.
`status c` = an `internal.StatusCode`; `coded c` = an `*internal.Error` with that code;
`other` = any other error (I/O): the code sends 1000. -/
inductive ReadErr where
  | status (c : Nat)
  | coded (c : Nat)
  | other
deriving Repr, DecidableEq

def ReadErr.sendCode : ReadErr → Nat
  | .status c => c
  | .coded c => c
  | .other => Facts.closeNormalClosure

end Close
