import Gws.Basic
import Gws.Generated.Facts
/-!
# The DEFLATE library as a parameter

`inflate dict data` is what `flate.Reader` produces after `Reset(src, dict)` on the whole of `data`
(`none` = the library reports an error).  `compress bits dict chunks` is what
`ResetDict(w, dict); Write(chunk)*; Flush()` emits.  Their laws, where a theorem needs them, are
explicit hypotheses stated against the Lean RFC 1951 inflater (`Spec/Inflate`), never axioms.
-/

structure Codec where
  inflate : (dict : Bytes) → (data : Bytes) → Option Bytes
  compress : (bits : Nat) → (dict : Bytes) → (chunks : List Bytes) → Bytes

namespace Codec

def flateTail : Bytes := Facts.flateTail.map UInt8.ofNat

inductive DecompRes where
  | ok (out : Bytes)
  | libError            -- flate reported corrupt input / unexpected EOF
  | tooLarge            -- the limited reader saw more than `limit` bytes
deriving Repr, DecidableEq

/-- `deflater.Decompress(src, dict)`: append the tail, reset with the dictionary, copy through the
limited reader (`N > M` fails). -/
def decompress (c : Codec) (limit : Int) (dict data : Bytes) : DecompRes :=
  match c.inflate dict (data ++ flateTail) with
  | none => .libError
  | some out => if (out.length : Int) > limit then .tooLarge else .ok out

end Codec
