import Gws.Model.Reader
import Gws.Spec.Rfc6455
/-!
# The relation between the read-path model and the RFC receiver spec

Shared by the property theorems (C03, C04, C13, C16) and by the driver, which evaluates it on every
correspondence case (`spec` column).
-/
namespace Reader

def specCtx (cfg : Cfg) (st : State) : Spec.Ctx :=
  { isServer := cfg.isServer, ext := cfg.pdEnabled, keepCtx := st.dps.enabled, winSize := st.dps.size,
    limit := cfg.readMax, utf8 := cfg.checkUtf8 }

def Ev.toSpec : Ev → Spec.Ev
  | .msg op p => .msg op p
  | .ping p => .ping p
  | .pong p => .pong p

/-- does the way the model's loop ended satisfy what the spec allows -/
def endOk (s : Spec.Ending) (e : End) : Bool :=
  match s, e with
  | .fail allowed ioAlso, .err re => if re = .other then ioAlso else decide (re.sendCode ∈ allowed)
  | .peerClose code reason replies, .peerClose pc =>
    decide (pc.realCode = code) && decide (pc.reason = reason) && decide ((End.peerClose pc).replyStatus ∈ replies)
  | .eof, .err re => decide (re = .other)
  | _, _ => false

/-- the model's trace is one the spec allows -/
def traceOk (s : Spec.Trace) (t : Trace) : Bool :=
  decide (t.evs.map Ev.toSpec = s.evs) && endOk s.ending t.ending

end Reader
