import Gws.Model.Writer
import Gws.Model.Reader
/-!
# Sender and receiver composed: the wire of a sequence of write calls (definitions for C01)

One direction of one connection.  The sender is the `Writer` model (its `Cfg`, its `Conn` state: the
compression window `cps` and the `closed` flag), the receiver the `Reader` model of the peer.  A
`Call` is one call of a write API together with the mask keys its frames draw; `runCalls` threads
the sender's state through a list of calls and concatenates what each call hands to the transport,
in call order — calls on one connection are serialised by `c.mu` (C07/C08), and the transport is a
reliable byte stream, so this concatenation is what the peer's `ReadLoop` reads.

Nothing here is a law or an assumption: the laws of the DEFLATE library that the compressed
theorems need are the *named predicates* `RoundTrip`, `DictFree`, `MinOut` on the `Codec`
parameter, which appear as explicit hypotheses.
-/

namespace Compose

/-- one call of a write API that sends a data message or a Ping/Pong -/
inductive Send where
  /-- `WriteMessage` / `WriteString` (`payload = [p]`), `Writev` (`payload` = the slices), and, once
  dequeued, `WriteAsync` / `WritevAsync`: one frame -/
  | msg (opcode : Nat) (payload : List Bytes)
  /-- `WritePing` -/
  | ping (payload : Bytes)
  /-- `WritePong` -/
  | pong (payload : Bytes)
  /-- `WriteFile`: `reads` is the script of the `io.Reader`, `outs` the cutting of the compressor's
  output into `Write` calls (consulted only when permessage-deflate is negotiated) -/
  | file (opcode : Nat) (reads : Writer.ReaderScript) (outs : List Bytes)
  /-- `Broadcaster.Broadcast(conn)`: the shared frame was built once, with key `bkey`, under the
  configuration `bcfg` and window `bcps` of whichever connection the broadcaster met first -/
  | bcast (opcode : Nat) (payload : Bytes) (bcfg : Writer.Cfg) (bcps : Win) (bkey : Bytes)

structure Call where
  send : Send
  /-- `keys i` = the mask key drawn for the i-th frame the call generates -/
  keys : Nat → Bytes

/-- the call on the `Writer` model -/
def Call.run (cfg : Writer.Cfg) (codec : Codec) (st : Writer.Conn) (c : Call) : Writer.Out :=
  match c.send with
  | .msg op p => Writer.writeMessage cfg codec st op p c.keys
  | .ping p => Writer.writeMessage cfg codec st Facts.opPing [p] c.keys
  | .pong p => Writer.writeMessage cfg codec st Facts.opPong [p] c.keys
  | .file op reads outs => Writer.writeFile cfg codec st op reads outs c.keys
  | .bcast op p bcfg bcps bkey =>
    Writer.broadcast cfg codec st (Writer.broadcastFrame bcfg codec bcps op p bkey) p (c.keys 0)

/-- what the application asked to send: the callback the peer's handler must see -/
def Send.event : Send → Reader.Ev
  | .msg op p => .msg op p.flatten
  | .ping p => .ping p
  | .pong p => .pong p
  | .file op reads _ => .msg op (Writer.readChunks reads).1.flatten
  | .bcast op p _ _ _ => .msg op p

/-- result of a sequence of calls -/
structure Sent where
  /-- everything handed to the transport, in order -/
  wire : Bytes
  /-- the errors the calls returned -/
  errs : List Writer.WErr
  st : Writer.Conn

/-- the calls one after the other on one connection (wire order = call order) -/
def runCalls (cfg : Writer.Cfg) (codec : Codec) : Writer.Conn → List Call → Sent
  | st, [] => { wire := [], errs := [], st := st }
  | st, c :: cs =>
    let o := c.run cfg codec st
    let r := runCalls cfg codec o.st cs
    { wire := o.wire ++ r.wire, errs := o.err.toList ++ r.errs, st := r.st }

/-- the two endpoints of one direction: opposite roles, the same negotiated extension -/
structure Compatible (w : Writer.Cfg) (r : Reader.Cfg) : Prop where
  role : r.isServer = !w.isServer
  ext : r.pdEnabled = w.pdEnabled
  /-- `ReadMaxPayloadSize` is a Go `int` -/
  int : r.readMax < 2 ^ 63

/-- "valid text where it is checked": an endpoint with `CheckUtf8Enabled` only passes Text payloads
that are valid UTF-8 -/
def textOk (check : Bool) (opcode : Nat) (data : Bytes) : Prop :=
  check = true → opcode = Facts.opText → Spec.Utf8.valid data = true

def isData (opcode : Nat) : Prop := opcode = Facts.opText ∨ opcode = Facts.opBinary

/-- a call within the limits of both endpoints when NO compression is negotiated -/
def Send.OkPlain (w : Writer.Cfg) (r : Reader.Cfg) : Send → Prop
  | .msg op p =>
    isData op ∧ p.flatten.length ≤ w.writeMax ∧ (p.flatten.length : Int) ≤ r.readMax ∧
    textOk w.checkUtf8 op p.flatten ∧ textOk r.checkUtf8 op p.flatten
  | .ping p => p.length ≤ 125 ∧ p.length ≤ w.writeMax ∧ (p.length : Int) ≤ r.readMax
  | .pong p => p.length ≤ 125 ∧ p.length ≤ w.writeMax ∧ (p.length : Int) ≤ r.readMax
  | .file op reads _ =>
    isData op ∧ (Writer.readChunks reads).2 = true ∧ (∀ c ∈ (Writer.readChunks reads).1, c.length ≤ w.writeMax) ∧
    ((Writer.readChunks reads).1.flatten.length : Int) ≤ r.readMax ∧
    textOk r.checkUtf8 op (Writer.readChunks reads).1.flatten
  | .bcast op p bcfg _ bkey =>
    isData op ∧ bcfg.isServer = w.isServer ∧ bcfg.pdEnabled = w.pdEnabled ∧ bkey.length = 4 ∧
    p.length ≤ bcfg.writeMax ∧ (p.length : Int) ≤ r.readMax ∧
    textOk bcfg.checkUtf8 op p ∧ textOk r.checkUtf8 op p

/-- a call within the limits of both endpoints, in general (`cps` = the sender's window when the
call is made).  The receiver applies `ReadMaxPayloadSize` to every frame length and to the
reassembled (still compressed) message as well as to the inflated payload, so for a compressed
message the COMPRESSED size has to respect it too. -/
def Send.Ok (w : Writer.Cfg) (r : Reader.Cfg) (codec : Codec) (cps : Win) : Send → Prop
  | .msg op p =>
    isData op ∧ p.flatten.length ≤ w.writeMax ∧ (p.flatten.length : Int) ≤ r.readMax ∧
    textOk w.checkUtf8 op p.flatten ∧ textOk r.checkUtf8 op p.flatten ∧
    (Writer.willCompress w (Writer.msgCfg w) op p.flatten.length = true →
      ((Writer.stripTail (codec.compress w.bits cps.dict p)).length : Int) ≤ r.readMax)
  | .ping p => p.length ≤ 125 ∧ p.length ≤ w.writeMax ∧ (p.length : Int) ≤ r.readMax
  | .pong p => p.length ≤ 125 ∧ p.length ≤ w.writeMax ∧ (p.length : Int) ≤ r.readMax
  | .file op reads outs =>
    isData op ∧ (Writer.readChunks reads).2 = true ∧
    ((Writer.readChunks reads).1.flatten.length : Int) ≤ r.readMax ∧
    textOk r.checkUtf8 op (Writer.readChunks reads).1.flatten ∧
    (if w.pdEnabled then
      -- `outs` is a cutting of what the library emits for the chunks read, against the current window
      outs.flatten = codec.compress w.bits cps.dict (Writer.readChunks reads).1 ∧
      outs.flatten.length ≤ w.writeMax ∧ ((Writer.stripTail outs.flatten).length : Int) ≤ r.readMax
    else ∀ c ∈ (Writer.readChunks reads).1, c.length ≤ w.writeMax)
  | .bcast op p bcfg _ bkey =>
    isData op ∧ bcfg.isServer = w.isServer ∧ bcfg.pdEnabled = w.pdEnabled ∧ bkey.length = 4 ∧
    p.length ≤ bcfg.writeMax ∧ (p.length : Int) ≤ r.readMax ∧
    textOk bcfg.checkUtf8 op p ∧ textOk r.checkUtf8 op p ∧
    (Writer.willCompress bcfg (Writer.bcCfg bcfg) op p.length = true →
      ((Writer.stripTail (codec.compress bcfg.bits [] [p])).length : Int) ≤ r.readMax)

/-- every call of the sequence is within the limits when it is made, and draws 4-byte keys -/
def Admissible (w : Writer.Cfg) (r : Reader.Cfg) (codec : Codec) : Writer.Conn → List Call → Prop
  | _, [] => True
  | st, c :: cs =>
    (∀ i, (c.keys i).length = 4) ∧ c.send.Ok w r codec st.cps ∧ Admissible w r codec (c.run w codec st).st cs

/-- the C17 invariant of a window (what `Win.init` establishes and `Win.write` preserves) -/
def WinOk (w : Win) : Prop := w.enabled = true → w.dict.length ≤ w.size

/-! ## Laws of the DEFLATE library (hypotheses, never axioms) -/

/-- **compress-then-inflate with the same dictionary is the identity**: what
`ResetDict(w, dict); Write(chunk)*; Flush()` emits, minus the stripped `00 00 ff ff`, is restored by
`deflater.Decompress` (which re-appends the tail) when the reader is reset with the SAME dictionary,
for every limit the payload respects -/
def RoundTrip (codec : Codec) : Prop :=
  ∀ (bits : Nat) (dict : Bytes) (chunks : List Bytes) (limit : Int), (chunks.flatten.length : Int) ≤ limit →
    codec.decompress limit dict (Writer.stripTail (codec.compress bits dict chunks)) = .ok chunks.flatten

/-- **a stream compressed without a dictionary inflates to the same bytes under any preset
dictionary** (it contains no back-reference that reaches before its own start): needed for
broadcast frames only, which are compressed once, without a dictionary, and inflated by every
receiver against its current window -/
def DictFree (codec : Codec) : Prop :=
  ∀ (bits : Nat) (dict : Bytes) (chunks : List Bytes) (limit : Int), (chunks.flatten.length : Int) ≤ limit →
    codec.decompress limit dict (Writer.stripTail (codec.compress bits [] chunks)) = .ok chunks.flatten

/-- **a sync flush emits at least four bytes** (it ends with `00 00 ff ff`: law L1 of C05) -/
def MinOut (codec : Codec) : Prop :=
  ∀ (bits : Nat) (dict : Bytes) (chunks : List Bytes), 4 ≤ (codec.compress bits dict chunks).length

end Compose
