import Gws.Basic
/-!
# Model of `slideWindow` (compress.go:123-172)

`Win.write` follows `slideWindow.Write` statement by statement: the append branch, the "fill the
free space" step, the overwrite branch for chunks at least as large as the window, and the
shift-left-and-append branch made of two `copy`s.  `dict` is the slice `c.dict` (its *length*; the
capacity never matters because the code never appends beyond `size`, see `Win.write_length_le`).
-/

structure Win where
  enabled : Bool
  size : Nat
  dict : Bytes
deriving Repr, DecidableEq

namespace Win

/-- zero value of the Go struct: a window that was never `initialize`d (no context takeover) -/
def disabled : Win := { enabled := false, size := 0, dict := [] }

/-- `initialize(pool, windowBits)`: `size = BinaryPow(windowBits)`, `dict` empty (a pooled slice is
re-sliced to `[:0]`, a fresh one is `make([]byte, 0, size)`). -/
def init (bits : Nat) : Win := { enabled := true, size := 2 ^ bits, dict := [] }

def write (w : Win) (p : Bytes) : Win :=
  if !w.enabled then w else
  let n := p.length
  let length := w.dict.length
  if n + length ≤ w.size then { w with dict := w.dict ++ p }
  else
    let m := w.size - length
    let dict1 := if m > 0 then w.dict ++ p.take m else w.dict
    let p1 := if m > 0 then p.drop m else p
    let n1 := p1.length
    if n1 ≥ w.size then { w with dict := goCopy dict1 0 (p1.drop (n1 - w.size)) }
    else
      let d2 := goCopy dict1 0 (dict1.drop n1)
      let d3 := goCopy d2 (w.size - n1) p1
      { w with dict := d3 }

/-- which of the code's branches a write takes (coverage bookkeeping for the driver only) -/
def branch (w : Win) (p : Bytes) : String :=
  if !w.enabled then "disabled" else
  if p.length + w.dict.length ≤ w.size then "append" else
  let m := w.size - w.dict.length
  let n1 := if m > 0 then p.length - m else p.length
  (if m > 0 then "fill+" else "") ++ (if n1 ≥ w.size then "overwrite" else "shift")

end Win
