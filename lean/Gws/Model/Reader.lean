import Gws.Model.ReaderStep
/-! # The read loop: termination of `step` iteration and the loop itself -/

namespace Reader

theorem parse_decreases {b : Bytes} {h : Frame.Hdr} {rest : Bytes} (hp : Frame.parse b = .ok h rest) :
    rest.length + 2 ≤ b.length := by
  unfold Frame.parse at hp
  split at hp
  · rename_i x0 x1 r
    simp only at hp
    split at hp
    · simp at hp
    · rename_i len r1 hl
      have hr1 : r1.length ≤ r.length := by
        split at hl
        · split at hl
          · simp at hl; obtain ⟨_, rfl⟩ := hl; simp; omega
          · simp at hl
        · split at hl
          · split at hl
            · simp at hl; obtain ⟨_, rfl⟩ := hl; simp; omega
            · simp at hl
          · simp at hl; obtain ⟨_, rfl⟩ := hl; simp
      split at hp
      · split at hp
        · simp at hp; obtain ⟨_, rfl⟩ := hp; simp at hr1 ⊢; omega
        · simp at hp
      · simp at hp; obtain ⟨_, rfl⟩ := hp; simp; omega
  · simp at hp

theorem readControl_decreases {cfg : Cfg} {st st' : State} {h : Frame.Hdr} {rest rest' : Bytes} {evs : List Ev}
    (hs : readControl cfg st h rest = .ok st' evs rest') : rest'.length ≤ rest.length := by
  unfold readControl at hs
  simp only at hs
  split at hs
  · simp at hs
  · split at hs
    · simp at hs
    · split at hs
      · simp at hs
      · split at hs
        · simp at hs; obtain ⟨_, _, rfl⟩ := hs; simp
        · split at hs
          · simp at hs; obtain ⟨_, _, rfl⟩ := hs; simp
          · split at hs <;> simp at hs

theorem afterPayload_rest {cfg : Cfg} {codec : Codec} {st st' : State} {h : Frame.Hdr} {p rest rest' : Bytes} {evs : List Ev}
    (hs : afterPayload cfg codec st h p rest = .ok st' evs rest') : rest' = rest := by
  unfold afterPayload at hs
  simp only at hs
  repeat' split at hs
  all_goals first | (simp at hs; done) | (simp at hs; obtain ⟨_, _, rfl⟩ := hs; rfl)

theorem dataFrame_decreases {cfg : Cfg} {codec : Codec} {st st' : State} {h : Frame.Hdr} {rest rest' : Bytes} {evs : List Ev}
    (hs : dataFrame cfg codec st h rest = .ok st' evs rest') : rest'.length ≤ rest.length := by
  unfold dataFrame at hs
  simp only at hs
  split at hs
  · simp at hs
  · split at hs
    · simp at hs
    · have := afterPayload_rest hs
      subst this; simp

theorem step_decreases {cfg : Cfg} {codec : Codec} {st st' : State} {b rest : Bytes} {evs : List Ev}
    (hs : step cfg codec st b = .ok st' evs rest) : rest.length + 2 ≤ b.length := by
  unfold step at hs
  split at hs
  · simp at hs
  · rename_i h r hp
    have hd := parse_decreases hp
    split at hs
    · simp at hs
    · split at hs
      · have := readControl_decreases hs; omega
      · have := dataFrame_decreases hs; omega

structure Trace where
  evs : List Ev
  ending : End
deriving Repr

/-- `ReadLoop`'s `for { readMessage }` on the whole input; Lean accepting this definition is the
proof that the modelled loop terminates on every input (each iteration consumes ≥ 2 bytes or stops). -/
def readLoop (cfg : Cfg) (codec : Codec) (st : State) (b : Bytes) : Trace :=
  match h : step cfg codec st b with
  | .stop evs e => { evs, ending := e }
  | .ok st' evs rest =>
    let t := readLoop cfg codec st' rest
    { evs := evs ++ t.evs, ending := t.ending }
termination_by b.length
decreasing_by have := step_decreases h; omega

/-- status in the Close frame gws sends when the loop ends (`none` = empty body) -/
def End.replyStatus : End → Option Nat
  | .err e => some e.sendCode
  | .peerClose pc => if pc.response = 0 then none else some pc.response
  | .panic _ => none

end Reader
