import Gws.Generated.Facts
/-!
# Model of the permessage-deflate negotiation

Mirrors, statement by statement,
* `initServerOption` / `initClientOption` (option.go): the `Enabled`-guarded normalisation of the
  compression settings (`normServer`, `normClient`);
* `genRequestHeader`, `genResponseHeader`, `permessageNegotiation` (compress.go:176-253) together
  with the helpers they call: `strings.Join`, `strconv.Itoa`, `internal.Split` (`strings.Split` +
  `strings.TrimSpace` + drop empties), `strings.SplitN(_, "=", 2)`, `strconv.Atoi` (error ignored),
  `internal.WithDefault`, `internal.Min`, `internal.SelectValue`;
* `Upgrader.getPermessageDeflate` (upgrader.go:132-147), `connector.getPermessageDeflate`
  (client.go:145-160), `setThreshold` (option.go:234);
* the two guards that decide whether a header is sent at all: client.go:108 (offer iff the client's
  `Enabled`) and upgrader.go:216 (response header iff the server's negotiated `Enabled`).

Strings are `List Char` (one `Char` per byte of the Go string).  Go's `int` is modelled by `Int`
(unbounded), so the settings range over *all* integers.  `strings.TrimSpace` is modelled for ASCII
white space only (`\t \n \v \f \r` and space); Go additionally trims U+0085, U+00A0 and the other
Unicode `White_Space` code points, which the model treats as ordinary characters.  The token names
come from `Gws.Generated.Facts` (regenerated from internal/others.go on every run).
-/

namespace Nego

abbrev Str := List Char

/-! ## the extension tokens (internal/others.go) -/

def pmd : Str := Facts.pmdName.toList
def sNoCtx : Str := Facts.pmdServerNoCtx.toList
def cNoCtx : Str := Facts.pmdClientNoCtx.toList
def sBits : Str := Facts.pmdServerBits.toList
def cBits : Str := Facts.pmdClientBits.toList

/-- the fields of Go's `PermessageDeflate` that take part in the negotiation (`Level` and
`PoolSize` are copied from the local options and never sent) -/
structure PD where
  enabled : Bool
  serverTakeover : Bool
  clientTakeover : Bool
  serverBits : Int
  clientBits : Int
  threshold : Int
deriving Repr, DecidableEq

/-! ## option normalisation (option.go) -/

def defaultThreshold : Int := Facts.defaultCompressThreshold

/-- `initServerOption`: nothing is touched unless `Enabled`. Out-of-range window bits become 12
under context takeover of that direction and 15 otherwise; a non-positive threshold becomes 512. -/
def normServer (p : PD) : PD :=
  if p.enabled then
    { p with
      serverBits := if p.serverBits < 8 ∨ p.serverBits > 15 then (if p.serverTakeover then 12 else 15) else p.serverBits
      clientBits := if p.clientBits < 8 ∨ p.clientBits > 15 then (if p.clientTakeover then 12 else 15) else p.clientBits
      threshold := if p.threshold ≤ 0 then defaultThreshold else p.threshold }
  else p

/-- `initClientOption`: nothing is touched unless `Enabled`; out-of-range window bits become 15. -/
def normClient (p : PD) : PD :=
  if p.enabled then
    { p with
      serverBits := if p.serverBits < 8 ∨ p.serverBits > 15 then 15 else p.serverBits
      clientBits := if p.clientBits < 8 ∨ p.clientBits > 15 then 15 else p.clientBits
      threshold := if p.threshold ≤ 0 then defaultThreshold else p.threshold }
  else p

/-- `setThreshold(isServer)` -/
def setThreshold (isServer : Bool) (p : PD) : PD :=
  if (isServer && p.serverTakeover) || (!isServer && p.clientTakeover) then { p with threshold := 0 } else p

/-! ## string helpers -/

/-- `strings.Join(items, sep)` -/
def join (sep : Str) : List Str → Str
  | [] => []
  | [a] => a
  | a :: b :: r => a ++ sep ++ join sep (b :: r)

/-- `strconv.Itoa` -/
def itoa : Int → Str
  | .ofNat n => Nat.toDigits 10 n
  | .negSucc n => '-' :: Nat.toDigits 10 (n + 1)

/-- `strings.Split(s, string(sep))` for a one-byte separator: never returns the empty list -/
def splitOn (sep : Char) : Str → List Str
  | [] => [[]]
  | c :: cs =>
    if c = sep then [] :: splitOn sep cs
    else match splitOn sep cs with
      | [] => [[c]]
      | h :: t => (c :: h) :: t

/-- ASCII white space as trimmed by `strings.TrimSpace` -/
def isSpace (c : Char) : Bool :=
  c = ' ' || c = '\t' || c = '\n' || c = '\r' || c = Char.ofNat 11 || c = Char.ofNat 12

def trimLeft (s : Str) : Str := s.dropWhile isSpace
def trimRight (s : Str) : Str := (s.reverse.dropWhile isSpace).reverse
/-- `strings.TrimSpace` (ASCII) -/
def trim (s : Str) : Str := trimRight (trimLeft s)

/-- `internal.Split(s, ";")`: split, trim every piece, drop the empty ones -/
def split (s : Str) : List Str := ((splitOn ';' s).map trim).filter (fun t => t ≠ [])

/-- `strings.SplitN(s, "=", 2)`: the part before the first `=`, and the rest if there is one
(`len(pair) == 2` iff the second component is `some`) -/
def splitN2 : Str → Str × Option Str
  | [] => ([], none)
  | c :: cs =>
    if c = '=' then ([], some cs)
    else
      let r := splitN2 cs
      (c :: r.1, r.2)

/-- `strings.Contains(s, sub)` -/
def contains (s sub : Str) : Bool :=
  match s with
  | [] => sub.isEmpty
  | _ :: cs => sub.isPrefixOf s || contains cs sub

/-! ## `strconv.Atoi` with the error dropped -/

def maxInt64 : Int := 9223372036854775807
def minInt64 : Int := -9223372036854775808
def maxUint64 : Nat := 18446744073709551615

def isDigit (c : Char) : Bool := 48 ≤ c.toNat && c.toNat ≤ 57

/-- the digit loop of `strconv.ParseUint(s, 10, 64)`, accumulator `n`. `none` is a syntax error;
on overflow the loop returns `maxUint64` *immediately* (later characters are not inspected). -/
def parseUintLoop : Str → Nat → Option Nat
  | [], n => some n
  | c :: cs, n =>
    if !isDigit c then none
    else if n ≥ maxUint64 / 10 + 1 then some maxUint64
    else
      let n1 := n * 10 + (c.toNat - 48)
      if n1 > maxUint64 then some maxUint64 else parseUintLoop cs n1

/-- `x, _ := strconv.Atoi(s)` on a 64-bit platform: optional sign, decimal digits; 0 on a syntax
error (including the empty string and a bare sign); saturates at the int64 limits. The fast path
of `Atoi` for short strings computes the same function. -/
def atoi (s : Str) : Int :=
  match s with
  | [] => 0
  | c :: cs =>
    let neg := c = '-'
    let body := if c = '+' ∨ c = '-' then cs else s
    if body = [] then 0 else
    match parseUintLoop body 0 with
    | none => 0
    | some un =>
      if ¬ neg ∧ un ≥ 2 ^ 63 then maxInt64
      else if neg ∧ un > 2 ^ 63 then minInt64
      else if neg then -(un : Int) else (un : Int)

/-- `internal.WithDefault(x, d)` on ints -/
def withDefault (x d : Int) : Int := if x = 0 then d else x

/-- `internal.Min` -/
def imin (a b : Int) : Int := if a < b then a else b

/-! ## header generation (compress.go:176-214) -/

def sep : Str := [';', ' ']

/-- the option list built by `genRequestHeader` -/
def requestOptions (p : PD) : List Str :=
  [pmd]
  ++ (if !p.serverTakeover then [sNoCtx] else [])
  ++ (if !p.clientTakeover then [cNoCtx] else [])
  ++ (if p.serverBits ≠ 15 then [sBits ++ '=' :: itoa p.serverBits] else [])
  ++ (if p.clientBits ≠ 15 then [cBits ++ '=' :: itoa p.clientBits]
      else if p.clientTakeover then [cBits] else [])

def genRequestHeader (p : PD) : Str := join sep (requestOptions p)

/-- the option list built by `genResponseHeader` -/
def responseOptions (p : PD) : List Str :=
  [pmd]
  ++ (if !p.serverTakeover then [sNoCtx] else [])
  ++ (if !p.clientTakeover then [cNoCtx] else [])
  ++ (if p.serverBits ≠ 15 then [sBits ++ '=' :: itoa p.serverBits] else [])
  ++ (if p.clientBits ≠ 15 then [cBits ++ '=' :: itoa p.clientBits] else [])

def genResponseHeader (p : PD) : Str := join sep (responseOptions p)

/-! ## parsing (compress.go:218-253) -/

/-- the initial value of `options` in `permessageNegotiation` -/
def parseInit : PD :=
  { enabled := false, serverTakeover := true, clientTakeover := true, serverBits := 15, clientBits := 15, threshold := 0 }

/-- one iteration of the `for _, s := range ss` loop: the `switch pair[0]` -/
def applyParam (o : PD) (s : Str) : PD :=
  let pair := splitN2 s
  if pair.1 = pmd then o
  else if pair.1 = sNoCtx then { o with serverTakeover := false }
  else if pair.1 = cNoCtx then { o with clientTakeover := false }
  else if pair.1 = sBits then
    match pair.2 with
    | some v => { o with serverBits := imin o.serverBits (withDefault (atoi v) 15) }
    | none => o
  else if pair.1 = cBits then
    match pair.2 with
    | some v => { o with clientBits := imin o.clientBits (withDefault (atoi v) 15) }
    | none => o
  else o

/-- the two `SelectValue(x < 8, 8, x)` lines -/
def clamp8 (o : PD) : PD :=
  { o with clientBits := if o.clientBits < 8 then 8 else o.clientBits
           serverBits := if o.serverBits < 8 then 8 else o.serverBits }

/-- the loop over an already split parameter list -/
def parseParams (ps : List Str) : PD := clamp8 (ps.foldl applyParam parseInit)

def permessageNegotiation (str : Str) : PD := parseParams (split str)

/-! ## parameter selection on both sides -/

/-- `Upgrader.getPermessageDeflate(extensions)`; `opt` is the normalised server option -/
def serverGetPD (opt : PD) (extensions : Str) : PD :=
  let clientPD := permessageNegotiation extensions
  setThreshold true
    { enabled := opt.enabled && contains extensions pmd
      threshold := opt.threshold
      serverTakeover := clientPD.serverTakeover && opt.serverTakeover
      clientTakeover := clientPD.clientTakeover && opt.clientTakeover
      serverBits := opt.serverBits
      clientBits := opt.clientBits }

/-- `connector.getPermessageDeflate(extensions)`; `opt` is the normalised client option -/
def clientGetPD (opt : PD) (extensions : Str) : PD :=
  let serverPD := permessageNegotiation extensions
  setThreshold false
    { enabled := opt.enabled && contains extensions pmd
      threshold := opt.threshold
      serverTakeover := serverPD.serverTakeover
      clientTakeover := serverPD.clientTakeover
      serverBits := serverPD.serverBits
      clientBits := serverPD.clientBits }

/-! ## the handshake, as far as the extension is concerned -/

/-- what both ends hold after the opening handshake, and what went over the wire
(`none` = the `Sec-WebSocket-Extensions` header was not sent; `Header.Get` then yields `""`) -/
structure Outcome where
  server : PD
  client : PD
  offer : Option Str
  response : Option Str
deriving Repr, DecidableEq

/-- gws client with settings `c` connects to gws server with settings `s` -/
def handshake (s c : PD) : Outcome :=
  let sopt := normServer s
  let copt := normClient c
  let offer := if copt.enabled then some (genRequestHeader copt) else none
  let spd := serverGetPD sopt (offer.getD [])
  let response := if spd.enabled then some (genResponseHeader spd) else none
  let cpd := clientGetPD copt (response.getD [])
  { server := spd, client := cpd, offer := offer, response := response }

end Nego
