import Gws.Spec.Base64
import Gws.Generated.Facts
/-!
# Model of the opening-handshake decision logic (upgrader.go, option.go, client.go, internal/utils.go)

Input of the model is what gws sees *after* `net/http` parsed the peer's message (`http.ReadRequest`
/ `http.ReadResponse`; that parsing is trusted and only sampled by the tie): the method or status
code, and the header as a finite map from canonical names to the values in arrival order.

A Go `string` is a byte sequence (`Str`).  The Go library functions the code calls are modelled on
bytes, exactly for the arguments gws passes:

* `strings.EqualFold(x, t)` with an ASCII `t` (`"13"`, `"websocket"`, `"Upgrade"`): `foldEq`.  Besides ASCII case
  it accepts, as Go's Unicode simple folding does, U+212A KELVIN SIGN for `k` and U+017F LATIN SMALL
  LETTER LONG S for `s` — the only non-ASCII code points whose folding orbit contains an ASCII letter.
  For the token `Upgrade` (no `k`, no `s`) it is therefore equality up to ASCII letter case
  (`Hs.foldEq_iff_lower` in Lemmas/Handshake.lean).
* `strings.TrimSpace`: removes Unicode `White_Space` code points (table `spaceRunes`, as UTF-8) from
  both ends; a byte sequence that is not the valid UTF-8 encoding of one of them stops the trimming.
* `textproto.CanonicalMIMEHeaderKey`: `canon`.
-/

namespace Hs

open Sha1 (asc)

/-- a Go string -/
abbrev Str := Bytes

/-! ## Go string functions -/

/-- ASCII lower-casing of one byte -/
def lowerB (b : UInt8) : UInt8 := if 65 ≤ b ∧ b ≤ 90 then b + 32 else b

def lower (s : Str) : Str := s.map lowerB

/-- `strings.EqualFold(s, t)` for an ASCII `t` -/
def foldEq : Str → Str → Bool
  | [], [] => true
  | [], _ :: _ => false
  | _ :: _, [] => false
  | c :: s, t :: ts =>
    if c < 128 then lowerB c == lowerB t && foldEq s ts
    else if c == 0xE2 && s.take 2 == [0x84, 0xAA] then lowerB t == 107 && foldEq (s.drop 2) ts
    else if c == 0xC5 && s.take 1 == [0xBF] then lowerB t == 115 && foldEq (s.drop 1) ts
    else false

/-- `strings.Split(s, sep)` for a one-byte separator: always at least one piece -/
def consHead (c : UInt8) : List Str → List Str
  | [] => [[c]]
  | p :: ps => (c :: p) :: ps

def splitOn (sep : UInt8) : Str → List Str
  | [] => [[]]
  | c :: r => if c = sep then [] :: splitOn sep r else consHead c (splitOn sep r)

/-- UTF-8 encodings of the code points with `unicode.IsSpace`: U+0009..U+000D, U+0020, U+0085, U+00A0,
U+1680, U+2000..U+200A, U+2028, U+2029, U+202F, U+205F, U+3000 -/
def spaceRunes : List Str :=
  [[0x09], [0x0A], [0x0B], [0x0C], [0x0D], [0x20], [0xC2, 0x85], [0xC2, 0xA0], [0xE1, 0x9A, 0x80],
   [0xE2, 0x80, 0x80], [0xE2, 0x80, 0x81], [0xE2, 0x80, 0x82], [0xE2, 0x80, 0x83], [0xE2, 0x80, 0x84],
   [0xE2, 0x80, 0x85], [0xE2, 0x80, 0x86], [0xE2, 0x80, 0x87], [0xE2, 0x80, 0x88], [0xE2, 0x80, 0x89],
   [0xE2, 0x80, 0x8A], [0xE2, 0x80, 0xA8], [0xE2, 0x80, 0xA9], [0xE2, 0x80, 0xAF], [0xE2, 0x81, 0x9F],
   [0xE3, 0x80, 0x80]]

/-- length of the table entry the string starts with (0: none) -/
def spaceLen (tbl : List Str) (s : Str) : Nat :=
  match tbl.find? (fun w => w.isPrefixOf s) with
  | some w => w.length
  | none => 0

/-- drop table entries from the front while there is one (`fuel` = length suffices) -/
def trimAux (tbl : List Str) : Nat → Str → Str
  | 0, s => s
  | n + 1, s => if spaceLen tbl s = 0 then s else trimAux tbl n (s.drop (spaceLen tbl s))

def trimLeft (s : Str) : Str := trimAux spaceRunes s.length s

def trimRight (s : Str) : Str := (trimAux (spaceRunes.map List.reverse) s.length s.reverse).reverse

/-- `strings.TrimSpace` -/
def trimSpace (s : Str) : Str := trimRight (trimLeft s)

/-- `internal.Split(s, ",")`: split, trim every piece, drop the empty ones -/
def split (s : Str) : List Str := ((splitOn 44 s).map trimSpace).filter (fun v => decide (v ≠ []))

/-- `internal.HttpHeaderContainsToken(lines, token)`: some element of some line equals the token
under `strings.EqualFold` -/
def httpHeaderContainsToken (lines : List Str) (token : Str) : Bool :=
  lines.any (fun line => (split line).any (fun item => foldEq item token))

/-- `strings.Join(l, ",")` -/
def joinComma : List Str → Str
  | [] => []
  | [l] => l
  | l :: l' :: ls => l ++ 44 :: joinComma (l' :: ls)

/-- `internal.GetIntersectionElem(a, b)`: the first element of `a` that occurs in `b`, `""` if none -/
def intersectionElem (a b : List Str) : Str :=
  match a.find? (fun x => decide (x ∈ b)) with
  | some x => x
  | none => []

/-! ## `http.Header` -/

/-- `textproto.validHeaderFieldByte`: RFC 7230 token characters -/
def validFieldByte (b : UInt8) : Bool :=
  (48 ≤ b && b ≤ 57) || (65 ≤ b && b ≤ 90) || (97 ≤ b && b ≤ 122) ||
  [33, 35, 36, 37, 38, 39, 42, 43, 45, 46, 94, 95, 96, 124, 126].contains b

/-- the rewriting loop of `canonicalMIMEHeaderKey`: upper-case the first letter and every letter
after a dash, lower-case the others -/
def canonGo : Bool → Str → Str
  | _, [] => []
  | up, c :: r =>
    let c' := if up && 97 ≤ c && c ≤ 122 then c - 32 else if !up && 65 ≤ c && c ≤ 90 then c + 32 else c
    c' :: canonGo (c' == 45) r

/-- `textproto.CanonicalMIMEHeaderKey`: a key containing a byte that is not a token character (a
space included) is returned unchanged -/
def canon (k : Str) : Str := if k.all validFieldByte then canonGo true k else k

/-- an `http.Header`: a finite map from keys to value lists (first entry wins; the Go map has one) -/
abbrev Header := List (Str × List Str)

/-- `h[k]` -/
def values (h : Header) (k : Str) : List Str :=
  match h.find? (fun e => e.1 == k) with
  | some e => e.2
  | none => []

/-- `h.Values(k)`: all the values stored under the canonical form of `k` (one per header line of
that name, in arrival order) -/
def vals (h : Header) (k : Str) : List Str := values h (canon k)

/-- `h.Get(k)`: the first value stored under the canonical form of `k`, `""` if there is none -/
def get (h : Header) (k : Str) : Str := (vals h k).headD []

/-- `h.Del(k)` -/
def del (h : Header) (k : Str) : Header := h.filter (fun e => decide (e.1 ≠ canon k))

/-- `h.Set(k, v)` -/
def set (h : Header) (k v : Str) : Header := del h k ++ [(canon k, [v])]

/-! ## constants of internal/others.go -/

def kVersion : Str := asc "Sec-WebSocket-Version"
def kKey : Str := asc "Sec-WebSocket-Key"
def kExtensions : Str := asc "Sec-WebSocket-Extensions"
def kConnection : Str := asc "Connection"
def kUpgrade : Str := asc "Upgrade"
def kAccept : Str := asc "Sec-WebSocket-Accept"
def kProtocol : Str := asc "Sec-WebSocket-Protocol"

/-- `internal.ComputeAcceptKey`: base64 (SHA-1 (key ++ GUID)), by definition of the model; the tie
compares the implementation's values with it -/
def acceptKey (key : Str) : Str := Base64.encode (Sha1.sha1 (key ++ asc Facts.magicNumber))

/-! ## server: `Upgrader.doUpgradeFromConn`, `responseWriter`, `deleteProtectedHeaders` -/

inductive SErr
  | unauthorized   -- ErrUnauthorized
  | handshake      -- ErrHandshake
  | version        -- errors.New("gws: websocket version not supported")
  | subprotocol    -- ErrSubprotocolNegotiation
deriving DecidableEq, Repr

def SErr.text : SErr → Str
  | .unauthorized => asc "unauthorized"
  | .handshake => asc "handshake error"
  | .version => asc "gws: websocket version not supported"
  | .subprotocol => asc "sub-protocol negotiation failed"

/-- the part of `ServerOption` the handshake reads, as configured by the application -/
structure ServerOpt where
  subProtocols : List Str
  responseHeader : Header
deriving Repr

/-- the parsed request -/
structure Request where
  method : Str
  header : Header
deriving Repr

/-- `responseWriter`: the header lines appended to the buffer after the status line, in order -/
structure RW where
  err : Option SErr
  lines : List (Str × Str)
  subprotocol : Str
deriving Repr

/-- `Init`: status line (implicit), `Upgrade: websocket`, `Connection: Upgrade` -/
def RW.init : RW :=
  { err := none, lines := [(kUpgrade, asc "websocket"), (kConnection, asc "Upgrade")], subprotocol := [] }

def RW.withHeader (c : RW) (k v : Str) : RW := { c with lines := c.lines ++ [(k, v)] }

/-- `WithExtraHeader`: `for k := range h { WithHeader(k, h.Get(k)) }`.  The iteration order of a Go
map is unspecified; the list order stands for it and observers compare the extra lines as a set. -/
def RW.withExtraHeader (c : RW) (h : Header) : RW :=
  { c with lines := c.lines ++ h.map (fun e => (e.1, get h e.1)) }

def RW.withSubProtocol (c : RW) (requestHeader : Header) (expected : List Str) : RW :=
  if expected ≠ [] then
    let sp := intersectionElem expected (split (joinComma (vals requestHeader kProtocol)))
    if sp = [] then { c with subprotocol := sp, err := some .subprotocol }
    else { c with subprotocol := sp }.withHeader kProtocol sp
  else c

/-- option.go `deleteProtectedHeaders`, run once by `initServerOption` -/
def deleteProtectedHeaders (h : Header) : Header :=
  del (del (del (del (del h kUpgrade) kConnection) kAccept) kExtensions) kProtocol

inductive Decision
  | accept (lines : List (Str × Str)) (subprotocol : Str)
  | reject (e : SErr)
deriving DecidableEq, Repr

def Decision.isAccept : Decision → Bool
  | .accept _ _ => true
  | .reject _ => false

/-- `doUpgradeFromConn`, check by check in the code's order.  `auth` is the result of the
application's `Authorize` callback; `ext` is the value of the negotiated `Sec-WebSocket-Extensions`
response header when `getPermessageDeflate(...).Enabled` (its computation is the subject of C12).
The sub-protocol failure is recorded in the writer and surfaces when the response is written. -/
def serverDecide (o : ServerOpt) (r : Request) (auth : Bool) (ext : Option Str) : Decision :=
  if auth = false then .reject .unauthorized else
  if r.method ≠ asc "GET" then .reject .handshake else
  if foldEq (get r.header kVersion) (asc "13") = false then .reject .version else
  if httpHeaderContainsToken (vals r.header kConnection) (asc "Upgrade") = false then .reject .handshake else
  if foldEq (get r.header kUpgrade) (asc "websocket") = false then .reject .handshake else
  let rw := RW.init
  let rw := match ext with
    | some v => rw.withHeader kExtensions v
    | none => rw
  if get r.header kKey = [] then .reject .handshake else
  let rw := rw.withHeader kAccept (acceptKey (get r.header kKey))
  let rw := rw.withSubProtocol r.header o.subProtocols
  let rw := rw.withExtraHeader (deleteProtectedHeaders o.responseHeader)
  match rw.err with
  | some e => .reject e
  | none => .accept rw.lines rw.subprotocol

def crlf : Str := [13, 10]

def renderLines (ls : List (Str × Str)) : Bytes := ls.flatMap (fun l => l.1 ++ asc ": " ++ l.2 ++ crlf)

/-- the bytes `responseWriter.Write` sends -/
def render101 (ls : List (Str × Str)) : Bytes :=
  asc "HTTP/1.1 101 Switching Protocols\r\n" ++ renderLines ls ++ crlf

/-- `writeErr`: `date` is `time.Now().Format(time.RFC1123)` -/
def writeErr (date : Str) (e : SErr) : Bytes :=
  asc "HTTP/1.1 400 Bad Request\r\n" ++ (asc "Date: " ++ date ++ crlf) ++
  (asc "Content-Length: " ++ asc (toString e.text.length) ++ crlf) ++
  asc "Content-Type: text/plain; charset=utf-8\r\n" ++ crlf ++ e.text

/-- what the application can see of the returned `*Conn` -/
structure ConnView where
  subprotocol : Str
  session : Str
deriving DecidableEq, Repr

/-- everything `UpgradeFromConn` does to its environment (on a transport that accepts the write;
transport faults are the subject of C09) -/
structure Outcome where
  written : Bytes
  closed : Bool
  conn : Option ConnView
  err : Option SErr
deriving DecidableEq, Repr

/-- `UpgradeFromConn`: on error `writeErr` then `conn.Close()`.  `sess` is the state of the session
object created for this request after `Authorize` ran on it. -/
def upgradeFromConn (o : ServerOpt) (r : Request) (auth : Bool) (sess : Str) (ext : Option Str)
    (date : Str) : Outcome :=
  match serverDecide o r auth ext with
  | .accept ls sp => { written := render101 ls, closed := false, conn := some ⟨sp, sess⟩, err := none }
  | .reject e => { written := writeErr date e, closed := true, conn := none, err := some e }

/-! ## client: `connector.request` (header assembly), `checkHeaders`, `getSubProtocol` -/

structure ClientOpt where
  requestHeader : Header
deriving Repr

/-- the parsed response -/
structure Resp where
  status : Nat
  header : Header
deriving Repr

inductive CErr
  | status       -- "unexpected status code: %d"
  | connection   -- "missing Connection header"
  | upgrade      -- "missing Upgrade header"
  | accept       -- "invalid Sec-WebSocket-Accept header"
  | subprotocol  -- ErrSubprotocolNegotiation
deriving DecidableEq, Repr

/-- the header map of the request: the configured entries are copied (`r.Header[k] = v`), then the
fixed fields are `Set`; `ext` is `genRequestHeader()` when compression is enabled (C12); `key` is the
fresh `Sec-WebSocket-Key` -/
def requestHeader (o : ClientOpt) (key : Str) (ext : Option Str) : Header :=
  let h := o.requestHeader
  let h := set h kConnection (asc "Upgrade")
  let h := set h kUpgrade (asc "websocket")
  let h := set h kVersion (asc "13")
  let h := match ext with
    | some v => set h kExtensions v
    | none => h
  set h kKey key

def checkHeaders (key : Str) (resp : Resp) : Option CErr :=
  if resp.status ≠ 101 then some .status else
  if httpHeaderContainsToken (vals resp.header kConnection) (asc "Upgrade") = false then some .connection else
  if foldEq (get resp.header kUpgrade) (asc "websocket") = false then some .upgrade else
  if get resp.header kAccept ≠ acceptKey key then some .accept else none

def getSubProtocol (o : ClientOpt) (resp : Resp) : Except CErr Str :=
  let a := split (get o.requestHeader kProtocol)
  let b := split (get resp.header kProtocol)
  let sp := intersectionElem a b
  if a ≠ [] ∧ sp = [] then .error .subprotocol else .ok sp

/-- `handshake` after the response was read: the sub-protocol of the connection, or the error -/
def clientHandshake (o : ClientOpt) (key : Str) (resp : Resp) : Except CErr Str :=
  match checkHeaders key resp with
  | some e => .error e
  | none => getSubProtocol o resp

structure COutcome where
  conn : Option Str        -- the returned connection's sub-protocol (`none`: no connection)
  closed : Bool            -- the transport was closed by `NewClientFromConn`
  err : Option CErr
deriving DecidableEq, Repr

/-- `NewClientFromConn` once a response was parsed: on error the transport is closed -/
def clientOutcome (o : ClientOpt) (key : Str) (resp : Resp) : COutcome :=
  match clientHandshake o key resp with
  | .ok sp => { conn := some sp, closed := false, err := none }
  | .error e => { conn := none, closed := true, err := some e }

/-! ## specification vocabulary -/

/-- the header line `k: v` when there is a value, no line otherwise -/
def optLine (k : Str) : Option Str → List (Str × Str)
  | some v => [(k, v)]
  | none => []

/-- `x` is the first element of `a` that occurs in `b` -/
def FirstCommon (a b : List Str) (x : Str) : Prop :=
  ∃ pre post, a = pre ++ x :: post ∧ x ∈ b ∧ ∀ q ∈ pre, q ∉ b

/-- the canonical forms of the five names `deleteProtectedHeaders` removes -/
def protectedNames : List Str := [canon kUpgrade, canon kConnection, canon kAccept, canon kExtensions, canon kProtocol]

/-- the header lines carry the token: some comma-separated, trimmed element of some line equals it
up to ASCII letter case -/
def HasToken (lines : List Str) (tok : Str) : Prop :=
  ∃ line ∈ lines, ∃ e ∈ split line, lower e = lower tok

instance (lines : List Str) (tok : Str) : Decidable (HasToken lines tok) := by
  unfold HasToken; infer_instance

/-- everything the header lines list: the comma-separated, trimmed, non-empty elements of all lines -/
def offered (lines : List Str) : List Str := lines.flatMap split

end Hs
