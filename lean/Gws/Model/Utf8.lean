import Gws.Spec.Utf8
/-!
# Model of the encoding gate (internal/io.go:24-73)

`utf8.Valid` is the stdlib's; the model uses the RFC 3629 predicate in its place (trusted, sampled).
-/
namespace Utf8

/-- `internal.CheckEncoding(enabled, opcode, payload)` -/
def checkEncoding (enabled : Bool) (opcode : Nat) (payload : Bytes) : Bool :=
  if enabled && (opcode == 1 || opcode == 8) then Spec.Utf8.valid payload else true

/-- `Bytes.CheckEncoding` -/
def bytesCheck (enabled : Bool) (opcode : Nat) (p : Bytes) : Bool := checkEncoding enabled opcode p

/-- `Buffers.CheckEncoding`: a single slice is checked in place; several slices are joined first so
that a code point may span two slices. -/
def validJoined (ps : List Bytes) : Bool :=
  match ps with
  | [p] => Spec.Utf8.valid p                 -- `len(b) == 1`: checked in place
  | _ => Spec.Utf8.valid ps.flatten          -- `utf8.Valid(bytes.Join(b, nil))`

def buffersCheck (enabled : Bool) (opcode : Nat) (ps : List Bytes) : Bool :=
  if enabled && (opcode == 1 || opcode == 8) then validJoined ps else true

theorem validJoined_eq (ps : List Bytes) : validJoined ps = Spec.Utf8.valid ps.flatten := by
  unfold validJoined; split <;> simp

end Utf8
