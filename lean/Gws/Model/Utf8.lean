import Gws.Spec.Utf8
/-!
# Model of the encoding gate (internal/io.go:24-73)

`utf8.Valid` is the stdlib's; the model uses the RFC 3629 predicate in its place (trusted, sampled).
-/
namespace Utf8

/-- `internal.CheckEncoding(enabled, opcode, payload)` -/
def checkEncoding (enabled : Bool) (opcode : Nat) (payload : Bytes) : Bool :=
  if enabled && (opcode == 1 || opcode == 8) then Spec.Utf8.valid payload else true

/-- `Bytes.CheckEncoding` -/
def bytesCheck (enabled : Bool) (opcode : Nat) (p : Bytes) : Bool := checkEncoding enabled opcode p

/-- `Buffers.CheckEncoding`: a single slice is checked in place; several slices are joined first so
that a code point may span two slices. -/
def buffersCheck (enabled : Bool) (opcode : Nat) (ps : List Bytes) : Bool :=
  if enabled && (opcode == 1 || opcode == 8) then
    match ps with
    | [p] => Spec.Utf8.valid p
    | _ => Spec.Utf8.valid ps.flatten
  else true

end Utf8
