import Gws.Model.ReaderStep
import Gws.Model.Utf8
import Gws.Model.Close
import Gws.Lemmas.WriterMask   -- only for its `csimp` equation: compiled code runs `Reader.unmask` byte-wise (proved equal, C18)
/-!
# Model of the write path (writer.go, writefile.go, compress.go:104-122, internal/io.go)

Sequential view: one call of a write API on a connection whose transport accepts every write.
A `Payload` (`internal.Bytes` / `internal.Buffers`) is the list of its slices; `internal.Bytes(p)`
is `[p]`.  The mask key, which `GenerateHeader` draws from a PRNG, is an input (`key`, or
`keys i` = the key of the i-th frame the call generates).  The output of the DEFLATE library is the
`Codec` parameter; for `WriteFile` the *cutting* of that output into `Write` calls on the
`flateWriter` is a further input (`outs`), because klauspost's writer flushes whenever it likes.

Frame buffers are modelled as the code builds them: 14 bytes of `framePadding`, the payload appended
behind it, client masking of `contents[14:]`, the header copied over the end of the padding with
`copy(contents[m:], header[:headerLength])`, and `buf.Next(m)`.

Window update: the model implements the rule of RFC 7692 §7.2.2 (the LZ77 history of a direction
consists of the payloads of its compressed messages): after a frame has been written the message
payload enters `cps` iff that frame was a compressed data frame.  The code tests
`opcode.isDataFrame()` in `doWrite` and the RSV1 bit of the shared frame in
`Broadcaster.writeFrame`; the two formulations agree on every reachable connection because a
window is only enabled together with threshold 0 (`setThreshold`), so that every data frame of
`doWrite` is then a compressed one.  (Before the repairs the code appended every payload — control
frames, and broadcast payloads whose shared frame was built uncompressed — and the `write` suite
reported exactly that: `ping:@r120.5;msg:2:@r200.9+@r120.5`, `bc2:2:512:@r300.3;msg:2:@r200.9+@r300.3`.)
-/

namespace Writer

structure Cfg where
  isServer : Bool
  pdEnabled : Bool        -- c.pd.Enabled
  threshold : Nat         -- c.pd.Threshold (0 when this side keeps its context, else ≥ 1 after option normalisation)
  bits : Nat              -- window bits of this side's compressor
  writeMax : Nat          -- c.config.WriteMaxPayloadSize (positive after option normalisation)
  checkUtf8 : Bool        -- c.config.CheckUtf8Enabled
deriving Repr

inductive WErr where
  | textEncoding          -- ErrTextEncoding
  | messageTooLarge       -- ErrMessageTooLarge
  | connClosed            -- ErrConnClosed
  | reader                -- the io.Reader given to WriteFile failed with an error other than io.EOF
  | panic (what : String) -- Go would panic
deriving Repr, DecidableEq

/-- `frameConfig` -/
structure FrameCfg where
  fin : Bool
  compress : Bool
  broadcast : Bool
  checkEncoding : Bool
deriving Repr

/-- `framePadding[0:]`: the zero value of `frameHeader` -/
def padding : Bytes := List.replicate Facts.frameHeaderSize 0

/-- `binary.BigEndian.Uint32` of a 4-byte slice -/
def be32 : Bytes → Nat
  | [a, b, c, d] => ((a.toNat * 256 + b.toNat) * 256 + c.toNat) * 256 + d.toNat
  | _ => 0

/-- `if n := dst.Len(); n >= 4 { if tail := dst.Bytes()[n-4:]; BigEndian.Uint32(tail) == math.MaxUint16 { dst.Truncate(n-4) } }`
(compress.go:112-116 and writefile.go:192-196) -/
def stripTail (b : Bytes) : Bytes :=
  let n := b.length
  if n ≥ 4 ∧ be32 (b.drop (n - 4)) = 65535 then b.take (n - 4) else b

/-- `uint64(length)` of a Go `int` -/
def toU64 (i : Int) : Nat := (i % 18446744073709551616).toNat

/-- The tail shared by `genFrame` and `compressData`: `contents` is `buf.Bytes()` (padding first),
`header` the bytes `header[:headerLength]`.
```
if !c.isServer { internal.MaskXOR(contents[frameHeaderSize:], maskBytes) }
var m = frameHeaderSize - headerLength
copy(contents[m:], header[:headerLength])
buf.Next(m)
``` -/
def backfill (isServer : Bool) (header contents key : Bytes) : Bytes :=
  let contents1 :=
    if !isServer then contents.take Facts.frameHeaderSize ++ Reader.unmask key (contents.drop Facts.frameHeaderSize)
    else contents
  let m := Facts.frameHeaderSize - header.length
  (goCopy contents1 m header).drop m

/-- `cfg.compress && opcode.isDataFrame() && n >= c.pd.Threshold` -/
def willCompress (cfg : Cfg) (fc : FrameCfg) (opcode n : Nat) : Bool :=
  fc.compress && decide (opcode ≤ Facts.dataFrameMaxOpcode) && decide (n ≥ cfg.threshold)

/-- `compressData`: `buf` already holds the padding.  `deflater.Compress(payload, buf, dict)` is
`compressTo` (the library writes its output behind the padding) followed by the tail strip, which
looks at the last four bytes of the WHOLE buffer. -/
def compressData (cfg : Cfg) (codec : Codec) (cps : Win) (opcode : Nat) (payload : List Bytes) (buf : Bytes)
    (fc : FrameCfg) (key : Bytes) : Except WErr Bytes :=
  let dict := if fc.broadcast then [] else cps.dict
  let contents := stripTail (buf ++ codec.compress cfg.bits dict payload)
  let payloadSize : Int := (contents.length : Int) - (Facts.frameHeaderSize : Int)
  let header := Frame.genHeader cfg.isServer fc.fin true opcode (toU64 payloadSize) key
  .ok (backfill cfg.isServer header contents key)

/-- `genFrame(opcode, payload, cfg)`; the result is `frame.Bytes()` -/
def genFrame (cfg : Cfg) (codec : Codec) (cps : Win) (opcode : Nat) (payload : List Bytes) (fc : FrameCfg)
    (key : Bytes) : Except WErr Bytes :=
  let n := payload.flatten.length           -- payload.Len()
  if opcode = Facts.opText ∧ Utf8.buffersCheck fc.checkEncoding opcode payload = false then .error .textEncoding
  else if n > cfg.writeMax then .error .messageTooLarge
  else
    let buf := padding                      -- binaryPool.Get(n + frameHeaderSize); buf.Write(framePadding[0:])
    if willCompress cfg fc opcode n then compressData cfg codec cps opcode payload buf fc key
    else
      let header := Frame.genHeader cfg.isServer fc.fin false opcode n key
      let contents := buf ++ payload.flatten   -- payload.WriteTo(buf)
      .ok (backfill cfg.isServer header contents key)

/-! ## Connection-level calls -/

/-- the part of `Conn` the write path reads and updates -/
structure Conn where
  cps : Win := Win.disabled
  closed : Bool := false
deriving Repr

/-- what one API call did: bytes handed to the transport, the returned error, the new state -/
structure Out where
  wire : Bytes
  err : Option WErr
  st : Conn
deriving Repr

/-- `frameConfig` used by `doWrite` -/
def msgCfg (cfg : Cfg) : FrameCfg :=
  { fin := true, compress := cfg.pdEnabled, broadcast := false, checkEncoding := cfg.checkUtf8 }

/-- `doWrite(opcode, payload)` under `c.mu` -/
def doWrite (cfg : Cfg) (codec : Codec) (st : Conn) (opcode : Nat) (payload : List Bytes) (key : Bytes) : Out :=
  if opcode ≠ Facts.opClose ∧ st.closed then { wire := [], err := some .connClosed, st := st }
  else
    match genFrame cfg codec st.cps opcode payload (msgCfg cfg) key with
    | .error e => { wire := [], err := some e, st := st }
    | .ok frame =>
      -- internal.WriteN(c.conn, frame.Bytes()); then the window (intended rule, see the header)
      let compressed := willCompress cfg (msgCfg cfg) opcode payload.flatten.length
      { wire := frame, err := none,
        st := { st with cps := if compressed then payload.foldl Win.write st.cps else st.cps } }

/-- `internal.CloseGoingAway.Error()` (internal/error.go: "gws: " + closeErrorMap[1001]) -/
def goingAwayText : Bytes := "gws: client going away".toList.map fun c => UInt8.ofNat c.toNat

/-- `writeClose(ev, reason)` once the caller has won the CAS on `closed`: cut the body to 125 bytes,
`doWrite(OpcodeCloseConnection, …)`, close the transport -/
def writeCloseFrame (cfg : Cfg) (codec : Codec) (st : Conn) (reason : Bytes) (key : Bytes) : Out :=
  doWrite cfg codec { st with closed := true } Facts.opClose [Close.cutBody reason] key

/-- `emitError(false, err)` after a write API produced `o`: a non-nil error on a connection that is
not yet closed sends Close 1001 "gws: client going away" and closes -/
def emitError (cfg : Cfg) (codec : Codec) (o : Out) (key : Bytes) : Out :=
  match o.err with
  | none => o
  | some e =>
    if o.st.closed then o
    else
      let c := writeCloseFrame cfg codec o.st (Close.statusBytes Facts.closeGoingAway ++ goingAwayText) key
      { wire := o.wire ++ c.wire, err := some e, st := c.st }

/-- `WriteMessage` / `Writev` / `WriteString` / `WritePing` / `WritePong` and, once dequeued, the
`…Async` variants: `doWrite` then `emitError(false, err)`.  `keys i` is the key of the i-th frame
the call generates. -/
def writeMessage (cfg : Cfg) (codec : Codec) (st : Conn) (opcode : Nat) (payload : List Bytes) (keys : Nat → Bytes) : Out :=
  emitError cfg codec (doWrite cfg codec st opcode payload (keys 0)) (keys 0)

/-- `WriteClose(code, reason)` -/
def writeClose (cfg : Cfg) (codec : Codec) (st : Conn) (code : Nat) (reason : Bytes) (key : Bytes) : Out :=
  if st.closed then { wire := [], err := some .connClosed, st := st }
  else
    let code' := if code < Facts.localCloseMinCode then Facts.localCloseRaisedTo else code
    writeCloseFrame cfg codec st (Close.statusBytes code' ++ reason) key

/-! ## Broadcaster -/

/-- `frameConfig` used by `Broadcaster.Broadcast` -/
def bcCfg (cfg : Cfg) : FrameCfg :=
  { fin := true, compress := cfg.pdEnabled, broadcast := true, checkEncoding := cfg.checkUtf8 }

/-- the frame a `Broadcaster` builds (once per compression flavour) under the first connection it
is used with, and whether that frame is a compressed one -/
def broadcastFrame (cfg : Cfg) (codec : Codec) (cps : Win) (opcode : Nat) (payload : Bytes) (key : Bytes) :
    Except WErr (Bytes × Bool) :=
  match genFrame cfg codec cps opcode [payload] (bcCfg cfg) key with
  | .error e => .error e
  | .ok frame => .ok (frame, willCompress cfg (bcCfg cfg) opcode payload.length)

/-- `Broadcaster.writeFrame(socket, frame)` (run from the connection's write queue) -/
def writeBroadcast (st : Conn) (frame : Bytes) (compressed : Bool) (payload : Bytes) : Out :=
  if st.closed then { wire := [], err := some .connClosed, st := st }
  else { wire := frame, err := none, st := { st with cps := if compressed then st.cps.write payload else st.cps } }

/-- `Broadcast(socket)` followed by the queued job: `built` is the shared frame (result of
`broadcastFrame` under whichever connection came first).  A frame-generation error is returned to
the caller and does NOT close the connection; the queued write's error is only given to `emitError`. -/
def broadcast (cfg : Cfg) (codec : Codec) (st : Conn) (built : Except WErr (Bytes × Bool)) (payload : Bytes)
    (closeKey : Bytes) : Out :=
  match built with
  | .error e => { wire := [], err := some e, st := st }
  | .ok (frame, compressed) =>
    let o := emitError cfg codec (writeBroadcast st frame compressed payload) closeKey
    { o with err := none }

/-! ## WriteFile -/

/-- A scripted `io.Reader`: the successive results of `Read(p)`; `(chunk, eof)` = `len(chunk)` bytes
returned together with `io.EOF` iff `eof` (a zero-length chunk is a legal read).  A script that ends
without an EOF read models a reader that then fails with some other error. -/
abbrev ReaderScript := List (Bytes × Bool)

/-- `frame.Bytes()[0] |= uint8(64)` -/
def setRsv1 (frame : Bytes) : Bytes :=
  match frame with
  | b0 :: r => (b0 ||| 64) :: r
  | [] => []

/-- the callback `cb` of `doWriteFile`: frame `index` of the message, carrying `p` -/
def fileFrame (cfg : Cfg) (codec : Codec) (closed : Bool) (opcode index : Nat) (eof : Bool) (p : Bytes) (key : Bytes) :
    Except WErr Bytes :=
  let op := if index > 0 then Facts.opContinuation else opcode
  match genFrame cfg codec Win.disabled op [p] { fin := eof, compress := false, broadcast := false, checkEncoding := false } key with
  | .error e => .error e
  | .ok frame =>
    let frame := if cfg.pdEnabled ∧ index = 0 then setRsv1 frame else frame
    if closed then .error .connClosed else .ok frame       -- else: internal.WriteN(c.conn, frame.Bytes())

/-- `splitReader(r, f)`: one callback per `Read`, until the read that reports EOF.  Returns the
frames written (one transport write each) and the error. -/
def splitReader (f : Nat → Bool → Bytes → Except WErr Bytes) : ReaderScript → Nat → List Bytes × Option WErr
  | [], _ => ([], some .reader)
  | (p, eof) :: rest, index =>
    match f index eof p with
    | .error e => ([], some e)
    | .ok frame =>
      if eof then ([frame], none)
      else
        let r := splitReader f rest (index + 1)
        (frame :: r.1, r.2)

/-- the chunks `readerWrapper.WriteTo` passes to the compressor (and to the window), and whether the
reader reached EOF -/
def readChunks : ReaderScript → List Bytes × Bool
  | [] => ([], false)
  | (p, eof) :: rest => if eof then ([p], true) else let r := readChunks rest; (p :: r.1, r.2)

/-- a pooled `*bytes.Buffer` of the aggregator: its capacity and contents (the code never writes
more than `cap` bytes into one — `Writer.write_fits` — so no buffer reallocates and `Cap()` is constant) -/
structure Buf where
  cap : Nat
  data : Bytes
deriving Repr, DecidableEq

/-- `flateWriter` -/
structure FlateWriter where
  index : Nat := 0
  buffers : List Buf := []
deriving Repr

/-- `flateWriter.write(p)` -/
def FlateWriter.write (w : FlateWriter) (p : Bytes) : FlateWriter :=
  let size := max Facts.segmentSize p.length
  let bufs := if w.buffers.length = 0 then w.buffers ++ [{ cap := Pool.cap size, data := [] }] else w.buffers
  match bufs.getLast? with
  | none => w                                   -- not reachable: `bufs` is non-empty
  | some tail =>
    if tail.data.length + p.length + Facts.frameHeaderSize > tail.cap then
      { w with buffers := bufs ++ [{ cap := Pool.cap size, data := p }] }
    else
      { w with buffers := bufs.dropLast ++ [{ tail with data := tail.data ++ p }] }

/-- `flateWriter.shouldCall()` -/
def FlateWriter.shouldCall (w : FlateWriter) : Bool :=
  let n := w.buffers.length
  if n < 2 then false
  else decide (((w.buffers.drop 1).map (·.data.length)).sum ≥ 4)

/-- the compressor's `Write` calls on the `flateWriter`, in order (`flateWriter.Write`): returns the
writer, the frames written, and the callback's error if one stopped the compressor -/
def feed (cb : Nat → Bool → Bytes → Except WErr Bytes) : FlateWriter → List Bytes → FlateWriter × List Bytes × Option WErr
  | w, [] => (w, [], none)
  | w, p :: ps =>
    let w1 := w.write p
    if w1.shouldCall then
      match w1.buffers with
      | [] => (w1, [], none)                    -- not reachable: `shouldCall` implies two buffers
      | b0 :: rest =>
        match cb w1.index false b0.data with
        | .error e => (w1, [], some e)
        | .ok frame =>
          let r := feed cb { index := w1.index + 1, buffers := rest } ps
          (r.1, frame :: r.2.1, r.2.2)
    else feed cb w1 ps

/-- `flateWriter.Flush()` -/
def FlateWriter.flush (cb : Nat → Bool → Bytes → Except WErr Bytes) (w : FlateWriter) : Except WErr Bytes :=
  match w.buffers with
  | [] => .error (.panic "index out of range [0] with length 0")
  | b0 :: rest =>
    let buf := b0.data ++ (rest.map (·.data)).flatten
    cb w.index true (stripTail buf)

/-- `bigDeflater.Compress(reader, fw, dict)` seen from the `flateWriter`: `outs` are the `Write`
calls the library makes while `readerWrapper.WriteTo` feeds it and during its final `Flush()`;
then `fw.Flush()`.  `sawEof = false`: the reader failed, `compressTo` returns before flushing. -/
def compressFile (cb : Nat → Bool → Bytes → Except WErr Bytes) (sawEof : Bool) (outs : List Bytes) : List Bytes × Option WErr :=
  let r := feed cb {} outs
  match r.2.2 with
  | some e => (r.2.1, some e)
  | none =>
    if !sawEof then (r.2.1, some .reader)
    else
      match r.1.flush cb with
      | .error e => (r.2.1, some e)
      | .ok frame => (r.2.1 ++ [frame], none)

/-- `doWriteFile(opcode, payload)`: the frames written (one transport write each), the error, and
the window afterwards.  `outs` is only consulted when compression is negotiated. -/
def writeFileFrames (cfg : Cfg) (codec : Codec) (st : Conn) (opcode : Nat) (reads : ReaderScript) (outs : List Bytes)
    (keys : Nat → Bytes) : List Bytes × Option WErr × Win :=
  let cb := fun index eof p => fileFrame cfg codec st.closed opcode index eof p (keys index)
  if cfg.pdEnabled then
    let rc := readChunks reads
    let r := compressFile cb rc.2 outs
    -- readerWrapper: `c.sw.Write(p[:n])` for every chunk read (a compressed message: it enters the history)
    (r.1, r.2, rc.1.foldl Win.write st.cps)
  else
    let r := splitReader cb reads 0
    (r.1, r.2, st.cps)

/-- `WriteFile(opcode, payload)` -/
def writeFile (cfg : Cfg) (codec : Codec) (st : Conn) (opcode : Nat) (reads : ReaderScript) (outs : List Bytes)
    (keys : Nat → Bytes) : Out :=
  let r := writeFileFrames cfg codec st opcode reads outs keys
  emitError cfg codec { wire := r.1.flatten, err := r.2.1, st := { st with cps := r.2.2 } } (keys r.1.length)

end Writer
