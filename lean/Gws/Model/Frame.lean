import Gws.Basic
import Gws.Generated.Facts
/-!
# Model of `frameHeader` (types.go:136-265)

Header bytes are handled through their numeric value (`UInt8.toNat`); Go's `uint8` shifts are
written out with the truncation they perform: `x << k` is `x * 2^k % 256`, `x >> k` is `x / 2^k`.
`Parse` returns a Go `int` obtained from a `uint16`/`uint64`: modelled as `Int` with the two's
complement reinterpretation `toGoInt` (so a 64-bit length with the top bit set is *negative*, as in
the code).
-/

namespace Frame

/-- `uint8(x) << k` -/
def shl8 (x k : Nat) : Nat := x * 2 ^ k % 256
/-- `uint8(x) >> k` -/
def shr8 (x k : Nat) : Nat := x / 2 ^ k

def getFIN (b0 : Nat) : Bool := shr8 b0 7 == 1
def getRSV1 (b0 : Nat) : Bool := shr8 (shl8 b0 1) 7 == 1
def getRSV2 (b0 : Nat) : Bool := shr8 (shl8 b0 2) 7 == 1
def getRSV3 (b0 : Nat) : Bool := shr8 (shl8 b0 3) 7 == 1
def getOpcode (b0 : Nat) : Nat := shr8 (shl8 b0 4) 4
def getMask (b1 : Nat) : Bool := shr8 b1 7 == 1
def getLengthCode (b1 : Nat) : Nat := shr8 (shl8 b1 1) 1

/-- `binary.BigEndian.Uint16` -/
def be16 (a b : UInt8) : Nat := a.toNat * 256 + b.toNat
/-- `binary.BigEndian.Uint64` -/
def be64 (a b c d e f g h : UInt8) : Nat :=
  ((((((a.toNat * 256 + b.toNat) * 256 + c.toNat) * 256 + d.toNat) * 256 + e.toNat) * 256 + f.toNat) * 256 + g.toNat) * 256 + h.toNat
/-- `int(x)` for a `uint64` x on a 64-bit platform -/
def toGoInt (v : Nat) : Int := if v ≥ 2 ^ 63 then (v : Int) - 2 ^ 64 else v

/-- what `Parse` leaves in the header array, plus the length it returns -/
structure Hdr where
  b0 : Nat
  b1 : Nat
  len : Int            -- the Go `int` returned by Parse
  key : Bytes          -- 4 bytes iff the mask bit is set, else []
deriving Repr, DecidableEq

inductive ParseRes where
  | needMore                       -- the reader ran out before the header was complete (io error)
  | ok (h : Hdr) (rest : Bytes)
deriving Repr

/-- `frameHeader.Parse`: 2 bytes, then the 16- or 64-bit extended length, then the key -/
def parse (b : Bytes) : ParseRes :=
  match b with
  | x0 :: x1 :: r =>
    let b0 := x0.toNat
    let b1 := x1.toNat
    let code := getLengthCode b1
    let lenRes : Option (Int × Bytes) :=
      if code = 126 then
        match r with
        | a :: b :: r' => some ((be16 a b : Nat), r')
        | _ => none
      else if code = 127 then
        match r with
        | a :: b :: c :: d :: e :: f :: g :: h :: r' => some (toGoInt (be64 a b c d e f g h), r')
        | _ => none
      else some ((code : Nat), r)
    match lenRes with
    | none => .needMore
    | some (len, r1) =>
      if getMask b1 then
        match r1 with
        | k0 :: k1 :: k2 :: k3 :: r2 => .ok { b0, b1, len, key := [k0, k1, k2, k3] } r2
        | _ => .needMore
      else .ok { b0, b1, len, key := [] } r1
  | _ => .needMore

/-! ## Header generation (`SetLength`, `GenerateHeader`) -/

def u16be (n : Nat) : Bytes := [UInt8.ofNat (n / 256 % 256), UInt8.ofNat (n % 256)]
def u64be (n : Nat) : Bytes :=
  [UInt8.ofNat (n / 2^56 % 256), UInt8.ofNat (n / 2^48 % 256), UInt8.ofNat (n / 2^40 % 256), UInt8.ofNat (n / 2^32 % 256),
   UInt8.ofNat (n / 2^24 % 256), UInt8.ofNat (n / 2^16 % 256), UInt8.ofNat (n / 2^8 % 256), UInt8.ofNat (n % 256)]

/-- `GenerateHeader(isServer, fin, compress, opcode, length)` with the mask key as an input (the
code draws it from a PRNG).  `length` is a non-negative Go int. Returns the header bytes. -/
def genHeader (isServer fin compress : Bool) (opcode : Nat) (length : Nat) (key : Bytes) : Bytes :=
  let b0 := (opcode + (if fin then 128 else 0) + (if compress then 64 else 0)) % 256
  let (b1, ext) : Nat × Bytes :=
    if length ≤ Facts.thresholdV1 then (length, [])
    else if length ≤ Facts.thresholdV2 then (126, u16be length)
    else (127, u64be length)
  if isServer then [UInt8.ofNat b0, UInt8.ofNat b1] ++ ext
  else [UInt8.ofNat b0, UInt8.ofNat (b1 ||| 128)] ++ ext ++ key

end Frame
