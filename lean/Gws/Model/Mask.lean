/-!
# Model of `internal.MaskXOR` (internal/utils.go:93-130)

The Go code reads the 4-byte key as a little-endian `uint32`, builds
`key64 = uint64(maskKey)<<32 + uint64(maskKey)`, XORs the buffer 64 bytes at a time as eight
little-endian 64-bit words, then 8 bytes at a time, then byte by byte with `key[i & 3]`.
The model keeps those three loops and the word arithmetic on `BitVec 64` (wrap-around `+`
included); bytes are `BitVec 8` here and converted to `UInt8` at the driver boundary.
-/

abbrev B8 := BitVec 8

namespace Mask

structure Key where
  k0 : B8
  k1 : B8
  k2 : B8
  k3 : B8
deriving Repr, DecidableEq

/-- `key[i mod 4]` — the RFC 6455 §5.3 masking key octet for payload index `i` -/
def Key.get (k : Key) (i : Nat) : B8 :=
  match i % 4 with
  | 0 => k.k0
  | 1 => k.k1
  | 2 => k.k2
  | _ => k.k3

/-- byte `j` (little-endian position) of a 64-bit word: what `PutUint64` stores at offset `j` -/
def byteOf (v : BitVec 64) (j : Nat) : B8 := (v >>> (8 * j)).setWidth 8
/-- a byte moved to little-endian position `i` of a 64-bit word -/
def place (b : B8) (i : Nat) : BitVec 64 := b.setWidth 64 <<< (8 * i)

/-- `binary.LittleEndian.Uint64` -/
def le64 (b0 b1 b2 b3 b4 b5 b6 b7 : B8) : BitVec 64 :=
  place b0 0 ||| place b1 1 ||| place b2 2 ||| place b3 3 ||| place b4 4 ||| place b5 5 ||| place b6 6 ||| place b7 7

/-- `binary.LittleEndian.Uint32` -/
def le32 (k0 k1 k2 k3 : B8) : BitVec 32 :=
  k0.setWidth 32 ||| (k1.setWidth 32 <<< 8) ||| (k2.setWidth 32 <<< 16) ||| (k3.setWidth 32 <<< 24)

/-- `uint64(maskKey)<<32 + uint64(maskKey)` exactly as the code builds it (modular `+`) -/
def key64 (k : Key) : BitVec 64 :=
  ((le32 k.k0 k.k1 k.k2 k.k3).setWidth 64 <<< 32) + (le32 k.k0 k.k1 k.k2 k.k3).setWidth 64

/-- `v := Uint64(b[0:8]); PutUint64(b[0:8], v ^ key64)` on an 8-byte slice -/
def word8 (k : Key) : List B8 → List B8
  | [b0, b1, b2, b3, b4, b5, b6, b7] =>
    let v := le64 b0 b1 b2 b3 b4 b5 b6 b7 ^^^ key64 k
    [byteOf v 0, byteOf v 1, byteOf v 2, byteOf v 3, byteOf v 4, byteOf v 5, byteOf v 6, byteOf v 7]
  | l => l   -- not reachable: callers pass exactly 8 bytes (`word8_total` in Lemmas/Mask)

/-- Go slice expression `b[i:j]` -/
def sl (b : List B8) (i j : Nat) : List B8 := (b.drop i).take (j - i)

/-- final loop: `for i := 0; i < n; i++ { b[i] ^= key[i&3] }` -/
def tailLoop (k : Key) (i : Nat) : List B8 → List B8
  | [] => []
  | x :: xs => (x ^^^ k.get (i &&& 3)) :: tailLoop k (i + 1) xs

/-- `for len(b) >= 8 { …; b = b[8:] }` followed by the tail loop -/
def loop8 (k : Key) (b : List B8) : List B8 :=
  if 8 ≤ b.length then word8 k (sl b 0 8) ++ loop8 k (b.drop 8) else tailLoop k 0 b
termination_by b.length
decreasing_by simp; omega

/-- `for len(b) >= 64 { eight word operations; b = b[64:] }` followed by the other loops -/
def maskXOR (k : Key) (b : List B8) : List B8 :=
  if 64 ≤ b.length then
    word8 k (sl b 0 8) ++ word8 k (sl b 8 16) ++ word8 k (sl b 16 24) ++ word8 k (sl b 24 32) ++
    word8 k (sl b 32 40) ++ word8 k (sl b 40 48) ++ word8 k (sl b 48 56) ++ word8 k (sl b 56 64) ++
    maskXOR k (b.drop 64)
  else loop8 k b
termination_by b.length
decreasing_by simp; omega

/-- RFC 6455 §5.3: octet `i` of the transformed data is octet `i` of the original XOR `key[i mod 4]` -/
def spec (k : Key) (b : List B8) : List B8 := b.mapIdx fun i x => x ^^^ k.get i

end Mask
