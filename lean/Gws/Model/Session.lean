import Gws.Model.Window
import Gws.Model.Codec
import Gws.Generated.Facts
/-!
# One direction of a permessage-deflate session: sender and receiver bookkeeping

The sender side is `doWrite` / `Broadcaster.writeFrame` / `doWriteFile` as far as the compression
window is concerned; the receiver side is `emitMessage`.  A direction is parameterised by whether it
keeps context (`takeover`) and by its window bits; `thr` is the sender's compression threshold
(0 under takeover: `setThreshold`).  `hist` is the RFC 7692 history of the direction: the payloads of
the compressed messages so far, unbounded.

Which window update follows which write is read off the code (writer.go): the window is updated
exactly when the frame that went out was a compressed data frame.
-/

namespace Session

inductive Op where
  | data (payload : Bytes)                         -- WriteMessage/Writev/WriteAsync of a data message
  | control (payload : Bytes)                      -- Ping/Pong/Close with a payload
  | bcast (compressed : Bool) (payload : Bytes)    -- a shared broadcast frame; whether it was built compressed is decided by the connection it was built under
  | file (chunks : List Bytes)                     -- WriteFile
deriving Repr, DecidableEq

/-- negotiated, immutable parameters of one direction -/
structure Cfg where
  enabled : Bool            -- permessage-deflate negotiated
  takeover : Bool           -- this direction keeps context
  bits : Nat
  thr : Nat                 -- sender's threshold as configured (forced to 0 under takeover)
deriving Repr

def Cfg.threshold (c : Cfg) : Nat := if c.takeover then 0 else c.thr

structure St where
  cps : Win                 -- sender's window
  dps : Win                 -- receiver's window
  hist : Bytes              -- RFC 7692 history (unbounded)
deriving Repr, DecidableEq

def Cfg.winInit (c : Cfg) : Win := if c.enabled && c.takeover then Win.init c.bits else Win.disabled

def St.init (c : Cfg) : St := { cps := c.winInit, dps := c.winInit, hist := [] }

/-- is the message of this operation sent as a compressed message -/
def Cfg.compresses (c : Cfg) : Op → Bool
  | .data p => c.enabled && decide (p.length ≥ c.threshold)
  | .control _ => false
  | .bcast b _ => c.enabled && b
  | .file _ => c.enabled

def Op.payload : Op → Bytes
  | .data p => p
  | .control p => p
  | .bcast _ p => p
  | .file cs => cs.flatten

/-- the dictionary the sender compresses against: its window, except for broadcast frames, which
are shared between connections and compressed without a dictionary -/
def St.sendDict (s : St) : Op → Bytes
  | .bcast _ _ => []
  | _ => s.cps.dict

/-- sender: window update after the write (only for compressed data messages; `WriteFile` feeds the
window chunk by chunk as it reads) -/
def sendUpdate (c : Cfg) (w : Win) (op : Op) : Win :=
  if c.compresses op then
    match op with
    | .file cs => cs.foldl Win.write w
    | _ => w.write op.payload
  else w

/-- receiver: a compressed message is inflated against `dps` and then appended to it -/
def recvUpdate (c : Cfg) (w : Win) (op : Op) : Win :=
  if c.compresses op then w.write op.payload else w

def histUpdate (c : Cfg) (h : Bytes) (op : Op) : Bytes :=
  if c.compresses op && c.takeover then h ++ op.payload else h

def step (c : Cfg) (s : St) (op : Op) : St :=
  { cps := sendUpdate c s.cps op, dps := recvUpdate c s.dps op, hist := histUpdate c s.hist op }

end Session
