import Gws.Model.Writer
import Gws.Trans.Prelude
/-!
# Go semantics assumed by the buffer-list dialect of tools/gotrans (trusted, like Gws/Trans/Prelude.lean)

`flateWriter` (writefile.go) keeps pooled `*bytes.Buffer`s in `c.buffers` and works on them through pointers. The dialect
represents a pointer to an element of `c.buffers` by the index of that element (the translator refuses a pointer that is used
after `c.buffers` was re-sliced, and accepts a fresh buffer only at the moment it is appended). A buffer is its capacity and
its contents (`Writer.Buf`); `none` is a run-time panic.
-/
namespace GoFW
open Writer

/-- `bs[i]` for an `int` index: bounds-checked -/
def bufAddr (bs : List Buf) (i : Int) : Option Nat := if 0 ≤ i ∧ i.toNat < bs.length then some i.toNat else none

/-- `*p` for a pointer obtained from `bufAddr` -/
def deref (w : FlateWriter) (p : Nat) : Option Buf := w.buffers[p]?

/-- `binaryPool.Get(size)`: an empty buffer whose capacity is the pool's size class for the request (`Pool.cap`: the next power
of two within the pool's range, else the request itself; `TransEquiv.binaryCeil_eq` ties the rounding, the suites the rest) -/
def poolGet (size : Int) : Buf := { cap := Pool.cap size.toNat, data := [] }

/-- `p.Write(b)`: appends. A `bytes.Buffer` grows when its capacity is exceeded; the new capacity is not modelled (the code
only consults `Cap()` of buffers it has never overfilled: `Writer.write_fits`). -/
def bufWrite (w : FlateWriter) (p : Nat) (b : Bytes) : Option FlateWriter :=
  match w.buffers[p]? with
  | none => none
  | some x => some { w with buffers := w.buffers.set p { x with data := x.data ++ b } }

/-- `p.Truncate(n)`: panics outside `0 ≤ n ≤ Len()` -/
def bufTruncate (w : FlateWriter) (p : Nat) (n : Int) : Option FlateWriter :=
  match w.buffers[p]? with
  | none => none
  | some x => if 0 ≤ n ∧ n.toNat ≤ x.data.length then some { w with buffers := w.buffers.set p { x with data := x.data.take n.toNat } } else none

/-- `l[n:]`: panics outside `0 ≤ n ≤ len(l)` -/
def sliceFrom {α : Type} (l : List α) (n : Int) : Option (List α) :=
  if 0 ≤ n ∧ n.toNat ≤ l.length then some (l.drop n.toNat) else none

end GoFW
