import Gws.Basic
import Gws.Spec.Utf8
import Gws.Model.Nego
/-!
# Go semantics used by the generated translation (`Gws/Generated/Trans.lean`)

Hand-written and trusted as the reading of the Go language / standard library for the fragment that
`tools/gotrans` translates:

* `uint8/16/32/64` are Lean's `UInt8/16/32/64` (arithmetic modulo 2^n, shifts by constants below the
  width, conversions by truncation / zero extension);
* `int` is `Int` (the translated code never relies on `int` overflow); `int(x)` of a `uint64` is the
  two's complement reinterpretation; `uintN(i)` of an `int` is reduction modulo 2^N;
* `[]byte` and `[N]byte` are `List UInt8`: indexing by a constant, slicing (`take`/`drop`), `append`
  (`++`), `copy` (`goCopy`), `encoding/binary` getters and putters;
* `*bytes.Buffer` is the `List UInt8` of its unread bytes (`Write` appends, `Next`/`Read` drop from the front,
  `Reset`/`Truncate`); a buffer taken from `binaryPool` is empty; `internal.Payload` is the concatenation of
  its slices; `unicode/utf8.Valid` is RFC 3629 well-formedness (`Spec.Utf8.valid`, compared exhaustively with
  the real function on every run by the utf8 suite);
* a Go `string` is its bytes (`Hs.Str`); `http.Header.Get/Values`, `strings.EqualFold`, `strings.Join(·, ",")`,
  `internal.Split(·, ",")` and `ComputeAcceptKey` are the functions of the same name in `Gws/Model/Handshake.lean`
  (`Hs.get`, `Hs.vals`, `Hs.foldEq`, `Hs.joinComma`, `Hs.split`, `Hs.acceptKey`): their reading of net/http and
  `strings` is trusted and sampled by the handshake suites; the generated file imports that module for them;
* in the three targets of the extension negotiation (`permessageNegotiation`, `genRequestHeader`, `genResponseHeader`) a Go
  `string` is `Nego.Str` (one `Char` per byte) and a `[]string` a `List Nego.Str`: constants are `"…".toList`, `+` is `++`,
  `==` is list equality, `xs[i]` for a constant `i` is `xs.getD i []`; `internal.Split(·, ";")`, `strings.SplitN(·, "=", 2)`,
  `strconv.Atoi` (error dropped), `strconv.Itoa`, `strings.Join` are `Nego.split`, `goSplitN2` (the list view of
  `Nego.splitN2`), `Nego.atoi`, `Nego.itoa`, `Nego.join` of `Gws/Model/Nego.lean`: their reading of `strings` / `strconv` is
  trusted and compared with the real functions by the negotiation suite's differential test;
* `error` is `Option GoErr`: `nil`, a close status code, or an I/O error of the byte source.
-/

inductive GoErr where
  | status (code : UInt16)     -- an `internal.StatusCode` used as an error
  | io                         -- the reader ran out / failed (`io.ReadFull` did not fill the buffer)
  | named (name : String)      -- a package-level error value (`ErrTextEncoding`, …)
  | coded (code : UInt16)      -- an `*internal.Error` carrying that status code (`internal.NewError(code, …)`)
deriving Repr, DecidableEq

/-- `a[i]` for a constant `i` (in range by Go's compile-time check for arrays) -/
def goIdx (a : List UInt8) (i : Nat) : UInt8 := a.getD i 0

/-- `int(x)` for `x : uint64` on a 64-bit platform -/
def goIntOfU64 (x : UInt64) : Int := if x.toNat ≥ 2 ^ 63 then (x.toNat : Int) - 2 ^ 64 else x.toNat

def goUIntOfInt8 (i : Int) : UInt8 := UInt8.ofNat (i % 256).toNat
def goUIntOfInt16 (i : Int) : UInt16 := UInt16.ofNat (i % 65536).toNat
def goUIntOfInt32 (i : Int) : UInt32 := UInt32.ofNat (i % 4294967296).toNat
def goUIntOfInt64 (i : Int) : UInt64 := UInt64.ofNat (i % 18446744073709551616).toNat

/-- `binary.BigEndian.Uint16(s)` -/
def goU16BE (s : List UInt8) : UInt16 := UInt16.ofNat ((goIdx s 0).toNat * 256 + (goIdx s 1).toNat)

/-- `binary.BigEndian.Uint64(s)` -/
def goU64BE (s : List UInt8) : UInt64 :=
  UInt64.ofNat ((((((((goIdx s 0).toNat * 256 + (goIdx s 1).toNat) * 256 + (goIdx s 2).toNat) * 256 + (goIdx s 3).toNat) * 256
    + (goIdx s 4).toNat) * 256 + (goIdx s 5).toNat) * 256 + (goIdx s 6).toNat) * 256 + (goIdx s 7).toNat)

/-- the bytes `binary.BigEndian.PutUint16` stores -/
def goBytesU16BE (v : UInt16) : List UInt8 := [UInt8.ofNat (v.toNat / 256 % 256), UInt8.ofNat (v.toNat % 256)]

/-- the bytes `binary.BigEndian.PutUint64` stores -/
def goBytesU64BE (v : UInt64) : List UInt8 :=
  [UInt8.ofNat (v.toNat / 2^56 % 256), UInt8.ofNat (v.toNat / 2^48 % 256), UInt8.ofNat (v.toNat / 2^40 % 256), UInt8.ofNat (v.toNat / 2^32 % 256),
   UInt8.ofNat (v.toNat / 2^24 % 256), UInt8.ofNat (v.toNat / 2^16 % 256), UInt8.ofNat (v.toNat / 2^8 % 256), UInt8.ofNat (v.toNat % 256)]

/-- the bytes `binary.LittleEndian.PutUint32` stores -/
def goBytesU32LE (v : UInt32) : List UInt8 :=
  [UInt8.ofNat (v.toNat % 256), UInt8.ofNat (v.toNat / 2^8 % 256), UInt8.ofNat (v.toNat / 2^16 % 256), UInt8.ofNat (v.toNat / 2^24 % 256)]

/-- `binary.BigEndian.Uint32(s)` -/
def goU32BE (s : List UInt8) : UInt32 :=
  UInt32.ofNat ((((goIdx s 0).toNat * 256 + (goIdx s 1).toNat) * 256 + (goIdx s 2).toNat) * 256 + (goIdx s 3).toNat)

/-- `unicode/utf8.Valid` -/
def goUtf8Valid (b : List UInt8) : Bool := Spec.Utf8.valid b

/-- `internal.MaskXOR(b, key)` by its specification (RFC 6455 5.3; what C18 proves of the implementation):
byte `i` becomes byte `i` XOR `key[i mod 4]` -/
def goMaskXOR (b key : List UInt8) : List UInt8 := b.mapIdx (fun i x => x ^^^ key.getD (i % 4) 0)

/-- `internal.ReadN(r, dst)` = `io.ReadFull`: the reader `r` is the list of bytes it will deliver; either `n` bytes are
delivered and consumed, or the call fails -/
def goReadN (r : List UInt8) (n : Nat) : Option (List UInt8 × List UInt8) :=
  if r.length < n then none else some (r.take n, r.drop n)

/-- `strings.SplitN(s, "=", 2)` as the slice it returns: one element when there is no `=`, otherwise the part before the first
`=` and the rest (`Nego.splitN2` is the same function with the optional second part as an `Option`) -/
def goSplitN2 (s : Nego.Str) : List Nego.Str :=
  match Nego.splitN2 s with
  | (a, none) => [a]
  | (a, some b) => [a, b]
