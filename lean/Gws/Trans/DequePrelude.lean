import Gws.Model.Deque
/-!
# Go semantics assumed by the deque dialect of tools/gotrans (trusted, like Gws/Trans/Prelude.lean)

`internal/deque.go` works on a slice of slots through pointers into it. The dialect represents a `*Element[T]` by the index
of its slot, `nil` by 0 (slot 0 is the sentinel that `New` allocates and no element ever occupies: `Get` returns `nil` for
address 0). That is what Go does as long as a pointer is not used across a reallocation or a truncation of `c.elements`
(after `append` the old backing array is a different object); the correspondence suite `deque` runs the real code and would
see such a stale pointer as a lost write.

`none` is a run-time panic.
-/
namespace GoDeque

/-- `&(els[i])`: an index expression, bounds-checked -/
def elemAddr (els : List Elem) (i : Nat) : Option Nat := if i < els.length then some i else none

/-- `p.f`, `*p` for a `*Element[T]`: a nil pointer panics -/
def deref (d : Deque) (p : Nat) : Option Elem := if p = 0 then none else some (d.load p)

/-- `p.f = x`, `*p = e`: a nil pointer panics -/
def assign (d : Deque) (p : Nat) (e : Elem) : Option Deque := if p = 0 then none else some (d.store p e)

/-- `l[i]` on a slice with an `int` index -/
def index (l : List Nat) (i : Int) : Option Nat := if i < 0 then none else l[i.toNat]?

/-- `l[:n]` (within the length; re-slicing into spare capacity does not occur in deque.go and is treated as a panic) -/
def sliceTo {α : Type} (l : List α) (n : Int) : Option (List α) :=
  if 0 ≤ n ∧ n.toNat ≤ l.length then some (l.take n.toNat) else none

/-- `Pointer(n)` for an `int` n: wrap-around at 2^32 slots is not modelled -/
def pointerOfInt (n : Int) : Nat := n.toNat

/-! the free-slot stack of a deque as a LIFO, top = head of the list; `TransEquiv.Stack_*` prove that the translated methods
of `Stack[T]` (a slice, top = last element) are this LIFO under `List.reverse` -/

def lifoLen (s : List Nat) : Int := s.length
def lifoPush (s : List Nat) (x : Nat) : List Nat := x :: s
def lifoPop : List Nat → Option (List Nat × Nat)
  | [] => none
  | x :: r => some (r, x)
def lifoClear (_s : List Nat) : List Nat := []

end GoDeque
