import Gws.Props.TransWriter
/-!
# T3 — `compressData` (writer.go) and the trailer strip of `deflater.Compress` (compress.go), translated from the
source on every run, equal the model's `Writer.compressData` / `Writer.stripTail`

`deflater.Compress` is a function parameter of the translated `compressData` (payload, buffer, dictionary ->
buffer afterwards, error); here it is instantiated with the model's reading of it: the library's output for that
dictionary is appended to the buffer, then the sync-flush trailer is stripped.  The theorem fixes which dictionary
the compressor is given — none for a broadcast frame, the connection's window otherwise (C02, C14) — and how the
header of the compressed frame is computed and back-filled (C05).
-/
namespace TransEquiv

private theorem u32_ofNat_beq (x : Nat) (hx4 : x < 4294967296) :
    (UInt32.ofNat x == (65535 : UInt32)) = decide (x = 65535) := by
  rw [Bool.eq_iff_iff]
  simp only [beq_iff_eq, decide_eq_true_eq]
  constructor
  · intro h
    have := congrArg UInt32.toNat h
    simp at this
    omega
  · intro h; subst h; rfl

private theorem u32be_4 (a b c d : UInt8) :
    (goU32BE [a, b, c, d] == (65535 : UInt32)) = decide (Writer.be32 [a, b, c, d] = 65535) := by
  unfold goU32BE Writer.be32 goIdx
  simp only [List.getD_cons_zero, List.getD_cons_succ]
  have ha := a.toNat_lt; have hb := b.toNat_lt; have hc := c.toNat_lt; have hd := d.toNat_lt
  apply u32_ofNat_beq
  omega

private theorem GenerateHeader_len' (isServer fin compress : Bool) (opcode : UInt8) (n : Nat) (hn : n < 2 ^ 63) (maskNum : UInt32) :
    (Trans.frameHeader_GenerateHeader (List.replicate 14 0) isServer fin compress opcode (n : Int) maskNum).2.1
      = ((Frame.genHeader isServer fin compress opcode.toNat n (goBytesU32LE maskNum)).length : Int) := by
  have h64 : goUIntOfInt64 (n : Int) = UInt64.ofNat n := by
    unfold goUIntOfInt64
    congr 1
    omega
  have r14 : List.replicate 14 (0 : UInt8) = 0 :: List.replicate 13 0 := rfl
  unfold Trans.frameHeader_GenerateHeader Frame.genHeader
  simp only [r14, List.set_cons_zero, h64, SetLength_eq _ n hn]
  by_cases h1 : n ≤ 125 <;> by_cases h2 : n ≤ 65535 <;> cases isServer <;>
    simp [h1, h2, Facts.thresholdV1, Facts.thresholdV2, goBytesU32LE, Frame.u16be, Frame.u64be]

private theorem maskXOR_eq' (maskNum : UInt32) (p : Bytes) :
    goMaskXOR p (goBytesU32LE maskNum) = Reader.unmask (goBytesU32LE maskNum) p := by
  rw [Writer.unmask_eq_xorKey]
  unfold goMaskXOR goBytesU32LE Writer.xorKey
  simp only
  apply List.ext_getElem
  · simp
  · intro i h1 h2
    simp only [List.getElem_mapIdx]
    congr 1
    have : i % 4 < 4 := Nat.mod_lt _ (by omega)
    generalize i % 4 = j at this
    match j, this with
    | 0, _ => rfl
    | 1, _ => rfl
    | 2, _ => rfl
    | 3, _ => rfl

private theorem goCopy_tail' (a b c : Bytes) (k : Nat) (hk : a.length = k) (hc : c.length = b.length) :
    goCopy (a ++ b) k c = a ++ c := by
  subst hk
  unfold goCopy
  have h1 : min c.length ((a ++ b).length - a.length) = c.length := by simp; omega
  simp only [h1, List.take_left', List.take_length, List.drop_append]
  have h2 : a.length + c.length - a.length = b.length := by omega
  rw [h2, List.drop_eq_nil_of_le (Nat.le_add_right _ _)]
  simp

/-- the removal of `00 00 ff ff` at the end of the compressor's output = `Writer.stripTail` -/
theorem stripTail_eq (dst : Bytes) : Trans.deflater_Compress_stripTail dst = .ok (Writer.stripTail dst) := by
  unfold Trans.deflater_Compress_stripTail Writer.stripTail
  simp only [Int.ofNat_eq_natCast]
  congr 1
  by_cases h4 : dst.length ≥ 4
  · have hI : ((dst.length : Int) ≥ 4) := by omega
    have hn : ((dst.length : Int) - 4).toNat = dst.length - 4 := by omega
    simp only [hI, hn, h4, decide_true, if_true, true_and]
    have hl : (dst.drop (dst.length - 4)).length = 4 := by simp; omega
    generalize dst.drop (dst.length - 4) = t at hl
    match t, hl with
    | [a, b, c, d], _ =>
      rw [u32be_4]
      simp
  · have hI : ¬ ((dst.length : Int) ≥ 4) := by omega
    simp [hI, h4]

/-- the same removal in `flateWriter.Flush` (the last frame of a streamed compressed message) -/
theorem flush_stripTail_eq (buf : Bytes) : Trans.flateWriter_Flush_stripTail buf = .ok (Writer.stripTail buf) := by
  unfold Trans.flateWriter_Flush_stripTail Writer.stripTail
  simp only [Int.ofNat_eq_natCast]
  congr 1
  by_cases h4 : buf.length ≥ 4
  · have hI : ((buf.length : Int) ≥ 4) := by omega
    have hn : ((buf.length : Int) - 4).toNat = buf.length - 4 := by omega
    simp only [hI, hn, h4, decide_true, if_true, true_and]
    have hl : (buf.drop (buf.length - 4)).length = 4 := by simp; omega
    generalize buf.drop (buf.length - 4) = t at hl
    match t, hl with
    | [a, b, c, d], _ =>
      rw [u32be_4]
      simp
  · have hI : ¬ ((buf.length : Int) ≥ 4) := by omega
    simp [hI, h4]

/-- `compressData` = `Writer.compressData`, for a compressor that succeeds.  `hlen`: the buffer still holds the 14 padding
bytes after the strip (the compressor's output is never shorter than its trailer) and is below 2^62 bytes. -/
theorem compressData_eq (cfg : Writer.Cfg) (codec : Codec) (cps : Win) (opcode : UInt8) (payload : List Bytes) (buf : Bytes)
    (fc : Writer.FrameCfg) (maskNum : UInt32)
    (hlen : ∀ dict, 14 ≤ (Writer.stripTail (buf ++ codec.compress cfg.bits dict payload)).length
      ∧ (Writer.stripTail (buf ++ codec.compress cfg.bits dict payload)).length < 2 ^ 62) :
    ∃ r, Writer.compressData cfg codec cps opcode.toNat payload buf fc (goBytesU32LE maskNum) = .ok r ∧
      Trans.Conn_compressData opcode payload.flatten buf (cfg_broadcast := fc.broadcast) (c_cpsWindow_dict := cps.dict)
        (c_isServer := cfg.isServer) (cfg_fin := fc.fin)
        (c_deflater_Compress := fun _ b dict => (Writer.stripTail (b ++ codec.compress cfg.bits dict payload), none))
        (maskNum := maskNum) = (r, r, none) := by
  refine ⟨_, rfl, ?_⟩
  unfold Trans.Conn_compressData
  have hd : (if (!fc.broadcast) = true then cps.dict else ([] : List UInt8)) = (if fc.broadcast = true then [] else cps.dict) := by
    cases fc.broadcast <;> rfl
  simp only [hd]
  obtain ⟨hl1, hl2⟩ := hlen (if fc.broadcast = true then [] else cps.dict)
  generalize Writer.stripTail (buf ++ codec.compress cfg.bits (if fc.broadcast = true then [] else cps.dict) payload) = C at hl1 hl2
  have hne : ((none : Option GoErr) != none) = false := rfl
  simp only [hne, Bool.false_eq_true, if_false, Facts.frameHeaderSize, Int.ofNat_eq_natCast]
  have hps : ((C.length : Int) - ((14 : Nat) : Int)) = ((C.length - 14 : Nat) : Int) := by omega
  have hps' : ((C.length : Int) - (14 : Int)) = ((C.length - 14 : Nat) : Int) := by omega
  have hu : Writer.toU64 ((C.length - 14 : Nat) : Int) = C.length - 14 := by
    unfold Writer.toU64; omega
  rw [hps, hps', hu]
  have hn : C.length - 14 < 2 ^ 63 := by omega
  obtain ⟨hg1, hg2⟩ := GenerateHeader_eq cfg.isServer fc.fin true opcode (C.length - 14) hn maskNum
  have hg3 := GenerateHeader_len' cfg.isServer fc.fin true opcode (C.length - 14) hn maskNum
  generalize Trans.frameHeader_GenerateHeader (List.replicate 14 0) cfg.isServer fc.fin true opcode
    ((C.length - 14 : Nat) : Int) maskNum = g at hg1 hg2 hg3
  generalize Frame.genHeader cfg.isServer fc.fin true opcode.toNat (C.length - 14) (goBytesU32LE maskNum) = H at hg1 hg3
  have hm : ((14 : Int) - g.2.1).toNat = 14 - H.length := by rw [hg3]; omega
  simp only [hm, hg1, hg2]
  have hbf : ∀ X : Bytes, X = Writer.backfill cfg.isServer H C (goBytesU32LE maskNum) → (X, X, (none : Option GoErr)) = (Writer.backfill cfg.isServer H C (goBytesU32LE maskNum), Writer.backfill cfg.isServer H C (goBytesU32LE maskNum), none) := by
    intro X h; rw [h]
  apply hbf
  unfold Writer.backfill
  simp only [Facts.frameHeaderSize]
  have h14 : Int.toNat 14 = 14 := rfl
  rw [h14]
  cases cfg.isServer
  · simp only [Bool.not_false, if_true, Bool.false_eq_true, if_false]
    rw [maskXOR_eq']
    congr 2
    have hC : C = C.take 14 ++ C.drop 14 := (List.take_append_drop 14 C).symm
    conv => lhs; arg 1; rw [hC]
    exact goCopy_tail' (C.take 14) (C.drop 14) _ 14 (by simp; omega) (by simp)
  · rfl

end TransEquiv
