import Gws.Generated.Trans
import Gws.Model.Conc.TaskQueue
/-!
# T3 — the critical section of `workerQueue.getJob` (task.go), translated from the source on every run, equals
`TQ.getJob`, the atomic action of the transition system C15 is proved about.
-/
set_option linter.unusedSimpArgs false

namespace TransEquiv

/-- proved by splitting on the three things the function looks at (is there a new job, is the worker limit reached, is
the queue empty) and normalising both sides: independent of how the Go code nests its conditions -/
theorem getJob_eq (s : TQ) (newJob : Option Nat) (delta : Int) :
    Trans.workerQueue_getJob newJob delta (c_q := s.q) (c_curConcurrency := s.cur) (c_maxConcurrency := s.max)
      = ((s.getJob newJob delta).1.cur, (s.getJob newJob delta).1.q, (s.getJob newJob delta).2) := by
  unfold Trans.workerQueue_getJob TQ.getJob
  cases newJob <;> cases hq : s.q <;> simp only [TQ.enq, List.nil_append, List.cons_append, Option.toList, bne_self_eq_false,
      Bool.false_eq_true, ↓reduceIte, List.head?, List.tail, ne_eq, reduceCtorEq, not_false_eq_true, bne_iff_ne, not_true_eq_false,
      decide_eq_true_eq, List.append_nil, beq_iff_eq] <;>
    (repeat' split) <;> (first | rfl | (exfalso; omega) | (simp_all; done) | (simp_all <;> omega))

example : Trans.workerQueue_getJob (some 7) 0 (c_q := []) (c_curConcurrency := 0) (c_maxConcurrency := 1) = (1, [], some 7) := by decide
example : Trans.workerQueue_getJob (some 8) 0 (c_q := []) (c_curConcurrency := 1) (c_maxConcurrency := 1) = (1, [8], none) := by decide
example : Trans.workerQueue_getJob none (-1) (c_q := [8]) (c_curConcurrency := 1) (c_maxConcurrency := 1) = (1, [], some 8) := by decide

end TransEquiv
