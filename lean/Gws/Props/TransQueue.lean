import Gws.Generated.Trans
import Gws.Model.Conc.TaskQueue
/-!
# T3 — the critical section of `workerQueue.getJob` (task.go), translated from the source on every run, equals
`TQ.getJob`, the atomic action of the transition system C15 is proved about.
-/
namespace TransEquiv

theorem getJob_eq (s : TQ) (newJob : Option Nat) (delta : Int) :
    Trans.workerQueue_getJob newJob delta s.q s.cur s.max
      = ((s.getJob newJob delta).1.cur, (s.getJob newJob delta).1.q, (s.getJob newJob delta).2) := by
  unfold Trans.workerQueue_getJob TQ.getJob
  have hq : (if (newJob != none) = true then s.q ++ newJob.toList else s.q) = TQ.enq s.q newJob := by
    cases newJob <;> simp [TQ.enq]
  simp only [hq]
  generalize TQ.enq s.q newJob = q1
  by_cases h : s.cur + delta ≥ s.max
  · simp [h]
  · simp only [h, decide_false, Bool.false_eq_true, ↓reduceIte]
    cases q1 with
    | nil => simp
    | cons j rest => simp

example : Trans.workerQueue_getJob (some 7) 0 [] 0 1 = (1, [], some 7) := by decide
example : Trans.workerQueue_getJob (some 8) 0 [] 1 1 = (1, [8], none) := by decide
example : Trans.workerQueue_getJob none (-1) [8] 1 1 = (1, [], some 8) := by decide

end TransEquiv
