import Gws.Generated.TransFW
import Gws.Props.TransSend
/-!
# T3 for the aggregator `flateWriter` of writefile.go (C05): the translated methods equal the model

`Gws/Generated/TransFW.lean` is regenerated from /repo/writefile.go on every run by the buffer-list dialect of tools/gotrans
(a pointer to an element of `c.buffers` = its index; `none` = panic). The callback `c.cb` is an uninterpreted function `cb`, so
each statement also says *which* call of the callback is made — with which frame index, end-of-message flag and bytes — and that
no other is: the right-hand sides are literally one step of `Writer.feed` and the body of `Writer.FlateWriter.flush`.
-/
set_option linter.unusedSimpArgs false

namespace TransEquiv.FW
open TransFW Writer

/-! ## helper lemmas -/

private theorem bufAddr_nat (bs : List Buf) (i : Nat) (h : i < bs.length) : GoFW.bufAddr bs (i : Int) = some i := by
  unfold GoFW.bufAddr
  simp [h]

private theorem deref_lt (w : FlateWriter) (i : Nat) (h : i < w.buffers.length) : GoFW.deref w i = some w.buffers[i] := by
  unfold GoFW.deref
  exact List.getElem?_eq_getElem h

private theorem sum_loop (w : FlateWriter) (n : Nat) : ∀ (a : Nat) (acc : Int), a + n ≤ w.buffers.length →
    forIn (m := Option) (List.range' a n) acc (fun (i' : Nat) (s : Int) =>
      (GoFW.bufAddr w.buffers (i' : Int)).bind fun x => (GoFW.deref w x).bind fun y =>
        some (ForInStep.yield (s + (y.data.length : Int))))
    = some (acc + ((((w.buffers.drop a).take n).map (·.data.length)).sum : Nat)) := by
  induction n with
  | zero => intro a acc _; simp
  | succ n ih =>
    intro a acc h
    have ha : a < w.buffers.length := by omega
    rw [List.range'_succ, List.forIn_cons, bufAddr_nat _ _ ha, Option.bind_some, deref_lt _ _ ha, Option.bind_some]
    simp only [Option.bind_eq_bind, Option.bind_some]
    rw [ih (a + 1) _ (by omega), List.drop_eq_getElem_cons ha]
    simp only [List.take_succ_cons, List.map_cons, List.sum_cons]
    congr 1
    omega

private theorem set_concat (l : List Buf) (t x : Buf) : (l ++ [t]).set l.length x = l ++ [x] := by
  induction l with
  | nil => rfl
  | cons a l ih => simp [ih]

/-- the part of `write` behind the first `if`, on a non-empty list `init ++ [t]` -/
private theorem write_core (idx : Nat) (init : List Buf) (t : Buf) (p : Bytes) (size : Int) :
    (do
      let __do_lift ← GoFW.bufAddr (init ++ [t]) (((init ++ [t]).length : Int) - 1)
      let a ← GoFW.deref { index := idx, buffers := init ++ [t] } __do_lift
      let b ← GoFW.deref { index := idx, buffers := init ++ [t] } __do_lift
      if (a.data.length : Int) + (p.length : Int) + 14 > (b.cap : Int) then
        GoFW.bufWrite { index := idx, buffers := init ++ [t] ++ [GoFW.poolGet size] } ((init ++ [t] ++ [GoFW.poolGet size]).length - 1) p
      else GoFW.bufWrite { index := idx, buffers := init ++ [t] } __do_lift p)
    = some (if t.data.length + p.length + Facts.frameHeaderSize > t.cap then
        { index := idx, buffers := init ++ [t] ++ [{ cap := Pool.cap size.toNat, data := p }] }
      else { index := idx, buffers := init ++ [{ t with data := t.data ++ p }] }) := by
  have h14 : Facts.frameHeaderSize = 14 := rfl
  have h1 : (((init ++ [t]).length : Int) - 1) = (init.length : Nat) := by simp
  rw [h1, bufAddr_nat _ _ (by simp)]
  have h2 : (init ++ [t])[init.length]? = some t := by simp
  simp only [GoFW.deref, GoFW.bufWrite, h2, Option.bind_eq_bind, Option.bind_some]
  by_cases hc : t.data.length + p.length + Facts.frameHeaderSize > t.cap
  · have hc' : (t.data.length : Int) + (p.length : Int) + 14 > (t.cap : Int) := by omega
    have h3 : (init ++ [t] ++ [GoFW.poolGet size]).length - 1 = (init ++ [t]).length := by simp
    have h4 : (init ++ [t] ++ [GoFW.poolGet size])[(init ++ [t]).length]? = some (GoFW.poolGet size) := by simp
    rw [if_pos hc, if_pos hc', h3, h4]
    simp only [set_concat]
    simp [GoFW.poolGet]
  · have hc' : ¬ (t.data.length : Int) + (p.length : Int) + 14 > (t.cap : Int) := by omega
    rw [if_neg hc, if_neg hc', set_concat]

private theorem u32_eq (a b c d : UInt8) : goU32BE [a, b, c, d] = 65535 ↔ be32 [a, b, c, d] = 65535 := by
  unfold goU32BE be32 goIdx
  simp only [List.getD_cons_zero, List.getD_cons_succ]
  have ha := a.toNat_lt; have hb := b.toNat_lt; have hc := c.toNat_lt; have hd := d.toNat_lt
  generalize hx : ((a.toNat * 256 + b.toNat) * 256 + c.toNat) * 256 + d.toNat = x
  have hx4 : x < 4294967296 := by omega
  constructor
  · intro h
    have := congrArg UInt32.toNat h
    simp at this
    omega
  · intro h; subst h; rfl

private theorem bufWrite_zero (idx : Nat) (b : Buf) (rest : List Buf) (d : Bytes) :
    GoFW.bufWrite ⟨idx, b :: rest⟩ 0 d = some ⟨idx, { b with data := b.data ++ d } :: rest⟩ := rfl

private theorem flush_loop (idx : Nat) (b0 : Buf) (rest : List Buf) (n : Nat) : ∀ (k : Nat) (acc : Bytes), k + n ≤ rest.length →
    forIn (m := Option) (List.range' (k + 1) n) (⟨idx, { b0 with data := acc } :: rest⟩ : FlateWriter)
      (fun (i' : Nat) (s : FlateWriter) =>
        (GoFW.bufAddr s.buffers (i' : Int)).bind fun x => (GoFW.deref s x).bind fun y =>
          (GoFW.bufWrite s 0 y.data).bind fun w => some (ForInStep.yield w))
    = some ⟨idx, { b0 with data := acc ++ (((rest.drop k).take n).map (·.data)).flatten } :: rest⟩ := by
  induction n with
  | zero => intro k acc _; simp
  | succ n ih =>
    intro k acc h
    have hk : k < rest.length := by omega
    have h2 : GoFW.deref ⟨idx, { b0 with data := acc } :: rest⟩ (k + 1) = some rest[k] := by
      simp [GoFW.deref, hk]
    rw [List.range'_succ, List.forIn_cons, bufAddr_nat _ _ (by simp; omega), Option.bind_some, h2, Option.bind_some]
    rw [bufWrite_zero, Option.bind_some]
    simp only [Option.bind_eq_bind, Option.bind_some]
    rw [ih (k + 1) _ (by omega), List.drop_eq_getElem_cons hk]
    simp only [List.take_succ_cons, List.map_cons, List.flatten_cons, List.append_assoc]

/-! ## the four methods -/

/-- `shouldCall` = the model's `shouldCall`: at least two buffers and at least four bytes behind the first -/
theorem shouldCall_eq (w : FlateWriter) : flateWriter_shouldCall w = some w.shouldCall := by
  unfold flateWriter_shouldCall FlateWriter.shouldCall
  simp only []
  by_cases h : w.buffers.length < 2
  · have h' : (w.buffers.length : Int) < 2 := by omega
    simp [h, h']
  · have h' : ¬ (w.buffers.length : Int) < 2 := by omega
    have e1 : Int.toNat 1 = 1 := rfl
    have e2 : ((w.buffers.length : Int) - 1).toNat = w.buffers.length - 1 := by omega
    simp only [h, h', if_false, e1, e2, Option.bind_eq_bind, Option.pure_def]
    rw [sum_loop w (w.buffers.length - 1) 1 0 (by omega)]
    have : (w.buffers.drop 1).take (w.buffers.length - 1) = w.buffers.drop 1 := by
      apply List.take_of_length_le; simp
    rw [this, Option.bind_some]
    congr 1
    rw [decide_eq_decide]
    omega

/-- `write(p)` = the model's `write`: `p` goes to the last buffer if it fits together with a frame header, else to a new one -/
theorem write_eq (w : FlateWriter) (p : Bytes) : flateWriter_write w p = some (w.write p) := by
  have hsz : (max (131072 : Int) (p.length : Int)).toNat = max Facts.segmentSize p.length := by
    have : Facts.segmentSize = 131072 := rfl
    omega
  obtain ⟨idx, bufs⟩ := w
  unfold flateWriter_write FlateWriter.write
  rcases List.eq_nil_or_concat bufs with h | ⟨init, t, h⟩
  · subst h
    simp only [List.length_nil, Int.natCast_zero, if_true]
    refine (write_core idx [] (GoFW.poolGet (max 131072 ↑(List.length p))) p (max 131072 ↑(List.length p))).trans ?_
    simp only [List.nil_append, GoFW.poolGet, hsz, List.getLast?_singleton, List.dropLast_singleton, List.length_nil]
  · rw [List.concat_eq_append] at h
    subst h
    have hl : ¬ (((init ++ [t]).length : Int) = 0) := by simp; omega
    have hl' : ¬ ((init ++ [t]).length = 0) := by simp
    simp only [hl, hl', if_false]
    refine (write_core idx init t p (max 131072 ↑(List.length p))).trans ?_
    simp only [List.getLast?_concat, List.dropLast_concat, hsz]

/-- `Write(p)`: after `write`, iff `shouldCall`, exactly one callback — frame `index`, not final, the bytes of the FIRST
buffer — then that buffer is dropped and the index advances; the callback's error is returned (one step of `Writer.feed`) -/
theorem Write_eq {σ : Type} (cb : σ → Nat → Bool → Bytes → σ × Option GoErr) (st : σ) (w : FlateWriter) (p : Bytes) :
    flateWriter_Write cb st w p =
      (let w1 := w.write p
       if w1.shouldCall then
         match w1.buffers with
         | [] => none
         | b0 :: rest =>
           some ({ index := w1.index + 1, buffers := rest }, (cb st w1.index false b0.data).1, (0 : Int), (cb st w1.index false b0.data).2)
       else some (w1, st, (0 : Int), none)) := by
  unfold flateWriter_Write
  simp only [write_eq, shouldCall_eq, Option.bind_eq_bind, Option.bind_some, Option.pure_def]
  generalize w.write p = w1
  obtain ⟨idx, bufs⟩ := w1
  cases hs : FlateWriter.shouldCall ⟨idx, bufs⟩
  · simp
  · cases bufs with
    | nil => simp [GoFW.bufAddr]
    | cons b0 rest =>
      simp [GoFW.bufAddr, GoFW.deref, GoFW.sliceFrom]

/-- `Flush()`: everything still held is joined into the first buffer, the sync-flush trailer is removed, and exactly one
callback is made — frame `index`, final, those bytes (the body of `Writer.FlateWriter.flush`); with no buffer at all the
Go code panics (`c.buffers[0]`) -/
theorem Flush_eq {σ : Type} (cb : σ → Nat → Bool → Bytes → σ × Option GoErr) (st : σ) (w : FlateWriter) :
    flateWriter_Flush cb st w =
      (match w.buffers with
       | [] => none
       | b0 :: rest =>
         let data := stripTail (b0.data ++ (rest.map (·.data)).flatten)
         some ({ index := w.index + 1, buffers := { b0 with data := data } :: rest }, (cb st w.index true data).1, (cb st w.index true data).2)) := by
  obtain ⟨idx, bufs⟩ := w
  unfold flateWriter_Flush
  cases bufs with
  | nil => simp [GoFW.bufAddr]
  | cons b0 rest =>
    have e0 : GoFW.bufAddr (b0 :: rest) 0 = some 0 := by simp [GoFW.bufAddr]
    have e1 : Int.toNat 1 = 0 + 1 := rfl
    have e2 : (((b0 :: rest).length : Int) - 1).toNat = rest.length := by simp
    simp only [e0, e1, e2, Option.bind_eq_bind, Option.bind_some, Option.pure_def]
    have := flush_loop idx b0 rest rest.length 0 b0.data (by omega)
    simp only [List.drop_zero, List.take_length] at this
    rw [this]
    generalize b0.data ++ (rest.map (·.data)).flatten = d
    simp only [Option.bind_some, GoFW.deref, List.getElem?_cons_zero]
    unfold stripTail
    by_cases h4 : d.length ≥ 4
    · have hI : ((d.length : Int) ≥ 4) := by omega
      have hn : ((d.length : Int) - 4).toNat = d.length - 4 := by omega
      have hs : GoFW.sliceFrom d ((d.length : Int) - 4) = some (d.drop (d.length - 4)) := by
        unfold GoFW.sliceFrom
        rw [hn, if_pos ⟨by omega, by omega⟩]
      simp only [hI, h4, if_true, true_and, hs, Option.bind_some]
      have hl : (d.drop (d.length - 4)).length = 4 := by simp; omega
      generalize d.drop (d.length - 4) = t at hl
      match t, hl with
      | [a, b, c, e], _ =>
        by_cases hu : be32 [a, b, c, e] = 65535
        · have hu' := (u32_eq a b c e).2 hu
          simp only [hu, hu', if_true, GoFW.bufTruncate, List.getElem?_cons_zero, hn]
          have hI' : (4 : Int) ≤ (d.length : Int) := hI
          simp [hI']
        · have hu' : ¬ goU32BE [a, b, c, e] = 65535 := fun h => hu ((u32_eq a b c e).1 h)
          simp only [hu, hu', if_false]
    · have hI : ¬ ((d.length : Int) ≥ 4) := by omega
      simp only [hI, h4, if_false, false_and]


/-! ## the compressed `WriteFile` path below the compressor

`bigDeflater.Compress(reader, fw, dict)`: while `readerWrapper.WriteTo` feeds it (`TransEquiv.RL.WriteTo_eq`) the compressor calls
`fw.Write` with pieces of its output — `outs`, in order; klauspost is not translated, so *which* pieces is an input — and stops at
the first error; then `fw.Flush()` unless the reader failed. `compressT` is that calling sequence over the TRANSLATED `Write` and
`Flush`; `compressFile_translated` shows it produces the frames and the error of the model's `Writer.compressFile`. -/

/-- the Go callback seen from the aggregator, for a model callback `f`: the frame it produces is appended to what was written -/
def cbOf (f : Nat → Bool → Bytes → Except WErr Bytes) (st : List Bytes) (index : Nat) (eof : Bool) (p : Bytes) :
    List Bytes × Option GoErr :=
  match f index eof p with
  | .ok frame => (st ++ [frame], none)
  | .error e => (st, some (goErrOfW e))

/-- the compressor's `Write` calls on the translated `flateWriter.Write`, in order, until one fails -/
def feedT {σ : Type} (cb : σ → Nat → Bool → Bytes → σ × Option GoErr) : σ → FlateWriter → List Bytes → Option (FlateWriter × σ × Option GoErr)
  | st, w, [] => some (w, st, none)
  | st, w, p :: ps =>
    match flateWriter_Write cb st w p with
    | none => none
    | some (w', st', _, some e) => some (w', st', some e)
    | some (w', st', _, none) => feedT cb st' w' ps

/-- `Compress`: feed, then (if the reader reached EOF) the translated `Flush` -/
def compressT {σ : Type} (cb : σ → Nat → Bool → Bytes → σ × Option GoErr) (st : σ) (sawEof : Bool) (outs : List Bytes) : Option (σ × Option GoErr) :=
  match feedT cb st {} outs with
  | none => none
  | some (_, st', some e) => some (st', some e)
  | some (w', st', none) =>
    if !sawEof then some (st', some GoErr.io)
    else (flateWriter_Flush cb st' w').map fun r => (r.2.1, r.2.2)

private theorem write_ne (w : FlateWriter) (p : Bytes) : (w.write p).buffers ≠ [] := by
  unfold FlateWriter.write
  simp only []
  split
  · rename_i h
    rw [List.getLast?_eq_none_iff] at h
    split at h
    · simp at h
    · rename_i h0
      exact absurd (by rw [h]; rfl) h0
  · split <;> simp

private theorem shouldCall_len (w : FlateWriter) (h : w.shouldCall = true) : 2 ≤ w.buffers.length := by
  unfold FlateWriter.shouldCall at h
  simp only [] at h
  split at h
  · cases h
  · omega

/-- the translated feed writes the model's frames and returns the model's error; without an error the writers agree -/
private theorem feedT_eq (f : Nat → Bool → Bytes → Except WErr Bytes) : ∀ (outs : List Bytes) (st : List Bytes) (w : FlateWriter),
    ∃ w', feedT (cbOf f) st w outs = some (w', st ++ (feed f w outs).2.1, ((feed f w outs).2.2).map goErrOfW)
      ∧ ((feed f w outs).2.2 = none → w' = (feed f w outs).1) := by
  intro outs
  induction outs with
  | nil => intro st w; exact ⟨w, by simp [feedT, feed], fun _ => by simp [feed]⟩
  | cons p ps ih =>
    intro st w
    rw [feedT, Write_eq, feed]
    simp only []
    cases hs : (w.write p).shouldCall
    · simpa using ih st (w.write p)
    · cases hb : (w.write p).buffers with
      | nil =>
        have := shouldCall_len _ hs
        rw [hb] at this
        simp at this
      | cons b0 rest =>
        cases hf : f (w.write p).index false b0.data with
        | error e => simp [cbOf, hf]
        | ok frame =>
          obtain ⟨w', h1, h2⟩ := ih (st ++ [frame]) { index := (w.write p).index + 1, buffers := rest }
          refine ⟨w', ?_, ?_⟩
          · simp [cbOf, hf, h1]
          · simpa [hf] using h2

/-- after a feed without error the writer holds a buffer, if it did before or anything was written -/
private theorem feed_ne (f : Nat → Bool → Bytes → Except WErr Bytes) : ∀ (outs : List Bytes) (w : FlateWriter),
    (w.buffers ≠ [] ∨ outs ≠ []) → (feed f w outs).2.2 = none → (feed f w outs).1.buffers ≠ [] := by
  intro outs
  induction outs with
  | nil => intro w h _; simpa [feed] using h
  | cons p ps ih =>
    intro w _
    rw [feed]
    simp only []
    cases hs : (w.write p).shouldCall
    · simpa using ih (w.write p) (Or.inl (write_ne w p))
    · cases hb : (w.write p).buffers with
      | nil =>
        have := shouldCall_len _ hs
        rw [hb] at this
        simp at this
      | cons b0 rest =>
        cases hf : f (w.write p).index false b0.data with
        | error e => simp [hf]
        | ok frame =>
          have hl := shouldCall_len _ hs
          rw [hb] at hl
          have hr : rest ≠ [] := by intro h; subst h; simp at hl
          simpa [hf] using ih { index := (w.write p).index + 1, buffers := rest } (Or.inl hr)

/-- the frames a streamed compressed message is cut into, and the error: the translated aggregator = `Writer.compressFile`.
(`outs ≠ []`: a compressor that wrote nothing at all leaves no buffer, and `Flush` panics on `c.buffers[0]` in the code and
in the model alike; klauspost always writes at least the final block.) -/
theorem compressFile_translated (f : Nat → Bool → Bytes → Except WErr Bytes) (sawEof : Bool) (outs : List Bytes) (hne : outs ≠ []) :
    compressT (cbOf f) [] sawEof outs
      = some ((Writer.compressFile f sawEof outs).1, (Writer.compressFile f sawEof outs).2.map goErrOfW) := by
  obtain ⟨w', h1, h2⟩ := feedT_eq f outs [] {}
  have h3 := feed_ne f outs {} (Or.inr hne)
  unfold compressT Writer.compressFile
  rw [h1]
  simp only [List.nil_append]
  cases he : (feed f {} outs).2.2 with
  | some e => simp
  | none =>
    have hw := h2 he
    subst hw
    have hb := h3 he
    cases sawEof with
    | false => simp [goErrOfW]
    | true =>
      simp only [Option.map_none, Bool.not_true, Bool.false_eq_true, if_false]
      rw [Flush_eq]
      unfold FlateWriter.flush
      cases hbb : (feed f {} outs).1.buffers with
      | nil => exact absurd hbb hb
      | cons b0 rest =>
        simp only [Option.map_some]
        cases hf : f (feed f {} outs).1.index true (stripTail (b0.data ++ (rest.map (·.data)).flatten)) with
        | error e => simp [cbOf, hf]
        | ok frame => simp [cbOf, hf]

/-! non-vacuity -/
example : (flateWriter_write {} [1, 2, 3]).map (·.buffers.map (·.data)) = some [[1, 2, 3]] := by decide +kernel

/-- `Flush` on two buffers whose joined contents `01 02 00 | 00 ff ff` end in the sync-flush trailer: the first buffer and the
single (final, index 0) callback carry `01 02` — the callback here records its calls -/
example :
    (flateWriter_Flush (fun (st : List (Nat × Bool × Bytes)) i fin p => (st ++ [(i, fin, p)], none)) []
        { index := 0, buffers := [{ cap := 16, data := [1, 2, 0] }, { cap := 16, data := [0, 255, 255] }] }).map
      (fun r => (r.1.index, r.1.buffers.map (·.data), r.2.1, r.2.2)) = some (1, [[1, 2], [0, 255, 255]], [(0, true, [1, 2])], none) := by rfl

/-- `compressT` on two `Write`s `01 02 03`, `00 00 ff ff` and EOF: one frame (index 0, final), the trailer stripped -/
example : compressT (cbOf fun i eof p => .ok (UInt8.ofNat i :: (if eof then 1 else 0) :: p)) [] true [[1, 2, 3], [0, 0, 255, 255]]
    = some ([[0, 1, 1, 2, 3]], none) := by decide +kernel

end TransEquiv.FW
