import Gws.Props.TransWriter
/-!
# T3 — the per-frame callback of `doWriteFile` (writefile.go), translated from the source on every run, equals `Writer.fileFrame`

`Trans.Conn_doWriteFile_frame` is the body of the closure `cb` up to the transport write: frame `index` of a streamed
message is a Continuation frame behind the first one, carries FIN exactly on the last (`eof`), is built by `genFrame` with
compression, broadcast and the UTF-8 check switched off, gets RSV1 on the first frame when compression is negotiated, and is
not written once the connection is closed. The call of `genFrame` is a function parameter of the translation; it is
instantiated with the translated `genFrame` itself (`genFrameT`), so the statement is about the two translated functions
together.
-/
set_option linter.unusedSimpArgs false

namespace TransEquiv

/-- the translated `genFrame` as the function the translated callback applies -/
def genFrameT (cfg : Writer.Cfg) (maskNum : UInt32) (opcode : UInt8) (p : Bytes) (fin compress broadcast checkEncoding : Bool) :
    Bytes × Option GoErr :=
  match Trans.Conn_genFrame GenOut.ret GenOut.compress opcode p (cfg_checkEncoding := checkEncoding)
      (c_config_WriteMaxPayloadSize := (cfg.writeMax : Int)) (cfg_compress := compress) (c_pd_Threshold := (cfg.threshold : Int))
      (cfg_fin := fin) (cfg_broadcast := broadcast) (c_isServer := cfg.isServer) (maskNum := maskNum) with
  | .ret r => r
  | .compress .. => ([], some (.named "compressData called"))     -- not reached with compress = false

/-- the outcome of the translated callback in the model's vocabulary -/
def interpF : Except (Option GoErr) Bytes → Except Writer.WErr Bytes
  | .ok b => .ok b
  | .error (some (.named "ErrConnClosed")) => .error .connClosed
  | .error (some (.named "ErrTextEncoding")) => .error .textEncoding
  | .error (some (.named "ErrMessageTooLarge")) => .error .messageTooLarge
  | .error _ => .error (.panic "unexpected error value")

/-- with `compress = false` the translated `genFrame` returns (never calls `compressData`), and the error it returns is one of
the two it names -/
private theorem genFrame_nocompress (cfg : Writer.Cfg) (maskNum : UInt32) (op : UInt8) (p : Bytes) (fin broadcast ce : Bool) :
    ∃ r, Trans.Conn_genFrame GenOut.ret GenOut.compress op p (cfg_checkEncoding := ce)
        (c_config_WriteMaxPayloadSize := (cfg.writeMax : Int)) (cfg_compress := false) (c_pd_Threshold := (cfg.threshold : Int))
        (cfg_fin := fin) (cfg_broadcast := broadcast) (c_isServer := cfg.isServer) (maskNum := maskNum) = GenOut.ret r
      ∧ (r.2 = none ∨ r.2 = some (.named "ErrTextEncoding") ∨ r.2 = some (.named "ErrMessageTooLarge")) := by
  unfold Trans.Conn_genFrame
  simp only [Bool.false_and, Bool.false_eq_true, if_false, ↓reduceIte]
  -- whatever the nesting of the checks: every leaf returns one of the three outcomes (the compressing branch is gone)
  repeat' split
  all_goals first
    | exact ⟨_, rfl, Or.inl rfl⟩
    | exact ⟨_, rfl, Or.inr (Or.inl rfl)⟩
    | exact ⟨_, rfl, Or.inr (Or.inr rfl)⟩
    | (exfalso; simp_all; done)

private theorem setRsv1_eq (frame : Bytes) : frame.set 0 (goIdx frame 0 ||| 64) = Writer.setRsv1 frame := by
  cases frame <;> rfl

/-- the callback of `doWriteFile` = `Writer.fileFrame`, for every frame index, chunk, opcode and key -/
theorem doWriteFile_frame_eq (cfg : Writer.Cfg) (codec : Codec) (closed : Bool) (opcode : UInt8) (index : Nat) (eof : Bool)
    (p : Bytes) (maskNum : UInt32) (hlen : p.length < 2 ^ 62) :
    interpF (Trans.Conn_doWriteFile_frame (c_pd_Enabled := cfg.pdEnabled) (c_genFrame := genFrameT cfg maskNum) (closed := closed)
        (eof := eof) (index := (index : Int)) (opcode := opcode) (p := p))
      = Writer.fileFrame cfg codec closed opcode.toNat index eof p (goBytesU32LE maskNum) := by
  have hfl : [p].flatten = p := by simp
  -- the opcode of the frame, on both sides
  have hop : ∃ op : UInt8, (if decide ((index : Int) > 0) then (0 : UInt8) else opcode) = op
      ∧ (if index > 0 then Facts.opContinuation else opcode.toNat) = op.toNat := by
    by_cases hi : index > 0
    · have : (index : Int) > 0 := by omega
      exact ⟨0, by rw [decide_eq_true this]; rfl, by rw [if_pos hi]; rfl⟩
    · have : ¬ (index : Int) > 0 := by omega
      exact ⟨opcode, by rw [decide_eq_false this]; rfl, by rw [if_neg hi]⟩
  obtain ⟨op, hop1, hop2⟩ := hop
  have hidx : ((index : Int) == 0) = decide (index = 0) := by
    by_cases hi : index = 0
    · subst hi; rfl
    · have : ¬ (index : Int) = 0 := by omega
      simp [hi, this]
  have h := genFrame_eq cfg codec Win.disabled op [p]
    { fin := eof, compress := false, broadcast := false, checkEncoding := false } maskNum (by rw [hfl]; exact hlen)
  obtain ⟨r, hr, hcases⟩ := genFrame_nocompress cfg maskNum op p eof false false
  have hT : genFrameT cfg maskNum op p eof false false false = r := by
    unfold genFrameT; rw [hr]
  simp only [hfl] at h
  rw [hr] at h
  unfold Trans.Conn_doWriteFile_frame Writer.fileFrame
  simp only [hop1, hop2, hT, ← h, hidx, setRsv1_eq]
  obtain ⟨b, e⟩ := r
  simp only at hcases
  rcases hcases with he | he | he <;> subst he
  · cases closed <;> cases hp : cfg.pdEnabled <;> by_cases hi : index = 0 <;>
      simp [interpW, interpF, hp, hi]
  · simp [interpW, interpF]
  · simp [interpW, interpF]

/-! Non-vacuity: the translated callback on concrete values (server side, compression negotiated, a Binary message). -/

private def exCfg : Writer.Cfg :=
  { isServer := true, pdEnabled := true, threshold := 512, bits := 12, writeMax := 1024, checkUtf8 := false }

/-- frame 0, not the last: opcode 2 with RSV1 (bit 64) set, FIN clear -/
example : Trans.Conn_doWriteFile_frame (c_pd_Enabled := true) (c_genFrame := genFrameT exCfg 0) (closed := false) (eof := false)
    (index := 0) (opcode := 2) (p := [1, 2, 3]) = .ok [66, 3, 1, 2, 3] := by decide +kernel

/-- frame 1, the last: opcode 0 (Continuation) with FIN, no RSV1 -/
example : Trans.Conn_doWriteFile_frame (c_pd_Enabled := true) (c_genFrame := genFrameT exCfg 0) (closed := false) (eof := true)
    (index := 1) (opcode := 2) (p := [1, 2, 3]) = .ok [128, 3, 1, 2, 3] := by decide +kernel

/-- a closed connection, and a chunk above `WriteMaxPayloadSize` -/
example : interpF (Trans.Conn_doWriteFile_frame (c_pd_Enabled := true) (c_genFrame := genFrameT exCfg 0) (closed := true) (eof := true)
    (index := 1) (opcode := 2) (p := [1, 2, 3])) = .error .connClosed := by rfl
example : interpF (Trans.Conn_doWriteFile_frame (c_pd_Enabled := true) (c_genFrame := genFrameT { exCfg with writeMax := 2 } 0)
    (closed := false) (eof := true) (index := 1) (opcode := 2) (p := [1, 2, 3])) = .error .messageTooLarge := by rfl

end TransEquiv
