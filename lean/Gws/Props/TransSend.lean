import Gws.Props.TransWriter
/-!
# T3 — `doWrite` under the lock up to the transport write, and the gate of `Broadcaster.writeFrame`

`Trans.Conn_doWrite_head`: once the connection is closed nothing but a Close frame passes (`ErrConnClosed`), otherwise the
frame is the one `genFrame` builds as a final frame, compressed iff the extension is negotiated, UTF-8 checked iff configured.
The call of `genFrame` is a function parameter of the translation; it is instantiated with the translated `genFrame`, whose
call of `compressData` is interpreted by the model (`interpW`, as in `genFrame_eq`). The result equals the model's
`Writer.doWrite` (bytes handed to the transport, or the error), in the vocabulary of Go errors.
-/
set_option linter.unusedSimpArgs false

namespace TransEquiv

/-- a write-path error of the model as the Go error value -/
def goErrOfW : Writer.WErr → GoErr
  | .textEncoding => .named "ErrTextEncoding"
  | .messageTooLarge => .named "ErrMessageTooLarge"
  | .connClosed => .named "ErrConnClosed"
  | .reader => .io
  | .panic s => .named ("panic: " ++ s)

/-- the translated `genFrame`, with `compressData` interpreted by the model, as the function the translated `doWrite` applies -/
def genFrameM (cfg : Writer.Cfg) (codec : Codec) (cps : Win) (payload : List Bytes) (maskNum : UInt32)
    (opcode : UInt8) (p : Bytes) (fin compress broadcast checkEncoding : Bool) : Bytes × Option GoErr :=
  match interpW cfg codec cps payload (goBytesU32LE maskNum)
      (Trans.Conn_genFrame GenOut.ret GenOut.compress opcode p (cfg_checkEncoding := checkEncoding)
        (c_config_WriteMaxPayloadSize := (cfg.writeMax : Int)) (cfg_compress := compress) (c_pd_Threshold := (cfg.threshold : Int))
        (cfg_fin := fin) (cfg_broadcast := broadcast) (c_isServer := cfg.isServer) (maskNum := maskNum)) with
  | .ok b => (b, none)
  | .error e => ([], some (goErrOfW e))

/-- `doWrite` up to the transport write = `Writer.doWrite`: what is handed to the transport, or the error returned -/
theorem doWrite_head_eq (cfg : Writer.Cfg) (codec : Codec) (st : Writer.Conn) (opcode : UInt8) (payload : List Bytes)
    (maskNum : UInt32) (hlen : payload.flatten.length < 2 ^ 62) :
    Trans.Conn_doWrite_head (c_config_CheckUtf8Enabled := cfg.checkUtf8) (c_pd_Enabled := cfg.pdEnabled)
        (c_genFrame := genFrameM cfg codec st.cps payload maskNum) (closed := st.closed) (opcode := opcode) (payload := payload.flatten)
      = (match (Writer.doWrite cfg codec st opcode.toNat payload (goBytesU32LE maskNum)).err with
         | some e => .error (some (goErrOfW e))
         | none => .ok (Writer.doWrite cfg codec st opcode.toNat payload (goBytesU32LE maskNum)).wire) := by
  have h := genFrame_eq cfg codec st.cps opcode payload (Writer.msgCfg cfg) maskNum hlen
  simp only [Writer.msgCfg] at h
  have hop : (opcode != (8 : UInt8)) = !decide (opcode.toNat = Facts.opClose) := by
    show (!(opcode == (8 : UInt8))) = _
    rw [u8_beq]; rfl
  unfold Trans.Conn_doWrite_head genFrameM Writer.doWrite
  simp only [Writer.msgCfg]
  rw [h, hop]
  by_cases ho : opcode.toNat = Facts.opClose <;> cases hc : st.closed <;>
    cases hg : Writer.genFrame cfg codec st.cps opcode.toNat payload
      { fin := true, compress := cfg.pdEnabled, broadcast := false, checkEncoding := cfg.checkUtf8 } (goBytesU32LE maskNum) <;>
    simp [ho, hc, hg, goErrOfW]

/-- `Broadcaster.writeFrame`: the shared frame is written iff the connection is not closed (tested under the lock: fact
`bcClosedCheckUnderLock`) — the gate of `Writer.writeBroadcast` -/
theorem broadcast_gate_eq (st : Writer.Conn) (frame payload : Bytes) (compressed : Bool) :
    Trans.Broadcaster_writeFrame_gate (closed := st.closed)
      = (match (Writer.writeBroadcast st frame compressed payload).err with
         | some e => .error (some (goErrOfW e))
         | none => .ok ()) := by
  unfold Trans.Broadcaster_writeFrame_gate Writer.writeBroadcast
  cases st.closed <;> simp [goErrOfW]

/-! Non-vacuity: the translated `doWrite` head on concrete values (server side, compression not negotiated). -/

private def exCfg : Writer.Cfg :=
  { isServer := true, pdEnabled := false, threshold := 512, bits := 12, writeMax := 1024, checkUtf8 := true }

/-- the identity "codec" (not consulted: compression is not negotiated) -/
private def exCodec : Codec := { inflate := fun _ d => some d, compress := fun _ _ c => c.flatten }

/-- a closed connection refuses a Text message -/
example : Trans.Conn_doWrite_head (c_config_CheckUtf8Enabled := true) (c_pd_Enabled := false)
    (c_genFrame := genFrameM exCfg exCodec Win.disabled [[104, 105]] 0) (closed := true) (opcode := 1) (payload := [104, 105])
      = .error (some (.named "ErrConnClosed")) := by rfl

/-- a closed connection still sends the Close frame (FIN + opcode 8, length 2, status 1000) -/
example : Trans.Conn_doWrite_head (c_config_CheckUtf8Enabled := true) (c_pd_Enabled := false)
    (c_genFrame := genFrameM exCfg exCodec Win.disabled [[3, 232]] 0) (closed := true) (opcode := 8) (payload := [3, 232])
      = .ok [136, 2, 3, 232] := by decide +kernel

/-- an open connection: a Text message as one final frame -/
example : Trans.Conn_doWrite_head (c_config_CheckUtf8Enabled := true) (c_pd_Enabled := false)
    (c_genFrame := genFrameM exCfg exCodec Win.disabled [[104, 105]] 0) (closed := false) (opcode := 1) (payload := [104, 105])
      = .ok [129, 2, 104, 105] := by decide +kernel

/-- invalid UTF-8 in a Text message with the check configured: `ErrTextEncoding` -/
example : Trans.Conn_doWrite_head (c_config_CheckUtf8Enabled := true) (c_pd_Enabled := false)
    (c_genFrame := genFrameM exCfg exCodec Win.disabled [[255]] 0) (closed := false) (opcode := 1) (payload := [255])
      = .error (some (.named "ErrTextEncoding")) := by decide +kernel

example : Trans.Broadcaster_writeFrame_gate (closed := true) = .error (some (.named "ErrConnClosed")) := by rfl
example : Trans.Broadcaster_writeFrame_gate (closed := false) = .ok () := by rfl

end TransEquiv
