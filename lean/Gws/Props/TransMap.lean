import Gws.Generated.Trans
import Gws.Model.Conc.Map
/-!
# T3 — the shard index of `ConcurrentMap.GetSharding` (session_storage.go), translated from the source on every run,
equals the model's `Cfg.idx` (hash AND (num - 1)), which C19 proves to be `hash mod num` and in range.
-/
namespace TransEquiv

theorem shardIndex_eq (c : CMap.Cfg) (k : Nat) (hh : c.hash k < 2 ^ 64) (hn : c.num < 2 ^ 64) (hpos : 0 < c.num) :
    Trans.ConcurrentMap_shardIndex (UInt64.ofNat c.num) (UInt64.ofNat (c.hash k)) = .ok (UInt64.ofNat (c.idx k)) := by
  unfold Trans.ConcurrentMap_shardIndex CMap.Cfg.idx
  show Except.ok _ = Except.ok _
  congr 1
  apply UInt64.toNat_inj.mp
  have h1 : (UInt64.ofNat c.num - 1).toNat = c.num - 1 := by
    rw [UInt64.toNat_sub_of_le]
    · simp; omega
    · rw [UInt64.le_iff_toNat_le]; simp; omega
  rw [UInt64.toNat_and, h1]
  have hm1 : c.hash k % 18446744073709551616 = c.hash k := Nat.mod_eq_of_lt (by omega)
  have : (c.hash k &&& (c.num - 1)) ≤ c.hash k := Nat.and_le_left
  have hm3 : (c.num - 1) % 18446744073709551616 = c.num - 1 := Nat.mod_eq_of_lt (by omega)
  simp [hm1, hm3]

end TransEquiv
