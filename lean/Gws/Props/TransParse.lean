import Gws.Props.TransFrame
/-!
# T3 — `frameHeader.Parse` (types.go), translated from the source on every run, equals `Frame.parse`

The reader is the list of bytes it will deliver; `internal.ReadN` (`io.ReadFull`) delivers exactly the requested
number of bytes or fails (`goReadN`).  `c` is the 14-byte header array of the connection (its old contents do
not matter).
-/
namespace TransEquiv

private theorem list14 (c : List UInt8) (hc : c.length = 14) :
    ∃ c0 c1 c2 c3 c4 c5 c6 c7 c8 c9 c10 c11 c12 c13, c = [c0,c1,c2,c3,c4,c5,c6,c7,c8,c9,c10,c11,c12,c13] := by
  match c, hc with
  | [c0,c1,c2,c3,c4,c5,c6,c7,c8,c9,c10,c11,c12,c13], _ => exact ⟨_,_,_,_,_,_,_,_,_,_,_,_,_,_,rfl⟩

private theorem lc_beq (c : List UInt8) (k : UInt8) :
    (Trans.frameHeader_GetLengthCode c == k) = decide (Frame.getLengthCode (goIdx c 1).toNat = k.toNat) := by
  rw [u8_beq, GetLengthCode_eq]

private theorem rd2 (a b : UInt8) (r : Bytes) : goReadN (a :: b :: r) ((4 : Int) - (2 : Int)).toNat = some ([a, b], r) := by
  simp [goReadN]
private theorem rd4 (a b c d : UInt8) (r : Bytes) :
    goReadN (a :: b :: c :: d :: r) ((14 : Int) - (10 : Int)).toNat = some ([a, b, c, d], r) := by
  simp [goReadN]
private theorem rd8 (a b c d e f g h : UInt8) (r : Bytes) :
    goReadN (a :: b :: c :: d :: e :: f :: g :: h :: r) ((10 : Int) - (2 : Int)).toNat = some ([a, b, c, d, e, f, g, h], r) := by
  simp [goReadN]

private theorem u16_eq (a b : UInt8) : Int.ofNat (goU16BE [a, b]).toNat = ((Frame.be16 a b : Nat) : Int) := by
  have := a.toNat_lt; have := b.toNat_lt
  simp [goU16BE, goIdx, Frame.be16]
  omega

private theorem u64_eq (a b c d e f g h : UInt8) :
    goIntOfU64 (goU64BE [a, b, c, d, e, f, g, h]) = Frame.toGoInt (Frame.be64 a b c d e f g h) := by
  have := a.toNat_lt; have := b.toNat_lt; have := c.toNat_lt; have := d.toNat_lt
  have := e.toNat_lt; have := f.toNat_lt; have := g.toNat_lt; have := h.toNat_lt
  have hb : Frame.be64 a b c d e f g h < 2 ^ 64 := by unfold Frame.be64; omega
  have : (goU64BE [a, b, c, d, e, f, g, h]).toNat = Frame.be64 a b c d e f g h := by
    unfold goU64BE
    simp only [goIdx, List.getD_cons_zero, List.getD_cons_succ, UInt64.toNat_ofNat']
    exact Nat.mod_eq_of_lt hb
  unfold goIntOfU64 Frame.toGoInt
  rw [this]

/-- `Parse` = the model's `Frame.parse`: same outcome (incomplete header / parsed header), same length (with the
two's complement reading of a 64-bit length), same unread rest; the header array afterwards holds the two header
bytes the getters read, and the mask key at `[10:14]` when the mask bit is set. -/
theorem Parse_eq (c : List UInt8) (hc : c.length = 14) (b : Bytes) :
    match Frame.parse b with
    | .needMore => ∃ c' r', Trans.frameHeader_Parse c b = (c', r', 0, some GoErr.io)
    | .ok h rest => ∃ c', Trans.frameHeader_Parse c b = (c', rest, h.len, none)
        ∧ c'.length = 14 ∧ (goIdx c' 0).toNat = h.b0 ∧ (goIdx c' 1).toNat = h.b1
        ∧ (Frame.getMask h.b1 = true → (c'.drop 10).take 4 = h.key) := by
  obtain ⟨c0,c1,c2,c3,c4,c5,c6,c7,c8,c9,c10,c11,c12,c13,rfl⟩ := list14 c hc
  match b with
  | [] => simp [Frame.parse, Trans.frameHeader_Parse, goReadN]
  | [x0] => simp [Frame.parse, Trans.frameHeader_Parse, goReadN]
  | x0 :: x1 :: r =>
    unfold Trans.frameHeader_Parse Frame.parse
    simp only [lc_beq, GetMask_eq]
    have h0 : goReadN (x0 :: x1 :: r) ((2:Int) - (0:Int)).toNat = some ([x0,x1], r) := by
      simp [goReadN]
    have hcp : goCopy [c0,c1,c2,c3,c4,c5,c6,c7,c8,c9,c10,c11,c12,c13] (0:Int).toNat [x0,x1] = [x0,x1,c2,c3,c4,c5,c6,c7,c8,c9,c10,c11,c12,c13] := by
      simp [goCopy]
    simp only [h0, hcp]
    have hi1 : goIdx [x0,x1,c2,c3,c4,c5,c6,c7,c8,c9,c10,c11,c12,c13] 1 = x1 := rfl
    have hlc : (Trans.frameHeader_GetLengthCode [x0,x1,c2,c3,c4,c5,c6,c7,c8,c9,c10,c11,c12,c13]).toNat = Frame.getLengthCode x1.toNat := GetLengthCode_eq _
    have e126 : UInt8.toNat 126 = 126 := rfl
    have e127 : UInt8.toNat 127 = 127 := rfl
    simp only [hi1, hlc, e126, e127, decide_eq_true_eq]
    by_cases h126 : Frame.getLengthCode x1.toNat = 126
    · simp only [h126, if_true]
      rcases r with _ | ⟨a, _ | ⟨b, r'⟩⟩
      · simp [goReadN]
      · simp [goReadN]
      · have hcp2 : goCopy [x0,x1,c2,c3,c4,c5,c6,c7,c8,c9,c10,c11,c12,c13] (2:Int).toNat [a,b] = [x0,x1,a,b,c4,c5,c6,c7,c8,c9,c10,c11,c12,c13] := by
          simp [goCopy]
        have ht : List.drop (2:Int).toNat (List.take (4:Int).toNat [x0,x1,a,b,c4,c5,c6,c7,c8,c9,c10,c11,c12,c13]) = [a,b] := rfl
        have hi1' : goIdx [x0,x1,a,b,c4,c5,c6,c7,c8,c9,c10,c11,c12,c13] 1 = x1 := rfl
        simp only [rd2, hcp2, ht, hi1', u16_eq]
        cases hm : Frame.getMask x1.toNat
        · simp [goIdx, hm]
        · rcases r' with _ | ⟨k0, _ | ⟨k1, _ | ⟨k2, _ | ⟨k3, r2⟩⟩⟩⟩
          · simp [goReadN]
          · simp [goReadN]
          · simp [goReadN]
          · simp [goReadN]
          · simp only [rd4]
            simp [goCopy, goIdx, hm]
    · simp only [h126, if_false]
      by_cases h127 : Frame.getLengthCode x1.toNat = 127
      · simp only [h127, if_true]
        rcases r with _ | ⟨a, _ | ⟨b, _ | ⟨c, _ | ⟨d, _ | ⟨e, _ | ⟨f, _ | ⟨g, _ | ⟨h, r'⟩⟩⟩⟩⟩⟩⟩⟩
        · simp [goReadN]
        · simp [goReadN]
        · simp [goReadN]
        · simp [goReadN]
        · simp [goReadN]
        · simp [goReadN]
        · simp [goReadN]
        · simp [goReadN]
        · have hcp2 : goCopy [x0,x1,c2,c3,c4,c5,c6,c7,c8,c9,c10,c11,c12,c13] (2:Int).toNat [a,b,c,d,e,f,g,h] = [x0,x1,a,b,c,d,e,f,g,h,c10,c11,c12,c13] := by
            simp [goCopy]
          have ht : List.drop (2:Int).toNat (List.take (10:Int).toNat [x0,x1,a,b,c,d,e,f,g,h,c10,c11,c12,c13]) = [a,b,c,d,e,f,g,h] := rfl
          have hi1' : goIdx [x0,x1,a,b,c,d,e,f,g,h,c10,c11,c12,c13] 1 = x1 := rfl
          simp only [rd8, hcp2, ht, hi1', u64_eq]
          cases hm : Frame.getMask x1.toNat
          · simp [goIdx, hm]
          · rcases r' with _ | ⟨k0, _ | ⟨k1, _ | ⟨k2, _ | ⟨k3, r2⟩⟩⟩⟩
            · simp [goReadN]
            · simp [goReadN]
            · simp [goReadN]
            · simp [goReadN]
            · simp only [rd4]
              simp [goCopy, goIdx, hm]
      · simp only [h127, if_false]
        cases hm : Frame.getMask x1.toNat
        · simp [goIdx, hm]
        · rcases r with _ | ⟨k0, _ | ⟨k1, _ | ⟨k2, _ | ⟨k3, r2⟩⟩⟩⟩
          · simp [goReadN]
          · simp [goReadN]
          · simp [goReadN]
          · simp [goReadN]
          · simp only [rd4]
            simp [goCopy, goIdx, hm]

end TransEquiv
