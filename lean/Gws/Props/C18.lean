import Gws.Lemmas.Mask
/-!
# C18 — the masking transform equals RFC 6455 byte-wise XOR for all lengths and keys

Statement: the masking routine transforms byte i of a buffer into byte i XOR key[i mod 4] for every
buffer length, alignment and key, touches nothing outside the buffer, and applying it twice restores
the input; consequently every client-sent payload on the wire unmasks to the application payload.

"Alignment" and "touches nothing outside the buffer" are statements about memory; on the model
they appear as: the result depends only on the buffer's contents (it is a function of `b`), and it
has the same length (`maskXOR_length`).  The tie (suite `mask`) runs the real routine at every
offset of a backing array with guard bytes on both sides.
-/

namespace Mask

/-- **C18, values.** For every key and every buffer (no bound on its length), the three-loop word
implementation produces byte `i` XOR `key[i mod 4]` at every index. -/
theorem maskXOR_eq (k : Key) (b : List B8) :
    maskXOR k b = b.mapIdx fun i x => x ^^^ k.get i := maskXOR_spec k b

/-- index form of the same statement -/
theorem maskXOR_getElem (k : Key) (b : List B8) (i : Nat) (h : i < b.length) :
    (maskXOR k b)[i]'(by rw [maskXOR_eq]; simpa using h) = b[i] ^^^ k.get i := by
  simp [maskXOR_eq]

/-- **C18, extent.** The transform returns a buffer of exactly the input's length. -/
theorem maskXOR_length (k : Key) (b : List B8) : (maskXOR k b).length = b.length := by
  simp [maskXOR_eq]

/-- **C18, involution.** Applying the transform twice with the same key restores the input; in
particular unmasking a client-masked payload yields the application payload. -/
theorem maskXOR_involutive (k : Key) (b : List B8) : maskXOR k (maskXOR k b) = b := by
  apply List.ext_getElem
  · simp [maskXOR_length]
  · intro i h1 h2
    rw [maskXOR_getElem k _ i (by simpa [maskXOR_length] using h2), maskXOR_getElem k b i h2]
    rw [BitVec.xor_assoc, BitVec.xor_self, BitVec.xor_zero]

/-- **C18, prefix stability.** Masking a prefix of a buffer is the prefix of masking the buffer: byte
`i` of the result depends on byte `i` and the key only (no carry between the 8-byte words, the
4-byte step and the byte tail of the implementation). -/
theorem maskXOR_take (k : Key) (b : List B8) (n : Nat) :
    (maskXOR k b).take n = maskXOR k (b.take n) := by
  apply List.ext_getElem
  · simp [maskXOR_length]
  · intro i h1 h2
    have hi : i < n ∧ i < b.length := by
      simp [maskXOR_length] at h2; omega
    rw [List.getElem_take, maskXOR_getElem k b i hi.2, maskXOR_getElem k _ i (by simp; omega)]
    simp

/-- masking under two keys in turn is masking under their XOR (so a relay that re-masks, as a client
writing a broadcast frame does, still leaves a payload that unmasks with one key) -/
theorem maskXOR_maskXOR (k k' : Key) (b : List B8) :
    maskXOR k (maskXOR k' b) = maskXOR ⟨k.k0 ^^^ k'.k0, k.k1 ^^^ k'.k1, k.k2 ^^^ k'.k2, k.k3 ^^^ k'.k3⟩ b := by
  apply List.ext_getElem
  · simp [maskXOR_length]
  · intro i h1 h2
    have hi : i < b.length := by simpa [maskXOR_length] using h2
    rw [maskXOR_getElem k _ i (by simpa [maskXOR_length] using hi), maskXOR_getElem k' b i hi, maskXOR_getElem _ b i hi]
    have := Nat.mod_lt i (show 4 > 0 by omega)
    unfold Key.get
    rcases (show i % 4 = 0 ∨ i % 4 = 1 ∨ i % 4 = 2 ∨ i % 4 = 3 by omega) with h | h | h | h <;> simp [h] <;>
      ac_rfl

/-- `key[i mod 4]` really is indexing the 4-byte key at `i mod 4`. -/
theorem Key.get_eq (k : Key) (i : Nat) :
    (i % 4 = 0 → k.get i = k.k0) ∧ (i % 4 = 1 → k.get i = k.k1) ∧
    (i % 4 = 2 → k.get i = k.k2) ∧ (i % 4 = 3 → k.get i = k.k3) := by
  unfold Key.get
  refine ⟨?_, ?_, ?_, ?_⟩ <;> intro h <;> simp [h]

-- the transform is not the identity, and uses all three loops on a 75-byte buffer
example : maskXOR ⟨1, 2, 3, 4⟩ [0, 0, 0, 0, 0] = [1, 2, 3, 4, 1] := by rw [maskXOR_eq]; decide
example : (maskXOR ⟨1, 2, 3, 4⟩ (List.replicate 75 0))[74]? = some 3 := by rw [maskXOR_eq]; decide

end Mask
