import Gws.Generated.TransFW
import Gws.Props.TransFile
import Gws.Props.TransSend
import Gws.Props.TransWindow
import Gws.Props.C17
/-!
# T3 — the two read loops of writefile.go (`splitReader`, `readerWrapper.WriteTo`), translated on every run, equal the model

The reader is the script of its `Read` results (`Writer.ReaderScript`: `(chunk, eof)`; a script that ends without an EOF read is
a reader that then fails). Calls with effects outside the loop thread an abstract state `σ`; the theorems instantiate it with
the list of what was handed out so far, so the order of the calls is part of the statement.

* `splitReader_eq`: one callback per `Read`, with the running index, the EOF flag and exactly the bytes read, stopping at the
  first callback error, at EOF, or when the reader fails = `Writer.splitReader`.
* `WriteTo_eq`: every chunk read goes to the compressor and then into the compression window, in order, up to and including
  the chunk that came with EOF = `Writer.readChunks` and the fold of `Win.write` (the two seeded defects "EOF chunk dropped" and
  "EOF chunk not in the window" lived in this loop).
* `uncompressed_WriteFile_translated`: `doWriteFile` without compression, as the composition of the translated `splitReader`,
  the translated callback and the translated `genFrame`, writes the frames of `Writer.writeFileFrames`.
-/
set_option linter.unusedSimpArgs false

namespace TransEquiv.RL
open TransFW Writer

/-- the Go callback seen from the loop, for a model callback `f`: the frame it produces is appended to what was written -/
def cbOf (f : Nat → Bool → Bytes → Except WErr Bytes) (st : List Bytes) (index : Int) (eof : Bool) (p : Bytes) :
    List Bytes × Option GoErr :=
  match f index.toNat eof p with
  | .ok frame => (st ++ [frame], none)
  | .error e => (st, some (goErrOfW e))

/-! ### the loop of `splitReader`: the state of the elaborated `for`, its body and what follows it -/

/-- the state of the loop: the early `return` value, then `st`, `n`, `index`, `err`, `exhausted` -/
abbrev SRState (σ : Type) := Option (σ × Option GoErr) × σ × Int × Int × Option GoErr × Bool

/-- `err == io.EOF` right after the `Read` that returned `rd.2` -/
def eofOf (b : Bool) : Bool := ((if b = true then some (GoErr.named "EOF") else none) == some (GoErr.named "EOF"))

theorem eofOf_eq (b : Bool) : eofOf b = b := by cases b <;> decide

/-- the body of the elaborated `for` of `Conn_splitReader` (`done` = `return`/`break`, `yield` = next iteration) -/
def srBody {σ : Type} (f : σ → Int → Bool → Bytes → σ × Option GoErr) (rd : Bytes × Bool) (s : SRState σ) : Id (ForInStep (SRState σ)) :=
  if ((f s.2.1 s.2.2.2.1 (eofOf rd.2) rd.1).2 != none) = true then
    pure (ForInStep.done ⟨some ((f s.2.1 s.2.2.2.1 (eofOf rd.2) rd.1).1, (f s.2.1 s.2.2.2.1 (eofOf rd.2) rd.1).2),
      (f s.2.1 s.2.2.2.1 (eofOf rd.2) rd.1).1, (rd.1.length : Int), s.2.2.2.1, (f s.2.1 s.2.2.2.1 (eofOf rd.2) rd.1).2, s.2.2.2.2.2⟩)
  else if eofOf rd.2 = true then
    pure (ForInStep.done ⟨none, (f s.2.1 s.2.2.2.1 (eofOf rd.2) rd.1).1, (rd.1.length : Int), s.2.2.2.1 + 1,
      (f s.2.1 s.2.2.2.1 (eofOf rd.2) rd.1).2, false⟩)
  else
    pure (ForInStep.yield ⟨none, (f s.2.1 s.2.2.2.1 (eofOf rd.2) rd.1).1, (rd.1.length : Int), s.2.2.2.1 + 1,
      (f s.2.1 s.2.2.2.1 (eofOf rd.2) rd.1).2, s.2.2.2.2.2⟩)

/-- what follows the loop: the early `return` value if there is one, else the `exhausted` test -/
def srPost {σ : Type} (s : SRState σ) : σ × Option GoErr :=
  match s.1 with
  | some r => r
  | none => if s.2.2.2.2.2 = true then (s.2.1, some GoErr.io) else (s.2.1, s.2.2.2.2.1)

theorem splitReader_unfold {σ : Type} (f : σ → Int → Bool → Bytes → σ × Option GoErr) (st0 : σ) (script : List (Bytes × Bool)) :
    Conn_splitReader f st0 script = srPost (Id.run (forIn script ((none, st0, 0, 0, none, true) : SRState σ) (srBody f))) := by
  unfold Conn_splitReader
  simp only []
  unfold srBody eofOf
  generalize (forIn script ((none, st0, 0, 0, none, true) : SRState σ) _ : Id (SRState σ)) = s
  rcases s with ⟨_ | r, s⟩ <;> rfl

/-- the loop from any state (frames written `st`, index `k`), for any callback that agrees with `cbOf f` on the script -/
theorem sr_loop (F : List Bytes → Int → Bool → Bytes → List Bytes × Option GoErr) (f : Nat → Bool → Bytes → Except WErr Bytes)
    (script : List (Bytes × Bool))
    (hF : ∀ (st : List Bytes) (k : Nat) (rd : Bytes × Bool), rd ∈ script → F st (k : Int) rd.2 rd.1 = cbOf f st (k : Int) rd.2 rd.1)
    (st : List Bytes) (k : Nat) (n : Int) (err : Option GoErr) :
    srPost (Id.run (forIn script ((none, st, n, (k : Int), err, true) : SRState (List Bytes)) (srBody F)))
      = (st ++ (Writer.splitReader f script k).1, (Writer.splitReader f script k).2.map goErrOfW) := by
  induction script generalizing st k n err with
  | nil => simp [srPost, Writer.splitReader, goErrOfW, Id.run, pure]
  | cons rd rest ih =>
    obtain ⟨p, eof⟩ := rd
    have h1 := hF st k (p, eof) (by simp)
    have ih' := fun st k n err => ih (fun st k rd hrd => hF st k rd (by simp [hrd])) st k n err
    simp only [List.forIn_cons, srBody, eofOf_eq, h1, cbOf, Int.toNat_natCast, Writer.splitReader]
    cases hf : f k eof p with
    | error e => simp [srPost, Id.run, bind, pure]
    | ok frame =>
      cases eof with
      | true => simp [srPost, Id.run, bind, pure]
      | false =>
        have := ih' (st ++ [frame]) (k + 1) (p.length : Int) none
        simp [Id.run, bind, pure] at this ⊢
        rw [this]

/-- `splitReader(r, f)` = `Writer.splitReader`: the frames written, and the error returned (the reader's failure is `GoErr.io`) -/
theorem splitReader_eq (f : Nat → Bool → Bytes → Except WErr Bytes) (script : ReaderScript) :
    Conn_splitReader (cbOf f) [] script
      = ((Writer.splitReader f script 0).1, (Writer.splitReader f script 0).2.map goErrOfW) := by
  rw [splitReader_unfold]
  have := sr_loop (cbOf f) f script (fun _ _ _ _ => rfl) [] 0 0 none
  simpa using this

/-- a compressor that accepts every write: it records the chunks it was given, in order -/
def sink (st : List Bytes) (p : Bytes) : List Bytes × Int × Option GoErr := (st ++ [p], (p.length : Int), none)

/-! ### the loop of `readerWrapper.WriteTo` -/

/-- the state of the loop: the early `return` value, then `st`, `c_sw_dict`, `sum`, `n`, `err`, `exhausted` -/
abbrev WTState (σ : Type) := Option ((σ × Bytes) × Int × Option GoErr) × σ × Bytes × Int × Int × Option GoErr × Bool

/-- the body of the elaborated `for` of `readerWrapper_WriteTo` -/
def wtBody {σ : Type} (w_Write : σ → Bytes → σ × Int × Option GoErr) (en : Bool) (size : Int) :
    Bytes × Bool → WTState σ → Id (ForInStep (WTState σ)) := fun rd s =>
  if ((w_Write s.2.1 rd.1).2.2 != none) = true then
    pure (ForInStep.done (some (((w_Write s.2.1 rd.1).1, s.2.2.1), s.2.2.2.1, (w_Write s.2.1 rd.1).2.2),
      (w_Write s.2.1 rd.1).1, s.2.2.1, s.2.2.2.1, (rd.1.length : Int), (w_Write s.2.1 rd.1).2.2, s.2.2.2.2.2.2))
  else if eofOf rd.2 = true then
    pure (ForInStep.done (none, (w_Write s.2.1 rd.1).1,
      (Trans.slideWindow_Write rd.1 (c_dict := s.2.2.1) (c_enabled := en) (c_size := size)).1,
      s.2.2.2.1 + (rd.1.length : Int), (rd.1.length : Int), (w_Write s.2.1 rd.1).2.2, false))
  else
    pure (ForInStep.yield (none, (w_Write s.2.1 rd.1).1,
      (Trans.slideWindow_Write rd.1 (c_dict := s.2.2.1) (c_enabled := en) (c_size := size)).1,
      s.2.2.2.1 + (rd.1.length : Int), (rd.1.length : Int), (w_Write s.2.1 rd.1).2.2, s.2.2.2.2.2.2))

/-- what follows the loop of `readerWrapper_WriteTo` -/
def wtPost {σ : Type} (s : WTState σ) : (σ × Bytes) × (Int × Option GoErr) :=
  match s.1 with
  | some r => r
  | none => if s.2.2.2.2.2.2 = true then ((s.2.1, s.2.2.1), s.2.2.2.1, some GoErr.io)
            else ((s.2.1, s.2.2.1), s.2.2.2.1, s.2.2.2.2.2.1)

theorem WriteTo_unfold {σ : Type} (w_Write : σ → Bytes → σ × Int × Option GoErr) (st0 : σ) (d0 : Bytes) (en : Bool) (size : Int)
    (script : List (Bytes × Bool)) :
    readerWrapper_WriteTo w_Write st0 d0 en size script
      = wtPost (Id.run (forIn script ((none, st0, d0, 0, 0, none, true) : WTState σ) (wtBody w_Write en size))) := by
  unfold readerWrapper_WriteTo
  simp only []
  unfold wtBody eofOf
  generalize (forIn script ((none, st0, d0, 0, 0, none, true) : WTState σ) _ : Id (WTState σ)) = s
  rcases s with ⟨_ | r, s⟩ <;> rfl

/-- the loop from any state (chunks handed out `st`, window `w`, byte count `sum`) -/
theorem wt_loop (script : List (Bytes × Bool)) (w : Win) (st : List Bytes) (sum n : Int) (err : Option GoErr) :
    wtPost (Id.run (forIn script ((none, st, w.dict, sum, n, err, true) : WTState (List Bytes)) (wtBody sink w.enabled (w.size : Int))))
      = ((st ++ (readChunks script).1, ((readChunks script).1.foldl Win.write w).dict),
         sum + ((((readChunks script).1.map (·.length)).sum : Nat) : Int),
         (if (readChunks script).2 then none else some GoErr.io)) := by
  induction script generalizing w st sum n err with
  | nil => simp [wtPost, readChunks, Id.run, pure]
  | cons rd rest ih =>
    obtain ⟨p, eof⟩ := rd
    have hw := slideWindow_Write_eq w p
    have hf := Win.write_frame w p
    simp only [List.forIn_cons, wtBody, eofOf_eq, sink, readChunks, hw]
    cases eof with
    | true => simp [wtPost, Id.run, bind, pure]
    | false =>
      have := ih (w.write p) (st ++ [p]) (sum + (p.length : Int)) (p.length : Int) none
      rw [hf.1, hf.2] at this
      simp [Id.run, bind, pure] at this ⊢
      rw [this]
      simp [Int.add_assoc]

/-- `readerWrapper.WriteTo(w)` = `Writer.readChunks` + the window fold: the chunks handed to the compressor, the window
afterwards, the byte count, and the error (none iff the reader reached EOF) -/
theorem WriteTo_eq (w : Win) (script : ReaderScript) :
    readerWrapper_WriteTo sink [] w.dict w.enabled (w.size : Int) script
      = (((readChunks script).1, ((readChunks script).1.foldl Win.write w).dict),
         ((((readChunks script).1.map (·.length)).sum : Nat) : Int),
         (if (readChunks script).2 then none else some GoErr.io)) := by
  rw [WriteTo_unfold]
  have := wt_loop script w [] 0 0 none
  simpa using this

/-! ### the translated callback of `doWriteFile`, classified -/

/-- with `compress = false` the translated `genFrame` returns, and its error is one of the two it names
(`genFrame_nocompress` of TransFile.lean, which is private there) -/
theorem genFrame_nocompress' (cfg : Writer.Cfg) (maskNum : UInt32) (op : UInt8) (p : Bytes) (fin broadcast ce : Bool) :
    ∃ r, Trans.Conn_genFrame GenOut.ret GenOut.compress op p (cfg_checkEncoding := ce)
        (c_config_WriteMaxPayloadSize := (cfg.writeMax : Int)) (cfg_compress := false) (c_pd_Threshold := (cfg.threshold : Int))
        (cfg_fin := fin) (cfg_broadcast := broadcast) (c_isServer := cfg.isServer) (maskNum := maskNum) = GenOut.ret r
      ∧ (r.2 = none ∨ r.2 = some (.named "ErrTextEncoding") ∨ r.2 = some (.named "ErrMessageTooLarge")) := by
  unfold Trans.Conn_genFrame
  simp only [Bool.false_and, Bool.false_eq_true, if_false, ↓reduceIte]
  repeat' split
  all_goals first
    | exact ⟨_, rfl, Or.inl rfl⟩
    | exact ⟨_, rfl, Or.inr (Or.inl rfl)⟩
    | exact ⟨_, rfl, Or.inr (Or.inr rfl)⟩
    | (exfalso; simp_all; done)

theorem genFrameT_nocompress (cfg : Cfg) (maskNum : UInt32) (op : UInt8) (p : Bytes) (fin broadcast ce : Bool) :
    (genFrameT cfg maskNum op p fin false broadcast ce).2 = none
      ∨ (genFrameT cfg maskNum op p fin false broadcast ce).2 = some (.named "ErrTextEncoding")
      ∨ (genFrameT cfg maskNum op p fin false broadcast ce).2 = some (.named "ErrMessageTooLarge") := by
  obtain ⟨r, hr, h⟩ := genFrame_nocompress' cfg maskNum op p fin broadcast ce
  unfold genFrameT
  rw [hr]
  exact h

/-- the translated callback of `doWriteFile` produces a frame or one of three named errors -/
theorem doWriteFile_frame_shape (cfg : Cfg) (maskNum : UInt32) (closed eof : Bool) (index : Int) (opcode : UInt8) (p : Bytes) :
    ∀ x, x = Trans.Conn_doWriteFile_frame (c_pd_Enabled := cfg.pdEnabled) (c_genFrame := genFrameT cfg maskNum)
      (closed := closed) (eof := eof) (index := index) (opcode := opcode) (p := p) →
    (∃ b, x = .ok b) ∨ x = .error (some (.named "ErrConnClosed")) ∨ x = .error (some (.named "ErrTextEncoding"))
      ∨ x = .error (some (.named "ErrMessageTooLarge")) := by
  intro x hx
  subst hx
  have h := genFrameT_nocompress cfg maskNum (if decide (index > (0 : Int)) then (0 : UInt8) else opcode) p eof false false
  unfold Trans.Conn_doWriteFile_frame
  simp only []
  generalize genFrameT cfg maskNum (if decide (index > (0 : Int)) then (0 : UInt8) else opcode) p eof false false false = r at h ⊢
  obtain ⟨b, e⟩ := r
  simp only at h
  rcases h with he | he | he <;> subst he
  · cases closed <;> simp
  · simp
  · simp

/-- the translated callback and `Writer.fileFrame` side by side: both a frame, or the same error -/
theorem cb_translated_cases (cfg : Cfg) (codec : Codec) (closed : Bool) (opcode : UInt8) (maskNum : UInt32)
    (k : Nat) (eof : Bool) (p : Bytes) (hlen : p.length < 2 ^ 62) :
    (∃ b, Trans.Conn_doWriteFile_frame (c_pd_Enabled := cfg.pdEnabled) (c_genFrame := genFrameT cfg maskNum)
          (closed := closed) (eof := eof) (index := (k : Int)) (opcode := opcode) (p := p) = .ok b
        ∧ fileFrame cfg codec closed opcode.toNat k eof p (goBytesU32LE maskNum) = .ok b)
    ∨ (∃ e, Trans.Conn_doWriteFile_frame (c_pd_Enabled := cfg.pdEnabled) (c_genFrame := genFrameT cfg maskNum)
          (closed := closed) (eof := eof) (index := (k : Int)) (opcode := opcode) (p := p) = .error (some (goErrOfW e))
        ∧ fileFrame cfg codec closed opcode.toNat k eof p (goBytesU32LE maskNum) = .error e) := by
  have h := doWriteFile_frame_eq cfg codec closed opcode k eof p maskNum hlen
  have hs := doWriteFile_frame_shape cfg maskNum closed eof (k : Int) opcode p _ rfl
  rw [← h]
  rcases hs with ⟨b, hb⟩ | hb | hb | hb <;> rw [hb]
  · exact Or.inl ⟨b, rfl, rfl⟩
  · exact Or.inr ⟨.connClosed, rfl, rfl⟩
  · exact Or.inr ⟨.textEncoding, rfl, rfl⟩
  · exact Or.inr ⟨.messageTooLarge, rfl, rfl⟩

/-- `doWriteFile` when compression is not negotiated: the translated `splitReader` driving the translated callback (which calls
the translated `genFrame`) writes exactly the frames of the model, and returns its error -/
theorem uncompressed_WriteFile_translated (cfg : Cfg) (codec : Codec) (closed : Bool) (opcode : UInt8) (script : ReaderScript)
    (maskNums : Nat → UInt32) (hlen : ∀ rd ∈ script, rd.1.length < 2 ^ 62) :
    Conn_splitReader
        (fun (st : List Bytes) (index : Int) (eof : Bool) (p : Bytes) =>
          match Trans.Conn_doWriteFile_frame (c_pd_Enabled := cfg.pdEnabled) (c_genFrame := genFrameT cfg (maskNums index.toNat))
              (closed := closed) (eof := eof) (index := index) (opcode := opcode) (p := p) with
          | .ok frame => (st ++ [frame], none)
          | .error e => (st, e))
        [] script
      = ((Writer.splitReader (fun index eof p => fileFrame cfg codec closed opcode.toNat index eof p (goBytesU32LE (maskNums index))) script 0).1,
         ((Writer.splitReader (fun index eof p => fileFrame cfg codec closed opcode.toNat index eof p (goBytesU32LE (maskNums index))) script 0).2).map goErrOfW) := by
  rw [splitReader_unfold]
  refine (sr_loop _ (fun index eof p => fileFrame cfg codec closed opcode.toNat index eof p (goBytesU32LE (maskNums index))) script
    ?_ [] 0 0 none).trans ?_
  · intro st k rd hrd
    simp only [cbOf, Int.toNat_natCast]
    rcases cb_translated_cases cfg codec closed opcode (maskNums k) k rd.2 rd.1 (hlen rd hrd) with ⟨b, h1, h2⟩ | ⟨e, h1, h2⟩ <;>
      rw [h1, h2]
  · simp

/-! non-vacuity -/
example : Conn_splitReader (cbOf fun i eof p => .ok (UInt8.ofNat i :: (if eof then 1 else 0) :: p)) [] [([7], false), ([8, 9], true), ([1], false)]
    = ([[0, 0, 7], [1, 1, 8, 9]], none) := by decide +kernel
example : (readerWrapper_WriteTo sink [] [] true 4 [([1, 2, 3], false), ([4, 5], true)]).1 = ([[1, 2, 3], [4, 5]], [2, 3, 4, 5]) := by decide +kernel

end TransEquiv.RL
