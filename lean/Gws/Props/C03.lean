import Gws.Lemmas.ReaderLoop
/-!
# C03 — inbound frames: accept exactly what the RFCs allow, else fail with an allowed status

Statement: on every byte stream, in every reader state, the read loop delivers exactly the events
the RFC 6455 §5 / RFC 7692 §6 receiver (`Spec.receive`) delivers for the longest valid prefix, and
ends in a way that receiver allows: at the first violating frame, one reply whose status belongs to
the set of statuses of the violations present in that frame; a peer Close is reported with the
peer's code and reason and answered as the C06 table says; end of input is an I/O closure.
The relation `Reader.Rel` ties the model's continuation buffer / window to the spec's message in
progress / history; it holds of the initial states (`Rel.init_plain`, `Rel.init_takeover`).
-/

namespace Reader

/-- **C03, refinement.** From any related pair of states and for every input, the model's trace is
one the RFC receiver allows: same delivered events, and an ending inside the spec's latitude
(`traceOk`).  No side condition on the configuration is needed (in particular none on `readMax`). -/
theorem readLoop_refines_rfc (cfg : Cfg) (codec : Codec) (st : State) (sst : Spec.RxState) (b : Bytes)
    (hrel : Rel cfg st sst) :
    traceOk (Spec.receive (specCtx cfg st) codec sst b) (readLoop cfg codec st b) = true :=
  receiveFuel_refines cfg codec st b sst (b.length + 1) hrel (by omega)

/-- **C03 from the initial state, inbound context takeover** (window of `2^bits` bytes). -/
theorem readLoop_refines_rfc_takeover (cfg : Cfg) (codec : Codec) (bits : Nat) (b : Bytes) :
    traceOk (Spec.receive (specCtx cfg { dps := Win.init bits }) codec {} b)
      (readLoop cfg codec { dps := Win.init bits } b) = true :=
  readLoop_refines_rfc cfg codec _ _ b (Rel.init_takeover cfg bits)

/-- **C03 from the initial state, no inbound window** (compression off or no context takeover). -/
theorem readLoop_refines_rfc_plain (cfg : Cfg) (codec : Codec) (b : Bytes) :
    traceOk (Spec.receive (specCtx cfg {}) codec {} b) (readLoop cfg codec {} b) = true :=
  readLoop_refines_rfc cfg codec _ _ b (Rel.init_plain cfg)

/-- **C03, status at the first violating frame.** If the RFC receiver fails the connection with the
status set `allowed` (the statuses of the violations co-occurring in the offending frame, the frame
being complete), then the model's loop ends with an error that is not an I/O closure, the single
reply status it sends is a member of `allowed`, and the events delivered are exactly those of the
valid prefix. -/
theorem violation_status (cfg : Cfg) (codec : Codec) (st : State) (sst : Spec.RxState) (b : Bytes)
    (hrel : Rel cfg st sst) (allowed : List Nat)
    (hfail : (Spec.receive (specCtx cfg st) codec sst b).ending = .fail allowed false) :
    ∃ e, (readLoop cfg codec st b).ending = .err e ∧ e ≠ .other ∧ e.sendCode ∈ allowed ∧
      (readLoop cfg codec st b).ending.replyStatus = some e.sendCode ∧
      (readLoop cfg codec st b).evs.map Ev.toSpec = (Spec.receive (specCtx cfg st) codec sst b).evs := by
  have h := readLoop_refines_rfc cfg codec st sst b hrel
  simp only [traceOk, Bool.and_eq_true, decide_eq_true_eq] at h
  obtain ⟨hevs, hend⟩ := h
  rw [hfail] at hend
  cases he : (readLoop cfg codec st b).ending with
  | err e =>
    rw [he] at hend
    simp only [endOk] at hend
    by_cases ho : e = .other
    · simp [ho] at hend
    · simp only [ho, if_false, decide_eq_true_eq] at hend
      exact ⟨e, rfl, ho, hend, rfl, hevs⟩
  | peerClose pc => rw [he] at hend; simp [endOk] at hend
  | panic w => rw [he] at hend; simp [endOk] at hend

/-- **C03, streaming consistency (events).** What has been delivered for a prefix of the stream is
never retracted: the events for `b₁` are a prefix of the events for `b₁ ++ b₂`. -/
theorem prefix_monotone (cfg : Cfg) (codec : Codec) (st : State) (b₁ b₂ : Bytes) :
    (readLoop cfg codec st b₁).evs <+: (readLoop cfg codec st (b₁ ++ b₂)).evs := by
  fun_induction readLoop cfg codec st b₁ with
  | case1 st b evs e hstep =>
    rw [(step_stop hstep).1]
    exact List.nil_prefix
  | case2 st b st' evs rest hstep t ih =>
    rw [readLoop_ok (step_append b₂ hstep)]
    exact (List.prefix_append_right_inj evs).mpr ih

/-- **C03, streaming consistency (ending).** A connection that ended on `b₁` for any reason other
than running out of input (a violation, a limit, a peer Close) ends identically whatever bytes
follow: a failed connection stays failed, with the same events and the same reply. -/
theorem failed_stays_failed (cfg : Cfg) (codec : Codec) (st : State) (b₁ b₂ : Bytes)
    (hio : (readLoop cfg codec st b₁).ending ≠ .err .other) :
    (readLoop cfg codec st (b₁ ++ b₂)).evs = (readLoop cfg codec st b₁).evs ∧
    (readLoop cfg codec st (b₁ ++ b₂)).ending = (readLoop cfg codec st b₁).ending := by
  fun_induction readLoop cfg codec st b₁ with
  | case1 st b evs e hstep =>
    rw [readLoop_stop (step_stop_append b₂ hstep hio)]
    exact ⟨rfl, rfl⟩
  | case2 st b st' evs rest hstep t ih =>
    rw [readLoop_ok (step_append b₂ hstep)]
    have := ih hio
    exact ⟨by rw [this.1], this.2⟩

/-! ## non-vacuity -/

/-- a client-side reader, no compression: text "hi", Ping, Close(1000) -/
example (codec : Codec) :
    let cfg : Cfg := { isServer := false, pdEnabled := false, readMax := 125, checkUtf8 := true }
    let b : Bytes := [0x81, 0x02, 0x68, 0x69, 0x89, 0x01, 0x07, 0x88, 0x02, 0x03, 0xE8]
    (readLoop cfg codec {} b).evs = [.msg 1 [0x68, 0x69], .ping [0x07]] ∧
    (readLoop cfg codec {} b).ending = .peerClose { realCode := 1000, reason := [], response := 1000 } ∧
    (Spec.receive (specCtx cfg {}) codec {} b).evs = [.msg 1 [0x68, 0x69], .ping [0x07]] ∧
    (Spec.receive (specCtx cfg {}) codec {} b).ending = .peerClose 1000 [] [some 1000] := by
  intro cfg b
  have s1 : step cfg codec {} b = .ok {} [.msg 1 [0x68, 0x69]] [0x89, 0x01, 0x07, 0x88, 0x02, 0x03, 0xE8] := by
    reader_eval [cfg, b]
  have s2 : step cfg codec {} [0x89, 0x01, 0x07, 0x88, 0x02, 0x03, 0xE8] = .ok {} [.ping [0x07]] [0x88, 0x02, 0x03, 0xE8] := by
    reader_eval [cfg]
  have s3 : step cfg codec {} [0x88, 0x02, 0x03, 0xE8] =
      .stop [] (.peerClose { realCode := 1000, reason := [], response := 1000 }) := by
    reader_eval [cfg, Close.classify]
    decide
  rw [readLoop_ok s1, readLoop_ok s2, readLoop_stop s3]
  refine ⟨rfl, rfl, ?_, ?_⟩ <;> spec_eval [cfg, b, Spec.closeCodeForbidden]

/-- a server-side reader: a masked text frame (key `01 02 03 04`) followed by an unmasked frame with RSV2 set — two
violations in one frame, the spec allows `{1002}`, the model answers 1002 after delivering the text -/
example (codec : Codec) :
    let cfg : Cfg := { isServer := true, pdEnabled := false, readMax := 125, checkUtf8 := false }
    let b : Bytes := [0x81, 0x81, 1, 2, 3, 4, 0x40, 0xA2, 0x00]
    (Spec.receive (specCtx cfg {}) codec {} b).ending = .fail [1002, 1002] false ∧
    (readLoop cfg codec {} b).evs = [.msg 1 [0x41]] ∧
    (readLoop cfg codec {} b).ending = .err (.status 1002) := by
  intro cfg b
  have hx : (0x40 ^^^ 1 : UInt8) = 0x41 := by decide
  have s1 : step cfg codec {} b = .ok {} [.msg 1 [0x41]] [0xA2, 0x00] := by
    reader_eval [cfg, b, hx]
  have s2 : step cfg codec {} [0xA2, 0x00] = .stop [] (.err (.status 1002)) := by
    reader_eval [cfg]
  rw [readLoop_ok s1, readLoop_stop s2]
  refine ⟨?_, rfl, rfl⟩
  spec_eval [cfg, b, hx]

/-- cutting the stream inside the second frame: the first message is still delivered (prefix) -/
example (codec : Codec) :
    let cfg : Cfg := { isServer := false, pdEnabled := false, readMax := 125, checkUtf8 := true }
    (readLoop cfg codec {} [0x81, 0x02, 0x68, 0x69, 0x89]).evs = [.msg 1 [0x68, 0x69]] ∧
    (readLoop cfg codec {} [0x81, 0x02, 0x68, 0x69, 0x89]).ending = .err .other := by
  intro cfg
  have s1 : step cfg codec {} [0x81, 0x02, 0x68, 0x69, 0x89] = .ok {} [.msg 1 [0x68, 0x69]] [0x89] := by
    reader_eval [cfg]
  have s2 : step cfg codec {} [0x89] = .stop [] (.err .other) := by
    reader_eval [cfg]
  rw [readLoop_ok s1, readLoop_stop s2]
  exact ⟨rfl, rfl⟩

end Reader
