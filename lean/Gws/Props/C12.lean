import Gws.Lemmas.Nego
/-!
# C12 — extension negotiation: both endpoints always hold the same parameters

Statement (properties.jsonl): for every pair of server and client compression settings, after a
gws-to-gws handshake both endpoints agree on whether compression is on, which directions keep
context and both window sizes.  Compression is on iff both sides enabled it, a direction keeps
context iff neither side declined it, and window sizes lie in 8..15.  Extension parameters are
understood regardless of their order and surrounding whitespace.

`handshake s c` (Gws/Model/Nego.lean) composes the code's own functions: option normalisation on
both sides, `genRequestHeader`, the server's `getPermessageDeflate` (which calls
`permessageNegotiation` on the offer), `genResponseHeader`, the client's `getPermessageDeflate`.
The settings `s c : PD` are arbitrary: any `Int` for both window sizes and the threshold.
White space is ASCII white space (see the model's header).
-/

namespace Nego

/-- **C12, agreement.** For all server settings `s` and client settings `c`, the two endpoints hold
the same `Enabled`; when it is on they also hold the same two takeover flags and the same two
window sizes. -/
theorem nego_agree (s c : PD) :
    (handshake s c).server.enabled = (handshake s c).client.enabled ∧
    ((handshake s c).server.enabled = true →
      (handshake s c).server.serverTakeover = (handshake s c).client.serverTakeover ∧
      (handshake s c).server.clientTakeover = (handshake s c).client.clientTakeover ∧
      (handshake s c).server.serverBits = (handshake s c).client.serverBits ∧
      (handshake s c).server.clientBits = (handshake s c).client.clientBits) := by
  by_cases h : s.enabled = true ∧ c.enabled = true
  · rw [handshake_on s c h.1 h.2]
    simp [agreed]
  · obtain ⟨h1, h2, _⟩ := handshake_off s c h
    rw [h1, h2]
    simp

/-- **C12, compression is on iff both sides enabled it** (stated for the server's view; by
`nego_agree` the client's view is the same). -/
theorem enabled_iff (s c : PD) :
    (handshake s c).server.enabled = true ↔ (s.enabled = true ∧ c.enabled = true) := by
  by_cases h : s.enabled = true ∧ c.enabled = true
  · rw [handshake_on s c h.1 h.2]
    simp [agreed, h]
  · obtain ⟨h1, _, _⟩ := handshake_off s c h
    rw [h1]
    simp [h]

/-- the same for the client's view -/
theorem enabled_iff_client (s c : PD) :
    (handshake s c).client.enabled = true ↔ (s.enabled = true ∧ c.enabled = true) := by
  rw [← (nego_agree s c).1]; exact enabled_iff s c

/-- **C12, a direction keeps context iff neither side declined it**: when compression is on, each
takeover flag held by either endpoint is the conjunction of the two settings. -/
theorem takeover_iff (s c : PD) (h : (handshake s c).server.enabled = true) :
    ((handshake s c).server.serverTakeover = true ↔ (s.serverTakeover = true ∧ c.serverTakeover = true)) ∧
    ((handshake s c).server.clientTakeover = true ↔ (s.clientTakeover = true ∧ c.clientTakeover = true)) ∧
    ((handshake s c).client.serverTakeover = true ↔ (s.serverTakeover = true ∧ c.serverTakeover = true)) ∧
    ((handshake s c).client.clientTakeover = true ↔ (s.clientTakeover = true ∧ c.clientTakeover = true)) := by
  have he := (enabled_iff s c).1 h
  rw [handshake_on s c he.1 he.2]
  simp [agreed, and_comm]

/-- **C12, window sizes lie in 8..15** on both endpoints, for all integer settings. -/
theorem bits_range (s c : PD) (h : (handshake s c).server.enabled = true) :
    (8 ≤ (handshake s c).server.serverBits ∧ (handshake s c).server.serverBits ≤ 15) ∧
    (8 ≤ (handshake s c).server.clientBits ∧ (handshake s c).server.clientBits ≤ 15) ∧
    (8 ≤ (handshake s c).client.serverBits ∧ (handshake s c).client.serverBits ≤ 15) ∧
    (8 ≤ (handshake s c).client.clientBits ∧ (handshake s c).client.clientBits ≤ 15) := by
  have he := (enabled_iff s c).1 h
  obtain ⟨_, _, _, hs, hc, _⟩ := normServer_on s he.1
  rw [handshake_on s c he.1 he.2]
  simp only [setThreshold_serverBits, setThreshold_clientBits, agreed]
  exact ⟨hs, hc, hs, hc⟩

/-- Which sizes: both endpoints use the *server's* normalised settings — in range as configured,
otherwise 12 under takeover of that direction and 15 without. The limits in the client's offer
never lower them. -/
theorem bits_are_servers (s c : PD) (h : (handshake s c).server.enabled = true) :
    (handshake s c).client.serverBits = (normServer s).serverBits ∧
    (handshake s c).client.clientBits = (normServer s).clientBits ∧
    (handshake s c).server.serverBits = (normServer s).serverBits ∧
    (handshake s c).server.clientBits = (normServer s).clientBits := by
  have he := (enabled_iff s c).1 h
  rw [handshake_on s c he.1 he.2]
  simp [agreed]

/-- **C12, threshold.** An endpoint that compresses with context takeover compresses every message:
the server's threshold is 0 under server takeover, the client's under client takeover (with or
without compression negotiated; `setThreshold` is unconditional). -/
theorem threshold_zero_under_takeover (s c : PD) :
    ((handshake s c).server.serverTakeover = true → (handshake s c).server.threshold = 0) ∧
    ((handshake s c).client.clientTakeover = true → (handshake s c).client.threshold = 0) := by
  constructor
  · intro h
    simp only [handshake, serverGetPD] at h ⊢
    simp only [setThreshold_serverTakeover] at h
    simp [setThreshold, h]
  · intro h
    simp only [handshake, clientGetPD] at h ⊢
    simp only [setThreshold_clientTakeover] at h
    simp [setThreshold, h]

/-- Without takeover of its own direction an enabled endpoint keeps its configured threshold, or
the default 512 if that was not positive; in particular it is positive. -/
theorem threshold_without_takeover (s c : PD) (h : (handshake s c).server.enabled = true) :
    ((handshake s c).server.serverTakeover = false →
      (handshake s c).server.threshold = (if s.threshold ≤ 0 then defaultThreshold else s.threshold)) ∧
    ((handshake s c).client.clientTakeover = false →
      (handshake s c).client.threshold = (if c.threshold ≤ 0 then defaultThreshold else c.threshold)) := by
  have he := (enabled_iff s c).1 h
  rw [handshake_on s c he.1 he.2]
  constructor
  · intro h
    simp only [setThreshold_serverTakeover, agreed] at h
    simp [setThreshold, agreed, h, normServer, he.1]
  · intro h
    simp only [setThreshold_clientTakeover, agreed] at h
    simp [setThreshold, agreed, h, normClient, he.2]

/-- What is on the wire: the client offers iff it enabled compression, the server answers with the
extension header iff compression is on. -/
theorem headers_sent (s c : PD) :
    ((handshake s c).offer.isSome = true ↔ c.enabled = true) ∧
    ((handshake s c).response.isSome = true ↔ (s.enabled = true ∧ c.enabled = true)) := by
  constructor
  · cases hc : c.enabled with
    | false => simp [handshake, normClient_off c hc, hc]
    | true => simp [handshake, (normClient_on c hc).1]
  · by_cases h : s.enabled = true ∧ c.enabled = true
    · rw [handshake_on s c h.1 h.2]; simp [h]
    · rw [(handshake_off s c h).2.2]; simp [h]

/-- **C12, order and white space.** Take any two lists of parameters, each parameter padded on
both sides with any ASCII white space and the padded parameters joined with `;`. If the parameters
of one list are a permutation of the parameters of the other, `permessageNegotiation` returns the
same result for both header values. (Parameters are arbitrary strings without `;` — known or
unknown names, with or without `=value`, even empty.) -/
theorem parse_perm_ws (xs ys : List Item) (hx : ∀ i ∈ xs, i.Ok) (hy : ∀ i ∈ ys, i.Ok)
    (hperm : (xs.map Item.param).Perm (ys.map Item.param)) :
    permessageNegotiation (render xs) = permessageNegotiation (render ys) := by
  rw [permessageNegotiation_render xs hx, permessageNegotiation_render ys hy]
  apply parseParams_perm
  have := (hperm.map trim).filter (fun t => t ≠ [])
  simpa [List.map_map, Function.comp_def] using this

/-- Repeating a parameter changes nothing (the parser takes minima and conjunctions). -/
theorem parse_duplicate (ps : List Str) (p : Str) (hp : p ∈ ps) :
    parseParams (p :: ps) = parseParams ps := by
  obtain ⟨l, r, rfl⟩ := List.append_of_mem hp
  have h1 : (p :: (l ++ p :: r)).Perm (l ++ p :: p :: r) := by
    have : (p :: (l ++ p :: r)).Perm (p :: p :: (l ++ r)) :=
      List.Perm.cons p List.perm_middle
    exact this.trans ((List.perm_middle.trans (List.Perm.cons p List.perm_middle)).symm)
  rw [parseParams_perm h1]
  unfold parseParams
  congr 1
  simp only [List.foldl_append, List.foldl_cons, applyParam_eq, Act.apply_idem]

/-- Whatever the header value, the parsed window sizes lie in 8..15: non-numeric, zero and absent
values count as 15, values below 8 (including negative ones) are raised to 8. -/
theorem parse_bits_range (str : Str) :
    (8 ≤ (permessageNegotiation str).serverBits ∧ (permessageNegotiation str).serverBits ≤ 15) ∧
    (8 ≤ (permessageNegotiation str).clientBits ∧ (permessageNegotiation str).clientBits ≤ 15) := by
  unfold permessageNegotiation parseParams
  have inv : ∀ (ps : List Str) (o : PD), o.serverBits ≤ 15 → o.clientBits ≤ 15 →
      (ps.foldl applyParam o).serverBits ≤ 15 ∧ (ps.foldl applyParam o).clientBits ≤ 15 := by
    intro ps
    induction ps with
    | nil => intro o h1 h2; exact ⟨h1, h2⟩
    | cons p ps ih =>
      intro o h1 h2
      simp only [List.foldl_cons]
      apply ih
      · rw [applyParam_eq]; cases act p <;> simp only [Act.apply, imin_eq_min] <;> omega
      · rw [applyParam_eq]; cases act p <;> simp only [Act.apply, imin_eq_min] <;> omega
  obtain ⟨h1, h2⟩ := inv (split str) parseInit (by decide) (by decide)
  simp only [clamp8]
  refine ⟨⟨?_, ?_⟩, ⟨?_, ?_⟩⟩ <;> split <;> omega

/-- A parameter with an unknown name is ignored, wherever it stands. -/
theorem parse_unknown_ignored (ps : List Str) (u : Str)
    (h1 : (splitN2 u).1 ≠ pmd) (h2 : (splitN2 u).1 ≠ sNoCtx) (h3 : (splitN2 u).1 ≠ cNoCtx)
    (h4 : (splitN2 u).1 ≠ sBits) (h5 : (splitN2 u).1 ≠ cBits) :
    parseParams (u :: ps) = parseParams ps := by
  unfold parseParams
  simp only [List.foldl_cons, applyParam_eq, act_unknown u h1 h2 h3 h4 h5, Act.apply]

/-- `strconv.Atoi(strconv.Itoa(n)) = n` for every int64 `n`: the numbers the generators write are
the numbers the parser reads. -/
theorem atoi_itoa_roundtrip (n : Int) (hlo : minInt64 ≤ n) (hhi : n ≤ maxInt64) : atoi (itoa n) = n :=
  atoi_itoa n hlo hhi

-- non-vacuity: compression does get negotiated, with and without takeover, with in- and
-- out-of-range settings; a one-sided handshake leaves it off; parsing is insensitive to layout
example : (handshake ⟨true, true, true, 0, 9, 0⟩ ⟨true, false, true, 10, 100, 7⟩).server
    = ⟨true, false, true, 12, 9, 512⟩ := by decide
example : (handshake ⟨true, true, true, 0, 9, 0⟩ ⟨true, false, true, 10, 100, 7⟩).client
    = ⟨true, false, true, 12, 9, 0⟩ := by decide
example : (handshake ⟨true, true, true, 0, 9, 0⟩ ⟨true, false, true, 10, 100, 7⟩).offer
    = some "permessage-deflate; server_no_context_takeover; server_max_window_bits=10; client_max_window_bits".toList := by
  decide
example : (handshake ⟨true, true, true, 0, 9, 0⟩ ⟨true, false, true, 10, 100, 7⟩).response
    = some "permessage-deflate; server_no_context_takeover; server_max_window_bits=12; client_max_window_bits=9".toList := by
  decide
example : (handshake ⟨true, true, true, 15, 15, 0⟩ ⟨false, true, true, 15, 15, 0⟩).server.enabled = false := by decide
example : (handshake ⟨false, true, true, 15, 15, 0⟩ ⟨true, true, true, 15, 15, 0⟩).client.enabled = false := by decide
example : permessageNegotiation " client_max_window_bits=9 ;;\tserver_no_context_takeover ; x=1;server_max_window_bits=3".toList
    = ⟨false, false, true, 8, 9, 0⟩ := by decide
example : permessageNegotiation "server_max_window_bits=3;x=1 ; server_no_context_takeover;client_max_window_bits=9\r\n".toList
    = ⟨false, false, true, 8, 9, 0⟩ := by decide
-- white space is trimmed around a parameter, not inside it: `client_max_window_bits ` is an unknown name
example : permessageNegotiation "client_max_window_bits = 9".toList = ⟨false, true, true, 15, 15, 0⟩ := by decide
example : permessageNegotiation "server_max_window_bits=10; server_max_window_bits=12; client_max_window_bits=abc; client_max_window_bits=0".toList
    = ⟨false, true, true, 10, 15, 0⟩ := by decide

end Nego
