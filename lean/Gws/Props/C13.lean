import Gws.Lemmas.ReaderLoop
/-!
# C13 — the read size limit on frames, fragment sums and inflated size

Statement: no message larger than `ReadMaxPayloadSize` is ever delivered — neither as one frame,
nor as a sum of fragments, nor after inflation; a frame or fragment sequence whose wire size
exceeds the limit fails the connection with status exactly 1009 as soon as the sizes reveal it; a
compressed message that inflates beyond the limit (or does not inflate) fails the connection with
an error Close status; and every message the RFC receiver delivers under the same limit — which
includes messages exactly at the limit — is delivered.
-/

namespace Reader

/-- **C13, delivered ⇒ within the limit.** Every message the loop delivers, from any state and on
any input, has a payload of at most `readMax` bytes (for a compressed message: its inflated size). -/
theorem delivered_within_limit (cfg : Cfg) (codec : Codec) (st : State) (b : Bytes) :
    ∀ op p, Ev.msg op p ∈ (readLoop cfg codec st b).evs → (p.length : Int) ≤ cfg.readMax := by
  fun_induction readLoop cfg codec st b with
  | case1 st b evs e hstep =>
    intro op p hm
    rw [(step_stop hstep).1] at hm
    simp at hm
  | case2 st b st' evs rest hstep t ih =>
    intro op p hm
    simp only [List.mem_append] at hm
    rcases hm with hm | hm
    · exact ((step_ok hstep).2 _ hm).1
    · exact ih op p hm

/-- **C13, oversize frame.** A frame whose declared length exceeds the limit stops the connection
with status exactly 1009 and delivers nothing; the decision is taken on the header alone, before any
payload byte is read or buffered. -/
theorem oversize_frame_1009 (cfg : Cfg) (codec : Codec) (st : State) (b : Bytes) (h : Frame.Hdr) (rest : Bytes)
    (hp : Frame.parse b = .ok h rest) (hbig : h.len > cfg.readMax) :
    step cfg codec st b = .stop [] (.err (.status 1009)) := by
  unfold step
  rw [hp]
  simp only
  have : headerCheck cfg h = some tooLarge := by
    unfold headerCheck
    rw [if_pos (Or.inr hbig)]
  rw [this]
  rfl

/-- **C13, oversize fragment sum.** When a frame continues a fragmented message and the bytes
buffered so far plus this fragment exceed the limit — or starts one and is itself above the limit —
the connection is failed with status exactly 1009 and nothing is delivered. -/
theorem oversize_fragments_1009 (cfg : Cfg) (codec : Codec) (st : State) (h : Frame.Hdr) (p rest : Bytes)
    (hfrag :
      (Frame.getOpcode h.b0 = 0 ∧ st.cont.initialized = true ∧
        ((st.cont.buffer.length + p.length : Nat) : Int) > cfg.readMax) ∨
      (Frame.getOpcode h.b0 ≠ 0 ∧ Frame.getFIN h.b0 = false ∧ st.cont.initialized = false ∧
        (p.length : Int) > cfg.readMax)) :
    afterPayload cfg codec st h p rest = .stop [] (.err (.status 1009)) := by
  unfold afterPayload
  have hF : Facts.opContinuation = 0 := rfl
  simp only [hF]
  rcases hfrag with ⟨h0, hi, hbig⟩ | ⟨h0, hf, hi, hbig⟩
  · simp only [h0, hi, ne_eq, not_true_eq_false, false_and, and_false, if_false, List.length_append]
    rw [if_pos hbig]
    rfl
  · simp only [h0, hf, hi, ne_eq, not_false_eq_true, and_true, and_false, Bool.false_eq_true, if_false, if_true,
      List.nil_append, not_true_eq_false]
    rw [if_pos hbig]
    rfl

/-- **C13, inflation.** (1) If the library's output for the complete compressed message exceeds the
limit, `Codec.decompress` reports `tooLarge`; (2) on `tooLarge` or a library error `emitMessage`
fails the connection with the error Close status 1011 and delivers nothing; (3) an output that is
accepted is within the limit. -/
theorem inflate_limit (cfg : Cfg) (codec : Codec) (st : State) (opcode : Nat) (data : Bytes) :
    (∀ out, codec.inflate st.dps.dict (data ++ Codec.flateTail) = some out → (out.length : Int) > cfg.readMax →
      codec.decompress cfg.readMax st.dps.dict data = .tooLarge) ∧
    (codec.decompress cfg.readMax st.dps.dict data = .tooLarge ∨
      codec.decompress cfg.readMax st.dps.dict data = .libError →
      emitMessage cfg codec st opcode data true = .inr (.err (.coded 1011))) ∧
    (∀ out, codec.decompress cfg.readMax st.dps.dict data = .ok out → (out.length : Int) ≤ cfg.readMax) := by
  refine ⟨?_, ?_, fun out h => decompress_ok_le h⟩
  · intro out ho hbig
    unfold Codec.decompress
    rw [ho]
    simp only
    rw [if_pos hbig]
  · intro h
    unfold emitMessage
    simp only [if_true]
    rcases h with h | h <;> rw [h] <;> rfl

/-- **C13, within the limit ⇒ delivered.** The model delivers exactly the events the RFC receiver
delivers under the same limit — in particular every RFC-valid message whose frame sizes, fragment
sum and inflated size are all ≤ the limit, including exactly at it, is delivered (see the examples
below for the boundary). Corollary of `readLoop_refines_rfc`. -/
theorem within_limit_delivered (cfg : Cfg) (codec : Codec) (st : State) (sst : Spec.RxState) (b : Bytes)
    (hrel : Rel cfg st sst) :
    (readLoop cfg codec st b).evs.map Ev.toSpec = (Spec.receive (specCtx cfg st) codec sst b).evs := by
  have h := receiveFuel_refines cfg codec st b sst (b.length + 1) hrel (by omega)
  simp only [traceOk, Bool.and_eq_true, decide_eq_true_eq] at h
  exact h.1

/-! ## non-vacuity: limit 2, client-side reader -/

/-- a message exactly at the limit is delivered by the spec (hence by the model) -/
example (codec : Codec) :
    let cfg : Cfg := { isServer := false, pdEnabled := false, readMax := 2, checkUtf8 := false }
    (Spec.receive (specCtx cfg {}) codec {} [0x82, 0x02, 0xAA, 0xBB]).evs = [.msg 2 [0xAA, 0xBB]] ∧
    step cfg codec {} [0x82, 0x02, 0xAA, 0xBB] = .ok {} [.msg 2 [0xAA, 0xBB]] [] := by
  intro cfg
  constructor
  · spec_eval [cfg]
  · reader_eval [cfg]

/-- one byte more: 1009, nothing delivered -/
example (codec : Codec) :
    step { isServer := false, pdEnabled := false, readMax := 2, checkUtf8 := false } codec {}
      [0x82, 0x03, 0xAA, 0xBB, 0xCC] = .stop [] (.err (.status 1009)) := by
  reader_eval []

/-- two fragments of 2 + 1 bytes under limit 2: the second one trips the sum check -/
example (codec : Codec) :
    let cfg : Cfg := { isServer := false, pdEnabled := false, readMax := 2, checkUtf8 := false }
    step cfg codec {} [0x02, 0x02, 0xAA, 0xBB, 0x80, 0x01, 0xCC] =
      .ok { cont := { initialized := true, compressed := false, opcode := 2, buffer := [0xAA, 0xBB] } } []
        [0x80, 0x01, 0xCC] ∧
    step cfg codec { cont := { initialized := true, compressed := false, opcode := 2, buffer := [0xAA, 0xBB] } }
      [0x80, 0x01, 0xCC] = .stop [] (.err (.status 1009)) := by
  intro cfg
  constructor <;> reader_eval [cfg]

/-- a compressed message of 2 wire bytes that inflates (with the doubling stand-in codec) to 4 bytes:
under limit 3 the connection is failed with 1011 and nothing is delivered; under limit 4 — exactly
the inflated size — it is delivered -/
example :
    step { isServer := false, pdEnabled := true, readMax := 3, checkUtf8 := false } dupCodec {}
      [0xC2, 0x02, 0xAA, 0xBB] = .stop [] (.err (.coded 1011)) ∧
    step { isServer := false, pdEnabled := true, readMax := 4, checkUtf8 := false } dupCodec {}
      [0xC2, 0x02, 0xAA, 0xBB] = .ok {} [.msg 2 [0xAA, 0xBB, 0xAA, 0xBB]] [] := by
  constructor <;> reader_eval []

end Reader
