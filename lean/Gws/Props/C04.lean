import Gws.Lemmas.ReaderLoop
/-!
# C04 — no input crashes, hangs or over-allocates (framed protocol)

Statement: for every configuration, every reader state and every byte stream, the read loop
terminates, never reaches one of the places where the Go code would panic (the model makes them
explicit as `End.panic`), and never asks the buffer pool for more than the configured limit plus
the 9-byte deflate tail; the continuation buffer never grows beyond the limit.

The model follows the repaired code: a 64-bit length with the top bit set is a negative Go `int`
and is rejected by `headerCheck` before any allocation; `Pool.cap` bypasses the `uint32` rounding
above the largest pooled size.
-/

namespace Reader

/-- **C04, totality.** `readLoop` is a total function: every input yields a trace with an ending.
The content of this statement is that Lean accepted the definition of `readLoop`, whose recursion
is justified by `step_decreases`: every iteration that continues has consumed at least 2 bytes, so
the loop cannot hang on any input. -/
theorem readLoop_total (cfg : Cfg) (codec : Codec) (st : State) (b : Bytes) :
    ∃ t : Trace, readLoop cfg codec st b = t ∧
      ∀ st' evs rest, step cfg codec st b = .ok st' evs rest → rest.length + 2 ≤ b.length :=
  ⟨_, rfl, fun _ _ _ h => step_decreases h⟩

/-- **C04, no panic.** On no input, in no state and under no configuration does the loop end in a
panic: the slice expression `buf.Bytes()[:contentLength]` is always in range (`Pool.cap_ge`,
`headerCheck` rejects negative lengths). -/
theorem readLoop_no_panic (cfg : Cfg) (codec : Codec) (st : State) (b : Bytes) :
    ∀ w, (readLoop cfg codec st b).ending ≠ .panic w := by
  fun_induction readLoop cfg codec st b with
  | case1 st b evs e hstep =>
    intro w hw
    have := (step_stop hstep).2
    simp only at hw
    rw [hw] at this
    simp [End.isPanic] at this
  | case2 st b st' evs rest hstep t ih => exact ih

/-- **C04, allocation bound.** Whenever the header checks pass — the only way `step` reaches
`dataFrame`, where the payload buffer is requested — the declared length is between 0 and the read
limit, so the request to the pool is at most `readMax + len(flateTail)` = `readMax + 9` bytes, and
it is made only after the whole header has been judged. -/
theorem step_alloc_bound (cfg : Cfg) (codec : Codec) (st : State) (b : Bytes) (h : Frame.Hdr) (rest : Bytes)
    (hp : Frame.parse b = .ok h rest) (hc : headerCheck cfg h = none) :
    (step cfg codec st b =
      if Frame.getOpcode h.b0 > Facts.dataFrameMaxOpcode then readControl cfg st h rest
      else dataFrame cfg codec st h rest) ∧
    0 ≤ h.len ∧ h.len ≤ cfg.readMax ∧
    ((h.len.toNat + Facts.flateTail.length : Nat) : Int) ≤ cfg.readMax + 9 := by
  have hb := headerCheck_none_bound hc
  refine ⟨?_, hb.1, hb.2, ?_⟩
  · unfold step
    rw [hp]
    simp only
    rw [hc]
  · have : Facts.flateTail.length = 9 := rfl
    omega

/-- … and a header that fails a check stops the step before anything is allocated or read. -/
theorem step_rejects_before_alloc (cfg : Cfg) (codec : Codec) (st : State) (b : Bytes) (h : Frame.Hdr)
    (rest : Bytes) (e : End) (hp : Frame.parse b = .ok h rest) (hc : headerCheck cfg h = some e) :
    step cfg codec st b = .stop [] e := by
  unfold step
  rw [hp]
  simp only
  rw [hc]

/-- **C04, buffered bytes.** The continuation buffer never exceeds the read limit: the bound is
preserved by every step that continues. -/
theorem cont_buffer_bounded (cfg : Cfg) (codec : Codec) (st st' : State) (b rest : Bytes) (evs : List Ev)
    (hb : (st.cont.buffer.length : Int) ≤ cfg.readMax)
    (hs : step cfg codec st b = .ok st' evs rest) :
    (st'.cont.buffer.length : Int) ≤ cfg.readMax :=
  (step_ok hs).1 hb

/-! ## non-vacuity -/

/-- the 14 bytes that used to kill the process: 64-bit length with the top bit set, to a server.
The length is a negative Go `int`; the model rejects it with 1009 before any allocation. -/
example (codec : Codec) :
    step { isServer := true, pdEnabled := false, readMax := 1024, checkUtf8 := true } codec {}
      [0x82, 0xFF, 0xFF, 0xFF, 0xFF, 0xFF, 0xFF, 0xFF, 0xFF, 0xFF, 1, 2, 3, 4] = .stop [] (.err (.status 1009)) := by
  reader_eval []

/-- `Frame.parse` really produces a negative length there -/
example : ∃ h rest, Frame.parse [0x82, 0xFF, 0xFF, 0xFF, 0xFF, 0xFF, 0xFF, 0xFF, 0xFF, 0xFF, 1, 2, 3, 4] = .ok h rest ∧
    h.len = -1 := by
  refine ⟨_, _, rfl, ?_⟩
  decide

/-- a header that passes the checks: the allocation request is 3 + 9 bytes -/
example : headerCheck { isServer := false, pdEnabled := false, readMax := 1024, checkUtf8 := true }
    { b0 := 0x82, b1 := 3, len := 3, key := [] } = none := by
  decide

end Reader
