import Gws.Model.Utf8
/-!
# C16 — UTF-8 is enforced on whole text payloads (write side and the gate itself)

Statement: with UTF-8 checking on, a text message is put on the wire iff its complete payload (all
slices concatenated) is valid UTF-8, and a received text message or close reason is accepted iff its
complete reassembled and inflated payload is valid UTF-8.  Code points split across fragments or
slices are fine, invalid text is answered with status 1007 and never delivered, binary messages are
never checked, and with checking off nothing is rejected on encoding grounds.

This file: the gate functions (`internal/io.go`).  The read-side clauses (after reassembly and
inflation, status 1007, never delivered) are in `Gws/Props/C16Read.lean`; the close-reason clause is
`Close.emitClose_spec` (C06).  `utf8.Valid` = RFC 3629 is assumed (trusted base) and compared
exhaustively on every string of ≤ 3 bytes on every run.
-/

namespace Utf8

/-- **Write gate, slice list.** With checking on, a Text (or Close) payload given as any list of
slices passes iff the concatenation of the slices is valid UTF-8 — however a code point is split. -/
theorem write_gate (opcode : Nat) (ps : List Bytes) (hop : opcode = 1 ∨ opcode = 8) :
    buffersCheck true opcode ps = Spec.Utf8.valid ps.flatten := by
  unfold buffersCheck
  rcases hop with rfl | rfl <;> simp [validJoined_eq]

/-- **Write gate, single slice.** -/
theorem write_gate_bytes (opcode : Nat) (p : Bytes) (hop : opcode = 1 ∨ opcode = 8) :
    bytesCheck true opcode p = Spec.Utf8.valid p := by
  unfold bytesCheck checkEncoding
  rcases hop with rfl | rfl <;> simp

/-- **Splitting is irrelevant.** Any two ways of cutting the same payload into slices get the same
verdict. -/
theorem split_invariant (en : Bool) (opcode : Nat) (ps qs : List Bytes) (h : ps.flatten = qs.flatten) :
    buffersCheck en opcode ps = buffersCheck en opcode qs := by
  unfold buffersCheck
  rw [validJoined_eq, validJoined_eq, h]

/-- **Binary and control payloads are never checked.** -/
theorem binary_never_checked (en : Bool) (opcode : Nat) (ps : List Bytes) (h1 : opcode ≠ 1) (h8 : opcode ≠ 8) :
    buffersCheck en opcode ps = true ∧ ∀ p, bytesCheck en opcode p = true := by
  unfold buffersCheck bytesCheck checkEncoding
  simp [h1, h8]

/-- **Checking off: nothing is rejected on encoding grounds.** -/
theorem check_off_never_rejects (opcode : Nat) (ps : List Bytes) :
    buffersCheck false opcode ps = true ∧ ∀ p, bytesCheck false opcode p = true := by
  unfold buffersCheck bytesCheck checkEncoding
  simp

/-- **A valid piece can be dropped from the front.** If a prefix is itself valid UTF-8 the verdict on
the whole is the verdict on the rest; so per-piece validation is *sufficient* for whole-payload
validity (the verdicts of pieces compose)… -/
theorem valid_append_of_valid (a b : Bytes) (ha : Spec.Utf8.valid a = true) :
    Spec.Utf8.valid (a ++ b) = Spec.Utf8.valid b := by
  open Spec.Utf8 in
  fun_induction valid a
  all_goals first
    | (simp; done)
    | (simp at ha; done)
    | skip
  all_goals
    rename_i ih
    simp only [List.cons_append]
    conv => lhs; unfold Spec.Utf8.valid
    simp only [*, ↓reduceIte, Bool.false_eq_true]
    try simp only [Bool.and_eq_true] at ha
  · simp [ih ha.2, ha.1]
  · simp only [ih ha.2, ha.1.1, ha.1.2]; simp
  · simp only [ih ha.2, ha.1.1.1, ha.1.1.2, ha.1.2]; simp

/-- slices that are each valid form a payload the gate accepts -/
theorem pieces_valid_imp_gate (ps : List Bytes) (h : ∀ p ∈ ps, Spec.Utf8.valid p = true) :
    buffersCheck true 1 ps = true := by
  rw [write_gate 1 ps (Or.inl rfl)]
  induction ps with
  | nil => simp [Spec.Utf8.valid]
  | cons p ps ih =>
    rw [List.flatten_cons, valid_append_of_valid p _ (h p (by simp))]
    exact ih fun q hq => h q (by simp [hq])

/-- …but **not necessary**: the gate accepts a payload none of whose slices is valid by itself (a
code point split between slices). A per-slice validator is therefore strictly stronger than the
property allows — this is the difference between `write_gate` and the defect repaired in section 6. -/
theorem per_piece_check_too_strict :
    buffersCheck true 1 [[0xE4, 0xB8], [0xAD]] = true ∧
    Spec.Utf8.valid [0xE4, 0xB8] = false ∧ Spec.Utf8.valid [0xAD] = false := by
  refine ⟨?_, ?_, ?_⟩
  · rw [write_gate 1 _ (Or.inl rfl)]; simp [Spec.Utf8.valid, Spec.Utf8.isCont]
  · simp [Spec.Utf8.valid]
  · simp [Spec.Utf8.valid]

-- non-vacuity: "中" = e4 b8 ad split inside the code point is accepted; a lone continuation byte is not
example : buffersCheck true 1 [[0xe4, 0xb8], [0xad]] = true := by
  rw [write_gate 1 _ (Or.inl rfl)]; simp [Spec.Utf8.valid, Spec.Utf8.isCont]
example : buffersCheck true 1 [[0x61], [0x80]] = false := by
  rw [write_gate 1 _ (Or.inl rfl)]; simp [Spec.Utf8.valid]

end Utf8
