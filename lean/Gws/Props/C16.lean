import Gws.Model.Utf8
/-!
# C16 — UTF-8 is enforced on whole text payloads (write side and the gate itself)

Statement: with UTF-8 checking on, a text message is put on the wire iff its complete payload (all
slices concatenated) is valid UTF-8, and a received text message or close reason is accepted iff its
complete reassembled and inflated payload is valid UTF-8.  Code points split across fragments or
slices are fine, invalid text is answered with status 1007 and never delivered, binary messages are
never checked, and with checking off nothing is rejected on encoding grounds.

This file: the gate functions (`internal/io.go`).  The read-side clauses (after reassembly and
inflation, status 1007, never delivered) are in `Gws/Props/C16Read.lean`; the close-reason clause is
`Close.emitClose_spec` (C06).  `utf8.Valid` = RFC 3629 is assumed (trusted base) and compared
exhaustively on every string of ≤ 3 bytes on every run.
-/

namespace Utf8

/-- **Write gate, slice list.** With checking on, a Text (or Close) payload given as any list of
slices passes iff the concatenation of the slices is valid UTF-8 — however a code point is split. -/
theorem write_gate (opcode : Nat) (ps : List Bytes) (hop : opcode = 1 ∨ opcode = 8) :
    buffersCheck true opcode ps = Spec.Utf8.valid ps.flatten := by
  unfold buffersCheck
  rcases hop with rfl | rfl <;> simp [validJoined_eq]

/-- **Write gate, single slice.** -/
theorem write_gate_bytes (opcode : Nat) (p : Bytes) (hop : opcode = 1 ∨ opcode = 8) :
    bytesCheck true opcode p = Spec.Utf8.valid p := by
  unfold bytesCheck checkEncoding
  rcases hop with rfl | rfl <;> simp

/-- **Splitting is irrelevant.** Any two ways of cutting the same payload into slices get the same
verdict. -/
theorem split_invariant (en : Bool) (opcode : Nat) (ps qs : List Bytes) (h : ps.flatten = qs.flatten) :
    buffersCheck en opcode ps = buffersCheck en opcode qs := by
  unfold buffersCheck
  rw [validJoined_eq, validJoined_eq, h]

/-- **Binary and control payloads are never checked.** -/
theorem binary_never_checked (en : Bool) (opcode : Nat) (ps : List Bytes) (h1 : opcode ≠ 1) (h8 : opcode ≠ 8) :
    buffersCheck en opcode ps = true ∧ ∀ p, bytesCheck en opcode p = true := by
  unfold buffersCheck bytesCheck checkEncoding
  simp [h1, h8]

/-- **Checking off: nothing is rejected on encoding grounds.** -/
theorem check_off_never_rejects (opcode : Nat) (ps : List Bytes) :
    buffersCheck false opcode ps = true ∧ ∀ p, bytesCheck false opcode p = true := by
  unfold buffersCheck bytesCheck checkEncoding
  simp

-- non-vacuity: "中" = e4 b8 ad split inside the code point is accepted; a lone continuation byte is not
example : buffersCheck true 1 [[0xe4, 0xb8], [0xad]] = true := by
  rw [write_gate 1 _ (Or.inl rfl)]; simp [Spec.Utf8.valid, Spec.Utf8.isCont]
example : buffersCheck true 1 [[0x61], [0x80]] = false := by
  rw [write_gate 1 _ (Or.inl rfl)]; simp [Spec.Utf8.valid]

end Utf8
