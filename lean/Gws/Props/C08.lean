import Gws.Lemmas.Conc.ConnProps
/-!
# C08 — concurrent writers: whole frames, messages not interleaved, success ⇔ message on the wire

Statement: for any interleaving of `WriteMessage`/`Writev`/`WriteFile`/broadcast calls, closes and
the read loop, the bytes handed to the transport are a sequence of whole frames; the frames of one
`WriteFile` are adjacent and in order with FIN exactly on the last; a write call returns `nil` iff
its complete message is on the wire exactly once; a call rejected for its content wrote nothing.

Model: `Conc.step` (Gws/Model/Conc/Conn.lean).  The wire is *by construction* a list of whole frames
(`State.wire : List Frame`; one `Write` per frame is part of the trusted base); what can break
"whole frames" is a transport write that fails half-way, recorded in `partialAfter`.  Theorems hold
for every schedule and — except `wire_is_whole_frames` — every fault pattern.  Invariant: `DInv`
(Gws/Lemmas/Conc/ConnData.lean).

Notation: `msgFrames a N i` = `[data a 0 (1 == N), …, data a (i-1) (i == N)]`, the first `i` frames
of the `N`-frame message of actor `a` (FIN exactly on index `N-1`); `Kind.frames` = `N`
(`write`/`bcast`: 1, `file n`: n+1); `NoData a w`: no data frame of `a` in `w`;
`isDataOf a f`: `f` is a data frame of `a`.

Not covered here (assumed, see DESIGN): the *content* of each frame (C01/C02/C05), and the
compression-window data race of the broadcast path (a known finding, outside this model).
-/

namespace Conc

/-- **The wire is a sequence of whole frames.**  `State.wire` is a list of frames by construction
(each accepted transport write appends exactly one); the only way a partial frame can reach the
transport is a failed write, which the model records in `partialAfter`.  Without transport faults
(`NoFault xs`) no reachable state has a partial frame. -/
theorem wire_is_whole_frames {xs : List Action} {s : State} (h : run {} xs = some s) (hn : NoFault xs) :
    s.partialAfter = false :=
  no_partial_of_noFault h hn

/-- With faults: `partialAfter` becomes set only by a transport write that the environment fails
(`act a true` of a lock holder on an open transport), and that action adds no frame to the wire. -/
theorem partial_only_by_failed_write {s s' : State} {x : Action} (h : step s x = some s') :
    s'.partialAfter = s.partialAfter ∨
      ∃ a, x = .act a true ∧ s.tclosed = false ∧ (s.pc a).holdsLock = true ∧ s'.wire = s.wire :=
  partial_step h

/-- **The frames of one message are contiguous and in order.**  For every actor `a` spawned with kind
`k` (in particular `k = file n`, a `WriteFile` of `n+1` frames) the wire is
`pre ++ msgFrames a k.frames i ++ post` for some progress `i ≤ k.frames`: the data frames of `a` are
exactly frames `0 … i-1` of its message, adjacent, in order, FIN exactly on frame `k.frames - 1`,
and no other data frame of `a` is anywhere else on the wire — for every interleaving and fault. -/
theorem file_frames_contiguous {xs : List Action} {s : State} (h : run {} xs = some s) {a : Nat} {k : Kind}
    (hk : Action.spawn a k ∈ xs) :
    ∃ i pre post, i ≤ k.frames ∧ s.wire = pre ++ msgFrames a k.frames i ++ post ∧
      NoData a pre ∧ NoData a post := by
  obtain ⟨i, pre, post, hw, h1, h2, h3⟩ := dclause_of_spawned h hk
  exact ⟨i, pre, post, h3.1, hw, h1, h2⟩

/-- Data frames on the wire belong to spawned write calls only (never to a closer or the read loop). -/
theorem data_frames_owned_by_writers {xs : List Action} {s : State} (h : run {} xs = some s) {a j : Nat}
    {l : Bool} (hf : Frame.data a j l ∈ s.wire) : ∃ k, Action.spawn a k ∈ xs ∧ k.isWriter = true :=
  data_owner_is_writer h hf

/-- **Success iff the message is on the wire once.**  For a finished write call (`write r`, `file n`
or `bcast`; `done r`): it returned `nil` iff the data frames of `a` on the wire are exactly its
complete message, each frame once, in order; and if it returned an error, none of its FIN frames is
on the wire (the peer never sees the message completed). -/
theorem success_iff_one_message {xs : List Action} {s : State} (h : run {} xs = some s) {a : Nat} {k : Kind}
    (hk : Action.spawn a k ∈ xs) (hw : k.isWriter = true) {r : Ret} (hd : s.pc a = .done r) :
    (r = .ok ↔ s.wire.filter (isDataOf a) = msgFrames a k.frames k.frames) ∧
    (r ≠ .ok → ∀ j, Frame.data a j true ∉ s.wire) :=
  success_iff h hk hw hd

/-- **A call rejected for its content wrote no bytes**: after `ErrTextEncoding`/`ErrMessageTooLarge`
(`done rejected`) no data frame of the call is on the wire.  (The call does run `emitError`, so a
Close frame may be.) -/
theorem content_rejected_no_bytes {s : State} (h : Reachable s) {a : Nat} (hd : s.pc a = .done .rejected) :
    ∀ f ∈ s.wire, isDataOf a f = false := by
  obtain ⟨xs, hr⟩ := h
  exact rejected_no_data hr hd

/-- Witness that the previous theorem is about *data* frames only: the rejected call runs
`emitError`, may win the CAS, and then a Close frame owned by it is on the wire. -/
theorem rejected_call_may_send_close_frame :
    ∃ s, Reachable s ∧ s.pc 1 = .done .rejected ∧ Frame.close 1 ∈ s.wire :=
  ⟨(run {} [.spawn 1 (.write true), .act 1 false, .act 1 false, .act 1 false, .act 1 false, .act 1 false]).get
      (by decide),
    ⟨[.spawn 1 (.write true), .act 1 false, .act 1 false, .act 1 false, .act 1 false, .act 1 false], by decide⟩,
    by decide, by decide⟩

/-! ### non-vacuity -/

/-- a `WriteFile` of 3 frames racing with a single-frame writer: the writer's frame is not in between -/
example : (run {} [.spawn 1 (.file 2), .spawn 2 (.write false), .act 1 false, .act 1 false, .act 1 false,
    .act 1 false, .act 2 false, .act 2 false]).map (fun s => (s.wire, s.pc 1, s.pc 2)) =
    some ([.data 1 0 false, .data 1 1 false, .data 1 2 true, .data 2 0 true], .done .ok, .done .ok) := by decide

/-- a fault in the second frame of a `WriteFile`: error returned, no FIN frame, a partial frame possible -/
example : (run {} [.spawn 1 (.file 2), .act 1 false, .act 1 false, .act 1 true]).map
    (fun s => (s.wire, s.partialAfter, s.pc 1)) =
    some ([.data 1 0 false], true, .cCas (.ret .ioErr)) := by decide

/-- a rejected write: no data frame, but the close sequence it triggers writes a Close frame -/
example : (run {} [.spawn 1 (.write true), .act 1 false, .act 1 false, .act 1 false, .act 1 false,
    .act 1 false]).map (fun s => (s.wire, s.pc 1)) = some ([.close 1], .done .rejected) := by decide

example : msgFrames 7 3 3 = [.data 7 0 false, .data 7 1 false, .data 7 2 true] := by decide

end Conc
