import Gws.Props.TransReadLoop
import Gws.Props.C05
import Gws.Props.TransFW
/-!
# A clause of C05 stated of the translated Go code: a streamed message (`WriteFile`, no compression)

No model function occurs in the statement: the translated `splitReader` drives the translated callback of `doWriteFile`, which
calls the translated `genFrame`; what they write is decoded by the independent RFC 6455 frame decoder (`Spec.decodeFrames`).
For every reader script that ends with EOF (any chunking, zero-length reads, EOF with the last data or separately) whose chunks
fit the write limit, on an open connection: the call returns no error, and the bytes written decode as ONE message —
`opcode, 0, 0, …`, FIN exactly on the last frame, RSV1 nowhere — of well-formed frames, one per `Read`, whose unmasked payloads
are the reader's chunks in order.
-/
namespace TransProps
open TransFW Writer TransEquiv TransEquiv.RL

theorem streamed_message_frames (cfg : Cfg) (codec : Codec) (opcode : UInt8) (script : ReaderScript) (maskNums : Nat → UInt32)
    (hop : opcode.toNat < 16) (hmax : cfg.writeMax < 2 ^ 63) (hpd : cfg.pdEnabled = false)
    (heof : (readChunks script).2 = true)
    (hfit : ∀ c ∈ (readChunks script).1, c.length ≤ cfg.writeMax)
    (hlen : ∀ rd ∈ script, rd.1.length < 2 ^ 62) :
    ∃ frames : List Bytes,
      Conn_splitReader
          (fun (st : List Bytes) (index : Int) (eof : Bool) (p : Bytes) =>
            match Trans.Conn_doWriteFile_frame (c_pd_Enabled := cfg.pdEnabled) (c_genFrame := genFrameT cfg (maskNums index.toNat))
                (closed := false) (eof := eof) (index := index) (opcode := opcode) (p := p) with
            | .ok frame => (st ++ [frame], none)
            | .error e => (st, e))
          [] script = (frames, none) ∧
      ∃ fs, Spec.decodeFrames frames.flatten = some fs ∧ fs ≠ [] ∧
        Spec.messageShape opcode.toNat false (fs.map (·.1)) ∧
        (∀ f ∈ fs, Spec.wellFormedSent (!cfg.isServer) f.1) ∧
        fs.map (·.2) = (readChunks script).1 := by
  have hT := uncompressed_WriteFile_translated cfg codec false opcode script maskNums hlen
  have hM := writeFile_frames_plain cfg codec {} opcode.toNat script [] (fun i => goBytesU32LE (maskNums i))
    hop (fun i => by simp [goBytesU32LE]) rfl hmax hpd heof hfit
  generalize hr : Writer.splitReader (fun index eof p => fileFrame cfg codec false opcode.toNat index eof p
    (goBytesU32LE (maskNums index))) script 0 = r at hT
  have hw : writeFile cfg codec {} opcode.toNat script [] (fun i => goBytesU32LE (maskNums i))
      = emitError cfg codec { wire := r.1.flatten, err := r.2, st := {} } (goBytesU32LE (maskNums r.1.length)) := by
    simp [writeFile, writeFileFrames, hpd, hr]
  rw [hw] at hM
  obtain ⟨r1, r2⟩ := r
  cases r2 with
  | some e =>
    have := hM.1
    simp only [emitError] at this
    split at this <;> simp at this
  | none =>
    simp only [emitError] at hM
    exact ⟨r1, hT, hM.2.2⟩

/-! non-vacuity: the hypotheses hold of a concrete configuration and reader script -/
example :
    let cfg : Cfg := { isServer := true, pdEnabled := false, threshold := 0, bits := 15, writeMax := 1024, checkUtf8 := false }
    let script : ReaderScript := [([1, 2], false), ([3], true)]
    let opcode : UInt8 := 2
    opcode.toNat < 16 ∧ cfg.writeMax < 2 ^ 63 ∧ cfg.pdEnabled = false ∧ (readChunks script).2 = true ∧
      (∀ c ∈ (readChunks script).1, c.length ≤ cfg.writeMax) ∧ (∀ rd ∈ script, rd.1.length < 2 ^ 62) := by
  simp [readChunks]

/-! ### the aggregator only ever hands the callback bytes it was given: two callbacks that agree on data no longer than
everything written behave alike under `compressT` -/

/-- the number of bytes an aggregator holds -/
private def held (w : FlateWriter) : Nat := (w.buffers.map (·.data.length)).sum

private theorem held_write (w : FlateWriter) (p : Bytes) : held (w.write p) = held w + p.length := by
  obtain ⟨idx, bufs⟩ := w
  unfold FlateWriter.write held
  rcases List.eq_nil_or_concat bufs with h | ⟨init, t, h⟩
  · subst h
    simp only [List.length_nil, if_true, List.nil_append, List.getLast?_singleton, List.length_nil]
    split <;> simp
  · rw [List.concat_eq_append] at h
    subst h
    have hl' : ¬ ((init ++ [t]).length = 0) := by simp
    simp only [hl', if_false, List.getLast?_concat, List.dropLast_concat]
    split <;> simp <;> omega

private theorem feedT_congr (F G : List Bytes → Nat → Bool → Bytes → List Bytes × Option GoErr) (B : Nat)
    (hFG : ∀ st i e p, p.length ≤ B → F st i e p = G st i e p) :
    ∀ (outs : List Bytes) (st : List Bytes) (w : FlateWriter), held w + outs.flatten.length ≤ B →
      FW.feedT F st w outs = FW.feedT G st w outs ∧
        ∀ w' st' e, FW.feedT G st w outs = some (w', st', e) → held w' ≤ B := by
  intro outs
  induction outs with
  | nil =>
    intro st w hB
    refine ⟨rfl, ?_⟩
    intro w' st' e h
    simp only [FW.feedT, Option.some.injEq, Prod.mk.injEq] at h
    rw [← h.1]
    simpa using hB
  | cons p ps ih =>
    intro st w hB
    have hw := held_write w p
    simp only [List.flatten_cons, List.length_append] at hB
    rw [FW.feedT, FW.feedT, FW.Write_eq, FW.Write_eq]
    simp only []
    cases hs : (w.write p).shouldCall
    · simpa using ih st (w.write p) (by omega)
    · cases hb : (w.write p).buffers with
      | nil => simp
      | cons b0 rest =>
        have hh : held (w.write p) = b0.data.length + held ⟨(w.write p).index + 1, rest⟩ := by
          simp [held, hb]
        simp only [↓reduceIte]
        rw [hFG st (w.write p).index false b0.data (by omega)]
        cases he : (G st (w.write p).index false b0.data).2 with
        | some e =>
          refine ⟨rfl, ?_⟩
          intro w' st' e' h
          simp only [Option.some.injEq, Prod.mk.injEq] at h
          rw [← h.1]
          omega
        | none => exact ih _ _ (by omega)

private theorem compressT_congr (F G : List Bytes → Nat → Bool → Bytes → List Bytes × Option GoErr) (sawEof : Bool) (outs : List Bytes)
    (hFG : ∀ st i e p, p.length ≤ outs.flatten.length → F st i e p = G st i e p) :
    FW.compressT F [] sawEof outs = FW.compressT G [] sawEof outs := by
  obtain ⟨h1, h2⟩ := feedT_congr F G outs.flatten.length hFG outs [] {} (by simp [held])
  unfold FW.compressT
  rw [h1]
  cases hf : FW.feedT G [] {} outs with
  | none => rfl
  | some r =>
    obtain ⟨w', st', e⟩ := r
    cases e with
    | some e => rfl
    | none =>
      simp only []
      cases sawEof with
      | false => rfl
      | true =>
        simp only [Bool.not_true, Bool.false_eq_true, if_false]
        rw [FW.Flush_eq, FW.Flush_eq]
        have hB := h2 w' st' none hf
        cases hb : w'.buffers with
        | nil => rfl
        | cons b0 rest =>
          have hl : (stripTail (b0.data ++ (rest.map (·.data)).flatten)).length ≤ outs.flatten.length := by
            refine Nat.le_trans (stripTail_length_le _) ?_
            have : (b0.data ++ (rest.map (·.data)).flatten).length = held w' := by
              simp [held, hb, List.length_flatten, Function.comp_def]
            omega
          simp only []
          rw [hFG _ _ _ _ hl]

/-- the compressed path: the calling sequence of `bigDeflater.Compress` over the translated aggregator (`TransEquiv.FW.compressT`:
the compressor's `Write` calls `outs` — any cutting of any output —, then `Flush`), with the translated callback and the
translated `genFrame`: no error, and the bytes written decode as ONE message — `opcode, 0, 0, …`, FIN exactly on the last frame,
RSV1 exactly on the first — of well-formed frames whose concatenated payloads are the compressor's output minus exactly one
trailing `00 00 ff ff` (the hold-back never lets part of the trailer escape in an earlier frame). -/
theorem streamed_compressed_message_frames (cfg : Cfg) (codec : Codec) (opcode : UInt8) (outs : List Bytes) (maskNums : Nat → UInt32)
    (hop : opcode.toNat < 16) (hmax : cfg.writeMax < 2 ^ 63) (hpd : cfg.pdEnabled = true)
    (hne : outs ≠ []) (hfit : outs.flatten.length ≤ cfg.writeMax) (hlen : outs.flatten.length < 2 ^ 62) :
    ∃ frames : List Bytes,
      TransEquiv.FW.compressT
          (fun (st : List Bytes) (index : Nat) (eof : Bool) (p : Bytes) =>
            match Trans.Conn_doWriteFile_frame (c_pd_Enabled := cfg.pdEnabled) (c_genFrame := genFrameT cfg (maskNums index))
                (closed := false) (eof := eof) (index := (index : Int)) (opcode := opcode) (p := p) with
            | .ok frame => (st ++ [frame], none)
            | .error e => (st, e))
          [] true outs = some (frames, none) ∧
      ∃ fs, Spec.decodeFrames frames.flatten = some fs ∧ fs ≠ [] ∧
        Spec.messageShape opcode.toNat true (fs.map (·.1)) ∧
        (∀ f ∈ fs, Spec.wellFormedSent (!cfg.isServer) f.1) ∧
        (fs.map (·.2)).flatten = stripTail outs.flatten := by
  have hC := compressT_congr
    (fun (st : List Bytes) (index : Nat) (eof : Bool) (p : Bytes) =>
      match Trans.Conn_doWriteFile_frame (c_pd_Enabled := cfg.pdEnabled) (c_genFrame := genFrameT cfg (maskNums index))
          (closed := false) (eof := eof) (index := (index : Int)) (opcode := opcode) (p := p) with
      | .ok frame => (st ++ [frame], none)
      | .error e => (st, e))
    (FW.cbOf (fun index eof p => fileFrame cfg codec false opcode.toNat index eof p (goBytesU32LE (maskNums index))))
    true outs (by
      intro st k eof p hp
      simp only [FW.cbOf]
      rcases cb_translated_cases cfg codec false opcode (maskNums k) k eof p (by omega) with ⟨b, h1, h2⟩ | ⟨e, h1, h2⟩ <;>
        rw [h1, h2])
  have hT := hC.trans (FW.compressFile_translated _ true outs hne)
  have hM := writeFile_frames_compressed cfg codec {} opcode.toNat [([], true)] outs (fun i => goBytesU32LE (maskNums i))
    hop (fun i => by simp [goBytesU32LE]) rfl hmax hpd (by simp [readChunks]) hne hfit
  generalize hr : Writer.compressFile (fun index eof p => fileFrame cfg codec false opcode.toNat index eof p
    (goBytesU32LE (maskNums index))) true outs = r at hT
  have hw : writeFile cfg codec {} opcode.toNat [([], true)] outs (fun i => goBytesU32LE (maskNums i))
      = emitError cfg codec { wire := r.1.flatten, err := r.2, st := { ({} : Conn) with cps := Win.write ({} : Conn).cps [] } }
          (goBytesU32LE (maskNums r.1.length)) := by
    simp [writeFile, writeFileFrames, hpd, hr, readChunks]
  rw [hw] at hM
  obtain ⟨r1, r2⟩ := r
  cases r2 with
  | some e =>
    have := hM.1
    simp only [emitError] at this
    split at this <;> simp at this
  | none =>
    simp only [emitError] at hM
    exact ⟨r1, hT, hM.2.2.2⟩

end TransProps
