import Gws.Props.TransReadLoop
import Gws.Props.C05
/-!
# A clause of C05 stated of the translated Go code: a streamed message (`WriteFile`, no compression)

No model function occurs in the statement: the translated `splitReader` drives the translated callback of `doWriteFile`, which
calls the translated `genFrame`; what they write is decoded by the independent RFC 6455 frame decoder (`Spec.decodeFrames`).
For every reader script that ends with EOF (any chunking, zero-length reads, EOF with the last data or separately) whose chunks
fit the write limit, on an open connection: the call returns no error, and the bytes written decode as ONE message —
`opcode, 0, 0, …`, FIN exactly on the last frame, RSV1 nowhere — of well-formed frames, one per `Read`, whose unmasked payloads
are the reader's chunks in order.
-/
namespace TransProps
open TransFW Writer TransEquiv TransEquiv.RL

theorem streamed_message_frames (cfg : Cfg) (codec : Codec) (opcode : UInt8) (script : ReaderScript) (maskNums : Nat → UInt32)
    (hop : opcode.toNat < 16) (hmax : cfg.writeMax < 2 ^ 63) (hpd : cfg.pdEnabled = false)
    (heof : (readChunks script).2 = true)
    (hfit : ∀ c ∈ (readChunks script).1, c.length ≤ cfg.writeMax)
    (hlen : ∀ rd ∈ script, rd.1.length < 2 ^ 62) :
    ∃ frames : List Bytes,
      Conn_splitReader
          (fun (st : List Bytes) (index : Int) (eof : Bool) (p : Bytes) =>
            match Trans.Conn_doWriteFile_frame (c_pd_Enabled := cfg.pdEnabled) (c_genFrame := genFrameT cfg (maskNums index.toNat))
                (closed := false) (eof := eof) (index := index) (opcode := opcode) (p := p) with
            | .ok frame => (st ++ [frame], none)
            | .error e => (st, e))
          [] script = (frames, none) ∧
      ∃ fs, Spec.decodeFrames frames.flatten = some fs ∧ fs ≠ [] ∧
        Spec.messageShape opcode.toNat false (fs.map (·.1)) ∧
        (∀ f ∈ fs, Spec.wellFormedSent (!cfg.isServer) f.1) ∧
        fs.map (·.2) = (readChunks script).1 := by
  have hT := uncompressed_WriteFile_translated cfg codec false opcode script maskNums hlen
  have hM := writeFile_frames_plain cfg codec {} opcode.toNat script [] (fun i => goBytesU32LE (maskNums i))
    hop (fun i => by simp [goBytesU32LE]) rfl hmax hpd heof hfit
  generalize hr : Writer.splitReader (fun index eof p => fileFrame cfg codec false opcode.toNat index eof p
    (goBytesU32LE (maskNums index))) script 0 = r at hT
  have hw : writeFile cfg codec {} opcode.toNat script [] (fun i => goBytesU32LE (maskNums i))
      = emitError cfg codec { wire := r.1.flatten, err := r.2, st := {} } (goBytesU32LE (maskNums r.1.length)) := by
    simp [writeFile, writeFileFrames, hpd, hr]
  rw [hw] at hM
  obtain ⟨r1, r2⟩ := r
  cases r2 with
  | some e =>
    have := hM.1
    simp only [emitError] at this
    split at this <;> simp at this
  | none =>
    simp only [emitError] at hM
    exact ⟨r1, hT, hM.2.2⟩

/-! non-vacuity: the hypotheses hold of a concrete configuration and reader script -/
example :
    let cfg : Cfg := { isServer := true, pdEnabled := false, threshold := 0, bits := 15, writeMax := 1024, checkUtf8 := false }
    let script : ReaderScript := [([1, 2], false), ([3], true)]
    let opcode : UInt8 := 2
    opcode.toNat < 16 ∧ cfg.writeMax < 2 ^ 63 ∧ cfg.pdEnabled = false ∧ (readChunks script).2 = true ∧
      (∀ c ∈ (readChunks script).1, c.length ≤ cfg.writeMax) ∧ (∀ rd ∈ script, rd.1.length < 2 ^ 62) := by
  simp [readChunks]

end TransProps
