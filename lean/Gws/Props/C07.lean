import Gws.Lemmas.Conc.ConnProps
/-!
# C07 — callback lifecycle: OnOpen first, one callback per message in order, OnClose once and last

Statement: the event handler sees `OnOpen` first, then one callback per complete inbound message in
the order of arrival, then `OnClose` exactly once, and nothing after it — whatever writers and
closers do concurrently.

Model: the `reader` actor of `Conc.step` (Gws/Model/Conc/Conn.lean); its script is the sequence of
inbound items (`.msg` = a complete message, `.peerClose`, `.readErr`).  A callback is one atomic
action of the single read loop, so callbacks are sequential by construction; `ParallelEnabled`
(callbacks on other goroutines) and panics inside handlers (`Recovery`) are NOT in this model — for
those this property is tested, not proved.  `Sched1R xs`: the schedule spawns at most one reader
(one `ReadLoop` per connection, as the API requires).  Invariant: `RInv` (Gws/Lemmas/Conc/ConnCb.lean).
-/

namespace Conc

/-- **Shape of the callback log.**  It is empty, or `opened`, then only `message`s, then nothing or
exactly one `closedCb`: open first, close at most once and last, everything else strictly between. -/
theorem callback_shape {xs : List Action} {s : State} (h : run {} xs = some s) (h1 : Sched1R xs) :
    s.cbs = [] ∨ ∃ m tail, s.cbs = .opened :: List.replicate m .message ++ tail ∧
      (tail = [] ∨ ∃ c, tail = [.closedCb c]) :=
  cbShape_run h h1

/-- `OnOpen` and `OnClose` are each logged at most once. -/
theorem open_close_at_most_once {xs : List Action} {s : State} (h : run {} xs = some s) (h1 : Sched1R xs) :
    (s.cbs.filter (· == .opened)).length ≤ 1 ∧ (s.cbs.filter Cb.isClosed).length ≤ 1 :=
  ⟨(cbShape_run h h1).closed_once.2.1, (cbShape_run h h1).closed_once.1⟩

/-- **A finished read loop has closed exactly once.**  When the reader (script `sc`) has returned,
the log is `opened`, one `message` per `.msg` item of the maximal `.msg`-prefix of the script (the
loop stops at the first item that is not a message, or at end of input), and one `closedCb`. -/
theorem reader_done_closed_once {xs : List Action} {s : State} (h : run {} xs = some s) (h1 : Sched1R xs)
    {a : Nat} {sc : List Inbound} (hk : Action.spawn a (.reader sc) ∈ xs) {r : Ret} (hd : s.pc a = .done r) :
    ∃ m rest c, sc = List.replicate m .msg ++ rest ∧ rest.head? ≠ some .msg ∧
      s.cbs = .opened :: List.replicate m .message ++ [.closedCb c] := by
  have := (rinv_run h h1).reader a sc (kindMap_of_mem h a _ hk)
  rw [hd] at this
  exact this

/-- **One callback per consumed message, in order.**  While the reader is in its loop at `rLoop sc'`,
the script splits as `m` consumed `.msg` items followed by the unread rest `sc'`, and the log is
`opened` followed by exactly `m` `message` callbacks: the n-th callback belongs to the n-th message,
and a message is delivered before the next one is read. -/
theorem messages_in_wire_order {xs : List Action} {s : State} (h : run {} xs = some s) (h1 : Sched1R xs)
    {a : Nat} {sc sc' : List Inbound} (hk : Action.spawn a (.reader sc) ∈ xs) (hl : s.pc a = .rLoop sc') :
    ∃ m, sc = List.replicate m .msg ++ sc' ∧ s.cbs = .opened :: List.replicate m .message := by
  have := (rinv_run h h1).reader a sc (kindMap_of_mem h a _ hk)
  rw [hl] at this
  exact this

/-! ### non-vacuity -/

/-- two messages then a read error, with a concurrent writer: o, m, m, x -/
example : (run {} [.spawn 1 (.reader [.msg, .msg, .readErr]), .spawn 2 (.write false), .act 1 false, .act 2 false,
    .act 1 false, .act 1 false, .act 2 false, .act 1 false, .act 1 false, .act 1 false, .act 1 false, .act 1 false,
    .act 1 false]).map (fun s => (s.cbs, s.pc 1)) =
    some ([.opened, .message, .message, .closedCb true], .done .ok) := by decide

example : Sched1R [.spawn 1 (.reader [.msg, .msg, .readErr]), .spawn 2 (.write false), .act 1 false] := by
  intro a b sa sb ha hb
  simp at ha hb
  omega

end Conc
