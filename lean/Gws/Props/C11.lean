import Gws.Lemmas.Handshake
/-!
# C11 — client handshake: fresh key, strict validation of the 101 response

Statement (properties.jsonl): the client sends a well-formed upgrade request with a fresh random
16-byte base64 key and the configured headers, and returns a connection only if the response is 101
with Upgrade: websocket, a Connection upgrade token and a Sec-WebSocket-Accept matching its key
(and, when it requested subprotocols, one of them selected).  Otherwise it returns an error and
closes the transport, within the handshake timeout even if the server never answers.  Frames the
server sends directly behind its 101 response, even in the same segment, are not lost.

The theorems are about `Hs.clientHandshake` / `Hs.clientOutcome` / `Hs.requestHeader`
(Model/Handshake.lean); the input is the response as `http.ReadResponse` parsed it, `vals` is
`http.Header.Values` (all lines of that name), `get` is `http.Header.Get` (the first one), `key` is
the `Sec-WebSocket-Key` this connector sent.  "A Connection upgrade token" is `HasToken`: an element
of the comma-separated, trimmed values of ANY `Connection` line equal to `upgrade` up to ASCII
letter case.  Remaining latitude, as on the server side (C10): `Upgrade` is read from its first line,
as a whole, and compared by Unicode simple case folding (`Hs.foldEq`; `websocKet` with U+212A passes,
see `Hs.nonascii_fold_accepted`); the two `Sec-WebSocket-Protocol` values (configured request header,
response) are read from their first line only.

Clauses covered by the tie only (suite `hs-client`), because they are facts about the run-time
environment and not about the decision logic — no theorem here pretends otherwise:
* the key is fresh, random, and the base64 of 16 bytes (`hs-client keys N`: all distinct, all 16 bytes);
* the request bytes are well formed (written by net/http's `Request.Write`, observed through a real
  `http.ReadRequest` on the scripted server);
* the call returns within the handshake time-out even if the server never answers or stops in the
  middle of the response, and the transport is closed then;
* frames glued behind the 101 response (same write, or cut at arbitrary offsets) are all delivered
  by the subsequent `ReadLoop` (the buffered reader that parsed the response is the one the
  connection reads frames from).
-/

namespace Hs

open Sha1 (asc)

/-- **C11, decision.**  For every parsed response, key and option set: a connection is returned iff
the status is 101, some `Connection` line has `upgrade` (any ASCII letter case) among its
comma-separated elements, the (first) `Upgrade` value is `websocket` up to case folding,
`Sec-WebSocket-Accept` is EXACTLY base64(SHA-1(key ++ GUID)), and the client requested no
sub-protocol or one of those it requested is among the comma-separated elements of the response's
`Sec-WebSocket-Protocol`. -/
theorem client_accepts_iff (o : ClientOpt) (key : Str) (resp : Resp) :
    (clientOutcome o key resp).conn ≠ none ↔
      (resp.status = 101 ∧
       HasToken (vals resp.header kConnection) (asc "upgrade") ∧
       foldEq (get resp.header kUpgrade) (asc "websocket") = true ∧
       get resp.header kAccept = Base64.encode (Sha1.sha1 (key ++ asc Facts.magicNumber)) ∧
       (split (get o.requestHeader kProtocol) = [] ∨
        ∃ p, p ∈ split (get o.requestHeader kProtocol) ∧ p ∈ split (get resp.header kProtocol))) := by
  have hsub := subprotocolOk_iff (split (get o.requestHeader kProtocol)) (split (get resp.header kProtocol))
    (fun x hx => mem_split_ne_nil hx)
  unfold SubprotocolOk at hsub
  have hp := respChecksPass_iff key resp
  constructor
  · intro h
    unfold clientOutcome at h
    cases hc : clientHandshake o key resp with
    | error e => simp [hc] at h
    | ok sp =>
      obtain ⟨hpass, hsp, hs⟩ := (clientHandshake_ok_iff o key resp sp).1 hc
      subst hsp
      obtain ⟨h1, h2, h3, h4⟩ := hp.1 hpass
      exact ⟨h1, h2, h3, h4, hsub.2 hs⟩
  · rintro ⟨h1, h2, h3, h4, h5⟩
    have := (clientHandshake_ok_iff o key resp _).2 ⟨hp.2 ⟨h1, h2, h3, h4⟩, rfl, hsub.1 h5⟩
    simp [clientOutcome, this]

/-- **C11, refused.**  When no connection is returned, an error is returned and the transport is
closed; when one is returned, no error is returned and the transport is left open. -/
theorem client_reject_closes (o : ClientOpt) (key : Str) (resp : Resp) :
    ((clientOutcome o key resp).conn = none →
      (clientOutcome o key resp).closed = true ∧ (clientOutcome o key resp).err ≠ none) ∧
    ((clientOutcome o key resp).conn ≠ none →
      (clientOutcome o key resp).closed = false ∧ (clientOutcome o key resp).err = none) := by
  unfold clientOutcome
  cases clientHandshake o key resp <;> simp

/-- **C11, selected sub-protocol.**  The sub-protocol the returned connection exposes is the FIRST of
the requested ones that the response lists (and the empty string when none was requested). -/
theorem selected_subprotocol (o : ClientOpt) (key : Str) (resp : Resp) (sp : Str)
    (h : (clientOutcome o key resp).conn = some sp) :
    if split (get o.requestHeader kProtocol) = [] then sp = []
    else FirstCommon (split (get o.requestHeader kProtocol)) (split (get resp.header kProtocol)) sp := by
  unfold clientOutcome at h
  cases hc : clientHandshake o key resp with
  | error e => simp [hc] at h
  | ok sp' =>
    simp only [hc, Option.some.injEq] at h
    subst h
    obtain ⟨-, rfl, hs⟩ := (clientHandshake_ok_iff o key resp sp').1 hc
    split
    · rename_i hnil
      simp [hnil, intersectionElem]
    · rename_i hne
      rcases intersectionElem_spec (split (get o.requestHeader kProtocol)) (split (get resp.header kProtocol))
        (fun x hx => mem_split_ne_nil hx) with ⟨h0, -⟩ | ⟨-, hf⟩
      · rcases hs with hs | hs
        · exact absurd hs hne
        · exact absurd h0 hs
      · exact hf

/-- **C11, request header.**  Whatever the application configured, the header map of the request
holds exactly one value under each of `Connection`, `Upgrade`, `Sec-WebSocket-Version`,
`Sec-WebSocket-Key` — `Upgrade`, `websocket`, `13` and the key — and, when compression is enabled,
the generated offer under `Sec-WebSocket-Extensions`: same-named configured headers are overridden.
Every other configured header is carried unchanged. -/
theorem request_headers (o : ClientOpt) (key : Str) (ext : Option Str) :
    values (requestHeader o key ext) (canon kConnection) = [asc "Upgrade"] ∧
    values (requestHeader o key ext) (canon kUpgrade) = [asc "websocket"] ∧
    values (requestHeader o key ext) (canon kVersion) = [asc "13"] ∧
    values (requestHeader o key ext) (canon kKey) = [key] ∧
    (∀ v, ext = some v → values (requestHeader o key ext) (canon kExtensions) = [v]) ∧
    (∀ k, k ∉ [canon kConnection, canon kUpgrade, canon kVersion, canon kKey, canon kExtensions] →
      values (requestHeader o key ext) k = values o.requestHeader k) ∧
    (ext = none →
      values (requestHeader o key ext) (canon kExtensions) = values o.requestHeader (canon kExtensions)) := by
  have hCU : canon kConnection ≠ canon kUpgrade := by decide
  have hCV : canon kConnection ≠ canon kVersion := by decide
  have hCK : canon kConnection ≠ canon kKey := by decide
  have hCE : canon kConnection ≠ canon kExtensions := by decide
  have hUV : canon kUpgrade ≠ canon kVersion := by decide
  have hUK : canon kUpgrade ≠ canon kKey := by decide
  have hUE : canon kUpgrade ≠ canon kExtensions := by decide
  have hVK : canon kVersion ≠ canon kKey := by decide
  have hVE : canon kVersion ≠ canon kExtensions := by decide
  have hEK : canon kExtensions ≠ canon kKey := by decide
  cases ext with
  | none =>
    simp only [requestHeader]
    refine ⟨?_, ?_, ?_, ?_, ?_, ?_, ?_⟩
    · rw [values_set_other _ _ _ _ hCK, values_set_other _ _ _ _ hCV, values_set_other _ _ _ _ hCU,
        values_set_self]
    · rw [values_set_other _ _ _ _ hUK, values_set_other _ _ _ _ hUV, values_set_self]
    · rw [values_set_other _ _ _ _ hVK, values_set_self]
    · rw [values_set_self]
    · intro v hv; cases hv
    · intro k hk
      simp only [List.mem_cons, List.not_mem_nil, or_false, not_or] at hk
      rw [values_set_other _ _ _ _ hk.2.2.2.1, values_set_other _ _ _ _ hk.2.2.1,
        values_set_other _ _ _ _ hk.2.1, values_set_other _ _ _ _ hk.1]
    · intro _
      rw [values_set_other _ _ _ _ hEK, values_set_other _ _ _ _ hVE.symm,
        values_set_other _ _ _ _ hUE.symm, values_set_other _ _ _ _ hCE.symm]
  | some w =>
    simp only [requestHeader]
    refine ⟨?_, ?_, ?_, ?_, ?_, ?_, ?_⟩
    · rw [values_set_other _ _ _ _ hCK, values_set_other _ _ _ _ hCE, values_set_other _ _ _ _ hCV,
        values_set_other _ _ _ _ hCU, values_set_self]
    · rw [values_set_other _ _ _ _ hUK, values_set_other _ _ _ _ hUE, values_set_other _ _ _ _ hUV,
        values_set_self]
    · rw [values_set_other _ _ _ _ hVK, values_set_other _ _ _ _ hVE, values_set_self]
    · rw [values_set_self]
    · intro v hv
      cases hv
      rw [values_set_other _ _ _ _ hEK, values_set_self]
    · intro k hk
      simp only [List.mem_cons, List.not_mem_nil, or_false, not_or] at hk
      rw [values_set_other _ _ _ _ hk.2.2.2.1, values_set_other _ _ _ _ hk.2.2.2.2,
        values_set_other _ _ _ _ hk.2.2.1, values_set_other _ _ _ _ hk.2.1,
        values_set_other _ _ _ _ hk.1]
    · intro h; cases h

-- non-vacuity: the RFC 6455 sample exchange is accepted, each check can fail, selection follows
-- the client's order of preference; the token may sit on a later line, in any case, between blanks;
-- letters around it do not make a token
example : (clientOutcome ⟨[]⟩ (asc "dGhlIHNhbXBsZSBub25jZQ==")
      (sampleResponse [asc "keep-alive", asc "x ,\tUPGRADE "] (asc "s3pPLMBiTxaQ9kYGzzhZRbK+xOo=") [])).conn = some [] := by
  decide +kernel
example : clientOutcome ⟨[]⟩ (asc "dGhlIHNhbXBsZSBub25jZQ==")
      (sampleResponse [asc "upgradex", asc "no-upgrade", asc "keep-alive, upgrades"] (asc "s3pPLMBiTxaQ9kYGzzhZRbK+xOo=") [])
    = { conn := none, closed := true, err := some .connection } := by decide +kernel
example : clientOutcome ⟨[(canon kProtocol, [asc "chat, mqtt"])]⟩ (asc "dGhlIHNhbXBsZSBub25jZQ==")
      (sampleResponse [asc "upgrade"] (asc "s3pPLMBiTxaQ9kYGzzhZRbK+xOo=") [asc "mqtt,chat"])
    = { conn := some (asc "chat"), closed := false, err := none } := by decide +kernel
example : clientOutcome ⟨[]⟩ (asc "dGhlIHNhbXBsZSBub25jZQ==")
      { sampleResponse [asc "upgrade"] (asc "s3pPLMBiTxaQ9kYGzzhZRbK+xOo=") [] with status := 200 }
    = { conn := none, closed := true, err := some .status } := by decide +kernel
example : clientOutcome ⟨[]⟩ (asc "dGhlIHNhbXBsZSBub25jZQ==") (sampleResponse [asc "upgrade"] (asc "s3pPLMBiTxaQ9kYGzzhZRbK+xOo") [])
    = { conn := none, closed := true, err := some .accept } := by decide +kernel
example : clientOutcome ⟨[]⟩ (asc "dGhlIHNhbXBsZSBub25jZQ==")
      { status := 101, header := [(canon kConnection, [asc "close"])] }
    = { conn := none, closed := true, err := some .connection } := by decide +kernel
example : clientOutcome ⟨[]⟩ (asc "dGhlIHNhbXBsZSBub25jZQ==")
      { status := 101, header := [(canon kConnection, [asc "Upgrade"]), (canon kUpgrade, [asc "h2c"])] }
    = { conn := none, closed := true, err := some .upgrade } := by decide +kernel
example : clientOutcome ⟨[(canon kProtocol, [asc "chat"])]⟩ (asc "dGhlIHNhbXBsZSBub25jZQ==")
      (sampleResponse [asc "upgrade"] (asc "s3pPLMBiTxaQ9kYGzzhZRbK+xOo=") [asc "mqtt"])
    = { conn := none, closed := true, err := some .subprotocol } := by decide +kernel
example : (requestHeader ⟨[(canon kConnection, [asc "close"]), (asc "X-Token", [asc "t"])]⟩ (asc "K") none)
    = [(asc "X-Token", [asc "t"]), (canon kConnection, [asc "Upgrade"]), (canon kUpgrade, [asc "websocket"]),
       (canon kVersion, [asc "13"]), (canon kKey, [asc "K"])] := by decide +kernel

end Hs
