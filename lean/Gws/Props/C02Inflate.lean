import Gws.Lemmas.Inflate
/-!
# C02 (receiver half) — a window-limited inflater is as good as an unbounded-history one

The C02 tie inflates every compressed frame gws emits with the executable RFC 1951 inflater
`Spec.Inflate.runList` against the *unbounded* RFC 7692 history of the direction and records the largest
back-reference distance `d` the stream used.  A real receiver keeps only the last `2^bits` bytes of
that history.  The theorems below close that gap: whenever `d ≤ W`, inflating against the last `W`
bytes of the history (or against those bytes preceded by anything at all) succeeds with exactly the
same output and the same `d`.  Together with the bookkeeping theorem of `Gws/Props/C02.lean` (both
windows are `lastN (2^bits) hist`) this is the receiver half of "the context stays in sync".

Proof: `Gws/Lemmas/Inflate.lean` (simulation between the two runs; `Gws/Spec/Inflate.lean` is unchanged).
-/

namespace Spec.Inflate

theorem runList_eq_some {hist data out : Bytes} {d : Nat} :
    runList hist data = some (out, d) ↔
      ∃ o : Array UInt8, run hist.toArray data.toArray = some (o, d) ∧ o.toList = out := by
  unfold runList
  constructor
  · intro h
    cases hr : run hist.toArray data.toArray with
    | none => simp [hr] at h
    | some p =>
      obtain ⟨o, d'⟩ := p
      simp only [hr, Option.map_some, Option.some.injEq, Prod.mk.injEq] at h
      obtain ⟨h1, rfl⟩ := h
      exact ⟨o, rfl, h1⟩
  · rintro ⟨o, hr, rfl⟩
    simp [hr]

/-- **A history prefix beyond the largest distance is irrelevant** (general form).  If a stream
inflates against `pre ++ hist` to `out` and the largest back-reference distance `d` it followed fits
in `hist`, then it inflates against `hist` alone to the same `out` with the same `d`. -/
theorem history_prefix_irrelevant (pre hist data out : Bytes) (d : Nat)
    (h : runList (pre ++ hist) data = some (out, d)) (hd : d ≤ hist.length) :
    runList hist data = some (out, d) := by
  obtain ⟨o, hr, ho⟩ := runList_eq_some.mp h
  rw [← List.append_toArray] at hr
  exact runList_eq_some.mpr ⟨o, run_drop_prefix _ _ _ _ _ hr (by simpa using hd), ho⟩

/-- **More history never hurts.**  A stream that inflates against `hist` inflates against any longer
history `pre ++ hist` to the same output with the same largest distance. -/
theorem history_extension_harmless (pre hist data out : Bytes) (d : Nat)
    (h : runList hist data = some (out, d)) : runList (pre ++ hist) data = some (out, d) := by
  obtain ⟨o, hr, ho⟩ := runList_eq_some.mp h
  refine runList_eq_some.mpr ⟨o, ?_, ho⟩
  rw [← List.append_toArray]
  exact run_add_prefix _ _ _ _ _ hr

/-- **C02, receiver half: a bounded window suffices.**  If the stream inflates against the full
history `hist` to `out` and never reaches further back than `W` bytes, then a receiver that kept only
the last `W` bytes of the history inflates it to the same `out` (and observes the same largest
distance). -/
theorem bounded_window_suffices (W : Nat) (hist data : Bytes) (out : Bytes) (d : Nat)
    (h : Spec.Inflate.runList hist data = some (out, d)) (hd : d ≤ W) :
    Spec.Inflate.runList (lastN W hist) data = some (out, d) := by
  by_cases hl : hist.length ≤ W
  · rw [lastN_of_length_le W hist hl]; exact h
  · have hsplit : hist = hist.take (hist.length - W) ++ lastN W hist := by
      unfold lastN; exact (List.take_append_drop _ _).symm
    rw [hsplit] at h
    exact history_prefix_irrelevant _ _ _ _ _ h (by rw [lastN_length]; omega)

/-- The window determines the result: whatever a receiver holds in front of the last `W` bytes of
the history (`pre` arbitrary — stale data, nothing, or the true older history) the stream inflates to
the same output, provided its distances fit in `W`. -/
theorem window_determines_output (W : Nat) (pre hist data out : Bytes) (d : Nat)
    (h : runList hist data = some (out, d)) (hd : d ≤ W) :
    runList (pre ++ lastN W hist) data = some (out, d) :=
  history_extension_harmless _ _ _ _ _ (bounded_window_suffices W hist data out d h hd)

/-- Equivalence form: for distances within the window, success against the full history and success
against the window are the same fact. -/
theorem bounded_window_iff (W : Nat) (hist data out : Bytes) (d : Nat) (hd : d ≤ W) :
    runList hist data = some (out, d) ↔ runList (lastN W hist) data = some (out, d) := by
  refine ⟨fun h => bounded_window_suffices W hist data out d h hd, fun h => ?_⟩
  have hsplit : hist = hist.take (hist.length - W) ++ lastN W hist := by
    unfold lastN; exact (List.take_append_drop _ _).symm
  rw [hsplit]
  exact history_extension_harmless _ _ _ _ _ h

/-! ## non-vacuity: the hypotheses are satisfiable by real streams

Evaluated by kernel reduction (`decide +kernel`: checked by the kernel alone, no compiler trust, no extra axioms). -/

/-- a final stored block carrying "abc": no back-reference, `d = 0` -/
theorem ex_stored :
    runList [1, 2] [0x01, 0x03, 0x00, 0xfc, 0xff, 0x61, 0x62, 0x63] = some ([0x61, 0x62, 0x63], 0) := by
  decide +kernel

/-- zlib's fixed-Huffman raw deflate of "abcabc" with preset dictionary "0123456789abc": one match of
length 6 at distance 3 reaching into the history (`83 20 00`) -/
theorem ex_fixed_dist3 :
    runList [48, 49, 50, 51, 52, 53, 54, 55, 56, 57, 97, 98, 99] [0x83, 0x20, 0x00]
      = some ([97, 98, 99, 97, 98, 99], 3) := by
  decide +kernel

/-- hence a receiver with a 4-byte window ("9abc") inflates it identically -/
example : runList [57, 97, 98, 99] [0x83, 0x20, 0x00] = some ([97, 98, 99, 97, 98, 99], 3) := by
  have h := bounded_window_suffices 4 _ _ _ _ ex_fixed_dist3 (by decide)
  simpa [lastN] using h

/-- and so does a receiver holding a 3-byte window preceded by junk -/
example : runList ([0, 0, 0, 0, 0] ++ [97, 98, 99]) [0x83, 0x20, 0x00] = some ([97, 98, 99, 97, 98, 99], 3) := by
  have h := window_determines_output 3 [0, 0, 0, 0, 0] _ _ _ _ ex_fixed_dist3 (by decide)
  simpa [lastN] using h

/-- the bound is sharp: with a 2-byte window the distance-3 match is out of reach -/
example : runList [98, 99] [0x83, 0x20, 0x00] = none := by decide +kernel

end Spec.Inflate
