import Gws.Lemmas.Handshake
/-!
# C10 — server handshake: upgrade exactly the valid, authorised requests

Statement (properties.jsonl): the server upgrades a request iff it is a GET with
Sec-WebSocket-Version 13, Upgrade: websocket and a Connection header containing the upgrade token
(any letter case), a non-empty key, the application's authorisation callback agrees and, when the
server lists subprotocols, one is shared with the client.  The 101 response then carries
Sec-WebSocket-Accept = base64(SHA-1(key + RFC GUID)), the first server-preferred common
subprotocol, a permessage-deflate extension only if the client offered it and the server enables it,
and configured extra headers that cannot override those fields; the resulting connection exposes
that subprotocol and the session values set during authorisation, shared with no other connection.
Otherwise no 101 is sent, an HTTP error is written, the transport is closed and no connection is
returned.

The theorems are about `Hs.serverDecide` / `Hs.upgradeFromConn` (Model/Handshake.lean), whose input
is the request as `http.ReadRequest` parsed it; `vals` is `http.Header.Values` (all the lines of that
name), `get` is `http.Header.Get` (the first one).  `SHA-1` and `base64` are the functions of
Spec/Sha1.lean and Spec/Base64.lean.

The decision clause holds as stated: `upgrade_iff` has the TOKEN condition on the `Connection`
header (`HasToken`: an element of the comma-separated, trimmed values of ANY `Connection` line equal
to `upgrade` up to ASCII letter case) and the sub-protocol condition over ALL
`Sec-WebSocket-Protocol` lines (`offered`).

Remaining latitude / limitations, each with a witness theorem:
* `Upgrade` and `Sec-WebSocket-Version` are read from their first line only and compared as a whole
  (`upgrade_first_line_exact`): `Upgrade: h2c, websocket`, or `websocket` on a second line, is refused.
* "any letter case" of `Upgrade: websocket` is Unicode simple case folding (`nonascii_fold_accepted`).
* "extra headers that cannot override those fields" holds (`response_fields`: the fields the code
  writes come first, and for keys set through `http.Header`'s methods no extra line bears a protected
  name); for keys put into the map directly in another spelling an extra, empty line of a protected
  name is emitted (`noncanonical_config_key_emitted`).

Clauses covered by the tie only (suite `hs-server`): net/http's parsing of the request bytes; which
`Sec-WebSocket-Extensions` value is negotiated (input `ext`, property C12); the session object is
shared with no other connection (object identity); the `Date` line of the error response.
-/

namespace Hs

open Sha1 (asc)

/-- **C10, decision.**  For every request, option set, authorisation result and negotiated
extension: the server accepts iff the callback agreed, the method is `GET`, the version is exactly
`13`, some `Connection` line has `upgrade` (any ASCII letter case, surrounding white space ignored)
among its comma-separated elements, the (first) `Upgrade` value is `websocket` up to case folding,
the key is not empty, and the server lists no sub-protocols or one of them is among the
comma-separated, trimmed elements of the client's `Sec-WebSocket-Protocol` lines. -/
theorem upgrade_iff (o : ServerOpt) (r : Request) (auth : Bool) (ext : Option Str) :
    (serverDecide o r auth ext).isAccept = true ↔
      (auth = true ∧ r.method = asc "GET" ∧ get r.header kVersion = asc "13" ∧
       HasToken (vals r.header kConnection) (asc "upgrade") ∧
       foldEq (get r.header kUpgrade) (asc "websocket") = true ∧
       get r.header kKey ≠ [] ∧
       (o.subProtocols = [] ∨ ∃ p, p ∈ o.subProtocols ∧ p ∈ offered (vals r.header kProtocol))) := by
  rw [isAccept_iff, checksPass_iff]
  unfold SubprotocolOk offer
  simp only [and_assoc]

/-- **Limitation (first line, whole value).**  `Upgrade` is not treated as a list: `websocket` on a
second `Upgrade` line, or as the second element of one line, is refused (RFC 7230 6.7 defines
`Upgrade` as a comma-separated list; the property's statement says "Upgrade: websocket"). -/
theorem upgrade_first_line_exact :
    (serverDecide ⟨[], []⟩ (sampleRequest [asc "Upgrade"] [asc "h2c", asc "websocket"] []) true none).isAccept = false ∧
    (serverDecide ⟨[], []⟩ (sampleRequest [asc "Upgrade"] [asc "h2c, websocket"] []) true none).isAccept = false := by
  decide +kernel

/-- **Latitude ("any letter case" is Unicode folding).**  `Upgrade: websocKet` spelled with U+212A
KELVIN SIGN (bytes E2 84 AA) in place of `k` is accepted. -/
theorem nonascii_fold_accepted :
    (serverDecide ⟨[], []⟩
      (sampleRequest [asc "Upgrade"] [asc "websoc" ++ [0xE2, 0x84, 0xAA] ++ asc "et"] []) true none).isAccept = true := by
  decide +kernel

/-- **Limitation (configuration that bypasses `http.Header`'s methods).**  A key written into the
`ResponseHeader` map in the RFC's spelling `Sec-WebSocket-Protocol` — not Go's canonical form
`Sec-Websocket-Protocol` — survives `deleteProtectedHeaders`; `WithExtraHeader` then emits it with the
value `Get` finds under the canonical key, i.e. none.  The 101 response carries an empty
`Sec-WebSocket-Protocol:` line although no sub-protocol was negotiated (the configured value itself
is lost; it overrides nothing). -/
theorem noncanonical_config_key_emitted :
    serverDecide ⟨[], [(asc "Sec-WebSocket-Protocol", [asc "evil"])]⟩
      (sampleRequest [asc "Upgrade"] [asc "websocket"] []) true none
    = .accept [(kUpgrade, asc "websocket"), (kConnection, asc "Upgrade"),
               (kAccept, asc "s3pPLMBiTxaQ9kYGzzhZRbK+xOo="), (asc "Sec-WebSocket-Protocol", [])] [] := by
  decide +kernel

/-- **C10, the 101 response.**  When the request is accepted, the header lines written after the
status line are, in this order: `Upgrade: websocket`, `Connection: Upgrade`, the extension line iff an
extension was negotiated, `Sec-WebSocket-Accept: base64(SHA-1(key ++ GUID))`, a
`Sec-WebSocket-Protocol` line iff the server lists sub-protocols, and then the extra lines.  The
sub-protocol sent (= the one the connection exposes, `sp`) is the FIRST entry of the server's list
that the client offered on any of its `Sec-WebSocket-Protocol` lines.  When the configured header was filled through `http.Header`'s own methods
(all keys canonical) no extra line bears one of the five protected names, and every configured
header of another name is sent with its first value. -/
theorem response_fields (o : ServerOpt) (r : Request) (auth : Bool) (ext : Option Str)
    (lines : List (Str × Str)) (sp : Str) (h : serverDecide o r auth ext = .accept lines sp) :
    ∃ extras : List (Str × Str),
      lines = [(kUpgrade, asc "websocket"), (kConnection, asc "Upgrade")]
              ++ optLine kExtensions ext
              ++ [(kAccept, Base64.encode (Sha1.sha1 (get r.header kKey ++ asc Facts.magicNumber)))]
              ++ (if o.subProtocols = [] then [] else [(kProtocol, sp)])
              ++ extras
      ∧ (if o.subProtocols = [] then sp = []
         else FirstCommon o.subProtocols (offered (vals r.header kProtocol)) sp)
      ∧ ((∀ e ∈ o.responseHeader, canon e.1 = e.1) →
          (∀ l ∈ extras, canon l.1 ∉ protectedNames) ∧
          (∀ e ∈ o.responseHeader, e.1 ∉ protectedNames →
            (e.1, (values o.responseHeader e.1).headD []) ∈ extras)) := by
  by_cases hp : ChecksPass r auth
  · rw [serverDecide_of_pass hp] at h
    refine ⟨extraLines o, ?_, ?_, ?_⟩
    · by_cases hs : o.subProtocols = []
      · simp only [hs, ↓reduceIte, Decision.accept.injEq] at h
        simp [hs, ← h.1, baseLines, acceptKey]
      · by_cases hi : intersectionElem o.subProtocols (offer r) = []
        · simp [hs, hi] at h
        · simp only [hs, hi, ↓reduceIte, Decision.accept.injEq] at h
          simp [hs, ← h.1, ← h.2, baseLines, acceptKey]
    · by_cases hs : o.subProtocols = []
      · simp only [hs, ↓reduceIte, Decision.accept.injEq] at h
        simp [hs, ← h.2]
      · by_cases hi : intersectionElem o.subProtocols (offer r) = []
        · simp [hs, hi] at h
        · simp only [hs, hi, ↓reduceIte, Decision.accept.injEq] at h
          simp only [hs, ↓reduceIte, ← h.2]
          rcases intersectionElem_spec o.subProtocols (offer r)
            (fun x hx => mem_offered_ne_nil hx) with ⟨h0, -⟩ | ⟨-, hf⟩
          · exact absurd h0 hi
          · exact hf
    · intro hcanon
      constructor
      · intro l hl
        obtain ⟨e, he, rfl⟩ := List.mem_map.1 hl
        have := mem_deleteProtected.1 he
        rw [hcanon e this.1]
        exact this.2
      · intro e he hne
        refine List.mem_map.2 ⟨e, mem_deleteProtected.2 ⟨he, hne⟩, ?_⟩
        simp only [get, vals, hcanon e he, values_deleteProtected _ _ hne]
  · obtain ⟨e, he⟩ := serverDecide_of_not_pass (o := o) (ext := ext) hp
    rw [he] at h
    cases h

/-- **C10, accepted: what `UpgradeFromConn` does.**  The bytes written are the status line
`HTTP/1.1 101 Switching Protocols`, the lines of `response_fields` and an empty line; the transport
stays open; the returned connection exposes the sub-protocol that was sent and the session the
authorisation callback of THIS request worked on. -/
theorem accept_outcome (o : ServerOpt) (r : Request) (auth : Bool) (sess : Str) (ext : Option Str)
    (date : Str) (lines : List (Str × Str)) (sp : Str) (h : serverDecide o r auth ext = .accept lines sp) :
    upgradeFromConn o r auth sess ext date =
      { written := asc "HTTP/1.1 101 Switching Protocols\r\n" ++ renderLines lines ++ crlf,
        closed := false, conn := some ⟨sp, sess⟩, err := none } := by
  simp [upgradeFromConn, h, render101]

/-- **C10, refused.**  On every reject outcome the bytes written start with `HTTP/1.1 400` (so no 101
is sent), end with the error text, no connection is returned and the transport is closed. -/
theorem reject_no_101 (o : ServerOpt) (r : Request) (auth : Bool) (sess : Str) (ext : Option Str)
    (date : Str) (e : SErr) (h : serverDecide o r auth ext = .reject e) :
    asc "HTTP/1.1 400" <+: (upgradeFromConn o r auth sess ext date).written ∧
    ¬ asc "HTTP/1.1 101" <+: (upgradeFromConn o r auth sess ext date).written ∧
    e.text <:+ (upgradeFromConn o r auth sess ext date).written ∧
    (upgradeFromConn o r auth sess ext date).conn = none ∧
    (upgradeFromConn o r auth sess ext date).closed = true ∧
    (upgradeFromConn o r auth sess ext date).err = some e := by
  have hw : (upgradeFromConn o r auth sess ext date).written = writeErr date e := by
    simp [upgradeFromConn, h]
  have h400 : asc "HTTP/1.1 400" <+: writeErr date e := by
    unfold writeErr
    have : asc "HTTP/1.1 400 Bad Request\r\n" = asc "HTTP/1.1 400" ++ asc " Bad Request\r\n" := by decide
    rw [this]
    simp only [List.append_assoc]
    exact List.prefix_append _ _
  refine ⟨hw ▸ h400, ?_, ?_, by simp [upgradeFromConn, h], by simp [upgradeFromConn, h],
    by simp [upgradeFromConn, h]⟩
  · rw [hw]
    intro h101
    have e1 := List.prefix_iff_eq_take.1 h400
    have e2 := List.prefix_iff_eq_take.1 h101
    have l1 : (asc "HTTP/1.1 400").length = 12 := by decide
    have l2 : (asc "HTTP/1.1 101").length = 12 := by decide
    rw [l1] at e1
    rw [l2, ← e1] at e2
    exact absurd e2 (by decide)
  · rw [hw]
    unfold writeErr
    exact List.suffix_append _ _

/-- **C10, exactly one of the two outcomes.**  Every call either accepts or refuses; a refused call
never returns a connection and an accepted one never closes the transport. -/
theorem outcome_dichotomy (o : ServerOpt) (r : Request) (auth : Bool) (sess : Str) (ext : Option Str)
    (date : Str) :
    ((serverDecide o r auth ext).isAccept = true ∧
      (upgradeFromConn o r auth sess ext date).closed = false ∧
      (upgradeFromConn o r auth sess ext date).conn ≠ none) ∨
    ((serverDecide o r auth ext).isAccept = false ∧
      (upgradeFromConn o r auth sess ext date).closed = true ∧
      (upgradeFromConn o r auth sess ext date).conn = none) := by
  unfold upgradeFromConn
  cases serverDecide o r auth ext <;> simp [Decision.isAccept]

-- non-vacuity: the RFC 6455 sample request is accepted with the RFC's accept value, the server's
-- preference decides the sub-protocol, protected names are removed from the extra headers
example :
    serverDecide ⟨[asc "chat", asc "mqtt"], [(asc "X-Served-By", [asc "gws"]), (asc "Upgrade", [asc "h2c"])]⟩
      (sampleRequest [asc "keep-alive, Upgrade"] [asc "WebSocket"] [asc "mqtt , chat"]) true
      (some (asc "permessage-deflate"))
    = .accept [(kUpgrade, asc "websocket"), (kConnection, asc "Upgrade"),
               (kExtensions, asc "permessage-deflate"),
               (kAccept, asc "s3pPLMBiTxaQ9kYGzzhZRbK+xOo="), (kProtocol, asc "chat"),
               (asc "X-Served-By", asc "gws")] (asc "chat") := by decide +kernel
-- the token is found in any letter case, between spaces and tabs, on a later line; letters around it
-- do not count; a sub-protocol offered on a second line is seen
example : (serverDecide ⟨[], []⟩ (sampleRequest [asc "keep-alive", asc " \tuPgRaDe\t , x"] [asc "websocket"] []) true none).isAccept = true := by
  decide +kernel
example : serverDecide ⟨[], []⟩ (sampleRequest [asc "upgradex", asc "no-upgrade", asc "keep-alive, upgrades"] [asc "websocket"] []) true none
    = .reject .handshake := by decide +kernel
example : (serverDecide ⟨[asc "chat"], []⟩ (sampleRequest [asc "Upgrade"] [asc "websocket"] [asc "mqtt", asc "x, chat"]) true none).isAccept = true := by
  decide +kernel
-- every reject reason is reachable
example : serverDecide ⟨[], []⟩ (sampleRequest [asc "Upgrade"] [asc "websocket"] []) false none
    = .reject .unauthorized := by decide +kernel
example : serverDecide ⟨[], []⟩ { sampleRequest [asc "Upgrade"] [asc "websocket"] [] with method := asc "POST" } true none
    = .reject .handshake := by decide +kernel
example : serverDecide ⟨[], []⟩ { method := asc "GET", header := [(canon kVersion, [asc "8"])] } true none
    = .reject .version := by decide +kernel
example : serverDecide ⟨[asc "chat"], []⟩ (sampleRequest [asc "Upgrade"] [asc "websocket"] [asc "mqtt"]) true none
    = .reject .subprotocol := by decide +kernel
example : (upgradeFromConn ⟨[asc "chat"], []⟩ (sampleRequest [asc "Upgrade"] [asc "websocket"] []) true [] none (asc "D")).written
    = asc "HTTP/1.1 400 Bad Request\r\nDate: D\r\nContent-Length: 31\r\nContent-Type: text/plain; charset=utf-8\r\n\r\nsub-protocol negotiation failed" := by decide +kernel

end Hs
