import Gws.Props.TransWindow
import Gws.Props.TransClose
import Gws.Model.ReaderStep
/-!
# T3 — `emitMessage` (reader.go), translated from the source on every run, equals the model's `Reader.emitMessage`

The inflater's result is an input of the translation (`inflated`), the dispatch to the handler is left
uninterpreted.  The theorem fixes the ORDER the code uses: inflate, write the inflated payload into the
decompression window, then the UTF-8 gate, then dispatch — which is what the C02 (window contents) and C16
(gate on the inflated payload) theorems are proved about.
-/
namespace TransEquiv

inductive EmitR where
  | ret (e : Option GoErr)
  | deliver (parallel : Bool) (compressed : Bool) (opcode : UInt8) (data : Bytes)

/-- the inflater's result as the Go values `Decompress` returns -/
def inflatedOf : Codec.DecompRes → Bytes × Option GoErr
  | .ok out => (out, none)
  | _ => ([], some .io)

/-- `emitMessage` = `Reader.emitMessage`: on success the same window afterwards and the same payload handed to the
handler (sequentially or through the parallel queue, as configured); on failure the same status (1011 for an
inflation failure, 1007 for invalid text). -/
theorem emitMessage_eq (cfg : Reader.Cfg) (codec : Codec) (st : Reader.State) (opcode : UInt8) (data : Bytes)
    (compressed parallel : Bool) :
    match Reader.emitMessage cfg codec st opcode.toNat data compressed,
        Trans.Conn_emitMessage EmitR.ret (EmitR.deliver true) (EmitR.deliver false) (msg_compressed := compressed) (msg_Data := data)
          (c_dpsWindow_enabled := st.dps.enabled) (c_dpsWindow_dict := st.dps.dict) (c_dpsWindow_size := (st.dps.size : Int))
          (c_config_CheckUtf8Enabled := cfg.checkUtf8) (msg_Opcode := opcode) (c_config_ParallelEnabled := parallel)
          (inflated := inflatedOf (codec.decompress cfg.readMax st.dps.dict data)) with
    | .inl (st', ev), (dict', _, r) =>
        dict' = st'.dps.dict ∧ st'.cont = st.cont ∧ ∃ out, ev = some (.msg opcode.toNat out) ∧ r = .deliver parallel compressed opcode out
    | .inr e, (_, _, r) => ∃ c, e = .err (.coded c) ∧ r = .ret (some (.coded (UInt16.ofNat c))) := by
  unfold Reader.emitMessage Trans.Conn_emitMessage
  simp only [Trans.Message_Bytes, CheckEncoding_eq]
  cases compressed
  · simp only [Bool.false_eq_true, ↓reduceIte]
    cases hce : Utf8.checkEncoding cfg.checkUtf8 opcode.toNat data
    · simp only [Bool.not_false, ↓reduceIte]
      exact ⟨_, rfl, rfl⟩
    · cases parallel <;> simp
  · simp only [↓reduceIte]
    cases hd : codec.decompress cfg.readMax st.dps.dict data with
    | ok out =>
      simp only [inflatedOf, bne_self_eq_false, Bool.false_eq_true, ↓reduceIte, slideWindow_Write_eq]
      cases hce : Utf8.checkEncoding cfg.checkUtf8 opcode.toNat out
      · simp only [Bool.not_false, ↓reduceIte]
        exact ⟨_, rfl, rfl⟩
      · cases parallel <;> simp
    | libError => exact ⟨_, rfl, rfl⟩
    | tooLarge => exact ⟨_, rfl, rfl⟩

end TransEquiv
