import Gws.Lemmas.Conc.OwnPaths
import Gws.Lemmas.Conc.OwnGeneral
import Gws.Lemmas.Conc.OwnBroadcast
import Gws.Lemmas.Conc.OwnTeardown
import Gws.Lemmas.Conc.OwnMutex
/-!
# C14 — buffer ownership: no mutation of caller data, no sharing of pooled memory

Statement: gws never modifies a payload passed to a write call and never reads it after the call (or
its completion callback, or for a broadcaster its Close plus pending sends) has finished; the bytes of
a delivered message or ping/pong payload stay unchanged until the application closes the message.
Pooled buffers, shared broadcast frames and per-connection compression windows are never visible to
two owners at once: not across connections, and not between a connection that is finishing and
writers still in flight on it.

The property is modelled as an ownership protocol (`Gws/Model/Conc/Own.lean`): a heap of numbered
locations with one owner each, and for every code path of the library the list of ownership events it
performs. `run` is `none` as soon as an event uses a buffer its path does not own, puts one back twice,
takes one that is not in the pool, writes a caller payload, reads one outside its lend interval, or
touches an application-owned buffer. The paths were derived by reading the Go source and are tied to
the real code by suite `own trace …`: the Get/Put projection of each path equals, event for event, what
the pool hook records when that path runs alone on a real connection.

What is proved: (1) every path is well owned from every heap in which its buffers are free;
(2) every interleaving of well-owned event lists over disjoint locations is well owned (any number of
concurrent paths, on one or many connections), and paths that do share locations — `c.mu` and the
window on one connection, a deflater's scratch and writer across connections — never reach a
violation in any interleaving either, because they use them in critical sections only; (3) in any run without violation a delivered buffer is
not touched by the library until the application closes it, and a caller payload is neither written
nor read outside its lend interval; (4) the broadcaster releases its shared frames exactly once, after
`Close` and after the last pending send, under the documented API precondition — and a witness that
violating the precondition leads to a double release; (5) at the end of a server connection the
compression window is put back only while the read loop itself holds `c.mu`, over every interleaving
of writers, the closed flag and the reclamation.

Assumptions (stated, not proved): `sync.Pool` hands an object to one taker at a time and hands out
only what it holds (so concurrent paths hold distinct incarnations: the disjointness hypothesis of
(2)); a `sync.Mutex` blocks a second locker (a `lock` event of a held mutex is not enabled); the
application's `io.Reader` passed to `WriteFile` does not retain the slice it is asked to fill.
-/

namespace Own

/-! ## (1) Every path of the library is well owned -/

private theorem wellOwned_of_run_self {h : Heap} {l : List Ev} (hr : run h l = some h) : WellOwned h l [] :=
  ⟨h, hr, rfl, fun x => by simp⟩

private theorem wellOwned_of_run_deliver {h : Heap} {l : List Ev} {closeNow : Bool} {b : Buf} {k : Option Pid}
    (hk : (h.cell b).held = k)
    (hr : run h l = some (if closeNow then h else { h with cell := upd h.cell b ⟨.app, k⟩ })) :
    WellOwned h l (if closeNow then [] else [b]) := by
  cases closeNow
  · refine ⟨_, hr, rfl, fun x => ?_⟩
    by_cases hx : x = b
    · subst hx; simp [hk]
    · simp [upd, hx]
  · exact ⟨h, hr, rfl, fun x => by simp⟩

/-- **An unfragmented data frame** (`readMessage`, compressed or not, from a client or a server,
handler closing the message or keeping it): from any heap in which the frame buffer `a` and the output
buffer `b` are free, the deflater scratch `s` is parked with its mutex free, and the decompression
window `d` is the read loop's, the path runs without violation and leaves everything as it was — the
one exception being the delivered buffer (`a` uncompressed, `b` compressed) if the handler kept it,
which is then the application's. -/
theorem path_well_owned_readSingle (compressed masked closeNow : Bool) (p : Pid) (a b s : Buf) (d : Option Buf)
    (h : Heap) (hab : a ≠ b) (has : a ≠ s) (hbs : b ≠ s) (hda : d ≠ some a) (hdb : d ≠ some b) (hds : d ≠ some s)
    (ha : (h.cell a).own = .pool) (hb : (h.cell b).own = .pool)
    (hs : h.cell s = ⟨.guarded, none⟩) (hd : ∀ x, d = some x → (h.cell x).own = .lib p) :
    WellOwned h (readSingle compressed masked closeNow p a b s d)
      (if closeNow then [] else [if compressed then b else a]) := by
  obtain ⟨ka, ha⟩ := cell_pool_eta ha
  obtain ⟨kb, hb⟩ := cell_pool_eta hb
  have := readSingle_run compressed masked closeNow p a b s d h ka kb hab has hbs hda hdb hds ha hb hs hd
  exact wellOwned_of_run_deliver (by cases compressed <;> simp [ha, hb]) this

/-- **A fragmented message** of any number of frames: every frame buffer goes back to the pool before
the next frame is read; the reassembly buffer `k` (not pooled) or, compressed, the inflated copy `b` is
delivered. -/
theorem path_well_owned_readFragments (compressed masked closeNow : Bool) (p : Pid) (k : Buf) (as : List Buf)
    (a b s : Buf) (d : Option Buf) (h : Heap)
    (hka : k ≠ a) (hkb : k ≠ b) (hks : k ≠ s) (hab : a ≠ b) (has : a ≠ s) (hbs : b ≠ s)
    (hdk : d ≠ some k) (hda : d ≠ some a) (hdb : d ≠ some b) (hds : d ≠ some s)
    (hk : (h.cell k).own = .pool) (ha : (h.cell a).own = .pool) (hb : (h.cell b).own = .pool)
    (hs : h.cell s = ⟨.guarded, none⟩) (hd : ∀ x, d = some x → (h.cell x).own = .lib p)
    (hfr : ∀ x ∈ as, x ≠ k ∧ (h.cell x).own = .pool) :
    WellOwned h (readFragments compressed masked closeNow p k as a b s d)
      (if closeNow then [] else [if compressed then b else k]) := by
  obtain ⟨kk, hk⟩ := cell_pool_eta hk
  obtain ⟨ka, ha⟩ := cell_pool_eta ha
  obtain ⟨kb, hb⟩ := cell_pool_eta hb
  have := readFragments_run compressed masked closeNow p k as a b s d h kk ka kb hka hkb hks hab has hbs
    hdk hda hdb hds hk ha hb hs hd hfr
  exact wellOwned_of_run_deliver (by cases compressed <;> simp [hk, hb]) this

/-- **A ping/pong with payload**: a private slice, delivered to the handler, never reclaimed. -/
theorem path_well_owned_readControl (masked : Bool) (p : Pid) (k : Buf) (h : Heap) (hk : (h.cell k).own = .pool) :
    WellOwned h (readControl masked p k) [k] := by
  obtain ⟨kk, hk⟩ := cell_pool_eta hk
  refine ⟨_, readControl_run masked p k h kk hk, rfl, fun x => ?_⟩
  by_cases hx : x = k
  · subst hx; simp [hk]
  · simp [upd, hx]

/-- **`doWrite`** (`WriteMessage`, `WriteAsync`, `WritePing`, …; compressed or not; client or server):
from any heap in which the payload is not lent, `c.mu` is free (and guards the window if one is used),
the deflater's writer is parked and the frame buffer is free. The caller's payload is only read, and
only between `callerLend` and `callerReturn` (else `run` would be `none`). -/
theorem path_well_owned_writeFrame (compressed window client : Bool) (p : Pid) (c : CBuf) (m z f : Buf) (h : Heap)
    (om : Owner) (hmz : m ≠ z) (hmf : m ≠ f) (hzf : z ≠ f)
    (hc : h.lent c = none) (hm : h.cell m = ⟨om, none⟩) (hw : window = true → om = .guarded)
    (hz : h.cell z = ⟨.guarded, none⟩) (hf : (h.cell f).own = .pool) :
    WellOwned h (writeFrame compressed window client p c m z f) [] := by
  obtain ⟨kf, hf⟩ := cell_pool_eta hf
  exact wellOwned_of_run_self (writeFrame_run compressed window client p c m z f h om kf hmz hmf hzf hc hm hw hz hf)

/-- **`WriteClose`**: the close payload is assembled in a pooled buffer and framed from there. -/
theorem path_well_owned_writeClose (client : Bool) (p : Pid) (m q f : Buf) (h : Heap) (om : Owner)
    (hmq : m ≠ q) (hmf : m ≠ f) (hqf : q ≠ f)
    (hm : h.cell m = ⟨om, none⟩) (hq : (h.cell q).own = .pool) (hf : (h.cell f).own = .pool) :
    WellOwned h (writeClose client p m q f) [] :=
  wellOwned_of_run_self (writeClose_run client p m q f h om hmq hmf hqf hm hq hf)

/-- **`WriteFile`, uncompressed**, any number of segments. -/
theorem path_well_owned_writeFilePlain (client : Bool) (p : Pid) (m s : Buf) (fs : List Buf) (h : Heap) (om : Owner)
    (hms : m ≠ s) (hm : h.cell m = ⟨om, none⟩) (hs : (h.cell s).own = .pool)
    (hfs : ∀ f ∈ fs, m ≠ f ∧ s ≠ f ∧ (h.cell f).own = .pool) :
    WellOwned h (writeFilePlain client p m s fs) [] :=
  wellOwned_of_run_self (writeFilePlain_run client p m s fs h om hms hm hs hfs)

/-- **`WriteFile`, compressed**, any number of output buffers and frames: all locations distinct, all
buffers free, `c.mu` free, the `flate.Writer` in its pool (server) or parked under `cpsLocker` (client). -/
theorem path_well_owned_writeFileCompressed (window client early : Bool) (p : Pid) (m z r b0 : Buf)
    (mid : List (Buf × Buf)) (fLast : Buf) (h : Heap) (om : Owner) (kz : Option Pid)
    (hnd : (m :: z :: r :: fLast :: b0 :: midBufs mid).Nodup)
    (hm : h.cell m = ⟨om, none⟩) (hw : window = true → om = .guarded)
    (hz : h.cell z = ⟨if client then .guarded else .pool, kz⟩) (hzc : client = true → kz = none)
    (hpool : ∀ x ∈ r :: fLast :: b0 :: midBufs mid, (h.cell x).own = .pool)
    (hearly : early = false → mid = []) :
    WellOwned h (writeFileCompressed window client early p m z r b0 mid fLast) [] :=
  wellOwned_of_run_self (writeFileCompressed_run window client early p m z r b0 mid fLast h om kz hnd hm hw hz hzc
    hpool hearly)

/-- **A whole idle server connection**: the handshake takes reader and windows from their pools and
parks the compression window under `c.mu`; the end of `ReadLoop` (with `TryLock` succeeding: no writer
in flight) gives all three back. -/
theorem path_well_owned_connection (p : Pid) (rw rd m : Buf) (d : Option Buf) (h : Heap)
    (hwr : rw ≠ rd) (hwm : rw ≠ m) (hrm : rd ≠ m) (hdw : d ≠ some rw) (hdr : d ≠ some rd) (hdm : d ≠ some m)
    (hrw : (h.cell rw).own = .pool) (hrd : (h.cell rd).own = .pool) (hm : h.cell m = ⟨.pool, none⟩)
    (hd : ∀ x, d = some x → (h.cell x).own = .pool) :
    WellOwned h (upgradeServer p rw rd m d ++ readLoopEnd true p rd m d) [] :=
  wellOwned_of_run_self (connection_run p rw rd m d h hwr hwm hrm hdw hdr hdm hrw hrd hm hd)

/-- **The end of `ReadLoop` when a writer holds `c.mu`** (`TryLock` fails): reader and decompression
window go back, the compression window is left alone — still parked, still guarded by the mutex the
writer holds. -/
theorem path_well_owned_readLoopEnd_busy (p q : Pid) (rd m : Buf) (d : Option Buf) (h : Heap) (krd : Option Pid)
    (hrm : rd ≠ m) (hdr : d ≠ some rd) (hdm : d ≠ some m) (hqp : q ≠ p)
    (hrd : h.cell rd = ⟨.lib p, krd⟩) (hm : h.cell m = ⟨.guarded, some q⟩)
    (hd : ∀ x, d = some x → (h.cell x).own = .lib p) :
    ∃ h', run h (readLoopEnd false p rd m d) = some h' ∧ h'.cell m = h.cell m := by
  refine ⟨_, readLoopEnd_run false p rd m d h krd (some q) hrm hdr hdm hrd hm (by simp [hqp]) hd, ?_⟩
  simp [Ne.symm hrm, hm]

/-- A well-owned list leaves nothing in the hands of the library, never writes a caller payload, and
reads one only while it is lent (`run` would be `none` otherwise: `caller_unread_after_return`). -/
theorem wellOwned_leaves_nothing {h : Heap} {l : List Ev} {dl : List Buf} (hw : WellOwned h l dl) :
    ∃ h', run h l = some h' ∧
      (∀ x q, (h'.cell x).own = .lib q → (h.cell x).own = .lib q) ∧
      (∀ x, (h'.cell x).held = (h.cell x).held) ∧
      (∀ c p, Ev.libWriteCaller c p ∉ l) := by
  obtain ⟨h', hr, _, hc⟩ := hw
  refine ⟨h', hr, fun x q hq => ?_, fun x => ?_, fun c p => caller_never_written hr c p⟩
  · rw [hc x] at hq; split at hq <;> simp_all
  · rw [hc x]; split <;> rfl

/-! ## (2) Interleavings -/

/-- **Concurrent paths.** If two event lists touch disjoint locations (the pool hands a buffer to one
taker at a time: concurrent paths hold distinct incarnations; distinct connections have distinct
mutexes and windows) and each runs without violation from `h`, then EVERY interleaving of them runs
without violation, and ends with each location in the state its own list leaves it in. -/
theorem interleave_well_owned {l1 l2 l : List Ev} {h h1 h2 : Heap} (hi : Interleave l1 l2 l)
    (hd : DisjointLocs l1 l2) (r1 : run h l1 = some h1) (r2 : run h l2 = some h2) :
    ∃ h', run h l = some h' ∧
      (∀ x, h'.cell x = if bufOps x l2 = [] then h1.cell x else h2.cell x) ∧
      (∀ y, h'.lent y = if callerOps y l2 = [] then h1.lent y else h2.lent y) :=
  interleave_run hi hd r1 r2

/-- … hence any number of concurrent paths, on one or many connections, in any interleaving. -/
theorem interleaveN_well_owned {ls : List (List Ev)} {l : List Ev} {h : Heap} (hi : InterleaveN ls l)
    (hd : ls.Pairwise DisjointLocs) (hr : ∀ l0 ∈ ls, (run h l0).isSome) : (run h l).isSome :=
  interleaveN_isSome hi hd hr

/-- **Concurrent paths that share mutex-guarded memory** — paths on the SAME connection (`c.mu` and
the compression window), or on connections that were given the same `deflater` (its scratch buffer
under `dpsLocker`, its `flate.Writer` under `cpsLocker`). If each list runs without violation from
`h`, every location common to both is used in critical sections only (`Bracketed`) and its mutex is
free in `h`, and no caller payload is common, then NO interleaving reaches a violation: the only way
an interleaving can fail to be executable is by asking for a mutex that is held, which is not a
schedule (`runB … = .blocked`; assumption: a `sync.Mutex` excludes). -/
theorem interleave_shared_mutex_well_owned {l1 l2 l : List Ev} {h : Heap} (hi : Interleave l1 l2 l)
    (hbuf : ∀ x, bufOps x l1 = [] ∨ bufOps x l2 = [] ∨
      ((h.cell x).held = none ∧ Bracketed (h.cell x).own (bufOps x l1) ∧ Bracketed (h.cell x).own (bufOps x l2)))
    (hcal : ∀ y, callerOps y l1 = [] ∨ callerOps y l2 = [])
    (r1 : (run h l1).isSome) (r2 : (run h l2).isSome) : runB h l ≠ .violation :=
  interleave_mutex hi hbuf hcal r1 r2

/-- instance: two `doWrite` calls on one connection, in any interleaving: the window is never used by
one while the other holds it, the frame buffers are never mixed up -/
theorem concurrent_writers_same_connection (k1 w1 cl1 k2 w2 cl2 : Bool) (p1 p2 : Pid) (c1 c2 : CBuf)
    (m z f1 f2 : Buf) (h : Heap) (om : Owner) (l : List Ev)
    (hi : Interleave (writeFrame k1 w1 cl1 p1 c1 m z f1) (writeFrame k2 w2 cl2 p2 c2 m z f2) l)
    (hc : c1 ≠ c2) (hmz : m ≠ z) (hmf1 : m ≠ f1) (hmf2 : m ≠ f2) (hzf1 : z ≠ f1) (hzf2 : z ≠ f2) (hff : f1 ≠ f2)
    (hl1 : h.lent c1 = none) (hl2 : h.lent c2 = none)
    (hm : h.cell m = ⟨om, none⟩) (hw : w1 = true ∨ w2 = true → om = .guarded)
    (hz : h.cell z = ⟨.guarded, none⟩) (hf1 : (h.cell f1).own = .pool) (hf2 : (h.cell f2).own = .pool) :
    runB h l ≠ .violation :=
  writers_same_connection k1 w1 cl1 k2 w2 cl2 p1 p2 c1 c2 m z f1 f2 h om l hi hc hmz hmf1 hmf2 hzf1 hzf2 hff
    hl1 hl2 hm hw hz hf1 hf2

/-- instance: two connections sharing one deflater (`deflaterPool.Select`), each inflating a message:
the shared scratch buffer is never visible to both -/
theorem concurrent_readers_shared_deflater (m1 n1 m2 n2 : Bool) (p1 p2 : Pid) (a1 b1 a2 b2 s : Buf)
    (d1 d2 : Option Buf) (h : Heap) (l : List Ev)
    (hi : Interleave (readSingle true m1 n1 p1 a1 b1 s d1) (readSingle true m2 n2 p2 a2 b2 s d2) l)
    (hnd : [a1, b1, a2, b2, s].Nodup)
    (hd1 : d1 ≠ some a1 ∧ d1 ≠ some b1 ∧ d1 ≠ some a2 ∧ d1 ≠ some b2 ∧ d1 ≠ some s)
    (hd2 : d2 ≠ some a1 ∧ d2 ≠ some b1 ∧ d2 ≠ some a2 ∧ d2 ≠ some b2 ∧ d2 ≠ some s)
    (hdd : ∀ x, d1 = some x → d2 ≠ some x)
    (hpool : ∀ x ∈ [a1, b1, a2, b2], (h.cell x).own = .pool) (hs : h.cell s = ⟨.guarded, none⟩)
    (hw1 : ∀ x, d1 = some x → (h.cell x).own = .lib p1) (hw2 : ∀ x, d2 = some x → (h.cell x).own = .lib p2) :
    runB h l ≠ .violation :=
  readers_shared_deflater m1 n1 m2 n2 p1 p2 a1 b1 a2 b2 s d1 d2 h l hi hnd hd1 hd2 hdd hpool hs hw1 hw2

/-! ## (3) Delivered data and caller payloads -/

/-- **Delivered data stays untouched until the application closes it.** In ANY run without violation
(any paths, any interleaving), between `handoff b` and the next `appClose b` no event of the library
touches `b`: no read, no write, no put, no second delivery, and no path can take it from the pool. -/
theorem delivered_untouched_until_close {h h' : Heap} {pre mid post : List Ev} {b : Buf} {p : Pid}
    (hr : run h (pre ++ Ev.handoff b p :: mid ++ post) = some h') (hn : Ev.appClose b ∉ mid) :
    ∀ op, Ev.buf b op ∈ mid → op.libTouch = false :=
  untouched_between hr hn

/-- **A caller's payload is never written**, in any run without violation. -/
theorem caller_payload_never_written {h h' : Heap} {l : List Ev} (hr : run h l = some h') (c : CBuf) (p : Pid) :
    Ev.libWriteCaller c p ∉ l :=
  caller_never_written hr c p

/-- **A caller's payload is not looked at after the call is over** (`callerReturn`), until the
application passes it to another call. -/
theorem caller_payload_unread_after_return {h h' : Heap} {pre mid post : List Ev} {c : CBuf} {p : Pid}
    (hr : run h (pre ++ Ev.callerReturn c p :: mid ++ post) = some h') (hn : ∀ q, Ev.callerLend c q ∉ mid) :
    ∀ op, Ev.caller c op ∉ mid :=
  caller_unread_after_return hr hn

/-! ## (4) The broadcaster -/

/-- **Shared frames are released exactly once.** For every sequence of `Broadcast`s, finished sends and
`Close` that respects the API ("call Close after all the Broadcasts have been completed", once) — any
number of connections, any interleaving — `doClose` has run exactly once if `Close` has been called
and every queued send has finished, and not at all otherwise: never before `Close`, never while a send
is pending, never twice. (Every prefix of such a sequence is such a sequence: the statement holds at
every moment.) The counter is `MaxInt32 + pending` before `Close` and `pending` after. -/
theorem broadcaster_release_once (p : Pid) (c : CBuf) (f0 f1 : Buf) (acts : List BAct) (s : BC)
    (hapi : ApiOk acts) (hr : (BC.init p c f0 f1).run acts = some s) :
    s.released = (if s.closed = true ∧ s.pending = [] then 1 else 0) ∧
    s.state = (if s.closed then 0 else maxInt32) + s.pending.length := by
  have := BC.inv_run _ s acts (BC.inv_init p c f0 f1) (by simpa [BC.Good, BC.init] using hapi) hr
  exact ⟨this.rel, this.counter⟩

/-- … and the events the broadcaster performs never violate ownership: every pending send reads the
frame while the broadcaster still owns it, the payload is read only until `doClose`, and afterwards
the frames are back in the pool and the payload is returned. -/
theorem broadcaster_well_owned (p : Pid) (c : CBuf) (f0 f1 : Buf) (acts : List BAct) (s : BC) (h0 : Heap)
    (hne : f0 ≠ f1) (hc : h0.lent c = none) (h0f : (h0.cell f0).own = .pool) (h1f : (h0.cell f1).own = .pool)
    (hapi : ApiOk acts) (hr : (BC.init p c f0 f1).run acts = some s) :
    ∃ h, run h0 s.trace = some h ∧
      (s.closed = true ∧ s.pending = [] →
        h.lent c = none ∧ (h.cell f0).own = .pool ∧ (h.cell f1).own = .pool) := by
  obtain ⟨h, e1, e2⟩ := BC.trace_run p c f0 f1 acts s h0 hne hc h0f h1f hapi hr
  obtain ⟨hrel, _⟩ := broadcaster_release_once p c f0 f1 acts s hapi hr
  obtain ⟨c1, c2, c3, c4⟩ := BC.consts_run hr
  simp only [BC.init] at c1 c2 c3 c4
  refine ⟨h, e1, fun hdone => ?_⟩
  have hr1 : s.released = 1 := by rw [hrel, if_pos hdone]
  have l1 := e2.lent; have l2 := e2.own0; have l3 := e2.own1
  simp only [hr1, c1, c2, c3, c4] at l1 l2 l3
  exact ⟨by simpa using l1, by simpa using l2, by simpa using l3⟩

/-- **Violating the precondition is API misuse, and it does lead to a double release**: a `Broadcast`
after a `Close` that found nothing pending re-uses the frame that `doClose` has already put back
(whoever took it from the pool meanwhile shares it), and the send that follows runs `doClose` a second
time. Witness: `Broadcast(0); send 0 done; Close; Broadcast(1); send 1 done`. -/
theorem broadcaster_misuse_double_release :
    let acts := [BAct.bcast 0 false, .sendDone 0, .close, .bcast 1 false, .sendDone 1]
    ¬ ApiOk acts ∧
    ((BC.init 1 0 0 1).run acts).map (·.released) = some 2 ∧
    ((BC.init 1 0 0 1).run acts).map (fun s => (run Heap.empty s.trace).isNone) = some true := by
  refine ⟨by simp [ApiOk, BAct.isBcast], by decide, by decide⟩

/-! ## (5) Teardown concurrent with writers in flight -/

/-- **The compression window is reclaimed only when no writer is in flight.** Over EVERY interleaving,
at event granularity, of any number of `doWrite` calls on a server connection, the CAS that closes it,
and the reclamation at the end of `ReadLoop` (`TD`):

* the operations performed on the window location (`c.mu` + `cpsWindow.dict`) never violate the
  protocol — no writer uses the window without holding `c.mu`, none uses it after it went back to the
  pool, it is put at most once;
* when the read loop is about to put the window it holds `c.mu` itself, and no writer is between its
  lock and its unlock;
* conversely a writer between lock and unlock is the holder, so that `TryLock` fails and the window is
  left alone (`reclaimWindow false` = `tryLockFail`);
* once the window is back in the pool, the writers still in flight have nothing left to do with that
  location but their unlock (they found the connection closed: `writeFrameClosed`). -/
theorem reclaim_only_when_idle (m : Buf) (r : Pid) (acts : List TAct) (s : TD)
    (hr : (TD.init m r).run acts = some s) :
    runCell ⟨.guarded, none⟩ (bufOps m s.trace) = some ⟨if s.reclaimed then .pool else .guarded, s.holder⟩ ∧
    (∀ rest, s.reader = some (Ev.put m r :: rest) →
      s.holder = some r ∧ ∀ q l, s.thr q = .running l → bufOps m l = []) ∧
    (∀ q l, s.thr q = .running l → bufOps m l ≠ [] → s.holder = some q ∧ q ≠ r) ∧
    (s.reclaimed = true → ∀ q l, s.thr q = .running l → ∀ op ∈ bufOps m l, op = .unlock q) := by
  have hi := TD.inv_run _ s acts (TD.inv_init m r) hr
  obtain ⟨hm, hrr⟩ := TD.consts_run _ s acts hr
  simp only [TD.init] at hm hrr
  have := TD.reclaim_facts hi
  have hc := hi.cell
  rw [hm, hrr] at this
  rw [hm] at hc
  exact ⟨hc, this⟩

/-! ## Non-vacuity: concrete runs, and what a violation looks like -/

/-- a freshly upgraded idle connection: window `100` parked under `c.mu`, deflater scratch `102` and
shared writer `103` parked, decompression window `101` and reader `104` held by the read loop `1` -/
private def hConn : Heap :=
  { cell := fun b =>
      if b = 100 ∨ b = 102 ∨ b = 103 then ⟨.guarded, none⟩ else if b = 101 ∨ b = 104 then ⟨.lib 1, none⟩ else {}
    lent := fun _ => none }

-- the paths run
example : (run hConn (readSingle true true true 1 0 1 102 (some 101))).isSome := by decide
example : (run hConn (readFragments true true false 1 50 [0, 1, 2] 3 4 102 (some 101))).isSome := by decide
example : (run hConn (writeFrame true true false 2 0 100 103 0)).isSome := by decide
example : (run hConn (readLoopEnd true 1 104 100 (some 101))).isSome := by decide
-- a reader, a writer on the same connection and a WriteFile on another one, interleaved
example : (run hConn ([Ev.get 0 1, .callerLend 0 2, .lock 100 2, .libWrite 0 1, .get 1 2, .lock 200 3, .get 2 3,
    .libWrite 1 2, .libRead 0 1, .handoff 0 1, .libRead 1 2, .put 2 3, .appRead 0, .put 1 2, .unlock 100 2,
    .unlock 200 3, .callerReturn 0 2, .appClose 0])).isSome := by decide
-- the hook projection of a path (what suite `own trace single-compressed` compares with the real code)
example : project "s" (fun b => if b < 50 then .bin else .heap) (readSingle true true true 1 0 1 102 (some 101)) =
    "s:get:b0,s:get:b1,s:put:b1,s:put:b0" := by decide

-- two writers on one connection: a serial schedule runs; a schedule in which the second asks for c.mu while the
-- first holds it is not a schedule; using the window without the lock would be a violation
example : (match runB hConn (writeFrame true true false 2 0 100 103 0 ++ writeFrame true true false 3 1 100 103 1) with
    | .ok _ => true | _ => false) = true := by decide
example : (match runB hConn [.callerLend 0 2, .lock 100 2, .callerLend 1 3, .lock 100 3] with
    | .blocked => true | _ => false) = true := by decide
example : (match runB hConn [.callerLend 0 2, .lock 100 2, .callerLend 1 3, .libWrite 100 3] with
    | .violation => true | _ => false) = true := by decide

-- violations: use after put; double put; two takers of one buffer
example : (run hConn [.get 0 1, .put 0 1, .libRead 0 1]).isNone := by decide
example : (run hConn [.get 0 1, .put 0 1, .put 0 1]).isNone := by decide
example : (run hConn [.get 0 1, .get 0 2]).isNone := by decide
-- forgetting `closer.Data = nil`: the frame buffer is delivered AND put when readMessage returns
example : (run hConn [.get 0 1, .libWrite 0 1, .handoff 0 1, .appRead 0, .put 0 1]).isNone := by decide
-- the library looking at a message the application has not closed yet
example : (run hConn [.get 0 1, .libWrite 0 1, .handoff 0 1, .libRead 0 1]).isNone := by decide
-- masking the caller's payload in place; reading it after the call has returned
example : (run hConn [.callerLend 0 2, .libWriteCaller 0 2]).isNone := by decide
example : (run hConn [.callerLend 0 2, .libReadCaller 0 2, .callerReturn 0 2, .libReadCaller 0 2]).isNone := by decide
-- the reclamation as it was before the `TryLock` fix: the window is put while a writer uses it
example : (run hConn [.lock 100 2, .libRead 100 2, .put 100 1]).isNone := by decide
-- a writer that would not re-check the closed flag under the lock: window used after the reclamation
example : (run hConn [.lock 100 1, .put 100 1, .unlock 100 1, .lock 100 2, .libRead 100 2]).isNone := by decide

-- teardown schedules: a stalled writer makes TryLock fail; after a successful reclamation a late writer
-- takes the closed path
private def w2 : Writer := { p := 2, c := 0, z := 103, f := 0, compressed := true, client := false }
example : ((TD.init 100 1).run [.spawn w2, .wLock 2, .wStep 2, .setClosed, .rTry]).map (·.trace.getLast?) =
    some (some (Ev.tryLockFail 100 1)) := by decide
example : ((TD.init 100 1).run [.spawn w2, .setClosed, .rTry, .rStep, .rStep, .wLock 2, .wStep 2, .wStep 2]).map
    (fun s => (s.reclaimed, s.trace.drop 1)) =
    some (true, [Ev.lock 100 1, .put 100 1, .unlock 100 1, .lock 100 2, .unlock 100 2, .callerReturn 0 2]) := by decide

end Own
