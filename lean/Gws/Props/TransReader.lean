import Gws.Props.TransFrame
import Gws.Model.ReaderStep
/-!
# T3 — the header checks of `readMessage` / `readControl`, translated from reader.go on every run,
equal the model's `Reader.headerCheck`, the control/data dispatch of `Reader.step` and the guards of
`Reader.readControl` (the functions C03/C04/C13 are proved about).
-/
set_option linter.unusedSimpArgs false

namespace TransEquiv

/-- the Go error value an `End` of the read path stands for -/
def errOfEnd : Reader.End → Option GoErr
  | .err (.status c) => some (.status (UInt16.ofNat c))
  | _ => some .io

/-- `readMessage` between `Parse` and the payload read = `Reader.headerCheck` followed by the control / data
dispatch of `Reader.step`.  `fh` is the header array, `h` the model's parsed header with the same two bytes. -/
theorem readMessage_header_eq (cfg : Reader.Cfg) (h : Frame.Hdr) (fh : List UInt8) (rc : Option GoErr)
    (h0 : (goIdx fh 0).toNat = h.b0) (h1 : (goIdx fh 1).toNat = h.b1) :
    Trans.Conn_readMessage_header (c_config_ReadMaxPayloadSize := cfg.readMax) (c_fh := fh) (c_pd_Enabled := cfg.pdEnabled)
        (c_isServer := cfg.isServer) (contentLength := h.len) (readControlResult := rc) =
      match Reader.headerCheck cfg h with
      | some e => .error (errOfEnd e)
      | none =>
        if Frame.getOpcode h.b0 > Facts.dataFrameMaxOpcode then .error rc
        else .ok (Trans.frameHeader_GetOpcode fh, Frame.getMask h.b1, cfg.pdEnabled && Frame.getRSV1 h.b0) := by
  unfold Trans.Conn_readMessage_header Reader.headerCheck Trans.Conn_checkMask
  simp only [GetRSV1_eq, GetRSV2_eq, GetRSV3_eq, GetMask_eq, isDataFrame_eq, h0, h1]
  have hop : (Trans.frameHeader_GetOpcode fh).toNat = Frame.getOpcode h.b0 := by rw [GetOpcode_eq, h0]
  rw [← hop]
  generalize Trans.frameHeader_GetOpcode fh = op
  generalize Frame.getRSV1 h.b0 = r1
  generalize Frame.getRSV2 h.b0 = r2
  generalize Frame.getRSV3 h.b0 = r3
  generalize Frame.getMask h.b1 = mk
  generalize cfg.isServer = sv
  generalize cfg.pdEnabled = pd
  have t1 : (1 : UInt8).toNat = 1 := rfl
  have t2 : (2 : UInt8).toNat = 2 := rfl
  simp only [bne, u8_beq, t1, t2, Facts.opText, Facts.opBinary, Facts.dataFrameMaxOpcode,
    Reader.tooLarge, Reader.protoErr, Facts.closeMessageTooLarge, Facts.closeProtocolError]
  by_cases hl : h.len < 0 ∨ h.len > cfg.readMax
  · have : (decide (h.len < 0) || decide (h.len > cfg.readMax)) = true := by simpa using hl
    simp [this, hl, errOfEnd]
  · have : (decide (h.len < 0) || decide (h.len > cfg.readMax)) = false := by simpa using hl
    simp only [this, hl]
    by_cases e1 : op.toNat = 1 <;> by_cases e2 : op.toNat = 2 <;> by_cases e3 : op.toNat ≤ 2 <;>
      cases r1 <;> cases r2 <;> cases r3 <;> cases mk <;> cases sv <;> cases pd <;>
      (first
        | (simp [errOfEnd, e1, e2, e3]; done)
        | (simp [errOfEnd, e1, e2, e3] <;> omega))

/-- the guards of `readControl` in front of the payload read = the first two tests of `Reader.readControl` -/
theorem readControl_guards_eq (fh : List UInt8) :
    Trans.Conn_readControl_guards fh =
      if !Frame.getFIN (goIdx fh 0).toNat then .error (some (.status (UInt16.ofNat Facts.closeProtocolError)))
      else if Frame.getLengthCode (goIdx fh 1).toNat > Facts.thresholdV1 then .error (some (.status (UInt16.ofNat Facts.closeProtocolError)))
      else .ok (Trans.frameHeader_GetLengthCode fh) := by
  unfold Trans.Conn_readControl_guards
  simp only [GetFIN_eq, ← GetLengthCode_eq, UInt8.lt_iff_toNat_lt, gt_iff_lt, Facts.thresholdV1, Facts.closeProtocolError]
  cases Frame.getFIN (goIdx fh 0).toNat <;> simp

/-! ## non-vacuity -/

example : Trans.Conn_readMessage_header (c_config_ReadMaxPayloadSize := 4096) (c_fh := [0x81, 0x85]) (c_pd_Enabled := false)
    (c_isServer := true) (contentLength := 5) (readControlResult := none) = .ok (1, true, false) := rfl
example : Trans.Conn_readMessage_header (c_config_ReadMaxPayloadSize := 4096) (c_fh := [0xC1, 0x85]) (c_pd_Enabled := false)
    (c_isServer := true) (contentLength := 5) (readControlResult := none) = .error (some (.status 1002)) := rfl
example : Trans.Conn_readMessage_header (c_config_ReadMaxPayloadSize := 4) (c_fh := [0x81, 0x85]) (c_pd_Enabled := false)
    (c_isServer := true) (contentLength := 5) (readControlResult := none) = .error (some (.status 1009)) := rfl

end TransEquiv
