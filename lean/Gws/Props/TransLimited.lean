import Gws.Generated.Trans
import Gws.Model.Limited
/-!
# T3 — `limitedReader.Read` (compress.go), translated from the source on every run, is the per-read step of the
model's bounded copy `Limited.copy` (C13: the inflated size is limited while it is being produced).
-/
namespace TransEquiv

/-- one `Read` through the limited reader: the counter grows by what the source delivered, and the error is replaced by
`CloseMessageTooLarge` exactly when the counter has passed the limit -/
theorem limitedReader_Read_eq (p : Bytes) (N M k : Nat) (e : Option GoErr) :
    Trans.limitedReader_Read p (c_N := (N : Int)) (c_M := (M : Int)) (srcRead := ((k : Int), e))
      = (((N + k : Nat) : Int), (k : Int), if N + k > M then some (GoErr.status 1009) else e) := by
  unfold Trans.limitedReader_Read
  by_cases h : N + k > M
  · have : ((N : Int) + (k : Int) > (M : Int)) := by omega
    simp [h, this]
  · have : ¬ ((N : Int) + (k : Int) > (M : Int)) := by omega
    simp [h, this]

/-- the status of a source read as the Go error value -/
def errOfStatus : Limited.Status → Option GoErr
  | .more => none
  | .eof => some (.named "io.EOF")
  | .fail => some .io

/-- the first iteration of `Limited.copy` decides `tooLarge` exactly when the translated `Read` returns
`CloseMessageTooLarge`, and otherwise hands on the counter the translated `Read` stored -/
theorem copy_step_eq (M k n w : Nat) (st : Limited.Status) (rest : List (Nat × Limited.Status)) (p : Bytes) :
    Limited.copy M ((k, st) :: rest) n w =
      (if (Trans.limitedReader_Read p (c_N := (n : Int)) (c_M := (M : Int)) (srcRead := ((k : Int), errOfStatus st))).2.2 = some (GoErr.status 1009)
        then (w + k, .tooLarge)
        else match st with
          | .more => Limited.copy M rest (n + k) (w + k)
          | .eof => (w + k, .ok)
          | .fail => (w + k, .fail)) := by
  rw [limitedReader_Read_eq]
  conv => lhs; unfold Limited.copy
  by_cases h : n + k > M
  · simp [h]
  · cases st <;> simp [h, errOfStatus]

example : Trans.limitedReader_Read [] (c_N := 100) (c_M := 128) (srcRead := (29, none)) = (129, 29, some (.status 1009)) := by decide
example : Trans.limitedReader_Read [] (c_N := 100) (c_M := 128) (srcRead := (28, none)) = (128, 28, none) := by decide

end TransEquiv
