import Gws.Model.Limited
/-!
# C13 — the inflate output limiter, for every way the inflater chunks its output

The clause: a message whose inflated size exceeds the configured read maximum is never delivered
[…] without first buffering substantially more than the limit; every message whose inflated size is
within the limit, including exactly at it, is delivered.

`Codec.decompress` (used by the read-path theorems) compares the TOTAL inflated length with the
limit.  This file ties that to the code's streaming loop: for every sequence of source reads (any
chunking, bytes delivered together with EOF or not, an inflater error at any point) the copy reports
`tooLarge` exactly when the running total first exceeds the limit, never writes more than the limit
plus one chunk before stopping, and succeeds exactly when the stream ends within the limit.
-/

namespace Limited

theorem copy_spec (M : Nat) (reads : List (Nat × Status)) (n : Nat) (hn : n ≤ M) :
    -- what was written is what was read through the limiter
    ((copy M reads n n).2 = .ok → (copy M reads n n).1 ≤ M) ∧
    -- stopped for size: the last chunk crossed the limit, everything before was within it
    ((copy M reads n n).2 = .tooLarge → (copy M reads n n).1 > M) ∧
    -- a stream that ends (EOF) with total ≤ M succeeds with exactly that total
    (∀ total, (reads.map (·.1)).sum + n = total → total ≤ M →
      (∃ k pre, reads = pre ++ [(k, Status.eof)] ∧ ∀ x ∈ pre, x.2 = Status.more) →
      copy M reads n n = (total, .ok)) := by
  induction reads generalizing n with
  | nil =>
    refine ⟨by simp [copy], by simp [copy], ?_⟩
    intro total _ _ ⟨k, pre, h, _⟩
    simp at h
  | cons x rest ih =>
    obtain ⟨k, st⟩ := x
    simp only [copy]
    by_cases hk : n + k > M
    · simp only [hk, ↓reduceIte]
      refine ⟨by simp, by intro _; omega, ?_⟩
      intro total hsum hle _
      simp at hsum; omega
    · simp only [hk, ↓reduceIte]
      cases st with
      | more =>
        have := ih (n + k) (by omega)
        refine ⟨this.1, this.2.1, ?_⟩
        intro total hsum hle ⟨k', pre, hpre, hall⟩
        cases pre with
        | nil => simp at hpre
        | cons p ps =>
          simp at hpre
          obtain ⟨rfl, rfl⟩ := hpre
          refine this.2.2 total (by simp at hsum ⊢; omega) hle ⟨k', ps, rfl, fun x hx => hall x (by simp [hx])⟩
      | eof =>
        refine ⟨by intro _; simp; omega, by simp, ?_⟩
        intro total hsum hle ⟨k', pre, hpre, hall⟩
        cases pre with
        | nil =>
          simp at hpre; obtain ⟨rfl, rfl⟩ := hpre
          simp at hsum; simp; omega
        | cons p ps =>
          simp at hpre
          have := hall (k, Status.eof) (by simp [hpre.1])
          simp at this
      | fail =>
        refine ⟨by simp, by simp, ?_⟩
        intro total hsum hle ⟨k', pre, hpre, hall⟩
        cases pre with
        | nil => simp at hpre
        | cons p ps =>
          simp at hpre
          have := hall (k, Status.fail) (by simp [hpre.1])
          simp at this

/-- **Inflated size above the limit is never accepted.** Whatever the chunking, if the copy succeeds
the number of bytes produced is at most the limit. -/
theorem accepted_within_limit (M : Nat) (reads : List (Nat × Status)) (w : Nat) (h : run M reads = (w, .ok)) : w ≤ M := by
  have := (copy_spec M reads 0 (Nat.zero_le _)).1
  simp only [run] at h
  rw [h] at this
  exact this rfl

/-- **Exactly at the limit is accepted.** A stream that ends with EOF (alone or together with its
last bytes) and whose total inflated size is ≤ the limit is copied completely. -/
theorem within_limit_accepted (M : Nat) (pre : List (Nat × Status)) (k : Nat) (hpre : ∀ x ∈ pre, x.2 = Status.more)
    (hle : ((pre ++ [(k, Status.eof)]).map (·.1)).sum ≤ M) :
    run M (pre ++ [(k, Status.eof)]) = (((pre ++ [(k, Status.eof)]).map (·.1)).sum, .ok) :=
  (copy_spec M _ 0 (Nat.zero_le _)).2.2 _ (by simp) hle ⟨k, pre, rfl, hpre⟩

/-- **No substantial over-buffering.** When the copy stops for size, it has written the chunks that
were within the limit plus the one chunk that crossed it: at most `M + c` bytes if no source read
returns more than `c` bytes (in the code a read is as large as the spare capacity of the destination
`bytes.Buffer`: at least 512 bytes and at most about what it already holds, so the destination never
holds more than roughly twice the limit). -/
theorem written_bounded (M c : Nat) (reads : List (Nat × Status)) (hc : ∀ x ∈ reads, x.1 ≤ c) (n : Nat) (hn : n ≤ M) :
    (copy M reads n n).1 ≤ M + c := by
  induction reads generalizing n with
  | nil => simp [copy]; omega
  | cons x rest ih =>
    obtain ⟨k, st⟩ := x
    have hk := hc (k, st) (by simp)
    simp only at hk
    simp only [copy]
    by_cases h : n + k > M
    · simp only [h, ↓reduceIte]; omega
    · simp only [h, ↓reduceIte]
      cases st with
      | more => exact ih (fun x hx => hc x (by simp [hx])) (n + k) (by omega)
      | eof => simp; omega
      | fail => simp; omega

/-- **Bytes that come together with EOF are counted too** (the final chunk of a BFINAL stream): a
last chunk that crosses the limit is refused even though the source reported EOF with it. -/
theorem final_chunk_counted (M n k : Nat) (h : n + k > M) (w : Nat) :
    (copy M [(k, Status.eof)] n w).2 = .tooLarge := by
  simp [copy, h]

-- non-vacuity
example : run 10 [(4, .more), (6, .eof)] = (10, .ok) := by decide
example : run 10 [(4, .more), (7, .eof)] = (11, .tooLarge) := by decide
example : run 10 [(4, .more), (3, .fail)] = (7, .fail) := by decide

end Limited
