import Gws.Props.TransHandshake
/-!
# T3 — `doUpgradeFromConn` as the sequence of its translated pieces equals the model's `Hs.serverDecide`

The server's decision procedure is, statement by statement: the authorisation callback (its result is an input), the
four request checks, `responseWriter.Init`, the extension line when compression was negotiated (the header value is an
input: its computation is C12's subject), the key check and the accept line, `WithSubProtocol`, `WithExtraHeader` (a loop
over a Go map, whose order is unspecified: taken from the model), and `responseWriter.Write`'s test of the recorded
error.  Every other piece is translated from the source; `serverDecideT` puts them in the order of the Go function and
only the hand-over of the writer's fields between the pieces is written by hand.  The theorem says that the bytes this
composition would send and the sub-protocol it records are those of `Hs.serverDecide` (rendered), and that it rejects
with the same error.
-/
namespace TransEquiv

open Hs
open Sha1 (asc)

/-- what the composed procedure yields: the bytes of the response before the final blank line and the sub-protocol, or
the error it returns -/
inductive DecisionT where
  | accept (headerBytes : Bytes) (subprotocol : Str)
  | reject (e : Option GoErr)
deriving DecidableEq

/-- `doUpgradeFromConn`, assembled from its translated pieces in the order of the Go function -/
def serverDecideT (o : ServerOpt) (r : Request) (auth : Bool) (ext : Option Str) : DecisionT :=
  if auth = false then .reject (errOfSErr .unauthorized) else
  match Trans.Upgrader_requestChecks (r_Header := r.header) (r_Method := r.method) with
  | .error (_, e) => .reject e
  | .ok _ =>
    match Trans.responseWriter_Init [] with
    | .error _ => .reject none
    | .ok b0 =>
      let b1 := match ext with
        | some v => Trans.responseWriter_WithHeader kExtensions v b0
        | none => b0
      match Trans.Upgrader_keyAndAccept (r_Header := r.header) (rw_b := b1) with
      | .error (_, _, e) => .reject e
      | .ok b2 =>
        let w := Trans.responseWriter_WithSubProtocol r.header o.subProtocols (c_b := b2) (c_err := none) (c_subprotocol := asc "")
        -- WithExtraHeader (loop over a Go map): the model's lines, rendered
        let b4 := w.1 ++ renderLines ((deleteProtectedHeaders o.responseHeader).map (fun e => (e.1, get (deleteProtectedHeaders o.responseHeader) e.1)))
        -- responseWriter.Write: `if c.err != nil { return c.err }`
        match w.2.1 with
        | some e => .reject (some e)
        | none => .accept b4 w.2.2

/-- the model's decision as bytes -/
def viewDecision : Decision → DecisionT
  | .accept ls sp => .accept (asc "HTTP/1.1 101 Switching Protocols\r\n" ++ renderLines ls) sp
  | .reject e => .reject (errOfSErr e)

private theorem renderLines_append (a b : List (Str × Str)) :
    renderLines (a ++ b) = renderLines a ++ renderLines b := by
  simp [renderLines, List.flatMap_append]

private theorem Init_eq :
    Trans.responseWriter_Init [] = .ok (asc "HTTP/1.1 101 Switching Protocols\r\n" ++ renderLines RW.init.lines) := by
  unfold Trans.responseWriter_Init
  congr 1

/-- everything after the key check, for the model's writer at that point -/
private theorem tail_eq (o : ServerOpt) (r : Request) (rw : RW) (he : rw.err = none) (hs : rw.subprotocol = []) :
    (let w := Trans.responseWriter_WithSubProtocol r.header o.subProtocols
        (c_b := asc "HTTP/1.1 101 Switching Protocols\r\n" ++ renderLines rw.lines) (c_err := none) (c_subprotocol := asc "")
     let b4 := w.1 ++ renderLines ((deleteProtectedHeaders o.responseHeader).map (fun e => (e.1, get (deleteProtectedHeaders o.responseHeader) e.1)))
     match w.2.1 with
     | some e => DecisionT.reject (some e)
     | none => DecisionT.accept b4 w.2.2) =
    viewDecision
      (match ((rw.withSubProtocol r.header o.subProtocols).withExtraHeader (deleteProtectedHeaders o.responseHeader)).err with
       | some e => .reject e
       | none => .accept ((rw.withSubProtocol r.header o.subProtocols).withExtraHeader (deleteProtectedHeaders o.responseHeader)).lines
                   ((rw.withSubProtocol r.header o.subProtocols).withExtraHeader (deleteProtectedHeaders o.responseHeader)).subprotocol) := by
  have h := WithSubProtocol_eq rw r.header o.subProtocols (asc "HTTP/1.1 101 Switching Protocols\r\n")
  have h0 : asc "" = ([] : Bytes) := by decide
  rw [he, hs] at h
  simp only [Option.bind_none] at h
  rw [h0, h]
  simp only [RW.withExtraHeader]
  cases hq : (rw.withSubProtocol r.header o.subProtocols).err with
  | none => simp [viewDecision, renderLines_append, List.append_assoc]
  | some e => cases e <;> simp [viewDecision, errOfSErr]

/-- the composition of the translated pieces of `doUpgradeFromConn` is `Hs.serverDecide` -/
theorem serverDecide_eq_translated (o : ServerOpt) (r : Request) (auth : Bool) (ext : Option Str) :
    serverDecideT o r auth ext = viewDecision (serverDecide o r auth ext) := by
  unfold serverDecideT serverDecide
  cases auth
  · simp [viewDecision]
  rw [requestChecks_eq, Init_eq]
  unfold requestChecks
  by_cases h1 : r.method ≠ asc "GET"
  · simp [h1, viewDecision]
  by_cases h2 : foldEq (get r.header kVersion) (asc "13") = false
  · simp [h1, h2, viewDecision]
  by_cases h3 : httpHeaderContainsToken (vals r.header kConnection) (asc "Upgrade") = false
  · simp [h1, h2, h3, viewDecision]
  by_cases h4 : foldEq (get r.header kUpgrade) (asc "websocket") = false
  · simp [h1, h2, h3, h4, viewDecision]
  simp only [h1, h2, h3, h4, ↓reduceIte, Bool.true_eq_false]
  cases ext with
  | none =>
    simp only [keyAndAccept_eq]
    by_cases hk : get r.header kKey = []
    · simp [hk, viewDecision]
    · simp only [hk, ↓reduceIte, List.append_assoc, ← renderLines_append]
      exact tail_eq o r (RW.init.withHeader kAccept (acceptKey (get r.header kKey))) rfl rfl
  | some v =>
    simp only [keyAndAccept_eq, WithHeader_eq]
    by_cases hk : get r.header kKey = []
    · simp [hk, viewDecision]
    · simp only [hk, ↓reduceIte, List.append_assoc, ← renderLines_append]
      exact tail_eq o r ((RW.init.withHeader kExtensions v).withHeader kAccept (acceptKey (get r.header kKey))) rfl rfl

end TransEquiv
