import Gws.Generated.Trans
import Gws.Lemmas.Trans
import Gws.Model.Window
import Gws.Model.Pool
/-!
# T3 — `slideWindow.Write`, `internal.BinaryPow`, `internal.binaryCeil`, `internal.Max/Min`, translated
from the source on every run, equal the model functions C17 / C02 / C04 are proved about.
-/
namespace TransEquiv

/-- `slideWindow.Write` = `Win.write` (all four branches); the byte count it returns is `len(p)`, or 0 for a
disabled window -/
theorem slideWindow_Write_eq (w : Win) (p : Bytes) :
    Trans.slideWindow_Write p (c_enabled := w.enabled) (c_dict := w.dict) (c_size := (w.size : Int)) =
      ((w.write p).dict, (if w.enabled then (p.length : Int) else 0), none) := by
  unfold Trans.slideWindow_Write Win.write
  cases hE : w.enabled
  · simp
  · simp only [Bool.not_true, Bool.false_eq_true, ↓reduceIte, Int.ofNat_eq_natCast]
    by_cases h1 : p.length + w.dict.length ≤ w.size
    · have : ((p.length : Int) + (w.dict.length : Int) ≤ (w.size : Int)) := by omega
      simp [h1, this]
    · have h1' : ¬ ((p.length : Int) + (w.dict.length : Int) ≤ (w.size : Int)) := by omega
      simp only [h1, h1', decide_false, Bool.false_eq_true, ↓reduceIte]
      by_cases hm : w.size - w.dict.length > 0
      · have hm' : ((w.size : Int) - (w.dict.length : Int) > 0) := by omega
        simp only [hm, hm', decide_true, ↓reduceIte, int_sub_toNat]
        generalize List.drop (w.size - w.dict.length) p = p1
        generalize w.dict ++ List.take (w.size - w.dict.length) p = d1
        by_cases h2 : p1.length ≥ w.size
        · have h2' : ((p1.length : Int) ≥ (w.size : Int)) := by omega
          simp [h2, h2']
        · have h2' : ¬ ((p1.length : Int) ≥ (w.size : Int)) := by omega
          simp [h2, h2']
      · have hm' : ¬ ((w.size : Int) - (w.dict.length : Int) > 0) := by omega
        simp only [hm, hm', decide_false, Bool.false_eq_true, ↓reduceIte, int_sub_toNat]
        by_cases h2 : p.length ≥ w.size
        · have h2' : ((p.length : Int) ≥ (w.size : Int)) := by omega
          simp [h2, h2']
        · have h2' : ¬ ((p.length : Int) ≥ (w.size : Int)) := by omega
          simp [h2, h2']

/-- `BinaryPow(n)` = 2^n: the window size `initialize` computes is the model's `Win.init` size -/
theorem BinaryPow_eq (n : Nat) : Trans.internal_BinaryPow (n : Int) = (((Win.init n).size : Nat) : Int) := by
  unfold Trans.internal_BinaryPow Win.init
  simp only [Int.toNat_natCast]
  have : ∀ (k : Nat) (a : Int), (List.range k).foldl (fun ans i' => ans * (2 ^ 1 : Int)) a = a * ((2 ^ k : Nat) : Int) := by
    intro k
    induction k with
    | zero => intro a; simp
    | succ k ih => intro a; rw [List.range_succ, List.foldl_append, ih]; simp [Nat.pow_succ, Int.mul_assoc]
  simpa using this n 1

/-- `binaryCeil` = the model's bit trick on `BitVec 32` -/
theorem binaryCeil_eq (v : UInt32) : (Trans.internal_binaryCeil v).toBitVec = Pool.binaryCeil v.toBitVec := by
  unfold Trans.internal_binaryCeil Pool.binaryCeil
  simp

theorem Max_eq (a b : Int) : Trans.internal_Max a b = max a b := by
  unfold Trans.internal_Max; simp only [gt_iff_lt, decide_eq_true_eq]; split <;> omega
theorem Min_eq (a b : Int) : Trans.internal_Min a b = min a b := by
  unfold Trans.internal_Min; simp only [decide_eq_true_eq]; split <;> omega

/-- `doWrite`: the payload of a data frame (Continuation, Text, Binary) enters the compression window, the payload of a
control frame does not (defect 10 of DESIGN section 6 was exactly this rule) -/
theorem doWrite_windowRule_eq (w : Win) (opcode : UInt8) (payload : Bytes) :
    Trans.Conn_doWrite_windowRule (c_cpsWindow_enabled := w.enabled) (c_cpsWindow_dict := w.dict) (c_cpsWindow_size := (w.size : Int))
        (opcode := opcode) (payload := payload)
      = .ok (if opcode.toNat ≤ Facts.dataFrameMaxOpcode then (w.write payload).dict else w.dict) := by
  unfold Trans.Conn_doWrite_windowRule
  rw [slideWindow_Write_eq]
  have h : Trans.Opcode_isDataFrame opcode = decide (opcode.toNat ≤ Facts.dataFrameMaxOpcode) := by
    revert opcode; apply u8_forall; decide +kernel
  rw [h]
  by_cases hd : opcode.toNat ≤ Facts.dataFrameMaxOpcode <;> simp [hd]

/-- `Broadcaster.writeFrame`: the broadcast payload enters the window iff the shared frame has RSV1 set, i.e. was built
compressed (defect 11) -/
theorem broadcast_windowRule_eq (w : Win) (frame payload : Bytes) :
    Trans.Broadcaster_writeFrame_windowRule (c_payload := payload) (socket_cpsWindow_enabled := w.enabled) (socket_cpsWindow_dict := w.dict)
        (socket_cpsWindow_size := (w.size : Int)) (frame := frame)
      = .ok (if ((goIdx frame 0).toNat / 64 % 2 = 1) then (w.write payload).dict else w.dict) := by
  unfold Trans.Broadcaster_writeFrame_windowRule
  rw [slideWindow_Write_eq]
  have h : ∀ b : UInt8, ((b &&& (64 : UInt8)) != (0 : UInt8)) = decide (b.toNat / 64 % 2 = 1) := by
    intro b; revert b; apply u8_forall; decide +kernel
  rw [h]
  by_cases hd : (goIdx frame 0).toNat / 64 % 2 = 1 <;> simp [hd]

/-- which compressor a connection's deflater is built with (the constructor calls themselves stay outside the translation:
their arguments are what the property depends on) -/
inductive Built where
  | default (level : Int)     -- `flate.NewWriter`: the library's 32 KiB window
  | window (size : Int)       -- `flate.NewWriterWindow(size)`: matches at most `size` bytes back
deriving DecidableEq, Repr

/-- `deflater.initialize`: the side's own negotiated window bits pick the compressor — the unrestricted 32 KiB writer only for
15 bits, otherwise a writer limited to exactly 2^bits = the size of the model's window (`Win.init bits`), the bound every
back-reference of C02 is proved against -/
theorem compressor_window (isServer : Bool) (serverBits clientBits : Nat) (level : Int) :
    Trans.deflater_initialize_window (R := Built) (ret := fun _ => Built.default 0)
        (flate_NewWriter := fun l _ => .error (Built.default l)) (flate_NewWriterWindow := fun n _ => .error (Built.window n))
        (options_ClientMaxWindowBits := (clientBits : Int)) (options_Level := level) (options_ServerMaxWindowBits := (serverBits : Int))
        (isServer := isServer)
      = .error (let bits := if isServer then serverBits else clientBits
                if bits = 15 then Built.default level else Built.window (((Win.init bits).size : Nat) : Int)) := by
  unfold Trans.deflater_initialize_window
  cases isServer <;> simp only [Bool.false_eq_true, ↓reduceIte, BinaryPow_eq]
  · by_cases h : clientBits = 15
    · subst h; rfl
    · have : ((clientBits : Int) == (15 : Int)) = false := by simp; omega
      simp [this, h]
  · by_cases h : serverBits = 15
    · subst h; rfl
    · have : ((serverBits : Int) == (15 : Int)) = false := by simp; omega
      simp [this, h]

example : Trans.deflater_initialize_window (R := Built) (ret := fun _ => Built.default 0)
    (flate_NewWriter := fun l _ => .error (Built.default l)) (flate_NewWriterWindow := fun n _ => .error (Built.window n))
    (options_ClientMaxWindowBits := 15) (options_Level := 1) (options_ServerMaxWindowBits := 9) (isServer := true)
      = .error (Built.window 512) := by rfl

example : Trans.slideWindow_Write [1, 2, 3] (c_enabled := true) (c_dict := [9, 8]) (c_size := 4) = ([8, 1, 2, 3], 3, none) := by decide
example : Trans.internal_binaryCeil 129 = 256 ∧ Trans.internal_BinaryPow 8 = 256 := by decide

end TransEquiv
