import Gws.Lemmas.ReaderLoop
/-!
# C16 (read side) — UTF-8 is checked on whole text messages, after reassembly and inflation

Statement: with the check enabled, a text message is delivered only if its complete payload (all
fragments joined, inflated if compressed) is well-formed UTF-8 (RFC 3629); otherwise the connection
is failed with status 1007 and the message is not delivered.  Binary messages are never checked;
with the check disabled nothing is ever rejected with 1007.
-/

namespace Reader

/-- **C16, read gate on the loop.** With `checkUtf8` on, every text message the loop delivers — from
any state, on any input, however fragmented or compressed — is valid UTF-8. -/
theorem read_gate (cfg : Cfg) (codec : Codec) (st : State) (b : Bytes) (hu : cfg.checkUtf8 = true) :
    ∀ p, Ev.msg 1 p ∈ (readLoop cfg codec st b).evs → Spec.Utf8.valid p = true := by
  fun_induction readLoop cfg codec st b with
  | case1 st b evs e hstep =>
    intro p hm
    rw [(step_stop hstep).1] at hm
    simp at hm
  | case2 st b st' evs rest hstep t ih =>
    intro p hm
    simp only [List.mem_append] at hm
    rcases hm with hm | hm
    · have := ((step_ok hstep).2 _ hm).2
      simpa [Utf8.checkEncoding, hu] using this
    · exact ih p hm

/-- **C16, the gate decides exactly validity** (uncompressed complete text message): delivered iff
valid; if not valid, the result is the error with Close status 1007. -/
theorem read_gate_text (cfg : Cfg) (codec : Codec) (st : State) (data : Bytes) (hu : cfg.checkUtf8 = true) :
    (Spec.Utf8.valid data = true → emitMessage cfg codec st 1 data false = .inl (st, some (.msg 1 data))) ∧
    (Spec.Utf8.valid data = false → emitMessage cfg codec st 1 data false = .inr (.err (.coded 1007))) := by
  unfold emitMessage
  constructor <;> intro hv <;> simp [Utf8.checkEncoding, hu, hv] <;> rfl

/-- … and for a compressed text message the gate is applied to the inflated bytes. -/
theorem read_gate_text_compressed (cfg : Cfg) (codec : Codec) (st : State) (data out : Bytes)
    (hu : cfg.checkUtf8 = true) (hd : codec.decompress cfg.readMax st.dps.dict data = .ok out) :
    (Spec.Utf8.valid out = true →
      emitMessage cfg codec st 1 data true = .inl ({ st with dps := st.dps.write out }, some (.msg 1 out))) ∧
    (Spec.Utf8.valid out = false → emitMessage cfg codec st 1 data true = .inr (.err (.coded 1007))) := by
  unfold emitMessage
  simp only [if_true, hd]
  constructor <;> intro hv <;> simp [Utf8.checkEncoding, hu, hv] <;> rfl

/-- **C16, binary is never checked**: whatever the bytes and the setting, an uncompressed binary
message passes the gate; a compressed one passes once it inflates. -/
theorem binary_never_checked (cfg : Cfg) (codec : Codec) (st : State) (data : Bytes) :
    emitMessage cfg codec st 2 data false = .inl (st, some (.msg 2 data)) ∧
    ∀ out, codec.decompress cfg.readMax st.dps.dict data = .ok out →
      emitMessage cfg codec st 2 data true = .inl ({ st with dps := st.dps.write out }, some (.msg 2 out)) := by
  unfold emitMessage
  constructor
  · simp [Utf8.checkEncoding]
  · intro out hd
    simp [Utf8.checkEncoding, hd]

/-- **C16, check off ⇒ never 1007.** -/
theorem check_off_never_rejects (cfg : Cfg) (codec : Codec) (st : State) (opcode : Nat) (data : Bytes)
    (compressed : Bool) (hu : cfg.checkUtf8 = false) :
    emitMessage cfg codec st opcode data compressed ≠ .inr (.err (.coded 1007)) := by
  unfold emitMessage
  have h11 : Facts.closeInternalErr = 1011 := rfl
  simp only [Utf8.checkEncoding, hu, Bool.false_and, Bool.false_eq_true, if_false, Bool.not_true, h11]
  split
  · split <;> simp
  · simp

/-! ## non-vacuity -/

/-- `C3 A9` ("é") split over two fragments is delivered: the check runs on the joined message -/
example (codec : Codec) :
    let cfg : Cfg := { isServer := false, pdEnabled := false, readMax := 16, checkUtf8 := true }
    (readLoop cfg codec {} [0x01, 0x01, 0xC3, 0x80, 0x01, 0xA9]).evs = [.msg 1 [0xC3, 0xA9]] := by
  intro cfg
  have s1 : step cfg codec {} [0x01, 0x01, 0xC3, 0x80, 0x01, 0xA9] =
      .ok { cont := { initialized := true, compressed := false, opcode := 1, buffer := [0xC3] } } [] [0x80, 0x01, 0xA9] := by
    reader_eval [cfg]
  have s2 : step cfg codec { cont := { initialized := true, compressed := false, opcode := 1, buffer := [0xC3] } }
      [0x80, 0x01, 0xA9] = .ok {} [.msg 1 [0xC3, 0xA9]] [] := by
    reader_eval [cfg]
  have s3 : step cfg codec {} [] = .stop [] (.err .other) := by
    reader_eval [cfg]
  rw [readLoop_ok s1, readLoop_ok s2, readLoop_stop s3]
  rfl

/-- an overlong encoding (`C0 80`) as text: 1007, nothing delivered; the same bytes as binary pass -/
example (codec : Codec) :
    let cfg : Cfg := { isServer := false, pdEnabled := false, readMax := 16, checkUtf8 := true }
    step cfg codec {} [0x81, 0x02, 0xC0, 0x80] = .stop [] (.err (.coded 1007)) ∧
    step cfg codec {} [0x82, 0x02, 0xC0, 0x80] = .ok {} [.msg 2 [0xC0, 0x80]] [] := by
  intro cfg
  constructor
  · reader_eval [cfg]
  · reader_eval [cfg]

end Reader
