import Gws.Model.Conc.Parallel
/-!
# C07 — parallel handling: bounded parallelism, exactly once, panics absorbed

Statement (the parallel clauses): with parallel handling each message still reaches the handler
exactly once, never more than the configured number of handlers run concurrently (the reader applies
back-pressure instead), and a panic inside a message handler is absorbed by the configured recovery
function without losing or duplicating later messages.

Every theorem is over all schedules (any interleaving of the reader's dispatches with handler
completions, any assignment of return/panic outcomes), unbounded.  Assumed: a channel send on a
full buffered channel blocks; `defer`/`recover` semantics as described in the model's header.
-/

namespace Par

structure Inv (msgs : List Nat) (s : State) : Prop where
  bounded : s.running.length ≤ s.cap
  order : s.dispatched ++ s.inbox = msgs
  once : s.dispatched.Perm (s.handled ++ s.running)

theorem inv_init (cap : Nat) (rec : Bool) (msgs : List Nat) : Inv msgs (init cap rec msgs) := by
  constructor <;> simp [init]

theorem step_frame {s s' : State} {a : Action} (h : step s a = some s') : s'.cap = s.cap ∧ s'.recovers = s.recovers := by
  cases a with
  | dispatch =>
    simp only [step] at h
    split at h
    · simp at h
    · split at h
      · simp at h
      · split at h
        · simp at h; subst h; simp
        · simp at h
  | finish m o =>
    simp only [step] at h
    split at h
    · simp at h
    · split at h <;> (simp at h; subst h; simp)

theorem inv_step {msgs : List Nat} {s s' : State} {a : Action} (hi : Inv msgs s) (hc : s.crashed = false)
    (h : step s a = some s') : s'.crashed = true ∨ Inv msgs s' := by
  obtain ⟨h1, h2, h3⟩ := hi
  cases a with
  | dispatch =>
    simp only [step, hc, Bool.false_eq_true, ↓reduceIte] at h
    split at h
    · simp at h
    · rename_i m rest hin
      split at h
      · rename_i hlt
        simp at h; subst h
        right
        refine ⟨by simp; omega, by simp [← h2, hin], ?_⟩
        simp only
        exact (List.perm_append_comm.trans (List.Perm.cons _ h3)).trans List.perm_middle.symm
      · simp at h
  | finish m o =>
    simp only [step, hc, Bool.false_eq_true, false_or] at h
    split at h
    · simp at h
    · rename_i hm
      have hm' : m ∈ s.running := by simpa using hm
      split at h
      · simp at h; subst h; left; rfl
      · simp at h; subst h
        right
        refine ⟨?_, h2, ?_⟩
        · simp only; rw [List.length_erase_of_mem hm']; omega
        · simp only
          refine h3.trans ?_
          rw [List.append_assoc]
          exact List.Perm.append_left _ (List.perm_cons_erase hm')

/-- **Every schedule.** Unless an unrecovered panic has killed the process, the invariant holds
after any sequence of dispatches and handler completions. -/
theorem inv_run (cap : Nat) (rec : Bool) (msgs : List Nat) (as : List Action) (s : State)
    (h : run (init cap rec msgs) as = some s) : s.crashed = true ∨ Inv msgs s := by
  suffices ∀ s0, (s0.crashed = true ∨ Inv msgs s0) → ∀ as s, run s0 as = some s → s.crashed = true ∨ Inv msgs s from
    this _ (Or.inr (inv_init cap rec msgs)) as s h
  intro s0 h0 as
  induction as generalizing s0 with
  | nil => intro s h; simp [run] at h; subst h; exact h0
  | cons a as ih =>
    intro s h
    simp only [run] at h
    split at h
    · simp at h
    · rename_i s1 hs1
      rcases h0 with hc | hi
      · -- a crashed process takes no further step
        cases a <;> simp [step, hc] at hs1
      · cases hcr : s0.crashed with
        | true => cases a <;> simp [step, hcr] at hs1
        | false => exact ih s1 (inv_step hi hcr hs1) s h

/-- **Never more than the configured number of handlers at once.** -/
theorem parallel_bounded (cap : Nat) (rec : Bool) (msgs : List Nat) (as : List Action) (s : State)
    (h : run (init cap rec msgs) as = some s) (hc : s.crashed = false) : s.running.length ≤ cap := by
  rcases inv_run cap rec msgs as s h with h1 | h1
  · simp [hc] at h1
  · have hcap : ∀ (as : List Action) (s0 s : State), run s0 as = some s → s.cap = s0.cap := by
      intro as; induction as with
      | nil => intro s0 s h; simp [run] at h; subst h; rfl
      | cons a as ih =>
        intro s0 s h; simp only [run] at h
        split at h
        · simp at h
        · rename_i s1 hs1; rw [ih s1 s h, (step_frame hs1).1]
    have := hcap as _ s h
    have := h1.bounded
    simp [init] at *; omega

/-- **Back-pressure, not loss.** While `cap` handlers are running the reader's dispatch is not
enabled (it blocks on the channel); the undispatched messages stay in the inbox in wire order. -/
theorem reader_blocks_at_limit (s : State) (h : s.running.length = s.cap) : step s .dispatch = none := by
  simp only [step]
  split
  · rfl
  · split
    · rfl
    · simp [h]

/-- **Exactly once, in wire order of dispatch.** The messages dispatched so far are a prefix of the
wire order, and each of them is either running or handled — exactly once (as multisets). When the
inbox is empty and no handler is running, the handled messages are a permutation of all messages. -/
theorem each_message_once (cap : Nat) (rec : Bool) (msgs : List Nat) (as : List Action) (s : State)
    (h : run (init cap rec msgs) as = some s) (hc : s.crashed = false) :
    s.dispatched <+: msgs ∧ s.dispatched.Perm (s.handled ++ s.running) ∧
    (s.inbox = [] → s.running = [] → s.handled.Perm msgs) := by
  rcases inv_run cap rec msgs as s h with h1 | h1
  · simp [hc] at h1
  · refine ⟨⟨s.inbox, h1.order⟩, h1.once, ?_⟩
    intro hi hr
    have := h1.order; have := h1.once
    simp_all
    exact this.symm

/-- **A recovered panic is a return.** With a recovery function that recovers, a handler that
panics changes the state exactly as one that returns: its slot is released, it counts as handled,
and no later message is lost or duplicated (`each_message_once` holds for the whole schedule). -/
theorem panic_absorbed (s : State) (m : Nat) (hr : s.recovers = true) :
    step s (.finish m .panics) = step s (.finish m .returns) := by
  simp [step, hr]

/-- and it never crashes the process -/
theorem no_crash_when_recovering (cap : Nat) (msgs : List Nat) (as : List Action) (s : State)
    (h : run (init cap true msgs) as = some s) : s.crashed = false := by
  suffices ∀ s0, s0.crashed = false → s0.recovers = true → ∀ as s, run s0 as = some s → s.crashed = false from
    this _ rfl rfl as s h
  intro s0 hc hr as
  induction as generalizing s0 with
  | nil => intro s h; simp [run] at h; subst h; exact hc
  | cons a as ih =>
    intro s h
    simp only [run] at h
    split at h
    · simp at h
    · rename_i s1 hs1
      have hf := step_frame hs1
      refine ih s1 ?_ (by rw [hf.2, hr]) s h
      cases a with
      | dispatch =>
        simp only [step, hc, Bool.false_eq_true, ↓reduceIte] at hs1
        split at hs1
        · simp at hs1
        · split at hs1 <;> simp at hs1
          subst hs1; rfl
      | finish m o =>
        simp only [step, hc, Bool.false_eq_true, false_or, hr, not_true_eq_false, and_false, ↓reduceIte] at hs1
        split at hs1
        · simp at hs1
        · simp at hs1; subst hs1; rfl

/-- Witness: with the DEFAULT recovery function (which does not call `recover`) a panicking handler
kills the process. This is the documented behaviour ("no recover is done"), recorded here so that the
hypothesis of `panic_absorbed` is visibly necessary. -/
theorem unrecovered_panic_crashes :
    (run (init 2 false [1, 2]) [.dispatch, .finish 1 .panics]).map (·.crashed) = some true := by decide

-- non-vacuity: limit 2, three messages, one handler panics and is recovered
example : (run (init 2 true [1, 2, 3]) [.dispatch, .dispatch, .finish 1 .panics, .dispatch, .finish 3 .returns, .finish 2 .returns]).map
    (fun s => (s.handled, s.running, s.inbox, s.crashed)) = some ([1, 3, 2], [], [], false) := by decide
example : step (init 2 true [1, 2, 3]) .dispatch ≠ none ∧
    (run (init 2 true [1, 2, 3]) [.dispatch, .dispatch, .dispatch]) = none := by decide

end Par
