import Gws.Lemmas.Close
/-!
# C06 — close handshake: right reply, one Close frame, nothing after it (decision-table part)

Statement: on receiving a Close frame gws reports the peer's status code and reason to the
application, answers with exactly one Close frame (empty if none was given; 1002 for a one-byte body
or a status RFC 6455 §7.4 forbids on the wire: below 1000, 1004-1006, 1015, 1016-2999, 5000 and
above; 1007 for a non-UTF-8 reason when checking is on; the same status for 3000-4999; otherwise
1000) and closes the transport.  […] a locally requested close carries the caller's status (at
least 1000) and reason cut to 123 bytes […].

This file: the reply table and the local close body, for all 65536 codes and all reasons, by
arithmetic over the literals `tools/factgen` extracts from `emitClose`/`writeClose`/`WriteClose`
(`Facts`), so a changed literal breaks these proofs.  The schedule part (at most one Close frame,
nothing after it, later writes rejected) is in `Gws/Props/C06Conc.lean`.
-/

namespace Close

/-- **C06, reply table.** For every Close body (any code, any reason, checking on or off) the
status `emitClose` answers with is one the property allows, and the application is told the peer's
code and reason. -/
theorem closeReply_spec (utf8 : Bool) (body : Bytes) :
    (Reader.End.peerClose (emitClose utf8 body)).replyStatus ∈ Spec.closeReplies utf8 body ∧
    ((emitClose utf8 body).realCode, (emitClose utf8 body).reason) = Spec.closeSeen body :=
  emitClose_spec utf8 body

/-- the table, spelled out for a body with a status code and a valid (or unchecked) reason -/
theorem closeReply_table (utf8 : Bool) (a b : UInt8) (reason : Bytes)
    (hr : utf8 = false ∨ Spec.Utf8.valid reason = true) :
    let code := a.toNat * 256 + b.toNat
    (emitClose utf8 (a :: b :: reason)).response =
      if code < 1000 ∨ (1004 ≤ code ∧ code ≤ 1006) ∨ code = 1015 ∨ (1016 ≤ code ∧ code ≤ 2999) ∨ code ≥ 5000 then 1002
      else if 3000 ≤ code ∧ code ≤ 4999 then code else 1000 := by
  intro code
  have hc : Utf8.checkEncoding utf8 Facts.opClose reason = true := by
    rw [checkEncoding_close]; rcases hr with h | h <;> simp [h]
  simp only [emitClose, hc, Bool.not_true, Bool.false_eq_true, ↓reduceIte, be16_eq, classify_spec]
  rfl

/-- a non-UTF-8 reason with checking on is answered with 1007 -/
theorem closeReply_bad_reason (a b : UInt8) (reason : Bytes) (hv : Spec.Utf8.valid reason = false) :
    (emitClose true (a :: b :: reason)).response = 1007 := by
  have hc : Utf8.checkEncoding true Facts.opClose reason = false := by
    rw [checkEncoding_close]; simp [hv]
  simp [emitClose, hc]; rfl

theorem statusBytes_length (c : Nat) : (statusBytes c).length = if c = 0 then 0 else 2 := by
  unfold statusBytes; split <;> simp

/-- **C06, local close.** `WriteClose(code, reason)` sends a Close body made of the caller's status
raised to at least 1000, followed by the reason cut to 123 bytes (125 bytes in all). -/
theorem local_close_frame (code : Nat) (reason : Bytes) :
    localCloseBody code reason = statusBytes (max 1000 code) ++ reason.take 123 := by
  have h1 : Facts.localCloseMinCode = 1000 := rfl
  have h2 : Facts.localCloseRaisedTo = 1000 := rfl
  have h3 : Facts.closeBodyCut = 125 := rfl
  unfold localCloseBody cutBody
  simp only [h1, h2, h3]
  have hmax : (if code < 1000 then 1000 else code) = max 1000 code := by
    split <;> omega
  rw [hmax]
  have hl : (statusBytes (max 1000 code)).length = 2 := by
    rw [statusBytes_length]; have : max 1000 code ≠ 0 := by omega
    simp [this]
  split
  · rw [List.take_append, hl]
    have : List.take 125 (statusBytes (max 1000 code)) = statusBytes (max 1000 code) := by
      apply List.take_of_length_le; omega
    rw [this]
  · rename_i h
    simp only [List.length_append, hl] at h
    rw [List.take_of_length_le (by omega)]

/-- the Close body never exceeds the 125-byte control-frame limit -/
theorem local_close_length (code : Nat) (reason : Bytes) : (localCloseBody code reason).length ≤ 125 := by
  rw [local_close_frame]
  simp only [List.length_append, List.length_take]
  have := statusBytes_length (max 1000 code)
  have h0 : max 1000 code ≠ 0 := by omega
  simp [h0] at this
  omega

-- non-vacuity: the classes of the table on concrete bodies
theorem valid_nil : Spec.Utf8.valid [] = true := by simp [Spec.Utf8.valid]
example : (emitClose true [0x03, 0xe8]).response = 1000 := by
  have := closeReply_table true 0x03 0xe8 [] (Or.inr valid_nil); simpa using this
example : (emitClose true [0x03, 0xf6]).response = 1000 := by      -- 1014
  have := closeReply_table true 0x03 0xf6 [] (Or.inr valid_nil); simpa using this
example : (emitClose true [0x03, 0xed]).response = 1002 := by      -- 1005
  have := closeReply_table true 0x03 0xed [] (Or.inr valid_nil); simpa using this
example : (emitClose true [0x0b, 0xb8]).response = 3000 := by
  have := closeReply_table true 0x0b 0xb8 [] (Or.inr valid_nil); simpa using this
example : (emitClose true [0xff]).response = 1002 := by simp [emitClose]; rfl
example : (emitClose true []).response = 0 := by simp [emitClose]

end Close
