import Gws.Model.Conc.TaskQueue
/-!
# C15 — async task queue: every task once, one at a time, in FIFO order, none stranded

Statement: tasks submitted to a connection's asynchronous queue each run exactly once, never two at
a time, in submission order, for any interleaving of submitters and task completions.  A task
submitted at the very moment the worker finds the queue empty is not stranded: it runs without
needing a further submission.

The theorems quantify over every finite sequence of the two atomic actions (`push j` by any
goroutine, `next j` by the worker holding `j`) — i.e. over every interleaving of submitters and
completions, with no bound on length — for every `maxConcurrency ≥ 1` (gws uses 1: `Facts`).
-/

namespace TQ

structure Inv (s : TQ) : Prop where
  cur_eq : s.cur = s.running.length
  cur_le : s.cur ≤ s.max
  fifo : s.submitted = s.started ++ s.q
  nostrand : s.q ≠ [] → s.cur = s.max
  run_fin : s.started.Perm (s.finished ++ s.running)

/-- what one critical section does: only `q` and `cur` change, in one of three ways -/
theorem getJob_cases (s : TQ) (nj : Option Nat) (d : Int) :
    ∃ q' cur' out, s.getJob nj d = ({ s with q := q', cur := cur' }, out) ∧
    ((s.cur + d ≥ s.max ∧ out = none ∧ q' = enq s.q nj ∧ cur' = s.cur + d) ∨
     (s.cur + d < s.max ∧ enq s.q nj = [] ∧ out = none ∧ q' = [] ∧ cur' = s.cur + d) ∨
     (s.cur + d < s.max ∧ ∃ j, enq s.q nj = j :: q' ∧ out = some j ∧ cur' = s.cur + d + 1)) := by
  unfold TQ.getJob
  simp only
  split
  · rename_i h; exact ⟨_, _, _, rfl, Or.inl ⟨h, rfl, rfl, rfl⟩⟩
  · rename_i h
    split
    · rename_i hq; exact ⟨_, _, _, rfl, Or.inr (Or.inl ⟨by omega, hq, rfl, hq, rfl⟩)⟩
    · rename_i j rest hq; exact ⟨_, _, _, rfl, Or.inr (Or.inr ⟨by omega, j, hq, rfl, rfl⟩)⟩

theorem inv_init (max : Int) (h : 1 ≤ max) : Inv (init max) := by
  constructor <;> simp [init]
  omega

theorem inv_step (s s' : TQ) (a : Act) (hmax : 1 ≤ s.max) (h : Inv s) (hs : s.step a = some s') :
    Inv s' ∧ s'.max = s.max := by
  obtain ⟨h1, h2, h3, h4, h5⟩ := h
  cases a with
  | push j =>
    simp only [TQ.step, Option.some.injEq] at hs
    obtain ⟨q', cur', out, hg, hc⟩ := getJob_cases s (some j) 0
    rw [hg] at hs
    subst hs
    rcases hc with ⟨c, rfl, rfl, rfl⟩ | ⟨c, eq1, _⟩ | ⟨c, x, eq1, rfl, rfl⟩
    · simp only [TQ.handOut]
      refine ⟨⟨by simp [h1], by simp [h2], by simp [h3], ?_, by simpa using h5⟩, by simp⟩
      intro _; simp; omega
    · simp at eq1
    · simp only [TQ.handOut]
      have hq : s.q = [] := by
        cases hq : s.q with
        | nil => rfl
        | cons y ys => have := h4 (by simp [hq]); omega
      simp [hq] at eq1
      obtain ⟨rfl, rfl⟩ := eq1
      refine ⟨⟨by simp [h1] <;> omega, by simp <;> omega, by simp [h3, hq], by simp, ?_⟩, by simp⟩
      simp only
      exact (List.perm_append_comm.trans (List.Perm.cons _ h5)).trans List.perm_middle.symm
  | next j =>
    simp only [TQ.step] at hs
    split at hs
    · rename_i hj
      simp only [Option.some.injEq] at hs
      have hlen : (s.running.erase j).length = s.running.length - 1 := List.length_erase_of_mem hj
      have hpos : 0 < s.running.length := List.length_pos_of_mem hj
      have hperm : s.started.Perm ((s.finished ++ [j]) ++ s.running.erase j) := by
        refine h5.trans ?_
        rw [List.append_assoc]
        exact List.Perm.append_left _ (List.perm_cons_erase hj)
      obtain ⟨q', cur', out, hg, hc⟩ :=
        getJob_cases { s with running := s.running.erase j, finished := s.finished ++ [j] } none (-1)
      rw [hg] at hs
      subst hs
      simp only [enq_none] at hc
      rcases hc with ⟨c, _⟩ | ⟨c, eq1, rfl, rfl, rfl⟩ | ⟨c, x, eq1, rfl, rfl⟩
      · omega
      · simp only [TQ.handOut]
        refine ⟨⟨by simp [hlen] <;> omega, by simp <;> omega, by simp [h3, eq1], by simp, by simpa using hperm⟩, by simp⟩
      · simp only [TQ.handOut]
        have := h4 (by simp [eq1])
        refine ⟨⟨by simp [hlen] <;> omega, by simp <;> omega, by simp [h3, eq1], ?_, ?_⟩, by simp⟩
        · intro _; simp; omega
        · simp only
          exact (List.perm_append_comm.trans (List.Perm.cons _ hperm)).trans List.perm_middle.symm
    · simp at hs

/-- **Every reachable state.** After any sequence of `push`/`next` actions from the initial state
(any interleaving of any number of submitters with task completions), the invariant holds. -/
theorem inv_run (max : Int) (hmax : 1 ≤ max) (as : List Act) (s : TQ) (h : (init max).run as = some s) :
    Inv s ∧ s.max = max := by
  suffices ∀ (s0 : TQ), Inv s0 → 1 ≤ s0.max → ∀ as s, s0.run as = some s → Inv s ∧ s.max = s0.max from
    this (init max) (inv_init max hmax) (by simpa [init] using hmax) as s h
  intro s0 hi hm as
  induction as generalizing s0 with
  | nil => intro s h; simp [run] at h; subst h; exact ⟨hi, rfl⟩
  | cons a as ih =>
    intro s h
    simp only [run] at h
    split at h
    · simp at h
    · rename_i s1 hs1
      obtain ⟨hi1, hm1⟩ := inv_step s0 s1 a hm hi hs1
      have := ih s1 hi1 (by omega) s h
      exact ⟨this.1, by omega⟩

/-- **Exactly once, in submission order, none lost.** In every reachable state the jobs handed to
workers so far followed by the queued ones are exactly the submitted ones, in submission order: so
the start order is a prefix of the submission order (FIFO), a job starts at most once per
submission, and no submitted job disappears. -/
theorem fifo_exactly_once (max : Int) (hmax : 1 ≤ max) (as : List Act) (s : TQ) (h : (init max).run as = some s) :
    s.submitted = s.started ++ s.q ∧ s.started <+: s.submitted ∧ s.started.Perm (s.finished ++ s.running) := by
  have hi := (inv_run max hmax as s h).1
  exact ⟨hi.fifo, ⟨s.q, hi.fifo.symm⟩, hi.run_fin⟩

/-- **Never two at a time** (for gws's `maxConcurrency = 1`): at most one job is held by a worker in
any reachable state; in general at most `max`. -/
theorem bounded_concurrency (max : Int) (hmax : 1 ≤ max) (as : List Act) (s : TQ) (h : (init max).run as = some s) :
    (s.running.length : Int) ≤ max := by
  obtain ⟨hi, hm⟩ := inv_run max hmax as s h
  have := hi.cur_eq; have := hi.cur_le; omega

theorem one_at_a_time (as : List Act) (s : TQ) (h : (init 1).run as = some s) : s.running.length ≤ 1 := by
  have := bounded_concurrency 1 (by omega) as s h; omega

/-- **No stranded task.** Whenever a job is queued, all `max ≥ 1` workers are alive and each holds a
job; every one of them will call `getJob(nil, -1)` when its job returns (`next` is enabled for it),
so the queued job does not need a further submission to be picked up. -/
theorem no_stranded_task (max : Int) (hmax : 1 ≤ max) (as : List Act) (s : TQ) (h : (init max).run as = some s)
    (hq : s.q ≠ []) : ∃ j, j ∈ s.running ∧ (s.step (.next j)).isSome := by
  obtain ⟨hi, hm⟩ := inv_run max hmax as s h
  have h1 := hi.nostrand hq
  have h2 := hi.cur_eq
  have : 0 < s.running.length := by omega
  obtain ⟨j, hj⟩ := List.exists_mem_of_length_pos this
  exact ⟨j, hj, by simp [step, hj]⟩

theorem drain_spec (n : Nat) (s : TQ) (hmax : 1 ≤ s.max) (hi : Inv s) (hn : s.q.length + s.running.length ≤ n) :
    Inv (drain n s) ∧ (drain n s).q = [] ∧ (drain n s).running = [] ∧ (drain n s).submitted = s.submitted ∧
    (drain n s).max = s.max := by
  induction n generalizing s with
  | zero =>
    have hq : s.q = [] := List.eq_nil_of_length_eq_zero (by omega)
    have hr : s.running = [] := List.eq_nil_of_length_eq_zero (by omega)
    simp [drain, hi, hq, hr]
  | succ n ih =>
    unfold drain
    cases hr : s.running with
    | nil =>
      simp only
      have h1 := hi.cur_eq; have h4 := hi.nostrand
      have : s.q = [] := by
        cases hq : s.q with
        | nil => rfl
        | cons y ys => have := h4 (by simp [hq]); simp [hr] at h1; omega
      exact ⟨hi, this, hr, by simp, by simp⟩
    | cons j rest =>
      simp only
      have hj : j ∈ s.running := by simp [hr]
      have hen : ∃ s', s.step (.next j) = some s' := by simp [step, hj]
      obtain ⟨s', hs'⟩ := hen
      rw [hs']
      simp only
      obtain ⟨hi', hm'⟩ := inv_step s s' (.next j) hmax hi hs'
      -- the measure decreases by exactly one
      have hmeasure : s'.q.length + s'.running.length + 1 = s.q.length + s.running.length ∧ s'.submitted = s.submitted := by
        simp only [step, hj, ↓reduceIte, Option.some.injEq] at hs'
        obtain ⟨q', cur', out, hg, hc⟩ :=
          getJob_cases { s with running := s.running.erase j, finished := s.finished ++ [j] } none (-1)
        rw [hg] at hs'
        have hlen : (s.running.erase j).length = s.running.length - 1 := List.length_erase_of_mem hj
        have hpos : 0 < s.running.length := List.length_pos_of_mem hj
        subst hs'
        simp only [enq_none] at hc
        rcases hc with ⟨c, _⟩ | ⟨c, eq1, rfl, rfl, rfl⟩ | ⟨c, x, eq1, rfl, rfl⟩
        · have := hi.cur_eq; have := hi.cur_le; omega
        · simp only [handOut, eq1]; simp [hlen]; omega
        · simp only [handOut, eq1]; simp [hlen]; omega
      have := ih s' (by omega) hi' (by omega)
      refine ⟨this.1, this.2.1, this.2.2.1, by rw [this.2.2.2.1, hmeasure.2], by rw [this.2.2.2.2, hm']⟩

/-- **Drains.** From any reachable state, letting the running jobs complete one after another —
every such `next` is enabled — empties the queue within `|q| + |running|` completions, with every
submitted job started and finished exactly once, in submission order. No further `push` is needed. -/
theorem drains (max : Int) (hmax : 1 ≤ max) (as : List Act) (s : TQ) (h : (init max).run as = some s) :
    let d := drain (s.q.length + s.running.length) s
    d.q = [] ∧ d.running = [] ∧ d.started = s.submitted ∧ d.finished.Perm s.submitted := by
  obtain ⟨hi, hm⟩ := inv_run max hmax as s h
  intro d
  obtain ⟨hid, hq, hr, hsub, _⟩ := drain_spec _ s (by omega) hi (Nat.le_refl _)
  have hf := hid.fifo
  have hp := hid.run_fin
  simp only [hq, hr, List.append_nil] at hf hp
  refine ⟨hq, hr, ?_, ?_⟩
  · show d.started = s.submitted
    rw [← hsub]; exact hf.symm
  · show d.finished.Perm s.submitted
    rw [← hsub, hf]; exact hp.symm

-- non-vacuity: the lost-wake-up schedule — the worker finishes job 1 while job 2 is being pushed
example : ((init 1).run [.push 1, .push 2, .next 1]).map (fun s => (s.running, s.q, s.started)) = some ([2], [], [1, 2]) := by decide
example : ((init 1).run [.push 1, .next 1, .push 2]).map (fun s => (s.running, s.q, s.started)) = some ([2], [], [1, 2]) := by decide
example : ((init 1).run [.push 1, .push 2, .push 3]).map (fun s => (s.running, s.q)) = some ([1], [2, 3]) := by decide

end TQ
