import Gws.Lemmas.Conc.Map
/-!
# C19 — session storage and ConcurrentMap are linearizable maps

Statement (properties.jsonl): concurrent Load, Store, Delete, Len and Range on a connection's
session storage and on the exported concurrent map behave like atomic operations on one map: every
history of operations on a key is linearizable, Len always lies within the bounds implied by the
operations overlapping it, and Range visits every entry that is present throughout exactly once and
stops when its callback says so.

Shape of the proof.  The model (`Gws.Model.Conc.Map`) is a transition system whose actions are the
critical sections of the code; a list of actions is an interleaving of any number of goroutines, so
"for every `tr : List Act`" is "for every schedule".  There is no bound on the length of a history,
the number of keys, the number of concurrent `Len`/`Range` calls or the shard count, and the hash
function is arbitrary.

**Assumed, not proved** (trusted base): a region between `Lock` and `Unlock` of one mutex is atomic
with respect to the other regions of that mutex.  The suite `cmapconc` samples real concurrent
histories against the same register specification as a check of that assumption.
-/

namespace CMap

/-! ## Shard selection never goes out of bounds -/

/-- `internal.ToBinaryNumber n` is a power of two, at least `n`, and the smallest such (for
`n ≥ 1`); in particular the model's fuel never runs out. -/
theorem toBinaryNumber_pow2 (n : Nat) :
    (∃ m, toBinaryNumber n = 2 ^ m) ∧ n ≤ toBinaryNumber n ∧ (1 ≤ n → toBinaryNumber n < 2 * n) := by
  obtain ⟨m, h1, h2, h3⟩ := toBinaryNumber_spec n
  exact ⟨⟨m, h1⟩, h2, fun hn => by omega⟩

/-- masking with a power of two minus one is reduction modulo that power of two -/
theorem and_mask_eq_mod (x m : Nat) : x &&& (2 ^ m - 1) = x % 2 ^ m :=
  Nat.and_two_pow_sub_one_eq_mod x m

/-- **No out-of-bounds shard access.**  For every requested shard count (0 = default 16, powers of
two, anything else) and every hash function, `hashCode & (num - 1)` is `hashCode mod num` and is a
valid index into the `num` shards of every well-formed state. -/
theorem shard_index_in_range (c : Cfg) (k : Nat) :
    c.idx k = c.hash k % c.num ∧ c.idx k < c.num ∧ ∀ s, WF c s → c.idx k < s.shards.length :=
  ⟨c.idx_eq_mod k, c.idx_lt k, fun s h => by rw [h.len]; exact c.idx_lt k⟩

/-! ## The state invariant and the meaning of `size` -/

/-- `NewConcurrentMap` establishes the invariant and every atomic action preserves it, hence it
holds in every state reachable by any interleaving. -/
theorem wf_invariant (c : Cfg) :
    WF c (State.init c) ∧ ∀ s tr s', WF c s → run c s tr = some s' → WF c s' :=
  ⟨wf_init c, fun _ tr _ h hr => wf_run c tr h hr⟩

/-- `size` (the sum of the shards' `len`, what `Len` adds up) is honest: it is the number of keys
the abstract map holds. -/
theorem size_is_card (c : Cfg) (s : State) (hwf : WF c s) :
    ∃ keys : List Nat, keys.Nodup ∧ keys.length = s.size ∧ ∀ k, k ∈ keys ↔ abs c s k ≠ none :=
  size_card c s hwf

/-! ## Refinement: Load / Store / Delete are the operations of one plain map -/

/-- `Load` returns what the plain map returns. -/
theorem load_refines (c : Cfg) (s : State) (k : Nat) : s.load c k = abs c s k := rfl

/-- `Store` commutes with the abstraction: it updates exactly `k` in the plain map. -/
theorem store_refines (c : Cfg) (s : State) (k v : Nat) (hwf : WF c s) :
    abs c (s.store c k v) = (abs c s).store k v :=
  abs_store c s k v hwf.len

/-- `Delete` commutes with the abstraction: it removes exactly `k` from the plain map. -/
theorem delete_refines (c : Cfg) (s : State) (k : Nat) (hwf : WF c s) :
    abs c (s.delete c k) = (abs c s).delete k :=
  abs_delete c s k hwf.len

/-- **Linearizability of the single-section operations.**  For every interleaving `tr` of atomic
sections (of any length, over any keys, with any number of `Len` and `Range` calls in progress) the
values returned by the `Load`s are those obtained by running the plain map sequentially in the
order of the critical sections, and the final contents agree too.  The linearization point of an
operation is its critical section, which lies between its call and its return; so in particular
every per-key history is a history of an atomic register. -/
theorem linearizable_single_section (c : Cfg) (tr : List Act) (s s' : State) (hwf : WF c s)
    (hrun : run c s tr = some s') :
    loads c s tr = Spec.loads (abs c s) tr ∧ abs c s' = Spec.run (abs c s) tr := by
  induction tr generalizing s with
  | nil => simp only [run, Option.some.injEq] at hrun; subst hrun; exact ⟨rfl, rfl⟩
  | cons a tr ih =>
    simp only [run] at hrun
    cases hst : step c s a with
    | none => simp [hst] at hrun
    | some s1 =>
      simp only [hst] at hrun
      obtain ⟨h1, h2⟩ := ih s1 (wf_step c hwf hst) hrun
      have ha := abs_step c hwf hst
      simp only [loads, hst]
      rw [h1, h2, ha]
      cases a <;> simp [Spec.loads, Spec.run, load_eq_abs]

/-! ## Len -/

/-- **Len bounds.**  A `Len` call (`lenStart id`) whose `num` sections are interleaved with
arbitrary other actions `tr` — stores, deletes, loads, sections of other `Len` and `Range` calls —
and whose loop has ended with result `r` satisfies

  `size at the call − #(overlapping deletes that removed a key) ≤ r ≤
   size at the call + #(overlapping stores that added a key)`.

(`Len` is *not* atomic; see the example below, where it returns a size the map never had.) -/
theorem len_bounds (c : Cfg) (s s' : State) (id : Nat) (tr : List Act) (r : Nat) (hwf : WF c s)
    (hrun : run c s (.lenStart id :: tr) = some s') (hres : lenResult c s' id = some r) :
    s.size - removes c s (.lenStart id :: tr) ≤ r ∧ r ≤ s.size + inserts c s (.lenStart id :: tr) := by
  simp only [run] at hrun
  cases hst : step c s (.lenStart id) with
  | none => simp [hst] at hrun
  | some s1 =>
    simp only [hst] at hrun
    have hwf1 := wf_step c hwf hst
    have hsh : s1.shards = s.shards := step_shards c hst (by intros; simp) (by intros; simp)
    have hl1 : s1.lens id = some { next := 0, sum := 0 } := by
      simp only [step] at hst
      split at hst
      · simp only [Option.some.injEq] at hst; subst hst; exact upd_self _ _ _
      · simp at hst
    obtain ⟨lc', hl', hlo, hhi⟩ := len_track c id tr s1 s' _ hwf1 hl1 hrun
    have hwf' := wf_run c tr hwf1 hrun
    simp only [lenResult, hl'] at hres
    split at hres
    · rename_i hn
      simp only [Option.some.injEq] at hres
      have h0 : s'.restSize lc'.next = 0 := State.restSize_of_ge _ _ (by rw [hwf'.len, hn]; exact Nat.le_refl _)
      have hz : s1.restSize 0 = s.size := by rw [restSize_congr hsh, State.restSize_zero]
      simp only [removes, inserts, hst, removesKey, insertsKey]
      simp only [h0, hz] at hlo hhi
      omega
    · simp at hres

/-! ## Range -/

/-- **Range visits.**  A `Range(cb)` call (`rangeStart id cb`) whose per-shard sections are
interleaved with arbitrary other actions `tr` satisfies, at every moment `s'` after the call:

1. no key has been passed to the callback twice;
2. every callback invocation that was followed by another invocation had returned `true` — i.e.
   after the callback returns `false` no further call is made, neither in the same shard nor in a
   later one — and once it has returned `false` (`go = false`) no further section of this call is
   enabled;
3. if the loop has ended and the callback never returned `false`, every entry `k ↦ v` that was
   present with that value in every state from the call to `s'` has been passed to the callback, and
   its key exactly once.

The iteration order inside a shard is arbitrary (the `order` argument of each `rangeStep`). -/
theorem range_visits (c : Cfg) (s s' : State) (id : Nat) (cb : List Entry → Bool) (tr : List Act)
    (rc : RangeCall) (hwf : WF c s) (hrun : run c s (.rangeStart id cb :: tr) = some s')
    (hrc : s'.ranges id = some rc) :
    (rc.log.map (·.1)).Nodup ∧
    ((∀ i, i + 1 < rc.log.length → cb (rc.log.take (i + 1)) = true) ∧
      (rc.go = false → rc.log ≠ [] ∧ cb rc.log = false ∧ ∀ order, step c s' (.rangeStep id order) = none)) ∧
    (rc.next = c.num → rc.go = true → ∀ k v, stable c k v s (.rangeStart id cb :: tr) →
      (k, v) ∈ rc.log ∧ (rc.log.map (·.1)).count k = 1) := by
  simp only [run] at hrun
  cases hst : step c s (.rangeStart id cb) with
  | none => simp [hst] at hrun
  | some s1 =>
    simp only [hst] at hrun
    have hwf1 := wf_step c hwf hst
    have hr1 : s1.ranges id = some { cb := cb, next := 0, go := true, log := [] } := by
      simp only [step] at hst
      split at hst
      · simp only [Option.some.injEq] at hst; subst hst; exact upd_self _ _ _
      · simp at hst
    have hinv1 : RInv c { cb := cb, next := 0, go := true, log := [] } :=
      ⟨by simp, by simp, by simp, by simp, by simp⟩
    obtain ⟨rc', hr', hcb', hinv', hq⟩ := range_track c id tr s1 s' _ hwf1 hr1 hinv1 hrun
    rw [hrc] at hr'; simp only [Option.some.injEq] at hr'; subst hr'
    have hcb : rc.cb = cb := hcb'
    refine ⟨hinv'.nodup, ⟨by rw [← hcb]; exact hinv'.calls, ?_⟩, ?_⟩
    · intro hgo
      have hne : rc.log ≠ [] := fun h => by have := hinv'.empty h; rw [hgo] at this; simp at this
      refine ⟨hne, by rw [← hcb, hinv'.last hne, hgo], fun order => ?_⟩
      simp [step, hrc, hgo]
    · intro hn hgo k v hstab
      simp only [stable, hst] at hstab
      have hmem : (k, v) ∈ rc.log := hq k v hstab.2 (by simp) hgo (by rw [hn]; exact c.idx_lt k)
      refine ⟨hmem, ?_⟩
      rw [hinv'.nodup.count]
      simp only [List.mem_map, ite_eq_left_iff, not_exists, not_and]
      intro h; exact absurd rfl (h (k, v) hmem)

/-- the same with a callback that never asks to stop: once the loop has ended, every entry present
throughout has been passed exactly once -/
theorem range_visits_all (c : Cfg) (s s' : State) (id : Nat) (cb : List Entry → Bool) (tr : List Act)
    (rc : RangeCall) (hwf : WF c s) (hrun : run c s (.rangeStart id cb :: tr) = some s')
    (hrc : s'.ranges id = some rc) (hcb : ∀ l, cb l = true) (hdone : rangeDone c s' id = true)
    (k v : Nat) (hstab : stable c k v s (.rangeStart id cb :: tr)) :
    (k, v) ∈ rc.log ∧ (rc.log.map (·.1)).count k = 1 := by
  obtain ⟨_, ⟨_, hstop⟩, hall⟩ := range_visits c s s' id cb tr rc hwf hrun hrc
  have hgo : rc.go = true := by
    cases hg : rc.go with
    | true => rfl
    | false => have := (hstop hg).2.1; rw [hcb] at this; simp at this
  simp only [rangeDone, hrc, hgo, Bool.not_true, Bool.or_false, beq_iff_eq] at hdone
  exact hall hdone hgo k v hstab

/-! ## non-vacuity -/

-- shard counts used by the correspondence suite: default, 1, 2, 3→4, 16, 100→128
example : [0, 1, 2, 3, 16, 100].map (fun n => (Cfg.mk id n).num) = [16, 1, 2, 4, 16, 128] := by decide

-- `Len` is not atomic: with keys 0 and 1 in different shards the map holds one entry at every
-- moment, yet an overlapping delete + store make `Len` return 2 = size + #inserts (upper bound tight)
example :
    let c : Cfg := ⟨id, 2⟩
    (run c ((State.init c).store c 0 7) [.lenStart 5, .lenStep 5, .delete 0, .store 1 7, .lenStep 5]).bind
      (lenResult c · 5) = some 2 := by decide

-- … and the mirror image returns 0 = size − #removes (lower bound tight)
example :
    let c : Cfg := ⟨id, 2⟩
    (run c ((State.init c).store c 1 7) [.lenStart 5, .lenStep 5, .store 0 7, .delete 1, .lenStep 5]).bind
      (lenResult c · 5) = some 0 := by decide

-- a `Range` over two shards, the second one iterated in reverse order, with a store in between: the
-- entries present throughout (0 ↦ 10, 1 ↦ 11) are passed once each, the late entry 3 ↦ 13 as well
example :
    let c : Cfg := ⟨id, 2⟩
    let s := ((State.init c).store c 0 10).store c 1 11
    (run c s [.rangeStart 1 (fun _ => true), .rangeStep 1 [(0, 10)], .store 3 13, .rangeStep 1 [(3, 13), (1, 11)]]).bind
      (fun s' => (s'.ranges 1).map (fun rc => (rc.log, rc.go, rc.next))) = some ([(0, 10), (3, 13), (1, 11)], true, 2) := by
  decide

-- the callback stops the loop: it returns false on the second invocation, the third entry is never
-- passed and no further section of the call is enabled
example :
    let c : Cfg := ⟨id, 1⟩
    let s := (((State.init c).store c 0 10).store c 1 11).store c 2 12
    (run c s [.rangeStart 1 (fun l => l.length < 2), .rangeStep 1 [(2, 12), (0, 10), (1, 11)]]).bind
      (fun s' => (s'.ranges 1).map (fun rc => (rc.log, rc.go))) = some ([(2, 12), (0, 10)], false) := by
  decide

-- an `order` that is not an enumeration of the shard is rejected
example :
    let c : Cfg := ⟨id, 1⟩
    (run c ((State.init c).store c 0 10) [.rangeStart 1 (fun _ => true), .rangeStep 1 []]).isNone = true := by
  decide

-- the hypothesis `stable` is satisfiable along a trace that changes other keys
example :
    let c : Cfg := ⟨id, 2⟩
    stable c 0 10 ((State.init c).store c 0 10) [.store 1 11, .delete 1, .load 0] := by
  simp [stable, step]; decide

end CMap

/-! ## smap: one mutex, every method one critical section -/

namespace SMap
open CMap

/-- **smap refinement.**  Each of `Load`/`Store`/`Delete` returns what the plain map returns and
commutes with the abstraction. -/
theorem smap_refines (m : Shard) (k v : Nat) :
    m.load k = abs m k ∧ abs (m.store k v) = (abs m).store k v ∧ abs (m.delete k) = (abs m).delete k := by
  refine ⟨rfl, ?_, ?_⟩
  · funext k'
    by_cases hk : k' = k
    · subst hk; simp [abs, Spec.store, Shard.load_store_self]
    · simp [abs, Spec.store, hk, Shard.load_store_ne _ _ _ _ hk]
  · funext k'
    by_cases hk : k' = k
    · subst hk; simp [abs, Spec.delete, Shard.load_delete_self]
    · simp [abs, Spec.delete, hk, Shard.load_delete_ne _ _ _ hk]

/-- **smap Len is exact**: it holds the only mutex, so no operation overlaps its section and the
bounds of `CMap.len_bounds` collapse to the number of keys present. -/
theorem smap_len_exact (m m' : Shard) (r : Ret) (hnd : m.keys.Nodup) (hst : step m .len = some (m', r)) :
    ∃ n, r = .len n ∧ m' = m ∧
      ∃ keys : List Nat, keys.Nodup ∧ keys.length = n ∧ ∀ k, k ∈ keys ↔ abs m k ≠ none := by
  simp only [step, Option.some.injEq, Prod.mk.injEq] at hst
  obtain ⟨rfl, rfl⟩ := hst
  exact ⟨m.size, rfl, rfl, m.keys, hnd, by simp [Shard.keys, Shard.size], fun k => Shard.mem_keys_iff m k⟩

/-- **smap Range**: in its single section it passes no key twice, passes only entries of the map,
makes no call after the callback returned false, and — if never told to stop — passes every entry,
each key exactly once. -/
theorem smap_range_visits (m m' : Shard) (cb : List Entry → Bool) (order : List Entry) (r : Ret)
    (hnd : m.keys.Nodup) (hst : step m (.range cb order) = some (m', r)) :
    ∃ log go, r = .visited log go ∧ m' = m ∧
      (log.map (·.1)).Nodup ∧ (∀ e ∈ log, abs m e.1 = some e.2) ∧
      (∀ i, i + 1 < log.length → cb (log.take (i + 1)) = true) ∧
      (go = false → log ≠ [] ∧ cb log = false) ∧
      (go = true → ∀ k v, abs m k = some v → (k, v) ∈ log ∧ (log.map (·.1)).count k = 1) := by
  have hok := (step_ok hnd hst).1
  simp only [step] at hst
  split at hst
  · simp only [Option.some.injEq, Prod.mk.injEq] at hst
    obtain ⟨rfl, rfl⟩ := hst
    obtain ⟨h1, h2, h3, h4, h5, h6⟩ := hok
    refine ⟨_, _, rfl, rfl, h1, h2, h3, ?_, ?_⟩
    · intro hg
      have hne : (visit cb [] order).1 ≠ [] := fun h => by have := h5 h; rw [hg] at this; simp at this
      exact ⟨hne, by rw [h4 hne, hg]⟩
    · intro hg k v hkv
      have hmem := h6 hg k v hkv
      refine ⟨hmem, ?_⟩
      rw [h1.count]
      simp only [List.mem_map, ite_eq_left_iff, not_exists, not_and]
      intro h; exact absurd rfl (h (k, v) hmem)
  · simp at hst

/-- **smap is linearizable, all five methods.**  Every method is one critical section of the one
mutex, so a concurrent history is the sequence of its sections; every such sequence, of any length,
is accepted by the sequential specification of a plain map (`accepts`: `Load` returns the value,
`Len` the exact number of keys, `Range` visits as in `smap_range_visits`), and the contents agree. -/
theorem smap_linearizable (tr : List Act) (m m' : Shard) (rets : List Ret) (hnd : m.keys.Nodup)
    (hrun : run m tr = some (m', rets)) :
    accepts (abs m) tr rets ∧ m'.keys.Nodup := by
  induction tr generalizing m rets with
  | nil =>
    simp only [run, Option.some.injEq, Prod.mk.injEq] at hrun
    obtain ⟨rfl, rfl⟩ := hrun
    exact ⟨trivial, hnd⟩
  | cons a tr ih =>
    simp only [run] at hrun
    cases hst : step m a with
    | none => simp [hst] at hrun
    | some p =>
      obtain ⟨m1, r⟩ := p
      simp only [hst, Option.map_eq_some_iff] at hrun
      obtain ⟨⟨m2, rs⟩, hrun', heq⟩ := hrun
      simp only [Prod.mk.injEq] at heq
      obtain ⟨rfl, rfl⟩ := heq
      obtain ⟨hok, habs, hnd1⟩ := step_ok hnd hst
      obtain ⟨hacc, hnd'⟩ := ih m1 rs hnd1 hrun'
      exact ⟨⟨hok, by rw [← habs]; exact hacc⟩, hnd'⟩

-- non-vacuity: a history with all five methods; Len is exact; Range stops after the second call
example :
    (run [] [.store 1 10, .store 2 20, .len, .load 1, .delete 1, .load 1, .store 3 30,
        .range (fun l => l.length < 2) [(3, 30), (2, 20)], .range (fun _ => true) [(3, 30), (2, 20)]]).map (·.2) =
      some [.unit, .unit, .len 2, .val (some 10), .unit, .val none, .unit,
        .visited [(3, 30), (2, 20)] false, .visited [(3, 30), (2, 20)] true] := by decide

end SMap
