import Gws.Lemmas.TransDeque
/-!
# T3 for internal/deque.go (C20), part 1: the building blocks

`Gws/Generated/TransDeque.lean` is regenerated from /repo/internal/deque.go on every run by the deque dialect of
tools/gotrans (a `*Element[T]` = the index of its slot, every indirection nil-checked, `none` = panic). The theorems here
and in `TransDequeOps.lean` prove each translated function equal to the function of the hand-written model
(`Gws/Model/Deque.lean`) that the C20 theorems (`Gws/Props/C20.lean`: refinement to a list, no panic on a well-formed deque)
are proved about. Internal helpers that receive an element pointer from their caller are equal under `ele ≠ 0` (the Go code
would panic on nil; every caller passes a pointer it has just checked or obtained from `getElement`).
-/
set_option linter.unusedSimpArgs false

namespace TransEquiv.Dq
open GoDeque TransDeque

theorem getElement_eq (d : Deque) : Deque_getElement d = d.getElement := by
  unfold Deque_getElement Deque.getElement
  simp only [Get_eq, IsNil_eq]
  by_cases h0 : d.elements.length = 0
  · cases hs : d.stack with
    | nil =>
      simp [h0, hs, lifoLen, lifoPop, pointerOfInt]
      generalize hg : Deque.get _ _ = g
      cases g with
      | none => simp
      | some v =>
        have hv : v ≠ 0 := get_nonzero hg (by omega)
        simp [hv]
    | cons a r =>
      simp [h0, hs, lifoLen, lifoPop, pointerOfInt]
      generalize hg : Deque.get _ _ = g
      cases g with
      | none => simp
      | some v => by_cases hv : v = 0 <;> simp [hv]
  · cases hs : d.stack with
    | nil =>
      simp [h0, hs, lifoLen, lifoPop, pointerOfInt]
      generalize hg : Deque.get _ _ = g
      cases g with
      | none => simp
      | some v =>
        have hv : v ≠ 0 := get_nonzero hg h0
        simp [hv]
    | cons a r =>
      simp [h0, hs, lifoLen, lifoPop, pointerOfInt]
      generalize hg : Deque.get _ _ = g
      cases g with
      | none => simp
      | some v => by_cases hv : v = 0 <;> simp [hv]

theorem getElement_post_aux {D d' : Deque} {a x v : Nat}
    (h : (D.get a).bind (fun v => if v = 0 then none else some (D.setAddr v x, v)) = some (d', v)) :
    v ≠ 0 ∧ v < d'.elements.length := by
  cases hg : D.get a with
  | none => simp [hg] at h
  | some w =>
    by_cases hw : w = 0
    · simp [hg, hw] at h
    · simp [hg, hw] at h
      obtain ⟨h1, h2⟩ := h
      subst h2
      have hs := get_some hg
      subst h1
      simp only [store_length]
      exact ⟨hw, by have := hs.2 (by omega); omega⟩

theorem getElement_post_aux' {D d' : Deque} {a x v : Nat} (ha : a ≠ 0)
    (h : (D.get a).bind (fun v => some (D.setAddr v x, v)) = some (d', v)) : v ≠ 0 ∧ v < d'.elements.length := by
  apply getElement_post_aux (D := D) (a := a) (x := x)
  cases hg : D.get a with
  | none => simp [hg] at h
  | some w =>
    have := get_nonzero hg ha
    simpa [hg, this] using h

/-- the slot handed out by `getElement` is a real slot: not nil, inside the slot array -/
theorem getElement_post {d d' : Deque} {v : Nat} (h : d.getElement = some (d', v)) : v ≠ 0 ∧ v < d'.elements.length := by
  unfold Deque.getElement at h
  by_cases h0 : d.elements.length = 0
  · cases hs : d.stack with
    | nil =>
      simp [h0, hs] at h
      exact getElement_post_aux' (by omega) h
    | cons a r =>
      simp [h0, hs] at h
      exact getElement_post_aux h
  · cases hs : d.stack with
    | nil =>
      simp [h0, hs] at h
      exact getElement_post_aux' h0 h
    | cons a r =>
      simp [h0, hs] at h
      exact getElement_post_aux h

theorem putElement_eq (d : Deque) (ele : Nat) (h : ele ≠ 0) : Deque_putElement d ele = some (d.putElement ele) := by
  simp [Deque_putElement, Deque.putElement, h, lifoPush, assign, Deque.store, Deque.load]

theorem autoReset_eq (d : Deque) : Deque_autoReset d = some d.autoReset := by
  unfold Deque_autoReset Deque.autoReset
  by_cases h : d.elements.length > 0
  · have : 1 ≤ d.elements.length := h
    simp [h, sliceTo, lifoClear, this]
  · simp [h, lifoClear]

theorem Reset_eq (d : Deque) : Deque_Reset d = some d.reset := by
  simp [Deque_Reset, autoReset_eq, Deque.reset]

theorem Len_eq (d : Deque) : Deque_Len d = some d.len := by
  rfl

theorem Front_eq (d : Deque) : Deque_Front d = d.front := by
  simp [Deque_Front, Deque.front]

theorem Back_eq (d : Deque) : Deque_Back d = d.back := by
  simp [Deque_Back, Deque.back]

theorem doPushFront_eq (d : Deque) (ele : Nat) (h : ele ≠ 0) : Deque_doPushFront d ele = d.doPushFront ele := by
  unfold Deque_doPushFront Deque.doPushFront
  simp only [Get_eq, IsNil_eq]
  by_cases hh : d.head = 0
  · simp [hh, h]
  · simp only [hh, if_false]
    cases hg : Deque.get { d with length := d.length + 1 } d.head with
    | none => simp [hg]
    | some v =>
      have hv : v ≠ 0 := get_nonzero hg hh
      simp [hg, hv, h, deref_ne, assign_ne]

theorem doPushBack_eq (d : Deque) (ele : Nat) (h : ele ≠ 0) : Deque_doPushBack d ele = d.doPushBack ele := by
  unfold Deque_doPushBack Deque.doPushBack
  simp only [Get_eq, IsNil_eq]
  by_cases hh : d.tail = 0
  · simp [hh, h]
  · simp only [hh, if_false]
    cases hg : Deque.get { d with length := d.length + 1 } d.tail with
    | none => simp [hg]
    | some v =>
      have hv : v ≠ 0 := get_nonzero hg hh
      simp [hg, hv, h, deref_ne, assign_ne]

theorem doRemove_eq (d : Deque) (ele : Nat) (h : ele ≠ 0) : Deque_doRemove d ele = d.doRemove ele := by
  unfold Deque_doRemove Deque.doRemove
  simp only [Get_eq, IsNil_eq, deref_ne h]
  by_cases hp : (d.load ele).prev = 0 <;> by_cases hn : (d.load ele).next = 0
  · simp [hp, hn]
  · simp [hp, hn]
    cases hg : d.get (d.load ele).next with
    | none => simp
    | some n =>
      have hn' : n ≠ 0 := get_nonzero hg hn
      simp [hn']
  · simp [hp, hn]
    cases hg : d.get (d.load ele).prev with
    | none => simp
    | some p =>
      have hp' : p ≠ 0 := get_nonzero hg hp
      simp [hp']
  · simp [hp, hn]
    cases hg : d.get (d.load ele).prev with
    | none => simp
    | some p =>
      have hp' : p ≠ 0 := get_nonzero hg hp
      cases hg2 : d.get (d.load ele).next with
      | none => simp
      | some n =>
        have hn' : n ≠ 0 := get_nonzero hg2 hn
        simp [hn', hp']

/-- the four getters of `*Element[T]`: the field of the slot, a panic on nil -/
theorem Element_getters (d : Deque) (p : Nat) :
    Element_Addr d p = (if p = 0 then none else some (d.load p).addr) ∧
    Element_Next d p = (if p = 0 then none else some (d.load p).next) ∧
    Element_Prev d p = (if p = 0 then none else some (d.load p).prev) ∧
    Element_Value d p = (if p = 0 then none else some (d.load p).value) := by
  unfold Element_Addr Element_Next Element_Prev Element_Value deref
  by_cases h : p = 0 <;> simp [h]

/-! ## `Stack[T]` (a slice, top = last element) is the LIFO the deque functions use it as (top = head of the reversed list) -/

theorem Stack_Len_eq (s : List Nat) : Stack_Len s = some (lifoLen s.reverse) := by
  simp [Stack_Len, lifoLen]

theorem Stack_Push_eq (s : List Nat) (v : Nat) : (Stack_Push s v).map List.reverse = some (lifoPush s.reverse v) := by
  simp [Stack_Push, lifoPush]

theorem Stack_Pop_eq (s : List Nat) : (Stack_Pop s).map (fun r => (r.1.reverse, r.2)) = lifoPop s.reverse := by
  -- the model's side first: the stack as the reversed list, empty or not; then the translated side is only evaluated
  -- (whatever names the Go code gives to `len(*c)` or `len(*c) - 1`)
  obtain ⟨l, rfl⟩ : ∃ l, s = l.reverse := ⟨s.reverse, by simp⟩
  cases l with
  | nil => simp [Stack_Pop, Stack_Len, index, sliceTo, lifoPop]
  | cons a l =>
    have h1 : ¬ ((l.length : Int) < 0) := by omega
    have h2 : (1 : Int) ≤ (l.length : Int) + 1 := by omega
    have h3 : (l.length : Int) ≤ (l.length : Int) + 1 := by omega
    simp [Stack_Pop, Stack_Len, index, sliceTo, lifoPop, h1, h2, h3]

end TransEquiv.Dq
