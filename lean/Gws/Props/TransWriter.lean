import Gws.Props.TransFrame
import Gws.Props.TransClose
import Gws.Model.Writer
/-!
# T3 — `genFrame` (writer.go), translated from the source on every run, equals the model's `Writer.genFrame`

The payload is given to the translation as its bytes (`internal.Payload` = the concatenation of its slices);
`compressData` is left uninterpreted (`Trans.Conn_genFrame` is polymorphic in the result type): it is instantiated
with a constructor and `interpW` hands its arguments to the model's `Writer.compressData`.  `MaskXOR` is used by its
specification (`goMaskXOR`), which C18 proves of the implementation.
-/
set_option linter.unusedSimpArgs false

namespace TransEquiv

inductive GenOut where
  | ret (r : Bytes × Option GoErr)
  | compress (opcode : UInt8) (payload buf : Bytes) (fin compress broadcast checkEncoding : Bool)

/-- what the model does with the outcome of the translated `genFrame` -/
def interpW (cfg : Writer.Cfg) (codec : Codec) (cps : Win) (payload : List Bytes) (key : Bytes) : GenOut → Except Writer.WErr Bytes
  | .ret (b, none) => .ok b
  | .ret (_, some (.named "ErrTextEncoding")) => .error .textEncoding
  | .ret (_, some (.named "ErrMessageTooLarge")) => .error .messageTooLarge
  | .ret (_, some _) => .error (.panic "unexpected error value")
  | .compress op _ buf fin compress broadcast checkEncoding =>
    Writer.compressData cfg codec cps op.toNat payload buf
      { fin := fin, compress := compress, broadcast := broadcast, checkEncoding := checkEncoding } key

private theorem GenerateHeader_len (isServer fin compress : Bool) (opcode : UInt8) (n : Nat) (hn : n < 2 ^ 63) (maskNum : UInt32) :
    (Trans.frameHeader_GenerateHeader (List.replicate 14 0) isServer fin compress opcode (n : Int) maskNum).2.1
      = ((Frame.genHeader isServer fin compress opcode.toNat n (goBytesU32LE maskNum)).length : Int) := by
  have h64 : goUIntOfInt64 (n : Int) = UInt64.ofNat n := by
    unfold goUIntOfInt64
    congr 1
    omega
  have r14 : List.replicate 14 (0 : UInt8) = 0 :: List.replicate 13 0 := rfl
  unfold Trans.frameHeader_GenerateHeader Frame.genHeader
  simp only [r14, List.set_cons_zero, h64, SetLength_eq _ n hn]
  by_cases h1 : n ≤ 125 <;> by_cases h2 : n ≤ 65535 <;> cases isServer <;>
    simp [h1, h2, Facts.thresholdV1, Facts.thresholdV2, goBytesU32LE, Frame.u16be, Frame.u64be]

private theorem maskXOR_eq (maskNum : UInt32) (p : Bytes) :
    goMaskXOR p (goBytesU32LE maskNum) = Reader.unmask (goBytesU32LE maskNum) p := by
  rw [Writer.unmask_eq_xorKey]
  unfold goMaskXOR goBytesU32LE Writer.xorKey
  simp only
  apply List.ext_getElem
  · simp
  · intro i h1 h2
    simp only [List.getElem_mapIdx]
    congr 1
    have : i % 4 < 4 := Nat.mod_lt _ (by omega)
    generalize i % 4 = j at this
    match j, this with
    | 0, _ => rfl
    | 1, _ => rfl
    | 2, _ => rfl
    | 3, _ => rfl

private theorem goCopy_tail (a b c : Bytes) (k : Nat) (hk : a.length = k) (hc : c.length = b.length) :
    goCopy (a ++ b) k c = a ++ c := by
  subst hk
  unfold goCopy
  have h1 : min c.length ((a ++ b).length - a.length) = c.length := by simp; omega
  simp only [h1, List.take_left', List.take_length, List.drop_append]
  have h2 : a.length + c.length - a.length = b.length := by omega
  rw [h2, List.drop_eq_nil_of_le (Nat.le_add_right _ _)]
  simp

/-- `genFrame` = `Writer.genFrame` for every opcode, payload (any slicing), frame configuration and mask key -/
theorem genFrame_eq (cfg : Writer.Cfg) (codec : Codec) (cps : Win) (opcode : UInt8) (payload : List Bytes)
    (fc : Writer.FrameCfg) (maskNum : UInt32) (hlen : payload.flatten.length < 2 ^ 62) :
    interpW cfg codec cps payload (goBytesU32LE maskNum)
      (Trans.Conn_genFrame GenOut.ret GenOut.compress opcode payload.flatten (cfg_checkEncoding := fc.checkEncoding)
        (c_config_WriteMaxPayloadSize := (cfg.writeMax : Int)) (cfg_compress := fc.compress) (c_pd_Threshold := (cfg.threshold : Int))
        (cfg_fin := fc.fin) (cfg_broadcast := fc.broadcast) (c_isServer := cfg.isServer) (maskNum := maskNum))
      = Writer.genFrame cfg codec cps opcode.toNat payload fc (goBytesU32LE maskNum) := by
  have hce : Trans.internal_CheckEncoding fc.checkEncoding opcode payload.flatten
      = Utf8.buffersCheck fc.checkEncoding opcode.toNat payload := by
    rw [CheckEncoding_eq]; unfold Utf8.checkEncoding Utf8.buffersCheck; rw [Utf8.validJoined_eq]
  have e1 : (opcode == (1 : UInt8)) = decide (opcode.toNat = Facts.opText) := by
    rw [u8_beq]; rfl
  have hc2 : decide ((Int.ofNat payload.flatten.length) > (cfg.writeMax : Int)) = decide (payload.flatten.length > cfg.writeMax) := by
    rw [Int.ofNat_eq_natCast]; congr 1; apply propext; constructor <;> intro h <;> omega
  have hc3 : ((fc.compress && Trans.Opcode_isDataFrame opcode) && decide ((Int.ofNat payload.flatten.length) ≥ (cfg.threshold : Int)))
      = Writer.willCompress cfg fc opcode.toNat payload.flatten.length := by
    unfold Writer.willCompress
    rw [isDataFrame_eq]
    rw [Int.ofNat_eq_natCast]; congr 2; apply propext; constructor <;> intro h <;> omega
  unfold Trans.Conn_genFrame Writer.genFrame
  -- the four things the function decides on, as the model spells them; after that both sides are reduced with these
  -- facts, so the proof does not depend on how the code nests or names its conditions
  simp only [e1, hce, hc2, hc3, decide_eq_true_eq, Bool.and_eq_true, Bool.not_eq_true', Bool.not_eq_true]
  have ht' : (opcode.toNat = Facts.opText) = True ∨ (opcode.toNat = Facts.opText) = False := by
    by_cases ht : opcode.toNat = Facts.opText
    · exact Or.inl (eq_true ht)
    · exact Or.inr (eq_false ht)
  rcases ht' with ht | ht <;>
  cases hb : Utf8.buffersCheck fc.checkEncoding opcode.toNat payload <;>
  by_cases hm : payload.flatten.length > cfg.writeMax <;>
  cases hw : Writer.willCompress cfg fc opcode.toNat payload.flatten.length <;>
  simp only [ht, hb, hm, hw, and_true, and_false, true_and, false_and, if_true, if_false, ↓reduceIte, not_true_eq_false, not_false_eq_true,
    Bool.false_eq_true, decide_true, decide_false, Bool.true_eq_false, interpW, reduceCtorEq] <;>
  (try rfl)
  all_goals (
    have hn : payload.flatten.length < 2 ^ 63 := by omega
    obtain ⟨hg1, hg2⟩ := GenerateHeader_eq cfg.isServer fc.fin false opcode payload.flatten.length hn maskNum
    have hg3 := GenerateHeader_len cfg.isServer fc.fin false opcode payload.flatten.length hn maskNum
    rw [Int.ofNat_eq_natCast]
    generalize Trans.frameHeader_GenerateHeader (List.replicate 14 0) cfg.isServer fc.fin false opcode
      (payload.flatten.length : Int) maskNum = g at hg1 hg2 hg3
    generalize Frame.genHeader cfg.isServer fc.fin false opcode.toNat payload.flatten.length (goBytesU32LE maskNum) = H at hg1 hg3
    have hm : ((14 : Int) - g.2.1).toNat = 14 - H.length := by rw [hg3]; omega
    rw [hm, hg1, hg2]
    congr 1
    unfold Writer.backfill Writer.padding
    simp only [Facts.frameHeaderSize]
    have hpad : ([] : List UInt8) ++ List.drop (Int.toNat 0) (List.replicate 14 0) = List.replicate 14 0 := rfl
    have h14 : Int.toNat 14 = 14 := rfl
    rw [hpad, h14]
    have hd : List.drop 14 (List.replicate 14 (0 : UInt8) ++ payload.flatten) = payload.flatten := by
      rw [List.drop_append]; simp
    have ht : List.take 14 (List.replicate 14 (0 : UInt8) ++ payload.flatten) = List.replicate 14 0 := by
      rw [List.take_append]; simp
    rw [hd, ht]
    cases cfg.isServer <;>
      simp only [Bool.not_false, Bool.not_true, if_true, if_false, Bool.false_eq_true, Bool.true_eq_false, ↓reduceIte]
    all_goals first
      | rfl
      | (rw [maskXOR_eq]
         congr 2
         exact goCopy_tail (List.replicate 14 0) payload.flatten _ 14 rfl (by simp)))

end TransEquiv
