import Gws.Lemmas.Conc.ConnProps
/-!
# C06 (concurrent part) — at most one Close frame, nothing after it, writes after close are rejected

Statement: under every interleaving of write calls (`WriteMessage`/`Writev`/`WriteFile`/broadcast),
local close calls, error paths and the read loop, and for every position of transport faults,
at most one Close frame reaches the transport; it is written by the goroutine that won the
`CompareAndSwap(&closed, 0, 1)`; it is the last frame on the wire; and a write call that starts once
the connection is closed returns `ErrConnClosed` without touching the transport.

All theorems quantify over `Reachable s`: every finite sequence of `spawn`/`act` actions of the
transition system `Conc.step` (Gws/Model/Conc/Conn.lean), i.e. any number of actors of any kind,
spawned at any time, any schedule, any fault pattern.  The invariants are in
Gws/Lemmas/Conc/ConnInv.lean (`CInv`), ConnKinds.lean (`KInv`, `WInv`).  The position of the closed
test of the broadcast path is the generated fact `Facts.bcClosedCheckUnderLock` (= `true` for the
current source); the proofs unfold it, so they break if the test moves out of the lock region.

Trusted: atomicity of a `c.mu` region, of the CAS, and of one transport `Write` (see the model file).
-/

namespace Conc

/-- **At most one Close frame** is ever handed to the transport. -/
theorem at_most_one_close_frame {s : State} (h : Reachable s) :
    (s.wire.filter Frame.isClose).length ≤ 1 := by
  obtain ⟨xs, hr⟩ := h
  exact (cinv_run hr).at_most_one_close

/-- **The Close frame is written by the CAS winner**: a Close frame owned by actor `o` is on the wire
only if `o` won `CompareAndSwap(&closed, 0, 1)`. -/
theorem close_frame_by_winner {s : State} (h : Reachable s) {o : Nat} (hf : Frame.close o ∈ s.wire) :
    s.winner = some o := by
  obtain ⟨xs, hr⟩ := h
  exact ((cinv_run hr).close_owner _ hf rfl).1

/-- **Nothing follows the Close frame**: whatever the interleaving, a Close frame on the wire is the
last frame the transport accepted (no data frame of a concurrent writer, file writer or broadcast
slips in behind it). -/
theorem nothing_after_close_frame {s : State} (h : Reachable s) {pre post : List Frame} {f : Frame}
    (hw : s.wire = pre ++ f :: post) (hf : f.isClose = true) : post = [] := by
  obtain ⟨xs, hr⟩ := h
  exact (cinv_run hr).nothing_after_close hw hf

/-- A Close frame on the wire implies that the `closed` flag is set. -/
theorem close_frame_implies_closed {s : State} (h : Reachable s) {o : Nat} (hf : Frame.close o ∈ s.wire) :
    s.closed = true := by
  obtain ⟨xs, hr⟩ := h
  exact (cinv_run hr).close_closed hf

/-- The `closed` flag is never reset: it is monotone along every action. -/
theorem closed_is_monotone {s s' : State} {x : Action} (h : step s x = some s') (hc : s.closed = true) :
    s'.closed = true :=
  step_closed_mono h hc

/-- `closed` is set iff somebody won the CAS, and then the cause is stored (non-nil error for `OnClose`). -/
theorem closed_iff_winner {s : State} (h : Reachable s) :
    (s.closed = true ↔ s.winner.isSome = true) ∧ s.causeStored = s.closed := by
  obtain ⟨xs, hr⟩ := h
  have hi := cinv_run hr
  exact ⟨by rw [hi.closed_winner], hi.cause⟩

/-- **Mutual exclusion of `c.mu`**: at most one actor is inside a critical section. -/
theorem lock_mutual_exclusion {s : State} (h : Reachable s) {a b : Nat}
    (ha : (s.pc a).holdsLock = true) (hb : (s.pc b).holdsLock = true) : a = b := by
  obtain ⟨xs, hr⟩ := h
  exact (cinv_run hr).mutex a b ha hb

/-- **Writes after close are rejected.**  If a write call (`k` = `write r`, `file n` or `bcast`, i.e.
`k.isWriter`) is started by a fresh actor `a` in a reachable state whose `closed` flag is set, then
after every continuation `xs` (any further actors, interleaving and faults): no frame owned by `a`
is on the wire, in particular no data frame of `a`, and if the call has returned it returned
`ErrConnClosed`. -/
theorem writes_after_close_rejected {s s₁ s₂ : State} {a : Nat} {k : Kind} {xs : List Action}
    (h : Reachable s) (hc : s.closed = true) (hk : k.isWriter = true)
    (hs : step s (.spawn a k) = some s₁) (hrun : run s₁ xs = some s₂) :
    (∀ f ∈ s₂.wire, f.owner ≠ a) ∧ s₂.wire.filter (isDataOf a) = [] ∧
      ∀ r, s₂.pc a = .done r → r = .closed := by
  obtain ⟨ys, hr⟩ := h
  exact (lateWriter_run (lateWriter_spawn (cinv_run hr) hc hk hs) hrun).result

/-- **A local close wins or reports closed.**  A finished `WriteClose` call (`closer` actor at
`done r`) returned `nil` or the I/O error of its own Close-frame write iff it is the CAS winner, and
`ErrConnClosed` otherwise. -/
theorem local_close_wins_or_closed {xs : List Action} {s : State} (h : run {} xs = some s) {a : Nat}
    (hk : Action.spawn a .closer ∈ xs) {r : Ret} (hd : s.pc a = .done r) :
    ((r = .ok ∨ r = .ioErr) ↔ s.winner = some a) ∧ (s.winner ≠ some a → r = .closed) := by
  have := winv_run h a (kindMap_of_mem h a _ hk)
  rw [hd] at this
  simp only [CloserOK] at this
  rcases this with ⟨rfl, hw⟩ | ⟨hr, hw⟩
  · exact ⟨⟨fun h => by simp at h, fun h => (hw h).elim⟩, fun _ => rfl⟩
  · exact ⟨⟨fun _ => hw, fun _ => hr⟩, fun h => (h hw).elim⟩

/-! ### non-vacuity -/

/-- a local close writes its Close frame and closes the transport -/
example : (run {} [.spawn 1 .closer, .act 1 false, .act 1 false, .act 1 false, .act 1 false]).map
    (fun s => (s.wire, s.closed, s.tclosed, s.pc 1)) = some ([.close 1], true, true, .done .ok) := by decide

/-- a writer that passed its closed test before the CAS writes first; the Close frame follows -/
example : (run {} [.spawn 1 (.write false), .spawn 2 .closer, .act 1 false, .act 2 false, .act 1 false,
    .act 2 false, .act 2 false]).map (·.wire) = some [.data 1 0 true, .close 2] := by decide

/-- a write started after the close returns `ErrConnClosed` (after running its own lost close sequence) -/
example : (run {} [.spawn 1 .closer, .act 1 false, .spawn 2 (.file 3), .act 1 false, .act 1 false, .act 2 false,
    .act 2 false, .act 2 false]).map (fun s => (s.wire, s.pc 2)) = some ([.close 1], .done .closed) := by decide

/-- two local closes: one wins, the other reports `ErrConnClosed` -/
example : (run {} [.spawn 1 .closer, .spawn 2 .closer, .act 2 false, .act 1 false, .act 2 false, .act 2 false,
    .act 2 false]).map (fun s => (s.winner, s.pc 1, s.pc 2)) = some (some 2, .done .closed, .done .ok) := by decide

end Conc
