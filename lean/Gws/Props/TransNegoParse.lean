import Gws.Generated.Trans
import Gws.Model.Nego
import Gws.Props.TransNego
/-!
# T3 — the extension-header parser and the two header generators (compress.go), translated from the source on every run,
equal the model

* `permessageNegotiation` (the parser both sides run on the peer's `Sec-WebSocket-Extensions` value) = `Nego.permessageNegotiation`:
  the defaults, the left fold of the `switch pair[0]` over the `;`-separated parameters (= `Nego.applyParam`), the two
  `SelectValue(x < 8, 8, x)` lines (= `Nego.clamp8`); the fields the parser never assigns stay Go's zero values;
* `genRequestHeader` / `genResponseHeader` = `Nego.genRequestHeader` / `Nego.genResponseHeader`;
* composed with `server_getPD_eq` / `client_getPD_eq` (TransNego): the translated `getPermessageDeflate` of either side, fed with
  what the TRANSLATED parser makes of the header, is `Nego.serverGetPD` / `Nego.clientGetPD` of the raw header string.

In these three targets a Go string is `Nego.Str`; `internal.Split(·, ";")`, `strings.SplitN(·, "=", 2)`, `strconv.Atoi`,
`strconv.Itoa`, `strings.Join` are the model's own `Nego.split`, `Nego.splitN2` (through `goSplitN2`), `Nego.atoi`, `Nego.itoa`,
`Nego.join` — trusted as the reading of the Go library and compared with the real functions by the differential test.  What is
proved here is everything the three functions do AROUND those calls: which tokens are recognised and in which order, which
field each one sets, the `len(pair) == 2` guards, `WithDefault`/`Min`, the lower clamp, which options are emitted under which
condition and in which order.
-/
namespace TransEquiv

/-- the accumulator of the translated loop: the four fields the loop body assigns, in the (alphabetical) order in which
gotrans threads assigned variables -/
def pdAcc (o : Nego.PD) : Bool × Int × Bool × Int := (o.clientTakeover, o.clientBits, o.serverTakeover, o.serverBits)

/-- two left folds that agree step by step through a view `v` of the accumulator agree at the end -/
theorem foldl_view {α β γ : Type} (f : α → γ → α) (g : β → γ → β) (v : β → α) (h : ∀ b s, f (v b) s = v (g b s)) :
    ∀ (l : List γ) (b : β), l.foldl f (v b) = v (l.foldl g b) := by
  intro l
  induction l with
  | nil => intro b; rfl
  | cons s t ih => intro b; rw [List.foldl_cons, List.foldl_cons, h, ih]

/-- `permessageNegotiation(str)` = `Nego.permessageNegotiation str`, field by field (the result is the tuple of all fields of
Go's `PermessageDeflate` in declaration order: Enabled, Level, Threshold, PoolSize, ServerContextTakeover,
ClientContextTakeover, ServerMaxWindowBits, ClientMaxWindowBits) -/
theorem permessageNegotiation_eq (str : Nego.Str) :
    Trans.permessageNegotiation str
      = (false, 0, 0, 0, (Nego.permessageNegotiation str).serverTakeover, (Nego.permessageNegotiation str).clientTakeover,
         (Nego.permessageNegotiation str).serverBits, (Nego.permessageNegotiation str).clientBits) := by
  unfold Trans.permessageNegotiation Nego.permessageNegotiation Nego.parseParams
  simp only []
  rw [show ((true, (15 : Int), true, (15 : Int)) : Bool × Int × Bool × Int) = pdAcc Nego.parseInit from rfl]
  rw [foldl_view _ Nego.applyParam pdAcc]
  · -- after the loop: the lower clamp
    simp only [pdAcc, Nego.clamp8]
    generalize List.foldl Nego.applyParam Nego.parseInit (Nego.split str) = r
    by_cases h1 : r.serverBits < 8 <;> by_cases h2 : r.clientBits < 8 <;> simp [h1, h2]
  · -- one iteration of the translated loop body = `Nego.applyParam`
    intro o s
    obtain ⟨en, st, ct, sb, cb, th⟩ := o
    unfold goSplitN2 Nego.applyParam Trans.internal_Min Nego.imin Nego.withDefault
    rw [show "permessage-deflate".toList = Nego.pmd from rfl, show "server_no_context_takeover".toList = Nego.sNoCtx from rfl,
      show "client_no_context_takeover".toList = Nego.cNoCtx from rfl, show "server_max_window_bits".toList = Nego.sBits from rfl,
      show "client_max_window_bits".toList = Nego.cBits from rfl]
    rcases Nego.splitN2 s with ⟨k, _ | v⟩ <;>
      simp only [pdAcc, List.getD_cons_zero, List.getD_cons_succ, beq_iff_eq, List.length_cons, List.length_nil]
    all_goals
      by_cases h1 : k = Nego.pmd
      · simp only [if_pos h1]
      by_cases h2 : k = Nego.sNoCtx
      · simp only [if_neg h1, if_pos h2]
      by_cases h3 : k = Nego.cNoCtx
      · simp only [if_neg h1, if_neg h2, if_pos h3]
      by_cases h4 : k = Nego.sBits
      · simp [if_neg h1, if_neg h2, if_neg h3, if_pos h4]
      by_cases h5 : k = Nego.cBits
      · simp [if_neg h1, if_neg h2, if_neg h3, if_neg h4, if_pos h5]
      · simp only [if_neg h1, if_neg h2, if_neg h3, if_neg h4, if_neg h5]

private theorem tokens :
    "permessage-deflate".toList = Nego.pmd ∧ "server_no_context_takeover".toList = Nego.sNoCtx
      ∧ "client_no_context_takeover".toList = Nego.cNoCtx
      ∧ "server_max_window_bits=".toList = Nego.sBits ++ ['='] ∧ "client_max_window_bits=".toList = Nego.cBits ++ ['=']
      ∧ "client_max_window_bits".toList = Nego.cBits ∧ "; ".toList = Nego.sep :=
  ⟨rfl, rfl, rfl, rfl, rfl, rfl, rfl⟩

/-- `(*PermessageDeflate).genRequestHeader()` = `Nego.genRequestHeader` -/
theorem genRequestHeader_eq (p : Nego.PD) :
    Trans.PermessageDeflate_genRequestHeader (c_ClientContextTakeover := p.clientTakeover) (c_ClientMaxWindowBits := p.clientBits)
        (c_ServerContextTakeover := p.serverTakeover) (c_ServerMaxWindowBits := p.serverBits)
      = Nego.genRequestHeader p := by
  unfold Trans.PermessageDeflate_genRequestHeader Nego.genRequestHeader Nego.requestOptions
  obtain ⟨en, st, ct, sb, cb, th⟩ := p
  obtain ⟨t1, t2, t3, t4, t5, t6, t7⟩ := tokens
  simp only [t1, t2, t3, t4, t5, t6, t7]
  congr 1
  by_cases h1 : sb = 15 <;> by_cases h2 : cb = 15 <;> cases st <;> cases ct <;> simp [h1, h2]

/-- `(*PermessageDeflate).genResponseHeader()` = `Nego.genResponseHeader` -/
theorem genResponseHeader_eq (p : Nego.PD) :
    Trans.PermessageDeflate_genResponseHeader (c_ClientContextTakeover := p.clientTakeover) (c_ClientMaxWindowBits := p.clientBits)
        (c_ServerContextTakeover := p.serverTakeover) (c_ServerMaxWindowBits := p.serverBits)
      = Nego.genResponseHeader p := by
  unfold Trans.PermessageDeflate_genResponseHeader Nego.genResponseHeader Nego.responseOptions
  obtain ⟨en, st, ct, sb, cb, th⟩ := p
  obtain ⟨t1, t2, t3, t4, t5, _, t7⟩ := tokens
  simp only [t1, t2, t3, t4, t5, t7]
  congr 1
  by_cases h1 : sb = 15 <;> by_cases h2 : cb = 15 <;> cases st <;> cases ct <;> simp [h1, h2]

/-! ## the parser composed with `getPermessageDeflate` (the oracle inputs of TransNego instantiated) -/

/-- `Upgrader.getPermessageDeflate` with `clientPD` taken from the TRANSLATED parser run on the offer = `Nego.serverGetPD`
of the raw offer (`offered` = `strings.Contains(extensions, "permessage-deflate")` stays an input) -/
theorem server_getPD_parsed_eq (opt : Nego.PD) (extensions : Nego.Str) (level poolSize : Int) (ext : Hs.Str) :
    Trans.Upgrader_getPermessageDeflate ext
        (c_option_PermessageDeflate_ClientContextTakeover := opt.clientTakeover)
        (c_option_PermessageDeflate_ClientMaxWindowBits := opt.clientBits)
        (c_option_PermessageDeflate_Enabled := opt.enabled)
        (c_option_PermessageDeflate_Level := level) (c_option_PermessageDeflate_PoolSize := poolSize)
        (c_option_PermessageDeflate_ServerContextTakeover := opt.serverTakeover)
        (c_option_PermessageDeflate_ServerMaxWindowBits := opt.serverBits)
        (c_option_PermessageDeflate_Threshold := opt.threshold)
        (clientPD_ClientContextTakeover := (Trans.permessageNegotiation extensions).2.2.2.2.2.1)
        (clientPD_ServerContextTakeover := (Trans.permessageNegotiation extensions).2.2.2.2.1)
        (offered := Nego.contains extensions Nego.pmd)
      = ((Nego.serverGetPD opt extensions).enabled, level, (Nego.serverGetPD opt extensions).threshold, poolSize,
         (Nego.serverGetPD opt extensions).serverTakeover, (Nego.serverGetPD opt extensions).clientTakeover,
         (Nego.serverGetPD opt extensions).serverBits, (Nego.serverGetPD opt extensions).clientBits) := by
  rw [permessageNegotiation_eq]
  exact server_getPD_eq opt extensions level poolSize ext

/-- `connector.getPermessageDeflate` with `serverPD` taken from the TRANSLATED parser run on the response = `Nego.clientGetPD`
of the raw response -/
theorem client_getPD_parsed_eq (opt : Nego.PD) (extensions : Nego.Str) (level poolSize : Int) (ext : Hs.Str) :
    Trans.connector_getPermessageDeflate ext
        (c_option_PermessageDeflate_Enabled := opt.enabled)
        (c_option_PermessageDeflate_Level := level) (c_option_PermessageDeflate_PoolSize := poolSize)
        (c_option_PermessageDeflate_Threshold := opt.threshold)
        (serverPD_ClientContextTakeover := (Trans.permessageNegotiation extensions).2.2.2.2.2.1)
        (serverPD_ClientMaxWindowBits := (Trans.permessageNegotiation extensions).2.2.2.2.2.2.2)
        (serverPD_ServerContextTakeover := (Trans.permessageNegotiation extensions).2.2.2.2.1)
        (serverPD_ServerMaxWindowBits := (Trans.permessageNegotiation extensions).2.2.2.2.2.2.1)
        (offered := Nego.contains extensions Nego.pmd)
      = ((Nego.clientGetPD opt extensions).enabled, level, (Nego.clientGetPD opt extensions).threshold, poolSize,
         (Nego.clientGetPD opt extensions).serverTakeover, (Nego.clientGetPD opt extensions).clientTakeover,
         (Nego.clientGetPD opt extensions).serverBits, (Nego.clientGetPD opt extensions).clientBits) := by
  rw [permessageNegotiation_eq]
  exact client_getPD_eq opt extensions level poolSize ext

/-- the header a gws client generates, parsed by the translated parser, gives back what the header says: the translated
generator and the translated parser are the model's, so C12's round-trip theorems about `Nego` speak about them -/
theorem parse_genRequestHeader (p : Nego.PD) :
    Trans.permessageNegotiation (Trans.PermessageDeflate_genRequestHeader (c_ClientContextTakeover := p.clientTakeover)
        (c_ClientMaxWindowBits := p.clientBits) (c_ServerContextTakeover := p.serverTakeover) (c_ServerMaxWindowBits := p.serverBits))
      = (false, 0, 0, 0, (Nego.permessageNegotiation (Nego.genRequestHeader p)).serverTakeover,
         (Nego.permessageNegotiation (Nego.genRequestHeader p)).clientTakeover,
         (Nego.permessageNegotiation (Nego.genRequestHeader p)).serverBits,
         (Nego.permessageNegotiation (Nego.genRequestHeader p)).clientBits) := by
  rw [genRequestHeader_eq, permessageNegotiation_eq]

/-! ## non-vacuity: the translated functions compute -/

example : Trans.permessageNegotiation "permessage-deflate; client_max_window_bits=10; server_no_context_takeover".toList
    = (false, 0, 0, 0, false, true, 15, 10) := by rfl
example : Trans.permessageNegotiation
      "permessage-deflate; server_max_window_bits=3; client_max_window_bits; client_no_context_takeover; x=1".toList
    = (false, 0, 0, 0, true, false, 8, 15) := by rfl
example : Trans.permessageNegotiation "server_max_window_bits=0;client_max_window_bits=abc ; ;server_max_window_bits=11".toList
    = (false, 0, 0, 0, true, true, 11, 15) := by rfl
example : Trans.PermessageDeflate_genRequestHeader (c_ClientContextTakeover := true) (c_ClientMaxWindowBits := 15)
    (c_ServerContextTakeover := false) (c_ServerMaxWindowBits := 12)
    = "permessage-deflate; server_no_context_takeover; server_max_window_bits=12; client_max_window_bits".toList := by rfl
example : Trans.PermessageDeflate_genResponseHeader (c_ClientContextTakeover := true) (c_ClientMaxWindowBits := 9)
    (c_ServerContextTakeover := false) (c_ServerMaxWindowBits := 15)
    = "permessage-deflate; server_no_context_takeover; client_max_window_bits=9".toList := by rfl

end TransEquiv
