import Gws.Props.TransDequeCore
/-!
# T3 for internal/deque.go (C20), part 2: the operations of the API

Each translated method of `Deque[T]` equals the model's function, for every deque value and every argument (no
well-formedness hypothesis: where the Go code panics the model yields `none`, and conversely).
-/
set_option linter.unusedSimpArgs false

namespace TransEquiv.Dq
open GoDeque TransDeque

theorem PushFront_eq (d : Deque) (value : Nat) : Deque_PushFront d value = d.pushFront value := by
  unfold Deque_PushFront Deque.pushFront
  simp only [getElement_eq]
  cases hg : d.getElement with
  | none => simp
  | some r =>
    obtain ⟨d1, ele⟩ := r
    have hp := getElement_post hg
    simp [deref_ne, assign_ne, hp.1, doPushFront_eq _ _ hp.1, Deque.setValue]

theorem PushBack_eq (d : Deque) (value : Nat) : Deque_PushBack d value = d.pushBack value := by
  unfold Deque_PushBack Deque.pushBack
  simp only [getElement_eq]
  cases hg : d.getElement with
  | none => simp
  | some r =>
    obtain ⟨d1, ele⟩ := r
    have hp := getElement_post hg
    simp [deref_ne, assign_ne, hp.1, doPushBack_eq _ _ hp.1, Deque.setValue]

theorem PopFront_eq (d : Deque) : Deque_PopFront d = d.popFront := by
  unfold Deque_PopFront Deque.popFront
  simp only [Front_eq]
  cases hg : d.front with
  | none => simp
  | some ele =>
    by_cases he : ele = 0
    · simp [he]
    · simp [he, deref_ne, doRemove_eq _ _ he]
      cases hr : d.doRemove ele with
      | none => simp
      | some d2 =>
        simp [putElement_eq _ _ he, autoReset_eq]
        by_cases hl : (d2.putElement ele).length = 0 <;> simp [hl]

theorem store_oob {d : Deque} {p : Nat} (e : Elem) (h : ¬ p < d.elements.length) : d.store p e = d := by
  simp [Deque.store, List.set_eq_of_length_le (Nat.le_of_not_lt h)]

theorem PopBack_eq (d : Deque) : Deque_PopBack d = d.popBack := by
  unfold Deque_PopBack Deque.popBack
  simp only [Back_eq]
  cases hg : d.back with
  | none => simp
  | some ele =>
    by_cases he : ele = 0
    · simp [he]
    · simp [he, deref_ne, doRemove_eq _ _ he]
      cases hr : d.doRemove ele with
      | none => simp
      | some d2 =>
        simp [putElement_eq _ _ he, autoReset_eq]
        by_cases hl : (d2.putElement ele).length = 0 <;> simp [hl]

theorem Remove_eq (d : Deque) (addr : Nat) : Deque_Remove d addr = d.remove addr := by
  unfold Deque_Remove Deque.remove
  simp only [Get_eq]
  cases hg : d.get addr with
  | none => simp
  | some ele =>
    by_cases he : ele = 0
    · simp [he]
    · simp [he, deref_ne, doRemove_eq _ _ he]
      cases hr : d.doRemove ele with
      | none => simp
      | some d2 =>
        simp [putElement_eq _ _ he, autoReset_eq]
        by_cases hl : (d2.putElement ele).length = 0 <;> simp [hl]

theorem Update_eq (d : Deque) (addr value : Nat) : Deque_Update d addr value = d.update addr value := by
  unfold Deque_Update Deque.update
  simp only [Get_eq]
  cases hg : d.get addr with
  | none => simp
  | some ele =>
    by_cases he : ele = 0
    · simp [he]
    · simp [he, deref_ne, assign_ne, Deque.setValue]

theorem MoveToBack_eq (d : Deque) (addr : Nat) : Deque_MoveToBack d addr = d.moveToBack addr := by
  unfold Deque_MoveToBack Deque.moveToBack
  simp only [Get_eq]
  cases hg : d.get addr with
  | none => simp
  | some ele =>
    by_cases he : ele = 0
    · simp [he]
    · simp [he, deref_ne, doRemove_eq _ _ he]
      cases hr : d.doRemove ele with
      | none => simp
      | some d2 =>
        simp [he, deref_ne, assign_ne, doPushBack_eq _ _ he]
        by_cases hl : ele < d2.elements.length
        · simp [load_store_same _ hl, store_store_same]
        · simp [store_oob _ hl]

theorem MoveToFront_eq (d : Deque) (addr : Nat) : Deque_MoveToFront d addr = d.moveToFront addr := by
  unfold Deque_MoveToFront Deque.moveToFront
  simp only [Get_eq]
  cases hg : d.get addr with
  | none => simp
  | some ele =>
    by_cases he : ele = 0
    · simp [he]
    · simp [he, deref_ne, doRemove_eq _ _ he]
      cases hr : d.doRemove ele with
      | none => simp
      | some d2 =>
        simp [he, deref_ne, assign_ne, doPushFront_eq _ _ he]
        by_cases hl : ele < d2.elements.length
        · simp [load_store_same _ hl, store_store_same]
        · simp [store_oob _ hl]

/-- closes what is left once both sides are normalised: the same `if` on both sides, pushed through `some` / the pair -/
local macro "dq_close" : tactic => `(tactic| first | done | (split <;> simp [*]) | (repeat' split) <;> simp_all)

theorem InsertAfter_eq (d : Deque) (value mark : Nat) : Deque_InsertAfter d value mark = d.insertAfter value mark := by
  unfold Deque_InsertAfter Deque.insertAfter
  simp only [getElement_eq, Get_eq, IsNil_eq]
  by_cases hm : mark = 0
  · simp [hm]
  · simp only [hm, if_false]
    cases hg : Deque.getElement { d with length := d.length + 1 } with
    | none => simp
    | some r =>
      obtain ⟨d1, e1⟩ := r
      have hp := getElement_post hg
      simp only [Option.bind_eq_bind, Option.bind_some, Option.pure_def]
      cases h0 : d1.get mark with
      | none => simp
      | some e0 =>
        have he0 := get_nonzero h0 hm
        simp only [Option.bind_some, deref_ne he0]
        cases h2 : d1.get (d1.load e0).next with
        | none => simp
        | some e2 =>
          -- `e1` may alias `e0` only in an ill-formed deque; decided here, before the translated side is normalised,
          -- so that a read of slot `e0` after a store into slot `e1` (sequential assignments) is resolved either way
          by_cases h10 : e1 = e0
          · subst h10
            by_cases h2z : e2 = 0 <;>
              simp [deref_ne, assign_ne, hp.1, h2z, load_store_same _ hp.2, store_store_same, Deque.setNext, Deque.setPrev] <;>
              dq_close
          · by_cases h2z : e2 = 0 <;>
              simp [deref_ne, assign_ne, hp.1, he0, h2z, load_store_same _ hp.2, load_store_other _ h10, store_store_same,
                Deque.setNext, Deque.setPrev] <;>
              dq_close

theorem InsertBefore_eq (d : Deque) (value mark : Nat) : Deque_InsertBefore d value mark = d.insertBefore value mark := by
  unfold Deque_InsertBefore Deque.insertBefore
  simp only [getElement_eq, Get_eq, IsNil_eq]
  by_cases hm : mark = 0
  · simp [hm]
  · simp only [hm, if_false]
    cases hg : Deque.getElement { d with length := d.length + 1 } with
    | none => simp
    | some r =>
      obtain ⟨d1, e1⟩ := r
      have hp := getElement_post hg
      simp only [Option.bind_eq_bind, Option.bind_some, Option.pure_def]
      cases h2 : d1.get mark with
      | none => simp
      | some e2 =>
        have he2 := get_nonzero h2 hm
        simp only [Option.bind_some, deref_ne he2]
        cases h0 : d1.get (d1.load e2).prev with
        | none => simp
        | some e0 =>
          by_cases h12 : e1 = e2
          · subst h12
            by_cases h0z : e0 = 0 <;>
              simp [deref_ne, assign_ne, hp.1, h0z, load_store_same _ hp.2, store_store_same, Deque.setNext, Deque.setPrev] <;>
              dq_close
          · by_cases h0z : e0 = 0 <;>
              simp [deref_ne, assign_ne, hp.1, he2, h0z, load_store_same _ hp.2, load_store_other _ h12, store_store_same,
                Deque.setNext, Deque.setPrev] <;>
              dq_close

/-! ## non-vacuity: the translated code run on concrete values -/

example : (do
    let (d, _) ← Deque_PushBack Deque.zero 7
    let (d, a) ← Deque_PushBack d 8
    let (d, _) ← Deque_PushFront d 6
    let d ← Deque_MoveToFront d a
    let (d, x) ← Deque_PopFront d
    let (d, y) ← Deque_PopBack d
    pure (x, y, d.length)) = some (8, 7, 1) := by decide +kernel

end TransEquiv.Dq
