import Gws.Generated.Facts
/-!
# Source-shape obligations

The transition systems of C06–C09, C15 and C19 take one mutex critical section, one CAS and one
transport write as atomic actions.  Which statements form such a section is read off the Go source
by `tools/factgen` on every run (`Gws/Generated/Facts.lean`).  The theorems below assert, by
evaluation, that the regenerated facts are the ones the models were written for; when the source
changes shape (a lock dropped, a closed test moved out of the locked region, a second writer of the
closed flag, a new transport write site, a fast path around `getJob`) the corresponding theorem no
longer checks, the property's proof obligations are broken and the check searches for a failing
schedule.
-/

namespace SourceShape

/-- C06/C07/C08/C09: the write lock, the closed flag and the transport writes are used as the
transition system says. -/
theorem conn_sections :
    Facts.doWriteLocks = true ∧ Facts.doWriteClosedCheckUnderLock = true ∧
    Facts.doWriteFileLocks = true ∧ Facts.fileClosedCheckPerFrameUnderLock = true ∧
    Facts.bcClosedCheckUnderLock = true ∧ Facts.bcWriteUnderLock = true ∧
    Facts.closedOnlySetByCas = true ∧ Facts.writeCloseOnlyBehindCas = true ∧
    Facts.closedCasSites = ["Conn.WriteClose", "Conn.emitClose", "Conn.emitError"] ∧
    Facts.writeCloseCallers = ["Conn.WriteClose", "Conn.emitClose", "Conn.emitError"] ∧
    Facts.transportWriteSites = ["Broadcaster.writeFrame", "Conn.doWrite", "Conn.doWriteFile", "Upgrader.writeErr",
      "connector.request", "responseWriter.Write"] ∧
    Facts.doWriteOrder = ["genFrame", "write", "window"] ∧
    Facts.readLoopShape = ["open", "loop", "close", "reclaim"] ∧
    Facts.dispatchDefersRecovery = true ∧ Facts.closeOpcodeTakesClosePath = true ∧
    Facts.readLoopNeverWaitsForWriteLock = true ∧ Facts.deadlineSettersLockFree = true := by decide

/-- C09 (handshake clause): `UpgradeFromConn`, `NewClient` and `NewClientFromConn` run the inner
handshake procedure and, when it reports an error, close the transport before returning that error.
Which transport operation failed does not matter to this wrapper, so the clause "for every position
k of every transport operation of the handshake" reduces to "the inner procedure reports the
failure", which the `faults hs-*` cases observe for every k (a failed operation followed by a
successful return is reported as `fault-swallowed`). -/
theorem handshake_entry_closes_on_error : Facts.handshakeEntryClosesOnError = true := by decide

end SourceShape
