import Gws.Props.TransReader
/-!
# T3 — `readMessage` after the payload read (reader.go), translated from the source on every run, equals the
model's fragmentation state machine `Reader.afterPayload`

`emitMessage` is left uninterpreted by the translation (`Trans.Conn_readMessage_afterPayload` is polymorphic in
the result type): here it is instantiated with the constructors of `Decision`, and `interp` maps a decision to
what the model does next.
-/
namespace TransEquiv

/-- what the translated segment decides: return an error value / `nil`, or hand a message to `emitMessage` -/
inductive Decision where
  | ret (e : Option GoErr)
  | emit (opcode : UInt8) (data : Bytes) (compressed : Bool)

/-- the continuation state of the model from the four fields of `continuationFrame` -/
def contOf (buffer : Bytes) (compressed initialized : Bool) (opcode : UInt8) : Reader.Cont :=
  { initialized := initialized, compressed := compressed, opcode := opcode.toNat, buffer := buffer }

/-- what the model does with a decision (`rest` = the unread input) -/
def interp (cfg : Reader.Cfg) (codec : Codec) (st : Reader.State) (rest : Bytes) :
    Except (Bytes × Bool × Bool × UInt8 × Decision) (Bytes × Bool × Bool × UInt8) → Reader.Step
  | .ok _ => .stop [] (.panic "the segment always returns")
  | .error (buffer, compressed, initialized, opcode, d) =>
    let st' : Reader.State := { st with cont := contOf buffer compressed initialized opcode }
    match d with
    | .ret none => .ok st' [] rest
    | .ret (some (.status 1002)) => .stop [] Reader.protoErr
    | .ret (some (.status 1009)) => .stop [] Reader.tooLarge
    | .ret (some _) => .stop [] Reader.ioErr
    | .emit op data comp =>
      match Reader.emitMessage cfg codec st' op.toNat data comp with
      | .inl (st'', ev) => .ok st'' ev.toList rest
      | .inr e => .stop [] e

/-- the fragmentation state machine of `readMessage` = `Reader.afterPayload`.  `opcode`, `fin`, `compressed` are the
values the header segment computed (`readMessage_header_eq`); `st.cont.opcode` is an opcode the code stored, i.e. a
byte. -/
theorem afterPayload_eq (cfg : Reader.Cfg) (codec : Codec) (st : Reader.State) (h : Frame.Hdr) (p rest buf : Bytes)
    (opcode : UInt8) (hop : opcode.toNat = Frame.getOpcode h.b0) (hst : st.cont.opcode < 256) :
    interp cfg codec st rest
      (Trans.Conn_readMessage_afterPayload Decision.ret Decision.emit
        (c_continuationFrame_initialized := st.cont.initialized) (c_continuationFrame_compressed := st.cont.compressed)
        (c_continuationFrame_opcode := UInt8.ofNat st.cont.opcode) (c_continuationFrame_buffer := st.cont.buffer)
        (c_config_ReadMaxPayloadSize := cfg.readMax) (opcode := opcode) (fin := Frame.getFIN h.b0) (p := p) (buf := buf)
        (compressed := cfg.pdEnabled && Frame.getRSV1 h.b0))
      = Reader.afterPayload cfg codec st h p rest := by
  obtain ⟨⟨ini, cmp, op, cb⟩, dps⟩ := st
  simp only at hst
  have hop' : (UInt8.ofNat op).toNat = op := by
    simp [UInt8.toNat_ofNat']; omega
  have h0 : (opcode != 0) = decide (opcode.toNat ≠ 0) := by
    cases hz : opcode != 0 <;> simp_all [← UInt8.toNat_inj]
  unfold Trans.Conn_readMessage_afterPayload Reader.afterPayload Trans.continuationFrame_reset
  simp only [← hop, h0, Facts.opContinuation]
  generalize Frame.getFIN h.b0 = fin
  generalize (cfg.pdEnabled && Frame.getRSV1 h.b0) = comp
  by_cases hz : opcode.toNat = 0 <;> cases fin <;> cases ini <;> simp [hz, interp, contOf, hop']
  -- continuation frame, not final, a message is open: append, size check
  · by_cases hm : cfg.readMax < ↑(List.length cb) + ↑(List.length p) <;> simp [hm, hop']
  -- continuation frame, final: append, size check, emit and reset
  · by_cases hm : cfg.readMax < ↑(List.length cb) + ↑(List.length p) <;> simp [hm, hop']
    rfl
  -- first fragment
  · by_cases hm : cfg.readMax < ↑(List.length p) <;> simp [hm]
  -- unfragmented message
  · rfl

end TransEquiv
