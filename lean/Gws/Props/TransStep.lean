import Gws.Props.TransParse
import Gws.Props.TransReader
import Gws.Props.TransControl
import Gws.Props.TransFragment
import Gws.Props.TransEmit
import Gws.Lemmas.Pool
/-!
# T3 — `readMessage` as the sequence of its translated segments equals the model's `Reader.step`

`Conn.readMessage` is, statement by statement, the sequence Parse → header checks → (control frame: `readControl`:
guards, body) | (data frame: payload read and unmasking → fragmentation state machine → `emitMessage`).  Every one of
these pieces is translated from the source (`Trans.*`).  `readMessageT` below puts the translated pieces in that order;
only the hand-over of the local variables from one piece to the next is written by hand.  The theorem says that this
composition is the model's `Reader.step` — the function `readLoop` iterates and the C03/C04/C13/C16 theorems are about.
-/
namespace TransEquiv

/-- marks "the header segment handed over to readControl" in the `readControlResult` input of the header segment -/
def toControl : Option GoErr := some (.named "readControl")

private theorem goCopy_full' (p q : Bytes) (h : q.length = p.length) : goCopy p 0 q = q := by
  unfold goCopy; simp [← h]

/-- the payload-read segment = the first half of `Reader.dataFrame` (no panic: `Pool.cap_ge`) -/
theorem readMessage_payload_eq (fh rest : Bytes) (n : Nat) (maskOn : Bool) :
    Trans.Conn_readMessage_payload (c_fh := fh) (c_br := rest) (contentLength := (n : Int)) (maskEnabled := maskOn) =
      if rest.length < n then .error (rest, some GoErr.io)
      else .ok (rest.drop n, Trans.frameHeader_GetFIN fh,
        if maskOn then goMaskXOR (rest.take n) (Trans.frameHeader_GetMaskKey fh) else rest.take n) := by
  unfold Trans.Conn_readMessage_payload
  simp only [goReadN, List.length_replicate, Int.toNat_natCast]
  by_cases hr : rest.length < n
  · simp [hr]
  · have hl : (rest.take n).length = n := by simp; omega
    have hc : goCopy (List.replicate n (0 : UInt8)) 0 (rest.take n) = rest.take n :=
      goCopy_full' _ _ (by simp [hl])
    simp only [hr, if_false, hc, List.drop_zero]
    cases maskOn
    · simp
    · simp only [if_true]
      rw [goCopy_full' _ _ (by simp [goMaskXOR])]

private theorem maskXOR_key' (key p : Bytes) (hk : key.length = 4) : goMaskXOR p key = Reader.unmask key p := by
  match key, hk with
  | [a, b, c, d], _ =>
    rw [Writer.unmask_eq_xorKey]
    unfold goMaskXOR Writer.xorKey
    simp only
    apply List.ext_getElem
    · simp
    · intro i h1 h2
      simp only [List.getElem_mapIdx]
      congr 1
      have : i % 4 < 4 := Nat.mod_lt _ (by omega)
      generalize i % 4 = j at this
      match j, this with
      | 0, _ => rfl
      | 1, _ => rfl
      | 2, _ => rfl
      | 3, _ => rfl

/-- the key `Frame.parse` returns has 4 bytes when the mask bit is set -/
private theorem parse_key_len (b : Bytes) (h : Frame.Hdr) (rest : Bytes) (hp : Frame.parse b = .ok h rest)
    (hm : Frame.getMask h.b1 = true) : h.key.length = 4 := by
  unfold Frame.parse at hp
  split at hp
  · simp only at hp
    split at hp
    · exact absurd hp (by simp)
    · split at hp
      · split at hp
        · injection hp with hh _; subst hh; rfl
        · exact absurd hp (by simp)
      · rename_i hnm
        injection hp with hh _; subst hh
        simp only at hm
        exact absurd hm hnm
  · exact absurd hp (by simp)

/-- the header checks fail with one of two ends, and pass only for a non-negative length -/
private theorem headerCheck_some (cfg : Reader.Cfg) (h : Frame.Hdr) (e : Reader.End)
    (hc : Reader.headerCheck cfg h = some e) : e = Reader.tooLarge ∨ e = Reader.protoErr := by
  unfold Reader.headerCheck at hc
  simp only at hc
  split at hc
  · left; injection hc with hc; exact hc.symm
  · split at hc
    · right; injection hc with hc; exact hc.symm
    · split at hc
      · right; injection hc with hc; exact hc.symm
      · exact absurd hc (by simp)

private theorem headerCheck_none (cfg : Reader.Cfg) (h : Frame.Hdr)
    (hc : Reader.headerCheck cfg h = none) : 0 ≤ h.len := by
  unfold Reader.headerCheck at hc
  simp only at hc
  split at hc
  · exact absurd hc (by simp)
  · omega

/-- `readMessage`, assembled from its translated segments in the order of the Go function -/
def readMessageT (cfg : Reader.Cfg) (codec : Codec) (st : Reader.State) (fh : Bytes) (b : Bytes) : Reader.Step :=
  match Trans.frameHeader_Parse fh b with
  | (_, _, _, some _) => .stop [] Reader.ioErr
  | (fh', rest, len, none) =>
    match Trans.Conn_readMessage_header (c_config_ReadMaxPayloadSize := cfg.readMax) (c_fh := fh') (c_pd_Enabled := cfg.pdEnabled)
        (c_isServer := cfg.isServer) (contentLength := len) (readControlResult := toControl) with
    | .error e =>
      if e = toControl then
        -- `return c.readControl()`
        match Trans.Conn_readControl_guards fh' with
        | .error _ => .stop [] Reader.protoErr
        | .ok n => interpC cfg st (Trans.Conn_readControl_body CtlR.ret (ctlEv Reader.Ev.ping) (ctlEv Reader.Ev.pong) CtlR.close rest fh' n)
      else if e = some (.status 1009) then .stop [] Reader.tooLarge
      else .stop [] Reader.protoErr
    | .ok (opcode, maskEnabled, compressed) =>
      match Trans.Conn_readMessage_payload (c_fh := fh') (c_br := rest) (contentLength := len) (maskEnabled := maskEnabled) with
      | .error _ => .stop [] Reader.ioErr
      | .ok (rest', fin, p) =>
        interp cfg codec st rest'
          (Trans.Conn_readMessage_afterPayload Decision.ret Decision.emit
            (c_continuationFrame_initialized := st.cont.initialized) (c_continuationFrame_compressed := st.cont.compressed)
            (c_continuationFrame_opcode := UInt8.ofNat st.cont.opcode) (c_continuationFrame_buffer := st.cont.buffer)
            (c_config_ReadMaxPayloadSize := cfg.readMax) (opcode := opcode) (fin := fin) (p := p) (buf := p)
            (compressed := compressed))

/-- the composition of the translated segments of `readMessage` is `Reader.step`, for every input, configuration and
connection state (the continuation state holds an opcode the code stored, i.e. a byte; the header array has its 14 bytes) -/
theorem readMessage_eq_step (cfg : Reader.Cfg) (codec : Codec) (st : Reader.State) (fh b : Bytes)
    (hfh : fh.length = 14) (hst : st.cont.opcode < 256) :
    readMessageT cfg codec st fh b = Reader.step cfg codec st b := by
  unfold readMessageT Reader.step
  have hp := Parse_eq fh hfh b
  cases hparse : Frame.parse b with
  | needMore =>
    rw [hparse] at hp
    obtain ⟨c', r', e⟩ := hp
    simp only [e]
  | ok h rest =>
    rw [hparse] at hp
    obtain ⟨c', e, hl, h0, h1, hk⟩ := hp
    simp only [e]
    rw [readMessage_header_eq cfg h c' toControl h0 h1]
    cases hc : Reader.headerCheck cfg h with
    | some en =>
      simp only
      rcases headerCheck_some cfg h en hc with rfl | rfl
      · simp [errOfEnd, Reader.tooLarge, toControl, Facts.closeMessageTooLarge]
      · simp [errOfEnd, Reader.protoErr, toControl, Facts.closeProtocolError]
    | none =>
      simp only
      have hlen := headerCheck_none cfg h hc
      have hk4 : Frame.getMask h.b1 = true → h.key.length = 4 := parse_key_len b h rest hparse
      by_cases hop : Frame.getOpcode h.b0 > Facts.dataFrameMaxOpcode
      · simp only [hop, if_true]
        rw [readControl_guards_eq, h0, h1]
        cases hfin : Frame.getFIN h.b0
        · simp [Reader.readControl, hfin]
        · by_cases hn : Frame.getLengthCode h.b1 > Facts.thresholdV1
          · simp [Reader.readControl, hfin, hn]
          · simp only [Bool.not_true, Bool.false_eq_true, if_false, hn]
            exact readControl_body_eq cfg st h c' rest hl h0 h1 hk hk4 hfin (by omega)
      · simp only [hop, if_false]
        have hl' : h.len = ((h.len.toNat : Nat) : Int) := by omega
        rw [hl', readMessage_payload_eq]
        unfold Reader.dataFrame
        have hcap := Pool.cap_ge (h.len.toNat + Facts.flateTail.length)
        have hcap' : ¬ Pool.cap (h.len.toNat + Facts.flateTail.length) < h.len.toNat := by omega
        simp only [hcap', if_false]
        by_cases hr : rest.length < h.len.toNat
        · simp [hr]
        · simp only [hr, if_false, GetFIN_eq, h0]
          have hopc : (Trans.frameHeader_GetOpcode c').toNat = Frame.getOpcode h.b0 := by rw [GetOpcode_eq, h0]
          cases hm : Frame.getMask h.b1
          · simp only [Bool.false_eq_true, if_false]
            exact afterPayload_eq cfg codec st h _ _ _ _ hopc hst
          · have hkey' : Trans.frameHeader_GetMaskKey c' = h.key := by
              rw [← hk hm]; unfold Trans.frameHeader_GetMaskKey
              simp [List.take_drop]
            simp only [if_true, hkey', maskXOR_key' _ _ (hk4 hm)]
            exact afterPayload_eq cfg codec st h _ _ _ _ hopc hst

end TransEquiv
