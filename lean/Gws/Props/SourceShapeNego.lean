import Gws.Generated.Facts
/-!
# Source-shape obligation of C12

The negotiation model (`Nego.handshake`) generates the response header from the parameters negotiated in THIS handshake and the
offer from the client's own settings. That the code does so — `doUpgradeFromConn` computes `pd := c.getPermessageDeflate(extensions)`
and then, under `pd.Enabled`, sends `pd.genResponseHeader()`; `connector.request` sends
`c.option.PermessageDeflate.genRequestHeader()` under the client's `Enabled` — is read off the source on every run
(`tools/factgen`). A header cached across handshakes, or generated from the server's configuration instead of the negotiated
value, changes the fact.
-/
namespace SourceShape

theorem extension_headers_from_this_handshake : Facts.extensionHeadersFromThisHandshake = true := by decide

end SourceShape
