import Gws.Generated.Trans
import Gws.Lemmas.Trans
import Gws.Model.Frame
/-!
# T3 — the frame-header code of types.go, translated from the source on every run, equals the model

`Trans.*` is regenerated from /repo by `tools/gotrans`; `Frame.*` is the hand-written model the
property theorems (C03, C04, C05, C13) are proved about.  Each theorem below is re-checked against
what the code says now; a change to a translated function that is not semantics-preserving breaks it.
-/
namespace TransEquiv

/-! ## header getters = `Frame.get*` on the numeric value of the byte (all 256 values, by the kernel) -/

theorem getFIN_byte (b : UInt8) : ((b >>> (7 : UInt8)) == (1 : UInt8)) = Frame.getFIN b.toNat := by
  revert b; apply u8_forall; decide +kernel
theorem getRSV1_byte (b : UInt8) : (((b <<< (1 : UInt8)) >>> (7 : UInt8)) == (1 : UInt8)) = Frame.getRSV1 b.toNat := by
  revert b; apply u8_forall; decide +kernel
theorem getRSV2_byte (b : UInt8) : (((b <<< (2 : UInt8)) >>> (7 : UInt8)) == (1 : UInt8)) = Frame.getRSV2 b.toNat := by
  revert b; apply u8_forall; decide +kernel
theorem getRSV3_byte (b : UInt8) : (((b <<< (3 : UInt8)) >>> (7 : UInt8)) == (1 : UInt8)) = Frame.getRSV3 b.toNat := by
  revert b; apply u8_forall; decide +kernel
theorem getOpcode_byte (b : UInt8) : ((b <<< (4 : UInt8)) >>> (4 : UInt8)).toNat = Frame.getOpcode b.toNat := by
  revert b; apply u8_forall; decide +kernel
theorem getLengthCode_byte (b : UInt8) : ((b <<< (1 : UInt8)) >>> (1 : UInt8)).toNat = Frame.getLengthCode b.toNat := by
  revert b; apply u8_forall; decide +kernel

/-! The getters are proved equal to the model by evaluating BOTH sides on all 256 values of the byte they read: the
proofs do not depend on how the Go code spells the bit extraction (`x << 1 >> 7`, `x & 0x40 != 0`, …), only on
which byte it reads. -/

theorem GetFIN_eq (c : List UInt8) : Trans.frameHeader_GetFIN c = Frame.getFIN (goIdx c 0).toNat := by
  unfold Trans.frameHeader_GetFIN; generalize goIdx c 0 = b; revert b; apply u8_forall; decide +kernel
theorem GetRSV1_eq (c : List UInt8) : Trans.frameHeader_GetRSV1 c = Frame.getRSV1 (goIdx c 0).toNat := by
  unfold Trans.frameHeader_GetRSV1; generalize goIdx c 0 = b; revert b; apply u8_forall; decide +kernel
theorem GetRSV2_eq (c : List UInt8) : Trans.frameHeader_GetRSV2 c = Frame.getRSV2 (goIdx c 0).toNat := by
  unfold Trans.frameHeader_GetRSV2; generalize goIdx c 0 = b; revert b; apply u8_forall; decide +kernel
theorem GetRSV3_eq (c : List UInt8) : Trans.frameHeader_GetRSV3 c = Frame.getRSV3 (goIdx c 0).toNat := by
  unfold Trans.frameHeader_GetRSV3; generalize goIdx c 0 = b; revert b; apply u8_forall; decide +kernel
theorem GetOpcode_eq (c : List UInt8) : (Trans.frameHeader_GetOpcode c).toNat = Frame.getOpcode (goIdx c 0).toNat := by
  unfold Trans.frameHeader_GetOpcode; generalize goIdx c 0 = b; revert b; apply u8_forall; decide +kernel
theorem GetMask_eq (c : List UInt8) : Trans.frameHeader_GetMask c = Frame.getMask (goIdx c 1).toNat := by
  unfold Trans.frameHeader_GetMask; generalize goIdx c 1 = b; revert b; apply u8_forall; decide +kernel
theorem GetLengthCode_eq (c : List UInt8) : (Trans.frameHeader_GetLengthCode c).toNat = Frame.getLengthCode (goIdx c 1).toNat := by
  unfold Trans.frameHeader_GetLengthCode; generalize goIdx c 1 = b; revert b; apply u8_forall; decide +kernel

theorem isDataFrame_eq (op : UInt8) : Trans.Opcode_isDataFrame op = decide (op.toNat ≤ Facts.dataFrameMaxOpcode) := by
  revert op; apply u8_forall; decide +kernel

/-! ## header generation -/

/-- `SetLength` on a header whose length byte and extension are still zero: the three encodings of the model -/
theorem SetLength_eq (c0 : UInt8) (n : Nat) (hn : n < 2 ^ 63) :
    Trans.frameHeader_SetLength (c0 :: List.replicate 13 0) (UInt64.ofNat n) =
      if n ≤ Facts.thresholdV1 then (c0 :: UInt8.ofNat n :: List.replicate 12 0, 0)
      else if n ≤ Facts.thresholdV2 then (c0 :: 126 :: (Frame.u16be n ++ List.replicate 10 0), 2)
      else (c0 :: 127 :: (Frame.u64be n ++ List.replicate 4 0), 8) := by
  unfold Trans.frameHeader_SetLength
  have h64 : (UInt64.ofNat n).toNat = n := by simp; omega
  simp only [UInt64.le_iff_toNat_le, h64, Facts.thresholdV1, Facts.thresholdV2]
  have r13 : List.replicate 13 (0 : UInt8) = [0,0,0,0,0,0,0,0,0,0,0,0,0] := rfl
  simp only [r13]
  by_cases h1 : n ≤ 125
  · simp [h1, goIdx]
  · by_cases h2 : n ≤ 65535
    · have hm : n % 65536 = n := Nat.mod_eq_of_lt (by omega)
      simp [h1, h2, goIdx, goCopy, goBytesU16BE, Frame.u16be, hm]
    · have hm : n % 18446744073709551616 = n := Nat.mod_eq_of_lt (by omega)
      simp [h1, h2, goIdx, goCopy, goBytesU64BE, Frame.u64be, hm]

/-- `GenerateHeader` on a fresh (zero) header array — how `genFrame`, `doWriteFile` and the broadcaster use it —
writes exactly the header of the model's `genHeader` into the first `headerLength` bytes and returns the mask
key it drew (little-endian bytes of the PRNG value) iff the sender is a client. -/
theorem GenerateHeader_eq (isServer fin compress : Bool) (opcode : UInt8) (n : Nat) (hn : n < 2 ^ 63) (maskNum : UInt32) :
    (Trans.frameHeader_GenerateHeader (List.replicate 14 0) isServer fin compress opcode (n : Int) maskNum).1.take
        (Trans.frameHeader_GenerateHeader (List.replicate 14 0) isServer fin compress opcode (n : Int) maskNum).2.1.toNat
      = Frame.genHeader isServer fin compress opcode.toNat n (goBytesU32LE maskNum)
    ∧ (Trans.frameHeader_GenerateHeader (List.replicate 14 0) isServer fin compress opcode (n : Int) maskNum).2.2
      = (if isServer then [] else goBytesU32LE maskNum) := by
  have h64 : goUIntOfInt64 (n : Int) = UInt64.ofNat n := by
    unfold goUIntOfInt64
    congr 1
    omega
  have r14 : List.replicate 14 (0 : UInt8) = 0 :: List.replicate 13 0 := rfl
  have r12 : List.replicate 12 (0 : UInt8) = [0,0,0,0,0,0,0,0,0,0,0,0] := rfl
  have r10 : List.replicate 10 (0 : UInt8) = [0,0,0,0,0,0,0,0,0,0] := rfl
  have r4 : List.replicate 4 (0 : UInt8) = [0,0,0,0] := rfl
  have hb0 : ∀ (x : Nat), UInt8.ofNat ((opcode.toNat + x) % 256) = opcode + UInt8.ofNat x := by
    intro x; apply UInt8.toNat_inj.mp; simp
  unfold Trans.frameHeader_GenerateHeader Frame.genHeader
  simp only [r14, List.set_cons_zero, h64, SetLength_eq _ n hn]
  by_cases h1 : n ≤ 125 <;> by_cases h2 : n ≤ 65535 <;> cases isServer <;> cases fin <;> cases compress <;>
    simp [h1, h2, Facts.thresholdV1, Facts.thresholdV2, goIdx, goCopy, goBytesU32LE, Frame.u16be, Frame.u64be, r12, r10, r4, hb0]
  all_goals first | (apply UInt8.toNat_inj.mp; simp [Nat.add_assoc]; done) | (exfalso; omega) |
    (refine ⟨?_, by decide⟩; apply UInt8.toNat_inj.mp; simp [Nat.add_assoc]; done)

/-! ## non-vacuity: the translated code on concrete inputs -/

example : Trans.frameHeader_GetOpcode [0x89, 0x05] = 9 ∧ Trans.frameHeader_GetFIN [0x89, 0x05] = true
    ∧ Trans.frameHeader_GetMask [0x89, 0x85] = true ∧ Trans.frameHeader_GetLengthCode [0x89, 0x85] = 5 := by decide
example : (Trans.frameHeader_GenerateHeader (List.replicate 14 0) true true false 2 300 0).1.take 4 = [0x82, 126, 1, 44] := by decide

end TransEquiv
