import Gws.Lemmas.Conc.ConnProps
/-!
# C09 — teardown: transport closed ⇒ flag set, `OnClose` once, no deadlock, termination

Statement: when a connection ends — by a local close, a peer Close frame, a read error or a write
error, in any interleaving and with transport faults anywhere — the transport is closed only after
the `closed` flag is set, `OnClose` runs exactly once with a non-nil error, teardown cannot deadlock
or loop, and once every goroutine has returned the transport is closed.

Model: `Conc.step` (Gws/Model/Conc/Conn.lean).  `no_deadlock`/`bounded_run` speak about the
model's actors under an arbitrary scheduler: some actor can always move, and every actor performs
a bounded number of actions (`steps`).  What this cannot exclude is an *environment* that never lets
a transport write return: see the witness `closer_blocked_behind_stalled_writer`, a genuine
limitation of gws recorded as a known finding (a local close needs `c.mu`, which a writer stalled
in `conn.Write` holds).

Panics in handlers and `ParallelEnabled` are outside this model.
-/

namespace Conc

/-- The transport is closed only by the CAS winner, hence only after the `closed` flag is set. -/
theorem transport_closed_implies_closed {s : State} (h : Reachable s) (ht : s.tclosed = true) :
    s.closed = true := by
  obtain ⟨xs, hr⟩ := h
  exact (cinv_run hr).tclosed_closed ht

/-- **`OnClose` runs at most once, last, with a non-nil error.**  With one read loop (`Sched1R xs`:
the schedule spawns at most one `reader`): at most one `closedCb` is logged, nothing is logged after
it, and its argument is `true`: the stored cause (`Cb.closedCb false` would be the fallback
`errEmpty`; both are non-nil by construction of `Cb.closedCb`, and the fallback is never needed). -/
theorem onclose_once_nonnil {xs : List Action} {s : State} (h : run {} xs = some s) (h1 : Sched1R xs) :
    (s.cbs.filter Cb.isClosed).length ≤ 1 ∧
    ∀ c, Cb.closedCb c ∈ s.cbs → s.cbs.getLast? = some (.closedCb c) ∧ c = true := by
  have hs := (cbShape_run h h1).closed_once
  exact ⟨hs.1, fun c hc => ⟨hs.2.2 c hc, (cinv_run h).cb_cause c hc⟩⟩

/-- **No deadlock.**  In every reachable state in which some actor has not finished, some actor can
perform its next action: if `c.mu` is held its holder can always move (a transport write returns,
with or without error), otherwise every unfinished actor can. -/
theorem no_deadlock {s : State} (h : Reachable s) {a : Nat} (h1 : s.pc a ≠ .idle)
    (h2 : ∀ r, s.pc a ≠ .done r) : ∃ b f, (step s (.act b f)).isSome = true := by
  obtain ⟨xs, hr⟩ := h
  exact exists_enabled (wf_run hr) h1 h2

/-- **Teardown cannot loop.**  The measure `steps` (sum over the spawned actors of an upper bound on
their remaining actions) strictly decreases with every action of every actor.  (`Reachable s` is
needed: in the unreachable state with an actor at `fCheck 5 2` — frame index beyond the last frame —
the model's `WriteFile` would go on forever; see `bounded_run_needs_reachable`.) -/
theorem bounded_run {s s' : State} (h : Reachable s) {a : Nat} {f : Bool}
    (hs : step s (.act a f) = some s') : steps s' < steps s := by
  obtain ⟨xs, hr⟩ := h
  exact steps_decreases (cinv_run hr) hs

/-- Witness that `bounded_run` needs its reachability hypothesis (no measure can decrease from this
state: `fCheck i n` with `i > n` never meets `i = n`). -/
theorem bounded_run_needs_reachable :
    ∃ s s', step s (.act 1 false) = some s' ∧ s.pc 1 = .fCheck 5 2 ∧ s'.pc 1 = .fCheck 6 2 ∧ steps s' = steps s :=
  ⟨{ pcs := [(1, .fCheck 5 2)] }, ({ pcs := [(1, .fCheck 5 2)] } : State).push (.data 1 5 false) |>.setPc 1 (.fCheck 6 2),
    by decide, by decide, by decide, by decide⟩

/-- Hence every schedule of `act`s from a reachable state is finite, of length at most `steps s`. -/
theorem acts_are_bounded {s s' : State} {xs : List Action} (h : Reachable s) (hr : run s xs = some s')
    (ha : ∀ x ∈ xs, ∃ a f, x = Action.act a f) : xs.length ≤ steps s := by
  have := acts_bounded h hr ha
  omega

/-- **Teardown completes.**  Once every actor has returned and the connection is closed, the
transport is closed (the winner ran `conn.Close()`), and if a read loop was spawned the callback log
ends with `OnClose`. -/
theorem teardown_complete {xs : List Action} {s : State} (h : run {} xs = some s)
    (hall : ∀ a, s.pc a = .idle ∨ ∃ r, s.pc a = .done r) (hc : s.closed = true) :
    s.tclosed = true ∧
    ∀ a sc, Action.spawn a (.reader sc) ∈ xs → ∃ c, s.cbs.getLast? = some (.closedCb c) :=
  teardown h hall hc

/-- **Known limitation (witness).**  There is a reachable state in which a local close has won the
CAS and waits for `c.mu` (`kLock`), the lock is held by a writer that is inside its transport write
(`wWrite`), and the closer cannot move: a local close cannot complete until a stalled transport
write returns (the environment never scheduling actor 1).  No step of the model gets the closer
past this point; gws has no write deadline on this path. -/
theorem closer_blocked_behind_stalled_writer :
    ∃ s, Reachable s ∧ s.winner = some 2 ∧ s.pc 2 = .kLock (.ret .ok) ∧ s.pc 1 = .wWrite ∧
      s.tclosed = false ∧ ∀ f, step s (.act 2 f) = none := by
  refine ⟨(run {} [.spawn 1 (.write false), .spawn 2 .closer, .act 1 false, .act 2 false]).get (by decide),
    ⟨[.spawn 1 (.write false), .spawn 2 .closer, .act 1 false, .act 2 false], by decide⟩, by decide, by decide,
    by decide, by decide, ?_⟩
  intro f
  cases f <;> decide

/-! ### non-vacuity -/

/-- peer Close frame, read loop tears down: opened, message, closed; transport closed -/
example : (run {} [.spawn 1 (.reader [.msg, .peerClose]), .act 1 false, .act 1 false, .act 1 false, .act 1 false,
    .act 1 false, .act 1 false, .act 1 false, .act 1 false, .act 1 false]).map
    (fun s => (s.cbs, s.tclosed, s.pc 1, steps s)) =
    some ([.opened, .message, .closedCb true], true, .done .ok, 0) := by decide

/-- the write of the Close frame fails: teardown still completes -/
example : (run {} [.spawn 1 .closer, .act 1 false, .act 1 false, .act 1 true, .act 1 false]).map
    (fun s => (s.wire, s.tclosed, s.pc 1)) = some ([], true, .done .ioErr) := by decide

end Conc
