import Gws.Generated.Trans
import Gws.Lemmas.Trans
import Gws.Model.Handshake
/-!
# T3 — the handshake decision code (client.go, upgrader.go, internal/utils.go), translated from the source on every
run, equals the model functions C10 / C11 are proved about

Strings are their bytes (`Hs.Str`); the Go library functions the code calls — `http.Header.Get/Values`,
`strings.EqualFold`, `strings.Join`, `internal.Split(·, ",")`, `ComputeAcceptKey` — are the model's functions of the
same name (their reading is part of the trusted base and sampled by the hs-server / hs-client suites); what the
theorems below tie to the source is everything gws itself decides: which header is read with `Get` and which with
`Values`, which comparison is case-insensitive, the order of the checks and which error each one returns, the loops of
`HttpHeaderContainsToken` / `GetIntersectionElem`, and the lines the response writer appends.
-/
namespace TransEquiv

open Hs
open Sha1 (asc)

private theorem asc_empty : asc "" = [] := by decide
private theorem crlf_def : asc "\r\n" = crlf := by decide
private theorem kConnection_def : kConnection = asc "Connection" := rfl
private theorem kUpgrade_def : kUpgrade = asc "Upgrade" := rfl
private theorem kAccept_def : kAccept = asc "Sec-WebSocket-Accept" := rfl
private theorem kVersion_def : kVersion = asc "Sec-WebSocket-Version" := rfl
private theorem kKey_def : kKey = asc "Sec-WebSocket-Key" := rfl
private theorem kProtocol_def : kProtocol = asc "Sec-WebSocket-Protocol" := rfl

/-- a Go range loop that returns `true` at the first hit -/
private theorem foldr_any {α : Type} (p : α → Bool) (init : Bool) (l : List α) :
    List.foldr (fun item acc' => if p item then true else acc') init l = (l.any p || init) := by
  induction l with
  | nil => simp
  | cons x xs ih =>
    simp only [List.foldr_cons, ih, List.any_cons]
    cases p x <;> simp

theorem InCollection_eq (elem : Str) (elems : List Str) :
    Trans.internal_InCollection elem elems = decide (elem ∈ elems) := by
  unfold Trans.internal_InCollection
  induction elems with
  | nil => simp
  | cons x xs ih =>
    simp only [List.foldr_cons, ih, List.mem_cons]
    by_cases h : x = elem
    · simp [h]
    · have h' : ¬ elem = x := fun e => h e.symm
      simp [h, h']

theorem GetIntersectionElem_eq (a b : List Str) : Trans.internal_GetIntersectionElem a b = intersectionElem a b := by
  unfold Trans.internal_GetIntersectionElem intersectionElem
  simp only [InCollection_eq, asc_empty]
  induction a with
  | nil => simp
  | cons x xs ih =>
    simp only [List.foldr_cons, ih, List.find?_cons]
    by_cases h : x ∈ b <;> simp [h]

theorem HttpHeaderContainsToken_eq (lines : List Str) (token : Str) :
    Trans.internal_HttpHeaderContainsToken lines token = httpHeaderContainsToken lines token := by
  unfold Trans.internal_HttpHeaderContainsToken httpHeaderContainsToken
  simp only [foldr_any]
  induction lines with
  | nil => simp
  | cons l ls ih =>
    simp only [List.foldr_cons, ih, List.any_cons]

/-- the Go error value of a client-side handshake error -/
def errOfCErr : CErr → Option GoErr
  | .status => some (.named "unexpected status code: %d|resp.StatusCode")
  | .connection => some (.named "missing %s header|internal.Connection.Key")
  | .upgrade => some (.named "missing %s header|internal.Upgrade.Key")
  | .accept => some (.named "invalid %s header|internal.SecWebSocketAccept.Key")
  | .subprotocol => some (.named "ErrSubprotocolNegotiation")

/-- `connector.checkHeaders` (the whole function) = `Hs.checkHeaders` -/
theorem checkHeaders_eq (key : Str) (resp : Resp) :
    Trans.connector_checkHeaders (resp_StatusCode := (resp.status : Int)) (resp_Header := resp.header) (c_secWebsocketKey := key)
      = (checkHeaders key resp).bind errOfCErr := by
  unfold Trans.connector_checkHeaders checkHeaders
  rw [HttpHeaderContainsToken_eq]
  simp only [kConnection_def, kUpgrade_def, kAccept_def]
  by_cases h1 : resp.status = 101
  · by_cases h2 : httpHeaderContainsToken (vals resp.header (asc "Connection")) (asc "Upgrade") = false
    · simp [h1, h2, errOfCErr]
    · by_cases h3 : foldEq (get resp.header (asc "Upgrade")) (asc "websocket") = false
      · simp [h1, h2, h3, errOfCErr]
      · by_cases h4 : get resp.header (asc "Sec-WebSocket-Accept") = acceptKey key
        · simp [h1, h2, h3, h4]
        · simp [h1, h2, h3, h4, errOfCErr]
  · have : ¬ ((resp.status : Int) = 101) := by omega
    simp [h1, this, errOfCErr]

/-- `connector.getSubProtocol` (the whole function) = `Hs.getSubProtocol` -/
theorem getSubProtocol_eq (o : ClientOpt) (resp : Resp) :
    Trans.connector_getSubProtocol o.requestHeader resp.header =
      (match getSubProtocol o resp with
       | .ok sp => (sp, none)
       | .error e => (asc "", errOfCErr e)) := by
  unfold Trans.connector_getSubProtocol getSubProtocol
  simp only [GetIntersectionElem_eq, ← kProtocol_def, asc_empty]
  by_cases h1 : split (get o.requestHeader kProtocol) = []
  · simp [h1]
  · have hl : 0 < (split (get o.requestHeader kProtocol)).length := List.length_pos_iff.2 h1
    by_cases h2 : intersectionElem (split (get o.requestHeader kProtocol)) (split (get resp.header kProtocol)) = []
    · simp [h1, h2, hl, errOfCErr]
    · simp [h1, h2, hl]

/-- the fixed fields of the upgrade request and the key: on top of the configured headers the client sets `Connection`,
`Upgrade`, `Sec-WebSocket-Version`, the extension offer when compression is enabled, and a `Sec-WebSocket-Key` that is the
base64 form of 16 bytes drawn from the PRNG (two 64-bit draws, big-endian) — `Hs.requestHeader` — and that key has the 24
characters of a 16-byte value -/
theorem request_headers_eq (o : ClientOpt) (enabled : Bool) (offer : Str) (rnd rnd2 : UInt64) :
    Trans.connector_request_headers (c_option_PermessageDeflate_Enabled := enabled) (c_secWebsocketKey := asc "")
        (r_Header := o.requestHeader) (offer := offer) (rnd := rnd) (rnd_2 := rnd2)
      = .ok (Base64.encode (goBytesU64BE rnd ++ goBytesU64BE rnd2),
             requestHeader o (Base64.encode (goBytesU64BE rnd ++ goBytesU64BE rnd2)) (if enabled then some offer else none))
    ∧ (Base64.encode (goBytesU64BE rnd ++ goBytesU64BE rnd2)).length = 24 := by
  constructor
  · unfold Trans.connector_request_headers requestHeader
    have hk : (goCopy (goCopy (List.replicate 16 (0 : UInt8)) ((0 : Int)).toNat (goBytesU64BE rnd)) ((8 : Int)).toNat (goBytesU64BE rnd2)).drop ((0 : Int)).toNat
        = goBytesU64BE rnd ++ goBytesU64BE rnd2 := by
      simp [goCopy, goBytesU64BE]
    have he : (asc "" == asc "") = true := by decide
    simp only [he, hk, ↓reduceIte]
    cases enabled <;> simp [kConnection, kUpgrade, kVersion, kExtensions, kKey]
  · simp [goBytesU64BE, Base64.encode]

/-- the client's handshake after the response was parsed, as the sequence of its two translated functions (`handshake()` calls
`checkHeaders` and, when that passes, `getSubProtocol`) -/
def clientHandshakeT (o : ClientOpt) (key : Str) (resp : Resp) : Str × Option GoErr :=
  match Trans.connector_checkHeaders (c_secWebsocketKey := key) (resp_Header := resp.header) (resp_StatusCode := (resp.status : Int)) with
  | some e => (asc "", some e)
  | none => Trans.connector_getSubProtocol (c_option_RequestHeader := o.requestHeader) (resp_Header := resp.header)

/-- … is the model's `Hs.clientHandshake`: the client returns a connection (with that sub-protocol) exactly when the model
accepts, and otherwise the model's error -/
theorem clientHandshake_eq_translated (o : ClientOpt) (key : Str) (resp : Resp) :
    clientHandshakeT o key resp =
      (match clientHandshake o key resp with
       | .ok sp => (sp, none)
       | .error e => (asc "", errOfCErr e)) := by
  unfold clientHandshakeT clientHandshake
  rw [checkHeaders_eq, getSubProtocol_eq]
  cases h : checkHeaders key resp with
  | none => simp
  | some e => cases e <;> simp [errOfCErr]

/-- `deleteProtectedHeaders` removes exactly the five handshake fields from the configured response headers -/
theorem deleteProtectedHeaders_eq (h : Header) :
    Trans.ServerOption_deleteProtectedHeaders h = deleteProtectedHeaders h := rfl

/-- the Go error value of a server-side handshake error -/
def errOfSErr : SErr → Option GoErr
  | .unauthorized => some (.named "ErrUnauthorized")
  | .handshake => some (.named "ErrHandshake")
  | .version => some (.named "gws: websocket version not supported")
  | .subprotocol => some (.named "ErrSubprotocolNegotiation")

/-- the four request checks of `doUpgradeFromConn`, in the code's order, as `Hs.serverDecide` performs them -/
def requestChecks (r : Request) : Option SErr :=
  if r.method ≠ asc "GET" then some .handshake else
  if foldEq (get r.header kVersion) (asc "13") = false then some .version else
  if httpHeaderContainsToken (vals r.header kConnection) (asc "Upgrade") = false then some .handshake else
  if foldEq (get r.header kUpgrade) (asc "websocket") = false then some .handshake else none

theorem requestChecks_eq (r : Request) :
    Trans.Upgrader_requestChecks (r_Method := r.method) (r_Header := r.header) =
      (match requestChecks r with
       | some e => .error ((), errOfSErr e)
       | none => .ok ()) := by
  unfold Trans.Upgrader_requestChecks requestChecks
  rw [HttpHeaderContainsToken_eq]
  simp only [kConnection_def, kUpgrade_def, kVersion_def]
  by_cases h1 : r.method = asc "GET"
  · by_cases h2 : foldEq (get r.header (asc "Sec-WebSocket-Version")) (asc "13") = false
    · simp [h1, h2, errOfSErr]
    · by_cases h3 : httpHeaderContainsToken (vals r.header (asc "Connection")) (asc "Upgrade") = false
      · simp [h1, h2, h3, errOfSErr]
      · by_cases h4 : foldEq (get r.header (asc "Upgrade")) (asc "websocket") = false
        · simp [h1, h2, h3, h4, errOfSErr]
        · simp [h1, h2, h3, h4]
  · simp [h1, errOfSErr]

/-- `requestChecks` is what `serverDecide` does between the authorisation and the response writer -/
theorem serverDecide_requestChecks (o : ServerOpt) (r : Request) (ext : Option Str) (e : SErr) (h : requestChecks r = some e) :
    serverDecide o r true ext = .reject e := by
  unfold requestChecks at h
  unfold serverDecide
  by_cases h1 : r.method ≠ asc "GET"
  · simp [h1] at h ⊢; rw [h]
  by_cases h2 : foldEq (get r.header kVersion) (asc "13") = false
  · simp [h1, h2] at h ⊢; rw [h]
  by_cases h3 : httpHeaderContainsToken (vals r.header kConnection) (asc "Upgrade") = false
  · simp [h1, h2, h3] at h ⊢; rw [h]
  by_cases h4 : foldEq (get r.header kUpgrade) (asc "websocket") = false
  · simp [h1, h2, h3, h4] at h ⊢; rw [h]
  simp [h1, h2, h3, h4] at h

/-- `responseWriter.WithHeader` appends the rendered line -/
theorem WithHeader_eq (k v : Str) (b : Bytes) : Trans.responseWriter_WithHeader k v b = b ++ renderLines [(k, v)] := by
  unfold Trans.responseWriter_WithHeader renderLines
  simp [crlf, crlf_def, List.append_assoc]

/-- the key check and the accept line -/
theorem keyAndAccept_eq (h : Header) (b : Bytes) :
    Trans.Upgrader_keyAndAccept h b =
      (if get h kKey = [] then .error (b, (), errOfSErr .handshake)
       else .ok (b ++ renderLines [(kAccept, acceptKey (get h kKey))])) := by
  unfold Trans.Upgrader_keyAndAccept
  simp only [WithHeader_eq, ← kKey_def, ← kAccept_def, asc_empty]
  by_cases h1 : get h kKey = []
  · simp [h1, errOfSErr]
  · simp [h1]

/-- `responseWriter.WithSubProtocol` = `RW.withSubProtocol`, the buffer holding the rendered lines behind any prefix -/
theorem WithSubProtocol_eq (rw : RW) (requestHeader : Header) (expected : List Str) (pre : Bytes) :
    Trans.responseWriter_WithSubProtocol requestHeader expected (c_subprotocol := rw.subprotocol) (c_err := rw.err.bind errOfSErr)
        (c_b := pre ++ renderLines rw.lines) =
      (pre ++ renderLines (rw.withSubProtocol requestHeader expected).lines,
       (rw.withSubProtocol requestHeader expected).err.bind errOfSErr,
       (rw.withSubProtocol requestHeader expected).subprotocol) := by
  unfold Trans.responseWriter_WithSubProtocol RW.withSubProtocol
  simp only [GetIntersectionElem_eq, WithHeader_eq, ← kProtocol_def, asc_empty]
  by_cases h1 : expected = []
  · simp [h1]
  · have hl : 0 < expected.length := List.length_pos_iff.2 h1
    by_cases h2 : intersectionElem expected (split (joinComma (vals requestHeader kProtocol))) = []
    · simp [h1, h2, hl, errOfSErr]
    · simp [h1, h2, hl, RW.withHeader, renderLines, List.append_assoc]

end TransEquiv
