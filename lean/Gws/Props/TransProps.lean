import Gws.Props.TransFrame
import Gws.Props.TransReader
import Gws.Props.TransClose
import Gws.Props.TransWindow
import Gws.Props.TransNego
import Gws.Props.TransWriter
import Gws.Props.TransLimited
import Gws.Props.TransEmit
import Gws.Props.TransFragment
import Gws.Props.C05
import Gws.Props.C01
import Gws.Props.TransStep
import Gws.Props.C06
import Gws.Props.C16
import Gws.Props.C17
/-!
# Property clauses stated directly of the translated source

The property theorems (`Gws/Props/Cxx.lean`) are about the hand-written model; the equivalence theorems
(`Gws/Props/Trans*.lean`) tie the model to the Go source as `tools/gotrans` translates it on every run.  Here the two
are composed: clauses of C03/C13 (header checks), C05 (a generated frame decodes), C06 (reply table, local close),
C12 (window bits in range), C16 (the gate is RFC 3629 validity) and C17 (the window is the suffix) are stated of the
*translated Go functions themselves* — no model function occurs in the statements (only the RFC-level specs).
-/
namespace TransProps

open TransEquiv

/-! ## C17: after a write the window is the suffix of what was written -/

theorem window_is_suffix (dict p : Bytes) (size : Nat) (h : dict.length ≤ size) :
    (Trans.slideWindow_Write p (c_enabled := true) (c_dict := dict) (c_size := (size : Int))).1 = lastN size (dict ++ p) := by
  have := slideWindow_Write_eq { enabled := true, size := size, dict := dict } p
  simp only at this
  rw [this]
  exact Win.write_spec { enabled := true, size := size, dict := dict } p rfl h

theorem disabled_window_stays_empty (p : Bytes) (size : Int) :
    (Trans.slideWindow_Write p (c_enabled := false) (c_dict := []) (c_size := size)).1 = [] := by
  simp [Trans.slideWindow_Write]

/-! ## C06: the reply to a received Close frame, and the body of a locally requested close -/

/-- the reply table of the property text, for a Close body with a status and a reason that is valid (or unchecked) -/
theorem close_reply_table (utf8 : Bool) (a b : UInt8) (reason : Bytes)
    (hr : utf8 = false ∨ Spec.Utf8.valid reason = true) :
    ∃ reported, Trans.Conn_emitClose_body utf8 (a :: b :: reason) =
      .ok (reason,
        UInt16.ofNat (let code := a.toNat * 256 + b.toNat
          if code < 1000 ∨ (1004 ≤ code ∧ code ≤ 1006) ∨ code = 1015 ∨ (1016 ≤ code ∧ code ≤ 2999) ∨ code ≥ 5000 then 1002
          else if 3000 ≤ code ∧ code ≤ 4999 then code else 1000),
        reported) ∧ reported.toNat = a.toNat * 256 + b.toNat := by
  rw [emitClose_body_eq]
  have ht := Close.closeReply_table utf8 a b reason hr
  simp only at ht
  refine ⟨UInt16.ofNat (Close.emitClose utf8 (a :: b :: reason)).realCode, ?_, ?_⟩
  · rw [ht]; simp [Close.emitClose]
  · have := a.toNat_lt; have := b.toNat_lt
    simp [Close.emitClose, Frame.be16]; omega

/-- an empty Close body is answered with an empty body, a one-byte body with 1002 -/
theorem close_reply_short (utf8 : Bool) (x : UInt8) :
    Trans.Conn_emitClose_body utf8 [] = .ok ([], 0, 0) ∧ Trans.Conn_emitClose_body utf8 [x] = .ok ([], 1002, x.toUInt16) := by
  constructor
  · rw [emitClose_body_eq]; rfl
  · rw [emitClose_body_eq]; simp [Close.emitClose, Facts.closeProtocolError]

/-- a locally requested close carries the caller's status (at least 1000) and the reason cut to 123 bytes -/
theorem local_close_body (code : UInt16) (reason : Bytes) :
    (Trans.Conn_WriteClose_body code reason >>= fun r => Trans.Conn_writeClose_cut r.2)
      = .ok (Close.statusBytes (max 1000 code.toNat) ++ reason.take 123) := by
  rw [local_close_body_eq, Close.local_close_frame]

/-! ## C03 / C13: the header checks -/

/-- a frame above the read limit (or with the top bit of a 64-bit length set) is failed with 1009 before anything else -/
theorem oversize_frame_1009 (readMax len : Int) (fh : List UInt8) (pd sv : Bool) (rc : Option GoErr)
    (h : len < 0 ∨ len > readMax) :
    Trans.Conn_readMessage_header (c_config_ReadMaxPayloadSize := readMax) (c_fh := fh) (c_pd_Enabled := pd) (c_isServer := sv)
        (contentLength := len) (readControlResult := rc) = .error (some (.status 1009)) := by
  unfold Trans.Conn_readMessage_header
  have : (decide (len < 0) || decide (len > readMax)) = true := by simpa using h
  simp [this]

/-- within the limit, a reserved bit without negotiated meaning or a mask bit wrong for the role is failed with 1002 -/
theorem header_violation_1002 (readMax len : Int) (fh : List UInt8) (pd sv : Bool) (rc : Option GoErr)
    (hl : ¬ (len < 0 ∨ len > readMax))
    (hv : Trans.frameHeader_GetRSV2 fh = true ∨ Trans.frameHeader_GetRSV3 fh = true
      ∨ (Trans.frameHeader_GetRSV1 fh = true ∧
          ¬ (pd = true ∧ (Trans.frameHeader_GetOpcode fh = 1 ∨ Trans.frameHeader_GetOpcode fh = 2)))
      ∨ Trans.frameHeader_GetMask fh ≠ sv) :
    Trans.Conn_readMessage_header (c_config_ReadMaxPayloadSize := readMax) (c_fh := fh) (c_pd_Enabled := pd) (c_isServer := sv)
        (contentLength := len) (readControlResult := rc) = .error (some (.status 1002)) := by
  unfold Trans.Conn_readMessage_header Trans.Conn_checkMask
  have : (decide (len < 0) || decide (len > readMax)) = false := by simpa using hl
  simp only [this, Bool.false_eq_true, ↓reduceIte]
  generalize Trans.frameHeader_GetRSV1 fh = r1 at *
  generalize Trans.frameHeader_GetRSV2 fh = r2 at *
  generalize Trans.frameHeader_GetRSV3 fh = r3 at *
  generalize Trans.frameHeader_GetMask fh = mk at *
  generalize Trans.frameHeader_GetOpcode fh = op at *
  by_cases e1 : op = 1 <;> by_cases e2 : op = 2 <;>
    cases r1 <;> cases r2 <;> cases r3 <;> cases mk <;> cases sv <;> cases pd <;> simp_all

/-- the bits the getters extract are the RFC 6455 header fields -/
theorem header_fields (b0 b1 : UInt8) (rest : List UInt8) :
    Trans.frameHeader_GetFIN (b0 :: b1 :: rest) = (b0.toNat / 128 == 1) ∧
    Trans.frameHeader_GetOpcode (b0 :: b1 :: rest) = b0 % 16 ∧
    Trans.frameHeader_GetMask (b0 :: b1 :: rest) = (b1.toNat / 128 == 1) ∧
    Trans.frameHeader_GetLengthCode (b0 :: b1 :: rest) = b1 % 128 := by
  have h0 : goIdx (b0 :: b1 :: rest) 0 = b0 := rfl
  have h1 : goIdx (b0 :: b1 :: rest) 1 = b1 := rfl
  refine ⟨?_, ?_, ?_, ?_⟩
  · unfold Trans.frameHeader_GetFIN; rw [h0]; clear h0 h1; revert b0; apply u8_forall; decide +kernel
  · unfold Trans.frameHeader_GetOpcode; rw [h0]; clear h0 h1; revert b0; apply u8_forall; decide +kernel
  · unfold Trans.frameHeader_GetMask; rw [h1]; clear h0 h1; revert b1; apply u8_forall; decide +kernel
  · unfold Trans.frameHeader_GetLengthCode; rw [h1]; clear h0 h1; revert b1; apply u8_forall; decide +kernel

/-- a fragmented control frame, or one whose length code is above 125, is failed with 1002 -/
theorem control_frame_violation_1002 (fh : List UInt8)
    (hv : Trans.frameHeader_GetFIN fh = false ∨ Trans.frameHeader_GetLengthCode fh > 125) :
    Trans.Conn_readControl_guards fh = .error (some (.status 1002)) := by
  unfold Trans.Conn_readControl_guards
  rcases hv with h | h
  · simp [h]
  · cases hf : Trans.frameHeader_GetFIN fh <;> simp [h]

/-- the fragmentation rules, of the translated state machine itself: a new data frame inside an unfinished message, and a
continuation with no message in progress, are failed with 1002 (whatever `emitMessage` would do: it is never reached) -/
theorem fragmentation_violation_1002 {R : Type} (ret : Option GoErr → R) (emit : UInt8 → Bytes → Bool → R)
    (ini comp : Bool) (cop : UInt8) (cbuf : Bytes) (readMax : Int) (opcode : UInt8) (fin : Bool) (p buf : Bytes) (compressed : Bool)
    (hv : (opcode ≠ 0 ∧ ini = true) ∨ (opcode = 0 ∧ ini = false)) :
    ∃ b c i o, Trans.Conn_readMessage_afterPayload ret emit (c_continuationFrame_initialized := ini) (c_continuationFrame_compressed := comp)
        (c_continuationFrame_opcode := cop) (c_continuationFrame_buffer := cbuf) (c_config_ReadMaxPayloadSize := readMax)
        (opcode := opcode) (fin := fin) (p := p) (buf := buf) (compressed := compressed)
      = .error (b, c, i, o, ret (some (.status 1002))) := by
  unfold Trans.Conn_readMessage_afterPayload
  rcases hv with ⟨h1, h2⟩ | ⟨h1, h2⟩
  · have : (opcode != (0 : UInt8)) = true := by simpa using h1
    refine ⟨cbuf, comp, true, cop, ?_⟩; simp [this, h2]
  · subst h1; subst h2
    cases fin <;> (refine ⟨cbuf, comp, false, cop, ?_⟩; simp)

/-- C13: a fragment that takes the reassembled size above the limit is failed with 1009, at that fragment -/
theorem oversize_fragments_1009 {R : Type} (ret : Option GoErr → R) (emit : UInt8 → Bytes → Bool → R)
    (comp : Bool) (cop : UInt8) (cbuf : Bytes) (readMax : Int) (fin : Bool) (p buf : Bytes) (compressed : Bool)
    (hv : ((cbuf.length + p.length : Nat) : Int) > readMax) :
    ∃ b c i o, Trans.Conn_readMessage_afterPayload ret emit (c_continuationFrame_initialized := true) (c_continuationFrame_compressed := comp)
        (c_continuationFrame_opcode := cop) (c_continuationFrame_buffer := cbuf) (c_config_ReadMaxPayloadSize := readMax)
        (opcode := 0) (fin := fin) (p := p) (buf := buf) (compressed := compressed)
      = .error (b, c, i, o, ret (some (.status 1009))) := by
  unfold Trans.Conn_readMessage_afterPayload
  have : decide ((Int.ofNat (cbuf ++ p).length) > readMax) = true := by
    simp only [List.length_append, decide_eq_true_eq]; exact hv
  have hv' : ¬ ((cbuf.length : Int) + (p.length : Int) ≤ readMax) := by
    have : ((cbuf.length + p.length : Nat) : Int) = (cbuf.length : Int) + (p.length : Int) := by omega
    omega
  cases fin <;> (refine ⟨cbuf ++ p, comp, true, cop, ?_⟩; simp [hv'])

/-! ## C16: the gate is RFC 3629 validity of the whole payload, for text and close reasons only -/

theorem gate_text (p : Bytes) : Trans.internal_CheckEncoding true 1 p = Spec.Utf8.valid p := by
  simp [Trans.internal_CheckEncoding, goUtf8Valid]
theorem gate_binary_never (enabled : Bool) (p : Bytes) : Trans.internal_CheckEncoding enabled 2 p = true := by
  simp [Trans.internal_CheckEncoding]
theorem gate_off_never (opcode : UInt8) (p : Bytes) : Trans.internal_CheckEncoding false opcode p = true := by
  simp [Trans.internal_CheckEncoding]

/-- an inflated (or plain) text message that is not valid UTF-8 is failed with 1007 and not dispatched, an inflation
failure with 1011 -/
theorem invalid_text_1007 {R : Type} (ret : Option GoErr → R) (go seq : Bool → UInt8 → Bytes → R)
    (data dict : Bytes) (en par : Bool) (size : Int) (hbad : Spec.Utf8.valid data = false) :
    (Trans.Conn_emitMessage ret go seq (msg_compressed := false) (msg_Data := data) (c_dpsWindow_enabled := en) (c_dpsWindow_dict := dict)
        (c_dpsWindow_size := size) (c_config_CheckUtf8Enabled := true) (msg_Opcode := 1) (c_config_ParallelEnabled := par)
        (inflated := ([], none))).2.2 = ret (some (.coded 1007)) := by
  simp [Trans.Conn_emitMessage, Trans.internal_CheckEncoding, Trans.Message_Bytes, goUtf8Valid, hbad]

theorem inflate_failure_1011 {R : Type} (ret : Option GoErr → R) (go seq : Bool → UInt8 → Bytes → R)
    (data dict out : Bytes) (en par utf8 : Bool) (size : Int) (op : UInt8) (e : GoErr) :
    (Trans.Conn_emitMessage ret go seq (msg_compressed := true) (msg_Data := data) (c_dpsWindow_enabled := en) (c_dpsWindow_dict := dict)
        (c_dpsWindow_size := size) (c_config_CheckUtf8Enabled := utf8) (msg_Opcode := op) (c_config_ParallelEnabled := par)
        (inflated := (out, some e))).2.2 = ret (some (.coded 1011)) := by
  simp [Trans.Conn_emitMessage]

/-! ## C12: after initialisation the window bits of an enabled configuration lie in 8..15 -/

theorem server_bits_in_range (sb cb thr lvl ps pow2 : Int) (st ct : Bool) :
    ∃ cb' lvl' ps' sb' thr', Trans.initServerOption_pd (c_PermessageDeflate_Enabled := true) (c_PermessageDeflate_ServerMaxWindowBits := sb)
        (c_PermessageDeflate_ClientMaxWindowBits := cb) (c_PermessageDeflate_Threshold := thr) (c_PermessageDeflate_Level := lvl)
        (c_PermessageDeflate_PoolSize := ps) (c_PermessageDeflate_ServerContextTakeover := st)
        (c_PermessageDeflate_ClientContextTakeover := ct) (poolSizePow2 := pow2) = .ok (cb', lvl', ps', sb', thr')
      ∧ 8 ≤ sb' ∧ sb' ≤ 15 ∧ 8 ≤ cb' ∧ cb' ≤ 15 ∧ 0 < thr' := by
  unfold Trans.initServerOption_pd
  refine ⟨_, _, _, _, _, rfl, ?_, ?_, ?_, ?_, ?_⟩ <;> simp only [Bool.or_eq_true, decide_eq_true_eq] <;>
    (repeat' split) <;> omega

theorem client_bits_in_range (sb cb thr lvl ps : Int) :
    ∃ cb' lvl' ps' sb' thr', Trans.initClientOption_pd (c_PermessageDeflate_Enabled := true) (c_PermessageDeflate_ServerMaxWindowBits := sb)
        (c_PermessageDeflate_ClientMaxWindowBits := cb) (c_PermessageDeflate_Threshold := thr) (c_PermessageDeflate_Level := lvl)
        (c_PermessageDeflate_PoolSize := ps) = .ok (cb', lvl', ps', sb', thr')
      ∧ 8 ≤ sb' ∧ sb' ≤ 15 ∧ 8 ≤ cb' ∧ cb' ≤ 15 ∧ 0 < thr' := by
  unfold Trans.initClientOption_pd
  refine ⟨_, _, _, _, _, rfl, ?_, ?_, ?_, ?_, ?_⟩ <;> simp only [Bool.or_eq_true, decide_eq_true_eq] <;>
    (repeat' split) <;> omega

/-! ## C05: an uncompressed frame built by `genFrame` parses with the independent RFC 6455 decoder -/

theorem genFrame_decodes (cfg : Writer.Cfg) (codec : Codec) (cps : Win) (opcode : UInt8) (payload : List Bytes)
    (fc : Writer.FrameCfg) (maskNum : UInt32) (wire : Bytes) (hop : opcode.toNat < 16) (hmax : cfg.writeMax < 2 ^ 62)
    (hlen : payload.flatten.length < 2 ^ 62)
    (hc : Writer.willCompress cfg fc opcode.toNat payload.flatten.length = false)
    (h : Trans.Conn_genFrame GenOut.ret GenOut.compress opcode payload.flatten (cfg_checkEncoding := fc.checkEncoding)
          (c_config_WriteMaxPayloadSize := (cfg.writeMax : Int)) (cfg_compress := fc.compress) (c_pd_Threshold := (cfg.threshold : Int))
          (cfg_fin := fc.fin) (cfg_broadcast := fc.broadcast) (c_isServer := cfg.isServer) (maskNum := maskNum) = GenOut.ret (wire, none)) :
    ∃ hdr, Spec.decodeFrames wire = some [(hdr, payload.flatten)] ∧
      Spec.wellFormedSent (!cfg.isServer) hdr ∧ hdr.fin = fc.fin ∧ hdr.rsv1 = false ∧ hdr.opcode = opcode.toNat ∧
      hdr.len = payload.flatten.length := by
  have he := genFrame_eq cfg codec cps opcode payload fc maskNum hlen
  rw [h] at he
  simp only [interpW] at he
  exact Writer.genFrame_decodes cfg codec cps opcode.toNat payload fc (goBytesU32LE maskNum) wire hop (by simp [goBytesU32LE])
    (by omega) hc he.symm

/-! ## C01: what the translated `genFrame` of one endpoint puts on the wire, the translated `readMessage` of the other
endpoint delivers -/

/-- **End to end on the translated source.**  The frame the sender's `genFrame` (as translated from writer.go) builds for a
final Text/Binary message on its uncompressed branch is, when it is the next thing in the receiver's input, turned by ONE
`readMessage` (the translated segments of reader.go in the order of the Go function, `readMessageT`) into exactly one
callback with the same opcode and the byte-identical payload; the receiver's state is unchanged and the input is
consumed up to the end of the frame.  The receiver has the opposite role, its limit admits the payload, its UTF-8 gate
(if on) passes it and it is not in the middle of a fragmented message. -/
theorem frame_delivered_end_to_end (w : Writer.Cfg) (r : Reader.Cfg) (codec : Codec)
    (hrole : r.isServer = !w.isServer) (hint : r.readMax < 2 ^ 63)
    (cps : Win) (opcode : UInt8) (payloads : List Bytes) (fc : Writer.FrameCfg) (maskNum : UInt32) (wire : Bytes)
    (hop : opcode = 1 ∨ opcode = 2) (hfin : fc.fin = true) (hlen : payloads.flatten.length < 2 ^ 62)
    (hz : Writer.willCompress w fc opcode.toNat payloads.flatten.length = false)
    (hg : Trans.Conn_genFrame GenOut.ret GenOut.compress opcode payloads.flatten (cfg_checkEncoding := fc.checkEncoding)
          (c_config_WriteMaxPayloadSize := (w.writeMax : Int)) (cfg_compress := fc.compress) (c_pd_Threshold := (w.threshold : Int))
          (cfg_fin := fc.fin) (cfg_broadcast := fc.broadcast) (c_isServer := w.isServer) (maskNum := maskNum) = GenOut.ret (wire, none))
    (hfit : (payloads.flatten.length : Int) ≤ r.readMax)
    (htext : r.checkUtf8 = true → opcode = 1 → Spec.Utf8.valid payloads.flatten = true)
    (st : Reader.State) (hidle : st.cont.initialized = false) (hst : st.cont.opcode < 256)
    (fh rest : Bytes) (hfh : fh.length = 14) :
    readMessageT r codec st fh (wire ++ rest) = .ok st [.msg opcode.toNat payloads.flatten] rest := by
  rw [readMessage_eq_step r codec st fh (wire ++ rest) hfh hst]
  have he := genFrame_eq w codec cps opcode payloads fc maskNum hlen
  rw [hg] at he
  simp only [interpW] at he
  have hop' : opcode.toNat = 1 ∨ opcode.toNat = 2 := by rcases hop with h | h <;> simp [h]
  have htext' : r.checkUtf8 = true → opcode.toNat = 1 → Spec.Utf8.valid payloads.flatten = true := by
    intro hc h1
    apply htext hc
    apply UInt8.toNat_inj.mp
    simpa using h1
  exact C01.frame_delivered w r codec hrole hint cps opcode.toNat payloads fc (goBytesU32LE maskNum) wire (by simp [goBytesU32LE])
    hop' hfin hz he.symm hfit htext' st hidle rest

/-- **End to end, compressed.**  When the translated `genFrame` takes its compressing branch (it hands over to `compressData`,
which `TransEquiv.compressData_eq` ties to the source; the DEFLATE library is the `Codec` parameter with the laws
`RoundTrip` and `MinOut` as hypotheses), the frame it yields is turned by ONE translated `readMessage` of a receiver
whose decompression window holds the dictionary the sender compressed against into exactly one callback with the same
opcode and the byte-identical payload, and the payload enters the receiver's window. -/
theorem frame_delivered_compressed_end_to_end (w : Writer.Cfg) (r : Reader.Cfg) (codec : Codec)
    (hrole : r.isServer = !w.isServer) (hint : r.readMax < 2 ^ 63) (hpd : r.pdEnabled = true)
    (hRT : Compose.RoundTrip codec) (hMin : Compose.MinOut codec)
    (cps : Win) (opcode : UInt8) (payloads : List Bytes) (fc : Writer.FrameCfg) (maskNum : UInt32) (wire : Bytes)
    (hop : opcode = 1 ∨ opcode = 2) (hfin : fc.fin = true) (hnb : fc.broadcast = false) (hlen : payloads.flatten.length < 2 ^ 62)
    (hz : Writer.willCompress w fc opcode.toNat payloads.flatten.length = true)
    (hg : interpW w codec cps payloads (goBytesU32LE maskNum)
          (Trans.Conn_genFrame GenOut.ret GenOut.compress opcode payloads.flatten (cfg_checkEncoding := fc.checkEncoding)
            (c_config_WriteMaxPayloadSize := (w.writeMax : Int)) (cfg_compress := fc.compress) (c_pd_Threshold := (w.threshold : Int))
            (cfg_fin := fc.fin) (cfg_broadcast := fc.broadcast) (c_isServer := w.isServer) (maskNum := maskNum)) = .ok wire)
    (hfit : (payloads.flatten.length : Int) ≤ r.readMax)
    (hzfit : ((Writer.stripTail (codec.compress w.bits cps.dict payloads)).length : Int) ≤ r.readMax)
    (htext : r.checkUtf8 = true → opcode = 1 → Spec.Utf8.valid payloads.flatten = true)
    (st : Reader.State) (hidle : st.cont.initialized = false) (hst : st.cont.opcode < 256) (hdict : cps.dict = st.dps.dict)
    (fh rest : Bytes) (hfh : fh.length = 14) :
    readMessageT r codec st fh (wire ++ rest) =
      .ok { st with dps := st.dps.write payloads.flatten } [.msg opcode.toNat payloads.flatten] rest := by
  rw [readMessage_eq_step r codec st fh (wire ++ rest) hfh hst]
  rw [genFrame_eq w codec cps opcode payloads fc maskNum hlen] at hg
  have hop' : opcode.toNat = 1 ∨ opcode.toNat = 2 := by rcases hop with h | h <;> simp [h]
  have htext' : r.checkUtf8 = true → opcode.toNat = 1 → Spec.Utf8.valid payloads.flatten = true := by
    intro hc h1
    apply htext hc
    apply UInt8.toNat_inj.mp
    simpa using h1
  exact C01.frame_delivered_compressed w r codec hrole hint hpd hRT hMin cps opcode.toNat payloads fc (goBytesU32LE maskNum) wire
    (by simp [goBytesU32LE]) hop' hfin hnb hz hg hfit hzfit htext' st hidle hdict rest

end TransProps
