import Gws.Generated.Trans
import Gws.Lemmas.Trans
import Gws.Model.Close
/-!
# T3 — the Close handling of conn.go / writer.go, translated from the source on every run, equals the model

* `emitClose` up to the closed-flag CAS (status reported, reason, status answered) = `Close.emitClose`
  (the function the C06 reply table and the C16 close-reason clause are proved about);
* `WriteClose` + `writeClose` (status raised to 1000, reason appended, body cut to 125) = `Close.localCloseBody`;
* `closeViaWrite` = `Close.viaWriteSplit`;
* `StatusCode.Bytes`, `internal.CheckEncoding` = `Close.statusBytes`, `Utf8.checkEncoding`.
-/
set_option linter.unusedSimpArgs false

namespace TransEquiv

theorem CheckEncoding_eq (enabled : Bool) (opcode : UInt8) (p : Bytes) :
    Trans.internal_CheckEncoding enabled opcode p = Utf8.checkEncoding enabled opcode.toNat p := by
  unfold Trans.internal_CheckEncoding Utf8.checkEncoding goUtf8Valid
  simp only [u8_beq]
  cases enabled <;> simp

theorem StatusCode_Bytes_eq (c : UInt16) : Trans.StatusCode_Bytes c = Close.statusBytes c.toNat := by
  unfold Trans.StatusCode_Bytes Close.statusBytes
  have h0 : (c == (0 : UInt16)) = decide (c.toNat = 0) := by rw [u16_beq]; rfl
  rw [h0]
  by_cases h : c.toNat = 0
  · simp [h]
  · simp only [h, decide_false, Bool.false_eq_true, ↓reduceIte, List.cons.injEq, and_true]
    constructor
    · apply UInt8.toNat_inj.mp
      have := c.toNat_lt
      simp [UInt16.toNat_shiftRight]
      omega
    · apply UInt8.toNat_inj.mp
      have := c.toNat_lt
      simp [UInt16.toNat_shiftRight, UInt16.toNat_shiftLeft]
      omega

/-- the classification of a 16-bit status, as `emitClose` spells it -/
theorem classify_u16 (wire : UInt16) :
    (if ((((wire == (1004 : UInt16)) || (wire == (1005 : UInt16))) || (wire == (1006 : UInt16))) || (wire == (1015 : UInt16))) then (1002 : UInt16)
     else if (((decide (wire < (1000 : UInt16))) || (decide (wire ≥ (5000 : UInt16)))) || (((decide (wire ≥ (1016 : UInt16))) && (decide (wire < (3000 : UInt16)))))) then (1002 : UInt16)
     else if (decide (wire < (1016 : UInt16))) then (1000 : UInt16) else wire)
      = UInt16.ofNat (Close.classify wire.toNat) := by
  unfold Close.classify
  simp only [Facts.closeListed1002, Facts.closeProtocolError, Facts.closeBelow1002, Facts.closeFrom1002, Facts.closeResLo1002,
    Facts.closeResHi1002, Facts.closeNormalBelow, Facts.closeNormalClosure, UInt16.lt_iff_toNat_lt, UInt16.le_iff_toNat_le, ge_iff_le, u16_beq]
  have hw : UInt16.ofNat wire.toNat = wire := by simp
  generalize wire.toNat = n at *
  simp
  repeat' split
  all_goals first | rfl | (exfalso; omega) | (simp [*]; done) | (simp [*]; exact hw.symm)


/-- `emitClose` before the CAS = `Close.emitClose`: the reason left in the buffer, the status answered, the status reported -/
theorem emitClose_body_eq (checkUtf8 : Bool) (body : Bytes) :
    Trans.Conn_emitClose_body checkUtf8 body =
      .ok ((Close.emitClose checkUtf8 body).reason, UInt16.ofNat (Close.emitClose checkUtf8 body).response,
           UInt16.ofNat (Close.emitClose checkUtf8 body).realCode) := by
  unfold Trans.Conn_emitClose_body
  match body with
  | [] => simp [Close.emitClose]
  | [x] =>
    simp [Close.emitClose, goIdx, Facts.closeProtocolError]
  | a :: b :: reason =>
    have hlen0 : ((Int.ofNat (a :: b :: reason).length) == (0 : Int)) = false := by
      first | (simp; done) | (simp; omega)
    have hlen1 : ((Int.ofNat (a :: b :: reason).length) == (1 : Int)) = false := by
      first | (simp; done) | (simp; omega)
    simp only [hlen0, hlen1, Bool.false_eq_true, ↓reduceIte]
    have hk : Nat.min (a :: b :: reason).length ((List.replicate 2 (0 : UInt8)).length - ((0 : Int)).toNat) = 2 := by
      first | (simp; done) | (simp; omega)
    simp only [hk]
    have hb : goCopy (List.replicate 2 (0 : UInt8)) 0 ((a :: b :: reason).take 2) = [a, b] := by
      simp [goCopy]
    simp only [Int.toNat_zero, hb, List.drop_succ_cons, List.drop_zero]
    have hlt : Frame.be16 a b < 65536 := by
      have := a.toNat_lt; have := b.toNat_lt; simp [Frame.be16]; omega
    have hw : goU16BE [a, b] = UInt16.ofNat (Frame.be16 a b) := by simp [goU16BE, goIdx, Frame.be16]
    rw [hw, CheckEncoding_eq]
    simp only [Close.emitClose, Close.classify, Facts.opClose, Facts.closeUnsupportedData, Facts.closeListed1002, Facts.closeProtocolError,
      Facts.closeBelow1002, Facts.closeFrom1002, Facts.closeResLo1002, Facts.closeResHi1002, Facts.closeNormalBelow, Facts.closeNormalClosure]
    have h8 : (8 : UInt8).toNat = 8 := rfl
    rw [h8]
    -- from here on the statement is about one 16-bit number: all comparisons are turned into comparisons of naturals and
    -- every nesting of the code's conditions is split, so the proof does not depend on how the classification is spelled
    generalize Frame.be16 a b = n at *
    generalize hwd : UInt16.ofNat n = w
    have hwn : w.toNat = n := by rw [← hwd]; simp; omega
    simp only [u16_beq, UInt16.lt_iff_toNat_lt, UInt16.le_iff_toNat_le, ge_iff_le, hwn]
    have lits : (1000 : UInt16).toNat = 1000 ∧ (1004 : UInt16).toNat = 1004 ∧ (1005 : UInt16).toNat = 1005 ∧ (1006 : UInt16).toNat = 1006
        ∧ (1015 : UInt16).toNat = 1015 ∧ (1016 : UInt16).toNat = 1016 ∧ (3000 : UInt16).toNat = 3000 ∧ (5000 : UInt16).toNat = 5000 :=
      ⟨rfl, rfl, rfl, rfl, rfl, rfl, rfl, rfl⟩
    obtain ⟨l1, l2, l3, l4, l5, l6, l7, l8⟩ := lits
    simp only [l1, l2, l3, l4, l5, l6, l7, l8]
    simp only [List.mem_cons, List.mem_nil_iff, or_false]
    -- the model's side is decided first (its shape is fixed); then every nesting of the code's conditions is split
    by_cases hce : Utf8.checkEncoding checkUtf8 8 reason = true <;>
    by_cases c1 : (n = 1004 ∨ n = 1005 ∨ n = 1006 ∨ n = 1015) <;>
    by_cases c2 : (n < 1000 ∨ 5000 ≤ n ∨ 1016 ≤ n ∧ n < 3000) <;>
    by_cases c3 : n < 1016 <;>
    simp only [hce, c1, c2, c3, Bool.not_true, Bool.not_false, Bool.false_eq_true, ↓reduceIte, Except.ok.injEq, Prod.mk.injEq, true_and, and_true,
      Bool.or_eq_true, Bool.and_eq_true, decide_eq_true_eq, Bool.not_eq_true', decide_eq_false_iff_not, Bool.not_eq_true, Bool.or_eq_false_iff] <;>
    (repeat' split) <;>
    first
      | rfl
      | (exfalso; omega)
      | exact hwd.symm
      | exact ⟨hwd.symm, hwd⟩
      | (simp_all; done)
      | (simp_all <;> omega)

/-- a locally requested close: `WriteClose` builds status ++ reason with the status raised to 1000, `writeClose` cuts the
body to the control-frame limit: together the model's `Close.localCloseBody` -/
theorem local_close_body_eq (code : UInt16) (reason : Bytes) :
    (Trans.Conn_WriteClose_body code reason >>= fun r => Trans.Conn_writeClose_cut r.2)
      = .ok (Close.localCloseBody code.toNat reason) := by
  unfold Trans.Conn_WriteClose_body Trans.Conn_writeClose_cut Close.localCloseBody Close.cutBody
  simp only [bind, Except.bind, List.nil_append, StatusCode_Bytes_eq, UInt16.lt_iff_toNat_lt, Facts.localCloseMinCode,
    Facts.localCloseRaisedTo, Facts.closeBodyCut]
  have e1000 : (1000 : UInt16).toNat = 1000 := rfl
  by_cases h : code.toNat < 1000
  · simp [h, e1000]
    split <;> split <;> first | rfl | (exfalso; omega)
  · simp [h, e1000]
    split <;> split <;> first | rfl | (exfalso; omega)

/-- `closeViaWrite` splits the payload as `Close.viaWriteSplit` -/
theorem closeViaWrite_split_eq (body : Bytes) :
    Trans.Conn_closeViaWrite_split body =
      .ok (UInt16.ofNat (Close.viaWriteSplit body).1, (Close.viaWriteSplit body).2) := by
  unfold Trans.Conn_closeViaWrite_split Close.viaWriteSplit Trans.StatusCode_Uint16
  match body with
  | [] => simp [Facts.closeNormalClosure]
  | [x] => simp [Facts.closeNormalClosure]
  | a :: b :: r =>
    have : (2 : Int) ≤ ↑r.length + 1 + 1 := by omega
    simp [this, goU16BE, goIdx, Frame.be16]

/-- a read-path error of the model as the Go error value `readMessage` returns -/
def goErrOfReadErr : Close.ReadErr → Option GoErr
  | .status c => some (.status (UInt16.ofNat c))
  | .coded c => some (.coded (UInt16.ofNat c))
  | .other => some .io

/-- the status `emitError(true, err)` sends for an error of the read path = `Close.ReadErr.sendCode` (a status code is sent
as it is, an `*internal.Error` with its code, anything else — I/O — with 1000); a write-side error sends 1001 -/
theorem emitError_status_eq (e : Close.ReadErr) :
    Trans.Conn_emitError_status (reading := true) (err := goErrOfReadErr e) = .ok (UInt16.ofNat e.sendCode) := by
  cases e <;> simp [Trans.Conn_emitError_status, goErrOfReadErr, Close.ReadErr.sendCode, Facts.closeNormalClosure]

theorem emitError_status_write (err : Option GoErr) :
    Trans.Conn_emitError_status (reading := false) (err := err) = .ok (UInt16.ofNat Facts.closeGoingAway) := by
  simp [Trans.Conn_emitError_status, Facts.closeGoingAway]

/-! ## non-vacuity: the translated code on concrete inputs -/

deriving instance DecidableEq for Except

example : Trans.Conn_emitClose_body true [0x03, 0xf6] = .ok ([], 1000, 1014) := by decide +kernel
example : Trans.Conn_emitClose_body true [0x03, 0xed, 0x41] = .ok ([0x41], 1002, 1005) := by decide +kernel
example : Trans.Conn_emitClose_body true [0x03, 0xe8, 0xff] = .ok ([0xff], 1007, 1000) := by decide +kernel
example : Trans.Conn_emitClose_body false [0x7] = .ok ([], 1002, 7) := by decide +kernel
example : (Trans.Conn_WriteClose_body 999 [0x41] >>= fun r => Trans.Conn_writeClose_cut r.2) = .ok [0x03, 0xe8, 0x41] := by decide +kernel

end TransEquiv
