import Gws.Generated.Trans
import Gws.Lemmas.Trans
import Gws.Model.Close
/-!
# T3 — the status classification of `emitClose` (conn.go), translated from the source on every run,
equals `Close.classify` (the function the C06 reply table is proved about).
-/
namespace TransEquiv

theorem emitClose_classify_eq (wire rc0 : UInt16) :
    Trans.Conn_emitClose_classify wire rc0 = .ok (UInt16.ofNat (Close.classify wire.toNat), wire) := by
  unfold Trans.Conn_emitClose_classify Close.classify
  simp only [Facts.closeListed1002, Facts.closeProtocolError, Facts.closeBelow1002, Facts.closeFrom1002, Facts.closeResLo1002,
    Facts.closeResHi1002, Facts.closeNormalBelow, Facts.closeNormalClosure, UInt16.lt_iff_toNat_lt, UInt16.le_iff_toNat_le, ge_iff_le, u16_beq]
  have hw : UInt16.ofNat wire.toNat = wire := by simp
  generalize wire.toNat = n at *
  simp
  repeat' split
  all_goals first | rfl | (exfalso; omega) | (simp [*]; done) | (simp [*]; exact hw.symm)

example : Trans.Conn_emitClose_classify 1014 0 = .ok (1000, 1014) ∧ Trans.Conn_emitClose_classify 1005 0 = .ok (1002, 1005)
    ∧ Trans.Conn_emitClose_classify 3999 0 = .ok (3999, 3999) := ⟨rfl, rfl, rfl⟩

end TransEquiv
