import Gws.Lemmas.Deque.Refine
/-!
# C20 — the arena-backed deque behaves like a plain sequence

Statement (properties.jsonl): the internal arena-backed deque behaves exactly like a plain sequence
under every sequence of push/pop at both ends, insert before/after a live element, move to
front/back, update, remove by handle, reset and clone.  Len and iteration order always match the
model, handles of live elements stay valid across growth and slot reuse, and a clone is independent
of the original.

Vocabulary (defined in `Gws/Lemmas/Deque/*.lean`, model in `Gws/Model/Deque.lean`):
`Deque.WF d as` is the invariant, with the ghost list `as` of live addresses in sequence order;
`Deque.abs d as` is the sequence of values behind those addresses.  A *handle* is the address of a
live element (what `Element.Addr()` returns); an operation returns `none` when Go would panic.

Each operation theorem is stated on an arbitrary well-formed state, so together with `wf_zero` /
`wf_new` they cover every reachable state and every operation sequence; the theorems on a live handle
`a` take the sequence in the split form `l ++ a :: r` (every `a ∈ as` has such a split).

Contents (nothing is partial; all operations of the API are covered):
* initial states: `wf_zero`, `wf_new`, `new_negative_panics`;
* reading: `WF.covers`, `WF.live_handle`, `nil_handle`, `len_spec`, `front_back_spec`, `range_spec`,
  `range_all_spec`;
* one theorem per mutating operation: `pushBack_spec`, `pushFront_spec`, `popFront_empty`,
  `popFront_spec`, `popBack_empty`, `popBack_spec`, `remove_spec`, `insertAfter_spec`,
  `insertBefore_spec`, `moveToFront_spec`, `moveToBack_spec`, `update_spec`, `reset_spec`,
  `allocated_of_nonempty`, `clone_spec`, `clone_wf`; each gives: no panic, `WF` for the new ghost
  list, `abs` of the result as the plain-list operation, freshness of a returned handle, and that
  the values behind all other live handles are unchanged (a handle stays valid across growth of the
  slot array and across slot reuse: with `WF.live_handle` for the new state, `Get` still returns the
  element with that address and the same value);
* all histories: `ops_refine` (`ops_refine_zero`, `ops_refine_new`);
* a repaired defect: `Reset` on a zero value that was never pushed to (or on a clone of one) used to
  panic — `autoReset` sliced `c.elements[:1]` on the nil slot array; replay line `deque zero reset`.
  Found by this model (then theorem `reset_unallocated_panics`, and `ops_refine` had to exclude that
  case); fixed in internal/deque.go by `if len(c.elements) > 0`.  Now `reset_spec` holds for every
  well-formed state and `ops_refine` accepts `reset` everywhere.

Not expressible on this value model, and left to the correspondence suite `deque` (which compares
slot addresses too): that a clone shares no memory with the original (`clone_spec`), that no pointer
is kept across the `append` in `getElement`.  Not modelled: a `Range` callback that modifies the deque
while iterating, `Pointer` (uint32) overflow at 2^32 slots, slice capacities (unobservable).
Operations on stale handles are outside the property; the model keeps what the code does with them
(silent corruption, or a panic outcome when out of range) but no theorem speaks about it.
-/

namespace Deque

variable {d : Deque} {as l r : List Nat} {a m : Nat}

/-! ## initial states -/

/-- The zero value (as embedded in `workerQueue`) is well formed and empty. -/
theorem wf_zero : WF zero [] := by
  refine ⟨rfl, by simp [zero], by simp [zero], by simp [zero], rfl, rfl, rfl, by simp, by simp [zero]⟩

/-- `New(capacity)` with a non-negative capacity is well formed and empty, and its slot array is
allocated. -/
theorem wf_new (c : Int) (hc : 0 ≤ c) : ∃ d, Deque.new c = some d ∧ WF d [] ∧ d.elements ≠ [] := by
  refine ⟨{ elements := [{}] }, by simp [Deque.new, Int.not_lt.mpr hc], ?_, by simp⟩
  refine ⟨rfl, by simp, by simp, by simp, rfl, rfl, rfl, by simp, by simp⟩

/-- `New` with a negative capacity panics (`make` with `cap < len`). -/
theorem new_negative_panics (c : Int) (hc : c < 0) : Deque.new c = none := by
  simp [Deque.new, hc]

/-! ## what the invariant says about live handles -/

/-- Live addresses and free stack together are *exactly* the slots `1 .. len(elements)-1`: the
invariant's `nodup`/`range`/`cover` clauses leave no slot unaccounted for. -/
theorem WF.covers (h : WF d as) (i : Nat) (h0 : 0 < i) (hi : i < d.elements.length) :
    i ∈ as ++ d.stack :=
  slots_cover h.nodup h.range (by simpa using h.cover) i h0 hi

/-- A live handle is non-nil, `Get` returns the element stored under it without a bounds panic, and
that element carries the handle as its address. -/
theorem WF.live_handle (h : WF d as) (ha : a ∈ as) : a ≠ 0 ∧ d.get a = some a ∧ (d.load a).addr = a := by
  have hi := ((wf_iff_inv d as).mp h).1
  have hr := h.range a (by simp [ha])
  exact ⟨by omega, get_of_lt hr.2, hi.addr_eq ha⟩

/-- The nil handle: `Get` returns nil, and every handle-taking operation is a no-op returning nil. -/
theorem nil_handle (d : Deque) (v : Nat) :
    d.get 0 = some 0 ∧ d.insertAfter v 0 = some (d, 0) ∧ d.insertBefore v 0 = some (d, 0) ∧
    d.moveToFront 0 = some d ∧ d.moveToBack 0 = some d ∧ d.update 0 v = some d ∧ d.remove 0 = some d := by
  simp [get, insertAfter, insertBefore, moveToFront, moveToBack, update, remove]

/-- `Len` is the length of the sequence. -/
theorem len_spec (h : WF d as) : d.len = (abs d as).length := by
  simp [len, h.len_eq]

/-- `Front`/`Back` return the first/last live handle (nil when empty), whose values are the first/last
element of the sequence. -/
theorem front_back_spec (h : WF d as) :
    d.front = some (as.head?.getD 0) ∧ d.back = some (as.getLast?.getD 0) ∧
    (abs d as).head? = as.head?.map (fun a => (d.load a).value) ∧
    (abs d as).getLast? = as.getLast?.map (fun a => (d.load a).value) := by
  refine ⟨?_, ?_, by simp [abs], by simp [abs]⟩
  · rw [front, h.head_eq]
    apply get_of_zero_or_lt
    cases as with
    | nil => simp
    | cons x xs => exact Or.inr (h.range x (by simp)).2
  · rw [back, h.tail_eq]
    apply get_of_zero_or_lt
    rcases List.eq_nil_or_concat as with rfl | ⟨xs, x, rfl⟩
    · simp
    · exact Or.inr (by simpa using (h.range x (by simp)).2)

/-- `Range` visits the elements behind `as` in order, threading the callback's state, and stops after
the first element on which the callback answers `false` (`foldUntil`). -/
theorem range_spec {σ : Type} (h : WF d as) (f : σ → Elem → σ × Bool) (s : σ) :
    d.range f s = some (foldUntil f s (as.map d.load)) :=
  range_core ((wf_iff_inv d as).mp h).1 f s

/-- In particular a callback that always continues and collects the values sees exactly `abs`. -/
theorem range_all_spec (h : WF d as) :
    d.range (fun (acc : List Nat) e => (acc ++ [e.value], true)) [] = some (abs d as) := by
  exact range_all_core ((wf_iff_inv d as).mp h).1

/-! ## push -/

/-- `PushBack v`: succeeds, returns a fresh non-nil handle `a`, the sequence becomes `as ++ [a]` with
values `abs ++ [v]`, and every previously live handle still denotes the same value (whether the slot
array grew or a recycled slot was used). -/
theorem pushBack_spec (h : WF d as) (v : Nat) :
    ∃ d' a, d.pushBack v = some (d', a) ∧ a ∉ as ∧ WF d' (as ++ [a]) ∧
      abs d' (as ++ [a]) = abs d as ++ [v] ∧ ∀ b ∈ as, (d'.load b).value = (d.load b).value := by
  obtain ⟨hi, hl⟩ := (wf_iff_inv d as).mp h
  obtain ⟨d', a, hp, hi', hl', hv, hvo⟩ := pushBack_core hi v
  have hn := hi'.nodup
  have hfresh : a ∉ as := by grind
  have hold : ∀ b ∈ as, (d'.load b).value = (d.load b).value := fun b hb => hvo b (by grind)
  refine ⟨d', a, hp, hfresh, (wf_iff_inv _ _).mpr ⟨hi', by rw [hl', hl]; simp <;> omega⟩, ?_, hold⟩
  rw [abs_append, abs_congr hold]; simp [hv]

/-- `PushFront v`: as `pushBack_spec`, at the other end. -/
theorem pushFront_spec (h : WF d as) (v : Nat) :
    ∃ d' a, d.pushFront v = some (d', a) ∧ a ∉ as ∧ WF d' (a :: as) ∧
      abs d' (a :: as) = v :: abs d as ∧ ∀ b ∈ as, (d'.load b).value = (d.load b).value := by
  obtain ⟨hi, hl⟩ := (wf_iff_inv d as).mp h
  obtain ⟨d', a, hp, hi', hl', hv, hvo⟩ := pushFront_core hi v
  have hn := hi'.nodup
  have hfresh : a ∉ as := by grind
  have hold : ∀ b ∈ as, (d'.load b).value = (d.load b).value := fun b hb => hvo b (by grind)
  refine ⟨d', a, hp, hfresh, (wf_iff_inv _ _).mpr ⟨hi', by rw [hl', hl]; simp <;> omega⟩, ?_, hold⟩
  rw [abs_cons, abs_congr hold, hv]

/-! ## pop -/

/-- `PopFront` on an empty deque returns the zero value and changes nothing. -/
theorem popFront_empty (h : WF d []) : d.popFront = some (d, 0) := by
  have := (front_back_spec h).1
  simp [popFront, this]

/-- `PopFront` on a non-empty deque returns the first value and removes the first element; the other
handles keep their values. -/
theorem popFront_spec (h : WF d (a :: r)) :
    ∃ d', d.popFront = some (d', (d.load a).value) ∧ WF d' r ∧ abs d' r = (abs d (a :: r)).tail ∧
      ∀ b ∈ r, (d'.load b).value = (d.load b).value := by
  obtain ⟨hi, hl⟩ := (wf_iff_inv _ _).mp h
  have ha := h.range a (by simp)
  obtain ⟨d', hu, hi', hl', hv⟩ := unlink_inv (l := []) hi hl
  simp only [List.nil_append] at hu hi' hl' hv
  refine ⟨d', ?_, (wf_iff_inv _ _).mpr ⟨hi', hl'⟩, by simpa using abs_congr hv, hv⟩
  rw [popFront_eq_unlink (a := a) (by simpa using h.head_eq) (by omega) ha.2, hu]; rfl

/-- `PopBack` on an empty deque returns the zero value and changes nothing. -/
theorem popBack_empty (h : WF d []) : d.popBack = some (d, 0) := by
  have := (front_back_spec h).2.1
  simp [popBack, this]

/-- `PopBack` on a non-empty deque returns the last value and removes the last element. -/
theorem popBack_spec (h : WF d (l ++ [a])) :
    ∃ d', d.popBack = some (d', (d.load a).value) ∧ WF d' l ∧ abs d' l = (abs d (l ++ [a])).dropLast ∧
      ∀ b ∈ l, (d'.load b).value = (d.load b).value := by
  obtain ⟨hi, hl⟩ := (wf_iff_inv _ _).mp h
  have ha := h.range a (by simp)
  obtain ⟨d', hu, hi', hl', hv⟩ := unlink_inv (r := []) hi hl
  simp only [List.append_nil] at hu hi' hl' hv
  refine ⟨d', ?_, (wf_iff_inv _ _).mpr ⟨hi', hl'⟩, by simpa using abs_congr hv, hv⟩
  rw [popBack_eq_unlink (a := a) (by simpa using h.tail_eq) (by omega) ha.2, hu]; rfl

/-! ## operations on a live handle -/

/-- `Remove a` for a live handle: the element disappears from the sequence, the others keep their
order and values. -/
theorem remove_spec (h : WF d (l ++ a :: r)) :
    ∃ d', d.remove a = some d' ∧ WF d' (l ++ r) ∧ abs d' (l ++ r) = abs d l ++ abs d r ∧
      ∀ b ∈ l ++ r, (d'.load b).value = (d.load b).value := by
  obtain ⟨hi, hl⟩ := (wf_iff_inv _ _).mp h
  have ha := h.range a (by simp)
  obtain ⟨d', hu, hi', hl', hv⟩ := unlink_inv hi hl
  refine ⟨d', by rw [remove_eq_unlink (by omega) ha.2, hu], (wf_iff_inv _ _).mpr ⟨hi', hl'⟩, ?_, hv⟩
  rw [abs_congr hv, abs_append]

/-- `InsertAfter v m` for a live handle `m`: a fresh handle `a` is linked right after `m`. -/
theorem insertAfter_spec (h : WF d (l ++ m :: r)) (v : Nat) :
    ∃ d' a, d.insertAfter v m = some (d', a) ∧ a ∉ l ++ m :: r ∧ WF d' (l ++ m :: a :: r) ∧
      abs d' (l ++ m :: a :: r) = abs d l ++ (d.load m).value :: v :: abs d r ∧
      ∀ b ∈ l ++ m :: r, (d'.load b).value = (d.load b).value := by
  obtain ⟨hi, hl⟩ := (wf_iff_inv _ _).mp h
  obtain ⟨d', a, hp, hi', hl', hv, hvo⟩ := insertAfter_core hi v
  have hn := hi'.nodup
  have hfresh : a ∉ l ++ m :: r := by grind
  have hold : ∀ b ∈ l ++ m :: r, (d'.load b).value = (d.load b).value := fun b hb => hvo b (by grind)
  refine ⟨d', a, hp, hfresh, (wf_iff_inv _ _).mpr ⟨hi', by rw [hl', hl]; simp <;> omega⟩, ?_, hold⟩
  simp only [abs_append, abs_cons, hv]
  rw [abs_congr (d := d) (d' := d') (as := l) (fun b hb => hold b (by simp [hb])),
    abs_congr (d := d) (d' := d') (as := r) (fun b hb => hold b (by simp [hb])), hold m (by simp)]

/-- `InsertBefore v m` for a live handle `m`: a fresh handle `a` is linked right before `m`. -/
theorem insertBefore_spec (h : WF d (l ++ m :: r)) (v : Nat) :
    ∃ d' a, d.insertBefore v m = some (d', a) ∧ a ∉ l ++ m :: r ∧ WF d' (l ++ a :: m :: r) ∧
      abs d' (l ++ a :: m :: r) = abs d l ++ v :: (d.load m).value :: abs d r ∧
      ∀ b ∈ l ++ m :: r, (d'.load b).value = (d.load b).value := by
  obtain ⟨hi, hl⟩ := (wf_iff_inv _ _).mp h
  obtain ⟨d', a, hp, hi', hl', hv, hvo⟩ := insertBefore_core hi v
  have hn := hi'.nodup
  have hfresh : a ∉ l ++ m :: r := by grind
  have hold : ∀ b ∈ l ++ m :: r, (d'.load b).value = (d.load b).value := fun b hb => hvo b (by grind)
  refine ⟨d', a, hp, hfresh, (wf_iff_inv _ _).mpr ⟨hi', by rw [hl', hl]; simp <;> omega⟩, ?_, hold⟩
  simp only [abs_append, abs_cons, hv]
  rw [abs_congr (d := d) (d' := d') (as := l) (fun b hb => hold b (by simp [hb])),
    abs_congr (d := d) (d' := d') (as := r) (fun b hb => hold b (by simp [hb])), hold m (by simp)]

/-- `MoveToFront a` for a live handle: `a` becomes the first element, nothing else changes; no value
behind any handle changes. -/
theorem moveToFront_spec (h : WF d (l ++ a :: r)) :
    ∃ d', d.moveToFront a = some d' ∧ WF d' (a :: (l ++ r)) ∧
      abs d' (a :: (l ++ r)) = (d.load a).value :: (abs d l ++ abs d r) ∧
      ∀ b, (d'.load b).value = (d.load b).value := by
  obtain ⟨hi, hl⟩ := (wf_iff_inv _ _).mp h
  obtain ⟨d', hp, hi', hl', hv⟩ := moveToFront_core hi
  refine ⟨d', hp, (wf_iff_inv _ _).mpr ⟨hi', by rw [hl', hl]; simp <;> omega⟩, ?_, hv⟩
  rw [abs_congr (fun b _ => hv b)]; simp

/-- `MoveToBack a` for a live handle: `a` becomes the last element, nothing else changes. -/
theorem moveToBack_spec (h : WF d (l ++ a :: r)) :
    ∃ d', d.moveToBack a = some d' ∧ WF d' (l ++ r ++ [a]) ∧
      abs d' (l ++ r ++ [a]) = abs d l ++ abs d r ++ [(d.load a).value] ∧
      ∀ b, (d'.load b).value = (d.load b).value := by
  obtain ⟨hi, hl⟩ := (wf_iff_inv _ _).mp h
  obtain ⟨d', hp, hi', hl', hv⟩ := moveToBack_core hi
  refine ⟨d', hp, (wf_iff_inv _ _).mpr ⟨hi', by rw [hl', hl]; simp <;> omega⟩, ?_, hv⟩
  rw [abs_congr (fun b _ => hv b)]; simp

/-- `Update a v` for a live handle: the value behind `a` becomes `v`, nothing else changes. -/
theorem update_spec (h : WF d (l ++ a :: r)) (v : Nat) :
    ∃ d', d.update a v = some d' ∧ WF d' (l ++ a :: r) ∧
      abs d' (l ++ a :: r) = abs d l ++ v :: abs d r ∧
      ∀ b ∈ l ++ r, (d'.load b).value = (d.load b).value := by
  obtain ⟨hi, hl⟩ := (wf_iff_inv _ _).mp h
  obtain ⟨hu, hi', hv, hvo⟩ := update_core hi (a := a) (by simp) v
  have hn := hi.nodup
  have hold : ∀ b ∈ l ++ r, (d.setValue a v).load b = d.load b := fun b hb => hvo b (by grind)
  refine ⟨_, hu, (wf_iff_inv _ _).mpr ⟨hi', by simpa using hl⟩, ?_, fun b hb => by rw [hold b hb]⟩
  simp only [abs_append, abs_cons, hv]
  rw [abs_congr (d := d) (as := l) (fun b hb => by rw [hold b (by simp [hb])]),
    abs_congr (d := d) (as := r) (fun b hb => by rw [hold b (by simp [hb])])]

/-! ## reset, clone -/

/-- `Reset` on *every* well-formed deque — including a zero value that was never pushed to, whose slot
array does not exist yet — cannot panic (`reset` is a total function of the model) and leaves a
well-formed empty deque; the slot array is cut back to the sentinel slot, or stays unallocated. -/
theorem reset_spec (h : WF d as) :
    WF d.reset [] ∧ d.reset.elements.length = min 1 d.elements.length := by
  obtain ⟨hi, hl⟩ := autoReset_inv (d := d) h.tmpl
  exact ⟨(wf_iff_inv _ _).mpr ⟨hi, by simpa [reset] using hl⟩, (autoReset_spec d).2.2.2.2.2⟩

/-- A non-empty deque has its slot array allocated (so has every deque from `New`, `wf_new`); only a
zero value that was never pushed to, and clones of it, have none. -/
theorem allocated_of_nonempty (h : WF d as) (hne : as ≠ []) : d.elements ≠ [] := by
  cases as with
  | nil => exact absurd rfl hne
  | cons x xs =>
    have := (h.range x (by simp)).2
    intro he; simp [he] at this

/-- `Clone` is a value copy: the clone is the same abstract state (same handles, same values).  In
this functional model that is all there is to say — operations on the clone cannot change `abs` of
the original because states are values; that the Go copy really shares no memory with the original is
checked by the correspondence suite (`clone` then diverging operations on both instances), not here. -/
theorem clone_spec (d : Deque) : d.clone = d := clone_eq d

theorem clone_wf (h : WF d as) : WF d.clone as ∧ abs d.clone as = abs d as := by
  rw [clone_spec]; exact ⟨h, rfl⟩

/-! ## every operation sequence -/

/-- **C20, all histories.** `Op` are the operations of the API over abstract element ids (an id is
the ordinal of the push/insert that created the element), plus `clone` (append a copy of the current
instance as a new instance) and `use k` (switch the current instance).  `SState.run` executes them on
plain lists of `(id, value)` — one list per instance — and rejects a sequence (`none`) only if it
names an id that is not live in the current instance or switches to an instance that does not exist.
`MState.run` executes them on the model, one deque and one id→handle map per instance.

For every operation sequence (no bound on its length) that the reference accepts, started from any
well-formed empty deque: the model never panics and after *every* operation the observations — the
operation's own result (the value behind the returned element, the popped value, the values `Range`
recorded before it was told to stop), `Len`, the full iteration order of values, and the values of
`Front` and `Back` — of the instance operated on are equal to those of the plain list.  In
particular what happens to a clone never shows in the original and vice versa. -/
theorem ops_refine (d : Deque) (h : WF d []) (ops : List Op) (obs : List Obs)
    (hs : SState.init.run ops = some obs) : (MState.init d).run ops = some obs := by
  obtain ⟨hi, hl⟩ := (wf_iff_inv d []).mp h
  exact run_refines (init_related hi (by simpa using hl)) ops obs hs

/-- `ops_refine` for the zero value. -/
theorem ops_refine_zero (ops : List Op) (obs : List Obs) (hs : SState.init.run ops = some obs) :
    (MState.init zero).run ops = some obs :=
  ops_refine zero wf_zero ops obs hs

/-- `ops_refine` for `New(capacity)`. -/
theorem ops_refine_new (c : Int) (hc : 0 ≤ c) :
    ∃ d, Deque.new c = some d ∧ ∀ (ops : List Op) (obs : List Obs),
      SState.init.run ops = some obs → (MState.init d).run ops = some obs := by
  obtain ⟨d, hn, hw, _⟩ := wf_new c hc
  exact ⟨d, hn, fun ops obs hs => ops_refine d hw ops obs hs⟩

/-! ## non-vacuity -/

-- the hypotheses of the handle theorems are satisfiable: well-formed states with live handles exist
example : ∃ d a b, WF d [a, b] := by
  obtain ⟨d1, a, _, _, h1, _⟩ := pushBack_spec wf_zero 5
  obtain ⟨d2, b, _, _, h2, _⟩ := pushBack_spec h1 6
  exact ⟨d2, a, b, h2⟩

-- growth, then slot reuse: after removing handle 1 the next push gets address 1 again, and the
-- element behind handle 2 is untouched
example : (do
    let (d, a) ← zero.pushBack 10
    let (d, b) ← d.pushBack 20
    let d ← d.remove a
    let (d, c) ← d.pushBack 30
    pure ([a, b, c, d.elements.length, (d.load b).value, d.head, d.tail], d.stack) :
      Option (List Nat × List Nat))
    = some ([1, 2, 1, 3, 20, 2, 1], []) := by decide

-- auto-reset when the deque becomes empty truncates the slot array and forgets the free stack
example : (do
    let (d, a) ← zero.pushBack 10
    let (d, _) ← d.pushBack 20
    let d ← d.remove a
    let (d, _) ← d.popFront
    pure (d.stack, d.elements.length, d.length) : Option (List Nat × Nat × Int)) = some ([], 1, 0) := by
  decide

-- Reset on the never-used zero value (the repaired defect) leaves it as it is; New(0) keeps its slot
example : zero.reset = zero := by decide
example : (Deque.new 0).map reset = some { elements := [{}] } := by decide

-- the reference accepts (so `ops_refine` speaks about) a sequence that uses every operation,
-- and rejects a dead id
example : (SState.init.run
    [.pushBack 1, .pushFront 2, .insertAfter 3 0, .insertBefore 4 1, .moveToFront 0, .moveToBack 1,
     .update 2 9, .clone, .use 1, .remove 0, .popFront, .range 1, .use 0, .popBack, .reset]).isSome := by
  decide
example : SState.init.run [.pushBack 1, .popFront, .remove 0] = none := by decide
-- reset as the very first operation on the zero value is accepted, and on a clone of it
example : ((MState.init zero).run [.reset, .clone, .use 1, .reset, .pushBack 7]).map (·.map (·.seq)) =
    some [[], [], [], [], [7]] := by decide

-- and on that sequence the model's observations are not trivial: after `use 0` the original still
-- has all four elements although the clone lost two of them
example : ((MState.init zero).run
    [.pushBack 1, .pushFront 2, .insertAfter 3 0, .insertBefore 4 1, .moveToFront 0, .moveToBack 1,
     .update 2 9, .clone, .use 1, .remove 0, .popFront, .range 1, .use 0]).map
      (fun os => os.map (·.seq) |>.drop 9) = some [[4, 9, 2], [9, 2], [9, 2], [1, 4, 9, 2]] := by decide

end Deque
