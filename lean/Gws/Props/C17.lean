import Gws.Lemmas.Window
/-!
# C17 — the compression history window always equals the suffix of what was written

Statement (properties.jsonl): after any sequence of writes of any sizes, the history window of
capacity 2^bits holds exactly the last min(total bytes written, 2^bits) bytes, in order; a disabled
window stays empty.
-/

namespace Win

/-- One write: for every window state whose contents fit its capacity and every chunk `p` (no bound
on either), the new contents are the last `size` bytes of old contents followed by the chunk. -/
theorem write_spec (w : Win) (p : Bytes) (he : w.enabled = true) (hinv : w.dict.length ≤ w.size) :
    (w.write p).dict = lastN w.size (w.dict ++ p) := by
  unfold Win.write
  simp only [he, Bool.not_true, Bool.false_eq_true, ↓reduceIte]
  split
  · unfold lastN
    have : w.dict.length + p.length - w.size = 0 := by omega
    simp [this]
  · rename_i h
    by_cases hm : w.size - w.dict.length > 0
    · simp only [hm, ↓reduceIte]
      have hl : (w.dict ++ List.take (w.size - w.dict.length) p).length = w.size := by
        simp; omega
      have := full_case (w.dict ++ List.take (w.size - w.dict.length) p) (List.drop (w.size - w.dict.length) p) w.size hl
      simp only [ge_iff_le] at this ⊢
      split <;> rename_i h2 <;> simp only [h2, ↓reduceIte] at this <;> simp only [this] <;> simp [List.append_assoc]
    · simp only [hm, ↓reduceIte]
      have hl : w.dict.length = w.size := by omega
      have := full_case w.dict p w.size hl
      simp only [ge_iff_le] at this ⊢
      split <;> rename_i h2 <;> simp only [h2, ↓reduceIte] at this <;> simp only [this]

/-- `write` never changes `enabled` or `size`. -/
theorem write_frame (w : Win) (p : Bytes) : (w.write p).enabled = w.enabled ∧ (w.write p).size = w.size := by
  unfold Win.write
  simp only
  repeat' split
  all_goals simp

/-- The invariant `len(dict) ≤ size` is preserved (so the code's `append` never reallocates a pooled
slice and the precondition of `write_spec` holds along every history). -/
theorem write_length_le (w : Win) (p : Bytes) (he : w.enabled = true) (hinv : w.dict.length ≤ w.size) :
    (w.write p).dict.length ≤ (w.write p).size := by
  rw [write_spec w p he hinv, (write_frame w p).2]
  simp; omega

/-- Every history: the window after any sequence of writes, starting from any state that satisfies
the invariant, is the last `size` bytes of (initial contents ++ everything written). -/
theorem writes_spec_from (w : Win) (ps : List Bytes) (he : w.enabled = true) (hinv : w.dict.length ≤ w.size) :
    (ps.foldl Win.write w).dict = lastN w.size (w.dict ++ ps.flatten) ∧
    (ps.foldl Win.write w).size = w.size ∧ (ps.foldl Win.write w).enabled = true := by
  induction ps generalizing w with
  | nil => simp [lastN_of_length_le _ _ hinv, he]
  | cons p ps ih =>
    have hf := write_frame w p
    have := ih (w.write p) (by rw [hf.1, he]) (write_length_le w p he hinv)
    simp only [List.foldl_cons, List.flatten_cons]
    rw [this.1, this.2.1, this.2.2, hf.2, write_spec w p he hinv, lastN_lastN_append, List.append_assoc]
    simp

/-- **C17, enabled window.** After any sequence of writes `ps` to a freshly initialised window of
capacity `2^bits`, it holds exactly the last `min (total written) (2^bits)` bytes, in order. -/
theorem writes_spec (bits : Nat) (ps : List Bytes) :
    (ps.foldl Win.write (Win.init bits)).dict = lastN (2 ^ bits) ps.flatten := by
  have := writes_spec_from (Win.init bits) ps rfl (by simp [Win.init])
  simpa [Win.init] using this.1

/-- the length clause of C17, explicit -/
theorem writes_length (bits : Nat) (ps : List Bytes) :
    (ps.foldl Win.write (Win.init bits)).dict.length = min ps.flatten.length (2 ^ bits) := by
  rw [writes_spec]; simp [Nat.min_comm]

/-- **C17, chunking is irrelevant.** The window depends only on the byte stream written, not on how
it was cut into `Write` calls: a message written in one piece, frame by frame, or byte by byte
leaves the same history (this is what lets the two endpoints of C02 agree although one side
writes whole payloads and the other inflated pieces). -/
theorem writes_chunking_irrelevant (bits : Nat) (ps qs : List Bytes) (h : ps.flatten = qs.flatten) :
    (ps.foldl Win.write (Win.init bits)).dict = (qs.foldl Win.write (Win.init bits)).dict := by
  rw [writes_spec, writes_spec, h]

/-- the same from any state satisfying the invariant: two writes equal one write of the concatenation -/
theorem write_write_eq_write_append (w : Win) (p q : Bytes) (he : w.enabled = true)
    (hinv : w.dict.length ≤ w.size) :
    ((w.write p).write q).dict = (w.write (p ++ q)).dict := by
  have h2 := writes_spec_from w [p, q] he hinv
  have h1 := writes_spec_from w [p ++ q] he hinv
  simp only [List.foldl_cons, List.foldl_nil] at h1 h2
  rw [h2.1, h1.1]; simp

/-- **C17, old bytes fall out.** Once at least `2^bits` bytes have been written after some prefix,
nothing of that prefix (nor of the initial contents) is left in the window. -/
theorem writes_forget (bits : Nat) (ps qs : List Bytes) (h : 2 ^ bits ≤ qs.flatten.length) :
    ((ps ++ qs).foldl Win.write (Win.init bits)).dict = (qs.foldl Win.write (Win.init bits)).dict := by
  rw [writes_spec, writes_spec, List.flatten_append, lastN_append_of_le _ _ _ h]

/-- **C17, disabled window.** A window that was never initialised stays empty under any writes. -/
theorem disabled_stays_empty (ps : List Bytes) :
    (ps.foldl Win.write Win.disabled) = Win.disabled := by
  induction ps with
  | nil => rfl
  | cons p ps ih => simpa [Win.write, Win.disabled] using ih

-- non-vacuity: all four branches are reachable from `init`, and the spec is not trivially `[]`
example : ([[1,2,3],[4,5,6],[7,8,9,10,11]].foldl Win.write (Win.init 3)).dict = [4,5,6,7,8,9,10,11] := by decide
example : ([[1,2,3],[4,5,6],[7,8,9,10,11,12,13,14,15,16,17]].foldl Win.write (Win.init 3)).dict = [10,11,12,13,14,15,16,17] := by decide
example : ([[1,2,3,4,5,6,7,8],[9]].foldl Win.write (Win.init 3)).dict = [2,3,4,5,6,7,8,9] := by decide
-- `writes_forget`'s hypothesis is met by a reachable history
example : 2 ^ 3 ≤ ([[1,2,3,4,5],[6,7,8,9]] : List Bytes).flatten.length := by decide

end Win
