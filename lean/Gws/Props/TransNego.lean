import Gws.Generated.Trans
import Gws.Lemmas.Trans
import Gws.Model.Nego
import Gws.Model.ReaderStep
/-!
# T3 — option normalisation (option.go), translated from the source on every run, equals the model

* the compression settings after `initServerOption` / `initClientOption` = `Nego.normServer` / `Nego.normClient`
  (window bits forced into 8..15, default threshold), `setThreshold` = `Nego.setThreshold`: the functions
  C12's agreement theorems compose;
* the size limits after initialisation are positive: the hypothesis `0 < readMax` of the read-path theorems
  (C04, C13) holds for every configuration the application can pass.
-/
namespace TransEquiv

theorem setThreshold_eq (isServer : Bool) (p : Nego.PD) :
    Trans.PermessageDeflate_setThreshold isServer (c_ServerContextTakeover := p.serverTakeover) (c_ClientContextTakeover := p.clientTakeover)
        (c_Threshold := p.threshold)
      = (Nego.setThreshold isServer p).threshold := by
  unfold Trans.PermessageDeflate_setThreshold Nego.setThreshold
  cases isServer <;> cases p.serverTakeover <;> cases p.clientTakeover <;> simp

/-- the server's compression settings after `initServerOption`: bits and threshold are those of `Nego.normServer`
(`level`, `poolSize` are not part of the negotiation model) -/
theorem initServerOption_pd_eq (p : Nego.PD) (level poolSize pow2 : Int) :
    ∃ lvl ps, Trans.initServerOption_pd (c_PermessageDeflate_Enabled := p.enabled) (c_PermessageDeflate_ServerMaxWindowBits := p.serverBits)
        (c_PermessageDeflate_ClientMaxWindowBits := p.clientBits) (c_PermessageDeflate_Threshold := p.threshold)
        (c_PermessageDeflate_Level := level) (c_PermessageDeflate_PoolSize := poolSize)
        (c_PermessageDeflate_ServerContextTakeover := p.serverTakeover) (c_PermessageDeflate_ClientContextTakeover := p.clientTakeover)
        (poolSizePow2 := pow2)
      = .ok ((Nego.normServer p).clientBits, lvl, ps, (Nego.normServer p).serverBits, (Nego.normServer p).threshold) := by
  unfold Trans.initServerOption_pd Nego.normServer
  cases p.enabled
  · exact ⟨level, poolSize, by simp⟩
  · refine ⟨if level == 0 then 1 else level, pow2, ?_⟩
    simp only [↓reduceIte, Nego.defaultThreshold, Facts.defaultCompressThreshold]
    congr 2 <;> simp [Bool.or_eq_true, decide_eq_true_eq]

theorem initClientOption_pd_eq (p : Nego.PD) (level poolSize : Int) :
    ∃ lvl ps, Trans.initClientOption_pd (c_PermessageDeflate_Enabled := p.enabled) (c_PermessageDeflate_ServerMaxWindowBits := p.serverBits)
        (c_PermessageDeflate_ClientMaxWindowBits := p.clientBits) (c_PermessageDeflate_Threshold := p.threshold)
        (c_PermessageDeflate_Level := level) (c_PermessageDeflate_PoolSize := poolSize)
      = .ok ((Nego.normClient p).clientBits, lvl, ps, (Nego.normClient p).serverBits, (Nego.normClient p).threshold) := by
  unfold Trans.initClientOption_pd Nego.normClient
  cases p.enabled
  · exact ⟨level, poolSize, by simp⟩
  · refine ⟨if level == 0 then 1 else level, 1, ?_⟩
    simp only [↓reduceIte, Nego.defaultThreshold, Facts.defaultCompressThreshold]
    congr 2 <;> simp [Bool.or_eq_true, decide_eq_true_eq]

/-- `Upgrader.getPermessageDeflate` = `Nego.serverGetPD`: the server keeps its own window bits and threshold, a direction keeps
its context iff the client's offer does not decline it AND the server's setting allows it, compression is on iff the server
enables it and the offer names the extension, and `setThreshold(true)` is applied last.  What `permessageNegotiation` makes
of the offer (`clientPD`) and whether the offer names the extension are inputs of the translated function. -/
theorem server_getPD_eq (opt : Nego.PD) (extensions : Nego.Str) (level poolSize : Int) (ext : Hs.Str) :
    Trans.Upgrader_getPermessageDeflate ext
        (c_option_PermessageDeflate_ClientContextTakeover := opt.clientTakeover)
        (c_option_PermessageDeflate_ClientMaxWindowBits := opt.clientBits)
        (c_option_PermessageDeflate_Enabled := opt.enabled)
        (c_option_PermessageDeflate_Level := level) (c_option_PermessageDeflate_PoolSize := poolSize)
        (c_option_PermessageDeflate_ServerContextTakeover := opt.serverTakeover)
        (c_option_PermessageDeflate_ServerMaxWindowBits := opt.serverBits)
        (c_option_PermessageDeflate_Threshold := opt.threshold)
        (clientPD_ClientContextTakeover := (Nego.permessageNegotiation extensions).clientTakeover)
        (clientPD_ServerContextTakeover := (Nego.permessageNegotiation extensions).serverTakeover)
        (offered := Nego.contains extensions Nego.pmd)
      = ((Nego.serverGetPD opt extensions).enabled, level, (Nego.serverGetPD opt extensions).threshold, poolSize,
         (Nego.serverGetPD opt extensions).serverTakeover, (Nego.serverGetPD opt extensions).clientTakeover,
         (Nego.serverGetPD opt extensions).serverBits, (Nego.serverGetPD opt extensions).clientBits) := by
  unfold Trans.Upgrader_getPermessageDeflate Trans.PermessageDeflate_setThreshold Nego.serverGetPD Nego.setThreshold
  generalize Nego.permessageNegotiation extensions = cpd
  obtain ⟨_, cst, cct, _, _, _⟩ := cpd
  obtain ⟨_, ost, oct, _, _, _⟩ := opt
  cases cst <;> cases cct <;> cases ost <;> cases oct <;> simp

/-- `connector.getPermessageDeflate` = `Nego.clientGetPD`: the client takes takeover flags and window bits from the server's
response, keeps its own threshold, and `setThreshold(false)` is applied last -/
theorem client_getPD_eq (opt : Nego.PD) (extensions : Nego.Str) (level poolSize : Int) (ext : Hs.Str) :
    Trans.connector_getPermessageDeflate ext
        (c_option_PermessageDeflate_Enabled := opt.enabled)
        (c_option_PermessageDeflate_Level := level) (c_option_PermessageDeflate_PoolSize := poolSize)
        (c_option_PermessageDeflate_Threshold := opt.threshold)
        (serverPD_ClientContextTakeover := (Nego.permessageNegotiation extensions).clientTakeover)
        (serverPD_ClientMaxWindowBits := (Nego.permessageNegotiation extensions).clientBits)
        (serverPD_ServerContextTakeover := (Nego.permessageNegotiation extensions).serverTakeover)
        (serverPD_ServerMaxWindowBits := (Nego.permessageNegotiation extensions).serverBits)
        (offered := Nego.contains extensions Nego.pmd)
      = ((Nego.clientGetPD opt extensions).enabled, level, (Nego.clientGetPD opt extensions).threshold, poolSize,
         (Nego.clientGetPD opt extensions).serverTakeover, (Nego.clientGetPD opt extensions).clientTakeover,
         (Nego.clientGetPD opt extensions).serverBits, (Nego.clientGetPD opt extensions).clientBits) := by
  unfold Trans.connector_getPermessageDeflate Trans.PermessageDeflate_setThreshold Nego.clientGetPD Nego.setThreshold
  generalize Nego.permessageNegotiation extensions = spd
  obtain ⟨_, sst, sct, _, _, _⟩ := spd
  cases sst <;> cases sct <;> simp

/-- after `initServerOption` the limits are positive, whatever the application configured -/
theorem initServerOption_limits_pos (r g rb w wb : Int) :
    ∃ g' rb' r' wb' w', Trans.initServerOption_limits (c_ReadMaxPayloadSize := r) (c_ParallelGolimit := g) (c_ReadBufferSize := rb)
        (c_WriteMaxPayloadSize := w) (c_WriteBufferSize := wb)
        = .ok (g', rb', r', wb', w') ∧ 0 < r' ∧ 0 < w' ∧ 0 < g'
      ∧ (0 < r → r' = r) ∧ (r ≤ 0 → r' = Facts.defaultReadMaxPayloadSize) := by
  unfold Trans.initServerOption_limits
  refine ⟨_, _, _, _, _, rfl, ?_, ?_, ?_, ?_, ?_⟩ <;> simp only [decide_eq_true_eq, Facts.defaultReadMaxPayloadSize] <;> split <;> omega

theorem initClientOption_limits_pos (r g rb w wb : Int) :
    ∃ g' rb' r' wb' w', Trans.initClientOption_limits (c_ReadMaxPayloadSize := r) (c_ParallelGolimit := g) (c_ReadBufferSize := rb)
        (c_WriteMaxPayloadSize := w) (c_WriteBufferSize := wb)
        = .ok (g', rb', r', wb', w') ∧ 0 < r' ∧ 0 < w' ∧ 0 < g'
      ∧ (0 < r → r' = r) ∧ (r ≤ 0 → r' = Facts.defaultReadMaxPayloadSize) := by
  unfold Trans.initClientOption_limits
  refine ⟨_, _, _, _, _, rfl, ?_, ?_, ?_, ?_, ?_⟩ <;> simp only [decide_eq_true_eq, Facts.defaultReadMaxPayloadSize] <;> split <;> omega

example : Trans.initServerOption_pd (c_PermessageDeflate_Enabled := true) (c_PermessageDeflate_ServerMaxWindowBits := 3)
    (c_PermessageDeflate_ClientMaxWindowBits := 20) (c_PermessageDeflate_Threshold := 0)
    (c_PermessageDeflate_Level := 0) (c_PermessageDeflate_PoolSize := 0)
    (c_PermessageDeflate_ServerContextTakeover := true) (c_PermessageDeflate_ClientContextTakeover := false)
    (poolSizePow2 := 32) = .ok (15, 1, 32, 12, 512) := by rfl
example : Trans.initServerOption_limits (c_ReadMaxPayloadSize := (-5)) (c_ParallelGolimit := 0) (c_ReadBufferSize := 0)
    (c_WriteMaxPayloadSize := 70000) (c_WriteBufferSize := 1) = .ok (8, 4096, 16777216, 1, 70000) := by rfl

end TransEquiv
