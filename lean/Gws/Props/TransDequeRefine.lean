import Gws.Props.TransDequeOps
import Gws.Props.C20
/-!
# C20 stated of the translated internal/deque.go

`Deque.ops_refine` (Gws/Props/C20.lean) says: every sequence of operations on a well-formed deque — pushes, pops, inserts,
moves, updates, removals, resets, ranges, clones — yields on the model exactly the observations of a plain list, and never
panics. Here the same run is executed by the functions **translated from the Go source on this run**
(`Gws/Generated/TransDeque.lean`): `TInst.step` is `MInst.step` with every operation of the API replaced by its translation
(`Range` and `Clone`, which the dialect does not translate, and the observation of the result stay the model's). The
runs coincide (`TState.run_eq`), so the refinement holds of the translated code (`translated_ops_refine`).
-/
namespace TransEquiv.Dq
open Deque TransDeque

/-- `MInst.step` with the translated functions -/
def TInst.step (x : MInst) (n : Nat) : Op → Option (MInst × List Nat)
  | .pushBack v => (Deque_PushBack x.d v).bind (x.created n)
  | .pushFront v => (Deque_PushFront x.d v).bind (x.created n)
  | .popFront => (Deque_PopFront x.d).map fun r => ({ x with d := r.1 }, [r.2])
  | .popBack => (Deque_PopBack x.d).map fun r => ({ x with d := r.1 }, [r.2])
  | .insertAfter v id => (Deque_InsertAfter x.d v (x.m id)).bind (x.created n)
  | .insertBefore v id => (Deque_InsertBefore x.d v (x.m id)).bind (x.created n)
  | .moveToFront id => (Deque_MoveToFront x.d (x.m id)).map fun d => ({ x with d := d }, [])
  | .moveToBack id => (Deque_MoveToBack x.d (x.m id)).map fun d => ({ x with d := d }, [])
  | .update id v => (Deque_Update x.d (x.m id) v).map fun d => ({ x with d := d }, [])
  | .remove id => (Deque_Remove x.d (x.m id)).map fun d => ({ x with d := d }, [])
  | .reset => (Deque_Reset x.d).map fun d => ({ x with d := d }, [])
  | .range k => (x.d.range (takeCb k) ([], 0)).map fun r => (x, r.1)
  | .clone => none
  | .use _ => none

theorem TInst.step_eq (x : MInst) (n : Nat) (op : Op) : TInst.step x n op = x.step n op := by
  cases op <;>
    simp [TInst.step, MInst.step, PushBack_eq, PushFront_eq, PopFront_eq, PopBack_eq, InsertAfter_eq, InsertBefore_eq,
      MoveToFront_eq, MoveToBack_eq, Update_eq, Remove_eq, Reset_eq]

/-- `MState.stepCur` / `step` / `run` over the translated operations -/
def TState.stepCur (st : MState) (op : Op) : Option (MState × Obs) :=
  match st.insts[st.cur]? with
  | none => none
  | some x =>
    match TInst.step x st.next op with
    | none => none
    | some (x', ret) =>
      (observe x'.d ret).map fun o =>
        ({ insts := st.insts.set st.cur x', cur := st.cur,
           next := st.next + (if op.creates then 1 else 0) }, o)

def TState.step (st : MState) : Op → Option (MState × Obs)
  | .clone =>
    match st.insts[st.cur]? with
    | none => none
    | some x =>
      (observe x.d []).map fun o => ({ st with insts := st.insts ++ [{ d := x.d.clone, m := x.m }] }, o)
  | .use k =>
    match st.insts[k]? with
    | none => none
    | some x => (observe x.d []).map fun o => ({ st with cur := k }, o)
  | op => TState.stepCur st op

def TState.run : MState → List Op → Option (List Obs)
  | _, [] => some []
  | st, op :: ops =>
    match TState.step st op with
    | none => none
    | some (st', o) => (TState.run st' ops).map (o :: ·)

theorem TState.stepCur_eq (st : MState) (op : Op) : TState.stepCur st op = st.stepCur op := by
  unfold TState.stepCur MState.stepCur
  cases st.insts[st.cur]? with
  | none => rfl
  | some x =>
    simp only [TInst.step_eq]
    cases x.step st.next op with
    | none => rfl
    | some r => cases r; rfl

theorem TState.step_eq (st : MState) (op : Op) : TState.step st op = st.step op := by
  cases op <;> first | rfl | exact TState.stepCur_eq st _

theorem TState.run_eq (st : MState) (ops : List Op) : TState.run st ops = st.run ops := by
  induction ops generalizing st with
  | nil => rfl
  | cons op ops ih =>
    simp only [TState.run, MState.run, TState.step_eq]
    cases st.step op with
    | none => rfl
    | some r => simp [ih]

/-- **C20 of the translated code**: whatever sequence of operations is executed with the translated functions on a
well-formed deque (e.g. the zero value), every call returns — no panic — and every observation (returned values, `Len`, the
values in `Range` order, `Front`, `Back`) is the one of a plain list. -/
theorem translated_ops_refine (d : Deque) (h : WF d []) (ops : List Op) (obs : List Obs)
    (hs : SState.init.run ops = some obs) : TState.run (MState.init d) ops = some obs := by
  rw [TState.run_eq]; exact ops_refine d h ops obs hs

theorem translated_ops_refine_zero (ops : List Op) (obs : List Obs) (hs : SState.init.run ops = some obs) :
    TState.run (MState.init zero) ops = some obs :=
  translated_ops_refine zero wf_zero ops obs hs

/-! non-vacuity: a run of the translated code, and the list run it equals -/
example : (TState.run (MState.init zero) [.pushBack 7, .pushFront 6, .moveToBack 1, .popFront, .reset, .pushBack 9]).map (·.map (·.seq))
    = some [[7], [6, 7], [7, 6], [6], [], [9]] := by decide +kernel
example : (SState.init.run [.pushBack 7, .pushFront 6, .moveToBack 1, .popFront, .reset, .pushBack 9]).map (·.map (·.seq))
    = some [[7], [6, 7], [7, 6], [6], [], [9]] := by decide +kernel

end TransEquiv.Dq
