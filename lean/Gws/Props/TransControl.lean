import Gws.Props.TransReader
import Gws.Props.TransClose
import Gws.Lemmas.WriterMask
/-!
# T3 — `readControl` after its guards (reader.go), translated from the source on every run, equals the model's
`Reader.readControl`

The callbacks (`OnPing`, `OnPong`) and `emitClose` are left uninterpreted by the translation; here they are
instantiated with constructors of `CtlR`, and `interpC` maps the outcome to what the model does.
-/
namespace TransEquiv

/-- what the translated segment does: callbacks in order, then a returned error value / `nil`, or `emitClose(body)` -/
inductive CtlR where
  | ret (e : Option GoErr)
  | close (body : Bytes)
  | ev (e : Reader.Ev) (next : CtlR)

abbrev CtlK := Except (Bytes × CtlR) Bytes

/-- a callback in statement position: the event is recorded in front of whatever follows -/
def ctlEv (mk : Bytes → Reader.Ev) (p : Bytes) (k : CtlK) : CtlK :=
  match k with
  | .error (br, r) => .error (br, .ev (mk p) r)
  | .ok x => .ok x

/-- what the model does with the outcome (`br` = the unread input afterwards) -/
def interpC (cfg : Reader.Cfg) (st : Reader.State) : CtlK → Reader.Step
  | .ok _ => .stop [] (.panic "the segment always returns")
  | .error (br, .ev e (.ret none)) => .ok st [e] br
  | .error (_, .close body) => .stop [] (.peerClose (Close.emitClose cfg.checkUtf8 body))
  | .error (_, .ret (some (.coded c))) => .stop [] (.err (.coded c.toNat))
  | .error (_, .ret (some .io)) => .stop [] Reader.ioErr
  | .error (_, _) => .stop [] (.panic "unexpected outcome")

private theorem goCopy_full (p q : Bytes) (h : q.length = p.length) : goCopy p 0 q = q := by
  unfold goCopy; simp [← h]

private theorem maskXOR_key (key p : Bytes) (hk : key.length = 4) : goMaskXOR p key = Reader.unmask key p := by
  match key, hk with
  | [a, b, c, d], _ =>
    rw [Writer.unmask_eq_xorKey]
    unfold goMaskXOR Writer.xorKey
    simp only
    apply List.ext_getElem
    · simp
    · intro i h1 h2
      simp only [List.getElem_mapIdx]
      congr 1
      have : i % 4 < 4 := Nat.mod_lt _ (by omega)
      generalize i % 4 = j at this
      match j, this with
      | 0, _ => rfl
      | 1, _ => rfl
      | 2, _ => rfl
      | 3, _ => rfl

/-- the dispatch on the opcode, common to both branches -/
private theorem dispatch_eq (cfg : Reader.Cfg) (st : Reader.State) (op : UInt8) (p br : Bytes) :
    interpC cfg st
      (if (op == (9 : UInt8)) then ctlEv Reader.Ev.ping p (Except.error (br, CtlR.ret none))
       else if (op == (10 : UInt8)) then ctlEv Reader.Ev.pong p (Except.error (br, CtlR.ret none))
       else if (op == (8 : UInt8)) then Except.error (br, CtlR.close p)
       else Except.error (br, CtlR.ret (some (GoErr.coded (1002 : UInt16)))))
      = (if op.toNat = Facts.opPing then .ok st [.ping p] br
         else if op.toNat = Facts.opPong then .ok st [.pong p] br
         else if op.toNat = Facts.opClose then .stop [] (.peerClose (Close.emitClose cfg.checkUtf8 p))
         else .stop [] (.err (.coded Facts.closeProtocolError))) := by
  simp only [u8_beq, Facts.opPing, Facts.opPong, Facts.opClose, Facts.closeProtocolError]
  by_cases e1 : op.toNat = 9
  · simp [e1, ctlEv, interpC]
  · by_cases e2 : op.toNat = 10
    · simp [e2, ctlEv, interpC]
    · by_cases e3 : op.toNat = 8
      · simp [e3, interpC]
      · simp [e1, e2, e3, interpC]

/-- `readControl` behind its guards = `Reader.readControl`.  `fh` is the header array after `Parse` (`Parse_eq`):
its first two bytes are those of `h`, and bytes 10..13 are the mask key when the mask bit is set; `n` is the length code
the guards computed (`readControl_guards_eq`). -/
theorem readControl_body_eq (cfg : Reader.Cfg) (st : Reader.State) (h : Frame.Hdr) (fh rest : Bytes)
    (hlen : fh.length = 14) (h0 : (goIdx fh 0).toNat = h.b0) (h1 : (goIdx fh 1).toNat = h.b1)
    (hkey : Frame.getMask h.b1 = true → (fh.drop 10).take 4 = h.key) (hk4 : Frame.getMask h.b1 = true → h.key.length = 4)
    (hfin : Frame.getFIN h.b0 = true) (hn : Frame.getLengthCode h.b1 ≤ Facts.thresholdV1) :
    interpC cfg st
      (Trans.Conn_readControl_body CtlR.ret (ctlEv Reader.Ev.ping) (ctlEv Reader.Ev.pong) CtlR.close rest fh
        (Trans.frameHeader_GetLengthCode fh))
      = Reader.readControl cfg st h rest := by
  have _ := hlen
  have hn8 : (Trans.frameHeader_GetLengthCode fh).toNat = Frame.getLengthCode h.b1 := by rw [GetLengthCode_eq, h1]
  have hop : (Trans.frameHeader_GetOpcode fh).toNat = Frame.getOpcode h.b0 := by rw [GetOpcode_eq, h0]
  have hmk : Trans.frameHeader_GetMask fh = Frame.getMask h.b1 := by rw [GetMask_eq, h1]
  have hn' : ¬ (Frame.getLengthCode h.b1 > Facts.thresholdV1) := by omega
  unfold Trans.Conn_readControl_body Reader.readControl
  simp only [hfin, Bool.not_true, Bool.false_eq_true, if_false, hn', ← hop, hmk]
  rw [← hn8]
  generalize Trans.frameHeader_GetLengthCode fh = n
  by_cases hz : n.toNat = 0
  · have hz' : ¬ (n > (0 : UInt8)) := by
      simp only [gt_iff_lt, UInt8.lt_iff_toNat_lt]; simp [hz]
    simp only [hz', decide_false, Bool.false_eq_true, if_false, dispatch_eq, hz]
    simp
  · have hz' : n > (0 : UInt8) := by
      simp only [gt_iff_lt, UInt8.lt_iff_toNat_lt]; simp; omega
    have hpos : n.toNat > 0 := by omega
    simp only [hz', decide_true, if_true, List.length_replicate, goReadN]
    by_cases hr : rest.length < n.toNat
    · simp [hr, interpC]
    · have hl : (rest.take n.toNat).length = n.toNat := by simp; omega
      simp only [hr, if_false, hpos, true_and]
      have hc : goCopy (List.replicate n.toNat (0 : UInt8)) 0 (rest.take n.toNat) = rest.take n.toNat :=
        goCopy_full _ _ (by simp [hl])
      simp only [hc]
      cases hm : Frame.getMask h.b1
      · simp only [Bool.false_eq_true, if_false, dispatch_eq]
      · have hkey' : Trans.frameHeader_GetMaskKey fh = h.key := by
          rw [← hkey hm]; unfold Trans.frameHeader_GetMaskKey
          simp [List.take_drop]
        simp only [if_true, List.drop_zero, hkey', maskXOR_key _ _ (hk4 hm)]
        rw [goCopy_full _ _ (by simp)]
        simp only [dispatch_eq]

end TransEquiv
