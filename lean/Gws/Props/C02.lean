import Gws.Model.Session
import Gws.Props.C17
/-!
# C02 — the permessage-deflate context stays in sync (bookkeeping part)

Statement: when permessage-deflate is negotiated, every compressed message gws emits inflates to the
original payload under the RFC 7692 receiver algorithm with the negotiated parameters: the LZ77
history is exactly the payloads of the earlier compressed messages of that direction when that
direction keeps context (empty otherwise), and no back-reference reaches further than
2^max_window_bits bytes.  This holds after any history of interleaved traffic […].

This file proves the *bookkeeping*: after every operation sequence — data messages above and below
the threshold, control frames with payloads, broadcast frames built compressed or not, streamed
files, in any order — the sender's compression window and the receiver's decompression window are
both exactly the last 2^bits bytes of the RFC 7692 history of the direction, or both empty without
context takeover.  Hence the dictionary the sender compresses against is always a suffix of the
history an RFC 7692 receiver holds, which is the premise of the DEFLATE library law (`Codec` L2:
output inflates against any history the dictionary is a suffix of, with distances ≤ 2^bits).  That law
about klauspost/flate is sampled (suites `write`, `sess`: every compressed frame the real gws emits
is inflated by the Lean RFC 1951 inflater against the unbounded history), not proved.
`Spec.Inflate.bounded_window_suffices` (Gws/Props/C02Inflate.lean, if present) is the receiver half.
-/

namespace Session

/-- writing the chunks of a file one by one leaves the same window as writing the whole payload -/
theorem foldl_write_eq (w : Win) (cs : List Bytes) (he : w.enabled = true) (hinv : w.dict.length ≤ w.size) :
    cs.foldl Win.write w = w.write cs.flatten := by
  have h1 := Win.writes_spec_from w cs he hinv
  have h2 := Win.write_spec w cs.flatten he hinv
  have h3 := Win.write_frame w cs.flatten
  cases hA : cs.foldl Win.write w; cases hB : w.write cs.flatten
  simp only [hA, hB] at h1 h2 h3
  simp_all

theorem write_disabled (p : Bytes) : Win.disabled.write p = Win.disabled := by
  simp [Win.write, Win.disabled]

/-- sender and receiver apply the same update to equal windows that satisfy the C17 invariant -/
theorem send_recv_same (c : Cfg) (w : Win) (op : Op) (hw : w = Win.disabled ∨ (w.enabled = true ∧ w.dict.length ≤ w.size)) :
    sendUpdate c w op = recvUpdate c w op := by
  unfold sendUpdate recvUpdate
  split
  · cases op with
    | file cs =>
      simp only [Op.payload]
      rcases hw with rfl | ⟨he, hinv⟩
      · rw [Win.disabled_stays_empty, write_disabled]
      · exact foldl_write_eq w cs he hinv
    | data p => rfl
    | control p => rfl
    | bcast b p => rfl
  · rfl

/-- the invariant of a direction -/
structure InSync (c : Cfg) (s : St) : Prop where
  same : s.cps = s.dps
  on : c.enabled = true → c.takeover = true →
    s.cps.enabled = true ∧ s.cps.size = 2 ^ c.bits ∧ s.cps.dict = lastN (2 ^ c.bits) s.hist
  off : (c.enabled = false ∨ c.takeover = false) → s.cps = Win.disabled ∧ s.hist = []

theorem inSync_init (c : Cfg) : InSync c (St.init c) := by
  refine ⟨rfl, ?_, ?_⟩
  · intro he ht; simp [St.init, Cfg.winInit, he, ht, Win.init, lastN]
  · intro h; rcases h with h | h <;> simp [St.init, Cfg.winInit, h]

/-- one operation preserves the invariant -/
theorem inSync_step (c : Cfg) (s : St) (op : Op) (h : InSync c s) : InSync c (step c s op) := by
  obtain ⟨hsame, hon, hoff⟩ := h
  by_cases hk : c.enabled = true ∧ c.takeover = true
  · obtain ⟨he, hsz, hd⟩ := hon hk.1 hk.2
    have hinv : s.cps.dict.length ≤ s.cps.size := by rw [hd, hsz]; simp; omega
    have hsr := send_recv_same c s.cps op (Or.inr ⟨he, hinv⟩)
    refine ⟨?_, ?_, ?_⟩
    · show sendUpdate c s.cps op = recvUpdate c s.dps op
      rw [hsr, hsame]
    · intro _ _
      show (sendUpdate c s.cps op).enabled = true ∧ (sendUpdate c s.cps op).size = 2 ^ c.bits ∧
        (sendUpdate c s.cps op).dict = lastN (2 ^ c.bits) (histUpdate c s.hist op)
      rw [hsr]
      unfold recvUpdate histUpdate
      by_cases hc : c.compresses op = true
      · simp only [hc, ↓reduceIte, hk.2, Bool.and_self]
        have hf := Win.write_frame s.cps op.payload
        refine ⟨by rw [hf.1, he], by rw [hf.2, hsz], ?_⟩
        rw [Win.write_spec _ _ he hinv, hsz, hd, lastN_lastN_append]
      · have hc0 : c.compresses op = false := by simpa using hc
        simp only [hc0, Bool.false_eq_true, ↓reduceIte, Bool.false_and]
        exact ⟨he, hsz, hd⟩
    · intro h; rcases h with h | h <;> simp_all
  · have hor : c.enabled = false ∨ c.takeover = false := by
      by_cases he : c.enabled = true
      · right; cases ht : c.takeover <;> simp_all
      · left; simpa using he
    obtain ⟨hdis, hh⟩ := hoff hor
    have hsr := send_recv_same c s.cps op (Or.inl hdis)
    have hrecv : recvUpdate c Win.disabled op = Win.disabled := by
      unfold recvUpdate; split <;> simp [write_disabled]
    have hhist : histUpdate c s.hist op = [] := by
      unfold histUpdate
      rcases hor with h | h
      · have : c.compresses op = false := by cases op <;> simp [Cfg.compresses, h]
        simp [this, hh]
      · simp [h, hh]
    refine ⟨?_, ?_, ?_⟩
    · show sendUpdate c s.cps op = recvUpdate c s.dps op
      rw [hsr, hsame]
    · intro he ht; exact absurd ⟨he, ht⟩ hk
    · intro _
      show sendUpdate c s.cps op = Win.disabled ∧ histUpdate c s.hist op = []
      rw [hsr, hdis, hrecv]; exact ⟨rfl, hhist⟩

/-- **C02, windows in sync.** After any sequence of operations of a direction — any interleaving of
data messages (above or below the threshold), control frames carrying payloads, broadcast frames
built compressed or uncompressed, and streamed files — the sender's compression window equals the
receiver's decompression window, and under context takeover both are exactly the last `2^bits` bytes
of the concatenated payloads of the compressed messages so far; otherwise both are empty. -/
theorem windows_in_sync (c : Cfg) (ops : List Op) : InSync c (ops.foldl (step c) (St.init c)) := by
  suffices ∀ s, InSync c s → InSync c (ops.foldl (step c) s) from this _ (inSync_init c)
  induction ops with
  | nil => intro s h; exact h
  | cons op ops ih => intro s h; exact ih _ (inSync_step c s op h)

/-- **The history is the compressed payloads, in order** (what RFC 7692 §7.2.2 prescribes). -/
theorem hist_is_compressed_payloads (c : Cfg) (s : St) (ops : List Op) (ht : c.takeover = true) :
    (ops.foldl (step c) s).hist = s.hist ++ (ops.filter c.compresses).flatMap Op.payload := by
  induction ops generalizing s with
  | nil => simp
  | cons op ops ih =>
    simp only [List.foldl_cons]
    rw [ih]
    simp only [step, histUpdate, ht, Bool.and_true, List.filter_cons]
    by_cases hc : c.compresses op = true <;> simp [hc, List.append_assoc]

/-- **The sender's dictionary is always a suffix of the RFC 7692 history** (or empty), of length at
most `2^bits`: exactly the premise under which the DEFLATE law says the emitted message inflates to
the payload under an unbounded-history receiver with distances ≤ 2^bits. -/
theorem send_dict_suffix (c : Cfg) (ops : List Op) (op : Op) :
    ((ops.foldl (step c) (St.init c)).sendDict op) <:+ (ops.foldl (step c) (St.init c)).hist ∧
    ((ops.foldl (step c) (St.init c)).sendDict op).length ≤ 2 ^ c.bits := by
  have hs := windows_in_sync c ops
  cases op with
  | bcast b p => exact ⟨List.nil_suffix, by simp [St.sendDict]⟩
  | data p | control p | file cs =>
    simp only [St.sendDict]
    by_cases hk : c.enabled = true ∧ c.takeover = true
    · obtain ⟨_, _, hd⟩ := hs.on hk.1 hk.2
      rw [hd]
      exact ⟨List.drop_suffix _ _, by simp; omega⟩
    · have hor : c.enabled = false ∨ c.takeover = false := by
        by_cases he : c.enabled = true
        · right; cases ht : c.takeover <;> simp_all
        · left; simpa using he
      rw [(hs.off hor).1]; simp [Win.disabled]

-- non-vacuity: a Ping payload does not enter the window; a broadcast built uncompressed neither
example : (([Op.control [1,2,3], .data [4,5], .bcast false [6], .bcast true [7], .file [[8],[9]]] : List Op).foldl
    (step ⟨true, true, 3, 512⟩) (St.init ⟨true, true, 3, 512⟩)).cps.dict = [4,5,7,8,9] := by decide

end Session
