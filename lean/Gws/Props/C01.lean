import Gws.Lemmas.ComposeSeq
import Gws.Props.C03
import Gws.Props.C05
import Gws.Props.C15
/-!
# C01 — end-to-end message fidelity, exactly-once delivery and ordering (composition theorem)

Statement (properties.jsonl): every text or binary message sent on an open connection through any
write API (plain, vectored, asynchronous, streamed from a reader, broadcast), in either direction and
under any negotiated configuration, with a payload from empty up to both endpoints' size limits, is
handed to the receiver's message handler exactly once with the same opcode and byte-identical
payload.  With sequential handling, messages are delivered in the order they went onto the wire, and
messages queued by one goroutine through the asynchronous API go onto the wire in queueing order.

This file composes the WRITE model (`Writer`, C05) with the READ model (`Reader`, C03) of the peer:
the bytes the sender's calls hand to the transport (`Compose.runCalls`, Model/Compose.lean) are fed
to the peer's `ReadLoop` (`Reader.readLoop`).  Setting (`Compose.Compatible`): receiver of the
OPPOSITE role, the same negotiated extension on both sides, one shared `Codec`; mask keys are
universally quantified 4-byte inputs; `ReadMaxPayloadSize < 2^63` (a Go `int`).

"Exactly once, same opcode, byte-identical, in order" is ONE equation in every theorem: the list of
callbacks the loop delivers EQUALS the list of events the application asked for (`Send.event`), in
call order; the loop then waits for more input (`ending = .err .other`, the model's end of stream),
i.e. nothing was rejected and every byte was consumed.

Laws of the DEFLATE library are named hypotheses on the `Codec` parameter, never axioms:
* `Compose.RoundTrip`  — compress-then-inflate with the SAME dictionary is the identity;
* `Compose.MinOut`     — a sync flush emits at least four bytes (C05's L1: it ends `00 00 ff ff`);
* `Compose.DictFree`   — (broadcast only) a stream compressed without dictionary inflates to the
                          same bytes under any preset dictionary.
`Compose.tagCodec` satisfies the first two (proved), with an output that DEPENDS on the dictionary.

What the hypotheses say about the limits (`Compose.Send.OkPlain` / `Compose.Send.Ok`):
* payload ≤ sender's `WriteMaxPayloadSize` and ≤ receiver's `ReadMaxPayloadSize`; Text valid UTF-8
  wherever an endpoint checks it (a receiver that checks answers invalid text with 1007: C03);
* for a COMPRESSED message also the compressed size ≤ `ReadMaxPayloadSize`: the receiver applies
  the limit to each frame length and to the reassembled compressed message BEFORE inflating
  (reader.go), so a payload just below the limit that DEFLATE expands is refused with 1009 although
  it is "within both endpoints' limits" — the C01 statement holds for compressed traffic only with
  this extra condition; and (streamed, compressed) the compressor's output ≤ `WriteMaxPayloadSize`
  (the hypothesis of C05's `writeFile_frames_compressed`).

NOT covered by theorems here (clauses of C01 that stay sampled by the harness):
* parallel handling (`ParallelEnabled`): delivery is then a multiset, the model's dispatch is
  sequential;
* real scheduling: that a call's transport writes are contiguous on the wire (they happen under
  `c.mu`: `Facts.doWriteLocks`, `Facts.doWriteFileLocks`, C07/C08), that the transport is a reliable
  ordered byte stream, and that a goroutine's program order is the order of its `Push` critical
  sections are the modelling assumptions behind `runCalls` and `async_fifo`;
* broadcast frame SHARING between connections is a sender-side fact (C05/C02); here a broadcast is
  the call `Send.bcast` whose frame was built under another connection's configuration and window,
  and its delivery IS proved (compressed: under `DictFree`);
* Close frames and the error paths (C04, C06, C13), writes racing with a close (C07–C09).
-/

namespace C01
open Compose

/-! ## 1. One data frame -/

/-- **An uncompressed data frame is delivered.**  Whatever `genFrame` builds on its uncompressed
branch for a final (`fin`) Text or Binary frame — any frame configuration (plain, vectored,
broadcast), any slices, any 4-byte key, either role — a peer of the opposite role whose limit admits
the payload, whose UTF-8 gate (if on) it passes, and which is not in the middle of a fragmented
message, turns in ONE `readMessage` into exactly one callback with the same opcode and the
byte-identical payload; its state is unchanged and the input is consumed up to the frame's end. -/
theorem frame_delivered (w : Writer.Cfg) (r : Reader.Cfg) (codec : Codec)
    (hrole : r.isServer = !w.isServer) (hint : r.readMax < 2 ^ 63)
    (cps : Win) (opcode : Nat) (payloads : List Bytes) (fc : Writer.FrameCfg) (key wire : Bytes)
    (hk : key.length = 4) (hop : opcode = 1 ∨ opcode = 2) (hfin : fc.fin = true)
    (hz : Writer.willCompress w fc opcode payloads.flatten.length = false)
    (hg : Writer.genFrame w codec cps opcode payloads fc key = .ok wire)
    (hfit : (payloads.flatten.length : Int) ≤ r.readMax)
    (htext : r.checkUtf8 = true → opcode = 1 → Spec.Utf8.valid payloads.flatten = true)
    (st : Reader.State) (hidle : st.cont.initialized = false) (rest : Bytes) :
    Reader.step r codec st (wire ++ rest) = .ok st [.msg opcode payloads.flatten] rest := by
  obtain ⟨henc, hle⟩ := Writer.genFrame_ok_inv hg
  rw [Writer.genFrame_plain w codec cps opcode payloads fc key hk henc hle hz] at hg
  injection hg with hg
  subst hg
  rw [hfin]
  exact step_msg_plain r codec st w.isServer opcode payloads.flatten key rest hrole hint hop hk hfit htext hidle

/-- **A compressed data frame is delivered** when the receiver's window holds the dictionary the
sender compressed against (law `RoundTrip`; `MinOut`): one callback with the same opcode and the
byte-identical payload, and the payload enters the receiver's window. -/
theorem frame_delivered_compressed (w : Writer.Cfg) (r : Reader.Cfg) (codec : Codec)
    (hrole : r.isServer = !w.isServer) (hint : r.readMax < 2 ^ 63) (hpd : r.pdEnabled = true)
    (hRT : RoundTrip codec) (hMin : MinOut codec)
    (cps : Win) (opcode : Nat) (payloads : List Bytes) (fc : Writer.FrameCfg) (key wire : Bytes)
    (hk : key.length = 4) (hop : opcode = 1 ∨ opcode = 2) (hfin : fc.fin = true) (hnb : fc.broadcast = false)
    (hz : Writer.willCompress w fc opcode payloads.flatten.length = true)
    (hg : Writer.genFrame w codec cps opcode payloads fc key = .ok wire)
    (hfit : (payloads.flatten.length : Int) ≤ r.readMax)
    (hzfit : ((Writer.stripTail (codec.compress w.bits cps.dict payloads)).length : Int) ≤ r.readMax)
    (htext : r.checkUtf8 = true → opcode = 1 → Spec.Utf8.valid payloads.flatten = true)
    (st : Reader.State) (hidle : st.cont.initialized = false) (hdict : cps.dict = st.dps.dict) (rest : Bytes) :
    Reader.step r codec st (wire ++ rest) =
      .ok { st with dps := st.dps.write payloads.flatten } [.msg opcode payloads.flatten] rest := by
  obtain ⟨henc, hle⟩ := Writer.genFrame_ok_inv hg
  have hge := stripTail_length_ge (codec.compress w.bits cps.dict payloads)
  rw [Writer.genFrame_compressed w codec cps opcode payloads fc key hk henc hle hz (hMin _ _ _)
    (by simp only [hnb, Bool.false_eq_true, ↓reduceIte]; omega)] at hg
  injection hg with hg
  subst hg
  simp only [hfin, hnb, Bool.false_eq_true, ↓reduceIte]
  refine step_msg_compressed r codec st w.isServer opcode _ payloads.flatten key rest hrole hint hpd hop hk hzfit ?_
    htext hidle
  rw [← hdict]
  exact hRT w.bits cps.dict payloads r.readMax hfit

/-! ## 2. Control frames -/

/-- **A Ping/Pong is delivered and does not disturb reassembly.**  A Ping or Pong frame built by
`genFrame` with at most 125 bytes of payload is delivered in one `readMessage` as `.ping p` /
`.pong p` with the byte-identical payload, in EVERY reader state `st` — idle or holding the
fragments of an unfinished message — and `st` (continuation buffer, window) is returned unchanged:
control frames interleaved with the fragments of a message do not affect it. -/
theorem control_delivered (w : Writer.Cfg) (r : Reader.Cfg) (codec : Codec)
    (hrole : r.isServer = !w.isServer)
    (cps : Win) (opcode : Nat) (payloads : List Bytes) (fc : Writer.FrameCfg) (key wire : Bytes)
    (hk : key.length = 4) (hop : opcode = 9 ∨ opcode = 10) (hfin : fc.fin = true)
    (hg : Writer.genFrame w codec cps opcode payloads fc key = .ok wire)
    (h125 : payloads.flatten.length ≤ 125) (hfit : (payloads.flatten.length : Int) ≤ r.readMax)
    (st : Reader.State) (rest : Bytes) :
    Reader.step r codec st (wire ++ rest) =
      .ok st [if opcode = 9 then .ping payloads.flatten else .pong payloads.flatten] rest := by
  obtain ⟨henc, hle⟩ := Writer.genFrame_ok_inv hg
  have hz : Writer.willCompress w fc opcode payloads.flatten.length = false := by
    have : ¬ opcode ≤ Facts.dataFrameMaxOpcode := by simp [Facts.dataFrameMaxOpcode]; omega
    simp [Writer.willCompress, this]
  rw [Writer.genFrame_plain w codec cps opcode payloads fc key hk henc hle hz] at hg
  injection hg with hg
  subst hg
  rw [hfin]
  exact step_controlFrame r codec st w.isServer opcode payloads.flatten key rest hrole hop hk h125 hfit

/-! ## 3. A streamed message -/

/-- **Plain `WriteFile` is reassembled into one message.**  For every reader script (any chunking,
empty reads, EOF with or after the last data) whose chunks respect the sender's limit and whose
total respects the receiver's: the call succeeds without touching the connection state, and the
peer's loop, started idle on exactly the bytes written, delivers ONE callback — the message's opcode
with all chunks concatenated — and then waits for input.  More generally (`∀ rest`) the loop on
those bytes followed by anything delivers that callback first and continues, idle again and with
its window untouched, on what follows. -/
theorem file_delivered (w : Writer.Cfg) (r : Reader.Cfg) (codec : Codec) (hc : Compatible w r)
    (hpd : w.pdEnabled = false)
    (cst : Writer.Conn) (hopen : cst.closed = false)
    (opcode : Nat) (hop : opcode = 1 ∨ opcode = 2) (reads : Writer.ReaderScript) (outs : List Bytes) (keys : Nat → Bytes)
    (hkeys : ∀ i, (keys i).length = 4) (heof : (Writer.readChunks reads).2 = true)
    (hchunk : ∀ c ∈ (Writer.readChunks reads).1, c.length ≤ w.writeMax)
    (hfit : ((Writer.readChunks reads).1.flatten.length : Int) ≤ r.readMax)
    (htext : r.checkUtf8 = true → opcode = 1 → Spec.Utf8.valid (Writer.readChunks reads).1.flatten = true)
    (st : Reader.State) (hidle : st.cont.initialized = false) :
    let o := Writer.writeFile w codec cst opcode reads outs keys
    o.err = none ∧ o.st = cst ∧
    Reader.readLoop r codec st o.wire =
      { evs := [.msg opcode (Writer.readChunks reads).1.flatten], ending := .err .other } ∧
    ∃ st' : Reader.State, st'.cont.initialized = false ∧ st'.dps = st.dps ∧ ∀ rest,
      Reader.readLoop r codec st (o.wire ++ rest) =
        { evs := .msg opcode (Writer.readChunks reads).1.flatten :: (Reader.readLoop r codec st' rest).evs,
          ending := (Reader.readLoop r codec st' rest).ending } := by
  intro o
  have hop16 : opcode < 16 := by omega
  have ho : o = _ := Writer.writeFile_plain_eq w codec cst opcode reads outs keys hop16 hkeys hopen hpd heof hchunk
  obtain ⟨c', hc', hrun⟩ := runs_fileFrames w r codec opcode keys hc.role hc.ext hc.int hkeys hop reads st st.dps
    (.msg opcode (Writer.readChunks reads).1.flatten) heof hidle hfit (fun c => by
      rw [hpd]
      exact emitMessage_plain r codec _ opcode _ (checkEncoding_of_textOk hop htext))
  clear_value o
  subst ho
  refine ⟨rfl, rfl, (hrun []).readLoop_all, { cont := c', dps := st.dps }, hc', rfl, fun rest => ?_⟩
  rw [(hrun rest).readLoop]
  rfl

/-! ## 4. Any sequence of calls, no compression -/

/-- **C01, main theorem (no permessage-deflate).**  Take ANY list of calls on an open connection —
each a data message through a single-frame API (`WriteMessage`, `WriteString`, `Writev`, the
dequeued `WriteAsync`/`WritevAsync`), a Ping or Pong with a payload, a plain `WriteFile` with any
reader chunking, or a `Broadcast` of a frame built under another connection — each within the limits
of both endpoints (`Send.OkPlain`) and with 4-byte keys.  Then every call returns no error, the
connection stays open, and the peer's `ReadLoop`, started in any idle state on the concatenation of
what the calls wrote, delivers EXACTLY the list of the corresponding events: one callback per call,
with that call's opcode and byte-identical payload, in call (= wire) order — nothing lost,
duplicated, reordered or altered — and then waits for more input. -/
theorem sequence_fidelity (w : Writer.Cfg) (r : Reader.Cfg) (codec : Codec) (hc : Compatible w r)
    (hpd : w.pdEnabled = false) (calls : List Call)
    (hok : ∀ c ∈ calls, (∀ i, (c.keys i).length = 4) ∧ c.send.OkPlain w r)
    (cst : Writer.Conn) (hopen : cst.closed = false)
    (rst : Reader.State) (hidle : rst.cont.initialized = false) :
    let s := runCalls w codec cst calls
    s.errs = [] ∧ s.st.closed = false ∧
    Reader.readLoop r codec rst s.wire = { evs := calls.map (·.send.event), ending := .err .other } := by
  intro s
  have hno : ¬ w.pdEnabled = true := by simp [hpd]
  obtain ⟨h1, h2, rst', _, _, hrun⟩ := sequence_delivered w r codec hc (fun h => absurd h hno) (fun h => absurd h hno)
    calls (fun _ _ h => absurd h hno) cst rst hopen hidle (fun h => absurd h hno)
    (okPlain_admissible w r codec hpd calls hok cst)
  exact ⟨h1, h2, (hrun []).readLoop_all⟩

/-- **… for every continuation and every cut of the byte stream.**  Under the hypotheses of
`sequence_fidelity`: (a) whatever bytes follow on the connection, the loop first delivers exactly
the expected events and then continues from an idle state on what follows (so the theorem composes
with later traffic); (b) for every way of cutting the stream after some prefix `b₁` (every
splitting of the byte stream into reads: the loop has seen `b₁` so far), what has been delivered by
then is a prefix of the expected event list — C03's `prefix_monotone`: delivery is incremental and
never retracted. -/
theorem sequence_fidelity_stream (w : Writer.Cfg) (r : Reader.Cfg) (codec : Codec) (hc : Compatible w r)
    (hpd : w.pdEnabled = false) (calls : List Call)
    (hok : ∀ c ∈ calls, (∀ i, (c.keys i).length = 4) ∧ c.send.OkPlain w r)
    (cst : Writer.Conn) (hopen : cst.closed = false)
    (rst : Reader.State) (hidle : rst.cont.initialized = false) :
    let s := runCalls w codec cst calls
    (∃ rst' : Reader.State, rst'.cont.initialized = false ∧ ∀ rest,
      Reader.readLoop r codec rst (s.wire ++ rest) =
        { evs := calls.map (·.send.event) ++ (Reader.readLoop r codec rst' rest).evs,
          ending := (Reader.readLoop r codec rst' rest).ending }) ∧
    (∀ b₁ b₂, s.wire = b₁ ++ b₂ → (Reader.readLoop r codec rst b₁).evs <+: calls.map (·.send.event)) := by
  intro s
  have hno : ¬ w.pdEnabled = true := by simp [hpd]
  obtain ⟨_, _, rst', hidle', _, hrun⟩ := sequence_delivered w r codec hc (fun h => absurd h hno) (fun h => absurd h hno)
    calls (fun _ _ h => absurd h hno) cst rst hopen hidle (fun h => absurd h hno)
    (okPlain_admissible w r codec hpd calls hok cst)
  refine ⟨⟨rst', hidle', fun rest => (hrun rest).readLoop⟩, fun b₁ b₂ hcut => ?_⟩
  have hall : Reader.readLoop r codec rst s.wire = { evs := calls.map (·.send.event), ending := .err .other } :=
    (hrun []).readLoop_all
  have := Reader.prefix_monotone r codec rst b₁ b₂
  rw [← hcut, hall] at this
  exact this

/-! ## 5. Any sequence of calls, permessage-deflate negotiated -/

/-- **C01, main theorem (permessage-deflate negotiated)**, for a sender WITH context takeover (its
window enabled, threshold 0) or WITHOUT (window disabled, any threshold): the statement only needs
the two windows to be equal and to satisfy the C17 invariant when the sequence starts.  Take any
list of calls — data messages below the threshold (sent uncompressed) or above it (compressed
against the sender's current window), Pings/Pongs with payloads, `WriteFile` calls (compressed and
cut into frames by the aggregator, for every cutting `outs` of the library's output), broadcasts —
each admissible WHEN IT IS MADE (`Admissible` threads the sender's state; for compressed messages
the compressed size has to respect the receiver's limit too, see the header).  Under the library
law `RoundTrip` (and `MinOut`; `DictFree` if the sequence contains a broadcast): every call returns
no error, the connection stays open, the peer's loop delivers EXACTLY one callback per call with
the same opcode and the byte-identical (inflated) payload, in call order, then waits for input;
and afterwards the two windows are equal again (the invariant `sender.cps = receiver.dps` that makes
`RoundTrip` applicable to every message of the sequence: `Writer.doWrite_window` / C02 on the
sender side, `emitMessage` on the receiver side, C17 for chunk-wise versus whole-payload updates). -/
theorem sequence_fidelity_compressed (w : Writer.Cfg) (r : Reader.Cfg) (codec : Codec) (hc : Compatible w r)
    (hpd : w.pdEnabled = true)
    (hRT : RoundTrip codec) (hMin : MinOut codec) (calls : List Call)
    (hDF : (∃ c ∈ calls, c.send.isBcast = true) → DictFree codec)
    (cst : Writer.Conn) (hopen : cst.closed = false)
    (rst : Reader.State) (hidle : rst.cont.initialized = false)
    (hsync : cst.cps = rst.dps) (hwin : cst.cps.enabled = true → cst.cps.dict.length ≤ cst.cps.size)
    (hadm : Admissible w r codec cst calls) :
    let s := runCalls w codec cst calls
    s.errs = [] ∧ s.st.closed = false ∧
    Reader.readLoop r codec rst s.wire = { evs := calls.map (·.send.event), ending := .err .other } ∧
    ∃ rst' : Reader.State, rst'.cont.initialized = false ∧ s.st.cps = rst'.dps ∧ ∀ rest,
      Reader.readLoop r codec rst (s.wire ++ rest) =
        { evs := calls.map (·.send.event) ++ (Reader.readLoop r codec rst' rest).evs,
          ending := (Reader.readLoop r codec rst' rest).ending } := by
  intro s
  obtain ⟨h1, h2, rst', hidle', hs', hrun⟩ := sequence_delivered w r codec hc (fun _ => hRT) (fun _ => hMin)
    calls (fun c hcm _ hb => hDF ⟨c, hcm, hb⟩) cst rst hopen hidle (fun _ => ⟨hsync, hwin⟩) hadm
  exact ⟨h1, h2, (hrun []).readLoop_all, rst', hidle', (hs' hpd).1, fun rest => (hrun rest).readLoop⟩

/-- **… from the start of a session with negotiated parameters** (`Session.Cfg`: extension on,
this direction with or without context takeover, its window bits, the configured threshold — forced
to 0 under takeover): both ends start with the window `Session.Cfg.winInit`, so every admissible
call sequence made from the fresh connection is delivered exactly, in order. -/
theorem sequence_fidelity_negotiated (sc : Session.Cfg) (w : Writer.Cfg) (r : Reader.Cfg) (codec : Codec)
    (hc : Compatible w r) (hen : sc.enabled = true) (hpd : w.pdEnabled = sc.enabled)
    (hRT : RoundTrip codec) (hMin : MinOut codec) (calls : List Call)
    (hDF : (∃ c ∈ calls, c.send.isBcast = true) → DictFree codec)
    (hadm : Admissible w r codec { cps := sc.winInit } calls) :
    let s := runCalls w codec { cps := sc.winInit } calls
    s.errs = [] ∧ s.st.closed = false ∧
    Reader.readLoop r codec { dps := sc.winInit } s.wire = { evs := calls.map (·.send.event), ending := .err .other } := by
  intro s
  have hwin : sc.winInit.enabled = true → sc.winInit.dict.length ≤ sc.winInit.size := by
    unfold Session.Cfg.winInit
    split
    · exact winOk_init sc.bits
    · exact winOk_disabled
  obtain ⟨h1, h2, h3, _⟩ := sequence_fidelity_compressed w r codec hc (by rw [hpd, hen]) hRT hMin calls hDF
    { cps := sc.winInit } rfl { dps := sc.winInit } rfl rfl hwin hadm
  exact ⟨h1, h2, h3⟩

/-! ## 6. The asynchronous API -/

/-- **Asynchronous writes start in queueing order, one at a time** (C15 restated for gws's write
queue, `maxConcurrency = 1`: `Facts.writeQueueMaxConcurrency`).  In every reachable state of the
queue — after any interleaving of `Push`es by any goroutines with task completions — the tasks
handed to the worker so far are a prefix of the submitted ones IN SUBMISSION ORDER, none is skipped
or started twice (`submitted = started ++ q`), at most one is running, and letting the worker finish
starts all of them, still in submission order, with no further `Push`.  Each task of the write queue
performs one write call under `c.mu` (`WriteAsync` → `doWrite`), so the wire carries the calls'
frames in `started` order; and `submitted` is the order of the `Push` critical sections, which for
the pushes of ONE goroutine is its program order.  Hence messages queued by one goroutine through
the asynchronous API go onto the wire in queueing order. -/
theorem async_fifo (as : List TQ.Act) (s : TQ) (h : (TQ.init 1).run as = some s) :
    s.started <+: s.submitted ∧ s.submitted = s.started ++ s.q ∧ s.running.length ≤ 1 ∧
    (let d := TQ.drain (s.q.length + s.running.length) s
     d.started = s.submitted ∧ d.q = [] ∧ d.running = []) := by
  obtain ⟨h1, h2, _⟩ := TQ.fifo_exactly_once 1 (by omega) as s h
  obtain ⟨d1, d2, d3, _⟩ := TQ.drains 1 (by omega) as s h
  exact ⟨h2, h1, TQ.one_at_a_time as s h, d3, d1, d2⟩

/-- **Asynchronously queued messages are delivered in queueing order.**  `job j` is the write call
task `j` performs.  After any interleaving of submissions and completions, once the queue has
drained, the calls have run one at a time in the order `started` = `submitted`; so (no
compression; with it, use `sequence_fidelity_compressed` in the same way) the peer's loop delivers
exactly the events of the submitted tasks, each once, in submission order. -/
theorem async_delivery_order (w : Writer.Cfg) (r : Reader.Cfg) (codec : Codec) (hc : Compatible w r)
    (hpd : w.pdEnabled = false)
    (as : List TQ.Act) (s : TQ) (h : (TQ.init 1).run as = some s) (job : Nat → Call)
    (hok : ∀ j ∈ s.submitted, (∀ i, ((job j).keys i).length = 4) ∧ (job j).send.OkPlain w r)
    (cst : Writer.Conn) (hopen : cst.closed = false)
    (rst : Reader.State) (hidle : rst.cont.initialized = false) :
    let d := TQ.drain (s.q.length + s.running.length) s
    Reader.readLoop r codec rst (runCalls w codec cst (d.started.map job)).wire =
      { evs := s.submitted.map (fun j => (job j).send.event), ending := .err .other } := by
  intro d
  have hd : d.started = s.submitted := (TQ.drains 1 (by omega) as s h).2.2.1
  rw [hd]
  have := (sequence_fidelity w r codec hc hpd (s.submitted.map job)
    (fun c hcm => by
      obtain ⟨j, hj, rfl⟩ := List.mem_map.mp hcm
      exact hok j hj) cst hopen rst hidle).2.2
  simpa [List.map_map, Function.comp_def] using this

/-! ## Non-vacuity -/

-- what a server puts on the wire for the demo calls, byte for byte (encoding gate off so that the kernel can evaluate it)
example : (runCalls { Writer.demoCfg true false with checkUtf8 := false } Writer.demoCodec {} (demoCalls true)).wire =
    [0x81, 0x02, 0x68, 0x69,  0x89, 0x01, 0x07,  0x02, 0x01, 0x01,  0x00, 0x00,  0x80, 0x02, 0x02, 0x03,
     0x82, 0x01, 0x09,  0x8a, 0x00,  0x82, 0x00] := by decide

-- `sequence_fidelity` applies to them for BOTH roles (s = false: a client, every frame masked with its own key):
-- six calls, six callbacks, in order; the streamed message reassembled from three fragments
example (s : Bool) : Reader.readLoop (demoReader (!s) false) Writer.demoCodec {}
      (runCalls (Writer.demoCfg s false) Writer.demoCodec {} (demoCalls s)).wire =
    { evs := [.msg 1 [0x68, 0x69], .ping [7], .msg 2 [1, 2, 3], .msg 2 [9], .pong [], .msg 2 []], ending := .err .other } :=
  (sequence_fidelity (Writer.demoCfg s false) (demoReader (!s) false) Writer.demoCodec
    ⟨rfl, rfl, by show (1000 : Int) < 2 ^ 63; decide⟩ rfl (demoCalls s) (demoCalls_ok s) {} rfl {} rfl).2.2

-- `frame_delivered` for a client frame (hypotheses satisfiable with masking)
example (rest : Bytes) : ∃ wire, Writer.genFrame (Writer.demoCfg false false) Writer.demoCodec Win.disabled 2 [[1, 2], [3]]
      (Writer.msgCfg (Writer.demoCfg false false)) [9, 8, 7, 6] = .ok wire ∧
    Reader.step (demoReader true false) Writer.demoCodec {} (wire ++ rest) = .ok {} [.msg 2 [1, 2, 3]] rest := by
  have hg := Writer.genFrame_plain (Writer.demoCfg false false) Writer.demoCodec Win.disabled 2 [[1, 2], [3]]
    (Writer.msgCfg (Writer.demoCfg false false)) [9, 8, 7, 6] rfl (by decide) (by decide) (by decide)
  exact ⟨_, hg, frame_delivered (Writer.demoCfg false false) (demoReader true false) Writer.demoCodec rfl
    (by show (1000 : Int) < 2 ^ 63; decide) Win.disabled 2 [[1, 2], [3]] _ [9, 8, 7, 6] _ rfl (Or.inr rfl) rfl (by decide) hg
    (by show ((3 : Nat) : Int) ≤ 1000; decide) (by intro _ h; exact absurd h (by decide)) {} rfl rest⟩

-- a masked client frame read on concrete bytes (key 9 8 7 6, payload 1 2 3, one byte of the next frame behind it)
example : Reader.step (demoReader true false) Writer.demoCodec {} [0x82, 0x83, 9, 8, 7, 6, 8, 10, 4, 0xaa] =
    .ok {} [.msg 2 [1, 2, 3]] [0xaa] := by
  reader_eval [demoReader]
  decide

-- a Ping between two fragments leaves the fragments alone (`control_delivered` holds in every state)
example : Reader.step (demoReader false false) Writer.demoCodec
      { cont := { initialized := true, opcode := 2, buffer := [1] } } [0x89, 0x01, 0x07, 0x80, 0x00] =
    .ok { cont := { initialized := true, opcode := 2, buffer := [1] } } [.ping [7]] [0x80, 0x00] := by
  reader_eval [demoReader]

-- permessage-deflate with context takeover and the dictionary-sensitive toy library `tagCodec`
-- (laws proved: `tagCodec_roundTrip`, `tagCodec_minOut`): the bytes and the sender's window afterwards …
example : (runCalls zipW tagCodec { cps := Win.init 3 } zipCalls).wire =
    [0xc2, 0x04, 0, 1, 2, 3,  0x89, 0x01, 7,  0xc2, 0x03, 3, 0x68, 0x69,  0xc2, 0x04, 5, 4, 5, 6] ∧
    (runCalls zipW tagCodec { cps := Win.init 3 } zipCalls).st.cps.dict = [1, 2, 3, 0x68, 0x69, 4, 5, 6] := by
  decide

-- … and `sequence_fidelity_compressed` applies (`Admissible` is satisfiable: `zipCalls_adm`)
example : Reader.readLoop (demoReader false true) tagCodec { dps := Win.init 3 }
      (runCalls zipW tagCodec { cps := Win.init 3 } zipCalls).wire =
    { evs := [.msg 2 [1, 2, 3], .ping [7], .msg 2 [0x68, 0x69], .msg 2 [4, 5, 6]], ending := .err .other } :=
  (sequence_fidelity_compressed zipW (demoReader false true) tagCodec ⟨rfl, rfl, by decide⟩ rfl
    tagCodec_roundTrip tagCodec_minOut zipCalls (by simp [zipCalls, Send.isBcast]) { cps := Win.init 3 } rfl
    { dps := Win.init 3 } rfl rfl (by decide) zipCalls_adm).2.2.1

-- the in-sync hypothesis is not idle: the third message's frame read against the RIGHT window is delivered …
example : Reader.step (demoReader false true) tagCodec { dps := { Win.init 3 with dict := [1, 2, 3] } }
      [0xc2, 0x03, 3, 0x68, 0x69] =
    .ok { dps := { Win.init 3 with dict := [1, 2, 3, 0x68, 0x69] } } [.msg 2 [0x68, 0x69]] [] := by
  reader_eval [demoReader, tagCodec, Win.init]
-- … and against a window that missed the first message the library reports an error: closed with 1011
example : Reader.step (demoReader false true) tagCodec { dps := Win.init 3 } [0xc2, 0x03, 3, 0x68, 0x69] =
    .stop [] (.err (.coded 1011)) := by
  reader_eval [demoReader, tagCodec, Win.init]

-- the compressed-size condition of `Send.Ok` is not idle either: a 3-byte payload is within a limit of 3,
-- its 4-byte compressed form is not, and the receiver refuses the frame with 1009 before inflating
example : Reader.step { demoReader false true with readMax := 3 } tagCodec { dps := Win.init 3 } [0xc2, 0x04, 0, 1, 2, 3] =
    .stop [] (.err (.status 1009)) := by
  reader_eval [demoReader]

-- the asynchronous queue: pushes racing with a completion are started in submission order
example : ((TQ.init 1).run [.push 5, .push 6, .next 5, .push 7]).map (fun s => (s.started, s.q, s.submitted)) =
    some ([5, 6], [7], [5, 6, 7]) := by decide

end C01
