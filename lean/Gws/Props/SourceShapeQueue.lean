import Gws.Generated.Facts
/-!
# Source-shape obligations

The transition systems of C06–C09, C15 and C19 take one mutex critical section, one CAS and one
transport write as atomic actions.  Which statements form such a section is read off the Go source
by `tools/factgen` on every run (`Gws/Generated/Facts.lean`).  The theorems below assert, by
evaluation, that the regenerated facts are the ones the models were written for; when the source
changes shape (a lock dropped, a closed test moved out of the locked region, a second writer of the
closed flag, a new transport write site, a fast path around `getJob`) the corresponding theorem no
longer checks, the property's proof obligations are broken and the check searches for a failing
schedule.
-/

namespace SourceShape

/-- C15: every access to the queue state is inside `getJob`, which is one `Lock / defer Unlock`
region with the modelled body; `Push` and `do` only call `getJob`; both connection construction
sites use `maxConcurrency: 1`; `Conn.Async` is `c.writeQueue.Push(f)` and `WriteAsync`/`WritevAsync` consist of one
call of `c.Async` with a function literal (no path around the queue). -/
theorem taskqueue_sections :
    Facts.getJobLocks = true ∧ Facts.getJobBodyAsModelled = true ∧ Facts.pushIsGetJobThenSpawn = true ∧
    Facts.doLoopsGetJob = true ∧ Facts.queueStateTouchedBy = ["workerQueue.getJob"] ∧
    Facts.writeQueueMaxConcurrency = [1, 1] ∧ Facts.asyncApisOnlySubmit = true := by decide

end SourceShape
