import Gws.Generated.Facts
/-!
# Source-shape obligations

The transition systems of C06–C09, C15 and C19 take one mutex critical section, one CAS and one
transport write as atomic actions.  Which statements form such a section is read off the Go source
by `tools/factgen` on every run (`Gws/Generated/Facts.lean`).  The theorems below assert, by
evaluation, that the regenerated facts are the ones the models were written for; when the source
changes shape (a lock dropped, a closed test moved out of the locked region, a second writer of the
closed flag, a new transport write site, a fast path around `getJob`) the corresponding theorem no
longer checks, the property's proof obligations are broken and the check searches for a failing
schedule.
-/

namespace SourceShape

/-- C19: every method of the default session map is one locked section; every shard access of
`ConcurrentMap` is between that shard's `Lock` and `Unlock`. -/
theorem map_sections : Facts.smapLocks = true ∧ Facts.cmapShardLocks = true := by decide

/-- C19: the shard table of `ConcurrentMap` is assigned by the constructor only, so the lock an
operation resolved for its key is still the lock of that key's shard when it acquires it. -/
theorem shard_table_fixed : Facts.cmapShardTableFixed = true := by decide

end SourceShape
