import Gws.Model.Pool
/-! # `Pool.cap n ≥ n`: the buffer handed out by the pool is never shorter than the request -/
namespace Pool

/-- one smearing stage `w ||| (w >>> k)` on numbers below `2^31`: grows, and stays below `2^31` -/
theorem smear_stage (w k : Nat) (h : w < 2 ^ 31) :
    w ≤ w ||| (w >>> k) ∧ (w ||| (w >>> k)) < 2 ^ 31 :=
  ⟨Nat.left_le_or, Nat.or_lt_two_pow h (Nat.lt_of_le_of_lt (Nat.shiftRight_le _ _) h)⟩

/-- `binaryCeil` rounds up (no wrap-around) on `1 ≤ v ≤ 2^31` -/
theorem binaryCeil_ge (v : BitVec 32) (h1 : 1 ≤ v.toNat) (h2 : v.toNat ≤ 2 ^ 31) :
    v.toNat ≤ (binaryCeil v).toNat := by
  unfold binaryCeil
  have h0 : (v - 1).toNat = v.toNat - 1 := by
    rw [BitVec.toNat_sub]
    have : v.toNat < 2 ^ 32 := v.isLt
    simp
    omega
  generalize v - 1 = w0 at h0
  have hw0 : w0.toNat < 2 ^ 31 := by omega
  simp only
  have s1 := smear_stage w0.toNat 1 hw0
  generalize hw1 : w0 ||| (w0 >>> 1) = w1
  have e1 : w1.toNat = w0.toNat ||| (w0.toNat >>> 1) := by rw [← hw1]; simp
  have s2 := smear_stage w1.toNat 2 (by omega)
  generalize hw2 : w1 ||| (w1 >>> 2) = w2
  have e2 : w2.toNat = w1.toNat ||| (w1.toNat >>> 2) := by rw [← hw2]; simp
  have s3 := smear_stage w2.toNat 4 (by omega)
  generalize hw3 : w2 ||| (w2 >>> 4) = w3
  have e3 : w3.toNat = w2.toNat ||| (w2.toNat >>> 4) := by rw [← hw3]; simp
  have s4 := smear_stage w3.toNat 8 (by omega)
  generalize hw4 : w3 ||| (w3 >>> 8) = w4
  have e4 : w4.toNat = w3.toNat ||| (w3.toNat >>> 8) := by rw [← hw4]; simp
  have s5 := smear_stage w4.toNat 16 (by omega)
  generalize hw5 : w4 ||| (w4 >>> 16) = w5
  have e5 : w5.toNat = w4.toNat ||| (w4.toNat >>> 16) := by rw [← hw5]; simp
  have : (w5 + 1).toNat = w5.toNat + 1 := by
    rw [BitVec.toNat_add]
    simp
    omega
  omega

/-- the capacity of the buffer `binaryPool.Get(n)` returns is at least `n` (so slicing it to
`[:n]` cannot go out of range) -/
theorem cap_ge (n : Nat) : n ≤ Pool.cap n := by
  unfold Pool.cap
  split
  · rename_i h
    simp only
    split
    · by_cases h0 : n = 0
      · omega
      · have hm : Facts.poolMax = 262144 := rfl
        have hn : (BitVec.ofNat 32 n).toNat = n := by
          simp; omega
        have := binaryCeil_ge (BitVec.ofNat 32 n) (by omega) (by omega)
        rw [hn] at this
        omega
    · exact Nat.le_refl _
  · exact Nat.le_refl _

end Pool
