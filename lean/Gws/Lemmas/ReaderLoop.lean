import Gws.Lemmas.ReaderRefine
/-! # The read loop: refinement of the RFC receiver, invariants of `step`, streaming lemmas -/

namespace Reader

/-! ## the loop refines `Spec.receive` -/

theorem specCtx_congr (cfg : Cfg) (st st' : State) (h1 : st'.dps.enabled = st.dps.enabled)
    (h2 : st'.dps.size = st.dps.size) : specCtx cfg st' = specCtx cfg st := by
  unfold specCtx; rw [h1, h2]

theorem receiveFuel_refines (cfg : Cfg) (codec : Codec) (st : State) (b : Bytes) :
    ∀ (s : Spec.RxState) (fuel : Nat), Rel cfg st s → b.length < fuel →
      traceOk (Spec.receiveFuel (specCtx cfg st) codec fuel s b) (readLoop cfg codec st b) = true := by
  fun_induction readLoop cfg codec st b with
  | case1 st b evs e hstep =>
    intro s fuel hrel hfuel
    obtain ⟨fuel', rfl⟩ : ∃ f, fuel = f + 1 := ⟨fuel - 1, by omega⟩
    have hr := step_refines cfg codec st s b hrel
    rw [hstep] at hr
    unfold Spec.receiveFuel
    cases hs : Spec.step (specCtx cfg st) codec s b with
    | ok s' sevs srest => rw [hs] at hr; exact hr.elim
    | stop se =>
      rw [hs] at hr
      obtain ⟨rfl, hend⟩ := hr
      simp [traceOk, hend]
  | case2 st b st' evs rest hstep t ih =>
    intro s fuel hrel hfuel
    obtain ⟨fuel', rfl⟩ : ∃ f, fuel = f + 1 := ⟨fuel - 1, by omega⟩
    have hr := step_refines cfg codec st s b hrel
    rw [hstep] at hr
    unfold Spec.receiveFuel
    cases hs : Spec.step (specCtx cfg st) codec s b with
    | stop se => rw [hs] at hr; exact hr.elim
    | ok s' sevs srest =>
      rw [hs] at hr
      obtain ⟨hevs, rfl, hrel', he, hz⟩ := hr
      have hdec := step_decreases hstep
      have := ih s' fuel' hrel' (by omega)
      rw [specCtx_congr cfg st st' he hz] at this
      simp only [traceOk, Bool.and_eq_true, decide_eq_true_eq] at this ⊢
      refine ⟨?_, this.2⟩
      rw [List.map_append, hevs, this.1]


/-! ## unfolding `readLoop`; what `emitMessage` returns; stopping steps -/

theorem readLoop_stop {cfg : Cfg} {codec : Codec} {st : State} {b : Bytes} {evs : List Ev} {e : End}
    (h : step cfg codec st b = .stop evs e) : readLoop cfg codec st b = { evs := evs, ending := e } := by
  rw [readLoop]
  split
  · rename_i evs' e' h'
    rw [h] at h'
    cases h'
    rfl
  · rename_i st' evs' rest' h'
    rw [h] at h'
    cases h'

theorem readLoop_ok {cfg : Cfg} {codec : Codec} {st st' : State} {b rest : Bytes} {evs : List Ev}
    (h : step cfg codec st b = .ok st' evs rest) :
    readLoop cfg codec st b =
      { evs := evs ++ (readLoop cfg codec st' rest).evs, ending := (readLoop cfg codec st' rest).ending } := by
  rw [readLoop]
  split
  · rename_i evs' e' h'
    rw [h] at h'
    cases h'
  · rename_i st'' evs' rest' h'
    rw [h] at h'
    cases h'
    rfl

theorem decompress_ok_le {c : Codec} {limit : Int} {dict data out : Bytes}
    (h : c.decompress limit dict data = .ok out) : (out.length : Int) ≤ limit := by
  unfold Codec.decompress at h
  split at h
  · simp at h
  · split at h
    · simp at h
    · simp only [Codec.DecompRes.ok.injEq] at h
      subst h
      omega

/-- what a successful `emitMessage` returns -/
theorem emitMessage_inl {cfg : Cfg} {codec : Codec} {st st' : State} {opcode : Nat} {data : Bytes}
    {compressed : Bool} {ev : Option Ev}
    (h : emitMessage cfg codec st opcode data compressed = .inl (st', ev)) :
    st'.cont = st.cont ∧ ∃ out, ev = some (.msg opcode out) ∧
      Utf8.checkEncoding cfg.checkUtf8 opcode out = true ∧
      (if compressed then (out.length : Int) ≤ cfg.readMax else out = data) := by
  unfold emitMessage at h
  split at h
  · rename_i hc
    split at h
    · rename_i out hd
      simp only at h
      split at h
      · simp at h
      · rename_i hv
        simp only [Sum.inl.injEq, Prod.mk.injEq] at h
        obtain ⟨rfl, rfl⟩ := h
        refine ⟨rfl, out, rfl, by simpa using hv, ?_⟩
        simp only [hc, if_true]
        exact decompress_ok_le hd
    · simp at h
  · rename_i hc
    split at h
    · simp at h
    · rename_i hv
      simp only [Sum.inl.injEq, Prod.mk.injEq] at h
      obtain ⟨rfl, rfl⟩ := h
      refine ⟨rfl, data, rfl, by simpa using hv, ?_⟩
      simp [hc]

theorem emitMessage_no_panic {cfg : Cfg} {codec : Codec} {st : State} {opcode : Nat} {data : Bytes}
    {compressed : Bool} {e : End}
    (h : emitMessage cfg codec st opcode data compressed = .inr e) : ∃ c, e = .err (.coded c) := by
  unfold emitMessage at h
  repeat' split at h
  all_goals first | (simp at h; done) | (simp only [Sum.inr.injEq] at h; exact ⟨_, h.symm⟩)


def End.isPanic : End → Bool
  | .panic _ => true
  | _ => false

theorem afterPayload_stop {cfg : Cfg} {codec : Codec} {st : State} {h : Frame.Hdr} {p rest : Bytes}
    {evs : List Ev} {e : End} (hs : afterPayload cfg codec st h p rest = .stop evs e) :
    evs = [] ∧ e.isPanic = false := by
  unfold afterPayload at hs
  simp only at hs
  repeat' split at hs
  all_goals first
    | (simp at hs; done)
    | (simp only [Step.stop.injEq] at hs; obtain ⟨rfl, rfl⟩ := hs; exact ⟨rfl, rfl⟩)
    | (rename_i heq; simp only [Step.stop.injEq] at hs; obtain ⟨rfl, rfl⟩ := hs
       obtain ⟨c, rfl⟩ := emitMessage_no_panic heq; exact ⟨rfl, rfl⟩)



theorem readControl_stop {cfg : Cfg} {st : State} {h : Frame.Hdr} {rest : Bytes}
    {evs : List Ev} {e : End} (hs : readControl cfg st h rest = .stop evs e) :
    evs = [] ∧ e.isPanic = false := by
  unfold readControl at hs
  simp only at hs
  repeat' split at hs
  all_goals first
    | (simp at hs; done)
    | (simp only [Step.stop.injEq] at hs; obtain ⟨rfl, rfl⟩ := hs; exact ⟨rfl, rfl⟩)

theorem dataFrame_stop {cfg : Cfg} {codec : Codec} {st : State} {h : Frame.Hdr} {rest : Bytes}
    {evs : List Ev} {e : End} (hs : dataFrame cfg codec st h rest = .stop evs e) :
    evs = [] ∧ e.isPanic = false := by
  unfold dataFrame at hs
  simp only at hs
  split at hs
  · rename_i hp
    have := Pool.cap_ge (h.len.toNat + Facts.flateTail.length)
    omega
  · split at hs
    · simp only [Step.stop.injEq] at hs; obtain ⟨rfl, rfl⟩ := hs; exact ⟨rfl, rfl⟩
    · exact afterPayload_stop hs

theorem headerCheck_some_err {cfg : Cfg} {h : Frame.Hdr} {e : End} (hc : headerCheck cfg h = some e) :
    e = tooLarge ∨ e = protoErr := by
  unfold headerCheck at hc
  simp only at hc
  repeat' split at hc
  all_goals first
    | (simp at hc; done)
    | (simp only [Option.some.injEq] at hc; subst hc; simp)

/-- whenever `step` stops, nothing is delivered by that step and the ending is not a panic -/
theorem step_stop {cfg : Cfg} {codec : Codec} {st : State} {b : Bytes}
    {evs : List Ev} {e : End} (hs : step cfg codec st b = .stop evs e) :
    evs = [] ∧ e.isPanic = false := by
  unfold step at hs
  split at hs
  · simp only [Step.stop.injEq] at hs; obtain ⟨rfl, rfl⟩ := hs; exact ⟨rfl, rfl⟩
  · split at hs
    · rename_i e' hc
      simp only [Step.stop.injEq] at hs; obtain ⟨rfl, rfl⟩ := hs
      rcases headerCheck_some_err hc with rfl | rfl <;> exact ⟨rfl, rfl⟩
    · split at hs
      · exact readControl_stop hs
      · exact dataFrame_stop hs

theorem headerCheck_none_bound {cfg : Cfg} {h : Frame.Hdr} (hc : headerCheck cfg h = none) :
    0 ≤ h.len ∧ h.len ≤ cfg.readMax := by
  unfold headerCheck at hc
  split at hc
  · simp at hc
  · omega

/-- the `.ok` results of `afterPayload`: the continuation buffer stays within the limit, and every
event is a message within the limit that passed the encoding gate -/
theorem afterPayload_ok {cfg : Cfg} {codec : Codec} {st st' : State} {h : Frame.Hdr} {p rest rest' : Bytes}
    {evs : List Ev} (hp : (p.length : Int) ≤ cfg.readMax)
    (hs : afterPayload cfg codec st h p rest = .ok st' evs rest') :
    ((st.cont.buffer.length : Int) ≤ cfg.readMax → (st'.cont.buffer.length : Int) ≤ cfg.readMax) ∧
    ∀ ev ∈ evs, ∃ op q, ev = .msg op q ∧ (q.length : Int) ≤ cfg.readMax ∧
      Utf8.checkEncoding cfg.checkUtf8 op q = true := by
  unfold afterPayload at hs
  simp only at hs
  split at hs
  · simp at hs
  · split at hs
    · split at hs
      · rename_i st1 ev heq
        simp only [Step.ok.injEq] at hs
        obtain ⟨rfl, rfl, rfl⟩ := hs
        obtain ⟨hc, out, rfl, hv, hl⟩ := emitMessage_inl heq
        rw [hc]
        refine ⟨fun hb => hb, ?_⟩
        intro ev hev
        simp only [Option.toList_some, List.mem_singleton] at hev
        subst hev
        refine ⟨_, out, rfl, ?_, hv⟩
        split at hl
        · exact hl
        · subst hl; exact hp
      · simp at hs
    · have tail : ∀ (c : Cont),
          (if ¬ c.initialized then Step.stop [] protoErr
           else if ((c.buffer ++ p).length : Int) > cfg.readMax then Step.stop [] tooLarge
           else if ¬ Frame.getFIN h.b0 then Step.ok { st with cont := { c with buffer := c.buffer ++ p } } [] rest
           else
             match emitMessage cfg codec { st with cont := {} } c.opcode (c.buffer ++ p) c.compressed with
             | .inl (st', ev) => Step.ok st' ev.toList rest
             | .inr e => Step.stop [] e) = Step.ok st' evs rest' →
          (st'.cont.buffer.length : Int) ≤ cfg.readMax ∧
            ∀ ev ∈ evs, ∃ op q, ev = .msg op q ∧ (q.length : Int) ≤ cfg.readMax ∧
              Utf8.checkEncoding cfg.checkUtf8 op q = true := by
        intro c hs
        split at hs
        · simp at hs
        · split at hs
          · simp at hs
          · rename_i hle
            split at hs
            · simp only [Step.ok.injEq] at hs
              obtain ⟨rfl, rfl, rfl⟩ := hs
              refine ⟨by simpa using hle, by simp⟩
            · split at hs
              · rename_i st1 ev heq
                simp only [Step.ok.injEq] at hs
                obtain ⟨rfl, rfl, rfl⟩ := hs
                obtain ⟨hc, out, rfl, hv, hl⟩ := emitMessage_inl heq
                rw [hc]
                refine ⟨by simp; omega, ?_⟩
                intro ev hev
                simp only [Option.toList_some, List.mem_singleton] at hev
                subst hev
                refine ⟨_, out, rfl, ?_, hv⟩
                split at hl
                · exact hl
                · subst hl; simpa using hle
              · simp at hs
      split at hs
      · exact ⟨fun _ => (tail _ hs).1, (tail _ hs).2⟩
      · exact ⟨fun _ => (tail _ hs).1, (tail _ hs).2⟩


/-! ## streaming: more input after a completed step does not change it -/

theorem keyPart_append (x0 x1 : UInt8) (len : Int) (r1 b₂ : Bytes) (h : Frame.Hdr) (rest : Bytes) :
    (if Frame.getMask x1.toNat = true then
        match r1 with
        | k0 :: k1 :: k2 :: k3 :: r2 =>
          Frame.ParseRes.ok { b0 := x0.toNat, b1 := x1.toNat, len := len, key := [k0, k1, k2, k3] } r2
        | _ => Frame.ParseRes.needMore
      else Frame.ParseRes.ok { b0 := x0.toNat, b1 := x1.toNat, len := len, key := [] } r1) = .ok h rest →
    (if Frame.getMask x1.toNat = true then
        match r1 ++ b₂ with
        | k0 :: k1 :: k2 :: k3 :: r2 =>
          Frame.ParseRes.ok { b0 := x0.toNat, b1 := x1.toNat, len := len, key := [k0, k1, k2, k3] } r2
        | _ => Frame.ParseRes.needMore
      else Frame.ParseRes.ok { b0 := x0.toNat, b1 := x1.toNat, len := len, key := [] } (r1 ++ b₂)) = .ok h (rest ++ b₂) := by
  intro hp
  split at hp
  · rename_i hm
    rw [if_pos hm]
    split at hp
    · simp only [Frame.ParseRes.ok.injEq] at hp
      obtain ⟨rfl, rfl⟩ := hp
      simp
    · simp at hp
  · rename_i hm
    rw [if_neg hm]
    simp only [Frame.ParseRes.ok.injEq] at hp
    obtain ⟨rfl, rfl⟩ := hp
    rfl

theorem parse_append {b₁ : Bytes} {h : Frame.Hdr} {rest : Bytes} (b₂ : Bytes)
    (hp : Frame.parse b₁ = .ok h rest) : Frame.parse (b₁ ++ b₂) = .ok h (rest ++ b₂) := by
  match b₁ with
  | [] | [_] => simp [Frame.parse] at hp
  | x0 :: x1 :: r =>
    simp only [Frame.parse, List.cons_append] at hp ⊢
    by_cases h126 : Frame.getLengthCode x1.toNat = 126
    · simp only [h126, if_true] at hp ⊢
      match r with
      | [] | [_] => simp at hp
      | a :: b :: r' =>
        simp only [List.cons_append] at hp ⊢
        exact keyPart_append x0 x1 _ r' b₂ h rest hp
    · simp only [h126, if_false] at hp ⊢
      by_cases h127 : Frame.getLengthCode x1.toNat = 127
      · simp only [h127, if_true] at hp ⊢
        match r with
        | [] | [_] | [_, _] | [_, _, _] | [_, _, _, _] | [_, _, _, _, _] | [_, _, _, _, _, _] | [_, _, _, _, _, _, _] =>
          simp at hp
        | a :: b :: c :: d :: e :: f :: g :: i :: r' =>
          simp only [List.cons_append] at hp ⊢
          exact keyPart_append x0 x1 _ r' b₂ h rest hp
      · simp only [h127, if_false] at hp ⊢
        exact keyPart_append x0 x1 _ r b₂ h rest hp

/-- events a step can deliver: messages within the limit that passed the encoding gate, pings, pongs -/
def Ev.okFor (cfg : Cfg) : Ev → Prop
  | .msg op q => (q.length : Int) ≤ cfg.readMax ∧ Utf8.checkEncoding cfg.checkUtf8 op q = true
  | _ => True

theorem readControl_ok {cfg : Cfg} {st st' : State} {h : Frame.Hdr} {rest rest' : Bytes} {evs : List Ev}
    (hs : readControl cfg st h rest = .ok st' evs rest') :
    st' = st ∧ ∀ ev ∈ evs, ev.okFor cfg := by
  unfold readControl at hs
  simp only at hs
  repeat' split at hs
  all_goals first
    | (simp at hs; done)
    | (simp only [Step.ok.injEq] at hs; obtain ⟨rfl, rfl, rfl⟩ := hs; simp [Ev.okFor])

theorem readControl_append {cfg : Cfg} {st st' : State} {h : Frame.Hdr} {rest rest' : Bytes} {evs : List Ev}
    (b₂ : Bytes) (hs : readControl cfg st h rest = .ok st' evs rest') :
    readControl cfg st h (rest ++ b₂) = .ok st' evs (rest' ++ b₂) := by
  unfold readControl at hs ⊢
  simp only at hs ⊢
  split at hs
  · simp at hs
  · rename_i h1
    rw [if_neg h1]
    split at hs
    · simp at hs
    · rename_i h2
      rw [if_neg h2]
      split at hs
      · simp at hs
      · rename_i h3
        have h3' : ¬ (rest ++ b₂).length < Frame.getLengthCode h.b1 := by simp; omega
        rw [if_neg h3']
        rw [List.take_append_of_le_length (by omega), List.drop_append_of_le_length (by omega)]
        split at hs
        · rename_i h4
          rw [if_pos h4]
          simp only [Step.ok.injEq] at hs ⊢
          obtain ⟨rfl, rfl, rfl⟩ := hs
          exact ⟨rfl, rfl, rfl⟩
        · rename_i h4
          rw [if_neg h4]
          split at hs
          · rename_i h5
            rw [if_pos h5]
            simp only [Step.ok.injEq] at hs ⊢
            obtain ⟨rfl, rfl, rfl⟩ := hs
            exact ⟨rfl, rfl, rfl⟩
          · split at hs <;> simp at hs

def Step.setRest (r : Bytes) : Step → Step
  | .ok st evs _ => .ok st evs r
  | s => s

theorem afterPayload_setRest (cfg : Cfg) (codec : Codec) (st : State) (h : Frame.Hdr) (p rest : Bytes) :
    afterPayload cfg codec st h p rest = (afterPayload cfg codec st h p []).setRest rest := by
  unfold afterPayload
  simp only
  repeat' split
  all_goals first | rfl | simp_all [Step.setRest]

theorem afterPayload_append {cfg : Cfg} {codec : Codec} {st st' : State} {h : Frame.Hdr} {p rest rest' : Bytes}
    {evs : List Ev} (b₂ : Bytes) (hs : afterPayload cfg codec st h p rest = .ok st' evs rest') :
    afterPayload cfg codec st h p (rest ++ b₂) = .ok st' evs (rest' ++ b₂) := by
  rw [afterPayload_setRest] at hs ⊢
  cases hx : afterPayload cfg codec st h p [] with
  | stop evs e => rw [hx] at hs; simp [Step.setRest] at hs
  | ok st1 evs1 r1 =>
    rw [hx] at hs
    simp only [Step.setRest, Step.ok.injEq] at hs ⊢
    obtain ⟨rfl, rfl, rfl⟩ := hs
    exact ⟨rfl, rfl, rfl⟩

theorem dataFrame_append {cfg : Cfg} {codec : Codec} {st st' : State} {h : Frame.Hdr} {rest rest' : Bytes}
    {evs : List Ev} (b₂ : Bytes) (hs : dataFrame cfg codec st h rest = .ok st' evs rest') :
    dataFrame cfg codec st h (rest ++ b₂) = .ok st' evs (rest' ++ b₂) := by
  unfold dataFrame at hs ⊢
  simp only at hs ⊢
  split at hs
  · simp at hs
  · rename_i h1
    rw [if_neg h1]
    split at hs
    · simp at hs
    · rename_i h2
      have h2' : ¬ (rest ++ b₂).length < h.len.toNat := by simp; omega
      rw [if_neg h2']
      rw [List.take_append_of_le_length (by omega), List.drop_append_of_le_length (by omega)]
      exact afterPayload_append b₂ hs

theorem dataFrame_ok {cfg : Cfg} {codec : Codec} {st st' : State} {h : Frame.Hdr} {rest rest' : Bytes}
    {evs : List Ev} (hlen : 0 ≤ h.len ∧ h.len ≤ cfg.readMax)
    (hs : dataFrame cfg codec st h rest = .ok st' evs rest') :
    ((st.cont.buffer.length : Int) ≤ cfg.readMax → (st'.cont.buffer.length : Int) ≤ cfg.readMax) ∧
    ∀ ev ∈ evs, ev.okFor cfg := by
  unfold dataFrame at hs
  simp only at hs
  split at hs
  · simp at hs
  · split at hs
    · simp at hs
    · rename_i h2
      have hp : ((if Frame.getMask h.b1 = true then unmask h.key (List.take h.len.toNat rest)
          else List.take h.len.toNat rest).length : Int) ≤ cfg.readMax := by
        split
        · rw [unmask_length, List.length_take]; omega
        · rw [List.length_take]; omega
      have := afterPayload_ok hp hs
      refine ⟨this.1, fun ev hev => ?_⟩
      obtain ⟨op, q, rfl, h1, h2⟩ := this.2 ev hev
      exact ⟨h1, h2⟩


/-- the `panic` branch of `dataFrame` is dead code (`Pool.cap_ge`) -/
theorem dataFrame_eq (cfg : Cfg) (codec : Codec) (st : State) (h : Frame.Hdr) (rest : Bytes) :
    dataFrame cfg codec st h rest =
      if rest.length < h.len.toNat then .stop [] ioErr
      else afterPayload cfg codec st h
        (if Frame.getMask h.b1 then unmask h.key (rest.take h.len.toNat) else rest.take h.len.toNat)
        (rest.drop h.len.toNat) := by
  unfold dataFrame
  simp only
  have := Pool.cap_ge (h.len.toNat + Facts.flateTail.length)
  have hn : ¬ Pool.cap (h.len.toNat + Facts.flateTail.length) < h.len.toNat := by omega
  rw [if_neg hn]

/-- a continuing step: the continuation buffer stays within the limit and every delivered event is
a ping, a pong, or a message within the limit that passed the encoding gate -/
theorem step_ok {cfg : Cfg} {codec : Codec} {st st' : State} {b rest : Bytes} {evs : List Ev}
    (hs : step cfg codec st b = .ok st' evs rest) :
    ((st.cont.buffer.length : Int) ≤ cfg.readMax → (st'.cont.buffer.length : Int) ≤ cfg.readMax) ∧
    ∀ ev ∈ evs, ev.okFor cfg := by
  unfold step at hs
  split at hs
  · simp at hs
  · split at hs
    · simp at hs
    · rename_i hc
      split at hs
      · obtain ⟨rfl, h2⟩ := readControl_ok hs
        exact ⟨fun hb => hb, h2⟩
      · exact dataFrame_ok (headerCheck_none_bound hc) hs

/-- a step that completed on `b₁` is unchanged by further input `b₂` -/
theorem step_append {cfg : Cfg} {codec : Codec} {st st' : State} {b₁ rest : Bytes} {evs : List Ev}
    (b₂ : Bytes) (hs : step cfg codec st b₁ = .ok st' evs rest) :
    step cfg codec st (b₁ ++ b₂) = .ok st' evs (rest ++ b₂) := by
  unfold step at hs ⊢
  split at hs
  · simp at hs
  · rename_i h r hp
    rw [parse_append b₂ hp]
    simp only
    split at hs
    · simp at hs
    · split at hs
      · rename_i hop
        rw [if_pos hop]
        exact readControl_append b₂ hs
      · rename_i hop
        rw [if_neg hop]
        exact dataFrame_append b₂ hs

theorem readControl_stop_append {cfg : Cfg} {st : State} {h : Frame.Hdr} {rest : Bytes} {evs : List Ev} {e : End}
    (b₂ : Bytes) (hs : readControl cfg st h rest = .stop evs e) (hio : e ≠ ioErr) :
    readControl cfg st h (rest ++ b₂) = .stop evs e := by
  unfold readControl at hs ⊢
  simp only at hs ⊢
  split at hs
  · rename_i h1; rw [if_pos h1]; exact hs
  · rename_i h1
    rw [if_neg h1]
    split at hs
    · rename_i h2; rw [if_pos h2]; exact hs
    · rename_i h2
      rw [if_neg h2]
      split at hs
      · simp only [Step.stop.injEq] at hs
        exact (hio hs.2.symm).elim
      · rename_i h3
        have h3' : ¬ (rest ++ b₂).length < Frame.getLengthCode h.b1 := by simp; omega
        rw [if_neg h3']
        rw [List.take_append_of_le_length (by omega), List.drop_append_of_le_length (by omega)]
        split at hs
        · simp at hs
        · rename_i h4
          rw [if_neg h4]
          split at hs
          · simp at hs
          · rename_i h5
            rw [if_neg h5]
            exact hs

theorem afterPayload_stop_append {cfg : Cfg} {codec : Codec} {st : State} {h : Frame.Hdr} {p rest : Bytes}
    {evs : List Ev} {e : End} (rest₂ : Bytes) (hs : afterPayload cfg codec st h p rest = .stop evs e) :
    afterPayload cfg codec st h p rest₂ = .stop evs e := by
  rw [afterPayload_setRest] at hs ⊢
  cases hx : afterPayload cfg codec st h p [] with
  | stop evs e => rw [hx] at hs; simpa [Step.setRest] using hs
  | ok st1 evs1 r1 => rw [hx] at hs; simp [Step.setRest] at hs

theorem dataFrame_stop_append {cfg : Cfg} {codec : Codec} {st : State} {h : Frame.Hdr} {rest : Bytes}
    {evs : List Ev} {e : End} (b₂ : Bytes) (hs : dataFrame cfg codec st h rest = .stop evs e) (hio : e ≠ ioErr) :
    dataFrame cfg codec st h (rest ++ b₂) = .stop evs e := by
  rw [dataFrame_eq] at hs ⊢
  split at hs
  · simp only [Step.stop.injEq] at hs
    exact (hio hs.2.symm).elim
  · rename_i h2
    have h2' : ¬ (rest ++ b₂).length < h.len.toNat := by simp; omega
    rw [if_neg h2']
    rw [List.take_append_of_le_length (by omega), List.drop_append_of_le_length (by omega)]
    exact afterPayload_stop_append _ hs

/-- a step that failed the connection on `b₁` for a reason other than running out of input fails it
in the same way whatever follows -/
theorem step_stop_append {cfg : Cfg} {codec : Codec} {st : State} {b₁ : Bytes} {evs : List Ev} {e : End}
    (b₂ : Bytes) (hs : step cfg codec st b₁ = .stop evs e) (hio : e ≠ ioErr) :
    step cfg codec st (b₁ ++ b₂) = .stop evs e := by
  unfold step at hs ⊢
  split at hs
  · simp only [Step.stop.injEq] at hs
    exact (hio hs.2.symm).elim
  · rename_i h r hp
    rw [parse_append b₂ hp]
    simp only
    split at hs
    · rename_i e' hc; exact hs
    · split at hs
      · rename_i hop
        rw [if_pos hop]
        exact readControl_stop_append b₂ hs hio
      · rename_i hop
        rw [if_neg hop]
        exact dataFrame_stop_append b₂ hs hio


/-! ## initial states -/

/-- a connection whose inbound direction keeps its LZ77 context starts related to the spec's
initial state -/
theorem Rel.init_takeover (cfg : Cfg) (bits : Nat) : Rel cfg { dps := Win.init bits } {} :=
  ⟨Or.inl ⟨rfl, rfl⟩, fun _ => ⟨by simp [Win.init, lastN], by simp [Win.init]⟩, fun h => by simp [Win.init] at h⟩

/-- … and so does one without a window (no compression, or no context takeover) -/
theorem Rel.init_plain (cfg : Cfg) : Rel cfg {} {} :=
  ⟨Or.inl ⟨rfl, rfl⟩, fun h => by simp [Win.disabled] at h, fun _ => rfl⟩

/-! ## evaluation helpers for the non-vacuity examples of the property files -/

/-- a stand-in DEFLATE library for examples: "inflating" strips the 9-byte tail again and doubles
the data (so that the output can exceed a limit the input respects) -/
def dupCodec : Codec where
  inflate _ data := some (data.take (data.length - 9) ++ data.take (data.length - 9))
  compress _ _ chunks := chunks.flatten

/-- evaluate one `Reader.step` on concrete bytes -/
macro "reader_eval" "[" ls:Lean.Parser.Tactic.simpLemma,* "]" : tactic =>
  `(tactic| simp [step, Frame.parse, Frame.getLengthCode, Frame.getMask, Frame.getOpcode, Frame.getFIN,
    Frame.getRSV1, Frame.getRSV2, Frame.getRSV3, Frame.shr8, Frame.shl8, Frame.be16, Frame.be64, Frame.toGoInt,
    headerCheck, dataFrame_eq, afterPayload, emitMessage, readControl, Utf8.checkEncoding, Spec.Utf8.valid,
    Spec.Utf8.isCont, Facts.dataFrameMaxOpcode, Facts.opText, Facts.opBinary, Facts.opContinuation, Facts.opPing,
    Facts.opPong, Facts.opClose, Facts.thresholdV1, Facts.closeUnsupportedData, Facts.closeInternalErr,
    Facts.closeProtocolError, Facts.closeMessageTooLarge, Close.emitClose, protoErr, tooLarge, ioErr, unmask_eq,
    Spec.unmask, List.mapIdx_cons, Codec.decompress, Codec.flateTail, Facts.flateTail, dupCodec, Win.disabled,
    Win.write, $ls,*])

/-- evaluate `Spec.receive` on concrete bytes -/
macro "spec_eval" "[" ls:Lean.Parser.Tactic.simpLemma,* "]" : tactic =>
  `(tactic| simp [Spec.receive, Spec.receiveFuel, Spec.step, Spec.decodeHdr, Spec.beNat, Spec.hdrViolations,
    Spec.knownOpcode, Spec.isControl, Spec.finish, Spec.unmask, Spec.closeSeen, Spec.closeReplies, Spec.dictOf,
    Spec.inflateFailStatuses, Spec.Utf8.valid, Spec.Utf8.isCont, specCtx, List.mapIdx_cons, Codec.decompress,
    Codec.flateTail, Facts.flateTail, dupCodec, Win.disabled, $ls,*])

end Reader
