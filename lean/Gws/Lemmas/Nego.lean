import Gws.Model.Nego
/-!
# Lemmas about the negotiation model

String-level facts (`splitOn`, `trim`, `split`, `join`, `splitN2`, `contains`, `atoi ∘ itoa`), the
effect of one parameter on the parser state, the order-independence of the parser loop, and the
evaluation of a whole handshake (`handshake_on`, `handshake_off`).  Also the vocabulary used to
state `parse_perm_ws`: `Item` (a parameter with white space around it) and `render`.
-/

namespace Nego

/-! ## spec vocabulary for `parse_perm_ws` -/

/-- one element of an extension parameter list as it appears on the wire: the parameter text with
arbitrary ASCII white space on both sides -/
structure Item where
  left : Str
  param : Str
  right : Str
deriving Repr, DecidableEq

def AllSpace (s : Str) : Prop := ∀ c ∈ s, isSpace c = true

/-- padding is white space; the parameter itself does not contain the list separator -/
def Item.Ok (i : Item) : Prop := AllSpace i.left ∧ AllSpace i.right ∧ ';' ∉ i.param

def Item.text (i : Item) : Str := i.left ++ i.param ++ i.right

/-- the header value: the padded parameters separated by `;` -/
def render (is : List Item) : Str := join [';'] (is.map Item.text)

/-! ## splitOn -/

theorem splitOn_ne_nil (sep : Char) (s : Str) : splitOn sep s ≠ [] := by
  induction s with
  | nil => simp [splitOn]
  | cons c cs ih =>
    unfold splitOn
    split
    · simp
    · split <;> simp

theorem splitOn_nosep (sep : Char) (a : Str) (h : sep ∉ a) : splitOn sep a = [a] := by
  induction a with
  | nil => rfl
  | cons c cs ih =>
    have hc : c ≠ sep := fun e => h (by simp [e])
    have hcs : sep ∉ cs := fun e => h (by simp [e])
    simp [splitOn, hc, ih hcs]

theorem splitOn_append (sep : Char) (a b : Str) (h : sep ∉ a) :
    splitOn sep (a ++ sep :: b) = a :: splitOn sep b := by
  induction a with
  | nil => simp [splitOn]
  | cons c cs ih =>
    have hc : c ≠ sep := fun e => h (by simp [e])
    have hcs : sep ∉ cs := fun e => h (by simp [e])
    simp [splitOn, hc, ih hcs]

/-! ## trim -/

theorem dropWhile_allSpace (l : Str) (h : AllSpace l) : l.dropWhile isSpace = [] := by
  induction l with
  | nil => rfl
  | cons c cs ih =>
    have hc : isSpace c = true := h c (by simp)
    have : AllSpace cs := fun d hd => h d (by simp [hd])
    simp [hc, ih this]

theorem trim_nil : trim [] = [] := rfl

theorem trim_allSpace (l : Str) (h : AllSpace l) : trim l = [] := by
  simp [trim, trimLeft, trimRight, dropWhile_allSpace l h]

theorem trim_append_left (l s : Str) (h : AllSpace l) : trim (l ++ s) = trim s := by
  simp [trim, trimLeft, List.dropWhile_append, dropWhile_allSpace l h]

theorem trim_append_right (s r : Str) (h : AllSpace r) : trim (s ++ r) = trim s := by
  have hr : AllSpace r.reverse := fun c hc => h c (by simpa using hc)
  simp only [trim, trimLeft, List.dropWhile_append, dropWhile_allSpace r h]
  split
  · rename_i he
    have : List.dropWhile isSpace s = [] := by simpa using he
    simp [this, trimRight]
  · simp [trimRight, List.dropWhile_append, dropWhile_allSpace _ hr]

/-- white space around a parameter is invisible to `TrimSpace` -/
theorem trim_padded (l p r : Str) (hl : AllSpace l) (hr : AllSpace r) : trim (l ++ p ++ r) = trim p := by
  rw [trim_append_right _ _ hr, trim_append_left _ _ hl]

theorem allSpace_no_semi (l : Str) (h : AllSpace l) : ';' ∉ l := by
  intro hm
  have := h _ hm
  revert this; decide

/-! ## split -/

theorem split_nosemi (a : Str) (h : ';' ∉ a) : split a = if trim a = [] then [] else [trim a] := by
  simp only [split, splitOn_nosep _ _ h, List.map_cons, List.map_nil]
  by_cases ht : trim a = [] <;> simp [ht]

theorem split_append_semi (a rest : Str) (h : ';' ∉ a) :
    split (a ++ ';' :: rest) = (if trim a = [] then [] else [trim a]) ++ split rest := by
  simp only [split, splitOn_append _ _ _ h, List.map_cons, List.filter_cons]
  by_cases ht : trim a = [] <;> simp [ht]

/-- a white-space character in front of a header value is absorbed by the first piece -/
theorem split_cons_space (c : Char) (rest : Str) (hc : isSpace c = true) : split (c :: rest) = split rest := by
  have hne : c ≠ ';' := by
    intro e; subst e; revert hc; decide
  unfold split
  simp only [splitOn, hne, if_false]
  cases hsp : splitOn ';' rest with
  | nil => exact absurd hsp (splitOn_ne_nil _ _)
  | cons h t =>
    have : trim (c :: h) = trim h := trim_append_left [c] h (by intro d hd; simp at hd; simp [hd, hc])
    simp [this]

/-- `internal.Split` of a `;`-separated list whose elements contain no `;`: the trimmed non-empty
elements, in order -/
theorem split_join_semi (ws : List Str) (h : ∀ w ∈ ws, ';' ∉ w) :
    split (join [';'] ws) = (ws.map trim).filter (fun t => t ≠ []) := by
  induction ws with
  | nil => simp [join, split, splitOn, trim_nil]
  | cons a r ih =>
    cases r with
    | nil =>
      simp only [join, List.map_cons, List.map_nil, List.filter_cons, List.filter_nil]
      rw [split_nosemi a (h a (by simp))]
      by_cases ht : trim a = [] <;> simp [ht]
    | cons b r' =>
      have ha : ';' ∉ a := h a (by simp)
      have ih' := ih (fun w hw => h w (by simp [hw]))
      simp only [join, List.singleton_append, List.append_assoc]
      rw [split_append_semi a _ ha, ih']
      simp only [List.map_cons, List.filter_cons]
      by_cases ht : trim a = [] <;> simp [ht]

/-- a token as the header generators emit it: not empty, no `;`, no white space at either end -/
def Clean (t : Str) : Prop := t ≠ [] ∧ ';' ∉ t ∧ trim t = t

instance (t : Str) : Decidable (Clean t) := by unfold Clean; infer_instance

/-- `strings.Join(ts, "; ")` followed by `internal.Split(_, ";")` is the identity on clean tokens -/
theorem split_join (ts : List Str) (h : ∀ t ∈ ts, Clean t) : split (join sep ts) = ts := by
  induction ts with
  | nil => simp [join, split, splitOn, trim_nil]
  | cons a r ih =>
    obtain ⟨hne, hsemi, htrim⟩ := h a (by simp)
    cases r with
    | nil => simp [join, split_nosemi a hsemi, htrim, hne]
    | cons b r' =>
      have ih' := ih (fun w hw => h w (by simp [hw]))
      simp only [join, sep, List.cons_append, List.nil_append, List.append_assoc]
      rw [split_append_semi a _ hsemi, split_cons_space ' ' _ (by decide)]
      simp only [sep] at ih'
      rw [ih']
      simp [htrim, hne]

/-! ## splitN2, contains -/

theorem splitN2_noeq (k : Str) (h : '=' ∉ k) : splitN2 k = (k, none) := by
  induction k with
  | nil => rfl
  | cons c cs ih =>
    have hc : c ≠ '=' := fun e => h (by simp [e])
    have hcs : '=' ∉ cs := fun e => h (by simp [e])
    simp [splitN2, hc, ih hcs]

theorem splitN2_eq (k v : Str) (h : '=' ∉ k) : splitN2 (k ++ '=' :: v) = (k, some v) := by
  induction k with
  | nil => simp [splitN2]
  | cons c cs ih =>
    have hc : c ≠ '=' := fun e => h (by simp [e])
    have hcs : '=' ∉ cs := fun e => h (by simp [e])
    simp [splitN2, hc, ih hcs]

theorem contains_prefix (sub rest : Str) : contains (sub ++ rest) sub = true := by
  cases h : sub ++ rest with
  | nil =>
    have : sub = [] := by
      cases sub with
      | nil => rfl
      | cons a b => simp at h
    simp [contains, this]
  | cons c cs =>
    unfold contains
    rw [← h]
    simp [List.isPrefixOf_iff_prefix]

theorem contains_nil_pmd : contains [] pmd = false := by decide

theorem join_cons_prefix (a : Str) (r : List Str) : ∃ y, join sep (a :: r) = a ++ y := by
  cases r with
  | nil => exact ⟨[], by simp [join]⟩
  | cons b r' => exact ⟨sep ++ join sep (b :: r'), by simp [join]⟩

/-! ## the parser loop: one parameter, as data -/

/-- what one parameter does to the parser state -/
inductive Act where
  | nop
  | noServerCtx
  | noClientCtx
  | capServer (x : Int)
  | capClient (x : Int)

/-- classification of a parameter (the `switch pair[0]` of `permessageNegotiation`) -/
def act (s : Str) : Act :=
  let pair := splitN2 s
  if pair.1 = pmd then .nop
  else if pair.1 = sNoCtx then .noServerCtx
  else if pair.1 = cNoCtx then .noClientCtx
  else if pair.1 = sBits then
    match pair.2 with
    | some v => .capServer (withDefault (atoi v) 15)
    | none => .nop
  else if pair.1 = cBits then
    match pair.2 with
    | some v => .capClient (withDefault (atoi v) 15)
    | none => .nop
  else .nop

def Act.apply (o : PD) : Act → PD
  | .nop => o
  | .noServerCtx => { o with serverTakeover := false }
  | .noClientCtx => { o with clientTakeover := false }
  | .capServer x => { o with serverBits := imin o.serverBits x }
  | .capClient x => { o with clientBits := imin o.clientBits x }

theorem applyParam_eq (o : PD) (s : Str) : applyParam o s = (act s).apply o := by
  unfold applyParam act
  generalize splitN2 s = pair
  obtain ⟨k, v⟩ := pair
  simp only
  by_cases h1 : k = pmd
  · subst h1; simp [Act.apply]
  by_cases h2 : k = sNoCtx
  · subst h2; simp [h1, Act.apply]
  by_cases h3 : k = cNoCtx
  · subst h3; simp [h1, h2, Act.apply]
  by_cases h4 : k = sBits
  · subst h4; cases v <;> simp [h1, h2, h3, Act.apply]
  by_cases h5 : k = cBits
  · subst h5; cases v <;> simp [h1, h2, h3, h4, Act.apply]
  simp [h1, h2, h3, h4, h5, Act.apply]

theorem imin_eq_min (a b : Int) : imin a b = min a b := by
  unfold imin; split <;> omega

/-- parameters commute: each one clears a flag or lowers a cap -/
theorem Act.apply_comm (o : PD) (a b : Act) : b.apply (a.apply o) = a.apply (b.apply o) := by
  cases a <;> cases b <;> simp only [Act.apply, imin_eq_min, PD.mk.injEq, true_and, and_true, and_self] <;> omega

/-- a repeated parameter changes nothing -/
theorem Act.apply_idem (o : PD) (a : Act) : a.apply (a.apply o) = a.apply o := by
  cases a <;> simp only [Act.apply, imin_eq_min, PD.mk.injEq, true_and, and_true, and_self] <;> omega

theorem applyParam_comm (o : PD) (a b : Str) : applyParam (applyParam o a) b = applyParam (applyParam o b) a := by
  simp only [applyParam_eq]; exact Act.apply_comm o (act a) (act b)

/-- the parser loop does not depend on the order of the parameters -/
theorem parseParams_perm {ps qs : List Str} (h : ps.Perm qs) : parseParams ps = parseParams qs := by
  unfold parseParams
  congr 1
  exact List.Perm.foldl_eq' h (fun x _ y _ z => applyParam_comm z x y) _

/-- parsing a rendered list = running the loop over the trimmed, non-empty parameters -/
theorem permessageNegotiation_render (xs : List Item) (hx : ∀ i ∈ xs, i.Ok) :
    permessageNegotiation (render xs) = parseParams ((xs.map (fun i => trim i.param)).filter (fun t => t ≠ [])) := by
  unfold permessageNegotiation render
  rw [split_join_semi]
  · congr 2
    rw [List.map_map]
    apply List.map_congr_left
    intro i hi
    obtain ⟨hl, hr, _⟩ := hx i hi
    exact trim_padded _ _ _ hl hr
  · intro w hw
    obtain ⟨i, hi, rfl⟩ := List.mem_map.1 hw
    obtain ⟨hl, hr, hp⟩ := hx i hi
    simp only [Item.text, List.mem_append, not_or]
    exact ⟨⟨allSpace_no_semi _ hl, hp⟩, allSpace_no_semi _ hr⟩

/-! ## facts about the token names (checked against the generated constants) -/

theorem pmd_noeq : '=' ∉ pmd := by decide
theorem sNoCtx_noeq : '=' ∉ sNoCtx := by decide
theorem cNoCtx_noeq : '=' ∉ cNoCtx := by decide
theorem sBits_noeq : '=' ∉ sBits := by decide
theorem cBits_noeq : '=' ∉ cBits := by decide

theorem act_pmd : act pmd = .nop := by
  simp [act, splitN2_noeq _ pmd_noeq]

theorem act_sNoCtx : act sNoCtx = .noServerCtx := by
  have : sNoCtx ≠ pmd := by decide
  simp [act, splitN2_noeq _ sNoCtx_noeq, this]

theorem act_cNoCtx : act cNoCtx = .noClientCtx := by
  have h1 : cNoCtx ≠ pmd := by decide
  have h2 : cNoCtx ≠ sNoCtx := by decide
  simp [act, splitN2_noeq _ cNoCtx_noeq, h1, h2]

/-- the bare `client_max_window_bits` of an offer has no effect (`len(pair) == 1`) -/
theorem act_cBits_bare : act cBits = .nop := by
  have h1 : cBits ≠ pmd := by decide
  have h2 : cBits ≠ sNoCtx := by decide
  have h3 : cBits ≠ cNoCtx := by decide
  have h4 : cBits ≠ sBits := by decide
  simp [act, splitN2_noeq _ cBits_noeq, h1, h2, h3, h4]

theorem act_sBits_bare : act sBits = .nop := by
  have h1 : sBits ≠ pmd := by decide
  have h2 : sBits ≠ sNoCtx := by decide
  have h3 : sBits ≠ cNoCtx := by decide
  simp [act, splitN2_noeq _ sBits_noeq, h1, h2, h3]

theorem act_sBits_eq (v : Str) : act (sBits ++ '=' :: v) = .capServer (withDefault (atoi v) 15) := by
  have h1 : sBits ≠ pmd := by decide
  have h2 : sBits ≠ sNoCtx := by decide
  have h3 : sBits ≠ cNoCtx := by decide
  simp [act, splitN2_eq _ _ sBits_noeq, h1, h2, h3]

theorem act_cBits_eq (v : Str) : act (cBits ++ '=' :: v) = .capClient (withDefault (atoi v) 15) := by
  have h1 : cBits ≠ pmd := by decide
  have h2 : cBits ≠ sNoCtx := by decide
  have h3 : cBits ≠ cNoCtx := by decide
  have h4 : cBits ≠ sBits := by decide
  simp [act, splitN2_eq _ _ cBits_noeq, h1, h2, h3, h4]

/-- a parameter whose name is none of the five tokens is ignored -/
theorem act_unknown (s : Str) (h1 : (splitN2 s).1 ≠ pmd) (h2 : (splitN2 s).1 ≠ sNoCtx) (h3 : (splitN2 s).1 ≠ cNoCtx)
    (h4 : (splitN2 s).1 ≠ sBits) (h5 : (splitN2 s).1 ≠ cBits) : act s = .nop := by
  simp [act, h1, h2, h3, h4, h5]

/-! ## numbers in range -/

def InRange (n : Int) : Prop := 8 ≤ n ∧ n ≤ 15

theorem inRange_cases {n : Int} (h : InRange n) :
    n = 8 ∨ n = 9 ∨ n = 10 ∨ n = 11 ∨ n = 12 ∨ n = 13 ∨ n = 14 ∨ n = 15 := by
  unfold InRange at h; omega

theorem atoi_itoa_inRange {n : Int} (h : InRange n) : atoi (itoa n) = n := by
  rcases inRange_cases h with rfl | rfl | rfl | rfl | rfl | rfl | rfl | rfl <;> decide

theorem clean_pmd : Clean pmd := by decide
theorem clean_sNoCtx : Clean sNoCtx := by decide
theorem clean_cNoCtx : Clean cNoCtx := by decide
theorem clean_cBits : Clean cBits := by decide

theorem clean_sBits_eq {n : Int} (h : InRange n) : Clean (sBits ++ '=' :: itoa n) := by
  rcases inRange_cases h with rfl | rfl | rfl | rfl | rfl | rfl | rfl | rfl <;> decide

theorem clean_cBits_eq {n : Int} (h : InRange n) : Clean (cBits ++ '=' :: itoa n) := by
  rcases inRange_cases h with rfl | rfl | rfl | rfl | rfl | rfl | rfl | rfl <;> decide

/-! ## parsing what the generators emit -/

theorem imin_15 {n : Int} (h : n ≤ 15) : imin 15 n = n := by
  unfold imin; split <;> omega

theorem withDefault_inRange {n : Int} (h : InRange n) : withDefault n 15 = n := by
  unfold InRange at h; unfold withDefault; split <;> omega

theorem foldl_opt (o : PD) (c : Prop) [Decidable c] (t : Str) :
    List.foldl applyParam o (if c then [t] else []) = if c then applyParam o t else o := by
  split <;> rfl

theorem requestOptions_clean (p : PD) (hs : InRange p.serverBits) (hc : InRange p.clientBits) :
    ∀ t ∈ requestOptions p, Clean t := by
  intro t ht
  simp only [requestOptions, List.mem_append, List.mem_singleton] at ht
  rcases ht with (((rfl | ht) | ht) | ht) | ht
  · exact clean_pmd
  · split at ht <;> simp at ht; subst ht; exact clean_sNoCtx
  · split at ht <;> simp at ht; subst ht; exact clean_cNoCtx
  · split at ht <;> simp at ht; subst ht; exact clean_sBits_eq hs
  · split at ht
    · simp at ht; subst ht; exact clean_cBits_eq hc
    · split at ht <;> simp at ht; subst ht; exact clean_cBits

theorem responseOptions_clean (p : PD) (hs : InRange p.serverBits) (hc : InRange p.clientBits) :
    ∀ t ∈ responseOptions p, Clean t := by
  intro t ht
  simp only [responseOptions, List.mem_append, List.mem_singleton] at ht
  rcases ht with (((rfl | ht) | ht) | ht) | ht
  · exact clean_pmd
  · split at ht <;> simp at ht; subst ht; exact clean_sNoCtx
  · split at ht <;> simp at ht; subst ht; exact clean_cNoCtx
  · split at ht <;> simp at ht; subst ht; exact clean_sBits_eq hs
  · split at ht <;> simp at ht; subst ht; exact clean_cBits_eq hc

/-- the view of the four negotiable fields that a header conveys -/
def conveyed (p : PD) : PD :=
  { parseInit with serverTakeover := p.serverTakeover, clientTakeover := p.clientTakeover,
                   serverBits := p.serverBits, clientBits := p.clientBits }

/-- an offer generated from in-range settings is parsed back to exactly those settings -/
theorem parse_request (p : PD) (hs : InRange p.serverBits) (hc : InRange p.clientBits) :
    permessageNegotiation (genRequestHeader p) = conveyed p := by
  unfold permessageNegotiation genRequestHeader
  rw [split_join _ (requestOptions_clean p hs hc)]
  obtain ⟨e, st, ct, sb, cb, th⟩ := p
  simp only at hs hc
  have hs1 := withDefault_inRange hs
  have hc1 := withDefault_inRange hc
  have hs2 := imin_15 hs.2
  have hc2 := imin_15 hc.2
  have hs3 : ¬ sb < 8 := by unfold InRange at hs; omega
  have hc3 : ¬ cb < 8 := by unfold InRange at hc; omega
  cases st <;> cases ct <;> by_cases h1 : sb = 15 <;> by_cases h2 : cb = 15 <;>
    simp [requestOptions, parseParams, applyParam_eq, act_pmd, act_sNoCtx, act_cNoCtx, act_cBits_bare,
      act_sBits_eq, act_cBits_eq, atoi_itoa_inRange hs, atoi_itoa_inRange hc, Act.apply, h1, h2,
      hs1, hc1, hs2, hc2, hs3, hc3, clamp8, parseInit, conveyed]

/-- a response generated from in-range parameters is parsed back to exactly those parameters -/
theorem parse_response (p : PD) (hs : InRange p.serverBits) (hc : InRange p.clientBits) :
    permessageNegotiation (genResponseHeader p) = conveyed p := by
  unfold permessageNegotiation genResponseHeader
  rw [split_join _ (responseOptions_clean p hs hc)]
  obtain ⟨e, st, ct, sb, cb, th⟩ := p
  simp only at hs hc
  have hs1 := withDefault_inRange hs
  have hc1 := withDefault_inRange hc
  have hs2 := imin_15 hs.2
  have hc2 := imin_15 hc.2
  have hs3 : ¬ sb < 8 := by unfold InRange at hs; omega
  have hc3 : ¬ cb < 8 := by unfold InRange at hc; omega
  cases st <;> cases ct <;> by_cases h1 : sb = 15 <;> by_cases h2 : cb = 15 <;>
    simp [responseOptions, parseParams, applyParam_eq, act_pmd, act_sNoCtx, act_cNoCtx,
      act_sBits_eq, act_cBits_eq, atoi_itoa_inRange hs, atoi_itoa_inRange hc, Act.apply, h1, h2,
      hs1, hc1, hs2, hc2, hs3, hc3, clamp8, parseInit, conveyed]

theorem contains_request (p : PD) : contains (genRequestHeader p) pmd = true := by
  have : ∃ r, requestOptions p = pmd :: r := ⟨_, rfl⟩
  obtain ⟨r, hr⟩ := this
  obtain ⟨y, hy⟩ := join_cons_prefix pmd r
  rw [genRequestHeader, hr, hy]; exact contains_prefix _ _

theorem contains_response (p : PD) : contains (genResponseHeader p) pmd = true := by
  have : ∃ r, responseOptions p = pmd :: r := ⟨_, rfl⟩
  obtain ⟨r, hr⟩ := this
  obtain ⟨y, hy⟩ := join_cons_prefix pmd r
  rw [genResponseHeader, hr, hy]; exact contains_prefix _ _

/-! ## normalisation, setThreshold -/

@[simp] theorem setThreshold_enabled (b : Bool) (p : PD) : (setThreshold b p).enabled = p.enabled := by
  unfold setThreshold; split <;> rfl
@[simp] theorem setThreshold_serverTakeover (b : Bool) (p : PD) : (setThreshold b p).serverTakeover = p.serverTakeover := by
  unfold setThreshold; split <;> rfl
@[simp] theorem setThreshold_clientTakeover (b : Bool) (p : PD) : (setThreshold b p).clientTakeover = p.clientTakeover := by
  unfold setThreshold; split <;> rfl
@[simp] theorem setThreshold_serverBits (b : Bool) (p : PD) : (setThreshold b p).serverBits = p.serverBits := by
  unfold setThreshold; split <;> rfl
@[simp] theorem setThreshold_clientBits (b : Bool) (p : PD) : (setThreshold b p).clientBits = p.clientBits := by
  unfold setThreshold; split <;> rfl

theorem normServer_on (s : PD) (h : s.enabled = true) :
    (normServer s).enabled = true ∧ (normServer s).serverTakeover = s.serverTakeover ∧
    (normServer s).clientTakeover = s.clientTakeover ∧
    InRange (normServer s).serverBits ∧ InRange (normServer s).clientBits ∧ 0 < (normServer s).threshold := by
  unfold normServer InRange
  simp only [h, if_true]
  refine ⟨trivial, trivial, trivial, ?_, ?_, ?_⟩
  · repeat' split
    all_goals omega
  · repeat' split
    all_goals omega
  · split
    · decide
    · omega

theorem normClient_on (c : PD) (h : c.enabled = true) :
    (normClient c).enabled = true ∧ (normClient c).serverTakeover = c.serverTakeover ∧
    (normClient c).clientTakeover = c.clientTakeover ∧
    InRange (normClient c).serverBits ∧ InRange (normClient c).clientBits ∧ 0 < (normClient c).threshold := by
  unfold normClient InRange
  simp only [h, if_true]
  refine ⟨trivial, trivial, trivial, ?_, ?_, ?_⟩
  · repeat' split
    all_goals omega
  · repeat' split
    all_goals omega
  · split
    · decide
    · omega

theorem normServer_off (s : PD) (h : s.enabled = false) : normServer s = s := by simp [normServer, h]
theorem normClient_off (c : PD) (h : c.enabled = false) : normClient c = c := by simp [normClient, h]

/-! ## the whole handshake -/

/-- the parameters both ends arrive at when both enabled compression: the flags are the
conjunction of the two settings, the window sizes are the server's normalised settings -/
def agreed (s c : PD) (threshold : Int) : PD :=
  { enabled := true
    serverTakeover := c.serverTakeover && s.serverTakeover
    clientTakeover := c.clientTakeover && s.clientTakeover
    serverBits := (normServer s).serverBits
    clientBits := (normServer s).clientBits
    threshold := threshold }

theorem serverGetPD_request (so co : PD) (hs : InRange co.serverBits) (hc : InRange co.clientBits) :
    serverGetPD so (genRequestHeader co) = setThreshold true
      { enabled := so.enabled, serverTakeover := co.serverTakeover && so.serverTakeover,
        clientTakeover := co.clientTakeover && so.clientTakeover, serverBits := so.serverBits,
        clientBits := so.clientBits, threshold := so.threshold } := by
  unfold serverGetPD
  simp only [parse_request _ hs hc, contains_request, conveyed, Bool.and_true]

theorem clientGetPD_response (co spd : PD) (hs : InRange spd.serverBits) (hc : InRange spd.clientBits) :
    clientGetPD co (genResponseHeader spd) = setThreshold false
      { enabled := co.enabled, serverTakeover := spd.serverTakeover, clientTakeover := spd.clientTakeover,
        serverBits := spd.serverBits, clientBits := spd.clientBits, threshold := co.threshold } := by
  unfold clientGetPD
  simp only [parse_response _ hs hc, contains_response, conveyed, Bool.and_true]

/-- both sides enabled: complete evaluation of the handshake -/
theorem handshake_on (s c : PD) (hs : s.enabled = true) (hc : c.enabled = true) :
    handshake s c =
      { server := setThreshold true (agreed s c (normServer s).threshold)
        client := setThreshold false (agreed s c (normClient c).threshold)
        offer := some (genRequestHeader (normClient c))
        response := some (genResponseHeader (setThreshold true (agreed s c (normServer s).threshold))) } := by
  obtain ⟨se, sst, sct, ssr, scr, _⟩ := normServer_on s hs
  obtain ⟨ce, cst, cct, csr, ccr, _⟩ := normClient_on c hc
  have hspd : serverGetPD (normServer s) (genRequestHeader (normClient c))
      = setThreshold true (agreed s c (normServer s).threshold) := by
    rw [serverGetPD_request _ _ csr ccr, se, cst, cct, sst, sct]; rfl
  have hr1 : InRange (setThreshold true (agreed s c (normServer s).threshold)).serverBits := by
    rw [setThreshold_serverBits]; exact ssr
  have hr2 : InRange (setThreshold true (agreed s c (normServer s).threshold)).clientBits := by
    rw [setThreshold_clientBits]; exact scr
  have hen : (setThreshold true (agreed s c (normServer s).threshold)).enabled = true := by
    rw [setThreshold_enabled]; rfl
  unfold handshake
  simp only [ce, if_true, Option.getD_some, hspd, hen]
  rw [clientGetPD_response _ _ hr1 hr2, ce]
  simp only [setThreshold_serverTakeover, setThreshold_clientTakeover, setThreshold_serverBits, setThreshold_clientBits]
  rfl

/-- one side did not enable compression: it is off on both ends and the server sends no header -/
theorem handshake_off (s c : PD) (h : ¬ (s.enabled = true ∧ c.enabled = true)) :
    (handshake s c).server.enabled = false ∧ (handshake s c).client.enabled = false ∧
    (handshake s c).response = none := by
  have hnil : ∀ o : PD, (serverGetPD o []).enabled = false := by
    intro o; simp [serverGetPD, contains_nil_pmd]
  have hnil' : ∀ o : PD, (clientGetPD o []).enabled = false := by
    intro o; simp [clientGetPD, contains_nil_pmd]
  cases hc : c.enabled with
  | false =>
    unfold handshake
    simp only [normClient_off c hc, hc, Bool.false_eq_true, if_false, Option.getD_none, hnil, hnil', and_self]
  | true =>
    have hs : s.enabled = false := by
      cases hs : s.enabled with
      | false => rfl
      | true => exact absurd ⟨hs, hc⟩ h
    have hsrv : ∀ e, (serverGetPD (normServer s) e).enabled = false := by
      intro e; simp [serverGetPD, normServer_off s hs, hs]
    unfold handshake
    simp only [hsrv, Bool.false_eq_true, if_false, Option.getD_none, hnil', and_self]

/-! ## `Atoi (Itoa n) = n` on the whole int64 range -/

theorem digitChar_facts : ∀ d : Fin 10, isDigit (Nat.digitChar d.val) = true ∧ (Nat.digitChar d.val).toNat - 48 = d.val := by
  decide

theorem toDigits_all_digits (m : Nat) : ∀ c ∈ Nat.toDigits 10 m, isDigit c = true := by
  induction m using Nat.strongRecOn with
  | _ m ih =>
    by_cases h : m < 10
    · rw [Nat.toDigits_of_lt_base h]
      intro c hc
      simp only [List.mem_singleton] at hc
      subst hc
      exact (digitChar_facts ⟨m, h⟩).1
    · rw [Nat.toDigits_of_base_le (by decide) (by omega)]
      intro c hc
      simp only [List.mem_append, List.mem_singleton] at hc
      rcases hc with hc | hc
      · exact ih (m / 10) (by omega) c hc
      · subst hc
        exact (digitChar_facts ⟨m % 10, by omega⟩).1

theorem toDigits_ne_nil (m : Nat) : Nat.toDigits 10 m ≠ [] := by
  by_cases h : m < 10
  · rw [Nat.toDigits_of_lt_base h]; simp
  · rw [Nat.toDigits_of_base_le (by decide) (by omega)]; simp

/-- the digit loop reads back what `Itoa` wrote, for every value that fits `uint64` -/
theorem parseUintLoop_toDigits (m : Nat) (hm : m ≤ maxUint64) (rest : Str) :
    parseUintLoop (Nat.toDigits 10 m ++ rest) 0 = parseUintLoop rest m := by
  induction m using Nat.strongRecOn generalizing rest with
  | _ m ih =>
    unfold maxUint64 at hm
    by_cases h : m < 10
    · rw [Nat.toDigits_of_lt_base h]
      obtain ⟨h1, h2⟩ := digitChar_facts ⟨m, h⟩
      simp only at h1 h2
      have h3 : ¬ (18446744073709551615 < m) := by omega
      simp [parseUintLoop, h1, h2, h3, maxUint64]
    · rw [Nat.toDigits_of_base_le (by decide) (by omega), List.append_assoc,
        ih (m / 10) (by omega) (by unfold maxUint64; omega)]
      obtain ⟨h1, h2⟩ := digitChar_facts ⟨m % 10, by omega⟩
      simp only at h1 h2
      have h3 : ¬ (m / 10 ≥ maxUint64 / 10 + 1) := by unfold maxUint64; omega
      have h4 : m / 10 * 10 + m % 10 = m := by omega
      have h5 : ¬ m > maxUint64 := by unfold maxUint64; omega
      simp [parseUintLoop, h1, h2, h3, h4, h5]

/-- `strconv.Atoi(strconv.Itoa(n)) == n` for every `int` (int64) value -/
theorem atoi_itoa (n : Int) (hlo : minInt64 ≤ n) (hhi : n ≤ maxInt64) : atoi (itoa n) = n := by
  unfold minInt64 at hlo; unfold maxInt64 at hhi
  cases n with
  | ofNat m =>
    have hhi' : (m : Int) ≤ 9223372036854775807 := hhi
    have hm : m ≤ maxUint64 := by unfold maxUint64; omega
    have hp := parseUintLoop_toDigits m hm []
    simp only [List.append_nil, parseUintLoop] at hp
    have hd := toDigits_all_digits m
    cases hs : Nat.toDigits 10 m with
    | nil => exact absurd hs (toDigits_ne_nil m)
    | cons c cs =>
      have hc : isDigit c = true := hd c (by simp [hs])
      have hplus : c ≠ '+' := by intro e; subst e; revert hc; decide
      have hminus : c ≠ '-' := by intro e; subst e; revert hc; decide
      rw [hs] at hp
      have h63 : ¬ m ≥ 2 ^ 63 := by omega
      simp [itoa, atoi, hs, hplus, hminus, hp, h63]
  | negSucc k =>
    have hm : k + 1 ≤ maxUint64 := by unfold maxUint64; omega
    have hp := parseUintLoop_toDigits (k + 1) hm []
    simp only [List.append_nil, parseUintLoop] at hp
    have h63 : ¬ k + 1 > 2 ^ 63 := by omega
    simp [itoa, atoi, hp, h63, Int.negSucc_eq]

end Nego
