import Gws.Lemmas.Conc.Own
/-! General consequences of the ownership protocol: interleavings over disjoint locations, a delivered
buffer is not touched until the application closes it, caller payloads are read only while lent. -/
namespace Own

/-! ### Interleavings -/

theorem bufOps_eq_nil_of_loc (x : Buf) (l : List Ev) (h : ∀ e ∈ l, e.loc ≠ .inl x) : bufOps x l = [] := by
  induction l with
  | nil => rfl
  | cons e es ih =>
    have ih' := ih fun e' he' => h e' (by simp [he'])
    cases e with
    | buf b op =>
      have : b ≠ x := fun hb => h (.buf b op) (by simp) (by simp [Ev.loc, hb])
      simp [this, ih']
    | caller c op => simpa using ih'

theorem callerOps_eq_nil_of_loc (y : CBuf) (l : List Ev) (h : ∀ e ∈ l, e.loc ≠ .inr y) : callerOps y l = [] := by
  induction l with
  | nil => rfl
  | cons e es ih =>
    have ih' := ih fun e' he' => h e' (by simp [he'])
    cases e with
    | buf b op => simpa using ih'
    | caller c op =>
      have : c ≠ y := fun hb => h (.caller c op) (by simp) (by simp [Ev.loc, hb])
      simp [this, ih']

theorem exists_mem_of_bufOps_ne_nil (x : Buf) (l : List Ev) (h : bufOps x l ≠ []) : ∃ e ∈ l, e.loc = .inl x := by
  induction l with
  | nil => simp at h
  | cons e es ih =>
    cases e with
    | buf b op =>
      by_cases hb : b = x
      · exact ⟨.buf b op, by simp, by simp [Ev.loc, hb]⟩
      · simp only [bufOps_buf, hb, if_false] at h
        obtain ⟨e, he, hl⟩ := ih h
        exact ⟨e, by simp [he], hl⟩
    | caller c op =>
      simp only [bufOps_caller] at h
      obtain ⟨e, he, hl⟩ := ih h
      exact ⟨e, by simp [he], hl⟩

theorem exists_mem_of_callerOps_ne_nil (y : CBuf) (l : List Ev) (h : callerOps y l ≠ []) :
    ∃ e ∈ l, e.loc = .inr y := by
  induction l with
  | nil => simp at h
  | cons e es ih =>
    cases e with
    | buf b op =>
      simp only [callerOps_buf] at h
      obtain ⟨e, he, hl⟩ := ih h
      exact ⟨e, by simp [he], hl⟩
    | caller c op =>
      by_cases hb : c = y
      · exact ⟨.caller c op, by simp, by simp [Ev.loc, hb]⟩
      · simp only [callerOps_caller, hb, if_false] at h
        obtain ⟨e, he, hl⟩ := ih h
        exact ⟨e, by simp [he], hl⟩

/-- at a location that the other list does not touch, an interleaving performs exactly this list's operations -/
theorem Interleave.bufOps_left {l1 l2 l : List Ev} (hi : Interleave l1 l2 l) (x : Buf) (h2 : bufOps x l2 = []) :
    bufOps x l = bufOps x l1 := by
  induction hi with
  | nil => rfl
  | left e _ ih => cases e with
    | buf b op => simp only [bufOps_buf, ih h2]
    | caller c op => simpa using ih h2
  | right e _ ih => cases e with
    | buf b op =>
      simp only [bufOps_buf] at h2 ⊢
      split at h2
      · simp at h2
      · rename_i hb; simp only [hb, if_false]; exact ih h2
    | caller c op => simpa using ih (by simpa using h2)

theorem Interleave.symm {l1 l2 l : List Ev} (hi : Interleave l1 l2 l) : Interleave l2 l1 l := by
  induction hi with
  | nil => exact .nil
  | left e _ ih => exact .right e ih
  | right e _ ih => exact .left e ih

theorem Interleave.callerOps_left {l1 l2 l : List Ev} (hi : Interleave l1 l2 l) (y : CBuf) (h2 : callerOps y l2 = []) :
    callerOps y l = callerOps y l1 := by
  induction hi with
  | nil => rfl
  | left e _ ih => cases e with
    | buf b op => simpa using ih h2
    | caller c op => simp only [callerOps_caller, ih h2]
  | right e _ ih => cases e with
    | buf b op => simpa using ih (by simpa using h2)
    | caller c op =>
      simp only [callerOps_caller] at h2 ⊢
      split at h2
      · simp at h2
      · rename_i hb; simp only [hb, if_false]; exact ih h2

theorem Interleave.mem_iff {l1 l2 l : List Ev} (hi : Interleave l1 l2 l) (e : Ev) : e ∈ l ↔ e ∈ l1 ∨ e ∈ l2 := by
  induction hi with
  | nil => simp
  | left e' _ ih => simp only [List.mem_cons, ih]; exact ⟨fun h => by rcases h with h | h | h <;> simp [h], fun h => by rcases h with (h | h) | h <;> simp [h]⟩
  | right e' _ ih => simp only [List.mem_cons, ih]; exact ⟨fun h => by rcases h with h | h | h <;> simp [h], fun h => by rcases h with h | h | h <;> simp [h]⟩

theorem DisjointLocs.cases_buf {l1 l2 : List Ev} (hd : DisjointLocs l1 l2) (x : Buf) :
    bufOps x l1 = [] ∨ bufOps x l2 = [] := by
  by_cases h1 : bufOps x l1 = []
  · exact Or.inl h1
  · right
    obtain ⟨e1, he1, hl1⟩ := exists_mem_of_bufOps_ne_nil x l1 h1
    exact bufOps_eq_nil_of_loc x l2 fun e2 he2 hl2 => hd e1 he1 e2 he2 (hl1.trans hl2.symm)

theorem DisjointLocs.cases_caller {l1 l2 : List Ev} (hd : DisjointLocs l1 l2) (y : CBuf) :
    callerOps y l1 = [] ∨ callerOps y l2 = [] := by
  by_cases h1 : callerOps y l1 = []
  · exact Or.inl h1
  · right
    obtain ⟨e1, he1, hl1⟩ := exists_mem_of_callerOps_ne_nil y l1 h1
    exact callerOps_eq_nil_of_loc y l2 fun e2 he2 hl2 => hd e1 he1 e2 he2 (hl1.trans hl2.symm)

/-- Two event lists over disjoint locations that each run without violation from `h`: every
interleaving runs without violation, and ends in the heap that has, at each location, the value the
list touching that location leaves there. -/
theorem interleave_run {l1 l2 l : List Ev} {h h1 h2 : Heap} (hi : Interleave l1 l2 l) (hd : DisjointLocs l1 l2)
    (r1 : run h l1 = some h1) (r2 : run h l2 = some h2) :
    ∃ h', run h l = some h' ∧
      (∀ x, h'.cell x = if bufOps x l2 = [] then h1.cell x else h2.cell x) ∧
      (∀ y, h'.lent y = if callerOps y l2 = [] then h1.lent y else h2.lent y) := by
  obtain ⟨c1, d1⟩ := (run_eq_some_iff _ _ _).mp r1
  obtain ⟨c2, d2⟩ := (run_eq_some_iff _ _ _).mp r2
  refine ⟨{ cell := fun x => if bufOps x l2 = [] then h1.cell x else h2.cell x,
            lent := fun y => if callerOps y l2 = [] then h1.lent y else h2.lent y }, ?_, fun _ => rfl, fun _ => rfl⟩
  refine (run_eq_some_iff _ _ _).mpr ⟨fun x => ?_, fun y => ?_⟩
  · by_cases hx : bufOps x l2 = []
    · simp only [hx, if_true, hi.bufOps_left x hx]; exact c1 x
    · have hx1 : bufOps x l1 = [] := (hd.cases_buf x).resolve_right hx
      simp only [hx, if_false, hi.symm.bufOps_left x hx1]; exact c2 x
  · by_cases hy : callerOps y l2 = []
    · simp only [hy, if_true, hi.callerOps_left y hy]; exact d1 y
    · have hy1 : callerOps y l1 = [] := (hd.cases_caller y).resolve_right hy
      simp only [hy, if_false, hi.symm.callerOps_left y hy1]; exact d2 y

theorem interleave_isSome {l1 l2 l : List Ev} {h : Heap} (hi : Interleave l1 l2 l) (hd : DisjointLocs l1 l2)
    (r1 : (run h l1).isSome) (r2 : (run h l2).isSome) : (run h l).isSome := by
  obtain ⟨h1, e1⟩ := Option.isSome_iff_exists.mp r1
  obtain ⟨h2, e2⟩ := Option.isSome_iff_exists.mp r2
  obtain ⟨h', e, _⟩ := interleave_run hi hd e1 e2
  simp [e]

theorem InterleaveN.mem {ls : List (List Ev)} {l : List Ev} (hi : InterleaveN ls l) (e : Ev) (he : e ∈ l) :
    ∃ l0 ∈ ls, e ∈ l0 := by
  induction hi with
  | nil => simp at he
  | cons _ hi2 ih =>
    rcases (hi2.mem_iff e).mp he with h | h
    · exact ⟨_, by simp, h⟩
    · obtain ⟨l0, hl0, hm⟩ := ih h
      exact ⟨l0, by simp [hl0], hm⟩

/-- any number of paths over pairwise disjoint locations -/
theorem interleaveN_isSome {ls : List (List Ev)} {l : List Ev} {h : Heap} (hi : InterleaveN ls l)
    (hd : ls.Pairwise DisjointLocs) (hr : ∀ l0 ∈ ls, (run h l0).isSome) : (run h l).isSome := by
  induction hi with
  | nil => rfl
  | cons hi1 hi2 ih =>
    rw [List.pairwise_cons] at hd
    refine interleave_isSome hi2 ?_ (hr _ (by simp)) (ih hd.2 fun l0 hl0 => hr l0 (by simp [hl0]))
    intro e1 he1 e2 he2
    obtain ⟨l0, hl0, hm⟩ := hi1.mem e2 he2
    exact hd.1 l0 hl0 e1 he1 e2 hm

/-! ### A delivered buffer is the application's until it closes it -/

theorem runCell_split {c c' : Cell} {l1 l2 l3 : List BOp} {op : BOp}
    (h : runCell c (l1 ++ (op :: (l2 ++ l3))) = some c') :
    ∃ c1 c2 c3, runCell c l1 = some c1 ∧ op.apply c1 = some c2 ∧ runCell c2 l2 = some c3 ∧ runCell c3 l3 = some c' := by
  rw [runCell_append] at h
  cases h1 : runCell c l1 with
  | none => simp [h1] at h
  | some c1 =>
    simp only [h1, Option.bind_some, runCell_cons] at h
    cases h2 : op.apply c1 with
    | none => simp [h2] at h
    | some c2 =>
      simp only [h2, Option.bind_some] at h
      rw [runCell_append] at h
      cases h3 : runCell c2 l2 with
      | none => simp [h3] at h
      | some c3 =>
        simp only [h3, Option.bind_some] at h
        exact ⟨c1, c2, c3, rfl, h2, h3, h⟩

theorem runLent_split {c c' : Option Pid} {l1 l2 l3 : List COp} {op : COp}
    (h : runLent c (l1 ++ (op :: (l2 ++ l3))) = some c') :
    ∃ c1 c2 c3, runLent c l1 = some c1 ∧ op.apply c1 = some c2 ∧ runLent c2 l2 = some c3 ∧ runLent c3 l3 = some c' := by
  rw [runLent_append] at h
  cases h1 : runLent c l1 with
  | none => simp [h1] at h
  | some c1 =>
    simp only [h1, Option.bind_some, runLent_cons] at h
    cases h2 : op.apply c1 with
    | none => simp [h2] at h
    | some c2 =>
      simp only [h2, Option.bind_some] at h
      rw [runLent_append] at h
      cases h3 : runLent c2 l2 with
      | none => simp [h3] at h
      | some c3 =>
        simp only [h3, Option.bind_some] at h
        exact ⟨c1, c2, c3, rfl, h2, h3, h⟩

theorem mem_bufOps {x : Buf} {op : BOp} {l : List Ev} (h : Ev.buf x op ∈ l) : op ∈ bufOps x l := by
  induction l with
  | nil => simp at h
  | cons e es ih =>
    rcases List.mem_cons.mp h with rfl | h'
    · simp
    · cases e with
      | buf b op' => simp only [bufOps_buf]; split <;> simp [ih h']
      | caller c op' => simpa using ih h'

theorem bufOps_mem {x : Buf} {op : BOp} {l : List Ev} (h : op ∈ bufOps x l) : Ev.buf x op ∈ l := by
  induction l with
  | nil => simp at h
  | cons e es ih =>
    cases e with
    | buf b op' =>
      simp only [bufOps_buf] at h
      split at h
      · rename_i hb; subst hb
        rcases List.mem_cons.mp h with rfl | h'
        · simp
        · simp [ih h']
      · simp [ih h]
    | caller c op' => simp [ih (by simpa using h)]

/-- on a cell owned by the application, the only operations that do not fail are the application's
own and mutex operations; without `appClose` the cell stays the application's -/
theorem runCell_app {c c' : Cell} {ops : List BOp} (hc : c.own = .app) (hn : BOp.appClose ∉ ops)
    (hr : runCell c ops = some c') : c'.own = .app ∧ ∀ op ∈ ops, op.libTouch = false := by
  induction ops generalizing c with
  | nil => simp at hr; subst hr; exact ⟨hc, by simp⟩
  | cons op ops ih =>
    simp only [runCell_cons] at hr
    cases hop : op.apply c with
    | none => simp [hop] at hr
    | some c1 =>
      simp only [hop, Option.bind_some] at hr
      have hn' : BOp.appClose ∉ ops := fun hm => hn (by simp [hm])
      have hne : op ≠ .appClose := fun e => hn (by simp [e])
      have key : c1.own = .app ∧ op.libTouch = false := by
        cases op <;> simp [BOp.apply, Cell.usable, hc] at hop hne <;> (try (obtain ⟨_, rfl⟩ := hop)) <;>
          (try subst hop) <;> simp_all [BOp.libTouch]
      obtain ⟨h1, h2⟩ := ih key.1 hn' hr
      refine ⟨h1, fun o ho => ?_⟩
      rcases List.mem_cons.mp ho with rfl | ho'
      · exact key.2
      · exact h2 o ho'

/-- **Delivered data is untouched until the application closes it.** In a run without violation,
between `handoff b` and the next `appClose b` the library neither reads, nor writes, nor puts, nor
re-delivers `b` (and nobody can take it from the pool, where it is not). -/
theorem untouched_between {h h' : Heap} {pre mid post : List Ev} {b : Buf} {p : Pid}
    (hr : run h (pre ++ Ev.handoff b p :: mid ++ post) = some h') (hn : Ev.appClose b ∉ mid) :
    ∀ op, Ev.buf b op ∈ mid → op.libTouch = false := by
  have hb := ((run_eq_some_iff _ _ _).mp hr).1 b
  simp only [bufOps_append, bufOps_buf, if_true, List.append_assoc, List.cons_append] at hb
  obtain ⟨c1, c2, c3, _, h2, h3, _⟩ := runCell_split hb
  have hown : c2.own = .app := by
    simp only [BOp.apply] at h2
    split at h2 <;> simp at h2
    subst h2; rfl
  have := runCell_app hown (fun hm => hn (bufOps_mem hm)) h3
  exact fun op hop => this.2 op (mem_bufOps hop)

/-! ### Caller payloads -/

theorem runLent_no_write {s s' : Option Pid} {ops : List COp} (hr : runLent s ops = some s') :
    ∀ p, COp.write p ∉ ops := by
  induction ops generalizing s with
  | nil => simp
  | cons op ops ih =>
    simp only [runLent_cons] at hr
    cases hop : op.apply s with
    | none => simp [hop] at hr
    | some s1 =>
      simp only [hop, Option.bind_some] at hr
      intro p hm
      rcases List.mem_cons.mp hm with rfl | hm'
      · simp [COp.apply] at hop
      · exact ih hr p hm'

theorem mem_callerOps {y : CBuf} {op : COp} {l : List Ev} (h : Ev.caller y op ∈ l) : op ∈ callerOps y l := by
  induction l with
  | nil => simp at h
  | cons e es ih =>
    rcases List.mem_cons.mp h with rfl | h'
    · simp
    · cases e with
      | buf b op' => simpa using ih h'
      | caller c op' => simp only [callerOps_caller]; split <;> simp [ih h']

theorem callerOps_mem {y : CBuf} {op : COp} {l : List Ev} (h : op ∈ callerOps y l) : Ev.caller y op ∈ l := by
  induction l with
  | nil => simp at h
  | cons e es ih =>
    cases e with
    | buf b op' => simp [ih (by simpa using h)]
    | caller c op' =>
      simp only [callerOps_caller] at h
      split at h
      · rename_i hb; subst hb
        rcases List.mem_cons.mp h with rfl | h'
        · simp
        · simp [ih h']
      · simp [ih h]

/-- **The caller's payload is never written.** -/
theorem caller_never_written {h h' : Heap} {l : List Ev} (hr : run h l = some h') (c : CBuf) (p : Pid) :
    Ev.libWriteCaller c p ∉ l := fun hm =>
  runLent_no_write (((run_eq_some_iff _ _ _).mp hr).2 c) p (mem_callerOps hm)

/-- while a payload is not lent (and nobody lends it), nobody reads it -/
theorem runLent_unlent {s' : Option Pid} {ops : List COp} (hn : ∀ p, COp.lend p ∉ ops)
    (hr : runLent none ops = some s') : ops = [] := by
  cases ops with
  | nil => rfl
  | cons op ops =>
    simp only [runLent_cons] at hr
    cases op with
    | lend p => exact absurd (by simp) (hn p)
    | ret p => simp [COp.apply] at hr
    | read p => simp [COp.apply] at hr
    | write p => simp [COp.apply] at hr

/-- **The caller's payload is not read after the call has returned** (`callerReturn`: the call, the
completion callback, or for a broadcaster `Close` plus the last pending send), until it is lent again. -/
theorem caller_unread_after_return {h h' : Heap} {pre mid post : List Ev} {c : CBuf} {p : Pid}
    (hr : run h (pre ++ Ev.callerReturn c p :: mid ++ post) = some h') (hn : ∀ q, Ev.callerLend c q ∉ mid) :
    ∀ op, Ev.caller c op ∉ mid := by
  have hb := ((run_eq_some_iff _ _ _).mp hr).2 c
  simp only [callerOps_append, callerOps_caller, if_true, List.append_assoc, List.cons_append] at hb
  obtain ⟨c1, c2, c3, _, h2, h3, _⟩ := runLent_split hb
  have hc2 : c2 = none := by
    simp only [COp.apply] at h2
    split at h2 <;> simp at h2
    exact h2.symm
  subst hc2
  have := runLent_unlent (fun q hm => hn q (callerOps_mem hm)) h3
  intro op hm
  have := this ▸ mem_callerOps hm
  simp at this

/-- **… nor before the call has started.** -/
theorem caller_unread_before_lend {h h' : Heap} {pre post : List Ev} {c : CBuf}
    (hr : run h (pre ++ post) = some h') (h0 : h.lent c = none) (hn : ∀ q, Ev.callerLend c q ∉ pre) :
    ∀ op, Ev.caller c op ∉ pre := by
  have hb := ((run_eq_some_iff _ _ _).mp hr).2 c
  simp only [callerOps_append] at hb
  rw [runLent_append, h0] at hb
  cases h1 : runLent none (callerOps c pre) with
  | none => simp [h1] at hb
  | some c1 =>
    have := runLent_unlent (fun q hm => hn q (callerOps_mem hm)) h1
    intro op hm
    have := this ▸ mem_callerOps hm
    simp at this

end Own
