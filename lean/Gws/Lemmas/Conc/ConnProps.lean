import Gws.Lemmas.Conc.ConnData
import Gws.Lemmas.Conc.ConnCb
import Gws.Lemmas.Conc.ConnLive
/-!
# Consequences of the invariants, in the form used by the property files C06Conc / C07 / C08 / C09
-/

namespace Conc

/-! ### schedules and kinds -/

/-- in a schedule that runs, the ghost map gives exactly the kind each actor was spawned with -/
theorem kindMap_of_mem {xs : List Action} {s : State} (h : run {} xs = some s) :
    ∀ a k, Action.spawn a k ∈ xs → kindMap xs a = some k := by
  refine run_induction (motive := fun xs _ => ∀ a k, Action.spawn a k ∈ xs → kindMap xs a = some k) {}
    (by intro a k hm; simp at hm) (fun xs s x s' hr hm hs => ?_) xs s h
  intro a k hmem
  rw [kindMap_snoc]
  rcases List.mem_append.1 hmem with hin | hlast
  · have ih := hm a k hin
    cases x with
    | act b f => exact ih
    | spawn b k' =>
      simp only [updK]
      by_cases hab : a = b
      · subst hab
        obtain ⟨-, hidle, -⟩ := spawn_cases hs
        have := (kinv_run hr).of_idle hidle
        rw [this] at ih; cases ih
      · simp [hab, ih]
  · simp only [List.mem_singleton] at hlast
    subst hlast
    simp [updK]

theorem pc_idle_of_not_spawned {xs : List Action} {s : State} (h : run {} xs = some s) {a : Nat}
    (hn : ∀ k, Action.spawn a k ∉ xs) : s.pc a = .idle := by
  apply (kinv_run h).idle_of_none
  cases hk : kindMap xs a with
  | none => rfl
  | some k => exact (hn k (kindMap_mem hk)).elim

/-- all invariants of the connection transition system, for the state reached by schedule `xs` -/
structure Inv (xs : List Action) (s : State) : Prop where
  /-- representation: actor ids in `pcs` are unique -/
  wf : s.WF
  /-- I1–I5: mutual exclusion, CAS winner, Close frame -/
  close : CInv s
  /-- every actor is at a program counter of its kind -/
  kinds : KInv (kindMap xs) s
  /-- result of `WriteClose` vs. winner -/
  closers : WInv (kindMap xs) s
  /-- I6: data frames of each actor: a contiguous, ordered prefix of its message -/
  data : DInv (kindMap xs) s
  /-- I7 (any number of readers) -/
  cbLast : CbLast s
  readerStarted : RSInv (kindMap xs) s
  /-- I7 (single reader) -/
  reader : Sched1R xs → RInv (kindMap xs) s

/-- **every reachable state satisfies every invariant** -/
theorem inv_run {xs : List Action} {s : State} (h : run {} xs = some s) : Inv xs s :=
  ⟨wf_run h, cinv_run h, kinv_run h, winv_run h, dinv_run h, cblast_run h, rsinv_run h, rinv_run h⟩

/-! ### Close frames -/

theorem filter_isClose_of_noClose {w : List Frame} (h : NoClose w) : w.filter Frame.isClose = [] := by
  rw [List.filter_eq_nil_iff]
  intro f hf
  simp [h f hf]

theorem CInv.at_most_one_close {s : State} (hi : CInv s) : (s.wire.filter Frame.isClose).length ≤ 1 := by
  have h := hi.close_last
  rcases List.eq_nil_or_concat s.wire with e | ⟨l, b, e⟩
  · simp [e]
  · rw [e] at h ⊢
    simp only [List.concat_eq_append, List.dropLast_concat] at h
    simp only [List.concat_eq_append, List.filter_append, filter_isClose_of_noClose h, List.nil_append]
    by_cases hb : b.isClose = true <;> simp [hb]

theorem CInv.nothing_after_close {s : State} (hi : CInv s) {pre post : List Frame} {f : Frame}
    (hw : s.wire = pre ++ f :: post) (hf : f.isClose = true) : post = [] := by
  apply Classical.byContradiction
  intro hne
  have h := hi.close_last
  rw [hw, List.dropLast_append_of_ne_nil (by simp), List.dropLast_cons_of_ne_nil hne] at h
  have := h f (by simp)
  rw [hf] at this
  cases this

theorem CInv.close_closed {s : State} (hi : CInv s) {o : Nat} (hf : Frame.close o ∈ s.wire) :
    s.closed = true := by
  have := (hi.close_owner _ hf rfl).1
  rw [hi.closed_winner, this]; rfl

/-! ### a write call that starts on a closed connection -/

theorem Trans.closed_mono {s t : State} {a : Nat} {f : Bool} {q p' : Pc} (ht : Trans s a f q t p')
    (h : s.closed = true) : t.closed = true := by
  cases ht <;> simp_all

/-- what an action does to the wire: nothing, or it appends one frame of the acting lock holder -/
theorem Trans.wire_cases {s t : State} {a : Nat} {f : Bool} {q p' : Pc} (ht : Trans s a f q t p') :
    t.wire = s.wire ∨ ∃ g, t.wire = s.wire ++ [g] ∧ g.owner = a ∧ q.holdsLock = true ∧ f = false ∧
      s.tclosed = false := by
  cases ht <;> simp_all [Frame.owner, Pc.holdsLock]

theorem step_closed_mono {s s' : State} {x : Action} (h : step s x = some s') (hc : s.closed = true) :
    s'.closed = true := by
  cases x with
  | spawn a k => obtain ⟨rfl, -, -⟩ := spawn_cases h; exact hc
  | act a f =>
    obtain ⟨t, p', rfl, -, ht⟩ := act_cases h
    exact ht.closed_mono hc

/-- the program counters of a write call that found (or will find) the connection closed -/
def Pc.rejectedPath : Pc → Bool
  | .wLock _ | .fLock _ | .fCheck 0 _ | .bLock | .cCas (.ret .closed) | .done .closed => true
  | _ => false

/-- invariant of the continuation after spawning a write call on a closed connection -/
structure LateWriter (a : Nat) (s : State) : Prop where
  closed : s.closed = true
  path : (s.pc a).rejectedPath = true
  noFrame : ∀ f ∈ s.wire, f.owner ≠ a

theorem lateWriter_step {a : Nat} {s s' : State} {x : Action} (hi : LateWriter a s)
    (h : step s x = some s') : LateWriter a s' := by
  obtain ⟨h1, h2, h3⟩ := hi
  cases x with
  | spawn b k =>
    obtain ⟨rfl, hidle, -⟩ := spawn_cases h
    have hab : a ≠ b := by intro e; subst e; rw [hidle] at h2; cases h2
    exact ⟨h1, by simpa [pc_setPc, hab] using h2, h3⟩
  | act b f =>
    obtain ⟨t, p', rfl, hp, ht⟩ := act_cases h
    clear h
    by_cases hab : a = b
    · subst hab
      generalize hq : s.pc a = q at ht h2
      refine ⟨ht.closed_mono h1, ?_, ?_⟩
      · cases ht with
        | casLoseRet r _ _ => cases r <;> simp_all [Pc.rejectedPath]
        | _ => simp_all [Pc.rejectedPath]
      · upd_simp
        cases ht <;> simp_all [Pc.rejectedPath]
    · refine ⟨ht.closed_mono h1, by simpa [pc_setPc, hab, pc_of_pcs_eq hp] using h2, ?_⟩
      upd_simp
      rcases ht.wire_cases with e | ⟨g, e, ho, -⟩
      · rw [e]; exact h3
      · rw [e]
        intro f hf
        rcases List.mem_append.1 hf with hf | hf
        · exact h3 f hf
        · simp only [List.mem_singleton] at hf
          subst hf; rw [ho]; exact fun e => hab e.symm

theorem lateWriter_spawn {a : Nat} {k : Kind} {s s₁ : State} (hc : CInv s) (hcl : s.closed = true)
    (hk : k.isWriter = true) (h : step s (.spawn a k) = some s₁) : LateWriter a s₁ := by
  obtain ⟨rfl, hidle, -⟩ := spawn_cases h
  refine ⟨hcl, ?_, ?_⟩
  · cases k <;> simp_all [startPc, Pc.rejectedPath, Kind.isWriter, Facts.bcClosedCheckUnderLock]
  · intro f hf e
    have := hc.owner_spawned f hf
    rw [e, hidle] at this
    exact this rfl

theorem lateWriter_run {a : Nat} {s₁ s₂ : State} {xs : List Action} (hi : LateWriter a s₁)
    (h : run s₁ xs = some s₂) : LateWriter a s₂ :=
  run_induction (motive := fun _ s => LateWriter a s) s₁ hi (fun _ _ _ _ _ hm hs => lateWriter_step hm hs) xs s₂ h

theorem owner_of_isDataOf {a : Nat} {f : Frame} (h : isDataOf a f = true) : f.owner = a := by
  cases f <;> simp_all [isDataOf, Frame.owner]

theorem LateWriter.result {a : Nat} {s : State} (hi : LateWriter a s) :
    (∀ f ∈ s.wire, f.owner ≠ a) ∧ s.wire.filter (isDataOf a) = [] ∧ ∀ r, s.pc a = .done r → r = .closed := by
  refine ⟨hi.noFrame, ?_, ?_⟩
  · rw [List.filter_eq_nil_iff]
    intro f hf hd
    exact hi.noFrame f hf (owner_of_isDataOf hd)
  · intro r hr
    have := hi.path
    rw [hr] at this
    cases r <;> simp_all [Pc.rejectedPath]

/-! ### data frames -/

theorem filter_noData {a : Nat} {w : List Frame} (h : NoData a w) : w.filter (isDataOf a) = [] := by
  rw [List.filter_eq_nil_iff]
  intro f hf
  simp [h f hf]

theorem filter_msgFrames (a N i : Nat) : (msgFrames a N i).filter (isDataOf a) = msgFrames a N i := by
  rw [List.filter_eq_self]
  intro f hf
  obtain ⟨j, -, rfl⟩ := mem_msgFrames.1 hf
  simp [isDataOf]

theorem filter_decomp {a N i : Nat} {w pre post : List Frame} (hw : w = pre ++ msgFrames a N i ++ post)
    (h1 : NoData a pre) (h2 : NoData a post) : w.filter (isDataOf a) = msgFrames a N i := by
  rw [hw, List.filter_append, List.filter_append, filter_noData h1, filter_noData h2, filter_msgFrames]
  simp

/-- the wire seen from a spawned actor of kind `k` -/
theorem dclause_of_spawned {xs : List Action} {s : State} (h : run {} xs = some s) {a : Nat} {k : Kind}
    (hk : Action.spawn a k ∈ xs) : DClause k.frames (s.pc a) s.wire a := by
  have := dinv_run h a
  simpa [framesN, kindMap_of_mem h a k hk] using this

theorem fin_frame_progress {a N i j : Nat} {w pre post : List Frame} (hw : w = pre ++ msgFrames a N i ++ post)
    (h1 : NoData a pre) (h2 : NoData a post) (hf : Frame.data a j true ∈ w) : N ≤ i ∧ 0 < i := by
  rw [hw] at hf
  simp only [List.mem_append] at hf
  rcases hf with (hf | hf) | hf
  · have := h1 _ hf; simp [isDataOf] at this
  · obtain ⟨j', hj', e⟩ := mem_msgFrames.1 hf
    simp only [Frame.data.injEq, true_and] at e
    obtain ⟨rfl, e⟩ := e
    have : j + 1 = N := by simpa using e.symm
    omega
  · have := h2 _ hf; simp [isDataOf] at this

theorem success_iff {xs : List Action} {s : State} (h : run {} xs = some s) {a : Nat} {k : Kind}
    (hk : Action.spawn a k ∈ xs) (hw : k.isWriter = true) {r : Ret} (hd : s.pc a = .done r) :
    (r = .ok ↔ s.wire.filter (isDataOf a) = msgFrames a k.frames k.frames) ∧
    (r ≠ .ok → ∀ j, Frame.data a j true ∉ s.wire) := by
  obtain ⟨i, pre, post, hwire, h1, h2, h3⟩ := dclause_of_spawned h hk
  have hN : 1 ≤ k.frames := by cases k <;> simp_all [Kind.frames, Kind.isWriter]
  rw [hd] at h3
  have hfil := filter_decomp hwire h1 h2
  constructor
  · constructor
    · rintro rfl
      have : i = k.frames := by simpa [Prog] using h3.2
      rw [hfil, this]
    · intro e
      rw [hfil] at e
      have hi : i = k.frames := by
        have := congrArg List.length e
        simpa [length_msgFrames] using this
      cases r <;> simp_all [Prog] <;> omega
  · intro hne j hj
    have := fin_frame_progress hwire h1 h2 hj
    cases r <;> simp_all [Prog] <;> omega

theorem rejected_no_data {xs : List Action} {s : State} (h : run {} xs = some s) {a : Nat}
    (hd : s.pc a = .done .rejected) : ∀ f ∈ s.wire, isDataOf a f = false := by
  obtain ⟨i, pre, post, hwire, h1, h2, h3⟩ := dinv_run h a
  rw [hd] at h3
  have hi : i = 0 := by simpa [Prog] using h3.2
  subst hi
  rw [hwire]
  exact noData_msgFrames_zero h1 h2

/-- data frames on the wire belong to spawned actors of a writing kind -/
theorem data_owner_is_writer {xs : List Action} {s : State} (h : run {} xs = some s) {a j : Nat} {l : Bool}
    (hf : Frame.data a j l ∈ s.wire) : ∃ k, Action.spawn a k ∈ xs ∧ k.isWriter = true := by
  obtain ⟨i, pre, post, hwire, h1, h2, h3⟩ := dinv_run h a
  have hpos : 0 < framesN (kindMap xs) a := by
    apply Classical.byContradiction
    intro hn
    have hi : i = 0 := by have := h3.1; omega
    subst hi
    have := noData_msgFrames_zero (N := framesN (kindMap xs) a) h1 h2 _ (hwire ▸ hf)
    simp [isDataOf] at this
  unfold framesN at hpos
  cases hk : kindMap xs a with
  | none => simp [hk] at hpos
  | some k =>
    refine ⟨k, kindMap_mem hk, ?_⟩
    cases k <;> simp_all [Kind.frames, Kind.isWriter]

/-! ### partial frames -/

/-- no transport fault in the schedule -/
def NoFault (xs : List Action) : Prop := ∀ x ∈ xs, ∀ a, x ≠ Action.act a true

theorem Trans.partial_cases {s t : State} {a : Nat} {f : Bool} {q p' : Pc} (ht : Trans s a f q t p') :
    t.partialAfter = s.partialAfter ∨
      (f = true ∧ s.tclosed = false ∧ q.holdsLock = true ∧ t.wire = s.wire) := by
  cases ht <;> simp_all [FailW, Pc.holdsLock] <;> (rename_i h; rcases h with h | h <;> simp_all)

theorem partial_step {s s' : State} {x : Action} (h : step s x = some s') :
    s'.partialAfter = s.partialAfter ∨
      ∃ a, x = .act a true ∧ s.tclosed = false ∧ (s.pc a).holdsLock = true ∧ s'.wire = s.wire := by
  cases x with
  | spawn a k => obtain ⟨rfl, -, -⟩ := spawn_cases h; left; rfl
  | act a f =>
    obtain ⟨t, p', rfl, -, ht⟩ := act_cases h
    rcases ht.partial_cases with e | ⟨rfl, h1, h2, h3⟩
    · left; simpa using e
    · right; exact ⟨a, rfl, h1, h2, by simpa using h3⟩

theorem no_partial_of_noFault {xs : List Action} {s : State} (h : run {} xs = some s) (hn : NoFault xs) :
    s.partialAfter = false := by
  revert hn
  refine run_induction (motive := fun xs s => NoFault xs → s.partialAfter = false) {} (fun _ => rfl)
    (fun xs s x s' _ hm hs hn => ?_) xs s h
  have ih := hm (fun y hy => hn y (List.mem_append_left _ hy))
  rcases partial_step hs with e | ⟨a, rfl, -⟩
  · rw [e, ih]
  · exact (hn _ (by simp) a rfl).elim

/-! ### callbacks -/

def Cb.isClosed : Cb → Bool
  | .closedCb _ => true
  | _ => false

/-- open first, messages, at most one close, last -/
def CbShape (cbs : List Cb) : Prop :=
  cbs = [] ∨ ∃ m tail, cbs = .opened :: List.replicate m .message ++ tail ∧ (tail = [] ∨ ∃ c, tail = [.closedCb c])

theorem cbShape_of_rstate {sc : List Inbound} {cbs : List Cb} {p : Pc} (h : RState sc cbs p) : CbShape cbs := by
  cases p <;> simp only [RState] at h
  case rOpen => exact Or.inl h.2
  case rLoop => obtain ⟨m, -, e⟩ := h; exact Or.inr ⟨m, [], by simpa using e, Or.inl rfl⟩
  case done => obtain ⟨m, _, c, -, -, e⟩ := h; exact Or.inr ⟨m, [.closedCb c], e, Or.inr ⟨c, rfl⟩⟩
  all_goals (obtain ⟨m, _, -, -, e⟩ := h; exact Or.inr ⟨m, [], by simpa using e, Or.inl rfl⟩)

theorem cbShape_run {xs : List Action} {s : State} (h : run {} xs = some s) (h1 : Sched1R xs) :
    CbShape s.cbs := by
  have hi := rinv_run h h1
  by_cases hn : NoReader (kindMap xs)
  · exact Or.inl (hi.noReader hn)
  · have : ∃ a sc, kindMap xs a = some (.reader sc) := by
      apply Classical.byContradiction
      intro hne
      apply hn
      intro a k hk
      cases k <;> simp [Kind.isReader]
      exact hne ⟨a, _, hk⟩
    obtain ⟨a, sc, hk⟩ := this
    exact cbShape_of_rstate (hi.reader a sc hk)

theorem CbShape.closed_once {cbs : List Cb} (h : CbShape cbs) :
    (cbs.filter Cb.isClosed).length ≤ 1 ∧ (cbs.filter (· == .opened)).length ≤ 1 ∧
    ∀ c, Cb.closedCb c ∈ cbs → cbs.getLast? = some (.closedCb c) := by
  rcases h with rfl | ⟨m, tail, rfl, rfl | ⟨c, rfl⟩⟩
  · simp
  · refine ⟨?_, ?_, ?_⟩
    · simp [Cb.isClosed]
    · simp
    · intro c hc
      simp at hc
  · refine ⟨?_, ?_, ?_⟩
    · simp [List.filter_cons, List.filter_append, Cb.isClosed]
    · simp [List.filter_append]
    · intro c' hc
      simp at hc
      subst hc
      exact List.getLast?_concat

/-! ### teardown -/

theorem reachable_step {s s' : State} {x : Action} (h : Reachable s) (hs : step s x = some s') :
    Reachable s' := by
  obtain ⟨xs, hr⟩ := h
  exact ⟨xs ++ [x], run_snoc hr hs⟩

/-- a run consisting of `act`s only is no longer than the measure of its first state -/
theorem acts_bounded {s s' : State} {xs : List Action} (h : Reachable s) (hr : run s xs = some s')
    (ha : ∀ x ∈ xs, ∃ a f, x = Action.act a f) : xs.length + steps s' ≤ steps s := by
  induction xs generalizing s with
  | nil => simp [run] at hr; subst hr; simp
  | cons x xs ih =>
    simp only [run] at hr
    split at hr
    · cases hr
    · rename_i s1 hs1
      obtain ⟨a, f, rfl⟩ := ha x (by simp)
      obtain ⟨ys, hy⟩ := h
      have hd := steps_decreases (cinv_run hy) hs1
      have := ih (reachable_step ⟨ys, hy⟩ hs1) hr (fun y hy => ha y (List.mem_cons_of_mem _ hy))
      simp only [List.length_cons]
      omega

theorem teardown {xs : List Action} {s : State} (h : run {} xs = some s)
    (hall : ∀ a, s.pc a = .idle ∨ ∃ r, s.pc a = .done r) (hc : s.closed = true) :
    s.tclosed = true ∧ ∀ a sc, Action.spawn a (.reader sc) ∈ xs → ∃ c, s.cbs.getLast? = some (.closedCb c) := by
  have hi := cinv_run h
  constructor
  · have hw := hi.closed_winner
    rw [hc] at hw
    cases hwn : s.winner with
    | none => rw [hwn] at hw; cases hw
    | some w =>
      rcases hi.winner_pc w hwn with h1 | ⟨h1, -⟩
      · rcases hall w with e | ⟨r, e⟩ <;> rw [e] at h1 <;> cases h1
      · exact h1
  · intro a sc hk
    have hinact : ∀ b, (s.pc b).readerActive = false := by
      intro b
      rcases hall b with e | ⟨r, e⟩ <;> rw [e] <;> rfl
    rcases rsinv_run h a sc (kindMap_of_mem h a _ hk) with ⟨sc', e⟩ | hne
    · rcases hall a with e' | ⟨r, e'⟩ <;> rw [e'] at e <;> cases e
    · rcases cblast_run h hinact with e | e
      · exact (hne e).elim
      · exact e

end Conc
