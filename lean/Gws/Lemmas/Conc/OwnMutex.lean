import Gws.Lemmas.Conc.OwnGeneral
import Gws.Lemmas.Conc.OwnPaths
/-! Interleavings of paths that share mutex-guarded locations (same connection: `c.mu` and the window;
same deflater: its scratch and its writer): no interleaving ever reaches a violation — the only event
that may fail to be enabled is a `lock` of a held mutex, i.e. a schedule the mutex rules out. -/
namespace Own

inductive COut where
  | ok (c : Cell)
  | blocked
  | violation

def runCellB (c : Cell) : List BOp → COut
  | [] => .ok c
  | op :: ops =>
    match op.apply c with
    | some c' => runCellB c' ops
    | none => match op with
      | .lock _ => .blocked
      | _ => .violation

theorem runCellB_of_runCell {c c' : Cell} {ops : List BOp} (h : runCell c ops = some c') : runCellB c ops = .ok c' := by
  induction ops generalizing c with
  | nil => simp at h; subst h; rfl
  | cons op ops ih =>
    simp only [runCell_cons] at h
    cases hop : op.apply c with
    | none => simp [hop] at h
    | some c1 =>
      simp only [hop, Option.bind_some] at h
      simp only [runCellB, hop]; exact ih h

/-- a violation of the whole run is a violation at one location -/
theorem runB_violation {h : Heap} {l : List Ev} (hv : runB h l = .violation) :
    (∃ x, runCellB (h.cell x) (bufOps x l) = .violation) ∨ (∃ y, runLent (h.lent y) (callerOps y l) = none) := by
  induction l generalizing h with
  | nil => simp [runB] at hv
  | cons e es ih =>
    cases e with
    | buf b op =>
      simp only [runB, step] at hv
      cases hop : op.apply (h.cell b) with
      | none =>
        simp only [hop, Option.map_none] at hv
        left; refine ⟨b, ?_⟩
        simp only [bufOps_buf, if_true, runCellB, hop]
        cases op <;> simp_all [Ev.isLock]
      | some c =>
        simp only [hop, Option.map_some] at hv
        rcases ih hv with ⟨x, hx⟩ | ⟨y, hy⟩
        · left; refine ⟨x, ?_⟩
          by_cases hbx : b = x
          · subst hbx; simpa [runCellB, hop] using hx
          · simpa [hbx, upd_get_ne _ _ _ _ (Ne.symm hbx)] using hx
        · right; exact ⟨y, by simpa using hy⟩
    | caller c op =>
      simp only [runB, step] at hv
      cases hop : op.apply (h.lent c) with
      | none => right; exact ⟨c, by simp [runLent_cons, hop]⟩
      | some s =>
        simp only [hop, Option.map_some] at hv
        rcases ih hv with ⟨x, hx⟩ | ⟨y, hy⟩
        · left; exact ⟨x, by simpa using hx⟩
        · right; refine ⟨y, ?_⟩
          by_cases hcy : c = y
          · subst hcy; simpa [runLent_cons, hop] using hy
          · simpa [hcy, upd_get_ne _ _ _ _ (Ne.symm hcy)] using hy

theorem Interleave.bufOps {l1 l2 l : List Ev} (hi : Interleave l1 l2 l) (x : Buf) :
    Interleave (bufOps x l1) (bufOps x l2) (bufOps x l) := by
  induction hi with
  | nil => exact .nil
  | left e _ ih => cases e with
    | buf b op =>
      simp only [bufOps_buf]; split
      · exact .left op ih
      · exact ih
    | caller c op => simpa using ih
  | right e _ ih => cases e with
    | buf b op =>
      simp only [bufOps_buf]; split
      · exact .right op ih
      · exact ih
    | caller c op => simpa using ih

/-- the rest of a critical section of `p`, then further sections -/
def Inside (o : Owner) (p : Pid) (ops : List BOp) : Prop :=
  ∃ body rest, ops = body ++ .unlock p :: rest ∧
    (∀ op ∈ body, (op = .read p ∨ op = .write p) ∧ (o = .guarded ∨ o = .lib p)) ∧ Bracketed o rest

/-- who is where: nobody holds the mutex and both are between sections, or one of them is inside a section -/
def MState (o : Owner) (c : Cell) (r1 r2 : List BOp) : Prop :=
  (c.held = none ∧ Bracketed o r1 ∧ Bracketed o r2) ∨
  (∃ p, c.held = some p ∧ Inside o p r1 ∧ Bracketed o r2) ∨
  (∃ p, c.held = some p ∧ Bracketed o r1 ∧ Inside o p r2)

theorem MState.symm {o : Owner} {c : Cell} {r1 r2 : List BOp} (h : MState o c r1 r2) : MState o c r2 r1 := by
  rcases h with ⟨a, b, d⟩ | ⟨p, a, b, d⟩ | ⟨p, a, b, d⟩
  · exact Or.inl ⟨a, d, b⟩
  · exact Or.inr (Or.inr ⟨p, a, d, b⟩)
  · exact Or.inr (Or.inl ⟨p, a, d, b⟩)

/-- one step of the side that moves -/
theorem mstate_step {o : Owner} {c : Cell} {e : BOp} {r1 r2 : List BOp} (hc : c.own = o)
    (hst : MState o c (e :: r1) r2) :
    (∃ c', e.apply c = some c' ∧ c'.own = o ∧ MState o c' r1 r2) ∨ (e.apply c = none ∧ ∃ q, e = .lock q) := by
  rcases hst with ⟨hh, hb1, hb2⟩ | ⟨p, hh, hin, hb2⟩ | ⟨p, hh, hb1, hin⟩
  · cases hb1 with
    | sect p body rest hbody hrest =>
      left
      refine ⟨{ c with held := some p }, by simp [BOp.apply, hh], hc, Or.inr (Or.inl ⟨p, rfl, ⟨body, rest, rfl, hbody, hrest⟩, hb2⟩)⟩
  · obtain ⟨body, rest, heq, hbody, hrest⟩ := hin
    cases body with
    | nil =>
      simp only [List.nil_append, List.cons.injEq] at heq
      obtain ⟨rfl, rfl⟩ := heq
      left
      exact ⟨{ c with held := none }, by simp [BOp.apply, hh], hc, Or.inl ⟨rfl, hrest, hb2⟩⟩
    | cons b0 body' =>
      simp only [List.cons_append, List.cons.injEq] at heq
      obtain ⟨rfl, rfl⟩ := heq
      left
      obtain ⟨hop, huse⟩ := hbody e (by simp)
      have husable : c.usable p := by
        unfold Cell.usable
        rcases huse with hu | hu
        · exact Or.inr ⟨hc.trans hu, hh⟩
        · exact Or.inl (hc.trans hu)
      refine ⟨c, ?_, hc, Or.inr (Or.inl ⟨p, hh, ⟨body', rest, rfl, fun op hop' => hbody op (by simp [hop']), hrest⟩, hb2⟩)⟩
      rcases hop with rfl | rfl <;> simp [BOp.apply, husable]
  · cases hb1 with
    | sect q body rest hbody hrest =>
      right
      exact ⟨by simp [BOp.apply, hh], q, rfl⟩

/-- **Two bracketed operation sequences on one mutex-guarded location never produce a violation**,
however they are interleaved. -/
theorem bracketed_interleave {o : Owner} {r1 r2 ops : List BOp} (hi : Interleave r1 r2 ops) (c : Cell)
    (hc : c.own = o) (hst : MState o c r1 r2) : runCellB c ops ≠ .violation := by
  induction hi generalizing c with
  | nil => simp [runCellB]
  | left e _ ih =>
    rcases mstate_step hc hst with ⟨c', h1, h2, h3⟩ | ⟨h1, q, rfl⟩
    · simp only [runCellB, h1]; exact ih c' h2 h3
    · simp [runCellB, h1]
  | right e _ ih =>
    rcases mstate_step hc hst.symm with ⟨c', h1, h2, h3⟩ | ⟨h1, q, rfl⟩
    · simp only [runCellB, h1]; exact ih c' h2 h3.symm
    · simp [runCellB, h1]

/-- **Concurrent paths that share mutex-guarded locations.** Two event lists that each run without
violation from `h`, whose common buffer locations are all used in critical sections only (mutex free
in `h`), and that share no caller payload: NO interleaving reaches a violation. An interleaving may
fail to be a possible schedule — only by asking for a mutex that is held. -/
theorem interleave_mutex {l1 l2 l : List Ev} {h : Heap} (hi : Interleave l1 l2 l)
    (hbuf : ∀ x, bufOps x l1 = [] ∨ bufOps x l2 = [] ∨
      ((h.cell x).held = none ∧ Bracketed (h.cell x).own (bufOps x l1) ∧ Bracketed (h.cell x).own (bufOps x l2)))
    (hcal : ∀ y, callerOps y l1 = [] ∨ callerOps y l2 = [])
    (r1 : (run h l1).isSome) (r2 : (run h l2).isSome) : runB h l ≠ .violation := by
  intro hv
  obtain ⟨a1, b1⟩ := (run_isSome_iff h l1).mp r1
  obtain ⟨a2, b2⟩ := (run_isSome_iff h l2).mp r2
  rcases runB_violation hv with ⟨x, hx⟩ | ⟨y, hy⟩
  · rcases hbuf x with e | e | ⟨hh, hb1, hb2⟩
    · rw [hi.symm.bufOps_left x e] at hx
      obtain ⟨c', hc'⟩ := Option.isSome_iff_exists.mp (a2 x)
      rw [runCellB_of_runCell hc'] at hx; simp at hx
    · rw [hi.bufOps_left x e] at hx
      obtain ⟨c', hc'⟩ := Option.isSome_iff_exists.mp (a1 x)
      rw [runCellB_of_runCell hc'] at hx; simp at hx
    · exact bracketed_interleave (hi.bufOps x) (h.cell x) rfl (Or.inl ⟨hh, hb1, hb2⟩) hx
  · rcases hcal y with e | e
    · rw [hi.symm.callerOps_left y e] at hy
      have := b2 y; simp [hy] at this
    · rw [hi.callerOps_left y e] at hy
      have := b1 y; simp [hy] at this

/-! ### The library's paths use shared locations in critical sections only -/

/-- `doWrite`: `c.mu` (+ window) and the deflater's writer are used bracketed -/
theorem writeFrame_bracketed (compressed window client : Bool) (p : Pid) (c : CBuf) (m z f x : Buf) (o : Owner)
    (hmz : m ≠ z) (hmf : m ≠ f) (hzf : z ≠ f) (hxf : x ≠ f)
    (hm : x = m → window = true → o = .guarded) (hz : x = z → o = .guarded) :
    Bracketed o (bufOps x (writeFrame compressed window client p c m z f)) := by
  by_cases h0 : m = x
  · subst h0
    cases window
    · cases compressed <;> cases client <;>
        simp [writeFrame, Ne.symm hmz, Ne.symm hmf] <;>
        exact .sect p [] [] (by simp) .nil
    · have ho := hm rfl rfl
      cases compressed <;> cases client <;>
        simp [writeFrame, Ne.symm hmz, Ne.symm hmf]
      · exact .sect p [.write p] [] (by simp [ho]) .nil
      · exact .sect p [.write p] [] (by simp [ho]) .nil
      · exact .sect p [.read p, .write p] [] (by simp [ho]) .nil
      · exact .sect p [.read p, .write p] [] (by simp [ho]) .nil
  by_cases h1 : z = x
  · subst h1
    have ho := hz rfl
    cases compressed <;> cases window <;> cases client <;>
      simp [writeFrame, h0, Ne.symm hzf] <;>
      first | exact .nil | exact .sect p [.write p] [] (by simp [ho]) .nil
  · cases compressed <;> cases window <;> cases client <;>
      simp [writeFrame, h0, h1, Ne.symm hxf] <;> exact .nil

/-- `readMessage` on a compressed frame: the deflater's scratch is used bracketed -/
theorem readSingle_bracketed (masked closeNow : Bool) (p : Pid) (a b s : Buf) (d : Option Buf)
    (has : a ≠ s) (hbs : b ≠ s) (hds : d ≠ some s) :
    Bracketed .guarded (bufOps s (readSingle true masked closeNow p a b s d)) := by
  cases masked <;> cases closeNow <;>
    simp [readSingle, inflate, handler, has, hbs, hds] <;>
    exact .sect p [.write p, .read p] [] (by simp) .nil

theorem writeFrame_bufOps_other (compressed window client : Bool) (p : Pid) (c : CBuf) (m z f x : Buf)
    (hm : x ≠ m) (hz : x ≠ z) (hf : x ≠ f) : bufOps x (writeFrame compressed window client p c m z f) = [] := by
  cases compressed <;> cases window <;> cases client <;> simp [writeFrame, Ne.symm hm, Ne.symm hz, Ne.symm hf]

theorem writeFrame_callerOps_other (compressed window client : Bool) (p : Pid) (c y : CBuf) (m z f : Buf)
    (hc : y ≠ c) : callerOps y (writeFrame compressed window client p c m z f) = [] := by
  cases compressed <;> cases window <;> cases client <;> simp [writeFrame, Ne.symm hc]

theorem readSingle_bufOps_other (compressed masked closeNow : Bool) (p : Pid) (a b s x : Buf) (d : Option Buf)
    (ha : x ≠ a) (hb : x ≠ b) (hs : x ≠ s) (hd : d ≠ some x) :
    bufOps x (readSingle compressed masked closeNow p a b s d) = [] := by
  cases compressed <;> cases masked <;> cases closeNow <;>
    simp [readSingle, inflate, handler, Ne.symm ha, Ne.symm hb, Ne.symm hs, hd]

theorem readSingle_callerOps (compressed masked closeNow : Bool) (p : Pid) (a b s : Buf) (d : Option Buf) (y : CBuf) :
    callerOps y (readSingle compressed masked closeNow p a b s d) = [] := by
  cases compressed <;> cases masked <;> cases closeNow <;> simp [readSingle, inflate, handler]

/-- two `doWrite` calls on the same connection, from different goroutines -/
theorem writers_same_connection (k1 w1 cl1 k2 w2 cl2 : Bool) (p1 p2 : Pid) (c1 c2 : CBuf) (m z f1 f2 : Buf)
    (h : Heap) (om : Owner) (l : List Ev)
    (hi : Interleave (writeFrame k1 w1 cl1 p1 c1 m z f1) (writeFrame k2 w2 cl2 p2 c2 m z f2) l)
    (hc : c1 ≠ c2) (hmz : m ≠ z) (hmf1 : m ≠ f1) (hmf2 : m ≠ f2) (hzf1 : z ≠ f1) (hzf2 : z ≠ f2) (hff : f1 ≠ f2)
    (hl1 : h.lent c1 = none) (hl2 : h.lent c2 = none)
    (hm : h.cell m = ⟨om, none⟩) (hw : w1 = true ∨ w2 = true → om = .guarded)
    (hz : h.cell z = ⟨.guarded, none⟩) (hf1 : (h.cell f1).own = .pool) (hf2 : (h.cell f2).own = .pool) :
    runB h l ≠ .violation := by
  obtain ⟨k1', hf1'⟩ := cell_pool_eta hf1
  obtain ⟨k2', hf2'⟩ := cell_pool_eta hf2
  have r1 := writeFrame_run k1 w1 cl1 p1 c1 m z f1 h om k1' hmz hmf1 hzf1 hl1 hm (fun e => hw (Or.inl e)) hz hf1'
  have r2 := writeFrame_run k2 w2 cl2 p2 c2 m z f2 h om k2' hmz hmf2 hzf2 hl2 hm (fun e => hw (Or.inr e)) hz hf2'
  refine interleave_mutex hi (fun x => ?_) (fun y => ?_) (by simp [r1]) (by simp [r2])
  · by_cases hx1 : x = f1
    · subst hx1
      exact Or.inr (Or.inl (writeFrame_bufOps_other _ _ _ _ _ _ _ _ _ (Ne.symm hmf1) (Ne.symm hzf1) hff))
    by_cases hx2 : x = f2
    · subst hx2
      exact Or.inl (writeFrame_bufOps_other _ _ _ _ _ _ _ _ _ (Ne.symm hmf2) (Ne.symm hzf2) (Ne.symm hff))
    by_cases hxm : x = m
    · subst hxm
      refine Or.inr (Or.inr ⟨by simp [hm], ?_, ?_⟩)
      · exact writeFrame_bracketed _ _ _ _ _ _ _ _ _ _ hmz hmf1 hzf1 hx1 (fun _ e => by simp [hm, hw (Or.inl e)])
          (fun e => absurd e hmz)
      · exact writeFrame_bracketed _ _ _ _ _ _ _ _ _ _ hmz hmf2 hzf2 hx2 (fun _ e => by simp [hm, hw (Or.inr e)])
          (fun e => absurd e hmz)
    by_cases hxz : x = z
    · subst hxz
      refine Or.inr (Or.inr ⟨by simp [hz], ?_, ?_⟩)
      · exact writeFrame_bracketed _ _ _ _ _ _ _ _ _ _ hmz hmf1 hzf1 hx1 (fun e => absurd e.symm hmz) (fun _ => by simp [hz])
      · exact writeFrame_bracketed _ _ _ _ _ _ _ _ _ _ hmz hmf2 hzf2 hx2 (fun e => absurd e.symm hmz) (fun _ => by simp [hz])
    · exact Or.inl (writeFrame_bufOps_other _ _ _ _ _ _ _ _ _ hxm hxz hx1)
  · by_cases hy : y = c1
    · subst hy; exact Or.inr (writeFrame_callerOps_other _ _ _ _ _ _ _ _ _ hc)
    · exact Or.inl (writeFrame_callerOps_other _ _ _ _ _ _ _ _ _ hy)

/-- two read loops, on different connections that were given the same deflater, each inflating a message -/
theorem readers_shared_deflater (m1 n1 m2 n2 : Bool) (p1 p2 : Pid) (a1 b1 a2 b2 s : Buf) (d1 d2 : Option Buf)
    (h : Heap) (l : List Ev)
    (hi : Interleave (readSingle true m1 n1 p1 a1 b1 s d1) (readSingle true m2 n2 p2 a2 b2 s d2) l)
    (hnd : [a1, b1, a2, b2, s].Nodup)
    (hd1 : d1 ≠ some a1 ∧ d1 ≠ some b1 ∧ d1 ≠ some a2 ∧ d1 ≠ some b2 ∧ d1 ≠ some s)
    (hd2 : d2 ≠ some a1 ∧ d2 ≠ some b1 ∧ d2 ≠ some a2 ∧ d2 ≠ some b2 ∧ d2 ≠ some s)
    (hdd : ∀ x, d1 = some x → d2 ≠ some x)
    (hpool : ∀ x ∈ [a1, b1, a2, b2], (h.cell x).own = .pool) (hs : h.cell s = ⟨.guarded, none⟩)
    (hw1 : ∀ x, d1 = some x → (h.cell x).own = .lib p1) (hw2 : ∀ x, d2 = some x → (h.cell x).own = .lib p2) :
    runB h l ≠ .violation := by
  simp only [List.nodup_cons, List.mem_cons, List.not_mem_nil, or_false, not_or, List.nodup_nil, and_true] at hnd
  obtain ⟨⟨n12, n13, n14, n1s⟩, ⟨n23, n24, n2s⟩, ⟨n34, n3s⟩, n4s, _⟩ := hnd
  obtain ⟨k1, e1⟩ := cell_pool_eta (hpool a1 (by simp))
  obtain ⟨k2, e2⟩ := cell_pool_eta (hpool b1 (by simp))
  obtain ⟨k3, e3⟩ := cell_pool_eta (hpool a2 (by simp))
  obtain ⟨k4, e4⟩ := cell_pool_eta (hpool b2 (by simp))
  have r1 := readSingle_run true m1 n1 p1 a1 b1 s d1 h k1 k2 n12 n1s n2s hd1.1 hd1.2.1 hd1.2.2.2.2 e1 e2 hs hw1
  have r2 := readSingle_run true m2 n2 p2 a2 b2 s d2 h k3 k4 n34 n3s n4s hd2.2.2.1 hd2.2.2.2.1 hd2.2.2.2.2 e3 e4 hs hw2
  refine interleave_mutex hi (fun x => ?_) (fun y => Or.inl (readSingle_callerOps _ _ _ _ _ _ _ _ y))
    (by simp [r1]) (by simp [r2])
  by_cases hxs : x = s
  · subst hxs
    exact Or.inr (Or.inr ⟨by simp [hs], by rw [hs]; exact readSingle_bracketed _ _ _ _ _ _ _ n1s n2s hd1.2.2.2.2,
      by rw [hs]; exact readSingle_bracketed _ _ _ _ _ _ _ n3s n4s hd2.2.2.2.2⟩)
  · by_cases hx1 : x = a1 ∨ x = b1 ∨ d1 = some x
    · -- a location of the first reader: the second does not touch it
      refine Or.inr (Or.inl (readSingle_bufOps_other _ _ _ _ _ _ _ _ _ ?_ ?_ hxs ?_))
      · rcases hx1 with e | e | e
        · subst e; exact n13
        · subst e; exact n23
        · intro e'; subst e'; exact hd1.2.2.1 e
      · rcases hx1 with e | e | e
        · subst e; exact n14
        · subst e; exact n24
        · intro e'; subst e'; exact hd1.2.2.2.1 e
      · rcases hx1 with e | e | e
        · subst e; exact hd2.1
        · subst e; exact hd2.2.1
        · exact hdd x e
    · simp only [not_or] at hx1
      exact Or.inl (readSingle_bufOps_other _ _ _ _ _ _ _ _ _ hx1.1 hx1.2.1 hxs hx1.2.2)

end Own
