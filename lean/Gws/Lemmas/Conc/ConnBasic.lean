import Gws.Model.Conc.Conn
/-!
# Connection transition system: representation lemmas and the case analysis of one action

* `pc_setPc`, `lockHeld_eq_false_iff` …: the association list `pcs` behaves like a function
  `Nat → Pc` (`State.WF`: ids are unique — a representation invariant of every reachable state).
* `Trans`: one constructor per branch of `step … (.act a fault)`; `act_cases` says that every
  successful `act` is one of them (`Trans` is *derived from* the model, it does not replace it).
* `run_induction`: induction over the actions of a schedule from the last one.
* `kindMap`: ghost map actor ↦ kind, read off the `spawn` actions of a schedule.
-/

namespace Conc

/-! ### field updates used by `step` -/

def State.push (s : State) (f : Frame) : State := { s with wire := s.wire ++ [f] }
def State.setPartial (s : State) (b : Bool) : State := { s with partialAfter := b }
def State.win (s : State) (a : Nat) : State := { s with closed := true, winner := some a, causeStored := true }
def State.tclose (s : State) : State := { s with tclosed := true }
def State.addCb (s : State) (c : Cb) : State := { s with cbs := s.cbs ++ [c] }

@[simp] theorem push_closed (s : State) (f : Frame) : (s.push f).closed = s.closed := rfl
@[simp] theorem push_tclosed (s : State) (f : Frame) : (s.push f).tclosed = s.tclosed := rfl
@[simp] theorem push_winner (s : State) (f : Frame) : (s.push f).winner = s.winner := rfl
@[simp] theorem push_causeStored (s : State) (f : Frame) : (s.push f).causeStored = s.causeStored := rfl
@[simp] theorem push_wire (s : State) (f : Frame) : (s.push f).wire = s.wire ++ [f] := rfl
@[simp] theorem push_partialAfter (s : State) (f : Frame) : (s.push f).partialAfter = s.partialAfter := rfl
@[simp] theorem push_pcs (s : State) (f : Frame) : (s.push f).pcs = s.pcs := rfl
@[simp] theorem push_cbs (s : State) (f : Frame) : (s.push f).cbs = s.cbs := rfl
@[simp] theorem push_pc (s : State) (f : Frame) (x : Nat) : (s.push f).pc x = s.pc x := rfl
@[simp] theorem push_lockHeld (s : State) (f : Frame) : (s.push f).lockHeld = s.lockHeld := rfl
@[simp] theorem setPartial_closed (s : State) (b : Bool) : (s.setPartial b).closed = s.closed := rfl
@[simp] theorem setPartial_tclosed (s : State) (b : Bool) : (s.setPartial b).tclosed = s.tclosed := rfl
@[simp] theorem setPartial_winner (s : State) (b : Bool) : (s.setPartial b).winner = s.winner := rfl
@[simp] theorem setPartial_causeStored (s : State) (b : Bool) : (s.setPartial b).causeStored = s.causeStored := rfl
@[simp] theorem setPartial_wire (s : State) (b : Bool) : (s.setPartial b).wire = s.wire := rfl
@[simp] theorem setPartial_partialAfter (s : State) (b : Bool) : (s.setPartial b).partialAfter = b := rfl
@[simp] theorem setPartial_pcs (s : State) (b : Bool) : (s.setPartial b).pcs = s.pcs := rfl
@[simp] theorem setPartial_cbs (s : State) (b : Bool) : (s.setPartial b).cbs = s.cbs := rfl
@[simp] theorem setPartial_pc (s : State) (b : Bool) (x : Nat) : (s.setPartial b).pc x = s.pc x := rfl
@[simp] theorem setPartial_lockHeld (s : State) (b : Bool) : (s.setPartial b).lockHeld = s.lockHeld := rfl
@[simp] theorem win_closed (s : State) (a : Nat) : (s.win a).closed = true := rfl
@[simp] theorem win_tclosed (s : State) (a : Nat) : (s.win a).tclosed = s.tclosed := rfl
@[simp] theorem win_winner (s : State) (a : Nat) : (s.win a).winner = some a := rfl
@[simp] theorem win_causeStored (s : State) (a : Nat) : (s.win a).causeStored = true := rfl
@[simp] theorem win_wire (s : State) (a : Nat) : (s.win a).wire = s.wire := rfl
@[simp] theorem win_partialAfter (s : State) (a : Nat) : (s.win a).partialAfter = s.partialAfter := rfl
@[simp] theorem win_pcs (s : State) (a : Nat) : (s.win a).pcs = s.pcs := rfl
@[simp] theorem win_cbs (s : State) (a : Nat) : (s.win a).cbs = s.cbs := rfl
@[simp] theorem win_pc (s : State) (a : Nat) (x : Nat) : (s.win a).pc x = s.pc x := rfl
@[simp] theorem win_lockHeld (s : State) (a : Nat) : (s.win a).lockHeld = s.lockHeld := rfl
@[simp] theorem tclose_closed (s : State)  : (s.tclose).closed = s.closed := rfl
@[simp] theorem tclose_tclosed (s : State)  : (s.tclose).tclosed = true := rfl
@[simp] theorem tclose_winner (s : State)  : (s.tclose).winner = s.winner := rfl
@[simp] theorem tclose_causeStored (s : State)  : (s.tclose).causeStored = s.causeStored := rfl
@[simp] theorem tclose_wire (s : State)  : (s.tclose).wire = s.wire := rfl
@[simp] theorem tclose_partialAfter (s : State)  : (s.tclose).partialAfter = s.partialAfter := rfl
@[simp] theorem tclose_pcs (s : State)  : (s.tclose).pcs = s.pcs := rfl
@[simp] theorem tclose_cbs (s : State)  : (s.tclose).cbs = s.cbs := rfl
@[simp] theorem tclose_pc (s : State)  (x : Nat) : (s.tclose).pc x = s.pc x := rfl
@[simp] theorem tclose_lockHeld (s : State)  : (s.tclose).lockHeld = s.lockHeld := rfl
@[simp] theorem addCb_closed (s : State) (c : Cb) : (s.addCb c).closed = s.closed := rfl
@[simp] theorem addCb_tclosed (s : State) (c : Cb) : (s.addCb c).tclosed = s.tclosed := rfl
@[simp] theorem addCb_winner (s : State) (c : Cb) : (s.addCb c).winner = s.winner := rfl
@[simp] theorem addCb_causeStored (s : State) (c : Cb) : (s.addCb c).causeStored = s.causeStored := rfl
@[simp] theorem addCb_wire (s : State) (c : Cb) : (s.addCb c).wire = s.wire := rfl
@[simp] theorem addCb_partialAfter (s : State) (c : Cb) : (s.addCb c).partialAfter = s.partialAfter := rfl
@[simp] theorem addCb_pcs (s : State) (c : Cb) : (s.addCb c).pcs = s.pcs := rfl
@[simp] theorem addCb_cbs (s : State) (c : Cb) : (s.addCb c).cbs = s.cbs ++ [c] := rfl
@[simp] theorem addCb_pc (s : State) (c : Cb) (x : Nat) : (s.addCb c).pc x = s.pc x := rfl
@[simp] theorem addCb_lockHeld (s : State) (c : Cb) : (s.addCb c).lockHeld = s.lockHeld := rfl
@[simp] theorem setPc_closed (s : State) (a : Nat) (p : Pc) : (s.setPc a p).closed = s.closed := rfl
@[simp] theorem setPc_tclosed (s : State) (a : Nat) (p : Pc) : (s.setPc a p).tclosed = s.tclosed := rfl
@[simp] theorem setPc_winner (s : State) (a : Nat) (p : Pc) : (s.setPc a p).winner = s.winner := rfl
@[simp] theorem setPc_causeStored (s : State) (a : Nat) (p : Pc) : (s.setPc a p).causeStored = s.causeStored := rfl
@[simp] theorem setPc_wire (s : State) (a : Nat) (p : Pc) : (s.setPc a p).wire = s.wire := rfl
@[simp] theorem setPc_partialAfter (s : State) (a : Nat) (p : Pc) : (s.setPc a p).partialAfter = s.partialAfter := rfl
@[simp] theorem setPc_cbs (s : State) (a : Nat) (p : Pc) : (s.setPc a p).cbs = s.cbs := rfl

@[simp] theorem setPartial_self (s : State) : s.setPartial s.partialAfter = s := rfl

/-! ### `pcs` as a function -/

theorem pc_setPc (s : State) (a b : Nat) (p : Pc) :
    (s.setPc a p).pc b = if b = a then p else s.pc b := by
  unfold State.pc State.setPc
  by_cases h : b = a
  · subst h; simp
  · have h' : a ≠ b := fun e => h e.symm
    simp [h, h', List.find?_filter]
    congr 2
    congr 1
    funext x
    by_cases hx : x.1 = b <;> simp [hx, h]

@[simp] theorem pc_setPc_self (s : State) (a : Nat) (p : Pc) : (s.setPc a p).pc a = p := by
  simp [pc_setPc]

theorem pc_setPc_ne (s : State) {a b : Nat} (p : Pc) (h : b ≠ a) : (s.setPc a p).pc b = s.pc b := by
  simp [pc_setPc, h]

theorem pc_of_pcs_eq {s t : State} (h : t.pcs = s.pcs) (b : Nat) : t.pc b = s.pc b := by
  unfold State.pc; rw [h]

@[simp] theorem pc_init (a : Nat) : State.pc {} a = .idle := rfl

/-- normalise the fields of an updated state -/
macro "upd_simp" : tactic => `(tactic| try simp only [push_closed, push_tclosed, push_winner, push_causeStored, push_wire, push_partialAfter, push_pcs, push_cbs, push_pc, push_lockHeld, setPartial_closed, setPartial_tclosed, setPartial_winner, setPartial_causeStored, setPartial_wire, setPartial_partialAfter, setPartial_pcs, setPartial_cbs, setPartial_pc, setPartial_lockHeld, win_closed, win_tclosed, win_winner, win_causeStored, win_wire, win_partialAfter, win_pcs, win_cbs, win_pc, win_lockHeld, tclose_closed, tclose_tclosed, tclose_winner, tclose_causeStored, tclose_wire, tclose_partialAfter, tclose_pcs, tclose_cbs, tclose_pc, tclose_lockHeld, addCb_closed, addCb_tclosed, addCb_winner, addCb_causeStored, addCb_wire, addCb_partialAfter, addCb_pcs, addCb_cbs, addCb_pc, addCb_lockHeld, setPc_closed, setPc_tclosed, setPc_winner, setPc_causeStored, setPc_wire, setPc_partialAfter, setPc_cbs, pc_setPc])

/-- the actor ids present in `pcs` -/
def State.ids (s : State) : List Nat := s.pcs.map (·.1)

/-- representation invariant: every id occurs once, and no entry is `idle` -/
structure State.WF (s : State) : Prop where
  nodup : s.ids.Nodup
  noIdle : ∀ x ∈ s.pcs, x.2 ≠ .idle

theorem mem_of_pc_ne_idle {s : State} {a : Nat} (h : s.pc a ≠ .idle) : (a, s.pc a) ∈ s.pcs := by
  unfold State.pc at *
  cases hf : s.pcs.find? (·.1 == a) with
  | none => simp [hf] at h
  | some x =>
    have h1 := List.find?_some hf
    have h2 := List.mem_of_find?_eq_some hf
    simp at h1
    simp [← h1]
    exact h2

theorem pc_of_mem {s : State} (hwf : s.WF) {a : Nat} {p : Pc} (h : (a, p) ∈ s.pcs) : s.pc a = p := by
  have hn := hwf.nodup
  unfold State.ids at hn
  unfold State.pc
  generalize s.pcs = l at *
  induction l with
  | nil => simp at h
  | cons x l ih =>
    simp only [List.map_cons, List.nodup_cons] at hn
    rcases List.mem_cons.1 h with rfl | h
    · simp
    · have hx : x.1 ≠ a := by
        intro e; apply hn.1; rw [e]; exact List.mem_map.2 ⟨(a, p), h, rfl⟩
      simp [hx]
      simpa using ih h hn.2

theorem ids_iff {s : State} (a : Nat) : s.pcs.any (·.1 == a) = true ↔ a ∈ s.ids := by
  simp [State.ids]

theorem pc_idle_of_not_mem {s : State} {a : Nat} (h : a ∉ s.ids) : s.pc a = .idle := by
  apply Classical.byContradiction
  intro hne
  exact h (List.mem_map.2 ⟨_, mem_of_pc_ne_idle hne, rfl⟩)

theorem mem_ids_of_pc {s : State} {a : Nat} (h : s.pc a ≠ .idle) : a ∈ s.ids :=
  List.mem_map.2 ⟨_, mem_of_pc_ne_idle h, rfl⟩

theorem pc_ne_idle_of_mem {s : State} (hwf : s.WF) {a : Nat} (h : a ∈ s.ids) : s.pc a ≠ .idle := by
  obtain ⟨x, hx, rfl⟩ := List.mem_map.1 h
  rw [pc_of_mem hwf (p := x.2) hx]
  exact hwf.noIdle x hx

/-- nobody is inside a critical section iff the lock is free -/
theorem not_holds_of_lockHeld_false {s : State} (h : s.lockHeld = false) (b : Nat) :
    (s.pc b).holdsLock = false := by
  by_cases hb : s.pc b = .idle
  · rw [hb]; rfl
  · have hm := mem_of_pc_ne_idle hb
    unfold State.lockHeld at h
    cases hh : (s.pc b).holdsLock with
    | false => rfl
    | true =>
      have : s.pcs.any (·.2.holdsLock) = true := List.any_eq_true.2 ⟨_, hm, hh⟩
      rw [h] at this; cases this

theorem holder_of_lockHeld {s : State} (hwf : s.WF) (h : s.lockHeld = true) :
    ∃ b, (s.pc b).holdsLock = true := by
  unfold State.lockHeld at h
  obtain ⟨x, hx, hh⟩ := List.any_eq_true.1 h
  exact ⟨x.1, by rw [pc_of_mem hwf (p := x.2) hx]; exact hh⟩

theorem lockHeld_of_holder {s : State} {b : Nat} (h : (s.pc b).holdsLock = true) : s.lockHeld = true := by
  cases hl : s.lockHeld with
  | true => rfl
  | false => rw [not_holds_of_lockHeld_false hl b] at h; cases h

theorem wf_init : State.WF {} := ⟨by simp [State.ids], by simp⟩

theorem wf_setPc {s : State} (hwf : s.WF) (a : Nat) {p : Pc} (hp : p ≠ .idle) : (s.setPc a p).WF := by
  constructor
  · unfold State.ids State.setPc
    simp only [List.map_cons, List.nodup_cons]
    constructor
    · simp [List.mem_map, List.mem_filter]
    · have := hwf.nodup
      unfold State.ids at this
      exact (List.filter_sublist.map _).nodup this
  · intro x hx
    unfold State.setPc at hx
    simp only [List.mem_cons, List.mem_filter] at hx
    rcases hx with rfl | ⟨hx, _⟩
    · exact hp
    · exact hwf.noIdle x hx

theorem wf_of_pcs {s t : State} (h : t.pcs = s.pcs) (hwf : s.WF) : t.WF :=
  ⟨by unfold State.ids; rw [h]; exact hwf.nodup, by rw [h]; exact hwf.noIdle⟩

theorem ids_setPc_of_mem {s : State} {a : Nat} (p : Pc) (b : Nat) :
    b ∈ (s.setPc a p).ids ↔ b = a ∨ b ∈ s.ids := by
  unfold State.ids State.setPc
  simp only [List.map_cons, List.mem_cons, List.mem_map, List.mem_filter]
  constructor
  · rintro (h | ⟨x, ⟨hx, _⟩, rfl⟩)
    · exact Or.inl h
    · exact Or.inr ⟨x, hx, rfl⟩
  · rintro (h | ⟨x, hx, rfl⟩)
    · exact Or.inl h
    · by_cases e : x.1 = a
      · exact Or.inl e
      · exact Or.inr ⟨x, ⟨hx, by simp [e]⟩, rfl⟩

/-! ### case analysis of one `act` -/

/-- how a transport write fails: the transport is closed (nothing changes), or the environment
faults it (a partial frame may be left) -/
def FailW (s : State) (fault : Bool) (b : Bool) : Prop :=
  (s.tclosed = true ∧ b = s.partialAfter) ∨ (s.tclosed = false ∧ fault = true ∧ b = true)

/-- `Trans s a fault p t p'`: actor `a` at `p` moves to `p'`, the other fields become those of `t`. -/
inductive Trans (s : State) (a : Nat) (fault : Bool) : Pc → State → Pc → Prop
  | wLockClosed (r : Bool) : s.lockHeld = false → s.closed = true →
      Trans s a fault (.wLock r) s (.cCas (.ret .closed))
  | wLockRej : s.lockHeld = false → s.closed = false →
      Trans s a fault (.wLock true) s (.cCas (.ret .rejected))
  | wLockOk : s.lockHeld = false → s.closed = false →
      Trans s a fault (.wLock false) s .wWrite
  | wWriteOk : s.tclosed = false → fault = false →
      Trans s a fault .wWrite (s.push (.data a 0 true)) (.done .ok)
  | wWriteFail (b : Bool) : FailW s fault b →
      Trans s a fault .wWrite (s.setPartial b) (.cCas (.ret .ioErr))
  | fLock (n : Nat) : s.lockHeld = false →
      Trans s a fault (.fLock n) s (.fCheck 0 n)
  | fClosed (i n : Nat) : s.closed = true →
      Trans s a fault (.fCheck i n) s (.cCas (.ret .closed))
  | fFail (i n : Nat) (b : Bool) : s.closed = false → FailW s fault b →
      Trans s a fault (.fCheck i n) (s.setPartial b) (.cCas (.ret .ioErr))
  | fLast (n : Nat) : s.closed = false → s.tclosed = false → fault = false →
      Trans s a fault (.fCheck n n) (s.push (.data a n true)) (.done .ok)
  | fNext (i n : Nat) : i ≠ n → s.closed = false → s.tclosed = false → fault = false →
      Trans s a fault (.fCheck i n) (s.push (.data a i false)) (.fCheck (i + 1) n)
  | bStartClosed : s.closed = true → Trans s a fault .bStart s (.cCas (.ret .closed))
  | bStartOk : s.closed = false → Trans s a fault .bStart s .bLock
  | bLockClosed : s.lockHeld = false → s.closed = true →
      Trans s a fault .bLock s (.cCas (.ret .closed))
  | bLockOk : s.lockHeld = false → s.closed = false →
      Trans s a fault .bLock s .bWrite
  | bWriteOk : s.tclosed = false → fault = false →
      Trans s a fault .bWrite (s.push (.data a 0 true)) (.done .ok)
  | bWriteFail (b : Bool) : FailW s fault b →
      Trans s a fault .bWrite (s.setPartial b) (.cCas (.ret .ioErr))
  | casLoseOk : s.closed = true → Trans s a fault (.cCas (.ret .ok)) s (.done .closed)
  | casLoseRet (r : Ret) : r ≠ .ok → s.closed = true → Trans s a fault (.cCas (.ret r)) s (.done r)
  | casLoseROC : s.closed = true → Trans s a fault (.cCas .readerOnClose) s .rOnClose
  | casLoseRA : s.closed = true → Trans s a fault (.cCas .readerAgain) s (.cCas .readerOnClose)
  | casWin (k : Cont) : s.closed = false → Trans s a fault (.cCas k) (s.win a) (.kLock k)
  | kLock (k : Cont) : s.lockHeld = false → Trans s a fault (.kLock k) s (.kWrite k)
  | kWriteOk (k : Cont) : s.tclosed = false → fault = false →
      Trans s a fault (.kWrite k) (s.push (.close a)) (.cTclose k)
  | kWriteFailOk (b : Bool) : FailW s fault b →
      Trans s a fault (.kWrite (.ret .ok)) (s.setPartial b) (.cTclose (.ret .ioErr))
  | kWriteFail (k : Cont) (b : Bool) : k ≠ .ret .ok → FailW s fault b →
      Trans s a fault (.kWrite k) (s.setPartial b) (.cTclose k)
  | tcloseRet (r : Ret) : Trans s a fault (.cTclose (.ret r)) s.tclose (.done r)
  | tcloseROC : Trans s a fault (.cTclose .readerOnClose) s.tclose .rOnClose
  | tcloseRA : Trans s a fault (.cTclose .readerAgain) s.tclose (.cCas .readerOnClose)
  | rOpen (sc : List Inbound) : Trans s a fault (.rOpen sc) (s.addCb .opened) (.rLoop sc)
  | rEnd : Trans s a fault (.rLoop []) s (.cCas .readerOnClose)
  | rMsg (sc : List Inbound) : Trans s a fault (.rLoop (.msg :: sc)) (s.addCb .message) (.rLoop sc)
  | rPeerClose (sc : List Inbound) : Trans s a fault (.rLoop (.peerClose :: sc)) s (.cCas .readerAgain)
  | rReadErr (sc : List Inbound) : Trans s a fault (.rLoop (.readErr :: sc)) s (.cCas .readerOnClose)
  | rOnClose : Trans s a fault .rOnClose (s.addCb (.closedCb s.causeStored)) (.done .ok)

theorem tryWrite_cases (s : State) (f : Frame) (fault : Bool) :
    (s.tclosed = false ∧ fault = false ∧ s.tryWrite f fault = (s.push f, true)) ∨
    (∃ b, FailW s fault b ∧ s.tryWrite f fault = (s.setPartial b, false)) := by
  unfold State.tryWrite FailW
  by_cases ht : s.tclosed = true
  · right; exact ⟨s.partialAfter, Or.inl ⟨ht, rfl⟩, by simp [ht]⟩
  · have ht : s.tclosed = false := by simpa using ht
    cases fault
    · left; simp [State.push, ht]
    · right; exact ⟨true, Or.inr ⟨ht, rfl, rfl⟩, by simp [State.setPartial, ht]⟩

/-- every successful `act` is one of the `Trans` cases (here `Facts.bcClosedCheckUnderLock`, as
generated from the current source, is used: the broadcast closed test is inside the lock region) -/
theorem act_cases {s s' : State} {a : Nat} {fault : Bool} (h : step s (.act a fault) = some s') :
    ∃ t p', s' = t.setPc a p' ∧ t.pcs = s.pcs ∧ Trans s a fault (s.pc a) t p' := by
  simp only [step] at h
  split at h
  · cases h
  · cases h
  · rename_i r hp
    rw [hp]
    split at h
    · cases h
    · split at h
      · rename_i hl hc
        cases h; exact ⟨_, _, rfl, rfl, .wLockClosed r (by simpa using hl) hc⟩
      · rename_i hl hc
        split at h
        · rename_i hr; subst hr; cases h
          exact ⟨_, _, rfl, rfl, .wLockRej (by simpa using hl) (by simpa using hc)⟩
        · rename_i hr; cases h
          have : r = false := by simpa using hr
          subst this
          exact ⟨_, _, rfl, rfl, .wLockOk (by simpa using hl) (by simpa using hc)⟩
  · rename_i hp
    rw [hp]
    rcases tryWrite_cases s (.data a 0 true) fault with ⟨h1, h2, e⟩ | ⟨b, hb, e⟩
    · rw [e] at h; cases h; exact ⟨_, _, rfl, rfl, .wWriteOk h1 h2⟩
    · rw [e] at h; cases h; exact ⟨_, _, rfl, rfl, .wWriteFail b hb⟩
  · rename_i n hp
    rw [hp]
    split at h
    · cases h
    · rename_i hl; cases h; exact ⟨_, _, rfl, rfl, .fLock n (by simpa using hl)⟩
  · rename_i i n hp
    rw [hp]
    split at h
    · rename_i hc; cases h; exact ⟨_, _, rfl, rfl, .fClosed i n hc⟩
    · rename_i hc
      have hc : s.closed = false := by simpa using hc
      rcases tryWrite_cases s (.data a i (i == n)) fault with ⟨h1, h2, e⟩ | ⟨b, hb, e⟩
      · rw [e] at h
        by_cases hin : i = n
        · subst hin
          simp at h; subst h
          exact ⟨_, _, rfl, rfl, .fLast i hc h1 h2⟩
        · have hin' : (i == n) = false := by simp [hin]
          rw [hin'] at h
          simp at h; subst h
          exact ⟨_, _, rfl, rfl, .fNext i n hin hc h1 h2⟩
      · rw [e] at h
        simp at h; subst h
        exact ⟨_, _, rfl, rfl, .fFail i n b hc hb⟩
  · rename_i hp
    rw [hp]
    split at h
    · rename_i hc; cases h; exact ⟨_, _, rfl, rfl, .bStartClosed hc⟩
    · rename_i hc; cases h; exact ⟨_, _, rfl, rfl, .bStartOk (by simpa using hc)⟩
  · rename_i hp
    rw [hp]
    split at h
    · cases h
    · rename_i hl
      split at h
      · rename_i hc; cases h; exact ⟨_, _, rfl, rfl, .bLockClosed (by simpa using hl) hc.2⟩
      · rename_i hc; cases h
        exact ⟨_, _, rfl, rfl, .bLockOk (by simpa using hl) (by simpa [Facts.bcClosedCheckUnderLock] using hc)⟩
  · rename_i hp
    rw [hp]
    rcases tryWrite_cases s (.data a 0 true) fault with ⟨h1, h2, e⟩ | ⟨b, hb, e⟩
    · rw [e] at h; cases h; exact ⟨_, _, rfl, rfl, .bWriteOk h1 h2⟩
    · rw [e] at h; cases h; exact ⟨_, _, rfl, rfl, .bWriteFail b hb⟩
  · rename_i k hp
    rw [hp]
    split at h
    · rename_i hc; cases h
      cases k with
      | ret r =>
        cases r with
        | ok => exact ⟨s, _, rfl, rfl, .casLoseOk hc⟩
        | closed => exact ⟨s, _, rfl, rfl, .casLoseRet _ (by simp) hc⟩
        | rejected => exact ⟨s, _, rfl, rfl, .casLoseRet _ (by simp) hc⟩
        | ioErr => exact ⟨s, _, rfl, rfl, .casLoseRet _ (by simp) hc⟩
      | readerOnClose => exact ⟨s, _, rfl, rfl, .casLoseROC hc⟩
      | readerAgain => exact ⟨s, _, rfl, rfl, .casLoseRA hc⟩
    · rename_i hc; cases h
      exact ⟨s.win a, _, rfl, rfl, .casWin k (by simpa using hc)⟩
  · rename_i k hp
    rw [hp]
    split at h
    · cases h
    · rename_i hl; cases h; exact ⟨_, _, rfl, rfl, .kLock k (by simpa using hl)⟩
  · rename_i k hp
    rw [hp]
    rcases tryWrite_cases s (.close a) fault with ⟨h1, h2, e⟩ | ⟨b, hb, e⟩
    · rw [e] at h; simp at h; subst h; exact ⟨_, _, rfl, rfl, .kWriteOk k h1 h2⟩
    · rw [e] at h; simp at h; subst h
      by_cases hk : k = .ret .ok
      · subst hk; exact ⟨_, _, rfl, rfl, .kWriteFailOk b hb⟩
      · simp only [hk, if_false]; exact ⟨_, _, rfl, rfl, .kWriteFail k b hk hb⟩
  · rename_i k hp
    rw [hp]
    cases h
    cases k with
    | ret r => exact ⟨s.tclose, _, rfl, rfl, .tcloseRet r⟩
    | readerOnClose => exact ⟨s.tclose, _, rfl, rfl, .tcloseROC⟩
    | readerAgain => exact ⟨s.tclose, _, rfl, rfl, .tcloseRA⟩
  · rename_i sc hp; rw [hp]; cases h; exact ⟨s.addCb .opened, _, rfl, rfl, .rOpen sc⟩
  · rename_i hp; rw [hp]; cases h; exact ⟨_, _, rfl, rfl, .rEnd⟩
  · rename_i sc hp; rw [hp]; cases h; exact ⟨s.addCb .message, _, rfl, rfl, .rMsg sc⟩
  · rename_i sc hp; rw [hp]; cases h; exact ⟨_, _, rfl, rfl, .rPeerClose sc⟩
  · rename_i sc hp; rw [hp]; cases h; exact ⟨_, _, rfl, rfl, .rReadErr sc⟩
  · rename_i hp; rw [hp]; cases h; exact ⟨s.addCb (.closedCb s.causeStored), _, rfl, rfl, .rOnClose⟩

theorem spawn_cases {s s' : State} {a : Nat} {k : Kind} (h : step s (.spawn a k) = some s') :
    s' = s.setPc a (startPc k) ∧ s.pc a = .idle ∧ a ∉ s.ids := by
  simp only [step] at h
  split at h
  · rename_i hc
    cases h
    refine ⟨rfl, hc.1, ?_⟩
    intro hm
    exact hc.2 ((ids_iff a).2 hm)
  · cases h

/-! ### schedules -/

theorem run_append (s : State) (xs ys : List Action) :
    run s (xs ++ ys) = (run s xs).bind (fun s' => run s' ys) := by
  induction xs generalizing s with
  | nil => simp [run]
  | cons x xs ih =>
    simp only [List.cons_append, run]
    cases step s x with
    | none => simp
    | some s1 => simpa using ih s1

theorem run_snoc {s s1 s2 : State} {xs : List Action} {x : Action}
    (h1 : run s xs = some s1) (h2 : step s1 x = some s2) : run s (xs ++ [x]) = some s2 := by
  rw [run_append, h1]; simp [run, h2]

/-- induction over a schedule from its last action -/
theorem run_induction {motive : List Action → State → Prop} (s0 : State) (h0 : motive [] s0)
    (hs : ∀ xs s x s', run s0 xs = some s → motive xs s → step s x = some s' → motive (xs ++ [x]) s')
    (xs : List Action) (s : State) (h : run s0 xs = some s) : motive xs s := by
  suffices ∀ ys pre s1, run s0 pre = some s1 → motive pre s1 → ∀ s, run s1 ys = some s → motive (pre ++ ys) s by
    simpa using this xs [] s0 rfl h0 s h
  intro ys
  induction ys with
  | nil => intro pre s1 _ hm s h; simp [run] at h; subst h; simpa using hm
  | cons y ys ih =>
    intro pre s1 hr hm s h
    simp only [run] at h
    split at h
    · cases h
    · rename_i s2 hs2
      have := ih (pre ++ [y]) s2 (run_snoc hr hs2) (hs pre s1 y s2 hr hm hs2) s h
      simpa using this

/-- the representation invariant holds in every reachable state -/
theorem wf_step {s s' : State} {x : Action} (hwf : s.WF) (h : step s x = some s') : s'.WF := by
  cases x with
  | spawn a k =>
    obtain ⟨rfl, _, _⟩ := spawn_cases h
    apply wf_setPc hwf
    cases k <;> simp [startPc]
    split <;> simp
  | act a f =>
    obtain ⟨t, p', rfl, hp, ht⟩ := act_cases h
    apply wf_setPc (wf_of_pcs hp hwf)
    generalize s.pc a = p at ht
    clear hp hwf h
    cases ht <;> simp

theorem wf_run {xs : List Action} {s : State} (h : run {} xs = some s) : s.WF :=
  run_induction (motive := fun _ s => s.WF) {} wf_init (fun _ _ _ _ _ hm hs => wf_step hm hs) xs s h

/-! ### ghost kinds -/

def updK (K : Nat → Option Kind) : Action → Nat → Option Kind
  | .spawn a k => fun b => if b = a then some k else K b
  | .act _ _ => K

/-- the kind of each actor, read off the `spawn` actions of the schedule -/
def kindMap (xs : List Action) : Nat → Option Kind := xs.foldl updK (fun _ => none)

@[simp] theorem kindMap_nil : kindMap [] = fun _ => none := rfl

theorem kindMap_snoc (xs : List Action) (x : Action) : kindMap (xs ++ [x]) = updK (kindMap xs) x := by
  simp [kindMap, List.foldl_append]

theorem kindMap_mem {xs : List Action} {a : Nat} {k : Kind} (h : kindMap xs a = some k) :
    Action.spawn a k ∈ xs := by
  suffices ∀ K0, xs.foldl updK K0 a = some k → K0 a = some k ∨ Action.spawn a k ∈ xs by
    simpa using this _ h
  clear h
  induction xs with
  | nil => intro K0 h; exact Or.inl h
  | cons x xs ih =>
    intro K0 h
    simp only [List.foldl_cons] at h
    rcases ih _ h with h1 | h1
    · cases x with
      | spawn b k' =>
        simp only [updK] at h1
        split at h1
        · rename_i e; subst e; cases h1; exact Or.inr (by simp)
        · exact Or.inl h1
      | act b f => exact Or.inl h1
    · exact Or.inr (List.mem_cons_of_mem _ h1)

end Conc
