import Gws.Lemmas.Conc.Own
/-! The broadcaster's reference counter: `doClose` runs exactly once, when `Close` has been called and
the last queued send has run; the shared frames are used only before that. -/
namespace Own
namespace BC

/-- the counter is `MaxInt32 + pending` before `Close` and `pending` after it; `doClose` has run iff
`Close` was called and nothing is pending, and then exactly once -/
structure Inv (s : BC) : Prop where
  counter : s.state = (if s.closed then 0 else maxInt32) + s.pending.length
  rel : s.released = if s.closed = true ∧ s.pending = [] then 1 else 0

/-- what the API precondition says about the remaining actions in state `s` -/
def Good (s : BC) (acts : List BAct) : Prop :=
  if s.closed then ∀ a ∈ acts, a ≠ .close ∧ a.isBcast = false else ApiOk acts

theorem inv_init (p : Pid) (c : CBuf) (f0 f1 : Buf) : Inv (init p c f0 f1) := by
  constructor <;> simp [init]

theorem find_spec {l : List (Nat × Bool)} {i : Nat} {x : Nat × Bool} (h : l.find? (·.1 = i) = some x) :
    x.1 = i ∧ x ∈ l := by
  have h1 := List.find?_some h
  have h2 := List.mem_of_find?_eq_some h
  exact ⟨by simpa using h1, h2⟩

theorem inv_step (s s' : BC) (a : BAct) (as : List BAct) (hi : Inv s) (hg : Good s (a :: as))
    (hs : s.step a = some s') : Inv s' ∧ Good s' as := by
  obtain ⟨h1, h2⟩ := hi
  cases a with
  | bcast i z =>
    have hnc : s.closed = false := by
      cases hc : s.closed with
      | false => rfl
      | true => simp [Good, hc, BAct.isBcast] at hg
    simp only [step, Option.some.injEq] at hs
    subst hs
    refine ⟨⟨?_, ?_⟩, ?_⟩
    · simp [hnc, h1]; omega
    · simpa [hnc] using h2
    · simpa [Good, hnc, ApiOk] using hg
  | sendDone i =>
    simp only [step] at hs
    cases hf : s.pending.find? (·.1 = i) with
    | none => simp [hf] at hs
    | some x =>
      obtain ⟨j, z⟩ := x
      obtain ⟨hj, hmem⟩ := find_spec hf
      simp only at hj; subst hj
      simp only [hf, Option.some.injEq] at hs
      have hlen : (s.pending.erase (j, z)).length = s.pending.length - 1 := List.length_erase_of_mem hmem
      have hpos : 0 < s.pending.length := List.length_pos_of_mem hmem
      have hne : s.pending ≠ [] := List.ne_nil_of_length_pos hpos
      have hgood : ∀ t : BC, t.closed = s.closed → Good t as := by
        intro t ht
        unfold Good at hg ⊢
        rw [ht]
        cases hc : s.closed with
        | false => simpa [hc, ApiOk] using hg
        | true =>
          simp only [hc, if_true] at hg ⊢
          exact fun a ha => hg a (by simp [ha])
      cases hc : s.closed with
      | false =>
        have hst : s.state - 1 ≠ 0 := by simp [hc] at h1; simp [maxInt32] at h1 ⊢; omega
        simp only [maybeClose, hst, if_false] at hs
        subst hs
        refine ⟨⟨?_, ?_⟩, hgood _ rfl⟩
        · simp [hc, hlen] at h1 ⊢; omega
        · simpa [hc] using h2
      | true =>
        simp only [hc, if_true, true_and, hne, if_false] at h1 h2
        by_cases hz : s.state - 1 = 0
        · simp only [maybeClose, hz, if_true] at hs
          subst hs
          have hl0 : (s.pending.erase (j, z)).length = 0 := by omega
          refine ⟨⟨?_, ?_⟩, hgood _ rfl⟩
          · simp [hc, hl0]
          · simp [hc, List.eq_nil_of_length_eq_zero hl0, h2]
        · simp only [maybeClose, hz, if_false] at hs
          subst hs
          have hl0 : (s.pending.erase (j, z)) ≠ [] := by
            intro e; rw [e] at hlen; simp at hlen; omega
          refine ⟨⟨?_, ?_⟩, hgood _ rfl⟩
          · simp [hc, hlen]; omega
          · simp [hc, hl0, h2]
  | close =>
    have hnc : s.closed = false := by
      cases hc : s.closed with
      | false => rfl
      | true => simp [Good, hc] at hg
    simp only [step, Option.some.injEq] at hs
    have hgood : ∀ t : BC, t.closed = true → Good t as := by
      intro t ht
      simp only [Good, hnc, ApiOk] at hg
      simp only [Good, ht, if_true]
      exact hg
    simp only [hnc, Bool.false_eq_true, if_false, false_and] at h1 h2
    by_cases hz : s.state - maxInt32 = 0
    · simp only [maybeClose, hz, if_true] at hs
      subst hs
      have hl0 : s.pending.length = 0 := by omega
      refine ⟨⟨?_, ?_⟩, hgood _ rfl⟩
      · simp [hl0]
      · simp [List.eq_nil_of_length_eq_zero hl0, h2]
    · simp only [maybeClose, hz, if_false] at hs
      subst hs
      have hl0 : s.pending ≠ [] := by
        intro e; rw [e] at h1; simp at h1; omega
      refine ⟨⟨?_, ?_⟩, hgood _ rfl⟩
      · simp; omega
      · simp [hl0, h2]

theorem inv_run (s s' : BC) (acts : List BAct) (hi : Inv s) (hg : Good s acts) (hr : s.run acts = some s') :
    Inv s' := by
  induction acts generalizing s with
  | nil => simp [run] at hr; subst hr; exact hi
  | cons a as ih =>
    simp only [run] at hr
    cases hs : s.step a with
    | none => simp [hs] at hr
    | some s1 =>
      simp only [hs, Option.bind_some] at hr
      obtain ⟨hi1, hg1⟩ := inv_step s s1 a as hi hg hs
      exact ih s1 hi1 hg1 hr

/-! ### The events of the broadcaster never violate ownership -/

theorem step_consts {s s' : BC} {a : BAct} (hs : s.step a = some s') :
    s'.p = s.p ∧ s'.c = s.c ∧ s'.f0 = s.f0 ∧ s'.f1 = s.f1 := by
  cases a with
  | bcast i z => simp only [BC.step, Option.some.injEq] at hs; subst hs; simp
  | sendDone i =>
    simp only [BC.step] at hs
    split at hs
    · simp at hs
    · simp only [Option.some.injEq, maybeClose] at hs
      split at hs <;> (subst hs; simp)
  | close =>
    simp only [BC.step, Option.some.injEq, maybeClose] at hs
    split at hs <;> (subst hs; simp)

/-- the heap after the broadcaster's events so far -/
structure HInv (s : BC) (h : Heap) : Prop where
  lent : h.lent s.c = if s.released = 0 then some s.p else none
  own0 : (h.cell s.f0).own = if s.gen0 = true ∧ s.released = 0 then .lib s.p else .pool
  own1 : (h.cell s.f1).own = if s.gen1 = true ∧ s.released = 0 then .lib s.p else .pool
  pend : ∀ x ∈ s.pending, (if x.2 then s.gen1 else s.gen0) = true

theorem gen_run (h : Heap) (p : Pid) (c : CBuf) (f : Buf) (hl : h.lent c = some p) (hf : (h.cell f).own = .pool) :
    ∃ h', Own.run h [.libReadCaller c p, .get f p, .libWrite f p] = some h' ∧ h'.lent = h.lent ∧
      (h'.cell f).own = .lib p ∧ ∀ x, x ≠ f → h'.cell x = h.cell x := by
  refine ⟨{ h with cell := upd h.cell f ⟨.lib p, (h.cell f).held⟩ }, ?_, rfl, by simp, fun x hx => by simp [upd, hx]⟩
  have e0 : Own.step h (.libReadCaller c p) = some h := by
    have : upd h.lent c (some p) = h.lent := by rw [← hl]; exact upd_self _ _
    simp [Own.step, COp.apply, hl, this]
  rw [Own.run_cons, e0, Option.bind_some]
  simp [Own.run_cons, Own.step, BOp.apply, Cell.usable, hf]

theorem send_run (h : Heap) (p : Pid) (c : CBuf) (f : Buf) (z : Bool) (hl : h.lent c = some p)
    (hf : (h.cell f).own = .lib p) : Own.run h (.libRead f p :: optl z [.libReadCaller c p]) = some h := by
  have e0 : Own.step h (.libReadCaller c p) = some h := by
    have : upd h.lent c (some p) = h.lent := by rw [← hl]; exact upd_self _ _
    simp [Own.step, COp.apply, hl, this]
  have e1 : Own.step h (.libRead f p) = some h := by
    simp [Own.step, BOp.apply, Cell.usable, hf]
  cases z <;> simp [Own.run_cons, e0, e1]

theorem close_run (h : Heap) (p : Pid) (c : CBuf) (f0 f1 : Buf) (g0 g1 : Bool) (hne : f0 ≠ f1)
    (hl : h.lent c = some p) (h0 : (h.cell f0).own = if g0 then .lib p else .pool)
    (h1 : (h.cell f1).own = if g1 then .lib p else .pool) :
    ∃ h', Own.run h (optl g0 [.put f0 p] ++ optl g1 [.put f1 p] ++ [.callerReturn c p]) = some h' ∧
      h'.lent c = none ∧ (h'.cell f0).own = .pool ∧ (h'.cell f1).own = .pool := by
  cases g0 <;> cases g1 <;>
    simp_all [Own.run_cons, Own.step, COp.apply, BOp.apply, Cell.usable, upd, Ne.symm hne]

theorem hinv_step (h0 : Heap) (s s' : BC) (a : BAct) (as : List BAct) (h : Heap) (hne : s.f0 ≠ s.f1)
    (hi : Inv s) (hg : Good s (a :: as)) (hr : Own.run h0 s.trace = some h) (hh : HInv s h)
    (hs : s.step a = some s') : ∃ h', Own.run h0 s'.trace = some h' ∧ HInv s' h' := by
  obtain ⟨hl, ho0, ho1, hp⟩ := hh
  have hrel := hi.rel
  cases a with
  | bcast i z =>
    have hnc : s.closed = false := by
      cases hc : s.closed with
      | false => rfl
      | true => simp [Good, hc, BAct.isBcast] at hg
    have hr0 : s.released = 0 := by simpa [hnc] using hrel
    simp only [BC.step, Option.some.injEq] at hs
    subst hs
    simp only [hr0, if_true, and_true] at hl ho0 ho1
    simp only [run_append, hr, Option.bind_some]
    cases z with
    | false =>
      cases hg0 : s.gen0 with
      | true =>
        refine ⟨h, by simp [genEvs, hg0], ⟨by simp [hr0, hl], by simp [hr0, hg0, ho0], by simpa [hr0] using ho1, ?_⟩⟩
        intro x hx
        rcases List.mem_cons.mp hx with rfl | hx'
        · simp
        · have := hp x hx'; cases hx2 : x.2 <;> simp_all
      | false =>
        obtain ⟨h', e1, e2, e3, e4⟩ := gen_run h s.p s.c s.f0 hl (by simpa [hg0] using ho0)
        refine ⟨h', by simpa [genEvs, hg0, frameOf] using e1, ⟨by simp [e2, hl, hr0], by simp [e3, hr0], ?_, ?_⟩⟩
        · simp only [e4 s.f1 (Ne.symm hne), hr0]; simpa using ho1
        · intro x hx
          rcases List.mem_cons.mp hx with rfl | hx'
          · simp
          · have := hp x hx'; cases hx2 : x.2 <;> simp_all
    | true =>
      cases hg1 : s.gen1 with
      | true =>
        refine ⟨h, by simp [genEvs, hg1], ⟨by simp [hr0, hl], by simpa [hr0] using ho0, by simp [hr0, hg1, ho1], ?_⟩⟩
        intro x hx
        rcases List.mem_cons.mp hx with rfl | hx'
        · simp
        · have := hp x hx'; cases hx2 : x.2 <;> simp_all
      | false =>
        obtain ⟨h', e1, e2, e3, e4⟩ := gen_run h s.p s.c s.f1 hl (by simpa [hg1] using ho1)
        refine ⟨h', by simpa [genEvs, hg1, frameOf] using e1, ⟨by simp [e2, hl, hr0], ?_, by simp [e3, hr0], ?_⟩⟩
        · simp only [e4 s.f0 hne, hr0]; simpa using ho0
        · intro x hx
          rcases List.mem_cons.mp hx with rfl | hx'
          · simp
          · have := hp x hx'; cases hx2 : x.2 <;> simp_all
  | sendDone i =>
    simp only [BC.step] at hs
    cases hf : s.pending.find? (·.1 = i) with
    | none => simp [hf] at hs
    | some x =>
      obtain ⟨j, z⟩ := x
      obtain ⟨hj, hmem⟩ := find_spec hf
      simp only at hj; subst hj
      simp only [hf, Option.some.injEq] at hs
      have hne' : s.pending ≠ [] := List.ne_nil_of_mem hmem
      have hr0 : s.released = 0 := by simpa [hne'] using hrel
      have hgen := hp (j, z) hmem
      simp only [hr0, if_true, and_true] at hl ho0 ho1
      have hfz : (h.cell (s.frameOf z)).own = .lib s.p := by
        cases z <;> simp_all [frameOf]
      have e1 : Own.run h0 (s.trace ++ s.sendEvs z) = some h := by
        rw [run_append, hr]; exact send_run h s.p s.c _ z hl hfz
      have hp' : ∀ x ∈ s.pending.erase (j, z), (if x.2 then s.gen1 else s.gen0) = true :=
        fun x hx => hp x (List.mem_of_mem_erase hx)
      by_cases hz : s.state - 1 = 0
      · simp only [maybeClose, hz, if_true] at hs
        subst hs
        obtain ⟨h', c1, c2, c3, c4⟩ := close_run h s.p s.c s.f0 s.f1 s.gen0 s.gen1 hne hl
          (by cases hg0 : s.gen0 <;> simp_all) (by cases hg1 : s.gen1 <;> simp_all)
        refine ⟨h', ?_, ⟨by simp [hr0, c2], by simp [hr0, c3], by simp [hr0, c4], hp'⟩⟩
        simp only [doCloseEvs]
        rw [run_append, e1]; exact c1
      · simp only [maybeClose, hz, if_false] at hs
        subst hs
        exact ⟨h, e1, ⟨by simp [hr0, hl], by simpa [hr0] using ho0, by simpa [hr0] using ho1, hp'⟩⟩
  | close =>
    have hnc : s.closed = false := by
      cases hc : s.closed with
      | false => rfl
      | true => simp [Good, hc] at hg
    have hr0 : s.released = 0 := by simpa [hnc] using hrel
    simp only [BC.step, Option.some.injEq] at hs
    simp only [hr0, if_true, and_true] at hl ho0 ho1
    by_cases hz : s.state - maxInt32 = 0
    · simp only [maybeClose, hz, if_true] at hs
      subst hs
      obtain ⟨h', c1, c2, c3, c4⟩ := close_run h s.p s.c s.f0 s.f1 s.gen0 s.gen1 hne hl
        (by cases hg0 : s.gen0 <;> simp_all) (by cases hg1 : s.gen1 <;> simp_all)
      refine ⟨h', ?_, ⟨by simp [hr0, c2], by simp [hr0, c3], by simp [hr0, c4], hp⟩⟩
      simp only [doCloseEvs]
      rw [run_append, hr]; exact c1
    · simp only [maybeClose, hz, if_false] at hs
      subst hs
      exact ⟨h, hr, ⟨by simp [hr0, hl], by simpa [hr0] using ho0, by simpa [hr0] using ho1, hp⟩⟩

theorem hinv_run (h0 : Heap) (s s' : BC) (acts : List BAct) (h : Heap) (hne : s.f0 ≠ s.f1)
    (hi : Inv s) (hg : Good s acts) (hr : Own.run h0 s.trace = some h) (hh : HInv s h)
    (hs : BC.run s acts = some s') : ∃ h', Own.run h0 s'.trace = some h' ∧ HInv s' h' := by
  induction acts generalizing s h with
  | nil => simp [BC.run] at hs; subst hs; exact ⟨h, hr, hh⟩
  | cons a as ih =>
    simp only [BC.run] at hs
    cases hst : s.step a with
    | none => simp [hst] at hs
    | some s1 =>
      simp only [hst, Option.bind_some] at hs
      obtain ⟨hi1, hg1⟩ := inv_step s s1 a as hi hg hst
      obtain ⟨h1, hr1, hh1⟩ := hinv_step h0 s s1 a as h hne hi hg hr hh hst
      obtain ⟨_, _, e0, e1⟩ := step_consts hst
      exact ih s1 h1 (by rw [e0, e1]; exact hne) hi1 hg1 hr1 hh1 hs

theorem consts_run {s s' : BC} {acts : List BAct} (hs : BC.run s acts = some s') :
    s'.p = s.p ∧ s'.c = s.c ∧ s'.f0 = s.f0 ∧ s'.f1 = s.f1 := by
  induction acts generalizing s with
  | nil => simp [BC.run] at hs; subst hs; exact ⟨rfl, rfl, rfl, rfl⟩
  | cons a as ih =>
    simp only [BC.run] at hs
    cases hst : s.step a with
    | none => simp [hst] at hs
    | some s1 =>
      simp only [hst, Option.bind_some] at hs
      obtain ⟨a1, a2, a3, a4⟩ := step_consts hst
      obtain ⟨b1, b2, b3, b4⟩ := ih hs
      exact ⟨b1.trans a1, b2.trans a2, b3.trans a3, b4.trans a4⟩

/-- from `NewBroadcaster` on: the whole event trace runs without violation -/
theorem trace_run (p : Pid) (c : CBuf) (f0 f1 : Buf) (acts : List BAct) (s : BC) (h0 : Heap)
    (hne : f0 ≠ f1) (hc : h0.lent c = none) (h0f : (h0.cell f0).own = .pool) (h1f : (h0.cell f1).own = .pool)
    (hapi : ApiOk acts) (hr : BC.run (init p c f0 f1) acts = some s) :
    ∃ h, Own.run h0 s.trace = some h ∧ HInv s h := by
  have e1 : Own.run h0 (init p c f0 f1).trace = some { h0 with lent := upd h0.lent c (some p) } := by
    simp [init, Own.run_cons, Own.step, COp.apply, hc]
  have e2 : HInv (init p c f0 f1) { h0 with lent := upd h0.lent c (some p) } := by
    constructor <;> simp [init, h0f, h1f]
  exact hinv_run h0 _ s acts _ hne (inv_init p c f0 f1) (by simpa [Good, init] using hapi) e1 e2 hr

end BC
end Own
