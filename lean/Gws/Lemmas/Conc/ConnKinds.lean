import Gws.Lemmas.Conc.ConnInv
/-!
# Kind-aware invariants of the connection transition system

The kind of an actor is not part of the state; it is read off the schedule (`kindMap`).
* `KInv`: which program counters an actor of each kind can be at (`Typed`).
* `WInv`: the result of a `WriteClose` call versus the CAS winner.
-/

namespace Conc

/-- number of frames of the complete message an actor of this kind sends -/
def Kind.frames : Kind → Nat
  | .write _ => 1
  | .file n => n + 1
  | .bcast => 1
  | .closer => 0
  | .reader _ => 0

def Kind.isWriter : Kind → Bool
  | .write _ | .file _ | .bcast => true
  | _ => false

def Kind.isReader : Kind → Bool
  | .reader _ => true
  | _ => false

/-- which continuations a close sequence run by an actor of kind `k` can have -/
def ContTyped (k : Kind) : Cont → Prop
  | .ret .ok => k = .closer
  | .ret _ => k.isWriter = true
  | _ => k.isReader = true

/-- the program counters an actor of kind `k` can be at -/
def Typed (k : Kind) : Pc → Prop
  | .idle => False
  | .wLock r => k = .write r
  | .wWrite => k = .write false
  | .fLock n => k = .file n
  | .fCheck _ n => k = .file n
  | .bStart | .bLock | .bWrite => k = .bcast
  | .cCas c | .kLock c | .kWrite c => ContTyped k c
  | .cTclose c => ContTyped k c ∨ (c = .ret .ioErr ∧ k = .closer)
  | .rOpen _ | .rLoop _ | .rOnClose => k.isReader = true
  | .done _ => True

/-- every spawned actor is at a program counter of its kind; unspawned actors are idle -/
def KInv (K : Nat → Option Kind) (s : State) : Prop :=
  ∀ a, match K a with
    | none => s.pc a = .idle
    | some k => Typed k (s.pc a)

theorem KInv.idle_of_none {K : Nat → Option Kind} {s : State} (h : KInv K s) {a : Nat} (hk : K a = none) :
    s.pc a = .idle := by
  have := h a; rw [hk] at this; exact this

theorem KInv.typed {K : Nat → Option Kind} {s : State} (h : KInv K s) {a : Nat} {k : Kind} (hk : K a = some k) :
    Typed k (s.pc a) := by
  have := h a; rw [hk] at this; exact this

theorem KInv.of_idle {K : Nat → Option Kind} {s : State} (h : KInv K s) {a : Nat} (hp : s.pc a = .idle) :
    K a = none := by
  cases hk : K a with
  | none => rfl
  | some k => have := h.typed hk; rw [hp] at this; exact this.elim

theorem typed_startPc (k : Kind) : Typed k (startPc k) := by
  cases k <;> simp [startPc, Typed, Facts.bcClosedCheckUnderLock, ContTyped, Kind.isReader]

theorem kinv_init : KInv (kindMap []) {} := by
  intro a; simp

theorem kinv_step {K : Nat → Option Kind} {s s' : State} {x : Action} (hi : KInv K s)
    (h : step s x = some s') : KInv (updK K x) s' := by
  cases x with
  | spawn a k =>
    obtain ⟨rfl, hidle, -⟩ := spawn_cases h
    intro b
    simp only [updK, pc_setPc]
    by_cases hb : b = a
    · subst hb; simp only [if_true]; exact typed_startPc k
    · simp only [hb, if_false]; exact hi b
  | act a f =>
    obtain ⟨t, p', rfl, -, ht⟩ := act_cases h
    clear h
    intro b
    simp only [updK]
    have hb := hi b
    have ha := hi a
    generalize hq : s.pc a = q at ht
    rw [hq] at ha
    cases hk : K a with
    | none => rw [hk] at ha; simp only at ha; subst ha; cases ht
    | some k =>
      rw [hk] at ha; simp only at ha
      by_cases hba : b = a
      · subst hba
        rw [hk]
        simp only
        cases ht <;> upd_simp <;> simp_all [Typed, ContTyped, Kind.isWriter, Kind.isReader]
      · cases ht <;> upd_simp <;> simp only [hba, if_false] <;> exact hb

theorem kinv_run {xs : List Action} {s : State} (h : run {} xs = some s) : KInv (kindMap xs) s :=
  run_induction (motive := fun xs s => KInv (kindMap xs) s) {} kinv_init
    (fun xs _ x _ _ hm hs => by rw [kindMap_snoc]; exact kinv_step hm hs) xs s h

/-! ### the result of `WriteClose` -/

/-- what a `closer` actor's program counter says about the CAS winner -/
def CloserOK (w : Option Nat) (a : Nat) : Pc → Prop
  | .cCas _ => w ≠ some a
  | .done r => (r = .closed ∧ w ≠ some a) ∨ ((r = .ok ∨ r = .ioErr) ∧ w = some a)
  | _ => True

def WInv (K : Nat → Option Kind) (s : State) : Prop :=
  ∀ a, K a = some .closer → CloserOK s.winner a (s.pc a)

theorem winv_init : WInv (kindMap []) {} := by
  intro a; simp

theorem winv_step {K : Nat → Option Kind} {s s' : State} {x : Action} (hc : CInv s) (hk : KInv K s)
    (hi : WInv K s) (h : step s x = some s') : WInv (updK K x) s' := by
  cases x with
  | spawn a k =>
    obtain ⟨rfl, hidle, -⟩ := spawn_cases h
    intro b
    simp only [updK, pc_setPc, setPc_winner]
    by_cases hb : b = a
    · subst hb
      simp only [if_true]
      intro hk
      cases hk
      simp only [startPc, CloserOK]
      intro hw
      have := hc.winner_pc b hw
      rw [hidle] at this
      simp [Pc.inCloseSeq, Pc.finishedClose] at this
    · simp only [hb, if_false]; exact hi b
  | act a f =>
    obtain ⟨t, p', rfl, -, ht⟩ := act_cases h
    clear h
    intro b hb
    simp only [updK] at hb
    have hib := hi b hb
    have hkb := hk.typed hb
    have h2 := hc.closed_winner
    have h5 := hc.closeSeq_winner a
    generalize hq : s.pc a = q at ht
    by_cases hba : b = a
    · subst hba
      rw [hq] at hib hkb h5
      cases ht with
      | tcloseRet r =>
        upd_simp
        cases r <;> simp_all [CloserOK, Typed, ContTyped, Kind.isWriter, Pc.inCloseSeq]
      | _ =>
        upd_simp
        simp_all [CloserOK, Typed, ContTyped, Kind.isWriter, Kind.isReader, Pc.inCloseSeq]
    · have hab : ¬ a = b := fun e => hba e.symm
      cases ht <;> upd_simp <;> simp only [hba, if_false] <;> try exact hib
      -- the only action changing `winner`: a CAS won by another actor
      generalize s.pc b = pb at *
      have hw : s.winner = none := by
        cases hw : s.winner with
        | none => rfl
        | some w => rw [hw] at h2; simp_all
      cases pb <;> simp_all [CloserOK]

theorem winv_run {xs : List Action} {s : State} (h : run {} xs = some s) : WInv (kindMap xs) s :=
  run_induction (motive := fun xs s => WInv (kindMap xs) s) {} winv_init
    (fun xs _ x _ hr hm hs => by
      rw [kindMap_snoc]; exact winv_step (cinv_run hr) (kinv_run hr) hm hs) xs s h

end Conc
