import Gws.Model.Conc.Map
/-! Helper lemmas for C19: association-list shards, shard selection, size bookkeeping, the `Range` loop. -/

namespace CMap

namespace Shard

theorem load_store_self (m : Shard) (k v : Nat) : (m.store k v).load k = some v := by
  induction m with
  | nil => simp [store, load]
  | cons e m ih =>
    obtain ⟨k', v'⟩ := e
    by_cases h : k' = k <;> simp [store, load, h, ih]

theorem load_store_ne (m : Shard) (k v k' : Nat) (hne : k' ≠ k) : (m.store k v).load k' = m.load k' := by
  induction m with
  | nil => simp [store, load, Ne.symm hne]
  | cons e m ih =>
    obtain ⟨k₀, v₀⟩ := e
    by_cases h : k₀ = k
    · subst h; simp [store, load, Ne.symm hne]
    · by_cases h' : k₀ = k'
      · subst h'; simp [store, load, h]
      · simp [store, load, h, h', ih]

theorem load_delete_self (m : Shard) (k : Nat) : (m.delete k).load k = none := by
  induction m with
  | nil => simp [delete, load]
  | cons e m ih =>
    obtain ⟨k₀, v₀⟩ := e
    by_cases h : k₀ = k
    · subst h; simpa [delete, List.filter_cons] using ih
    · simp only [delete, List.filter_cons, bne_iff_ne, ne_eq, h, not_false_eq_true, ↓reduceIte, load]
      simpa [delete] using ih

theorem load_delete_ne (m : Shard) (k k' : Nat) (hne : k' ≠ k) : (m.delete k).load k' = m.load k' := by
  induction m with
  | nil => simp [delete, load]
  | cons e m ih =>
    obtain ⟨k₀, v₀⟩ := e
    by_cases h : k₀ = k
    · subst h
      simp only [delete, List.filter_cons, bne_self_eq_false, Bool.false_eq_true, ↓reduceIte, load, Ne.symm hne]
      simpa [delete] using ih
    · simp only [delete, List.filter_cons, bne_iff_ne, ne_eq, h, not_false_eq_true, ↓reduceIte, load]
      by_cases h' : k₀ = k'
      · simp [h']
      · simpa [h', delete] using ih

theorem mem_keys_iff (m : Shard) (k : Nat) : k ∈ m.keys ↔ m.load k ≠ none := by
  induction m with
  | nil => simp [keys, load]
  | cons e m ih =>
    obtain ⟨k₀, v₀⟩ := e
    by_cases h : k₀ = k
    · simp [keys, load, h]
    · simp only [keys, List.map_cons, List.mem_cons, load, h, ↓reduceIte]
      simp only [keys] at ih
      rw [← ih]; constructor
      · rintro (h1 | h1)
        · exact absurd h1.symm h
        · exact h1
      · exact Or.inr

theorem load_eq_none_iff (m : Shard) (k : Nat) : m.load k = none ↔ k ∉ m.keys := by
  rw [mem_keys_iff]; simp

theorem keys_store (m : Shard) (k v : Nat) :
    (m.store k v).keys = if m.load k = none then m.keys ++ [k] else m.keys := by
  induction m with
  | nil => simp [store, load, keys]
  | cons e m ih =>
    obtain ⟨k₀, v₀⟩ := e
    by_cases h : k₀ = k
    · simp [store, load, keys, h]
    · simp only [store, h, ↓reduceIte, load]
      simp only [keys, List.map_cons] at ih ⊢
      rw [ih]; split <;> simp

theorem size_store (m : Shard) (k v : Nat) :
    (m.store k v).size = m.size + (if m.load k = none then 1 else 0) := by
  have := congrArg List.length (keys_store m k v)
  simp only [keys, List.length_map] at this
  simp only [size, this]
  split <;> simp

theorem keys_delete (m : Shard) (k : Nat) : (m.delete k).keys = m.keys.filter (· != k) := by
  simp [delete, keys, List.filter_map, Function.comp_def]

theorem nodup_store (m : Shard) (k v : Nat) (h : m.keys.Nodup) : (m.store k v).keys.Nodup := by
  rw [keys_store]
  split
  · rename_i hn
    rw [load_eq_none_iff] at hn
    rw [List.nodup_append]
    refine ⟨h, by simp, ?_⟩
    intro a ha b hb
    simp at hb; subst hb
    intro hab; subst hab; exact hn ha
  · exact h

theorem nodup_delete (m : Shard) (k : Nat) (h : m.keys.Nodup) : (m.delete k).keys.Nodup := by
  rw [keys_delete]; exact h.filter _

theorem size_delete (m : Shard) (k : Nat) (h : m.keys.Nodup) :
    (m.delete k).size + (if m.load k = none then 0 else 1) = m.size := by
  induction m with
  | nil => simp [delete, load, size]
  | cons e m ih =>
    obtain ⟨k₀, v₀⟩ := e
    simp only [keys, List.map_cons, List.nodup_cons] at h
    have ih := ih h.2
    by_cases hk : k₀ = k
    · subst hk
      have hn : load m k₀ = none := (load_eq_none_iff m k₀).2 h.1
      simp only [hn, ↓reduceIte, Nat.add_zero] at ih
      simp only [delete, size] at ih
      simp [delete, load, size, ih]
    · simp only [delete, size] at ih
      simp only [delete, List.filter_cons, bne_iff_ne, ne_eq, hk, not_false_eq_true, ↓reduceIte,
        load, size, List.length_cons]
      omega

/-- with unique keys, membership of an entry is the same as `load` returning its value -/
theorem mem_iff_load (m : Shard) (k v : Nat) (h : m.keys.Nodup) : (k, v) ∈ m ↔ m.load k = some v := by
  induction m with
  | nil => simp [load]
  | cons e m ih =>
    obtain ⟨k₀, v₀⟩ := e
    simp only [keys, List.map_cons, List.nodup_cons] at h
    have ih := ih h.2
    by_cases hk : k₀ = k
    · subst hk
      simp only [List.mem_cons, Prod.mk.injEq, true_and, load, ↓reduceIte, Option.some.injEq]
      constructor
      · rintro (h1 | h1)
        · exact h1.symm
        · exact absurd (List.mem_map_of_mem (f := (·.1)) h1) h.1
      · intro h1; exact Or.inl h1.symm
    · simp only [List.mem_cons, Prod.mk.injEq, load, hk, ↓reduceIte]
      rw [← ih]; constructor
      · rintro (h1 | h1)
        · exact absurd h1.1.symm hk
        · exact h1
      · exact Or.inr

end Shard

/-! ### shard count and index -/

theorem toBinaryNumber.loop_spec (n : Nat) : ∀ fuel x j, x = 2 ^ j → n ≤ x * 2 ^ fuel → (x < 2 * n ∨ x = 1) →
    ∃ m, loop n fuel x = 2 ^ m ∧ n ≤ loop n fuel x ∧ (loop n fuel x < 2 * n ∨ loop n fuel x = 1) := by
  intro fuel
  induction fuel with
  | zero => intro x j hx hn hlt; exact ⟨j, by simpa [loop] using hx, by simpa [loop] using hn, by simpa [loop] using hlt⟩
  | succ f ih =>
    intro x j hx hn hlt
    unfold loop
    split
    · rename_i hlt'
      apply ih (x * 2) (j + 1)
      · rw [hx, Nat.pow_succ]
      · rw [Nat.pow_succ] at hn; rw [Nat.mul_assoc, Nat.mul_comm 2]; exact hn
      · left; omega
    · exact ⟨j, hx, by omega, hlt⟩

theorem toBinaryNumber_spec (n : Nat) :
    ∃ m, toBinaryNumber n = 2 ^ m ∧ n ≤ toBinaryNumber n ∧ (toBinaryNumber n < 2 * n ∨ toBinaryNumber n = 1) := by
  unfold toBinaryNumber
  apply toBinaryNumber.loop_spec n n 1 0 rfl
  · have := @Nat.lt_two_pow_self n; omega
  · right; rfl

theorem Cfg.num_pow2 (c : Cfg) : ∃ m, c.num = 2 ^ m := by
  obtain ⟨m, h, _⟩ := toBinaryNumber_spec (if c.n = 0 then 16 else c.n)
  exact ⟨m, h⟩

theorem Cfg.num_pos (c : Cfg) : 0 < c.num := by
  obtain ⟨m, h⟩ := c.num_pow2
  rw [h]; exact Nat.two_pow_pos m

theorem Cfg.idx_eq_mod (c : Cfg) (k : Nat) : c.idx k = c.hash k % c.num := by
  obtain ⟨m, h⟩ := c.num_pow2
  unfold Cfg.idx
  rw [h, Nat.and_two_pow_sub_one_eq_mod]

theorem Cfg.idx_lt (c : Cfg) (k : Nat) : c.idx k < c.num := by
  rw [c.idx_eq_mod]; exact Nat.mod_lt _ c.num_pos

/-! ### state bookkeeping -/

namespace State

theorem shard_setShard_self (s : State) (i : Nat) (m : Shard) (h : i < s.shards.length) :
    (s.setShard i m).shard i = m := by
  simp [shard, setShard, List.getD_eq_getElem?_getD, h]

theorem shard_setShard_ne (s : State) (i j : Nat) (m : Shard) (h : j ≠ i) :
    (s.setShard i m).shard j = s.shard j := by
  simp [shard, setShard, List.getD_eq_getElem?_getD, Ne.symm h]

theorem shard_of_ge (s : State) (i : Nat) (h : s.shards.length ≤ i) : s.shard i = [] := by
  simp [shard, List.getD_eq_getElem?_getD, h]

theorem restSize_zero (s : State) : s.restSize 0 = s.size := by simp [restSize, size]

theorem restSize_of_ge (s : State) (n : Nat) (h : s.shards.length ≤ n) : s.restSize n = 0 := by
  simp [restSize, List.drop_eq_nil_of_le h]

theorem restSize_succ (s : State) (n : Nat) (h : n < s.shards.length) :
    s.restSize n = (s.shard n).size + s.restSize (n + 1) := by
  unfold restSize shard
  rw [List.drop_eq_getElem_cons h, List.getD_eq_getElem?_getD, List.getElem?_eq_getElem h]
  simp only [List.map_cons, List.sum_cons, Option.getD_some]

end State

theorem sum_sizes_set (l : List Shard) : ∀ (n i : Nat) (m : Shard), i < l.length →
    (((l.set i m).drop n).map Shard.size).sum + (if n ≤ i then (l.getD i []).size else 0) =
      ((l.drop n).map Shard.size).sum + (if n ≤ i then m.size else 0) := by
  induction l with
  | nil => intro n i m h; simp at h
  | cons x l ih =>
    intro n i m h
    cases i with
    | zero =>
      cases n with
      | zero => simp; omega
      | succ n => simp
    | succ i =>
      cases n with
      | zero =>
        have := ih 0 i m (by simpa using h)
        simp at this ⊢; omega
      | succ n =>
        have := ih n i m (by simpa using h)
        simpa using this

theorem State.restSize_setShard (s : State) (n i : Nat) (m : Shard) (h : i < s.shards.length) :
    (s.setShard i m).restSize n + (if n ≤ i then (s.shard i).size else 0) =
      s.restSize n + (if n ≤ i then m.size else 0) :=
  sum_sizes_set s.shards n i m h

section
variable (c : Cfg)

/-! ### refinement of the single-section operations -/

theorem load_eq_abs (s : State) (k : Nat) : s.load c k = abs c s k := rfl

theorem abs_store (s : State) (k v : Nat) (h : s.shards.length = c.num) :
    abs c (s.store c k v) = (abs c s).store k v := by
  funext k'
  have hi : ∀ x, c.idx x < s.shards.length := fun x => by rw [h]; exact c.idx_lt x
  simp only [abs, State.store, Spec.store]
  by_cases hk : k' = k
  · subst hk
    rw [State.shard_setShard_self _ _ _ (hi k'), Shard.load_store_self]; simp
  · simp only [hk, ↓reduceIte]
    by_cases hx : c.idx k' = c.idx k
    · rw [hx, State.shard_setShard_self _ _ _ (hi k), Shard.load_store_ne _ _ _ _ hk]
    · rw [State.shard_setShard_ne _ _ _ _ hx]

theorem abs_delete (s : State) (k : Nat) (h : s.shards.length = c.num) :
    abs c (s.delete c k) = (abs c s).delete k := by
  funext k'
  have hi : ∀ x, c.idx x < s.shards.length := fun x => by rw [h]; exact c.idx_lt x
  simp only [abs, State.delete, Spec.delete]
  by_cases hk : k' = k
  · subst hk
    rw [State.shard_setShard_self _ _ _ (hi k'), Shard.load_delete_self]; simp
  · simp only [hk, ↓reduceIte]
    by_cases hx : c.idx k' = c.idx k
    · rw [hx, State.shard_setShard_self _ _ _ (hi k), Shard.load_delete_ne _ _ _ hk]
    · rw [State.shard_setShard_ne _ _ _ _ hx]

/-! ### the state invariant -/

theorem shard_congr {s s' : State} (h : s'.shards = s.shards) (i : Nat) : s'.shard i = s.shard i := by
  simp [State.shard, h]

theorem wf_congr {s s' : State} (h : s'.shards = s.shards) (hw : WF c s) : WF c s' :=
  ⟨by rw [h]; exact hw.len, fun i => by rw [shard_congr h]; exact hw.nodup i,
   fun i k hk => hw.home i k (by rw [← shard_congr h]; exact hk)⟩

theorem abs_congr {s s' : State} (h : s'.shards = s.shards) : abs c s' = abs c s := by
  funext k; simp [abs, shard_congr h]

theorem restSize_congr {s s' : State} (h : s'.shards = s.shards) (n : Nat) : s'.restSize n = s.restSize n := by
  simp [State.restSize, h]

theorem wf_init : WF c (State.init c) := by
  have hs : ∀ i, (State.init c).shard i = [] := by
    intro i
    simp only [State.shard, State.init, List.getD_eq_getElem?_getD, List.getElem?_replicate]
    split <;> rfl
  exact ⟨by simp [State.init], fun i => by rw [hs]; simp [Shard.keys], fun i k hk => by rw [hs] at hk; simp [Shard.keys] at hk⟩

theorem wf_store (s : State) (k v : Nat) (h : WF c s) : WF c (s.store c k v) := by
  have hi : c.idx k < s.shards.length := by rw [h.len]; exact c.idx_lt k
  refine ⟨by simp [State.store, State.setShard, h.len], ?_, ?_⟩
  · intro i
    by_cases hik : i = c.idx k
    · subst hik; simp only [State.store]
      rw [State.shard_setShard_self _ _ _ hi]; exact Shard.nodup_store _ _ _ (h.nodup _)
    · simp only [State.store]; rw [State.shard_setShard_ne _ _ _ _ hik]; exact h.nodup i
  · intro i k' hk'
    by_cases hik : i = c.idx k
    · subst hik
      simp only [State.store] at hk'
      rw [State.shard_setShard_self _ _ _ hi, Shard.keys_store] at hk'
      split at hk'
      · simp only [List.mem_append, List.mem_singleton] at hk'
        rcases hk' with hk' | hk'
        · exact h.home _ _ hk'
        · rw [hk']
      · exact h.home _ _ hk'
    · simp only [State.store] at hk'
      rw [State.shard_setShard_ne _ _ _ _ hik] at hk'; exact h.home i k' hk'

theorem wf_delete (s : State) (k : Nat) (h : WF c s) : WF c (s.delete c k) := by
  have hi : c.idx k < s.shards.length := by rw [h.len]; exact c.idx_lt k
  refine ⟨by simp [State.delete, State.setShard, h.len], ?_, ?_⟩
  · intro i
    by_cases hik : i = c.idx k
    · subst hik; simp only [State.delete]
      rw [State.shard_setShard_self _ _ _ hi]; exact Shard.nodup_delete _ _ (h.nodup _)
    · simp only [State.delete]; rw [State.shard_setShard_ne _ _ _ _ hik]; exact h.nodup i
  · intro i k' hk'
    by_cases hik : i = c.idx k
    · subst hik
      simp only [State.delete] at hk'
      rw [State.shard_setShard_self _ _ _ hi, Shard.keys_delete] at hk'
      exact h.home _ _ (List.mem_filter.1 hk').1
    · simp only [State.delete] at hk'
      rw [State.shard_setShard_ne _ _ _ _ hik] at hk'; exact h.home i k' hk'

/-- actions other than `store`/`delete` leave the shards alone -/
theorem step_shards {s s' : State} {a : Act} (hst : step c s a = some s')
    (h1 : ∀ k v, a ≠ .store k v) (h2 : ∀ k, a ≠ .delete k) : s'.shards = s.shards := by
  cases a with
  | load k => simp only [step, Option.some.injEq] at hst; rw [← hst]
  | store k v => exact absurd rfl (h1 k v)
  | delete k => exact absurd rfl (h2 k)
  | lenStart id =>
    simp only [step] at hst
    split at hst
    · simp only [Option.some.injEq] at hst; rw [← hst]
    · simp at hst
  | lenStep id =>
    simp only [step] at hst
    split at hst
    · split at hst
      · simp only [Option.some.injEq] at hst; rw [← hst]
      · simp at hst
    · simp at hst
  | rangeStart id cb =>
    simp only [step] at hst
    split at hst
    · simp only [Option.some.injEq] at hst; rw [← hst]
    · simp at hst
  | rangeStep id order =>
    simp only [step] at hst
    split at hst
    · split at hst
      · simp only [Option.some.injEq] at hst; rw [← hst]
      · simp at hst
    · simp at hst

theorem wf_step {s s' : State} {a : Act} (h : WF c s) (hst : step c s a = some s') : WF c s' := by
  cases a with
  | store k v => simp only [step, Option.some.injEq] at hst; rw [← hst]; exact wf_store c s k v h
  | delete k => simp only [step, Option.some.injEq] at hst; rw [← hst]; exact wf_delete c s k h
  | load k => exact wf_congr c (step_shards c hst (by intros; simp) (by intros; simp)) h
  | lenStart id => exact wf_congr c (step_shards c hst (by intros; simp) (by intros; simp)) h
  | lenStep id => exact wf_congr c (step_shards c hst (by intros; simp) (by intros; simp)) h
  | rangeStart id cb => exact wf_congr c (step_shards c hst (by intros; simp) (by intros; simp)) h
  | rangeStep id order => exact wf_congr c (step_shards c hst (by intros; simp) (by intros; simp)) h

theorem wf_run : ∀ (tr : List Act) {s s' : State}, WF c s → run c s tr = some s' → WF c s' := by
  intro tr
  induction tr with
  | nil => intro s s' h hr; simp only [run, Option.some.injEq] at hr; rw [← hr]; exact h
  | cons a tr ih =>
    intro s s' h hr
    simp only [run] at hr
    cases hst : step c s a with
    | none => simp [hst] at hr
    | some s1 => simp only [hst] at hr; exact ih (wf_step c h hst) hr

/-- what one action does to the abstract map -/
theorem abs_step {s s' : State} {a : Act} (h : WF c s) (hst : step c s a = some s') :
    abs c s' = Spec.run (abs c s) [a] := by
  cases a with
  | store k v => simp only [step, Option.some.injEq] at hst; rw [← hst, abs_store c s k v h.len]; rfl
  | delete k => simp only [step, Option.some.injEq] at hst; rw [← hst, abs_delete c s k h.len]; rfl
  | load k => exact abs_congr c (step_shards c hst (by intros; simp) (by intros; simp))
  | lenStart id => exact abs_congr c (step_shards c hst (by intros; simp) (by intros; simp))
  | lenStep id => exact abs_congr c (step_shards c hst (by intros; simp) (by intros; simp))
  | rangeStart id cb => exact abs_congr c (step_shards c hst (by intros; simp) (by intros; simp))
  | rangeStep id order => exact abs_congr c (step_shards c hst (by intros; simp) (by intros; simp))

/-! ### size bookkeeping -/

theorem restSize_store (s : State) (k v n : Nat) (h : WF c s) :
    (s.store c k v).restSize n = s.restSize n + (if abs c s k = none ∧ n ≤ c.idx k then 1 else 0) := by
  have hi : c.idx k < s.shards.length := by rw [h.len]; exact c.idx_lt k
  have := State.restSize_setShard s n (c.idx k) ((s.shard (c.idx k)).store k v) hi
  rw [Shard.size_store] at this
  simp only [State.store, abs]
  by_cases h1 : n ≤ c.idx k <;> by_cases h2 : (s.shard (c.idx k)).load k = none <;>
    simp only [h1, h2, ↓reduceIte, and_self, and_true, and_false] at this ⊢ <;> omega

theorem restSize_delete (s : State) (k n : Nat) (h : WF c s) :
    (s.delete c k).restSize n + (if abs c s k ≠ none ∧ n ≤ c.idx k then 1 else 0) = s.restSize n := by
  have hi : c.idx k < s.shards.length := by rw [h.len]; exact c.idx_lt k
  have := State.restSize_setShard s n (c.idx k) ((s.shard (c.idx k)).delete k) hi
  have hd := Shard.size_delete (s.shard (c.idx k)) k (h.nodup _)
  simp only [State.delete, abs]
  by_cases h1 : n ≤ c.idx k <;> by_cases h2 : (s.shard (c.idx k)).load k = none <;>
    simp only [h1, h2, ↓reduceIte, and_self, and_true, and_false, ne_eq,
      not_true_eq_false, not_false_eq_true] at this hd ⊢ <;> omega


theorem upd_self {α : Type} (f : Nat → Option α) (id : Nat) (v : α) : upd f id v id = some v := by
  simp [upd]

theorem upd_ne {α : Type} (f : Nat → Option α) (id j : Nat) (v : α) (h : j ≠ id) : upd f id v j = f j := by
  simp [upd, h]

/-! ### `Len`: partial sum + unvisited shards stays within the bounds -/

/-- one atomic action against an in-progress `Len` call -/
theorem len_step_inv (id : Nat) {s s1 : State} {a : Act} {lc : LenCall} (hwf : WF c s)
    (hl : s.lens id = some lc) (hst : step c s a = some s1) :
    ∃ lc1, s1.lens id = some lc1 ∧
      lc.sum + s.restSize lc.next ≤ lc1.sum + s1.restSize lc1.next + removesKey c s a ∧
      lc1.sum + s1.restSize lc1.next ≤ lc.sum + s.restSize lc.next + insertsKey c s a := by
  cases a with
  | load k =>
    simp only [step, Option.some.injEq] at hst; subst hst
    exact ⟨lc, hl, by simp [removesKey], by simp [insertsKey]⟩
  | store k v =>
    simp only [step, Option.some.injEq] at hst; subst hst
    refine ⟨lc, hl, ?_, ?_⟩
    · rw [restSize_store c s k v _ hwf]; simp only [removesKey]; omega
    · rw [restSize_store c s k v _ hwf]; simp only [insertsKey]
      by_cases h1 : abs c s k = none <;> by_cases h2 : lc.next ≤ c.idx k <;> simp [h1, h2] <;> omega
  | delete k =>
    simp only [step, Option.some.injEq] at hst; subst hst
    have := restSize_delete c s k lc.next hwf
    refine ⟨lc, hl, ?_, ?_⟩
    · simp only [removesKey]
      by_cases h1 : abs c s k = none <;> by_cases h2 : lc.next ≤ c.idx k <;> simp [h1, h2] at this ⊢ <;> omega
    · simp only [insertsKey]; omega
  | lenStart id' =>
    simp only [step] at hst
    split at hst
    · rename_i hn
      simp only [Option.some.injEq] at hst; subst hst
      have hne : id ≠ id' := by intro h; subst h; rw [hl] at hn; simp at hn
      exact ⟨lc, by simp only [upd_ne _ _ _ _ hne, hl], by simp [removesKey, State.restSize], by simp [insertsKey, State.restSize]⟩
    · simp at hst
  | lenStep id' =>
    simp only [step] at hst
    split at hst
    · rename_i lc0 hl0
      split at hst
      · rename_i hlt
        simp only [Option.some.injEq] at hst; subst hst
        by_cases hid : id = id'
        · subst hid
          rw [hl] at hl0; simp only [Option.some.injEq] at hl0; subst hl0
          refine ⟨_, upd_self _ _ _, ?_, ?_⟩
          · have := State.restSize_succ s lc.next (by rw [hwf.len]; exact hlt)
            simp only [removesKey, State.restSize] at this ⊢; omega
          · have := State.restSize_succ s lc.next (by rw [hwf.len]; exact hlt)
            simp only [insertsKey, State.restSize] at this ⊢; omega
        · exact ⟨lc, by simp only [upd_ne _ _ _ _ hid, hl], by simp [removesKey, State.restSize], by simp [insertsKey, State.restSize]⟩
      · simp at hst
    · simp at hst
  | rangeStart id' cb =>
    simp only [step] at hst
    split at hst
    · simp only [Option.some.injEq] at hst; subst hst
      exact ⟨lc, hl, by simp [removesKey, State.restSize], by simp [insertsKey, State.restSize]⟩
    · simp at hst
  | rangeStep id' order =>
    simp only [step] at hst
    split at hst
    · split at hst
      · simp only [Option.some.injEq] at hst; subst hst
        exact ⟨lc, hl, by simp [removesKey, State.restSize], by simp [insertsKey, State.restSize]⟩
      · simp at hst
    · simp at hst

/-- any interleaving against an in-progress `Len` call -/
theorem len_track (id : Nat) : ∀ (tr : List Act) (s s' : State) (lc : LenCall), WF c s → s.lens id = some lc →
    run c s tr = some s' → ∃ lc', s'.lens id = some lc' ∧
      lc.sum + s.restSize lc.next ≤ lc'.sum + s'.restSize lc'.next + removes c s tr ∧
      lc'.sum + s'.restSize lc'.next ≤ lc.sum + s.restSize lc.next + inserts c s tr := by
  intro tr
  induction tr with
  | nil =>
    intro s s' lc _ hl hr
    simp only [run, Option.some.injEq] at hr; subst hr
    exact ⟨lc, hl, by simp [removes], by simp [inserts]⟩
  | cons a tr ih =>
    intro s s' lc hwf hl hr
    simp only [run] at hr
    cases hst : step c s a with
    | none => simp [hst] at hr
    | some s1 =>
      simp only [hst] at hr
      obtain ⟨lc1, hl1, hlo, hhi⟩ := len_step_inv c id hwf hl hst
      obtain ⟨lc', hl', h1, h2⟩ := ih s1 s' lc1 (wf_step c hwf hst) hl1 hr
      refine ⟨lc', hl', ?_, ?_⟩
      · simp only [removes, hst]; omega
      · simp only [inserts, hst]; omega

/-! ### `Range` -/

theorem visit_spec (cb : List Entry → Bool) : ∀ (es log : List Entry),
    (∀ i, i + 1 < log.length → cb (log.take (i + 1)) = true) → (log ≠ [] → cb log = true) →
    ∃ t, (visit cb log es).1 = log ++ es.take t ∧
      ((visit cb log es).2 = true → (visit cb log es).1 = log ++ es) ∧
      (∀ i, i + 1 < (visit cb log es).1.length → cb ((visit cb log es).1.take (i + 1)) = true) ∧
      ((visit cb log es).1 ≠ [] → cb (visit cb log es).1 = (visit cb log es).2) ∧
      ((visit cb log es).1 = [] → (visit cb log es).2 = true) := by
  intro es
  induction es with
  | nil =>
    intro log h1 h2
    refine ⟨0, by simp [visit], by simp [visit], by simpa [visit] using h1, by simpa [visit] using h2, by simp [visit]⟩
  | cons e es ih =>
    intro log h1 h2
    have h1' : ∀ i, i + 1 < (log ++ [e]).length → cb ((log ++ [e]).take (i + 1)) = true := by
      intro i hi
      simp only [List.length_append, List.length_cons, List.length_nil] at hi
      rw [List.take_append_of_le_length (by omega)]
      by_cases hlt : i + 1 < log.length
      · exact h1 i hlt
      · have hlen : log.length = i + 1 := by omega
        rw [List.take_of_length_le (by omega)]
        apply h2; intro hnil; rw [hnil] at hlen; simp at hlen
    unfold visit
    by_cases hcb : cb (log ++ [e]) = true
    · simp only [hcb, ↓reduceIte]
      obtain ⟨t, ht, hall, hcalls, hlast, hempty⟩ := ih (log ++ [e]) h1' (fun _ => hcb)
      refine ⟨t + 1, by simpa [List.append_assoc] using ht, ?_, hcalls, hlast, hempty⟩
      intro hg; simpa [List.append_assoc] using hall hg
    · simp only [hcb, Bool.false_eq_true, ↓reduceIte]
      refine ⟨1, by simp, by simp, h1', ?_, by simp⟩
      intro _; simp

/-- what is known about a `Range` call at every moment -/
structure RInv (c : Cfg) (rc : RangeCall) : Prop where
  /-- no key has been passed to the callback twice -/
  nodup : (rc.log.map (·.1)).Nodup
  /-- everything passed so far came from shards already visited -/
  visited : ∀ e ∈ rc.log, c.idx e.1 < rc.next
  /-- every callback invocation that was followed by another one had returned true -/
  calls : ∀ i, i + 1 < rc.log.length → rc.cb (rc.log.take (i + 1)) = true
  /-- `go` (the Go variable `next`) is the answer of the last invocation -/
  last : rc.log ≠ [] → rc.cb rc.log = rc.go
  empty : rc.log = [] → rc.go = true

/-- one atomic action against an in-progress `Range` call; the last clause tracks an entry `k ↦ v`
that is present in the state the action starts from -/
theorem range_step_inv (id : Nat) {s s1 : State} {a : Act} {rc : RangeCall} (hwf : WF c s)
    (hr : s.ranges id = some rc) (hinv : RInv c rc) (hst : step c s a = some s1) :
    ∃ rc1, s1.ranges id = some rc1 ∧ rc1.cb = rc.cb ∧ RInv c rc1 ∧
      ∀ k v, abs c s k = some v → (rc.go = true → c.idx k < rc.next → (k, v) ∈ rc.log) →
        (rc1.go = true → c.idx k < rc1.next → (k, v) ∈ rc1.log) := by
  cases a with
  | load k => simp only [step, Option.some.injEq] at hst; subst hst; exact ⟨rc, hr, rfl, hinv, fun _ _ _ h => h⟩
  | store k v => simp only [step, Option.some.injEq] at hst; subst hst; exact ⟨rc, hr, rfl, hinv, fun _ _ _ h => h⟩
  | delete k => simp only [step, Option.some.injEq] at hst; subst hst; exact ⟨rc, hr, rfl, hinv, fun _ _ _ h => h⟩
  | lenStart id' =>
    simp only [step] at hst
    split at hst
    · simp only [Option.some.injEq] at hst; subst hst; exact ⟨rc, hr, rfl, hinv, fun _ _ _ h => h⟩
    · simp at hst
  | lenStep id' =>
    simp only [step] at hst
    split at hst
    · split at hst
      · simp only [Option.some.injEq] at hst; subst hst; exact ⟨rc, hr, rfl, hinv, fun _ _ _ h => h⟩
      · simp at hst
    · simp at hst
  | rangeStart id' cb =>
    simp only [step] at hst
    split at hst
    · rename_i hn
      simp only [Option.some.injEq] at hst; subst hst
      have hne : id ≠ id' := by intro h; subst h; rw [hr] at hn; simp at hn
      exact ⟨rc, by simp only [upd_ne _ _ _ _ hne, hr], rfl, hinv, fun _ _ _ h => h⟩
    · simp at hst
  | rangeStep id' order =>
    simp only [step] at hst
    split at hst
    · rename_i rc0 hr0
      split at hst
      · rename_i hg
        obtain ⟨hgo, hlt, hperm⟩ := hg
        simp only [Option.some.injEq] at hst; subst hst
        by_cases hid : id = id'
        · subst hid
          rw [hr] at hr0; simp only [Option.some.injEq] at hr0; subst hr0
          have hlast : rc.log ≠ [] → rc.cb rc.log = true := fun h => by rw [hinv.last h, hgo]
          obtain ⟨t, ht, hall, hcalls, hl, he⟩ := visit_spec rc.cb order rc.log hinv.calls hlast
          -- entries of `order` are the entries of the shard being visited
          have hhome : ∀ e ∈ order, c.idx e.1 = rc.next := fun e he =>
            hwf.home rc.next e.1 (List.mem_map_of_mem (f := (·.1)) (hperm.mem_iff.1 he))
          have hnd : (order.map (·.1)).Nodup :=
            (List.Perm.map (fun e : Entry => e.1) hperm).nodup_iff.2 (hwf.nodup rc.next)
          refine ⟨_, upd_self _ _ _, rfl, ⟨?_, ?_, hcalls, hl, he⟩, ?_⟩
          · show ((visit rc.cb rc.log order).1.map (·.1)).Nodup
            rw [ht, List.map_append, List.nodup_append]
            refine ⟨hinv.nodup, ((List.take_sublist t order).map (·.1)).nodup hnd, ?_⟩
            intro a ha b hb hab
            obtain ⟨e1, he1, rfl⟩ := List.mem_map.1 ha
            obtain ⟨e2, he2, rfl⟩ := List.mem_map.1 hb
            have h1 := hinv.visited e1 he1
            have h2 := hhome e2 (List.mem_of_mem_take he2)
            rw [hab] at h1; omega
          · intro e he'
            show c.idx e.1 < rc.next + 1
            rw [ht, List.mem_append] at he'
            rcases he' with he' | he'
            · have := hinv.visited e he'; omega
            · have := hhome e (List.mem_of_mem_take he'); omega
          · intro k v hkv hQ hgo1 hlt1
            show (k, v) ∈ (visit rc.cb rc.log order).1
            have hgo1' : (visit rc.cb rc.log order).2 = true := hgo1
            have hlt1' : c.idx k < rc.next + 1 := hlt1
            rw [hall hgo1', List.mem_append]
            by_cases hk : c.idx k < rc.next
            · exact Or.inl (hQ hgo hk)
            · have hkn : c.idx k = rc.next := by omega
              right
              rw [hperm.mem_iff, ← hkn, Shard.mem_iff_load _ _ _ (hwf.nodup _)]
              exact hkv
        · exact ⟨rc, by simp only [upd_ne _ _ _ _ hid, hr], rfl, hinv, fun _ _ _ h => h⟩
      · simp at hst
    · simp at hst

/-- any interleaving against an in-progress `Range` call -/
theorem range_track (id : Nat) : ∀ (tr : List Act) (s s' : State) (rc : RangeCall), WF c s →
    s.ranges id = some rc → RInv c rc → run c s tr = some s' →
    ∃ rc', s'.ranges id = some rc' ∧ rc'.cb = rc.cb ∧ RInv c rc' ∧
      ∀ k v, stable c k v s tr → (rc.go = true → c.idx k < rc.next → (k, v) ∈ rc.log) →
        (rc'.go = true → c.idx k < rc'.next → (k, v) ∈ rc'.log) := by
  intro tr
  induction tr with
  | nil =>
    intro s s' rc _ hr hinv hrun
    simp only [run, Option.some.injEq] at hrun; subst hrun
    exact ⟨rc, hr, rfl, hinv, fun _ _ _ h => h⟩
  | cons a tr ih =>
    intro s s' rc hwf hr hinv hrun
    simp only [run] at hrun
    cases hst : step c s a with
    | none => simp [hst] at hrun
    | some s1 =>
      simp only [hst] at hrun
      obtain ⟨rc1, hr1, hcb1, hinv1, hq1⟩ := range_step_inv c id hwf hr hinv hst
      obtain ⟨rc', hr', hcb', hinv', hq'⟩ := ih s1 s' rc1 (wf_step c hwf hst) hr1 hinv1 hrun
      refine ⟨rc', hr', by rw [hcb', hcb1], hinv', ?_⟩
      intro k v hstab hQ
      simp only [stable, hst] at hstab
      exact hq' k v hstab.2 (hq1 k v hstab.1 hQ)


/-! ### `size` is the number of keys present -/

theorem keys_flatten_nodup (f : Nat → Nat) : ∀ (l : List Shard) (off : Nat),
    (∀ m ∈ l, m.keys.Nodup) → (∀ j (h : j < l.length), ∀ k ∈ (l[j]).keys, f k = off + j) →
    ((l.map Shard.keys).flatten).Nodup := by
  intro l
  induction l with
  | nil => intros; simp
  | cons x l ih =>
    intro off hnd hhome
    simp only [List.map_cons, List.flatten_cons, List.nodup_append]
    refine ⟨hnd x (by simp), ih (off + 1) (fun m hm => hnd m (by simp [hm])) ?_, ?_⟩
    · intro j hj k hk
      have := hhome (j + 1) (by simp; omega) k (by simpa using hk)
      omega
    · intro a ha b hb hab
      subst hab
      have h0 := hhome 0 (by simp) a (by simpa using ha)
      obtain ⟨ks, hks, hbk⟩ := List.mem_flatten.1 hb
      obtain ⟨m, hm, rfl⟩ := List.mem_map.1 hks
      obtain ⟨j, hj, rfl⟩ := List.mem_iff_getElem.1 hm
      have := hhome (j + 1) (by simp; omega) a (by simpa using hbk)
      omega

theorem size_card (s : State) (hwf : WF c s) :
    ∃ keys : List Nat, keys.Nodup ∧ keys.length = s.size ∧ ∀ k, k ∈ keys ↔ abs c s k ≠ none := by
  have hsh : ∀ j (h : j < s.shards.length), s.shards[j] = s.shard j := by
    intro j h; simp [State.shard, List.getD_eq_getElem?_getD, h]
  refine ⟨(s.shards.map Shard.keys).flatten, ?_, ?_, ?_⟩
  · apply keys_flatten_nodup c.idx s.shards 0
    · intro m hm
      obtain ⟨j, hj, rfl⟩ := List.mem_iff_getElem.1 hm
      rw [hsh]; exact hwf.nodup j
    · intro j hj k hk
      rw [hsh] at hk; simpa using hwf.home j k hk
  · simp only [List.length_flatten, State.size, Shard.keys, List.map_map, Function.comp_def, List.length_map]
    rfl
  · intro k
    rw [List.mem_flatten]
    constructor
    · rintro ⟨ks, hks, hk⟩
      obtain ⟨m, hm, rfl⟩ := List.mem_map.1 hks
      obtain ⟨j, hj, rfl⟩ := List.mem_iff_getElem.1 hm
      rw [hsh] at hk
      have := hwf.home j k hk
      simp only [abs, this]
      exact (Shard.mem_keys_iff _ _).1 hk
    · intro h
      have hi : c.idx k < s.shards.length := by rw [hwf.len]; exact c.idx_lt k
      exact ⟨(s.shard (c.idx k)).keys,
        List.mem_map.2 ⟨s.shards[c.idx k], List.getElem_mem hi, by rw [hsh]⟩, (Shard.mem_keys_iff _ _).2 h⟩

end

end CMap

namespace SMap
open CMap

/-- one `smap` method, whatever it is, behaves like the same method on the plain map -/
theorem step_ok {m m' : Shard} {a : Act} {r : Ret} (hnd : m.keys.Nodup) (hst : step m a = some (m', r)) :
    specOk (abs m) a r ∧ abs m' = specNext (abs m) a ∧ m'.keys.Nodup := by
  cases a with
  | load k =>
    simp only [step, Option.some.injEq, Prod.mk.injEq] at hst
    obtain ⟨rfl, rfl⟩ := hst
    exact ⟨rfl, rfl, hnd⟩
  | store k v =>
    simp only [step, Option.some.injEq, Prod.mk.injEq] at hst
    obtain ⟨rfl, rfl⟩ := hst
    refine ⟨trivial, ?_, Shard.nodup_store _ _ _ hnd⟩
    funext k'
    by_cases hk : k' = k
    · subst hk; simp [abs, specNext, Spec.store, Shard.load_store_self]
    · simp [abs, specNext, Spec.store, hk, Shard.load_store_ne _ _ _ _ hk]
  | delete k =>
    simp only [step, Option.some.injEq, Prod.mk.injEq] at hst
    obtain ⟨rfl, rfl⟩ := hst
    refine ⟨trivial, ?_, Shard.nodup_delete _ _ hnd⟩
    funext k'
    by_cases hk : k' = k
    · subst hk; simp [abs, specNext, Spec.delete, Shard.load_delete_self]
    · simp [abs, specNext, Spec.delete, hk, Shard.load_delete_ne _ _ _ hk]
  | len =>
    simp only [step, Option.some.injEq, Prod.mk.injEq] at hst
    obtain ⟨rfl, rfl⟩ := hst
    exact ⟨⟨m.keys, hnd, by simp [Shard.keys, Shard.size], fun k => Shard.mem_keys_iff m k⟩, rfl, hnd⟩
  | range cb order =>
    simp only [step] at hst
    split at hst
    · rename_i hperm
      simp only [Option.some.injEq, Prod.mk.injEq] at hst
      obtain ⟨rfl, rfl⟩ := hst
      obtain ⟨t, ht, hall, hcalls, hl, he⟩ := visit_spec cb order [] (by simp) (by simp)
      have hndo : (order.map (·.1)).Nodup :=
        (List.Perm.map (fun e : Entry => e.1) hperm).nodup_iff.2 hnd
      refine ⟨⟨?_, ?_, hcalls, hl, he, ?_⟩, rfl, hnd⟩
      · rw [ht]; simpa using ((List.take_sublist t order).map (·.1)).nodup hndo
      · intro e he'
        rw [ht] at he'
        have hm : (e.1, e.2) ∈ m := hperm.mem_iff.1 (List.mem_of_mem_take (by simpa using he'))
        exact (Shard.mem_iff_load m e.1 e.2 hnd).1 hm
      · intro hg k v hkv
        rw [hall hg]
        simpa using hperm.mem_iff.2 ((Shard.mem_iff_load m k v hnd).2 hkv)
    · simp at hst

end SMap
