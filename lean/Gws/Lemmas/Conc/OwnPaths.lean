import Gws.Lemmas.Conc.Own
/-! Every path of the library runs without ownership violation, and gives everything back:
per-location symbolic execution through the locality theorem `run_eq_some_iff`. -/
namespace Own

@[simp] theorem bufOps_optl (x : Buf) (c : Bool) (l : List Ev) : bufOps x (optl c l) = if c then bufOps x l else [] := by
  cases c <;> rfl
@[simp] theorem callerOps_optl (y : CBuf) (c : Bool) (l : List Ev) :
    callerOps y (optl c l) = if c then callerOps y l else [] := by
  cases c <;> rfl
@[simp] theorem bufOps_optmap (x : Buf) (d : Option Buf) (op : BOp) :
    bufOps x (d.toList.map fun d => Ev.buf d op) = if d = some x then [op] else [] := by
  cases d with
  | none => simp
  | some v => simp only [Option.toList_some, List.map_cons, List.map_nil, bufOps_buf, bufOps_nil, Option.some.injEq]
@[simp] theorem callerOps_optmap (y : CBuf) (d : Option Buf) (op : BOp) :
    callerOps y (d.toList.map fun d => Ev.buf d op) = [] := by
  cases d <;> simp

/-- per-location symbolic execution -/
macro "own_simp" : tactic => `(tactic|
  simp [readSingle, inflate, handler, fragment, lastFragment, readControl, frameFrom, writeFrame, writeFrameClosed,
        readLoopEnd, reclaimWindow, upgradeServer, writeClose, bigDeflaterGet, bigDeflaterPut, wfcPre, wfcPost,
        runCell_cons, runLent_cons, BOp.apply, COp.apply, Cell.usable, upd, Ne.symm, *])

/-- An unfragmented data frame: the frame buffer `a` (and for a compressed message the output buffer
`b`) are fresh; the deflater scratch `s` is parked and its mutex free; the decompression window
belongs to the read loop. Afterwards the heap is as before, except that a message that the handler
kept is owned by the application. -/
theorem readSingle_run (compressed masked closeNow : Bool) (p : Pid) (a b s : Buf) (d : Option Buf) (h : Heap)
    (ka kb : Option Pid)
    (hab : a ≠ b) (has : a ≠ s) (hbs : b ≠ s) (hda : d ≠ some a) (hdb : d ≠ some b) (hds : d ≠ some s)
    (ha : h.cell a = ⟨.pool, ka⟩) (hb : h.cell b = ⟨.pool, kb⟩)
    (hs : h.cell s = ⟨.guarded, none⟩)
    (hd : ∀ x, d = some x → (h.cell x).own = .lib p) :
    run h (readSingle compressed masked closeNow p a b s d) =
      some (if closeNow then h else
        { h with cell := upd h.cell (if compressed then b else a) ⟨.app, if compressed then kb else ka⟩ }) := by
  refine (run_eq_some_iff _ _ _).mpr ⟨fun x => ?_, fun y => ?_⟩
  · by_cases h1 : a = x
    · subst h1; cases compressed <;> cases masked <;> cases closeNow <;> own_simp
    by_cases h2 : b = x
    · subst h2; cases compressed <;> cases masked <;> cases closeNow <;> own_simp
    by_cases h3 : s = x
    · subst h3; cases compressed <;> cases masked <;> cases closeNow <;> own_simp
    by_cases h4 : d = some x
    · have := hd x h4
      subst h4; cases compressed <;> cases masked <;> cases closeNow <;> own_simp
    · cases compressed <;> cases masked <;> cases closeNow <;> own_simp
  · cases compressed <;> cases masked <;> cases closeNow <;> own_simp

theorem cell_pool_eta {c : Cell} (h : c.own = .pool) : ∃ k, c = ⟨.pool, k⟩ := by
  cases c; simp_all

/-- a non-final fragment leaves the heap as it was -/
theorem fragment_run (masked : Bool) (p : Pid) (k a : Buf) (h : Heap)
    (hak : a ≠ k) (ha : (h.cell a).own = .pool) (hk : (h.cell k).own = .lib p) :
    run h (fragment masked p k a) = some h := by
  obtain ⟨ka, ha⟩ := cell_pool_eta ha
  refine (run_eq_some_iff _ _ _).mpr ⟨fun x => ?_, fun y => ?_⟩
  · by_cases h1 : a = x
    · subst h1; cases masked <;> own_simp
    by_cases h2 : k = x
    · subst h2; cases masked <;> own_simp
    · cases masked <;> own_simp
  · cases masked <;> own_simp

theorem fragments_run (masked : Bool) (p : Pid) (k : Buf) (as : List Buf) (h : Heap)
    (has : ∀ a ∈ as, a ≠ k ∧ (h.cell a).own = .pool) (hk : (h.cell k).own = .lib p) :
    run h (as.map (fragment masked p k)).flatten = some h := by
  induction as with
  | nil => rfl
  | cons a as ih =>
    simp only [List.map_cons, List.flatten_cons]
    have h1 := has a (by simp)
    exact run_append_some (fragment_run masked p k a h h1.1 h1.2 hk) (ih fun x hx => has x (by simp [hx]))

/-- the final fragment: delivers the reassembled message -/
theorem lastFragment_run (compressed masked closeNow : Bool) (p : Pid) (k a b s : Buf) (d : Option Buf) (h : Heap)
    (kk ka kb : Option Pid)
    (hka : k ≠ a) (hkb : k ≠ b) (hks : k ≠ s) (hab : a ≠ b) (has : a ≠ s) (hbs : b ≠ s)
    (hdk : d ≠ some k) (hda : d ≠ some a) (hdb : d ≠ some b) (hds : d ≠ some s)
    (hk : h.cell k = ⟨.lib p, kk⟩) (ha : h.cell a = ⟨.pool, ka⟩) (hb : h.cell b = ⟨.pool, kb⟩)
    (hs : h.cell s = ⟨.guarded, none⟩)
    (hd : ∀ x, d = some x → (h.cell x).own = .lib p) :
    run h (lastFragment compressed masked closeNow p k a b s d) =
      some { h with cell := upd (upd h.cell k ⟨if compressed || closeNow then .pool else .app, kk⟩)
                              b ⟨if compressed && !closeNow then .app else .pool, kb⟩ } := by
  refine (run_eq_some_iff _ _ _).mpr ⟨fun x => ?_, fun y => ?_⟩
  · by_cases h0 : k = x
    · subst h0; cases compressed <;> cases masked <;> cases closeNow <;> own_simp
    by_cases h1 : a = x
    · subst h1; cases compressed <;> cases masked <;> cases closeNow <;> own_simp
    by_cases h2 : b = x
    · subst h2; cases compressed <;> cases masked <;> cases closeNow <;> own_simp
    by_cases h3 : s = x
    · subst h3; cases compressed <;> cases masked <;> cases closeNow <;> own_simp
    by_cases h4 : d = some x
    · have := hd x h4
      subst h4; cases compressed <;> cases masked <;> cases closeNow <;> own_simp
    · cases compressed <;> cases masked <;> cases closeNow <;> own_simp
  · cases compressed <;> cases masked <;> cases closeNow <;> own_simp

/-- A fragmented message: all frame buffers go back; the reassembly buffer (or the inflated copy) is
delivered and, if the handler closed it, free again: the heap is as before. -/
theorem readFragments_run (compressed masked closeNow : Bool) (p : Pid) (k : Buf) (as : List Buf) (a b s : Buf)
    (d : Option Buf) (h : Heap) (kk ka kb : Option Pid)
    (hka : k ≠ a) (hkb : k ≠ b) (hks : k ≠ s) (hab : a ≠ b) (has : a ≠ s) (hbs : b ≠ s)
    (hdk : d ≠ some k) (hda : d ≠ some a) (hdb : d ≠ some b) (hds : d ≠ some s)
    (hk : h.cell k = ⟨.pool, kk⟩) (ha : h.cell a = ⟨.pool, ka⟩) (hb : h.cell b = ⟨.pool, kb⟩)
    (hs : h.cell s = ⟨.guarded, none⟩)
    (hd : ∀ x, d = some x → (h.cell x).own = .lib p)
    (hfr : ∀ x ∈ as, x ≠ k ∧ (h.cell x).own = .pool) :
    run h (readFragments compressed masked closeNow p k as a b s d) =
      some (if closeNow then h else
        { h with cell := upd h.cell (if compressed then b else k) ⟨.app, if compressed then kb else kk⟩ }) := by
  let h1 : Heap := { h with cell := upd h.cell k ⟨.lib p, kk⟩ }
  have e1 : run h [.alloc k p] = some h1 := by
    simp [run_cons, step, BOp.apply, hk, h1]
  have e2 : run h1 (as.map (fragment masked p k)).flatten = some h1 :=
    fragments_run masked p k as h1
      (fun x hx => ⟨(hfr x hx).1, by simp [h1, upd, (hfr x hx).1, (hfr x hx).2]⟩) (by simp [h1])
  have e3 := lastFragment_run compressed masked closeNow p k a b s d h1 kk ka kb hka hkb hks hab has hbs hdk hda hdb hds
    (by simp [h1]) (by simp [h1, upd, Ne.symm hka, ha]) (by simp [h1, upd, Ne.symm hkb, hb])
    (by simp [h1, upd, Ne.symm hks, hs])
    (fun x hx => by
      have : x ≠ k := fun e => hdk (e ▸ hx)
      simp [h1, upd, this, hd x hx])
  unfold readFragments
  rw [run_append_some (run_append_some e1 e2) e3]
  refine congrArg some (Heap.ext' (fun x => ?_) (fun _ => by cases closeNow <;> rfl))
  by_cases hxk : x = k
  · subst hxk; cases compressed <;> cases closeNow <;> simp [upd, hkb, hk]
  · by_cases hxb : x = b
    · subst hxb; cases compressed <;> cases closeNow <;> simp [upd, hxk, hb]
    · cases compressed <;> cases closeNow <;> simp [h1, upd, hxk, hxb]

/-- a ping/pong payload is a private slice: delivered and never reclaimed -/
theorem readControl_run (masked : Bool) (p : Pid) (k : Buf) (h : Heap) (kk : Option Pid)
    (hk : h.cell k = ⟨.pool, kk⟩) :
    run h (readControl masked p k) = some { h with cell := upd h.cell k ⟨.app, kk⟩ } := by
  refine (run_eq_some_iff _ _ _).mpr ⟨fun x => ?_, fun y => ?_⟩
  · by_cases h0 : k = x
    · subst h0; cases masked <;> own_simp
    · cases masked <;> own_simp
  · cases masked <;> own_simp

/-- framing a library-owned source: the frame buffer is taken and given back -/
theorem frameFrom_run (client : Bool) (p : Pid) (src f : Buf) (h : Heap)
    (hsf : src ≠ f) (hf : (h.cell f).own = .pool)
    (hsrc : (h.cell src).own = .lib p ∨ ((h.cell src).own = .guarded ∧ (h.cell src).held = some p)) :
    run h (frameFrom client p src f) = some h := by
  obtain ⟨kf, hf⟩ := cell_pool_eta hf
  refine (run_eq_some_iff _ _ _).mpr ⟨fun x => ?_, fun y => ?_⟩
  · by_cases h0 : f = x
    · subst h0; cases client <;> own_simp
    by_cases h1 : src = x
    · subst h1; cases client <;> own_simp
    · cases client <;> own_simp
  · cases client <;> own_simp

/-- `doWrite`: the frame buffer is taken and given back, the mutexes are released, the caller's
payload is returned: the heap is as before. -/
theorem writeFrame_run (compressed window client : Bool) (p : Pid) (c : CBuf) (m z f : Buf) (h : Heap)
    (om : Owner) (kf : Option Pid)
    (hmz : m ≠ z) (hmf : m ≠ f) (hzf : z ≠ f)
    (hc : h.lent c = none) (hm : h.cell m = ⟨om, none⟩) (hw : window = true → om = .guarded)
    (hz : h.cell z = ⟨.guarded, none⟩) (hf : h.cell f = ⟨.pool, kf⟩) :
    run h (writeFrame compressed window client p c m z f) = some h := by
  refine (run_eq_some_iff _ _ _).mpr ⟨fun x => ?_, fun y => ?_⟩
  · by_cases h0 : m = x
    · subst h0
      cases window
      · cases compressed <;> cases client <;> own_simp
      · have := hw rfl; subst this
        cases compressed <;> cases client <;> own_simp
    by_cases h1 : z = x
    · subst h1; cases compressed <;> cases window <;> cases client <;> own_simp
    by_cases h2 : f = x
    · subst h2; cases compressed <;> cases window <;> cases client <;> own_simp
    · cases compressed <;> cases window <;> cases client <;> own_simp
  · by_cases h0 : c = y
    · subst h0; cases compressed <;> cases window <;> cases client <;> own_simp
    · cases compressed <;> cases window <;> cases client <;> own_simp

theorem writeFrameClosed_run (p : Pid) (c : CBuf) (m : Buf) (h : Heap) (om : Owner)
    (hc : h.lent c = none) (hm : h.cell m = ⟨om, none⟩) :
    run h (writeFrameClosed p c m) = some h := by
  refine (run_eq_some_iff _ _ _).mpr ⟨fun x => ?_, fun y => ?_⟩
  · by_cases h0 : m = x
    · subst h0; own_simp
    · own_simp
  · by_cases h0 : c = y
    · subst h0; own_simp
    · own_simp

/-- `WriteClose`: the buffer holding code and reason, and the frame buffer, are taken and given back -/
theorem writeClose_run (client : Bool) (p : Pid) (m q f : Buf) (h : Heap) (om : Owner)
    (hmq : m ≠ q) (hmf : m ≠ f) (hqf : q ≠ f)
    (hm : h.cell m = ⟨om, none⟩) (hq : (h.cell q).own = .pool) (hf : (h.cell f).own = .pool) :
    run h (writeClose client p m q f) = some h := by
  obtain ⟨kq, hq⟩ := cell_pool_eta hq
  obtain ⟨kf, hf⟩ := cell_pool_eta hf
  refine (run_eq_some_iff _ _ _).mpr ⟨fun x => ?_, fun y => ?_⟩
  · by_cases h0 : m = x
    · subst h0; cases client <;> own_simp
    by_cases h1 : q = x
    · subst h1; cases client <;> own_simp
    by_cases h2 : f = x
    · subst h2; cases client <;> own_simp
    · cases client <;> own_simp
  · cases client <;> own_simp

/-! ### WriteFile -/

theorem segment_run (client : Bool) (p : Pid) (s f : Buf) (h : Heap)
    (hsf : s ≠ f) (hf : (h.cell f).own = .pool) (hs : (h.cell s).own = .lib p) :
    run h (Ev.libWrite s p :: frameFrom client p s f) = some h := by
  have e1 : run h [Ev.libWrite s p] = some h := by
    simp [run_cons, step, BOp.apply, Cell.usable, hs]
  exact run_append_some e1 (frameFrom_run client p s f h hsf hf (Or.inl hs))

theorem segments_run (client : Bool) (p : Pid) (s : Buf) (fs : List Buf) (h : Heap)
    (hfs : ∀ f ∈ fs, s ≠ f ∧ (h.cell f).own = .pool) (hs : (h.cell s).own = .lib p) :
    run h (fs.map fun f => Ev.libWrite s p :: frameFrom client p s f).flatten = some h := by
  induction fs with
  | nil => rfl
  | cons f fs ih =>
    simp only [List.map_cons, List.flatten_cons]
    have h1 := hfs f (by simp)
    exact run_append_some (segment_run client p s f h h1.1 h1.2 hs) (ih fun x hx => hfs x (by simp [hx]))

/-- uncompressed `WriteFile`: segment buffer and every frame buffer are taken and given back -/
theorem writeFilePlain_run (client : Bool) (p : Pid) (m s : Buf) (fs : List Buf) (h : Heap) (om : Owner)
    (hms : m ≠ s) (hm : h.cell m = ⟨om, none⟩) (hs : (h.cell s).own = .pool)
    (hfs : ∀ f ∈ fs, m ≠ f ∧ s ≠ f ∧ (h.cell f).own = .pool) :
    run h (writeFilePlain client p m s fs) = some h := by
  obtain ⟨ks, hs⟩ := cell_pool_eta hs
  let h2 : Heap := { h with cell := upd (upd h.cell m ⟨om, some p⟩) s ⟨.lib p, ks⟩ }
  have e1 : run h [.lock m p, .get s p] = some h2 := by
    simp [run_cons, step, BOp.apply, hm, hs, upd, Ne.symm hms, h2]
  have e2 := segments_run client p s fs h2
    (fun f hf => ⟨(hfs f hf).2.1, by
      simp [h2, upd, Ne.symm (hfs f hf).1, Ne.symm (hfs f hf).2.1, (hfs f hf).2.2]⟩) (by simp [h2])
  have e3 : run h2 [.put s p, .unlock m p] = some h := by
    simp only [run_cons, step, run_nil, h2]
    simp [BOp.apply, Cell.usable, upd, hms]
    refine Heap.ext' (fun x => ?_) (fun _ => rfl)
    by_cases h0 : x = m
    · subst h0; simp [hm]
    · by_cases h1 : x = s
      · subst h1; simp [h0, hs]
      · simp [h0, h1]
  unfold writeFilePlain
  exact run_append_some (run_append_some e1 e2) e3

/-- all buffers of the streamed part, in order -/
def midBufs (mid : List (Buf × Buf)) : List Buf := mid.flatMap fun x => [x.1, x.2]

theorem lastBuf_mem (cur : Buf) (mid : List (Buf × Buf)) : lastBuf cur mid = cur ∨ lastBuf cur mid ∈ midBufs mid := by
  induction mid generalizing cur with
  | nil => exact Or.inl rfl
  | cons x rest ih =>
    obtain ⟨b', f⟩ := x
    simp only [lastBuf, midBufs, List.flatMap_cons, List.cons_append, List.nil_append, List.mem_cons]
    rcases ih b' with e | e
    · exact Or.inr (Or.inl e)
    · exact Or.inr (Or.inr (Or.inr e))

/-- one step of the streamed part: `b'` is opened, `cur` framed and released -/
theorem stream1_run (client : Bool) (p : Pid) (z r cur b' f : Buf) (h : Heap) (kc kb : Option Pid)
    (hzr : z ≠ r) (hzc : z ≠ cur) (hzb : z ≠ b') (hzf : z ≠ f) (hrc : r ≠ cur) (hrb : r ≠ b') (hrf : r ≠ f)
    (hcb : cur ≠ b') (hcf : cur ≠ f) (hbf : b' ≠ f)
    (hcur : h.cell cur = ⟨.lib p, kc⟩) (hb : h.cell b' = ⟨.pool, kb⟩) (hf : (h.cell f).own = .pool)
    (hr : (h.cell r).own = .lib p)
    (hz : (h.cell z).own = .lib p ∨ ((h.cell z).own = .guarded ∧ (h.cell z).held = some p)) :
    run h ([.libWrite r p, .libRead r p, .libWrite z p, .get b' p, .libRead z p, .libWrite b' p] ++
        frameFrom client p cur f ++ [.put cur p]) =
      some { h with cell := upd (upd h.cell b' ⟨.lib p, kb⟩) cur ⟨.pool, kc⟩ } := by
  obtain ⟨kf, hf⟩ := cell_pool_eta hf
  refine (run_eq_some_iff _ _ _).mpr ⟨fun x => ?_, fun y => ?_⟩
  · by_cases h0 : z = x
    · subst h0; cases client <;> own_simp
    by_cases h1 : r = x
    · subst h1; cases client <;> own_simp
    by_cases h2 : cur = x
    · subst h2; cases client <;> own_simp
    by_cases h3 : b' = x
    · subst h3; cases client <;> own_simp
    by_cases h4 : f = x
    · subst h4; cases client <;> own_simp
    · cases client <;> own_simp
  · cases client <;> own_simp

/-- the streamed part: every buffer opened and every frame buffer but the last open one is back -/
theorem streamFrom_run (client : Bool) (p : Pid) (z r : Buf) (mid : List (Buf × Buf)) (cur : Buf) (h : Heap)
    (hzr : z ≠ r) (hnd : (cur :: midBufs mid).Nodup) (hz' : z ∉ cur :: midBufs mid) (hr' : r ∉ cur :: midBufs mid)
    (hcur : (h.cell cur).own = .lib p) (hpool : ∀ x ∈ midBufs mid, (h.cell x).own = .pool)
    (hr : (h.cell r).own = .lib p)
    (hz : (h.cell z).own = .lib p ∨ ((h.cell z).own = .guarded ∧ (h.cell z).held = some p)) :
    run h (streamFrom client p z r cur mid) =
      some { h with cell := upd (upd h.cell cur ⟨.pool, (h.cell cur).held⟩)
                              (lastBuf cur mid) ⟨.lib p, (h.cell (lastBuf cur mid)).held⟩ } := by
  induction mid generalizing cur h with
  | nil =>
    simp only [streamFrom, lastBuf, run_nil, upd_upd, Option.some.injEq]
    refine Heap.ext' (fun x => ?_) (fun _ => rfl)
    by_cases h0 : x = cur
    · subst h0; simp only [upd_get]; cases hc : h.cell x; simp_all
    · simp [upd, h0]
  | cons x rest ih =>
    obtain ⟨b', f⟩ := x
    simp only [midBufs, List.flatMap_cons, List.cons_append, List.nil_append, List.nodup_cons, List.mem_cons,
      not_or] at hnd hz' hr' hpool
    obtain ⟨⟨hcb, hcf, hcrest⟩, ⟨hbf, hbrest⟩, hfrest, hndrest⟩ := hnd
    obtain ⟨hzc, hzb, hzf, hzrest⟩ := hz'
    obtain ⟨hrc, hrb, hrf, hrrest⟩ := hr'
    obtain ⟨kb, hb⟩ := cell_pool_eta (hpool b' (Or.inl rfl))
    have hcur' : h.cell cur = ⟨.lib p, (h.cell cur).held⟩ := by cases hc : h.cell cur; simp_all
    have hfp := hpool f (Or.inr (Or.inl rfl))
    let h1 : Heap := { h with cell := upd (upd h.cell b' ⟨.lib p, kb⟩) cur ⟨.pool, (h.cell cur).held⟩ }
    have e1 := stream1_run client p z r cur b' f h _ kb hzr hzc hzb hzf hrc hrb hrf hcb hcf hbf hcur' hb hfp hr hz
    have hb1 : h1.cell b' = ⟨.lib p, kb⟩ := by simp [h1, upd, Ne.symm hcb]
    have e2 := ih b' h1 (List.nodup_cons.mpr ⟨hbrest, hndrest⟩)
      (by simp only [midBufs, List.mem_cons, not_or]; exact ⟨hzb, hzrest⟩)
      (by simp only [midBufs, List.mem_cons, not_or]; exact ⟨hrb, hrrest⟩)
      (by simp [hb1])
      (fun x hx => by
        have hxc : x ≠ cur := fun e => hcrest (e ▸ hx)
        have hxb : x ≠ b' := fun e => hbrest (e ▸ hx)
        simp [h1, upd, hxc, hxb, hpool x (Or.inr (Or.inr hx))])
      (by simp [h1, upd, hrc, hrb, hr])
      (by simpa [h1, upd, hzc, hzb] using hz)
    have e12 := run_append_some e1 e2
    simp only [streamFrom, lastBuf]
    simp only [List.append_assoc] at e12 ⊢
    rw [e12]
    have hL : lastBuf b' rest ≠ cur := by
      rcases lastBuf_mem b' rest with e | e
      · rw [e]; exact Ne.symm hcb
      · exact fun e' => hcrest (e' ▸ e)
    refine congrArg some (Heap.ext' (fun x => ?_) (fun _ => rfl))
    by_cases hxL : x = lastBuf b' rest
    · subst hxL
      by_cases hLb : lastBuf b' rest = b'
      · simp [h1, upd, hLb, Ne.symm hcb, hb]
      · simp [h1, upd, hLb, hL]
    · by_cases hxb : x = b'
      · subst hxb; simp [h1, upd, hxL, Ne.symm hcb, hb]
      · by_cases hxc : x = cur
        · subst hxc; simp [h1, upd, hxL, hxb]
        · simp [h1, upd, hxL, hxb, hxc]

theorem wfcPre_run (window client early : Bool) (p : Pid) (m z r b0 : Buf) (h : Heap)
    (om : Owner) (kz kr k0 : Option Pid)
    (hmz : m ≠ z) (hmr : m ≠ r) (hmb : m ≠ b0) (hzr : z ≠ r) (hzb : z ≠ b0) (hrb : r ≠ b0)
    (hm : h.cell m = ⟨om, none⟩) (hw : window = true → om = .guarded)
    (hz : h.cell z = ⟨if client then .guarded else .pool, kz⟩) (hzc : client = true → kz = none)
    (hr : h.cell r = ⟨.pool, kr⟩) (hb : h.cell b0 = ⟨.pool, k0⟩) :
    run h (wfcPre window client early p m z r b0) =
      some { h with cell := (upd (upd (upd (upd h.cell m ⟨om, some p⟩)
        z (if client then ⟨.guarded, some p⟩ else ⟨.lib p, kz⟩)) r ⟨.lib p, kr⟩)
        b0 ⟨if early then .lib p else .pool, k0⟩) } := by
  refine (run_eq_some_iff _ _ _).mpr ⟨fun x => ?_, fun y => ?_⟩
  · by_cases h0 : m = x
    · subst h0
      cases window
      · cases client <;> cases early <;> own_simp
      · have := hw rfl; subst this
        cases client <;> cases early <;> own_simp
    by_cases h1 : z = x
    · subst h1
      cases client
      · cases window <;> cases early <;> own_simp
      · have := hzc rfl; subst this
        cases window <;> cases early <;> own_simp
    by_cases h2 : r = x
    · subst h2; cases window <;> cases client <;> cases early <;> own_simp
    by_cases h3 : b0 = x
    · subst h3; cases window <;> cases client <;> cases early <;> own_simp
    · cases window <;> cases client <;> cases early <;> own_simp
  · cases window <;> cases client <;> cases early <;> own_simp

theorem wfcPost_run (client early : Bool) (p : Pid) (m z r bl f : Buf) (g : Heap)
    (om : Owner) (kz kr kl : Option Pid)
    (hmz : m ≠ z) (hmr : m ≠ r) (hmb : m ≠ bl) (hmf : m ≠ f) (hzr : z ≠ r) (hzb : z ≠ bl) (hzf : z ≠ f)
    (hrb : r ≠ bl) (hrf : r ≠ f) (hbf : bl ≠ f)
    (hm : g.cell m = ⟨om, some p⟩)
    (hz : g.cell z = if client then ⟨.guarded, some p⟩ else ⟨.lib p, kz⟩)
    (hr : g.cell r = ⟨.lib p, kr⟩) (hb : g.cell bl = ⟨if early then .lib p else .pool, kl⟩)
    (hf : (g.cell f).own = .pool) :
    run g (wfcPost client early p m z r bl f) =
      some { g with cell := (upd (upd (upd (upd g.cell m ⟨om, none⟩)
        z (if client then ⟨.guarded, none⟩ else ⟨.pool, kz⟩)) r ⟨.pool, kr⟩) bl ⟨.pool, kl⟩) } := by
  obtain ⟨kf, hf⟩ := cell_pool_eta hf
  refine (run_eq_some_iff _ _ _).mpr ⟨fun x => ?_, fun y => ?_⟩
  · by_cases h0 : m = x
    · subst h0; cases client <;> cases early <;> own_simp
    by_cases h1 : z = x
    · subst h1; cases client <;> cases early <;> own_simp
    by_cases h2 : r = x
    · subst h2; cases client <;> cases early <;> own_simp
    by_cases h3 : bl = x
    · subst h3; cases client <;> cases early <;> own_simp
    by_cases h4 : f = x
    · subst h4; cases client <;> cases early <;> own_simp
    · cases client <;> cases early <;> own_simp
  · cases client <;> cases early <;> own_simp

/-- compressed `WriteFile`: the input segment, every output buffer, every frame buffer and the
`flate.Writer` are given back (or unlocked), `c.mu` is released: the heap is as before. -/
theorem writeFileCompressed_run (window client early : Bool) (p : Pid) (m z r b0 : Buf) (mid : List (Buf × Buf))
    (fLast : Buf) (h : Heap) (om : Owner) (kz : Option Pid)
    (hnd : (m :: z :: r :: fLast :: b0 :: midBufs mid).Nodup)
    (hm : h.cell m = ⟨om, none⟩) (hw : window = true → om = .guarded)
    (hz : h.cell z = ⟨if client then .guarded else .pool, kz⟩) (hzc : client = true → kz = none)
    (hpool : ∀ x ∈ r :: fLast :: b0 :: midBufs mid, (h.cell x).own = .pool)
    (hearly : early = false → mid = []) :
    run h (writeFileCompressed window client early p m z r b0 mid fLast) = some h := by
  simp only [List.nodup_cons, List.mem_cons, not_or] at hnd
  obtain ⟨⟨hmz, hmr, hmf, hmb, hmmid⟩, ⟨hzr, hzf, hzb, hzmid⟩, ⟨hrf, hrb, hrmid⟩, ⟨hfb, hfmid⟩, hbmid, hndmid⟩ := hnd
  obtain ⟨kr, hr⟩ := cell_pool_eta (hpool r (by simp))
  obtain ⟨k0, hb⟩ := cell_pool_eta (hpool b0 (by simp))
  have hfp := hpool fLast (by simp)
  have eA := wfcPre_run window client early p m z r b0 h om kz kr k0 hmz hmr hmb hzr hzb hrb hm hw hz hzc hr hb
  unfold writeFileCompressed
  cases early with
  | false =>
    have := hearly rfl; subst this
    simp only [streamFrom, lastBuf, List.append_nil]
    have eC := wfcPost_run client false p m z r b0 fLast
      { h with cell := (upd (upd (upd (upd h.cell m ⟨om, some p⟩)
        z (if client then ⟨.guarded, some p⟩ else ⟨.lib p, kz⟩)) r ⟨.lib p, kr⟩) b0 ⟨.pool, k0⟩) }
      om kz kr k0 hmz hmr hmb hmf hzr hzb hzf hrb hrf (Ne.symm hfb)
      (by simp [upd, hmz, hmr, hmb])
      (by simp [upd, hzr, hzb])
      (by simp [upd, hrb])
      (by simp [upd])
      (by simp [upd, Ne.symm hmf, Ne.symm hzf, Ne.symm hrf, hfb, hfp])
    simp only [Bool.false_eq_true, if_false] at eA
    rw [run_append_some eA eC]
    refine congrArg some (Heap.ext' (fun x => ?_) (fun _ => rfl))
    by_cases h0 : x = b0
    · subst h0; simp [upd, hb]
    by_cases h1 : x = r
    · subst h1; simp [upd, h0, hr]
    by_cases h2 : x = z
    · subst h2; cases client
      · simp [upd, h0, h1, hz]
      · have := hzc rfl; subst this; simp [upd, h0, h1, hz]
    by_cases h3 : x = m
    · subst h3; simp [upd, h0, h1, h2, hm]
    · simp [upd, h0, h1, h2, h3]
  | true =>
    simp only [if_true] at eA
    let hA : Heap := { h with cell := (upd (upd (upd (upd h.cell m ⟨om, some p⟩)
        z (if client then ⟨.guarded, some p⟩ else ⟨.lib p, kz⟩)) r ⟨.lib p, kr⟩) b0 ⟨.lib p, k0⟩) }
    have hAo : ∀ x, x ≠ m → x ≠ z → x ≠ r → x ≠ b0 → hA.cell x = h.cell x := by
      intro x a b c d; simp [hA, upd, a, b, c, d]
    have hAm : hA.cell m = ⟨om, some p⟩ := by simp [hA, upd, hmz, hmr, hmb]
    have hAz : hA.cell z = if client then ⟨.guarded, some p⟩ else ⟨.lib p, kz⟩ := by simp [hA, upd, hzr, hzb]
    have hAr : hA.cell r = ⟨.lib p, kr⟩ := by simp [hA, upd, hrb]
    have hAb : hA.cell b0 = ⟨.lib p, k0⟩ := by simp [hA, upd]
    have hmidne : ∀ x ∈ midBufs mid, x ≠ m ∧ x ≠ z ∧ x ≠ r ∧ x ≠ b0 ∧ x ≠ fLast := fun x hx =>
      ⟨fun e => hmmid (e ▸ hx), fun e => hzmid (e ▸ hx), fun e => hrmid (e ▸ hx), fun e => hbmid (e ▸ hx),
       fun e => hfmid (e ▸ hx)⟩
    have eB := streamFrom_run client p z r mid b0 hA hzr (List.nodup_cons.mpr ⟨hbmid, hndmid⟩)
      (by simp only [List.mem_cons, not_or]; exact ⟨hzb, hzmid⟩)
      (by simp only [List.mem_cons, not_or]; exact ⟨hrb, hrmid⟩)
      (by simp [hAb])
      (fun x hx => by
        obtain ⟨a, b, c, d, _⟩ := hmidne x hx
        rw [hAo x a b c d]; exact hpool x (by simp [hx]))
      (by simp [hAr])
      (by rw [hAz]; cases client <;> simp)
    -- the open buffer
    have hL : lastBuf b0 mid ≠ m ∧ lastBuf b0 mid ≠ z ∧ lastBuf b0 mid ≠ r ∧ lastBuf b0 mid ≠ fLast := by
      rcases lastBuf_mem b0 mid with e | e
      · rw [e]; exact ⟨Ne.symm hmb, Ne.symm hzb, Ne.symm hrb, Ne.symm hfb⟩
      · obtain ⟨a, b, c, _, d⟩ := hmidne _ e; exact ⟨a, b, c, d⟩
    have hLh : hA.cell (lastBuf b0 mid) = ⟨(hA.cell (lastBuf b0 mid)).own, (h.cell (lastBuf b0 mid)).held⟩ := by
      rcases lastBuf_mem b0 mid with e | e
      · rw [e, hAb, hb]
      · obtain ⟨a, b, c, d, _⟩ := hmidne _ e
        rw [hAo _ a b c d]
    have hLp : (h.cell (lastBuf b0 mid)).own = .pool := by
      rcases lastBuf_mem b0 mid with e | e
      · rw [e]; exact hpool b0 (by simp)
      · exact hpool _ (by simp [e])
    generalize lastBuf b0 mid = L at *
    obtain ⟨hLm, hLz, hLr, hLf⟩ := hL
    obtain ⟨kL, hLc⟩ := cell_pool_eta hLp
    have hLheld : (hA.cell L).held = kL := by rw [hLh, hLc]
    let hB : Heap := { hA with cell := upd (upd hA.cell b0 ⟨.pool, (hA.cell b0).held⟩) L ⟨.lib p, (hA.cell L).held⟩ }
    have eC := wfcPost_run client true p m z r L fLast hB om kz kr kL hmz hmr (Ne.symm hLm) hmf hzr (Ne.symm hLz) hzf
      (Ne.symm hLr) hrf hLf
      (by simp [hB, upd, Ne.symm hLm, hmb, hAm])
      (by simp [hB, upd, Ne.symm hLz, hzb, hAz])
      (by simp [hB, upd, Ne.symm hLr, hrb, hAr])
      (by simp [hB, upd, hLheld])
      (by simp [hB, upd, Ne.symm hLf, hfb, hAo fLast (Ne.symm hmf) (Ne.symm hzf) (Ne.symm hrf) hfb, hfp])
    rw [run_append_some (run_append_some eA eB) eC]
    refine congrArg some (Heap.ext' (fun x => ?_) (fun _ => rfl))
    by_cases h4 : x = L
    · subst h4; simp [upd, hLc]
    by_cases h0 : x = b0
    · subst h0; simp [hB, upd, h4, hAb, hb, Ne.symm hrb, Ne.symm hzb, Ne.symm hmb]
    by_cases h1 : x = r
    · subst h1; simp [upd, h4, hr]
    by_cases h2 : x = z
    · subst h2; cases client
      · simp [upd, h4, h1, hz]
      · have := hzc rfl; subst this; simp [upd, h4, h1, hz]
    by_cases h3 : x = m
    · subst h3; simp [upd, h4, h1, h2, hm]
    · simp [hB, upd, h4, h0, h1, h2, h3, hAo x h3 h2 h1 h0]

/-! ### Handshake and teardown of a server connection -/

theorem upgradeServer_run (p : Pid) (rw rd m : Buf) (d : Option Buf) (h : Heap)
    (hwr : rw ≠ rd) (hwm : rw ≠ m) (hrm : rd ≠ m) (hdw : d ≠ some rw) (hdr : d ≠ some rd) (hdm : d ≠ some m)
    (hrw : (h.cell rw).own = .pool) (hrd : (h.cell rd).own = .pool) (hm : (h.cell m).own = .pool)
    (hd : ∀ x, d = some x → (h.cell x).own = .pool) :
    run h (upgradeServer p rw rd m d) =
      some { h with cell := fun x =>
        if x = rd then ⟨.lib p, (h.cell x).held⟩
        else if x = m then ⟨.guarded, (h.cell x).held⟩
        else if d = some x then ⟨.lib p, (h.cell x).held⟩ else h.cell x } := by
  obtain ⟨k1, hrw⟩ := cell_pool_eta hrw
  obtain ⟨k2, hrd⟩ := cell_pool_eta hrd
  obtain ⟨k3, hm⟩ := cell_pool_eta hm
  refine (run_eq_some_iff _ _ _).mpr ⟨fun x => ?_, fun y => ?_⟩
  · by_cases h0 : rw = x
    · subst h0; own_simp
    by_cases h1 : rd = x
    · subst h1; own_simp
    by_cases h2 : m = x
    · subst h2; own_simp
    by_cases h3 : d = some x
    · obtain ⟨k4, h4⟩ := cell_pool_eta (hd x h3)
      subst h3; own_simp
    · own_simp
  · own_simp

theorem readLoopEnd_run (tryLockOk : Bool) (p : Pid) (rd m : Buf) (d : Option Buf) (h : Heap)
    (krd : Option Pid) (km : Option Pid)
    (hrm : rd ≠ m) (hdr : d ≠ some rd) (hdm : d ≠ some m)
    (hrd : h.cell rd = ⟨.lib p, krd⟩) (hm : h.cell m = ⟨.guarded, km⟩)
    (hk : if tryLockOk then km = none else km ≠ none ∧ km ≠ some p)
    (hd : ∀ x, d = some x → (h.cell x).own = .lib p) :
    run h (readLoopEnd tryLockOk p rd m d) =
      some { h with cell := fun x =>
        if x = rd then ⟨.pool, krd⟩
        else if x = m then (if tryLockOk then ⟨.pool, none⟩ else ⟨.guarded, km⟩)
        else if d = some x then ⟨.pool, (h.cell x).held⟩ else h.cell x } := by
  refine (run_eq_some_iff _ _ _).mpr ⟨fun x => ?_, fun y => ?_⟩
  · by_cases h0 : rd = x
    · subst h0; cases tryLockOk <;> own_simp
    by_cases h1 : m = x
    · subst h1
      cases tryLockOk
      · simp only [Bool.false_eq_true, if_false] at hk; own_simp
      · simp only [if_true] at hk; subst hk; own_simp
    by_cases h2 : d = some x
    · have := hd x h2
      subst h2; cases tryLockOk <;> own_simp
    · cases tryLockOk <;> own_simp
  · cases tryLockOk <;> own_simp

/-- a whole idle server connection: what the handshake takes, the end of the read loop gives back -/
theorem connection_run (p : Pid) (rw rd m : Buf) (d : Option Buf) (h : Heap)
    (hwr : rw ≠ rd) (hwm : rw ≠ m) (hrm : rd ≠ m) (hdw : d ≠ some rw) (hdr : d ≠ some rd) (hdm : d ≠ some m)
    (hrw : (h.cell rw).own = .pool) (hrd : (h.cell rd).own = .pool) (hm : h.cell m = ⟨.pool, none⟩)
    (hd : ∀ x, d = some x → (h.cell x).own = .pool) :
    run h (upgradeServer p rw rd m d ++ readLoopEnd true p rd m d) = some h := by
  have e1 := upgradeServer_run p rw rd m d h hwr hwm hrm hdw hdr hdm hrw hrd (by simp [hm]) hd
  have e2 := readLoopEnd_run true p rd m d (krd := (h.cell rd).held) (km := none) (hrm := hrm) (hdr := hdr) (hdm := hdm)
    (h := { h with cell := fun x =>
        if x = rd then ⟨.lib p, (h.cell x).held⟩
        else if x = m then ⟨.guarded, (h.cell x).held⟩
        else if d = some x then ⟨.lib p, (h.cell x).held⟩ else h.cell x })
    (by simp) (by simp [Ne.symm hrm, hm]) (by simp)
    (fun x hx => by
      have h1 : x ≠ rd := fun e => hdr (e ▸ hx)
      have h2 : x ≠ m := fun e => hdm (e ▸ hx)
      simp [h1, h2, hx])
  rw [run_append_some e1 e2]
  refine congrArg some (Heap.ext' (fun x => ?_) (fun _ => rfl))
  obtain ⟨k, hk⟩ := cell_pool_eta hrd
  by_cases h1 : x = rd
  · subst h1; simp [hk]
  by_cases h2 : x = m
  · subst h2; simp [h1, hm]
  by_cases h3 : d = some x
  · obtain ⟨k', hk'⟩ := cell_pool_eta (hd x h3)
    simp [h1, h2, h3, hk']
  · simp [h1, h2, h3]

end Own
