import Gws.Lemmas.Conc.ConnKinds
/-!
# Callbacks of the read loop (I7 of the design)

* `CbLast` (state only): when no read loop is running, the callback log is empty or ends with `OnClose`.
* `RSInv`: a spawned reader that is past `OnOpen` has logged something.
* `RInv` (schedules with at most one reader, `Sched1R`): the log is `opened`, then one `message` per
  consumed `.msg` item of the script, then — once the reader is done — one `closedCb`.
-/

namespace Conc

/-- a close sequence run by the read loop -/
def Cont.isReader : Cont → Bool
  | .ret _ => false
  | _ => true

/-- a read loop that has not yet delivered `OnClose` -/
def Pc.readerActive : Pc → Bool
  | .rOpen _ | .rLoop _ | .rOnClose => true
  | .cCas c | .kLock c | .kWrite c | .cTclose c => c.isReader
  | _ => false

def CbLast (s : State) : Prop :=
  (∀ b, (s.pc b).readerActive = false) → s.cbs = [] ∨ ∃ c, s.cbs.getLast? = some (.closedCb c)

theorem cblast_init : CbLast {} := by
  intro _; left; rfl

theorem cblast_step {s s' : State} {x : Action} (hi : CbLast s) (h : step s x = some s') : CbLast s' := by
  cases x with
  | spawn a k =>
    obtain ⟨rfl, hidle, -⟩ := spawn_cases h
    unfold CbLast at *
    upd_simp
    intro hb
    apply hi
    intro b
    have := hb b
    by_cases hba : b = a
    · subst hba; rw [hidle]; rfl
    · simpa [hba] using this
  | act a f =>
    obtain ⟨t, p', rfl, -, ht⟩ := act_cases h
    clear h
    unfold CbLast at *
    generalize hq : s.pc a = q at ht
    cases ht <;> upd_simp <;> grind [Pc.readerActive, Cont.isReader, List.getLast?_concat]

theorem cblast_run {xs : List Action} {s : State} (h : run {} xs = some s) : CbLast s :=
  run_induction (motive := fun _ s => CbLast s) {} cblast_init (fun _ _ _ _ _ hm hs => cblast_step hm hs) xs s h

/-! ### a reader past `OnOpen` has logged something -/

def RSInv (K : Nat → Option Kind) (s : State) : Prop :=
  ∀ a sc, K a = some (.reader sc) → (∃ sc', s.pc a = .rOpen sc') ∨ s.cbs ≠ []

theorem Trans.cbs_ne_nil {s t : State} {a : Nat} {f : Bool} {q p' : Pc} (ht : Trans s a f q t p')
    (h : s.cbs ≠ []) : t.cbs ≠ [] := by
  cases ht <;> simp_all

theorem rsinv_step {K : Nat → Option Kind} {s s' : State} {x : Action} (hi : RSInv K s)
    (h : step s x = some s') : RSInv (updK K x) s' := by
  cases x with
  | spawn a k =>
    obtain ⟨rfl, hidle, -⟩ := spawn_cases h
    intro b sc
    simp only [updK, pc_setPc, setPc_cbs]
    by_cases hb : b = a
    · subst hb
      simp only [if_true]
      intro hk; cases hk
      left; exact ⟨sc, rfl⟩
    · simp only [hb, if_false]; exact hi b sc
  | act a f =>
    obtain ⟨t, p', rfl, hp, ht⟩ := act_cases h
    clear h
    intro b sc hb
    simp only [updK] at hb
    have hib := hi b sc hb
    generalize hq : s.pc a = q at ht
    upd_simp
    rcases hib with ⟨sc', hsc⟩ | hne
    · by_cases hba : b = a
      · subst hba
        rw [hq] at hsc
        subst hsc
        cases ht
        right; simp
      · left; exact ⟨sc', by simp [hba, pc_of_pcs_eq hp, hsc]⟩
    · right; exact ht.cbs_ne_nil hne

theorem rsinv_run {xs : List Action} {s : State} (h : run {} xs = some s) : RSInv (kindMap xs) s :=
  run_induction (motive := fun xs s => RSInv (kindMap xs) s) {} (by intro a sc h; simp at h)
    (fun xs _ x _ _ hm hs => by rw [kindMap_snoc]; exact rsinv_step hm hs) xs s h

/-! ### the callback log of a single read loop -/

/-- the schedule spawns at most one `reader` -/
def Sched1R (xs : List Action) : Prop :=
  ∀ a b sa sb, Action.spawn a (.reader sa) ∈ xs → Action.spawn b (.reader sb) ∈ xs → a = b

theorem Sched1R.prefix {xs : List Action} {x : Action} (h : Sched1R (xs ++ [x])) : Sched1R xs :=
  fun a b sa sb ha hb => h a b sa sb (List.mem_append_left _ ha) (List.mem_append_left _ hb)

/-- at most one actor of a reader kind -/
def OneReader (K : Nat → Option Kind) : Prop :=
  ∀ a b ka kb, K a = some ka → K b = some kb → ka.isReader = true → kb.isReader = true → a = b

theorem oneReader_of_sched {xs : List Action} (h : Sched1R xs) : OneReader (kindMap xs) := by
  intro a b ka kb ha hb hka hkb
  cases ka <;> simp [Kind.isReader] at hka
  cases kb <;> simp [Kind.isReader] at hkb
  exact h a b _ _ (kindMap_mem ha) (kindMap_mem hb)

/-- the log `cbs` of the reader with script `sc`, by program counter -/
def RState (sc : List Inbound) (cbs : List Cb) : Pc → Prop
  | .rOpen sc' => sc' = sc ∧ cbs = []
  | .rLoop sc' => ∃ m, sc = List.replicate m .msg ++ sc' ∧ cbs = .opened :: List.replicate m .message
  | .cCas _ | .kLock _ | .kWrite _ | .cTclose _ | .rOnClose =>
    ∃ m rest, sc = List.replicate m .msg ++ rest ∧ rest.head? ≠ some .msg ∧
      cbs = .opened :: List.replicate m .message
  | .done _ =>
    ∃ m rest c, sc = List.replicate m .msg ++ rest ∧ rest.head? ≠ some .msg ∧
      cbs = .opened :: List.replicate m .message ++ [.closedCb c]
  | _ => False

def NoReader (K : Nat → Option Kind) : Prop := ∀ a k, K a = some k → k.isReader = false

structure RInv (K : Nat → Option Kind) (s : State) : Prop where
  reader : ∀ a sc, K a = some (.reader sc) → RState sc s.cbs (s.pc a)
  noReader : NoReader K → s.cbs = []

theorem rinv_init : RInv (kindMap []) {} :=
  ⟨by intro a sc h; simp at h, fun _ => rfl⟩

/-- an action that logs a callback is an action of a reader -/
theorem cbs_changed_reader {K : Nat → Option Kind} {s t : State} {a : Nat} {f : Bool} {q p' : Pc}
    (hk : KInv K s) (hq : s.pc a = q) (ht : Trans s a f q t p') :
    t.cbs = s.cbs ∨ ∃ k, K a = some k ∧ k.isReader = true := by
  have hne : s.pc a ≠ .idle := by intro e; rw [hq] at e; subst e; cases ht
  cases hka : K a with
  | none => exact (hne (hk.idle_of_none hka)).elim
  | some k =>
    have hty := hk.typed hka
    rw [hq] at hty
    cases ht <;> simp_all [Typed]

theorem rinv_spawn {K : Nat → Option Kind} {s s' : State} {a : Nat} {k : Kind}
    (h1 : OneReader (updK K (.spawn a k))) (hk : KInv K s) (hi : RInv K s)
    (h : step s (.spawn a k) = some s') : RInv (updK K (.spawn a k)) s' := by
  obtain ⟨rfl, hidle, -⟩ := spawn_cases h
  have hka : K a = none := hk.of_idle hidle
  have hupd : ∀ c, c ≠ a → updK K (.spawn a k) c = K c := by
    intro c hc; simp [updK, hc]
  have hupda : updK K (.spawn a k) a = some k := by simp [updK]
  constructor
  · intro b sc hb
    upd_simp
    by_cases hba : b = a
    · subst hba
      rw [hupda] at hb
      cases hb
      simp only [if_true, startPc, RState, true_and]
      apply hi.noReader
      intro c kc hc
      cases hr : kc.isReader with
      | false => rfl
      | true =>
        have hcb : c ≠ b := by intro e; rw [e, hka] at hc; cases hc
        exact (hcb (h1 c b kc _ (by rw [hupd c hcb]; exact hc) hupda hr rfl)).elim
    · simp only [hba, if_false]
      rw [hupd b hba] at hb
      exact hi.reader b sc hb
  · intro hn
    upd_simp
    apply hi.noReader
    intro c kc hc
    have hcb : c ≠ a := by intro e; rw [e, hka] at hc; cases hc
    exact hn c kc (by rw [hupd c hcb]; exact hc)

theorem replicate_msg_cons (m : Nat) (sc : List Inbound) :
    List.replicate m Inbound.msg ++ Inbound.msg :: sc = List.replicate (m + 1) Inbound.msg ++ sc := by
  rw [List.replicate_succ']; simp

theorem rinv_act {K : Nat → Option Kind} {s s' : State} {a : Nat} {f : Bool}
    (h1 : OneReader K) (hk : KInv K s) (hi : RInv K s)
    (h : step s (.act a f) = some s') : RInv (updK K (.act a f)) s' := by
  obtain ⟨t, p', rfl, hp, ht⟩ := act_cases h
  clear h
  simp only [updK]
  generalize hq : s.pc a = q at ht
  have hch := cbs_changed_reader hk hq ht
  constructor
  · intro b sc hb
    have hib := hi.reader b sc hb
    by_cases hba : b = a
    · subst hba
      have hty := hk.typed hb
      rw [hq] at hib hty
      cases ht with
      | tcloseRet r =>
        exfalso
        cases r <;> simp_all [Typed, ContTyped, Kind.isWriter]
      | rEnd =>
        upd_simp; simp only [if_true]
        obtain ⟨m, h1, h2⟩ := hib
        exact ⟨m, [], by simpa using h1, by simp, h2⟩
      | rMsg sc' =>
        upd_simp; simp only [if_true]
        obtain ⟨m, h1, h2⟩ := hib
        refine ⟨m + 1, by rw [h1, replicate_msg_cons], ?_⟩
        rw [h2, List.replicate_succ']; simp
      | rPeerClose sc' =>
        upd_simp; simp only [if_true]
        obtain ⟨m, h1, h2⟩ := hib
        exact ⟨m, _, h1, by simp, h2⟩
      | rReadErr sc' =>
        upd_simp; simp only [if_true]
        obtain ⟨m, h1, h2⟩ := hib
        exact ⟨m, _, h1, by simp, h2⟩
      | rOnClose =>
        upd_simp; simp only [if_true]
        obtain ⟨m, rest, h1, h2, h3⟩ := hib
        exact ⟨m, rest, s.causeStored, h1, h2, by rw [h3]⟩
      | _ =>
        upd_simp; simp only [if_true]
        simp_all [RState, Typed, ContTyped, Kind.isWriter, Kind.isReader]
    · have hsame : t.cbs = s.cbs := by
        rcases hch with h | ⟨k, hka, hr⟩
        · exact h
        · exact (hba (h1 b a _ k hb hka rfl hr)).elim
      upd_simp
      simp only [hba, if_false]
      rw [hsame, pc_of_pcs_eq hp]
      exact hib
  · intro hn
    upd_simp
    rcases hch with h | ⟨k, hka, hr⟩
    · rw [h]; exact hi.noReader hn
    · rw [hn a k hka] at hr; cases hr

theorem rinv_run {xs : List Action} {s : State} (h : run {} xs = some s) (h1 : Sched1R xs) :
    RInv (kindMap xs) s := by
  revert h1
  refine run_induction (motive := fun xs s => Sched1R xs → RInv (kindMap xs) s) {} (fun _ => rinv_init)
    (fun xs s x s' hr hm hs h1 => ?_) xs s h
  have hi := hm h1.prefix
  have ho := oneReader_of_sched h1
  rw [kindMap_snoc] at ho ⊢
  cases x with
  | spawn a k => exact rinv_spawn ho (kinv_run hr) hi hs
  | act a f => exact rinv_act ho (kinv_run hr) hi hs

end Conc
