import Gws.Lemmas.Conc.ConnKinds
/-!
# Data frames on the wire (`DInv`, I6 of the design)

For every actor `a` the wire is `pre ++ msgFrames a N i ++ post`: its data frames are the first `i`
frames of its message (`N` frames; FIN exactly on frame `N-1`), adjacent and in order, and neither
`pre` nor `post` contains a data frame of `a`.  `Prog` relates the progress `i` to the program
counter (e.g. `done ok ↔ i = N`).
-/

namespace Conc

/-- `f` is a data frame of actor `a` -/
def isDataOf (a : Nat) : Frame → Bool
  | .data o _ _ => o == a
  | .close _ => false

/-- no data frame of actor `a` -/
def NoData (a : Nat) (w : List Frame) : Prop := ∀ f ∈ w, isDataOf a f = false

/-- the first `i` frames of the `N`-frame message of actor `a`: indices `0 … i-1`, FIN on index `N-1` -/
def msgFrames (a N i : Nat) : List Frame := (List.range i).map (fun j => Frame.data a j (j + 1 == N))

theorem msgFrames_zero (a N : Nat) : msgFrames a N 0 = [] := rfl

theorem msgFrames_succ (a N i : Nat) :
    msgFrames a N (i + 1) = msgFrames a N i ++ [Frame.data a i (i + 1 == N)] := by
  simp [msgFrames, List.range_succ]

theorem length_msgFrames (a N i : Nat) : (msgFrames a N i).length = i := by simp [msgFrames]

theorem mem_msgFrames {a N i : Nat} {f : Frame} :
    f ∈ msgFrames a N i ↔ ∃ j, j < i ∧ f = Frame.data a j (j + 1 == N) := by
  simp only [msgFrames, List.mem_map, List.mem_range]
  constructor
  · rintro ⟨j, hj, rfl⟩; exact ⟨j, hj, rfl⟩
  · rintro ⟨j, hj, rfl⟩; exact ⟨j, hj, rfl⟩

theorem noData_nil (a : Nat) : NoData a [] := by simp [NoData]

theorem noData_append {a : Nat} {u v : List Frame} : NoData a (u ++ v) ↔ NoData a u ∧ NoData a v := by
  simp only [NoData, List.mem_append]
  constructor
  · intro h; exact ⟨fun f hf => h f (Or.inl hf), fun f hf => h f (Or.inr hf)⟩
  · rintro ⟨h1, h2⟩ f (hf | hf)
    · exact h1 f hf
    · exact h2 f hf

theorem noData_singleton {a : Nat} {f : Frame} : NoData a [f] ↔ isDataOf a f = false := by
  simp [NoData]

/-- does the close sequence report a content rejection -/
def Cont.isRej : Cont → Bool
  | .ret .rejected => true
  | _ => false

/-- progress `i` (number of frames written) allowed at program counter `p` for an `N`-frame message;
`post` = what follows the actor's frames on the wire -/
def Prog (N : Nat) (p : Pc) (i : Nat) (post : List Frame) : Prop :=
  i ≤ N ∧ match p with
  | .idle | .wLock _ | .wWrite | .bStart | .bLock | .bWrite | .rOpen _ | .rLoop _ | .rOnClose =>
    i + 1 ≤ N ∨ i = 0
  | .fLock _ => i = 0
  | .fCheck j _ => i = j ∧ post = []
  | .cCas c | .kLock c | .kWrite c | .cTclose c => if c.isRej then i = 0 else (i + 1 ≤ N ∨ i = 0)
  | .done r => match r with
    | .ok => i = N
    | .rejected => i = 0
    | _ => i + 1 ≤ N ∨ i = 0

/-- the wire, seen from actor `a` -/
def DClause (N : Nat) (p : Pc) (w : List Frame) (a : Nat) : Prop :=
  ∃ i pre post, w = pre ++ msgFrames a N i ++ post ∧ NoData a pre ∧ NoData a post ∧ Prog N p i post

def framesN (K : Nat → Option Kind) (a : Nat) : Nat :=
  match K a with
  | some k => k.frames
  | none => 0

def DInv (K : Nat → Option Kind) (s : State) : Prop :=
  ∀ a, DClause (framesN K a) (s.pc a) s.wire a

theorem dclause_push_other {N : Nat} {p : Pc} {w : List Frame} {x : Nat} {g : Frame}
    (h : DClause N p w x) (hg : isDataOf x g = false) (hp : ∀ j n, p ≠ .fCheck j n) :
    DClause N p (w ++ [g]) x := by
  obtain ⟨i, pre, post, hw, h1, h2, h3⟩ := h
  refine ⟨i, pre, post ++ [g], by simp [hw], h1, noData_append.2 ⟨h2, noData_singleton.2 hg⟩, ?_⟩
  cases p <;> simp_all [Prog]

theorem dclause_pc {N : Nat} {p p' : Pc} {w : List Frame} {x : Nat}
    (h : DClause N p w x) (hp : ∀ i post, Prog N p i post → Prog N p' i post) : DClause N p' w x := by
  obtain ⟨i, pre, post, hw, h1, h2, h3⟩ := h
  exact ⟨i, pre, post, hw, h1, h2, hp i post h3⟩

theorem noData_msgFrames_zero {a N : Nat} {pre post : List Frame} (h1 : NoData a pre) (h2 : NoData a post) :
    NoData a (pre ++ msgFrames a N 0 ++ post) := by
  simp only [msgFrames_zero, List.append_nil]
  exact noData_append.2 ⟨h1, h2⟩

theorem dclause_push_own {N j : Nat} {p p' : Pc} {w : List Frame} {a : Nat}
    (h : DClause N p w a) (hp : ∀ i post, Prog N p i post → i = j ∧ (post = [] ∨ i = 0))
    (hp' : Prog N p' (j + 1) []) : DClause N p' (w ++ [Frame.data a j (j + 1 == N)]) a := by
  obtain ⟨i, pre, post, hw, h1, h2, h3⟩ := h
  obtain ⟨rfl, h4⟩ := hp i post h3
  rcases h4 with rfl | rfl
  · refine ⟨i + 1, pre, [], ?_, h1, noData_nil a, hp'⟩
    rw [hw, msgFrames_succ]; simp
  · refine ⟨1, w, [], ?_, ?_, noData_nil a, hp'⟩
    · simp [msgFrames]
    · rw [hw]; exact noData_msgFrames_zero h1 h2

theorem dclause_restart {N : Nat} {p p' : Pc} {w : List Frame} {a : Nat}
    (h : DClause N p w a) (hp : ∀ i post, Prog N p i post → i = 0) (hp' : Prog N p' 0 []) :
    DClause N p' w a := by
  obtain ⟨i, pre, post, hw, h1, h2, h3⟩ := h
  obtain rfl := hp i post h3
  refine ⟨0, w, [], by simp [msgFrames], ?_, noData_nil a, hp'⟩
  rw [hw]; exact noData_msgFrames_zero h1 h2

theorem dinv_init : DInv (kindMap []) {} := by
  intro a
  exact ⟨0, [], [], by simp [msgFrames], noData_nil a, noData_nil a, by simp [Prog, framesN]⟩

theorem framesN_updK_act (K : Nat → Option Kind) (a : Nat) (f : Bool) (b : Nat) :
    framesN (updK K (.act a f)) b = framesN K b := rfl

theorem prog_startPc (k : Kind) (post : List Frame) : Prog k.frames (startPc k) 0 post := by
  cases k <;> simp [Prog, startPc, Kind.frames, Facts.bcClosedCheckUnderLock, Cont.isRej]

theorem dinv_spawn {K : Nat → Option Kind} {s s' : State} {a : Nat} {k : Kind} (hk : KInv K s)
    (hi : DInv K s) (h : step s (.spawn a k) = some s') : DInv (updK K (.spawn a k)) s' := by
  obtain ⟨rfl, hidle, -⟩ := spawn_cases h
  intro b
  simp only [pc_setPc, setPc_wire, framesN, updK]
  by_cases hb : b = a
  · subst hb
    simp only [if_true]
    obtain ⟨i, pre, post, hw, h1, h2, h3⟩ := hi b
    have hn : framesN K b = 0 := by simp [framesN, hk.of_idle hidle]
    rw [hn] at hw h3
    have hi0 : i = 0 := by have := h3.1; omega
    subst hi0
    exact ⟨0, pre, post, by simpa [msgFrames] using hw, h1, h2, prog_startPc k post⟩
  · simp only [hb, if_false]
    exact hi b

theorem isDataOf_ne {x a : Nat} (h : x ≠ a) (j : Nat) (l : Bool) : isDataOf x (.data a j l) = false := by
  simp [isDataOf]; exact fun e => h e.symm

theorem typed_frames {K : Nat → Option Kind} {s : State} (hk : KInv K s) {a : Nat} (hp : s.pc a ≠ .idle) :
    ∃ k, K a = some k ∧ Typed k (s.pc a) ∧ framesN K a = k.frames := by
  cases hka : K a with
  | none => exact (hp (hk.idle_of_none hka)).elim
  | some k => exact ⟨k, rfl, hk.typed hka, by simp [framesN, hka]⟩

theorem dinv_act {K : Nat → Option Kind} {s s' : State} {a : Nat} {f : Bool} (hc : CInv s) (hk : KInv K s)
    (hi : DInv K s) (h : step s (.act a f) = some s') : DInv (updK K (.act a f)) s' := by
  obtain ⟨t, p', rfl, -, ht⟩ := act_cases h
  clear h
  intro x
  rw [framesN_updK_act]
  have hix := hi x
  by_cases hxa : x = a
  · subst hxa
    have hne : s.pc x ≠ .idle := by intro e; rw [e] at ht; cases ht
    obtain ⟨k, hkx, hty, hN⟩ := typed_frames hk hne
    have hle := hc.fcheck_le x
    rw [hN] at hix ⊢
    generalize hq : s.pc x = q at ht
    rw [hq] at hix hty
    clear hne
    cases ht with
    | wLockRej h1 h2 =>
      upd_simp; simp only [if_true]
      refine dclause_pc hix ?_
      intro i post hpr
      simp_all [Prog, Cont.isRej, Typed, Kind.frames]
    | wWriteOk h1 h2 =>
      upd_simp; simp only [if_true]
      have hk1 : k.frames = 1 := by simp_all [Typed, Kind.frames]
      have := dclause_push_own (j := 0) (p' := .done .ok) hix
        (by intro i post hpr; simp_all [Prog]) (by simp [Prog, hk1])
      simpa [hk1] using this
    | bWriteOk h1 h2 =>
      upd_simp; simp only [if_true]
      have hk1 : k.frames = 1 := by simp_all [Typed, Kind.frames]
      have := dclause_push_own (j := 0) (p' := .done .ok) hix
        (by intro i post hpr; simp_all [Prog]) (by simp [Prog, hk1])
      simpa [hk1] using this
    | fLock n h1 =>
      upd_simp; simp only [if_true]
      exact dclause_restart hix (by intro i post hpr; simp_all [Prog]) (by simp [Prog])
    | fClosed i n h1 =>
      upd_simp; simp only [if_true]
      have hle' := hle _ _ hq
      refine dclause_pc hix ?_
      intro i post hpr
      simp_all [Prog, Cont.isRej, Typed, Kind.frames]
      omega
    | fFail i n b h1 h2 =>
      upd_simp; simp only [if_true]
      have hle' := hle _ _ hq
      refine dclause_pc hix ?_
      intro i post hpr
      simp_all [Prog, Cont.isRej, Typed, Kind.frames]
      omega
    | fLast n h1 h2 h3 =>
      upd_simp; simp only [if_true]
      have hk1 : k.frames = n + 1 := by simp_all [Typed, Kind.frames]
      have := dclause_push_own (j := n) (p' := .done .ok) hix
        (by intro i post hpr; simp_all [Prog]) (by simp [Prog, hk1])
      simpa [hk1] using this
    | fNext i n hne h1 h2 h3 =>
      upd_simp; simp only [if_true]
      have hle' := hle _ _ hq
      have hk1 : k.frames = n + 1 := by simp_all [Typed, Kind.frames]
      have := dclause_push_own (j := i) (p' := .fCheck (i + 1) n) hix
        (by intro i post hpr; simp_all [Prog]) (by simp [Prog, hk1]; omega)
      have hb : (i == n) = false := by simp [hne]
      simpa [hk1, hb] using this
    | casLoseRet r h1 h2 =>
      upd_simp; simp only [if_true]
      refine dclause_pc hix ?_
      intro i post hpr
      cases r <;> simp_all [Prog, Cont.isRej]
    | kWriteOk k' h1 h2 =>
      upd_simp; simp only [if_true]
      exact dclause_pc (dclause_push_other hix rfl (by simp)) (by intro i post hpr; simp_all [Prog])
    | tcloseRet r =>
      upd_simp; simp only [if_true]
      refine dclause_pc hix ?_
      intro i post hpr
      cases r <;> simp_all [Prog, Cont.isRej, Typed, ContTyped, Kind.frames]
    | rOnClose =>
      upd_simp; simp only [if_true]
      refine dclause_pc hix ?_
      intro i post hpr
      cases k <;> simp_all [Prog, Typed, Kind.isReader, Kind.frames]
    | _ =>
      upd_simp; simp only [if_true]
      refine dclause_pc hix ?_
      intro i post hpr
      simp_all [Prog, Cont.isRej]
  · have hmx : ∀ j n, (s.pc a).holdsLock = true → s.pc x ≠ .fCheck j n := by
      intro j n hh e
      exact hxa (hc.mutex x a (by rw [e]; rfl) hh)
    generalize hq : s.pc a = q at ht
    cases ht <;> upd_simp <;> simp only [hxa, if_false] <;> try exact hix
    all_goals first
      | exact dclause_push_other hix (isDataOf_ne hxa _ _) (fun j n => hmx j n (by rw [hq]; rfl))
      | exact dclause_push_other hix rfl (fun j n => hmx j n (by rw [hq]; rfl))

theorem dinv_run {xs : List Action} {s : State} (h : run {} xs = some s) : DInv (kindMap xs) s :=
  run_induction (motive := fun xs s => DInv (kindMap xs) s) {} dinv_init
    (fun xs _ x _ hr hm hs => by
      rw [kindMap_snoc]
      cases x with
      | spawn a k => exact dinv_spawn (kinv_run hr) hm hs
      | act a f => exact dinv_act (cinv_run hr) (kinv_run hr) hm hs) xs s h

end Conc
