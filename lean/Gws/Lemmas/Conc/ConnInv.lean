import Gws.Lemmas.Conc.ConnBasic
/-!
# The close-protocol invariant `CInv` of the connection transition system

State-only clauses (I1–I5 of the design): mutual exclusion of `c.mu`, the CAS winner, where the
Close frame can be, and that nothing follows it.  Proved for every reachable state by induction over
the actions (`cinv_run`).
-/

namespace Conc

/-- the actor a frame belongs to -/
def Frame.owner : Frame → Nat
  | .data o _ _ => o
  | .close o => o

/-- between winning the CAS and `conn.Close()` -/
def Pc.inCloseSeq : Pc → Bool
  | .kLock _ | .kWrite _ | .cTclose _ => true
  | _ => false

/-- CAS won, Close frame not yet handed to the transport -/
def Pc.preClose : Pc → Bool
  | .kLock _ | .kWrite _ => true
  | _ => false

/-- holding `c.mu` with the closed test passed, before the transport write -/
def Pc.passedCheck : Pc → Bool
  | .wWrite | .bWrite => true
  | _ => false

/-- where the CAS winner can be once its close sequence is over -/
def Pc.finishedClose : Pc → Bool
  | .done _ | .rOnClose | .cCas .readerOnClose => true
  | _ => false

/-- no Close frame in a list of frames -/
def NoClose (w : List Frame) : Prop := ∀ f ∈ w, f.isClose = false

theorem noClose_nil : NoClose [] := by simp [NoClose]

theorem noClose_append {w : List Frame} {f : Frame} : NoClose (w ++ [f]) ↔ NoClose w ∧ f.isClose = false := by
  simp only [NoClose, List.mem_append, List.mem_singleton]
  constructor
  · intro h; exact ⟨fun g hg => h g (Or.inl hg), h f (Or.inr rfl)⟩
  · rintro ⟨h1, h2⟩ g (hg | rfl)
    · exact h1 g hg
    · exact h2

theorem noClose_dropLast {w : List Frame} (h : NoClose w) : NoClose w.dropLast :=
  fun f hf => h f (List.dropLast_subset w hf)

structure CInv (s : State) : Prop where
  /-- I1: at most one actor is inside a `c.mu` critical section -/
  mutex : ∀ a b, (s.pc a).holdsLock = true → (s.pc b).holdsLock = true → a = b
  /-- I2 -/
  closed_winner : s.closed = s.winner.isSome
  cause : s.causeStored = s.closed
  tclosed_closed : s.tclosed = true → s.closed = true
  closeSeq_winner : ∀ b, (s.pc b).inCloseSeq = true → s.winner = some b
  winner_pc : ∀ w, s.winner = some w →
    (s.pc w).inCloseSeq = true ∨ (s.tclosed = true ∧ (s.pc w).finishedClose = true)
  /-- I3: a Close frame on the wire was written by the winner, which is past `kWrite` -/
  close_owner : ∀ f ∈ s.wire, f.isClose = true → s.winner = some f.owner ∧ (s.pc f.owner).preClose = false
  /-- I4 -/
  passed_noClose : ∀ b, (s.pc b).passedCheck = true → NoClose s.wire
  /-- I5: only the last frame can be a Close frame -/
  close_last : NoClose s.wire.dropLast
  fcheck_le : ∀ b i n, s.pc b = .fCheck i n → i ≤ n
  no_bStart : ∀ b, s.pc b ≠ .bStart
  onclose_closed : ∀ b, s.pc b = .rOnClose → s.closed = true
  cb_cause : ∀ c, Cb.closedCb c ∈ s.cbs → c = true
  owner_spawned : ∀ f ∈ s.wire, s.pc f.owner ≠ .idle

theorem CInv.noClose_of_open {s : State} (hi : CInv s) (h : s.closed = false) : NoClose s.wire := by
  intro f hf
  cases hc : f.isClose with
  | false => rfl
  | true =>
    have := (hi.close_owner f hf hc).1
    have h2 := hi.closed_winner
    rw [this, h] at h2
    cases h2

theorem passedCheck_holdsLock {p : Pc} (h : p.passedCheck = true) : p.holdsLock = true := by
  cases p <;> simp_all [Pc.passedCheck, Pc.holdsLock]

theorem cinv_init : CInv {} := by
  constructor <;> simp [Pc.holdsLock, Pc.inCloseSeq, Pc.passedCheck, NoClose]

theorem startPc_cases (k : Kind) :
    (∃ r, startPc k = .wLock r) ∨ (∃ n, startPc k = .fLock n) ∨ startPc k = .bLock ∨
    startPc k = .cCas (.ret .ok) ∨ ∃ sc, startPc k = .rOpen sc := by
  cases k <;> simp [startPc, Facts.bcClosedCheckUnderLock]

theorem cinv_spawn {s s' : State} {a : Nat} {k : Kind} (hi : CInv s) (h : step s (.spawn a k) = some s') :
    CInv s' := by
  obtain ⟨rfl, hidle, -⟩ := spawn_cases h
  obtain ⟨h1, h2, h3, h4, h5, h6, h7, h8, h9, h10, h11, h12, h13, h14⟩ := hi
  have hk := startPc_cases k
  constructor <;> simp only [pc_setPc, setPc_closed, setPc_tclosed, setPc_winner, setPc_causeStored,
    setPc_wire, setPc_cbs]
  · grind [Pc.holdsLock]
  · exact h2
  · exact h3
  · exact h4
  · grind [Pc.inCloseSeq]
  · grind [Pc.inCloseSeq, Pc.finishedClose]
  · grind [Pc.inCloseSeq, Pc.finishedClose, Pc.preClose]
  · grind [Pc.passedCheck]
  · exact h9
  · grind
  · grind
  · grind
  · exact h13
  · grind


set_option hygiene false in
/-- common opening of the per-clause preservation proofs: `s' = t.setPc a p'` with `Trans … q t p'` -/
local macro "act_intro" h:ident hi:ident : tactic => `(tactic| (
  obtain ⟨t, p', rfl, -, ht⟩ := act_cases $h
  clear $h
  have hfree : ∀ x, s.lockHeld = false → (s.pc x).holdsLock = false := fun x h => not_holds_of_lockHeld_false h x
  have hopen := CInv.noClose_of_open $hi
  obtain ⟨h1, h2, h3, h4, h5, h6, h7, h8, h9, h10, h11, h12, h13, h14⟩ := $hi
  generalize hq : s.pc a = q at ht))

variable {s s' : State} {a : Nat} {f : Bool}

theorem act_mutex (hi : CInv s) (h : step s (.act a f) = some s') :
    ∀ x y, (s'.pc x).holdsLock = true → (s'.pc y).holdsLock = true → x = y := by
  act_intro h hi
  cases ht <;> upd_simp <;> grind [Pc.holdsLock]

theorem act_closed_winner (hi : CInv s) (h : step s (.act a f) = some s') :
    s'.closed = s'.winner.isSome := by
  act_intro h hi
  cases ht <;> upd_simp <;> grind 

theorem act_cause (hi : CInv s) (h : step s (.act a f) = some s') :
    s'.causeStored = s'.closed := by
  act_intro h hi
  cases ht <;> upd_simp <;> grind 

theorem act_tclosed_closed (hi : CInv s) (h : step s (.act a f) = some s') :
    s'.tclosed = true → s'.closed = true := by
  act_intro h hi
  cases ht <;> upd_simp <;> grind [Pc.inCloseSeq]

theorem act_closeSeq_winner (hi : CInv s) (h : step s (.act a f) = some s') :
    ∀ b, (s'.pc b).inCloseSeq = true → s'.winner = some b := by
  act_intro h hi
  cases ht <;> upd_simp <;> grind [Pc.inCloseSeq]

theorem act_winner_pc (hi : CInv s) (h : step s (.act a f) = some s') :
    ∀ w, s'.winner = some w → (s'.pc w).inCloseSeq = true ∨ (s'.tclosed = true ∧ (s'.pc w).finishedClose = true) := by
  act_intro h hi
  cases ht <;> upd_simp <;> grind [Pc.inCloseSeq, Pc.finishedClose]

theorem act_close_owner (hi : CInv s) (h : step s (.act a f) = some s') :
    ∀ g ∈ s'.wire, g.isClose = true → s'.winner = some g.owner ∧ (s'.pc g.owner).preClose = false := by
  act_intro h hi
  cases ht <;> upd_simp <;> grind [Pc.inCloseSeq, Pc.preClose, NoClose, Frame.owner, Frame.isClose]

theorem act_passed_noClose (hi : CInv s) (h : step s (.act a f) = some s') :
    ∀ b, (s'.pc b).passedCheck = true → NoClose s'.wire := by
  act_intro h hi
  have hph : ∀ x, (s.pc x).passedCheck = true → (s.pc x).holdsLock = true := fun x => passedCheck_holdsLock
  cases ht <;> upd_simp <;> grind [Pc.passedCheck, Pc.holdsLock, noClose_append, Frame.isClose]

theorem act_close_last (hi : CInv s) (h : step s (.act a f) = some s') :
    NoClose s'.wire.dropLast := by
  act_intro h hi
  cases ht <;> upd_simp <;> (try simp only [List.dropLast_concat]) <;>
    grind [Pc.passedCheck, Pc.preClose, Pc.inCloseSeq, NoClose, Frame.owner]

theorem act_fcheck_le (hi : CInv s) (h : step s (.act a f) = some s') :
    ∀ b i n, s'.pc b = .fCheck i n → i ≤ n := by
  act_intro h hi
  cases ht <;> upd_simp <;> grind 

theorem act_no_bStart (hi : CInv s) (h : step s (.act a f) = some s') :
    ∀ b, s'.pc b ≠ .bStart := by
  act_intro h hi
  cases ht <;> upd_simp <;> grind 

theorem act_onclose_closed (hi : CInv s) (h : step s (.act a f) = some s') :
    ∀ b, s'.pc b = .rOnClose → s'.closed = true := by
  act_intro h hi
  cases ht <;> upd_simp <;> grind [Pc.inCloseSeq]

theorem act_cb_cause (hi : CInv s) (h : step s (.act a f) = some s') :
    ∀ c, Cb.closedCb c ∈ s'.cbs → c = true := by
  act_intro h hi
  cases ht <;> upd_simp <;> grind 

theorem act_owner_spawned (hi : CInv s) (h : step s (.act a f) = some s') :
    ∀ g ∈ s'.wire, s'.pc g.owner ≠ .idle := by
  act_intro h hi
  cases ht <;> upd_simp <;> grind [Frame.owner]

theorem cinv_act (hi : CInv s) (h : step s (.act a f) = some s') : CInv s' :=
  ⟨act_mutex hi h, act_closed_winner hi h, act_cause hi h, act_tclosed_closed hi h, act_closeSeq_winner hi h,
   act_winner_pc hi h, act_close_owner hi h, act_passed_noClose hi h, act_close_last hi h, act_fcheck_le hi h,
   act_no_bStart hi h, act_onclose_closed hi h, act_cb_cause hi h, act_owner_spawned hi h⟩

theorem cinv_step {x : Action} (hi : CInv s) (h : step s x = some s') : CInv s' := by
  cases x with
  | spawn a k => exact cinv_spawn hi h
  | act a f => exact cinv_act hi h

/-- the close-protocol invariant holds in every reachable state -/
theorem cinv_run {xs : List Action} {s : State} (h : run {} xs = some s) : CInv s :=
  run_induction (motive := fun _ s => CInv s) {} cinv_init (fun _ _ _ _ _ hm hs => cinv_step hm hs) xs s h

end Conc
