import Gws.Lemmas.Conc.Own
/-! Teardown of a server connection concurrent with writers: the compression window is put back only
while the read loop itself holds `c.mu`, i.e. with no writer between lock and unlock, and once it is
back no writer in flight has any use of it left. Invariant over every interleaving at event granularity. -/
namespace Own
namespace TD

/-- the window/mutex operations that a writer holding `c.mu` still has to perform -/
def CsOps (q : Pid) (ops : List BOp) : Prop :=
  ops = [.read q, .write q, .unlock q] ∨ ops = [.write q, .unlock q] ∨ ops = [.unlock q]

structure Inv (s : TD) : Prop where
  /-- a writer past its lock: inside the critical section iff it is the holder; a writer that locked
  after the reclamation has nothing but the unlock left -/
  running : ∀ q l, s.thr q = .running l → q ≠ s.r ∧
    (if s.holder = some q then CsOps q (bufOps s.m l) ∧ (s.reclaimed = true → bufOps s.m l = [.unlock q])
     else bufOps s.m l = [])
  waiting : ∀ q w, s.thr q = .waiting w → w.p = q ∧ q ≠ s.r ∧ w.z ≠ s.m ∧ w.f ≠ s.m ∧ s.holder ≠ some q
  /-- the holder is the read loop or a writer past its lock -/
  hold : ∀ q, s.holder = some q → q = s.r ∨ ∃ l, s.thr q = .running l
  /-- the read loop's reclamation -/
  reader : match s.reader with
    | none => s.reclaimed = false ∧ s.holder ≠ some s.r
    | some l => s.closed = true ∧
        ((l = [.put s.m s.r, .unlock s.m s.r] ∧ s.holder = some s.r ∧ s.reclaimed = false) ∨
         (l = [.unlock s.m s.r] ∧ s.holder = some s.r ∧ s.reclaimed = true) ∨
         (l = [] ∧ s.holder ≠ some s.r))
  /-- the operations performed on the window location so far never violated the protocol -/
  cell : runCell ⟨.guarded, none⟩ (bufOps s.m s.trace) =
    some ⟨if s.reclaimed then .pool else .guarded, s.holder⟩

theorem inv_init (m : Buf) (r : Pid) : Inv (init m r) := by
  constructor <;> simp [init]

theorem mOps_body (w : Writer) (m : Buf) (hz : w.z ≠ m) (hf : w.f ≠ m) :
    bufOps m (body w m) = (if w.compressed then [.read w.p] else []) ++ [.write w.p, .unlock w.p] := by
  cases hc : w.compressed <;> cases hcl : w.client <;>
    simp [body, writeFrame, hc, hcl, hz, hf]

theorem mOps_closedBody (w : Writer) (m : Buf) : bufOps m (closedBody w m) = [.unlock w.p] := by
  simp [closedBody, writeFrameClosed]

theorem reclaimed_closed {s : TD} (hi : Inv s) (h : s.reclaimed = true) : s.closed = true := by
  have := hi.reader
  cases hr : s.reader with
  | none => simp [hr, h] at this
  | some l => simp only [hr] at this; exact this.1

theorem step_consts {s s' : TD} {a : TAct} (hs : s.step a = some s') : s'.m = s.m ∧ s'.r = s.r := by
  cases a with
  | spawn w => simp only [step] at hs; split at hs <;> simp at hs; subst hs; simp
  | wLock p => simp only [step] at hs; split at hs <;> simp at hs; subst hs; simp
  | wStep p => simp only [step] at hs; split at hs <;> simp at hs; subst hs; simp
  | setClosed => simp only [step, Option.some.injEq] at hs; subst hs; simp
  | rTry =>
    simp only [step] at hs
    split at hs
    · split at hs <;> simp at hs; subst hs; simp
    · simp at hs
  | rStep => simp only [step] at hs; split at hs <;> simp at hs; subst hs; simp

theorem inv_step (s s' : TD) (a : TAct) (hi : Inv s) (hs : s.step a = some s') : Inv s' := by
  obtain ⟨hrun, hwait, hhold, hrdr, hcell⟩ := hi
  cases a with
  | spawn w =>
    simp only [step] at hs
    split at hs
    · rename_i hg
      obtain ⟨habs, hpr, hzm, hfm⟩ := hg
      simp only [Option.some.injEq] at hs; subst hs
      have hnh : s.holder ≠ some w.p := by
        intro hh
        rcases hhold _ hh with e | ⟨l, e⟩
        · exact hpr e
        · rw [habs] at e; simp at e
      refine ⟨?_, ?_, ?_, hrdr, ?_⟩
      · intro q l hq
        by_cases hqp : q = w.p
        · subst hqp; simp at hq
        · simp only [upd, hqp, if_false] at hq; exact hrun q l hq
      · intro q w' hq
        by_cases hqp : q = w.p
        · subst hqp; simp only [upd_get, Th.waiting.injEq] at hq; subst hq
          exact ⟨rfl, hpr, hzm, hfm, hnh⟩
        · simp only [upd, hqp, if_false] at hq; exact hwait q w' hq
      · intro q hq
        rcases hhold q hq with e | ⟨l, e⟩
        · exact Or.inl e
        · right
          have : q ≠ w.p := by intro e'; subst e'; rw [habs] at e; simp at e
          exact ⟨l, by simp [upd, this, e]⟩
      · simpa using hcell
    · simp at hs
  | wLock p =>
    simp only [step] at hs
    split at hs
    · rename_i w hthr hhol
      simp only [Option.some.injEq] at hs; subst hs
      obtain ⟨hwp, hpr, hzm, hfm, _⟩ := hwait p w hthr
      refine ⟨?_, ?_, ?_, ?_, ?_⟩
      · intro q l hq
        by_cases hqp : q = p
        · subst hqp
          simp only [upd_get, Th.running.injEq] at hq
          refine ⟨hpr, ?_⟩
          simp only [if_true]
          cases hc : s.closed with
          | true =>
            simp only [hc, if_true] at hq; subst hq
            rw [mOps_closedBody, hwp]
            exact ⟨Or.inr (Or.inr rfl), fun _ => rfl⟩
          | false =>
            simp only [hc, Bool.false_eq_true, if_false] at hq; subst hq
            rw [mOps_body w s.m hzm hfm, hwp]
            refine ⟨?_, fun hrec => ?_⟩
            · cases w.compressed
              · exact Or.inr (Or.inl rfl)
              · exact Or.inl rfl
            · have := reclaimed_closed ⟨hrun, hwait, hhold, hrdr, hcell⟩ hrec
              simp [hc] at this
        · simp only [upd, hqp, if_false] at hq
          obtain ⟨h1, h2⟩ := hrun q l hq
          refine ⟨h1, ?_⟩
          have : some p ≠ some q := by simp [Ne.symm hqp]
          simp only [this, if_false]
          simpa [hhol] using h2
      · intro q w' hq
        by_cases hqp : q = p
        · subst hqp; simp at hq
        · simp only [upd, hqp, if_false] at hq
          obtain ⟨a1, a2, a3, a4, _⟩ := hwait q w' hq
          exact ⟨a1, a2, a3, a4, by simp [Ne.symm hqp]⟩
      · intro q hq
        simp only [Option.some.injEq] at hq; subst hq
        exact Or.inr ⟨_, upd_get _ _ _⟩
      · have hpr' : some p ≠ some s.r := by simp [hpr]
        cases hr : s.reader with
        | none => simp only [hr] at hrdr ⊢; exact ⟨hrdr.1, hpr'⟩
        | some l =>
          simp only [hr] at hrdr ⊢
          refine ⟨hrdr.1, ?_⟩
          rcases hrdr.2 with ⟨_, h2, _⟩ | ⟨_, h2, _⟩ | ⟨h1, _⟩
          · simp [hhol] at h2
          · simp [hhol] at h2
          · exact Or.inr (Or.inr ⟨h1, hpr'⟩)
      · simp only [bufOps_append, bufOps_buf, if_true, bufOps_nil]
        rw [runCell_append, hcell]
        simp [runCell_cons, BOp.apply, hhol]
    · simp at hs
  | wStep p =>
    simp only [step] at hs
    split at hs
    · rename_i e rest hthr
      simp only [Option.some.injEq] at hs; subst hs
      obtain ⟨hpr, hcs⟩ := hrun p _ hthr
      by_cases hon : ∃ op, e = .buf s.m op
      · obtain ⟨op, rfl⟩ := hon
        simp only [bufOps_buf, if_true] at hcs
        by_cases hh : s.holder = some p
        · simp only [hh, if_true] at hcs
          obtain ⟨hcsops, hrec⟩ := hcs
          have hcell' : runCell ⟨.guarded, none⟩ (bufOps s.m s.trace) =
              some ⟨if s.reclaimed then .pool else .guarded, some p⟩ := by rw [hcell, hh]
          rcases hcsops with e1 | e1 | e1
          · -- read p; [write, unlock] remain
            simp only [List.cons.injEq] at e1
            obtain ⟨rfl, e2⟩ := e1
            have hnr : s.reclaimed = false := by
              cases hr : s.reclaimed with
              | false => rfl
              | true => have := hrec hr; simp [e2] at this
            have hne : (Ev.buf s.m (.read p) = Ev.unlock s.m p) = False := by simp
            simp only [hne, if_false]
            refine ⟨?_, ?_, ?_, hrdr, ?_⟩
            · intro q l hq
              by_cases hqp : q = p
              · subst hqp; simp only [upd_get, Th.running.injEq] at hq; subst hq
                refine ⟨hpr, ?_⟩
                simp only [hh, if_true, e2]
                exact ⟨Or.inr (Or.inl rfl), by simp [hnr]⟩
              · simp only [upd, hqp, if_false] at hq; exact hrun q l hq
            · intro q w hq
              by_cases hqp : q = p
              · subst hqp; simp at hq
              · simp only [upd, hqp, if_false] at hq; exact hwait q w hq
            · intro q hq
              by_cases hqp : q = p
              · subst hqp; exact Or.inr ⟨_, upd_get _ _ _⟩
              · rcases hhold q hq with e | ⟨l, e⟩
                · exact Or.inl e
                · exact Or.inr ⟨l, by simp [upd, hqp, e]⟩
            · simp only [bufOps_append, bufOps_buf, if_true, bufOps_nil]
              rw [runCell_append, hcell']
              simp [runCell_cons, BOp.apply, Cell.usable, hnr, hh]
          · -- write p; [unlock] remains
            simp only [List.cons.injEq] at e1
            obtain ⟨rfl, e2⟩ := e1
            have hnr : s.reclaimed = false := by
              cases hr : s.reclaimed with
              | false => rfl
              | true => have := hrec hr; simp at this
            have hne : (Ev.buf s.m (.write p) = Ev.unlock s.m p) = False := by simp
            simp only [hne, if_false]
            refine ⟨?_, ?_, ?_, hrdr, ?_⟩
            · intro q l hq
              by_cases hqp : q = p
              · subst hqp; simp only [upd_get, Th.running.injEq] at hq; subst hq
                refine ⟨hpr, ?_⟩
                simp only [hh, if_true, e2]
                exact ⟨Or.inr (Or.inr rfl), by simp⟩
              · simp only [upd, hqp, if_false] at hq; exact hrun q l hq
            · intro q w hq
              by_cases hqp : q = p
              · subst hqp; simp at hq
              · simp only [upd, hqp, if_false] at hq; exact hwait q w hq
            · intro q hq
              by_cases hqp : q = p
              · subst hqp; exact Or.inr ⟨_, upd_get _ _ _⟩
              · rcases hhold q hq with e | ⟨l, e⟩
                · exact Or.inl e
                · exact Or.inr ⟨l, by simp [upd, hqp, e]⟩
            · simp only [bufOps_append, bufOps_buf, if_true, bufOps_nil]
              rw [runCell_append, hcell']
              simp [runCell_cons, BOp.apply, Cell.usable, hnr, hh]
          · -- unlock p; nothing remains
            simp only [List.cons.injEq] at e1
            obtain ⟨rfl, e2⟩ := e1
            simp only [if_true]
            refine ⟨?_, ?_, ?_, ?_, ?_⟩
            · intro q l hq
              by_cases hqp : q = p
              · subst hqp; simp only [upd_get, Th.running.injEq] at hq; subst hq
                exact ⟨hpr, by simp [e2]⟩
              · simp only [upd, hqp, if_false] at hq
                obtain ⟨h1, h2⟩ := hrun q l hq
                have : s.holder ≠ some q := by rw [hh]; simp [Ne.symm hqp]
                refine ⟨h1, ?_⟩
                simpa [this] using h2
            · intro q w hq
              by_cases hqp : q = p
              · subst hqp; simp at hq
              · simp only [upd, hqp, if_false] at hq
                obtain ⟨a1, a2, a3, a4, _⟩ := hwait q w hq
                exact ⟨a1, a2, a3, a4, by simp⟩
            · intro q hq; simp at hq
            · have hpr' : s.holder ≠ some s.r := by rw [hh]; simp [hpr]
              cases hr : s.reader with
              | none => simp only [hr] at hrdr ⊢; exact ⟨hrdr.1, by simp⟩
              | some l =>
                simp only [hr] at hrdr ⊢
                refine ⟨hrdr.1, ?_⟩
                rcases hrdr.2 with ⟨_, h2, _⟩ | ⟨_, h2, _⟩ | ⟨h1, _⟩
                · exact absurd h2 hpr'
                · exact absurd h2 hpr'
                · exact Or.inr (Or.inr ⟨h1, by simp⟩)
            · simp only [bufOps_append, bufOps_buf, if_true, bufOps_nil]
              rw [runCell_append, hcell']
              simp [runCell_cons, BOp.apply]
        · simp [hh] at hcs
      · -- an event elsewhere: the window location and the lock are untouched
        have hne : (e = Ev.unlock s.m p) = False := by
          simp only [eq_iff_iff, iff_false]; intro he; exact hon ⟨_, he⟩
        have hops : bufOps s.m (e :: rest) = bufOps s.m rest := by
          cases e with
          | buf b op =>
            have : b ≠ s.m := fun hb => hon ⟨op, by rw [hb]⟩
            simp [this]
          | caller c op => simp
        have hops1 : bufOps s.m [e] = [] := by
          have := hops; cases e with
          | buf b op =>
            have : b ≠ s.m := fun hb => hon ⟨op, by rw [hb]⟩
            simp [this]
          | caller c op => simp
        simp only [hne, if_false]
        refine ⟨?_, ?_, ?_, hrdr, ?_⟩
        · intro q l hq
          by_cases hqp : q = p
          · subst hqp; simp only [upd_get, Th.running.injEq] at hq; subst hq
            rw [hops] at hcs; exact ⟨hpr, hcs⟩
          · simp only [upd, hqp, if_false] at hq; exact hrun q l hq
        · intro q w hq
          by_cases hqp : q = p
          · subst hqp; simp at hq
          · simp only [upd, hqp, if_false] at hq; exact hwait q w hq
        · intro q hq
          by_cases hqp : q = p
          · subst hqp; exact Or.inr ⟨_, upd_get _ _ _⟩
          · rcases hhold q hq with e' | ⟨l, e'⟩
            · exact Or.inl e'
            · exact Or.inr ⟨l, by simp [upd, hqp, e']⟩
        · simp only [bufOps_append, hops1, List.append_nil]; exact hcell
    · simp at hs
  | setClosed =>
    simp only [step, Option.some.injEq] at hs; subst hs
    refine ⟨hrun, hwait, hhold, ?_, hcell⟩
    cases hr : s.reader with
    | none => simpa [hr] using hrdr
    | some l => simp only [hr] at hrdr ⊢; exact ⟨by simp, hrdr.2⟩
  | rTry =>
    simp only [step] at hs
    split at hs
    · rename_i hg
      obtain ⟨hcl, hrn⟩ := hg
      simp only [hrn] at hrdr
      obtain ⟨hnrec, hnr⟩ := hrdr
      cases hh : s.holder with
      | none =>
        simp only [hh, Option.isNone_none, reclaimWindow, if_true, Option.some.injEq] at hs; subst hs
        refine ⟨?_, ?_, ?_, ?_, ?_⟩
        · intro q l hq
          obtain ⟨h1, h2⟩ := hrun q l hq
          refine ⟨h1, ?_⟩
          have : some s.r ≠ some q := by simp [Ne.symm h1]
          simp only [this, if_false]
          simpa [hh] using h2
        · intro q w hq
          obtain ⟨a1, a2, a3, a4, _⟩ := hwait q w hq
          exact ⟨a1, a2, a3, a4, by simp [Ne.symm a2]⟩
        · intro q hq; simp only [Option.some.injEq] at hq; exact Or.inl hq.symm
        · exact ⟨hcl, Or.inl ⟨rfl, rfl, hnrec⟩⟩
        · simp only [bufOps_append, bufOps_buf, if_true, bufOps_nil]
          rw [runCell_append, hcell]
          simp [runCell_cons, BOp.apply, hh]
      | some q0 =>
        simp only [hh, Option.isNone_some, reclaimWindow, Bool.false_eq_true, if_false, Option.some.injEq] at hs
        subst hs
        have hq0 : q0 ≠ s.r := by intro e; apply hnr; rw [hh, e]
        refine ⟨?_, ?_, ?_, ?_, ?_⟩
        · intro q l hq; simpa [hh] using hrun q l hq
        · intro q w hq; simpa [hh] using hwait q w hq
        · intro q hq; exact hhold q (by rw [hh]; exact hq)
        · exact ⟨hcl, Or.inr (Or.inr ⟨rfl, by simp [hq0]⟩)⟩
        · simp only [bufOps_append, bufOps_buf, if_true, bufOps_nil]
          rw [runCell_append, hcell]
          simp [runCell_cons, BOp.apply, hh, hq0]
    · simp at hs
  | rStep =>
    simp only [step] at hs
    split at hs
    · rename_i e rest hrd
      simp only [Option.some.injEq] at hs; subst hs
      simp only [hrd] at hrdr
      obtain ⟨hcl, hcases⟩ := hrdr
      rcases hcases with ⟨hl, hh, hnrec⟩ | ⟨hl, hh, hrec⟩ | ⟨hl, _⟩
      · -- put
        simp only [List.cons.injEq] at hl
        obtain ⟨rfl, rfl⟩ := hl
        have hne : (Ev.put s.m s.r = Ev.unlock s.m s.r) = False := by simp
        simp only [hne, if_false]
        refine ⟨?_, ?_, ?_, ?_, ?_⟩
        · intro q l hq
          obtain ⟨h1, h2⟩ := hrun q l hq
          have : s.holder ≠ some q := by rw [hh]; simp [Ne.symm h1]
          refine ⟨h1, ?_⟩
          simp only [this, if_false] at h2 ⊢; exact h2
        · exact hwait
        · exact hhold
        · exact ⟨hcl, Or.inr (Or.inl ⟨rfl, hh, by simp⟩)⟩
        · simp only [bufOps_append, bufOps_buf, if_true, bufOps_nil]
          rw [runCell_append, hcell]
          simp [runCell_cons, BOp.apply, Cell.usable, hnrec, hh]
      · -- unlock
        simp only [List.cons.injEq] at hl
        obtain ⟨rfl, rfl⟩ := hl
        simp only [if_true]
        refine ⟨?_, ?_, ?_, ?_, ?_⟩
        · intro q l hq
          obtain ⟨h1, h2⟩ := hrun q l hq
          have : s.holder ≠ some q := by rw [hh]; simp [Ne.symm h1]
          refine ⟨h1, ?_⟩
          simp only [this, if_false] at h2
          simpa using h2
        · intro q w hq
          obtain ⟨a1, a2, a3, a4, _⟩ := hwait q w hq
          exact ⟨a1, a2, a3, a4, by simp⟩
        · intro q hq; simp at hq
        · exact ⟨hcl, Or.inr (Or.inr ⟨rfl, by simp⟩)⟩
        · simp only [bufOps_append, bufOps_buf, if_true, bufOps_nil]
          rw [runCell_append, hcell]
          simp [runCell_cons, BOp.apply, hrec, hh]
      · simp at hl
    · simp at hs

theorem inv_run (s s' : TD) (acts : List TAct) (hi : Inv s) (hr : s.run acts = some s') : Inv s' := by
  induction acts generalizing s with
  | nil => simp [run] at hr; subst hr; exact hi
  | cons a as ih =>
    simp only [run] at hr
    cases hs : s.step a with
    | none => simp [hs] at hr
    | some s1 =>
      simp only [hs, Option.bind_some] at hr
      exact ih s1 (inv_step s s1 a hi hs) hr

theorem consts_run (s s' : TD) (acts : List TAct) (hr : s.run acts = some s') : s'.m = s.m ∧ s'.r = s.r := by
  induction acts generalizing s with
  | nil => simp [run] at hr; subst hr; exact ⟨rfl, rfl⟩
  | cons a as ih =>
    simp only [run] at hr
    cases hs : s.step a with
    | none => simp [hs] at hr
    | some s1 =>
      simp only [hs, Option.bind_some] at hr
      obtain ⟨a1, a2⟩ := step_consts hs
      obtain ⟨b1, b2⟩ := ih s1 hr
      exact ⟨b1.trans a1, b2.trans a2⟩

/-- what the invariant says about the reclamation -/
theorem reclaim_facts {s : TD} (hi : Inv s) :
    (∀ rest, s.reader = some (Ev.put s.m s.r :: rest) →
      s.holder = some s.r ∧ ∀ q l, s.thr q = .running l → bufOps s.m l = []) ∧
    (∀ q l, s.thr q = .running l → bufOps s.m l ≠ [] → s.holder = some q ∧ q ≠ s.r) ∧
    (s.reclaimed = true → ∀ q l, s.thr q = .running l → ∀ op ∈ bufOps s.m l, op = .unlock q) := by
  refine ⟨fun rest hrd => ?_, fun q l hq hne => ?_, fun hrec q l hq op hop => ?_⟩
  · have := hi.reader
    simp only [hrd] at this
    rcases this.2 with ⟨_, hh, _⟩ | ⟨hl, _, _⟩ | ⟨hl, _⟩
    · refine ⟨hh, fun q l hq => ?_⟩
      obtain ⟨h1, h2⟩ := hi.running q l hq
      have : s.holder ≠ some q := by rw [hh]; simp [Ne.symm h1]
      simpa [this] using h2
    · simp at hl
    · simp at hl
  · obtain ⟨h1, h2⟩ := hi.running q l hq
    by_cases hh : s.holder = some q
    · exact ⟨hh, h1⟩
    · simp only [hh, if_false] at h2; exact absurd h2 hne
  · obtain ⟨_, h2⟩ := hi.running q l hq
    by_cases hh : s.holder = some q
    · simp only [hh, if_true] at h2
      rw [h2.2 hrec] at hop; simpa using hop
    · simp only [hh, if_false] at h2; rw [h2] at hop; simp at hop

end TD
end Own
