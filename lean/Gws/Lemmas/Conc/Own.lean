import Gws.Model.Conc.Own
/-! Basic facts about the ownership heap: `upd`, sequential composition, locality of events. -/
namespace Own

@[simp] theorem upd_get {α : Type} (f : Nat → α) (k : Nat) (v : α) : upd f k v k = v := by simp [upd]
@[simp] theorem upd_get_ne {α : Type} (f : Nat → α) (k x : Nat) (v : α) (h : x ≠ k) : upd f k v x = f x := by
  simp [upd, h]
@[simp] theorem upd_self {α : Type} (f : Nat → α) (k : Nat) : upd f k (f k) = f := by
  funext x; simp only [upd]; split <;> simp_all
@[simp] theorem upd_upd {α : Type} (f : Nat → α) (k : Nat) (v w : α) : upd (upd f k v) k w = upd f k w := by
  funext x; simp only [upd]; split <;> simp_all

@[simp] theorem run_nil (h : Heap) : run h [] = some h := rfl
theorem run_cons (h : Heap) (e : Ev) (es : List Ev) : run h (e :: es) = (step h e).bind fun h' => run h' es := rfl

theorem run_append (h : Heap) (l1 l2 : List Ev) : run h (l1 ++ l2) = (run h l1).bind fun h' => run h' l2 := by
  induction l1 generalizing h with
  | nil => simp
  | cons e es ih =>
    simp only [List.cons_append, run_cons]
    cases step h e with
    | none => simp
    | some h1 => simp [ih]

theorem run_append_some {h h1 h2 : Heap} {l1 l2 : List Ev} (a : run h l1 = some h1) (b : run h1 l2 = some h2) :
    run h (l1 ++ l2) = some h2 := by simp [run_append, a, b]

@[simp] theorem optl_true (l : List Ev) : optl true l = l := rfl
@[simp] theorem optl_false (l : List Ev) : optl false l = [] := rfl

/-! ## Locality

Every event touches exactly one location, so a run is nothing but the independent runs of the
per-location operation sequences. All path theorems and the interleaving theorem go through this. -/

/-- the operations that `l` performs on buffer location `x`, in order -/
def bufOps (x : Buf) : List Ev → List BOp
  | [] => []
  | .buf b op :: l => if b = x then op :: bufOps x l else bufOps x l
  | .caller _ _ :: l => bufOps x l

/-- the operations that `l` performs on caller payload `y`, in order -/
def callerOps (y : CBuf) : List Ev → List COp
  | [] => []
  | .buf _ _ :: l => callerOps y l
  | .caller c op :: l => if c = y then op :: callerOps y l else callerOps y l

def runCell (c : Cell) : List BOp → Option Cell
  | [] => some c
  | op :: ops => (op.apply c).bind fun c' => runCell c' ops

def runLent (s : Option Pid) : List COp → Option (Option Pid)
  | [] => some s
  | op :: ops => (op.apply s).bind fun s' => runLent s' ops

@[simp] theorem bufOps_nil (x : Buf) : bufOps x [] = [] := rfl
@[simp] theorem bufOps_buf (x b : Buf) (op : BOp) (l : List Ev) :
    bufOps x (.buf b op :: l) = if b = x then op :: bufOps x l else bufOps x l := rfl
@[simp] theorem bufOps_caller (x : Buf) (c : CBuf) (op : COp) (l : List Ev) :
    bufOps x (.caller c op :: l) = bufOps x l := rfl
@[simp] theorem callerOps_nil (y : CBuf) : callerOps y [] = [] := rfl
@[simp] theorem callerOps_buf (y : CBuf) (b : Buf) (op : BOp) (l : List Ev) :
    callerOps y (.buf b op :: l) = callerOps y l := rfl
@[simp] theorem callerOps_caller (y c : CBuf) (op : COp) (l : List Ev) :
    callerOps y (.caller c op :: l) = if c = y then op :: callerOps y l else callerOps y l := rfl

@[simp] theorem bufOps_append (x : Buf) (l1 l2 : List Ev) : bufOps x (l1 ++ l2) = bufOps x l1 ++ bufOps x l2 := by
  induction l1 with
  | nil => rfl
  | cons e es ih => cases e with
    | buf b op => simp only [List.cons_append, bufOps_buf, ih]; split <;> rfl
    | caller c op => simpa using ih

@[simp] theorem callerOps_append (y : CBuf) (l1 l2 : List Ev) :
    callerOps y (l1 ++ l2) = callerOps y l1 ++ callerOps y l2 := by
  induction l1 with
  | nil => rfl
  | cons e es ih => cases e with
    | buf b op => simpa using ih
    | caller c op => simp only [List.cons_append, callerOps_caller, ih]; split <;> rfl

@[simp] theorem runCell_nil (c : Cell) : runCell c [] = some c := rfl
theorem runCell_cons (c : Cell) (op : BOp) (ops : List BOp) :
    runCell c (op :: ops) = (op.apply c).bind fun c' => runCell c' ops := rfl
@[simp] theorem runLent_nil (s : Option Pid) : runLent s [] = some s := rfl
theorem runLent_cons (s : Option Pid) (op : COp) (ops : List COp) :
    runLent s (op :: ops) = (op.apply s).bind fun s' => runLent s' ops := rfl

theorem runCell_append (c : Cell) (l1 l2 : List BOp) :
    runCell c (l1 ++ l2) = (runCell c l1).bind fun c' => runCell c' l2 := by
  induction l1 generalizing c with
  | nil => simp
  | cons e es ih =>
    simp only [List.cons_append, runCell_cons]
    cases e.apply c with
    | none => simp
    | some c1 => simp [ih]

theorem runLent_append (s : Option Pid) (l1 l2 : List COp) :
    runLent s (l1 ++ l2) = (runLent s l1).bind fun s' => runLent s' l2 := by
  induction l1 generalizing s with
  | nil => simp
  | cons e es ih =>
    simp only [List.cons_append, runLent_cons]
    cases e.apply s with
    | none => simp
    | some c1 => simp [ih]

theorem Heap.ext' {h h' : Heap} (hc : ∀ x, h.cell x = h'.cell x) (hl : ∀ y, h.lent y = h'.lent y) : h = h' := by
  cases h; cases h'; simp only [Heap.mk.injEq]; exact ⟨funext hc, funext hl⟩

/-- **Locality.** A run succeeds with final heap `h'` iff at every location the operations performed
there take the initial cell to the final cell. -/
theorem run_eq_some_iff (h h' : Heap) (l : List Ev) :
    run h l = some h' ↔
      (∀ x, runCell (h.cell x) (bufOps x l) = some (h'.cell x)) ∧
      (∀ y, runLent (h.lent y) (callerOps y l) = some (h'.lent y)) := by
  induction l generalizing h with
  | nil =>
    simp only [run_nil, Option.some.injEq, bufOps_nil, runCell_nil, callerOps_nil, runLent_nil]
    constructor
    · rintro rfl; exact ⟨fun _ => rfl, fun _ => rfl⟩
    · rintro ⟨a, b⟩; exact Heap.ext' a b
  | cons e es ih =>
    cases e with
    | buf b op =>
      simp only [run_cons, step, bufOps_buf, callerOps_buf]
      cases hop : op.apply (h.cell b) with
      | none =>
        simp only [Option.map_none, Option.bind_none, false_iff, not_and, reduceCtorEq]
        intro hx
        have := hx b
        simp [runCell_cons, hop] at this
      | some c =>
        simp only [Option.map_some, Option.bind_some, ih]
        constructor
        · rintro ⟨hx, hy⟩
          refine ⟨fun x => ?_, hy⟩
          by_cases hbx : b = x
          · subst hbx; simpa [runCell_cons, hop] using hx b
          · have := hx x
            simpa [hbx, upd_get_ne _ _ _ _ (Ne.symm hbx)] using this
        · rintro ⟨hx, hy⟩
          refine ⟨fun x => ?_, hy⟩
          by_cases hbx : b = x
          · subst hbx; simpa [runCell_cons, hop] using hx b
          · have := hx x
            simpa [hbx, upd_get_ne _ _ _ _ (Ne.symm hbx)] using this
    | caller c op =>
      simp only [run_cons, step, bufOps_caller, callerOps_caller]
      cases hop : op.apply (h.lent c) with
      | none =>
        simp only [Option.map_none, Option.bind_none, false_iff, not_and, reduceCtorEq]
        intro _ hy
        have := hy c
        simp [runLent_cons, hop] at this
      | some s =>
        simp only [Option.map_some, Option.bind_some, ih]
        constructor
        · rintro ⟨hx, hy⟩
          refine ⟨hx, fun y => ?_⟩
          by_cases hcy : c = y
          · subst hcy; simpa [runLent_cons, hop] using hy c
          · have := hy y
            simpa [hcy, upd_get_ne _ _ _ _ (Ne.symm hcy)] using this
        · rintro ⟨hx, hy⟩
          refine ⟨hx, fun y => ?_⟩
          by_cases hcy : c = y
          · subst hcy; simpa [runLent_cons, hop] using hy c
          · have := hy y
            simpa [hcy, upd_get_ne _ _ _ _ (Ne.symm hcy)] using this

/-- success alone: a run has no violation iff no location sees one -/
theorem run_isSome_iff (h : Heap) (l : List Ev) :
    (run h l).isSome ↔
      (∀ x, (runCell (h.cell x) (bufOps x l)).isSome) ∧ (∀ y, (runLent (h.lent y) (callerOps y l)).isSome) := by
  constructor
  · intro hs
    obtain ⟨h', hh'⟩ := Option.isSome_iff_exists.mp hs
    obtain ⟨a, b⟩ := (run_eq_some_iff h h' l).mp hh'
    exact ⟨fun x => by simp [a x], fun y => by simp [b y]⟩
  · rintro ⟨a, b⟩
    have : run h l = some { cell := fun x => (runCell (h.cell x) (bufOps x l)).get (a x),
                            lent := fun y => (runLent (h.lent y) (callerOps y l)).get (b y) } := by
      rw [run_eq_some_iff]
      exact ⟨fun x => by simp, fun y => by simp⟩
    simp [this]

end Own
