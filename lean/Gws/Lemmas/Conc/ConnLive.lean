import Gws.Lemmas.Conc.ConnInv
/-!
# Progress of the connection transition system

* `step_enabled`: an actor that is not finished can act when the lock is free or it holds the lock.
* `steps`: a measure that strictly decreases with every `act` (`steps_decreases`).
-/

namespace Conc

theorem step_enabled {s : State} {a : Nat} (f : Bool)
    (hl : s.lockHeld = false ∨ (s.pc a).holdsLock = true)
    (h1 : s.pc a ≠ .idle) (h2 : ∀ r, s.pc a ≠ .done r) : (step s (.act a f)).isSome = true := by
  simp only [step]
  split <;> simp_all [Pc.holdsLock]
  all_goals (repeat' split)
  all_goals simp

/-- in every state with well-formed `pcs` where somebody is unfinished, somebody can act -/
theorem exists_enabled {s : State} (hwf : s.WF) {a : Nat} (h1 : s.pc a ≠ .idle) (h2 : ∀ r, s.pc a ≠ .done r) :
    ∃ b f, (step s (.act b f)).isSome = true := by
  cases hl : s.lockHeld with
  | false => exact ⟨a, false, step_enabled false (Or.inl hl) h1 h2⟩
  | true =>
    obtain ⟨b, hb⟩ := holder_of_lockHeld hwf hl
    refine ⟨b, false, step_enabled false (Or.inr hb) ?_ ?_⟩
    · intro e; rw [e] at hb; cases hb
    · intro r e; rw [e] at hb; cases hb

/-! ### a measure that decreases with every action -/

/-- actions left after the close sequence proper -/
def Cont.after : Cont → Nat
  | .ret _ => 0
  | .readerOnClose => 1
  | .readerAgain => 5

/-- an upper bound on the number of actions an actor at this program counter can still perform -/
def Pc.rem : Pc → Nat
  | .idle | .done _ => 0
  | .wLock _ => 6
  | .wWrite => 5
  | .fLock n => n + 7
  | .fCheck i n => (n - i) + 5
  | .bStart => 7
  | .bLock => 6
  | .bWrite => 5
  | .cCas k => 4 + k.after
  | .kLock k => 3 + k.after
  | .kWrite k => 2 + k.after
  | .cTclose k => 1 + k.after
  | .rOpen sc => sc.length + 11
  | .rLoop sc => sc.length + 10
  | .rOnClose => 1

def remSum (l : List (Nat × Pc)) : Nat := (l.map (fun x => x.2.rem)).sum

/-- total number of actions the spawned actors can still perform (upper bound) -/
def steps (s : State) : Nat := remSum s.pcs

theorem remSum_filter_le (l : List (Nat × Pc)) (p : Nat × Pc → Bool) : remSum (l.filter p) ≤ remSum l := by
  induction l with
  | nil => simp [remSum]
  | cons x l ih =>
    simp only [List.filter_cons]
    split
    · simp only [remSum, List.map_cons, List.sum_cons] at *; omega
    · simp only [remSum, List.map_cons, List.sum_cons] at *; omega

theorem remSum_split (l : List (Nat × Pc)) (a : Nat) :
    (((l.find? (fun x => x.1 == a)).map (fun x => x.2)).getD Pc.idle).rem +
      remSum (l.filter (fun x => x.1 != a)) ≤ remSum l := by
  induction l with
  | nil => simp [remSum, Pc.rem]
  | cons x l ih =>
    by_cases hx : x.1 = a
    · have := remSum_filter_le l (fun x => x.1 != a)
      simp [hx, remSum] at *
      omega
    · simp [hx, remSum] at *
      omega

theorem steps_setPc (s t : State) (hp : t.pcs = s.pcs) (a : Nat) (p' : Pc) (h : p'.rem < (s.pc a).rem) :
    steps (t.setPc a p') < steps s := by
  have := remSum_split s.pcs a
  have e : steps (t.setPc a p') = p'.rem + remSum (s.pcs.filter (fun x => x.1 != a)) := by
    simp [steps, State.setPc, hp, remSum]
  rw [e]
  unfold State.pc at h
  unfold steps
  omega

/-- every `act` strictly decreases the measure (given `i ≤ n` at every `fCheck i n`, which holds in
every reachable state) -/
theorem steps_decreases {s s' : State} {a : Nat} {f : Bool} (hc : CInv s)
    (h : step s (.act a f) = some s') : steps s' < steps s := by
  obtain ⟨t, p', rfl, hp, ht⟩ := act_cases h
  apply steps_setPc s t hp
  have hle := hc.fcheck_le a
  generalize s.pc a = q at ht hle
  cases ht <;> simp [Pc.rem, Cont.after]
  rename_i i n hne _ _ _
  have := hle i n rfl
  omega

end Conc
