import Gws.Lemmas.WriterHeader
import Gws.Lemmas.WriterMask
/-!
# One frame: what `genFrame` builds and how the RFC decoder reads it back

`backfill_eq` reduces the padded-buffer manipulation (`copy(contents[m:], header[:hl])`,
`buf.Next(m)`) to `header ++ body`; `wireFrame_decodes` is the round trip of one frame through
`Spec.decodeFrames` (header by `genHeader_decodes_eq`, payload by C18); `genFrame_plain` /
`genFrame_compressed` say which `wireFrame` each branch of `genFrame` returns; the `stripTail`
lemmas describe the `00 00 ff ff` strip.
-/

open Frame Spec

namespace Writer

theorem genHeader_length (isServer fin c : Bool) (opcode n : Nat) (key : Bytes) (hk : key.length = 4) :
    (Frame.genHeader isServer fin c opcode n key).length ≤ 14 ∧ 2 ≤ (Frame.genHeader isServer fin c opcode n key).length := by
  unfold Frame.genHeader
  by_cases h1 : n ≤ Facts.thresholdV1
  · cases isServer <;> simp [h1, hk]
  · by_cases h2 : n ≤ Facts.thresholdV2
    · cases isServer <;> simp [h1, h2, hk, Frame.u16be]
    · cases isServer <;> simp [h1, h2, hk, Frame.u64be]

/-- the literal buffer manipulation of `genFrame`/`compressData` yields header ++ (masked) body -/
theorem backfill_eq (isServer : Bool) (header pad body key : Bytes) (hpad : pad.length = 14) (hh : header.length ≤ 14) :
    backfill isServer header (pad ++ body) key = header ++ (if isServer then body else Reader.unmask key body) := by
  unfold backfill
  simp only [Facts.frameHeaderSize]
  have ht : List.take 14 (pad ++ body) = pad := by rw [List.take_append_of_le_length (by omega), List.take_of_length_le (by omega)]
  have hd : List.drop 14 (pad ++ body) = body := by rw [List.drop_append_of_le_length (by omega), List.drop_of_length_le (by omega)]; simp
  generalize hb' : (if isServer then body else Reader.unmask key body) = body'
  have hc : (if (!isServer) = true then List.take 14 (pad ++ body) ++ Reader.unmask key (List.drop 14 (pad ++ body)) else pad ++ body)
      = pad ++ body' := by
    rw [ht, hd, ← hb']; cases isServer <;> simp
  rw [hc]
  unfold goCopy
  have hk : min header.length ((pad ++ body').length - (14 - header.length)) = header.length := by
    simp only [List.length_append]; omega
  simp only []
  rw [hk, List.take_of_length_le (Nat.le_refl _)]
  have h1 : 14 - header.length + header.length = 14 := by omega
  have hd' : List.drop 14 (pad ++ body') = body' := by
    rw [List.drop_append_of_le_length (by omega), List.drop_of_length_le (by omega)]; simp
  have ht' : List.take (14 - header.length) (pad ++ body') = List.take (14 - header.length) pad := by
    rw [List.take_append_of_le_length (by omega)]
  rw [h1, hd', ht', List.append_assoc]
  exact List.drop_left' (by simp; omega)

/-- bytes of one frame as they leave `genFrame`: header, then the body (masked by a client) -/
def wireFrame (isServer fin rsv1 : Bool) (opcode : Nat) (body key : Bytes) : Bytes :=
  Frame.genHeader isServer fin rsv1 opcode body.length key ++ (if isServer then body else Reader.unmask key body)

/-- **one frame, read back**: the RFC decoder sees the header `sentHdr` and, after unmasking, the body -/
theorem wireFrame_decodes (isServer fin rsv1 : Bool) (opcode : Nat) (body key rest : Bytes)
    (hop : opcode < 16) (hn : body.length < 2 ^ 64) (hk : key.length = 4) :
    Spec.decodeFrames (wireFrame isServer fin rsv1 opcode body key ++ rest) =
      (Spec.decodeFrames rest).map (fun fs => (sentHdr isServer fin rsv1 opcode body.length key, body) :: fs) := by
  unfold wireFrame
  rw [List.append_assoc]
  have hd := genHeader_decodes_eq isServer fin rsv1 opcode body.length key
    ((if isServer then body else Reader.unmask key body) ++ rest) hop hn hk
  have hlen : (if isServer then body else Reader.unmask key body).length = body.length := by
    cases isServer <;> simp
  rw [Spec.decodeFrames_step hd (by simp [sentHdr, hlen])]
  have e1 : (sentHdr isServer fin rsv1 opcode body.length key).len = body.length := rfl
  rw [e1, ← hlen, List.drop_left, List.take_left]
  congr 2
  funext fs
  congr 2
  unfold Spec.framePayload sentHdr
  cases isServer
  · simp only [Bool.not_false, ↓reduceIte, Bool.false_eq_true]
    exact spec_unmask_masked key body hk
  · simp

theorem buffersCheck_false (opcode : Nat) (ps : List Bytes) : Utf8.buffersCheck false opcode ps = true := by
  simp [Utf8.buffersCheck]

theorem padding_length : padding.length = 14 := by simp [padding, Facts.frameHeaderSize]

/-- `genFrame` on its uncompressed branch -/
theorem genFrame_plain (cfg : Cfg) (codec : Codec) (cps : Win) (opcode : Nat) (payload : List Bytes) (fc : FrameCfg) (key : Bytes)
    (hk : key.length = 4)
    (henc : ¬ (opcode = Facts.opText ∧ Utf8.buffersCheck fc.checkEncoding opcode payload = false))
    (hmax : payload.flatten.length ≤ cfg.writeMax)
    (hc : willCompress cfg fc opcode payload.flatten.length = false) :
    genFrame cfg codec cps opcode payload fc key = .ok (wireFrame cfg.isServer fc.fin false opcode payload.flatten key) := by
  unfold genFrame
  have : ¬ payload.flatten.length > cfg.writeMax := by omega
  simp only [henc, this, hc, ↓reduceIte, Bool.false_eq_true]
  rw [backfill_eq _ _ _ _ _ padding_length (genHeader_length _ _ _ _ _ _ hk).1]
  rfl

/-! ### the tail strip -/

theorem stripTail_append (a h : Bytes) (hh : 4 ≤ h.length) : stripTail (a ++ h) = a ++ stripTail h := by
  unfold stripTail
  simp only [List.length_append]
  have e1 : List.drop (a.length + h.length - 4) (a ++ h) = List.drop (h.length - 4) h := by
    rw [List.drop_append, List.drop_of_length_le (by omega), List.nil_append]
    congr 1; omega
  have e2 : List.take (a.length + h.length - 4) (a ++ h) = a ++ List.take (h.length - 4) h := by
    rw [List.take_append, List.take_of_length_le (by omega)]
    congr 2; omega
  have e3 : a.length + h.length ≥ 4 := by omega
  have e4 : h.length ≥ 4 := by omega
  rw [e1, e2]
  simp only [e3, e4, true_and]
  split <;> rfl

theorem stripTail_length_le (b : Bytes) : (stripTail b).length ≤ b.length := by
  unfold stripTail; simp only; split <;> simp

theorem stripTail_tail (x : Bytes) : stripTail (x ++ [0x00, 0x00, 0xff, 0xff]) = x := by
  rw [stripTail_append x _ (by simp)]
  simp [stripTail, be32]

/-- the strip removes something only if the buffer ends with `00 00 ff ff` -/
theorem stripTail_cases (b : Bytes) : stripTail b = b ∨ b = stripTail b ++ [0x00, 0x00, 0xff, 0xff] := by
  unfold stripTail
  simp only
  split
  · rename_i h
    right
    have h4 : (List.drop (b.length - 4) b).length = 4 := by simp; omega
    generalize hd : List.drop (b.length - 4) b = d at h h4
    have hb : b = List.take (b.length - 4) b ++ d := by rw [← hd, List.take_append_drop]
    match d, h4 with
    | [x0, x1, x2, x3], _ =>
      simp only [be32] at h
      have h0 := x0.toNat_lt; have h1 := x1.toNat_lt; have h2 := x2.toNat_lt; have h3 := x3.toNat_lt
      have e0 : x0 = 0 := UInt8.toNat_inj.mp (by simp; omega)
      have e1 : x1 = 0 := UInt8.toNat_inj.mp (by simp; omega)
      have e2 : x2 = 0xff := UInt8.toNat_inj.mp (by simp; omega)
      have e3 : x3 = 0xff := UInt8.toNat_inj.mp (by simp; omega)
      subst e0 e1 e2 e3
      exact hb
  · left; rfl

/-- `genFrame` on its compression branch, when the library's output is at least four bytes long
(every sync-flushed DEFLATE stream is: it ends with `00 00 ff ff`) -/
theorem genFrame_compressed (cfg : Cfg) (codec : Codec) (cps : Win) (opcode : Nat) (payload : List Bytes) (fc : FrameCfg) (key : Bytes)
    (hk : key.length = 4)
    (henc : ¬ (opcode = Facts.opText ∧ Utf8.buffersCheck fc.checkEncoding opcode payload = false))
    (hmax : payload.flatten.length ≤ cfg.writeMax)
    (hc : willCompress cfg fc opcode payload.flatten.length = true)
    (hout : 4 ≤ (codec.compress cfg.bits (if fc.broadcast then [] else cps.dict) payload).length)
    (hlt : (codec.compress cfg.bits (if fc.broadcast then [] else cps.dict) payload).length < 2 ^ 64) :
    genFrame cfg codec cps opcode payload fc key =
      .ok (wireFrame cfg.isServer fc.fin true opcode
        (stripTail (codec.compress cfg.bits (if fc.broadcast then [] else cps.dict) payload)) key) := by
  unfold genFrame
  have : ¬ payload.flatten.length > cfg.writeMax := by omega
  simp only [henc, this, hc, ↓reduceIte]
  unfold compressData
  simp only
  rw [stripTail_append _ _ hout]
  have hl := stripTail_length_le (codec.compress cfg.bits (if fc.broadcast then [] else cps.dict) payload)
  generalize stripTail (codec.compress cfg.bits (if fc.broadcast then [] else cps.dict) payload) = body at hl ⊢
  have hsz : toU64 (((padding ++ body).length : Int) - (Facts.frameHeaderSize : Int)) = body.length := by
    unfold toU64
    simp only [List.length_append, padding_length, Facts.frameHeaderSize]
    have : ((14 + body.length : Nat) : Int) - (14 : Nat) = (body.length : Int) := by omega
    rw [this]
    have h2 : (body.length : Int) % 18446744073709551616 = body.length := by
      apply Int.emod_eq_of_lt (by omega)
      have : body.length < 2 ^ 64 := by omega
      simp only [Nat.reducePow] at this
      omega
    rw [h2]; simp
  rw [hsz, backfill_eq _ _ _ _ _ padding_length (genHeader_length _ _ _ _ _ _ hk).1]
  rfl

end Writer
