import Gws.Lemmas.ComposeSend
/-!
# Every kind of write call is delivered (helpers for Props/C01)

`Delivered`: what one successful call establishes — no error, connection still open, the C17
invariant of the sender's window, and a reader state `rst'` (idle again, window equal to the
sender's) such that the bytes of the call, followed by anything, take the reader from `rst` to
`rst'` delivering exactly the one expected event.  One lemma per kind of call and compression
outcome; `call_delivered` collects them.
-/

namespace Compose

/-- the windows of the two ends of the direction agree (and satisfy the C17 invariant) — a
statement about connections with permessage-deflate; without the extension the windows are never
consulted -/
def InSync (w : Writer.Cfg) (cps dps : Win) : Prop := w.pdEnabled = true → cps = dps ∧ WinOk cps

def Delivered (w : Writer.Cfg) (r : Reader.Cfg) (codec : Codec) (rst : Reader.State) (o : Writer.Out) (ev : Reader.Ev) : Prop :=
  o.err = none ∧ o.st.closed = false ∧
  ∃ rst' : Reader.State, rst'.cont.initialized = false ∧ InSync w o.st.cps rst'.dps ∧
    ∀ rest, Runs r codec rst (o.wire ++ rest) rst' [ev] rest

theorem stripTail_length_ge (b : Bytes) : b.length ≤ (Writer.stripTail b).length + 4 := by
  rcases Writer.stripTail_cases b with h | h
  · rw [h]; omega
  · have := congrArg List.length h
    simp only [List.length_append, List.length_cons, List.length_nil] at this
    omega

theorem willCompress_pd {w : Writer.Cfg} {fc : Writer.FrameCfg} {op n : Nat}
    (h : Writer.willCompress w fc op n = true) : fc.compress = true := by
  unfold Writer.willCompress at h
  simp only [Bool.and_eq_true] at h
  exact h.1.1

/-! ## a data message through `doWrite` -/

theorem msg_plain_delivered (w : Writer.Cfg) (r : Reader.Cfg) (codec : Codec) (hc : Compatible w r)
    (cst : Writer.Conn) (rst : Reader.State) (op : Nat) (p : List Bytes) (keys : Nat → Bytes)
    (hopen : cst.closed = false) (hidle : rst.cont.initialized = false) (hs : InSync w cst.cps rst.dps) (hk : (keys 0).length = 4)
    (hop : isData op) (hmax : p.flatten.length ≤ w.writeMax) (hfit : (p.flatten.length : Int) ≤ r.readMax)
    (htw : textOk w.checkUtf8 op p.flatten) (htr : textOk r.checkUtf8 op p.flatten)
    (hz : Writer.willCompress w (Writer.msgCfg w) op p.flatten.length = false) :
    Delivered w r codec rst (Writer.writeMessage w codec cst op p keys) (.msg op p.flatten) := by
  have hg := Writer.genFrame_plain w codec cst.cps op p (Writer.msgCfg w) (keys 0) hk
    (buffersCheck_of_textOk hop htw) hmax hz
  rw [writeMessage_eq w codec cst op p keys _ hopen hg, hz]
  refine ⟨rfl, hopen, rst, hidle, hs, fun rest => ?_⟩
  exact Runs.one (step_msg_plain r codec rst w.isServer op p.flatten (keys 0) rest hc.role hc.int hop hk hfit htr hidle)

theorem msg_compressed_delivered (w : Writer.Cfg) (r : Reader.Cfg) (codec : Codec) (hc : Compatible w r)
    (hRT : RoundTrip codec) (hMin : MinOut codec)
    (cst : Writer.Conn) (rst : Reader.State) (op : Nat) (p : List Bytes) (keys : Nat → Bytes)
    (hopen : cst.closed = false) (hidle : rst.cont.initialized = false) (hs : InSync w cst.cps rst.dps) (hk : (keys 0).length = 4)
    (hop : isData op) (hmax : p.flatten.length ≤ w.writeMax) (hfit : (p.flatten.length : Int) ≤ r.readMax)
    (htw : textOk w.checkUtf8 op p.flatten) (htr : textOk r.checkUtf8 op p.flatten)
    (hz : Writer.willCompress w (Writer.msgCfg w) op p.flatten.length = true)
    (hzfit : ((Writer.stripTail (codec.compress w.bits cst.cps.dict p)).length : Int) ≤ r.readMax) :
    Delivered w r codec rst (Writer.writeMessage w codec cst op p keys) (.msg op p.flatten) := by
  have hpd : w.pdEnabled = true := willCompress_pd hz
  obtain ⟨hsync, hwin⟩ := hs hpd
  have hint := hc.int
  have hge := stripTail_length_ge (codec.compress w.bits cst.cps.dict p)
  have hg := Writer.genFrame_compressed w codec cst.cps op p (Writer.msgCfg w) (keys 0) hk
    (buffersCheck_of_textOk hop htw) hmax hz (hMin _ _ _) (by simp only [Writer.msgCfg, Bool.false_eq_true, ↓reduceIte]; omega)
  simp only [Writer.msgCfg, Bool.false_eq_true, ↓reduceIte] at hg
  rw [writeMessage_eq w codec cst op p keys _ hopen hg, hz]
  simp only [↓reduceIte]
  rw [foldl_write_eq _ _ hwin]
  refine ⟨rfl, hopen, { rst with dps := rst.dps.write p.flatten }, hidle,
    fun _ => ⟨by simp [hsync], winOk_write _ _ hwin⟩, fun rest => ?_⟩
  refine Runs.one (step_msg_compressed r codec rst w.isServer op _ p.flatten (keys 0) rest hc.role hc.int
    (by rw [hc.ext, hpd]) hop hk hzfit ?_ htr hidle)
  rw [← hsync]
  exact hRT w.bits cst.cps.dict p r.readMax hfit

/-! ## Ping / Pong -/

theorem control_delivered (w : Writer.Cfg) (r : Reader.Cfg) (codec : Codec) (hc : Compatible w r)
    (cst : Writer.Conn) (rst : Reader.State) (op : Nat) (p : Bytes) (keys : Nat → Bytes)
    (hopen : cst.closed = false) (hidle : rst.cont.initialized = false) (hs : InSync w cst.cps rst.dps) (hk : (keys 0).length = 4)
    (hop : op = Facts.opPing ∨ op = Facts.opPong) (h125 : p.length ≤ 125) (hmax : p.length ≤ w.writeMax)
    (hfit : (p.length : Int) ≤ r.readMax) :
    Delivered w r codec rst (Writer.writeMessage w codec cst op [p] keys)
      (if op = Facts.opPing then .ping p else .pong p) := by
  have hz : Writer.willCompress w (Writer.msgCfg w) op [p].flatten.length = false := by
    have : ¬ op ≤ Facts.dataFrameMaxOpcode := by
      rcases hop with rfl | rfl <;> simp [Facts.opPing, Facts.opPong, Facts.dataFrameMaxOpcode]
    simp [Writer.willCompress, this]
  have hne : ¬ (op = Facts.opText ∧ Utf8.buffersCheck (Writer.msgCfg w).checkEncoding op [p] = false) := by
    rintro ⟨h, _⟩
    rcases hop with rfl | rfl <;> simp [Facts.opPing, Facts.opPong, Facts.opText] at h
  have hg := Writer.genFrame_plain w codec cst.cps op [p] (Writer.msgCfg w) (keys 0) hk hne (by simpa using hmax) hz
  rw [writeMessage_eq w codec cst op [p] keys _ hopen hg, hz]
  refine ⟨rfl, hopen, rst, hidle, hs, fun rest => ?_⟩
  have := step_controlFrame r codec rst w.isServer op p (keys 0) rest hc.role hop hk h125 hfit
  exact Runs.one (by simpa [Writer.msgCfg] using this)

/-! ## WriteFile -/

theorem file_plain_delivered (w : Writer.Cfg) (r : Reader.Cfg) (codec : Codec) (hc : Compatible w r)
    (cst : Writer.Conn) (rst : Reader.State) (op : Nat) (reads : Writer.ReaderScript) (outs : List Bytes)
    (keys : Nat → Bytes)
    (hopen : cst.closed = false) (hidle : rst.cont.initialized = false) (hs : InSync w cst.cps rst.dps) (hkeys : ∀ i, (keys i).length = 4) (hpd : w.pdEnabled = false)
    (hop : isData op) (heof : (Writer.readChunks reads).2 = true)
    (hchunk : ∀ c ∈ (Writer.readChunks reads).1, c.length ≤ w.writeMax)
    (hfit : ((Writer.readChunks reads).1.flatten.length : Int) ≤ r.readMax)
    (htr : textOk r.checkUtf8 op (Writer.readChunks reads).1.flatten) :
    Delivered w r codec rst (Writer.writeFile w codec cst op reads outs keys)
      (.msg op (Writer.readChunks reads).1.flatten) := by
  have hop16 : op < 16 := by have := isData_le hop; omega
  rw [Writer.writeFile_plain_eq w codec cst op reads outs keys hop16 hkeys hopen hpd heof hchunk]
  obtain ⟨c', hc', hrun⟩ := runs_fileFrames w r codec op keys hc.role hc.ext hc.int hkeys hop reads rst rst.dps
    (.msg op (Writer.readChunks reads).1.flatten) heof hidle hfit (fun c => by
      rw [hpd]
      exact emitMessage_plain r codec _ op _ (checkEncoding_of_textOk hop htr))
  exact ⟨rfl, hopen, { cont := c', dps := rst.dps }, hc', hs, hrun⟩

theorem file_compressed_delivered (w : Writer.Cfg) (r : Reader.Cfg) (codec : Codec) (hc : Compatible w r)
    (hRT : RoundTrip codec) (hMin : MinOut codec)
    (cst : Writer.Conn) (rst : Reader.State) (op : Nat) (reads : Writer.ReaderScript) (outs : List Bytes)
    (keys : Nat → Bytes)
    (hopen : cst.closed = false) (hidle : rst.cont.initialized = false) (hs : InSync w cst.cps rst.dps) (hkeys : ∀ i, (keys i).length = 4) (hpd : w.pdEnabled = true)
    (hop : isData op) (heof : (Writer.readChunks reads).2 = true)
    (hfit : ((Writer.readChunks reads).1.flatten.length : Int) ≤ r.readMax)
    (htr : textOk r.checkUtf8 op (Writer.readChunks reads).1.flatten)
    (hcut : outs.flatten = codec.compress w.bits cst.cps.dict (Writer.readChunks reads).1)
    (hmax : outs.flatten.length ≤ w.writeMax)
    (hzfit : ((Writer.stripTail outs.flatten).length : Int) ≤ r.readMax) :
    Delivered w r codec rst (Writer.writeFile w codec cst op reads outs keys)
      (.msg op (Writer.readChunks reads).1.flatten) := by
  have hop16 : op < 16 := by have := isData_le hop; omega
  obtain ⟨hsync, hwin⟩ := hs hpd
  have hne : outs ≠ [] := by
    intro h
    have := hMin w.bits cst.cps.dict (Writer.readChunks reads).1
    rw [← hcut, h] at this
    simp at this
  obtain ⟨_, hc2, _⟩ := Writer.compressFile_eq _ _ w.writeMax (Writer.fileCb_ok w codec op keys hop16 hkeys) outs hne hmax
  rw [Writer.writeFile_compressed_eq w codec cst op reads outs keys hop16 hkeys hopen hpd heof hne hmax]
  generalize hscript : (Writer.plan {} outs).2.map (·, false) ++
    [(Writer.stripTail (Writer.held (Writer.plan {} outs).1), true)] = script
  have hrc : Writer.readChunks script =
      ((Writer.plan {} outs).2 ++ [Writer.stripTail (Writer.held (Writer.plan {} outs).1)], true) := by
    rw [← hscript, Writer.readChunks_append]; simp [Writer.readChunks]
  have htot : (Writer.readChunks script).1.flatten = Writer.stripTail outs.flatten := by rw [hrc]; exact hc2
  obtain ⟨c', hc', hrun⟩ := runs_fileFrames w r codec op keys hc.role hc.ext hc.int hkeys hop script rst
    (rst.dps.write (Writer.readChunks reads).1.flatten) (.msg op (Writer.readChunks reads).1.flatten)
    (by rw [hrc]) hidle (by rw [htot]; exact hzfit) (fun c => by
      rw [hpd, htot]
      exact emitMessage_inflated r codec { rst with cont := c } op _ (Writer.readChunks reads).1.flatten
        (by
          show codec.decompress r.readMax rst.dps.dict (Writer.stripTail outs.flatten) = _
          rw [← hsync, hcut]
          exact hRT w.bits cst.cps.dict _ r.readMax hfit)
        (checkEncoding_of_textOk hop htr))
  refine ⟨rfl, hopen, { cont := c', dps := rst.dps.write (Writer.readChunks reads).1.flatten }, hc',
    fun _ => ⟨?_, ?_⟩, hrun⟩
  · show (Writer.readChunks reads).1.foldl Win.write cst.cps = rst.dps.write (Writer.readChunks reads).1.flatten
    rw [foldl_write_eq _ _ hwin, hsync]
  · show WinOk ((Writer.readChunks reads).1.foldl Win.write cst.cps)
    rw [foldl_write_eq _ _ hwin]
    exact winOk_write _ _ hwin

/-! ## Broadcast -/

theorem bcast_plain_delivered (w : Writer.Cfg) (r : Reader.Cfg) (codec : Codec) (hc : Compatible w r)
    (cst : Writer.Conn) (rst : Reader.State) (op : Nat) (p : Bytes) (bcfg : Writer.Cfg) (bcps : Win) (bkey closeKey : Bytes)
    (hopen : cst.closed = false) (hidle : rst.cont.initialized = false) (hs : InSync w cst.cps rst.dps)
    (hop : isData op) (hsrv : bcfg.isServer = w.isServer) (hbk : bkey.length = 4)
    (hmax : p.length ≤ bcfg.writeMax) (hfit : (p.length : Int) ≤ r.readMax)
    (htw : textOk bcfg.checkUtf8 op p) (htr : textOk r.checkUtf8 op p)
    (hz : Writer.willCompress bcfg (Writer.bcCfg bcfg) op p.length = false) :
    Delivered w r codec rst
      (Writer.broadcast w codec cst (Writer.broadcastFrame bcfg codec bcps op p bkey) p closeKey) (.msg op p) := by
  have hfl : [p].flatten = p := by simp
  have hg := Writer.genFrame_plain bcfg codec bcps op [p] (Writer.bcCfg bcfg) bkey hbk
    (buffersCheck_of_textOk hop (by rw [hfl]; exact htw)) (by rw [hfl]; exact hmax) (by rw [hfl]; exact hz)
  unfold Writer.broadcastFrame
  rw [hg]
  simp only
  rw [hz, broadcast_eq w codec cst _ p closeKey false hopen, hfl, hsrv]
  refine ⟨rfl, hopen, rst, hidle, hs, fun rest => ?_⟩
  exact Runs.one (step_msg_plain r codec rst w.isServer op p bkey rest hc.role hc.int hop hbk hfit htr hidle)

theorem bcast_compressed_delivered (w : Writer.Cfg) (r : Reader.Cfg) (codec : Codec) (hc : Compatible w r)
    (hDF : DictFree codec) (hMin : MinOut codec)
    (cst : Writer.Conn) (rst : Reader.State) (op : Nat) (p : Bytes) (bcfg : Writer.Cfg) (bcps : Win) (bkey closeKey : Bytes)
    (hopen : cst.closed = false) (hidle : rst.cont.initialized = false) (hs : InSync w cst.cps rst.dps)
    (hop : isData op) (hsrv : bcfg.isServer = w.isServer) (hbpd : bcfg.pdEnabled = w.pdEnabled) (hbk : bkey.length = 4)
    (hmax : p.length ≤ bcfg.writeMax) (hfit : (p.length : Int) ≤ r.readMax)
    (htw : textOk bcfg.checkUtf8 op p) (htr : textOk r.checkUtf8 op p)
    (hz : Writer.willCompress bcfg (Writer.bcCfg bcfg) op p.length = true)
    (hzfit : ((Writer.stripTail (codec.compress bcfg.bits [] [p])).length : Int) ≤ r.readMax) :
    Delivered w r codec rst
      (Writer.broadcast w codec cst (Writer.broadcastFrame bcfg codec bcps op p bkey) p closeKey) (.msg op p) := by
  have hfl : [p].flatten = p := by simp
  have hpd : w.pdEnabled = true := by rw [← hbpd]; exact willCompress_pd hz
  obtain ⟨hsync, hwin⟩ := hs hpd
  have hint := hc.int
  have hge := stripTail_length_ge (codec.compress bcfg.bits [] [p])
  have hg := Writer.genFrame_compressed bcfg codec bcps op [p] (Writer.bcCfg bcfg) bkey hbk
    (buffersCheck_of_textOk hop (by rw [hfl]; exact htw)) (by rw [hfl]; exact hmax) (by rw [hfl]; exact hz)
    (hMin _ _ _) (by simp only [Writer.bcCfg, ↓reduceIte]; omega)
  simp only [Writer.bcCfg, ↓reduceIte] at hg
  unfold Writer.broadcastFrame
  simp only [Writer.bcCfg] at hz ⊢
  rw [hg]
  simp only
  rw [hz, broadcast_eq w codec cst _ p closeKey true hopen, hsrv]
  simp only [↓reduceIte]
  refine ⟨rfl, hopen, { rst with dps := rst.dps.write p }, hidle,
    fun _ => ⟨by simp [hsync], winOk_write _ _ hwin⟩, fun rest => ?_⟩
  refine Runs.one (step_msg_compressed r codec rst w.isServer op _ p bkey rest hc.role hc.int
    (by rw [hc.ext, hpd]) hop hbk hzfit ?_ htr hidle)
  have := hDF bcfg.bits rst.dps.dict [p] r.readMax (by rw [hfl]; exact hfit)
  rwa [hfl] at this

/-! ## any call -/

def Send.isBcast : Send → Bool
  | .bcast .. => true
  | _ => false

/-- **one admissible call, whatever its kind and whether or not it is compressed**, made on an open
connection whose window equals the idle receiver's: it succeeds, keeps the connection open and the
windows equal, and its bytes are read as exactly one event — the one the application asked for. -/
theorem call_delivered (w : Writer.Cfg) (r : Reader.Cfg) (codec : Codec) (hc : Compatible w r)
    (hRT : w.pdEnabled = true → RoundTrip codec) (hMin : w.pdEnabled = true → MinOut codec)
    (c : Call) (hDF : w.pdEnabled = true → c.send.isBcast = true → DictFree codec)
    (cst : Writer.Conn) (rst : Reader.State)
    (hopen : cst.closed = false) (hidle : rst.cont.initialized = false) (hs : InSync w cst.cps rst.dps) (hkeys : ∀ i, (c.keys i).length = 4) (hok : c.send.Ok w r codec cst.cps) :
    Delivered w r codec rst (c.run w codec cst) c.send.event := by
  obtain ⟨send, keys⟩ := c
  cases send with
  | msg op p =>
    obtain ⟨hop, hmax, hfit, htw, htr, hzf⟩ := hok
    cases hz : Writer.willCompress w (Writer.msgCfg w) op p.flatten.length
    · exact msg_plain_delivered w r codec hc cst rst op p keys hopen hidle hs (hkeys 0) hop hmax hfit htw htr hz
    · have hpd : w.pdEnabled = true := willCompress_pd hz
      exact msg_compressed_delivered w r codec hc (hRT hpd) (hMin hpd) cst rst op p keys hopen hidle hs
        (hkeys 0) hop hmax hfit htw htr hz (hzf hz)
  | ping p =>
    obtain ⟨h125, hmax, hfit⟩ := hok
    have := control_delivered w r codec hc cst rst Facts.opPing p keys hopen hidle hs (hkeys 0)
      (Or.inl rfl) h125 hmax hfit
    simpa [Call.run, Send.event] using this
  | pong p =>
    obtain ⟨h125, hmax, hfit⟩ := hok
    have := control_delivered w r codec hc cst rst Facts.opPong p keys hopen hidle hs (hkeys 0)
      (Or.inr rfl) h125 hmax hfit
    simpa [Call.run, Send.event, Facts.opPing, Facts.opPong] using this
  | file op reads outs =>
    obtain ⟨hop, heof, hfit, htr, hrest⟩ := hok
    cases hpd : w.pdEnabled
    · simp only [hpd, Bool.false_eq_true, ↓reduceIte] at hrest
      exact file_plain_delivered w r codec hc cst rst op reads outs keys hopen hidle hs hkeys hpd hop heof
        hrest hfit htr
    · simp only [hpd, ↓reduceIte] at hrest
      exact file_compressed_delivered w r codec hc (hRT hpd) (hMin hpd) cst rst op reads outs keys hopen hidle hs hkeys hpd hop heof hfit htr hrest.1 hrest.2.1 hrest.2.2
  | bcast op p bcfg bcps bkey =>
    obtain ⟨hop, hsrv, hbpd, hbk, hmax, hfit, htw, htr, hzf⟩ := hok
    cases hz : Writer.willCompress bcfg (Writer.bcCfg bcfg) op p.length
    · exact bcast_plain_delivered w r codec hc cst rst op p bcfg bcps bkey (keys 0) hopen hidle hs hop hsrv
        hbk hmax hfit htw htr hz
    · have hpd : w.pdEnabled = true := by rw [← hbpd]; exact willCompress_pd hz
      exact bcast_compressed_delivered w r codec hc (hDF hpd rfl) (hMin hpd) cst rst op p bcfg bcps bkey (keys 0) hopen hidle hs hop hsrv hbpd hbk hmax hfit htw htr hz (hzf hz)

end Compose
