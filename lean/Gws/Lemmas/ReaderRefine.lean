import Gws.Lemmas.ReaderHdr
import Gws.Lemmas.Pool
import Gws.Lemmas.Close
import Gws.Props.C17
/-! # One `readMessage` refines one step of the RFC receiver spec -/

namespace Reader

/-- the relation between the model's reader state and the spec's receiver state -/
structure Rel (cfg : Cfg) (st : State) (sst : Spec.RxState) : Prop where
  cont : (st.cont.initialized = false ∧ sst.inMsg = none) ∨
    (st.cont.initialized = true ∧
      sst.inMsg = some { opcode := st.cont.opcode, compressed := st.cont.compressed, acc := st.cont.buffer } ∧
      (st.cont.opcode = 1 ∨ st.cont.opcode = 2) ∧ (st.cont.buffer.length : Int) ≤ cfg.readMax)
  dictOn : st.dps.enabled = true → st.dps.dict = lastN st.dps.size sst.hist ∧ st.dps.dict.length ≤ st.dps.size
  dictOff : st.dps.enabled = false → st.dps.dict = []

/-- outcome of one step: both continue (same events, same unread input, related states, same
window parameters) or both stop with an ending the spec allows -/
def StepRel (cfg : Cfg) (w : Win) : Spec.Step → Step → Prop
  | .ok s' sevs srest, .ok st' evs rest =>
    evs.map Ev.toSpec = sevs ∧ rest = srest ∧ Rel cfg st' s' ∧
      st'.dps.enabled = w.enabled ∧ st'.dps.size = w.size
  | .stop se, .stop evs e => evs = [] ∧ endOk se e = true
  | _, _ => False

theorem StepRel.stop_iff {cfg : Cfg} {w : Win} {se : Spec.Ending} {evs : List Ev} {e : End} :
    StepRel cfg w (.stop se) (.stop evs e) ↔ (evs = [] ∧ endOk se e = true) := Iff.rfl

theorem StepRel.ok_iff {cfg : Cfg} {w : Win} {st' : State} {s' : Spec.RxState} {sevs : List Spec.Ev} {evs : List Ev}
    {srest rest : Bytes} :
    StepRel cfg w (.ok s' sevs srest) (.ok st' evs rest) ↔
      (evs.map Ev.toSpec = sevs ∧ rest = srest ∧ Rel cfg st' s' ∧
        st'.dps.enabled = w.enabled ∧ st'.dps.size = w.size) := Iff.rfl

/-! ## the spec's `step`, cut into the pieces the model's functions correspond to -/

/-- data-frame part of `Spec.step` (fragmentation rules) -/
def specData (ctx : Spec.Ctx) (codec : Codec) (s : Spec.RxState) (h : Spec.Hdr) (payload rest' : Bytes) : Spec.Step :=
  match s.inMsg with
  | none =>
    if h.opcode = 0 then .stop (.fail [1002] false)
    else if h.fin then Spec.finish ctx codec s h.opcode (ctx.ext && h.rsv1) payload rest'
    else if (payload.length : Int) > ctx.limit then .stop (.fail [1009] false)
    else .ok { s with inMsg := some { opcode := h.opcode, compressed := ctx.ext && h.rsv1, acc := payload } } [] rest'
  | some m =>
    if h.opcode ≠ 0 then .stop (.fail [1002] false)
    else
      let acc := m.acc ++ payload
      if (acc.length : Int) > ctx.limit then .stop (.fail [1009] false)
      else if h.fin then Spec.finish ctx codec s m.opcode m.compressed acc rest'
      else .ok { s with inMsg := some { m with acc := acc } } [] rest'

/-- `Spec.step` after the header has been decoded -/
def specBody (ctx : Spec.Ctx) (codec : Codec) (s : Spec.RxState) (h : Spec.Hdr) (rest : Bytes) : Spec.Step :=
  let v := Spec.hdrViolations ctx h
  if v ≠ [] then .stop (.fail v (decide (rest.length < h.len)))
  else if rest.length < h.len then .stop .eof
  else
    let payload := if h.masked then Spec.unmask h.key (rest.take h.len) else rest.take h.len
    let rest' := rest.drop h.len
    if h.opcode = 9 then .ok s [.ping payload] rest'
    else if h.opcode = 10 then .ok s [.pong payload] rest'
    else if h.opcode = 8 then
      let (code, reason) := Spec.closeSeen payload
      .stop (.peerClose code reason (Spec.closeReplies ctx.utf8 payload))
    else specData ctx codec s h payload rest'

theorem spec_step_eq (ctx : Spec.Ctx) (codec : Codec) (s : Spec.RxState) (b : Bytes) :
    Spec.step ctx codec s b =
      match Spec.decodeHdr b with
      | none => .stop .eof
      | some (h, rest) => specBody ctx codec s h rest := rfl

/-! ## `emitMessage` against `Spec.finish` -/

theorem checkEncoding_data (u : Bool) (opcode : Nat) (d : Bytes) (hop : opcode = 1 ∨ opcode = 2) :
    (!Utf8.checkEncoding u opcode d) = true ↔ (opcode = 1 ∧ u = true ∧ ¬ Spec.Utf8.valid d = true) := by
  unfold Utf8.checkEncoding
  rcases hop with rfl | rfl <;> cases u <;> simp

theorem dictOf_eq (cfg : Cfg) (st : State) (s : Spec.RxState)
    (hon : st.dps.enabled = true → st.dps.dict = lastN st.dps.size s.hist ∧ st.dps.dict.length ≤ st.dps.size)
    (hoff : st.dps.enabled = false → st.dps.dict = []) :
    Spec.dictOf (specCtx cfg st) s.hist = st.dps.dict := by
  unfold Spec.dictOf specCtx
  cases he : st.dps.enabled
  · simp [hoff he]
  · simp [(hon he).1]

theorem emitMessage_refines (cfg : Cfg) (codec : Codec) (st : State) (s : Spec.RxState) (opcode : Nat)
    (data : Bytes) (compressed : Bool) (rest : Bytes)
    (hon : st.dps.enabled = true → st.dps.dict = lastN st.dps.size s.hist ∧ st.dps.dict.length ≤ st.dps.size)
    (hoff : st.dps.enabled = false → st.dps.dict = [])
    (hinit : st.cont.initialized = false)
    (hop : opcode = 1 ∨ opcode = 2) :
    (∀ st' ev, emitMessage cfg codec st opcode data compressed = .inl (st', ev) →
      StepRel cfg st.dps (Spec.finish (specCtx cfg st) codec s opcode compressed data rest) (.ok st' ev.toList rest)) ∧
    (∀ e, emitMessage cfg codec st opcode data compressed = .inr e →
      StepRel cfg st.dps (Spec.finish (specCtx cfg st) codec s opcode compressed data rest) (.stop [] e)) := by
  unfold emitMessage Spec.finish
  rw [dictOf_eq cfg st s hon hoff]
  have hlim : (specCtx cfg st).limit = cfg.readMax := rfl
  have hutf : (specCtx cfg st).utf8 = cfg.checkUtf8 := rfl
  have hkeep : (specCtx cfg st).keepCtx = st.dps.enabled := rfl
  rw [hlim, hutf, hkeep]
  cases compressed
  · simp only [Bool.false_eq_true, if_false]
    by_cases hv : (opcode = 1 ∧ cfg.checkUtf8 = true ∧ ¬ Spec.Utf8.valid data = true)
    · rw [if_pos ((checkEncoding_data _ _ _ hop).mpr hv), if_pos hv]
      refine ⟨fun _ _ h => by simp at h, fun e h => ?_⟩
      simp only [Sum.inr.injEq] at h
      subst h
      exact ⟨rfl, by decide⟩
    · rw [if_neg (fun h => hv ((checkEncoding_data _ _ _ hop).mp h)), if_neg hv]
      refine ⟨fun st' ev h => ?_, fun _ h => by simp at h⟩
      simp only [Sum.inl.injEq, Prod.mk.injEq] at h
      obtain ⟨rfl, rfl⟩ := h
      refine ⟨rfl, rfl, ⟨Or.inl ⟨hinit, rfl⟩, hon, hoff⟩, rfl, rfl⟩
  · simp only [if_true]
    cases hd : codec.decompress cfg.readMax st.dps.dict data with
    | ok out =>
      simp only
      by_cases hv : (opcode = 1 ∧ cfg.checkUtf8 = true ∧ ¬ Spec.Utf8.valid out = true)
      · rw [if_pos ((checkEncoding_data _ _ _ hop).mpr hv), if_pos hv]
        refine ⟨fun _ _ h => by simp at h, fun e h => ?_⟩
        simp only [Sum.inr.injEq] at h
        subst h
        exact ⟨rfl, by decide⟩
      · rw [if_neg (fun h => hv ((checkEncoding_data _ _ _ hop).mp h)), if_neg hv]
        refine ⟨fun st' ev h => ?_, fun _ h => by simp at h⟩
        simp only [Sum.inl.injEq, Prod.mk.injEq] at h
        obtain ⟨rfl, rfl⟩ := h
        have hf := Win.write_frame st.dps out
        refine ⟨rfl, rfl, ⟨Or.inl ⟨hinit, rfl⟩, ?_, ?_⟩, hf.1, hf.2⟩
        · intro he
          simp only at he ⊢
          rw [hf.1] at he
          obtain ⟨h1, h2⟩ := hon he
          refine ⟨?_, Win.write_length_le _ _ he h2⟩
          rw [Win.write_spec _ _ he h2, hf.2, h1, lastN_lastN_append, he]
          simp
        · intro he
          simp only at he ⊢
          rw [hf.1] at he
          have : st.dps.write out = st.dps := by unfold Win.write; simp [he]
          rw [this]; exact hoff he
    | libError =>
      simp only
      refine ⟨fun _ _ h => by simp at h, fun e h => ?_⟩
      simp only [Sum.inr.injEq] at h
      subst h
      exact ⟨rfl, by decide⟩
    | tooLarge =>
      simp only
      refine ⟨fun _ _ h => by simp at h, fun e h => ?_⟩
      simp only [Sum.inr.injEq] at h
      subst h
      exact ⟨rfl, by decide⟩

/-! ## `afterPayload` against the fragmentation rules -/

theorem afterPayload_refines (cfg : Cfg) (codec : Codec) (st : State) (s : Spec.RxState) (h : Frame.Hdr)
    (sh : Spec.Hdr) (p rest : Bytes) (hrel : Rel cfg st s) (hh : HdrRel h sh)
    (hop : Frame.getOpcode h.b0 ≤ 2) :
    StepRel cfg st.dps (specData (specCtx cfg st) codec s sh p rest) (afterPayload cfg codec st h p rest) := by
  unfold afterPayload specData
  rw [hh.opcode, hh.fin, hh.rsv1]
  have hext : (specCtx cfg st).ext = cfg.pdEnabled := rfl
  have hlim : (specCtx cfg st).limit = cfg.readMax := rfl
  rw [hext, hlim]
  generalize Frame.getOpcode h.b0 = op at hop
  generalize Frame.getFIN h.b0 = fin
  generalize Frame.getRSV1 h.b0 = rsv1
  have hF : Facts.opContinuation = 0 := rfl
  simp only [hF]
  rcases hrel.cont with ⟨hi, hm⟩ | ⟨hi, hm, hcop, hbuf⟩
  · simp only [hi, hm]
    by_cases h0 : op = 0
    · subst h0
      simp only [hi, ne_eq, not_true_eq_false, and_false, if_false, if_true, Bool.false_eq_true, not_false_eq_true]
      exact ⟨rfl, by decide⟩
    · have hop' : op = 1 ∨ op = 2 := by omega
      have em := emitMessage_refines cfg codec st s op p (cfg.pdEnabled && rsv1) rest hrel.dictOn hrel.dictOff hi hop'
      cases fin
      · simp only [h0, ne_eq, not_false_eq_true, and_true, and_false, Bool.false_eq_true, if_false, if_true, List.nil_append, gt_iff_lt]
        split
        · exact ⟨rfl, by decide⟩
        · rename_i hle
          refine ⟨rfl, rfl, ⟨Or.inr ⟨rfl, rfl, hop', by simpa using hle⟩, hrel.dictOn, hrel.dictOff⟩, rfl, rfl⟩
      · simp only [h0, ne_eq, not_false_eq_true, and_true, and_false, Bool.false_eq_true, if_false, if_true]
        split
        · rename_i st' ev heq; exact em.1 st' ev heq
        · rename_i e heq; exact em.2 e heq
  · simp only [hi, hm]
    by_cases h0 : op = 0
    · subst h0
      have em := emitMessage_refines cfg codec { dps := st.dps } s st.cont.opcode (st.cont.buffer ++ p) st.cont.compressed rest hrel.dictOn hrel.dictOff rfl hcop
      simp only [ne_eq, not_true_eq_false, false_and, and_false, if_false, gt_iff_lt]
      split
      · exact ⟨rfl, by decide⟩
      · rename_i hle
        cases fin
        · simp only [Bool.false_eq_true, if_false, not_false_eq_true, if_true]
          refine ⟨rfl, rfl, ⟨Or.inr ⟨hi, rfl, hcop, by simpa using hle⟩, hrel.dictOn, hrel.dictOff⟩, rfl, rfl⟩
        · simp only [if_true, not_true_eq_false, if_false]
          split
          · rename_i st' ev heq; exact em.1 st' ev heq
          · rename_i e heq; exact em.2 e heq
    · simp only [h0, ne_eq, not_false_eq_true, and_true, if_true, and_self]
      exact ⟨rfl, by decide⟩
/-! ## the header checks against the spec's violation set -/

/-- what remains of the spec's violation set once the model's `headerCheck` has passed: the rules
the model only applies later, in `readControl` -/
def hdrV (op lenForm : Nat) (fin : Bool) : List Nat :=
  (if ¬ Spec.knownOpcode op then [1002] else []) ++
  (if Spec.isControl op ∧ (¬ fin ∨ lenForm ≠ 7) then [1002] else [])

theorem hdrV_bad (op lenForm : Nat) (fin : Bool) (hop : op > 2)
    (h : fin = false ∨ lenForm ≠ 7 ∨ (op ≠ 8 ∧ op ≠ 9 ∧ op ≠ 10)) : 1002 ∈ hdrV op lenForm fin := by
  unfold hdrV Spec.knownOpcode Spec.isControl
  simp only [List.mem_append]
  by_cases h8 : op ≥ 8
  · rcases h with h | h | h
    · right; rw [if_pos ⟨by simpa using h8, Or.inl (by simp [h])⟩]; simp
    · right; rw [if_pos ⟨by simpa using h8, Or.inr h⟩]; simp
    · left
      have : ¬ (decide (op = 0 ∨ op = 1 ∨ op = 2 ∨ op = 8 ∨ op = 9 ∨ op = 10) = true) := by
        simp only [decide_eq_true_eq]; omega
      rw [if_pos this]; simp
  · left
    have : ¬ (decide (op = 0 ∨ op = 1 ∨ op = 2 ∨ op = 8 ∨ op = 9 ∨ op = 10) = true) := by
      simp only [decide_eq_true_eq]; omega
    rw [if_pos this]; simp

theorem hdrV_good (op lenForm : Nat) (fin : Bool)
    (h : op ≤ 2 ∨ (fin = true ∧ lenForm = 7 ∧ (op = 8 ∨ op = 9 ∨ op = 10))) : hdrV op lenForm fin = [] := by
  unfold hdrV Spec.knownOpcode Spec.isControl
  have h1 : ¬ ¬ (decide (op = 0 ∨ op = 1 ∨ op = 2 ∨ op = 8 ∨ op = 9 ∨ op = 10) = true) := by
    simp only [decide_eq_true_eq]; omega
  have h2 : ¬ (decide (op ≥ 8) = true ∧ (¬ fin = true ∨ lenForm ≠ 7)) := by
    simp only [decide_eq_true_eq]
    rcases h with h | ⟨hf, hl, _⟩
    · omega
    · simp [hf, hl]
  rw [if_neg h1, if_neg h2]; rfl

theorem hdrV_mem (op lenForm : Nat) (fin : Bool) (x : Nat) (h : x ∈ hdrV op lenForm fin) : x = 1002 := by
  unfold hdrV at h
  simp only [List.mem_append] at h
  rcases h with h | h <;> split at h <;> simp at h <;> exact h

theorem endOk_fail_status (V : List Nat) (io : Bool) (c : Nat) (h : c ∈ V) :
    endOk (.fail V io) (.err (.status c)) = true := by
  simp [endOk, Close.ReadErr.sendCode, h]

theorem endOk_fail_coded (V : List Nat) (io : Bool) (c : Nat) (h : c ∈ V) :
    endOk (.fail V io) (.err (.coded c)) = true := by
  simp [endOk, Close.ReadErr.sendCode, h]

theorem endOk_fail_io (V : List Nat) : endOk (.fail V true) (.err .other) = true := by
  simp [endOk]

theorem endOk_eof : endOk .eof (.err .other) = true := by
  simp [endOk]

theorem toGoInt_neg_iff (v : Nat) (hv : v < 2 ^ 64) : Frame.toGoInt v < 0 ↔ v ≥ 2 ^ 63 := by
  unfold Frame.toGoInt
  split <;> omega

theorem toGoInt_of_lt (v : Nat) (hv : v < 2 ^ 63) : Frame.toGoInt v = v := by
  unfold Frame.toGoInt
  split <;> omega

theorem headerCheck_some {cfg : Cfg} (st : State) {h : Frame.Hdr} {sh : Spec.Hdr} {e : End} (hh : HdrRel h sh)
    (hc : headerCheck cfg h = some e) :
    ∃ c, e = .err (.status c) ∧ c ∈ Spec.hdrViolations (specCtx cfg st) sh := by
  unfold headerCheck at hc
  have hlim : (specCtx cfg st).limit = cfg.readMax := rfl
  have hext : (specCtx cfg st).ext = cfg.pdEnabled := rfl
  have hsrv : (specCtx cfg st).isServer = cfg.isServer := rfl
  unfold Spec.hdrViolations
  simp only [List.mem_append, hlim, hext, hsrv]
  split at hc
  · rename_i hl
    simp only [Option.some.injEq] at hc
    subst hc
    refine ⟨1009, rfl, ?_⟩
    have hlen := hh.len
    by_cases h64 : sh.lenForm = 64
    · rw [if_pos h64] at hlen
      by_cases hbig : sh.len ≥ 2 ^ 63
      · left; right; rw [if_pos ⟨h64, hbig⟩]; simp
      · right
        rw [toGoInt_of_lt _ (by omega)] at hlen
        rw [if_pos (by omega)]; simp
    · rw [if_neg h64] at hlen
      right
      rw [if_pos (by omega)]; simp
  · simp only at hc
    split at hc
    · rename_i hr
      simp only [Option.some.injEq] at hc
      subst hc
      refine ⟨1002, rfl, ?_⟩
      left; left; left; left; right
      rw [hh.rsv1, hh.rsv2, hh.rsv3, hh.opcode]
      have h1 : Facts.opText = 1 := rfl
      have h2 : Facts.opBinary = 2 := rfl
      rw [h1, h2] at hr
      rw [if_pos hr]; simp
    · split at hc
      · rename_i hm
        simp only [Option.some.injEq] at hc
        subst hc
        refine ⟨1002, rfl, ?_⟩
        left; left; left; left; left
        rw [hh.masked]
        have : cfg.isServer ≠ Frame.getMask h.b1 := by
          cases hs : cfg.isServer <;> cases hk : Frame.getMask h.b1 <;> simp_all
        rw [if_pos this]; simp
      · simp at hc

theorem headerCheck_none {cfg : Cfg} (st : State) {h : Frame.Hdr} {sh : Spec.Hdr} (hh : HdrRel h sh)
    (hc : headerCheck cfg h = none) :
    0 ≤ h.len ∧ h.len ≤ cfg.readMax ∧ h.len = (sh.len : Int) ∧
    Spec.hdrViolations (specCtx cfg st) sh =
      hdrV sh.opcode sh.lenForm sh.fin := by
  unfold headerCheck at hc
  have hlim : (specCtx cfg st).limit = cfg.readMax := rfl
  have hext : (specCtx cfg st).ext = cfg.pdEnabled := rfl
  have hsrv : (specCtx cfg st).isServer = cfg.isServer := rfl
  split at hc
  · simp at hc
  · rename_i hl
    simp only at hc
    split at hc
    · simp at hc
    · rename_i hr
      split at hc
      · simp at hc
      · rename_i hm
        have hlen := hh.len
        have hlt := hh.len_lt
        have hlen' : h.len = (sh.len : Int) ∧ ¬ (sh.lenForm = 64 ∧ sh.len ≥ 2 ^ 63) := by
          by_cases h64 : sh.lenForm = 64
          · rw [if_pos h64] at hlen
            by_cases hbig : sh.len ≥ 2 ^ 63
            · have := (toGoInt_neg_iff _ hlt).mpr hbig
              omega
            · rw [toGoInt_of_lt _ (by omega)] at hlen
              exact ⟨hlen, fun h => hbig h.2⟩
          · rw [if_neg h64] at hlen
            exact ⟨hlen, fun h => h64 h.1⟩
        obtain ⟨hle1, hle2⟩ := hlen'
        refine ⟨by omega, by omega, hle1, ?_⟩
        unfold Spec.hdrViolations
        rw [hlim, hext, hsrv, hh.rsv1, hh.rsv2, hh.rsv3, hh.opcode, hh.masked]
        have h1 : Facts.opText = 1 := rfl
        have h2 : Facts.opBinary = 2 := rfl
        rw [h1, h2] at hr
        have hm' : ¬ (cfg.isServer ≠ Frame.getMask h.b1) := by
          cases hs : cfg.isServer <;> cases hk : Frame.getMask h.b1 <;> simp_all
        have hnot : ¬ ((sh.len : Int) > cfg.readMax) := by omega
        rw [if_neg hm', if_neg hr, if_neg hle2, if_neg hnot]
        simp [hdrV]

/-! ## control frames, data frames, the whole step -/

theorem payload_eq (h : Frame.Hdr) (sh : Spec.Hdr) (hh : HdrRel h sh) (raw : Bytes) :
    (if Frame.getMask h.b1 = true then unmask h.key raw else raw) =
    (if sh.masked = true then Spec.unmask sh.key raw else raw) := by
  rw [hh.masked, hh.key]
  split
  · rename_i hm
    exact unmask_eq _ _ (by rw [← hh.key]; exact hh.keyLen (by rw [hh.masked]; exact hm))
  · rfl

theorem readControl_refines (cfg : Cfg) (codec : Codec) (st : State) (s : Spec.RxState) (h : Frame.Hdr)
    (sh : Spec.Hdr) (rest : Bytes) (hrel : Rel cfg st s) (hh : HdrRel h sh)
    (hop : Frame.getOpcode h.b0 > 2)
    (hv : Spec.hdrViolations (specCtx cfg st) sh = hdrV sh.opcode sh.lenForm sh.fin) :
    StepRel cfg st.dps (specBody (specCtx cfg st) codec s sh rest) (readControl cfg st h rest) := by
  unfold readControl specBody
  simp only
  rw [hv]
  have hopc := hh.opcode
  have hfin := hh.fin
  have hform := hh.form
  have hT : Facts.thresholdV1 = 125 := rfl
  have h9 : Facts.opPing = 9 := rfl
  have h10 : Facts.opPong = 10 := rfl
  have h8 : Facts.opClose = 8 := rfl
  have hutf : (specCtx cfg st).utf8 = cfg.checkUtf8 := rfl
  rw [hT, h9, h10, h8, hutf]
  cases hf : Frame.getFIN h.b0
  · have hm : 1002 ∈ hdrV sh.opcode sh.lenForm sh.fin :=
      hdrV_bad _ _ _ (by omega) (Or.inl (by rw [hfin]; exact hf))
    rw [if_pos (List.ne_nil_of_mem hm)]
    simp only [Bool.not_false, if_true]
    exact ⟨rfl, endOk_fail_status _ _ _ hm⟩
  · simp only [Bool.not_true, Bool.false_eq_true, if_false]
    by_cases hn : Frame.getLengthCode h.b1 > 125
    · have hm : 1002 ∈ hdrV sh.opcode sh.lenForm sh.fin :=
        hdrV_bad _ _ _ (by omega) (Or.inr (Or.inl (by omega)))
      rw [if_pos (List.ne_nil_of_mem hm), if_pos hn]
      exact ⟨rfl, endOk_fail_status _ _ _ hm⟩
    · rw [if_neg hn]
      have h7 : sh.lenForm = 7 ∧ Frame.getLengthCode h.b1 = sh.len := by omega
      obtain ⟨h7, hlen⟩ := h7
      rw [hlen]
      have hpay : (if sh.len > 0 ∧ Frame.getMask h.b1 = true then unmask h.key (List.take sh.len rest) else List.take sh.len rest) =
          (if sh.masked = true then Spec.unmask sh.key (rest.take sh.len) else rest.take sh.len) := by
        rw [← payload_eq h sh hh]
        by_cases h0 : sh.len > 0
        · simp [h0]
        · have : sh.len = 0 := by omega
          simp [this, unmask_nil]
      rw [hpay]
      generalize (if sh.masked = true then Spec.unmask sh.key (rest.take sh.len) else rest.take sh.len) = payload
      by_cases hgood : sh.opcode = 8 ∨ sh.opcode = 9 ∨ sh.opcode = 10
      · rw [hdrV_good _ _ _ (Or.inr ⟨by rw [hfin]; exact hf, h7, hgood⟩)]
        simp only [ne_eq, not_true_eq_false, if_false]
        by_cases hshort : rest.length < sh.len
        · rw [if_pos hshort, if_pos hshort]
          exact ⟨rfl, endOk_eof⟩
        · rw [if_neg hshort, if_neg hshort, ← hopc]
          rcases hgood with hg | hg | hg
          · simp only [hg, Nat.reduceEqDiff, if_false, if_true]
            refine ⟨rfl, ?_⟩
            have := Close.emitClose_spec cfg.checkUtf8 payload
            simp only [endOk, Bool.and_eq_true, decide_eq_true_eq]
            rw [← this.2]
            exact ⟨⟨rfl, rfl⟩, this.1⟩
          · simp only [hg, if_true]
            exact ⟨rfl, rfl, hrel, rfl, rfl⟩
          · simp only [hg, Nat.reduceEqDiff, if_false, if_true]
            exact ⟨rfl, rfl, hrel, rfl, rfl⟩
      · have hm : 1002 ∈ hdrV sh.opcode sh.lenForm sh.fin :=
          hdrV_bad _ _ _ (by omega) (Or.inr (Or.inr (by omega)))
        rw [if_pos (List.ne_nil_of_mem hm)]
        by_cases hshort : rest.length < sh.len
        · rw [if_pos hshort]
          simp only [hshort, decide_true]
          exact ⟨rfl, endOk_fail_io _⟩
        · rw [if_neg hshort, ← hopc]
          have n9 : sh.opcode ≠ 9 := by omega
          have n10 : sh.opcode ≠ 10 := by omega
          have n8 : sh.opcode ≠ 8 := by omega
          simp only [n9, n10, n8, if_false]
          exact ⟨rfl, endOk_fail_coded _ _ _ hm⟩

theorem dataFrame_refines (cfg : Cfg) (codec : Codec) (st : State) (s : Spec.RxState) (h : Frame.Hdr)
    (sh : Spec.Hdr) (rest : Bytes) (hrel : Rel cfg st s) (hh : HdrRel h sh)
    (hop : ¬ Frame.getOpcode h.b0 > 2) (hlen : h.len = (sh.len : Int))
    (hv : Spec.hdrViolations (specCtx cfg st) sh = hdrV sh.opcode sh.lenForm sh.fin) :
    StepRel cfg st.dps (specBody (specCtx cfg st) codec s sh rest) (dataFrame cfg codec st h rest) := by
  unfold dataFrame specBody
  simp only
  have hopc := hh.opcode
  rw [hv, hdrV_good _ _ _ (Or.inl (by omega))]
  have hn : h.len.toNat = sh.len := by omega
  rw [hn]
  have hcap := Pool.cap_ge (sh.len + Facts.flateTail.length)
  have hnp : ¬ Pool.cap (sh.len + Facts.flateTail.length) < sh.len := by omega
  rw [if_neg hnp]
  simp only [ne_eq, not_true_eq_false, if_false]
  by_cases hshort : rest.length < sh.len
  · rw [if_pos hshort, if_pos hshort]
    exact ⟨rfl, endOk_eof⟩
  · rw [if_neg hshort, if_neg hshort]
    have n9 : sh.opcode ≠ 9 := by omega
    have n10 : sh.opcode ≠ 10 := by omega
    have n8 : sh.opcode ≠ 8 := by omega
    simp only [n9, n10, n8, if_false]
    rw [payload_eq h sh hh]
    exact afterPayload_refines cfg codec st s h sh _ _ hrel hh (by omega)

/-- **one `readMessage` refines one step of the RFC receiver** -/
theorem step_refines (cfg : Cfg) (codec : Codec) (st : State) (s : Spec.RxState) (b : Bytes)
    (hrel : Rel cfg st s) :
    StepRel cfg st.dps (Spec.step (specCtx cfg st) codec s b) (step cfg codec st b) := by
  rw [spec_step_eq]
  unfold step
  have hp := parse_spec b
  generalize Frame.parse b = x at hp
  generalize Spec.decodeHdr b = y at hp
  cases hp with
  | needMore => exact ⟨rfl, endOk_eof⟩
  | ok h sh rest hh =>
    simp only
    cases hc : headerCheck cfg h with
    | some e =>
      obtain ⟨c, rfl, hm⟩ := headerCheck_some st hh hc
      simp only
      unfold specBody
      simp only
      rw [if_pos (List.ne_nil_of_mem hm)]
      exact ⟨rfl, endOk_fail_status _ _ _ hm⟩
    | none =>
      obtain ⟨_, _, hlen, hv⟩ := headerCheck_none st hh hc
      simp only
      split
      · rename_i hop
        exact readControl_refines cfg codec st s h sh rest hrel hh hop hv
      · rename_i hop
        exact dataFrame_refines cfg codec st s h sh rest hrel hh hop hlen hv

end Reader
