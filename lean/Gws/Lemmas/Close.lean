import Gws.Model.ReaderRel
/-! Close-status classification against RFC 6455 §7.4 / the C06 table. -/
namespace Close

theorem be16_eq (a b : UInt8) : Frame.be16 a b = a.toNat * 256 + b.toNat := rfl

theorem classify_aux (code A B C D E P N : Nat) (L : List Nat) (hL : L = [1004, 1005, 1006, 1015])
    (hA : A = 1000) (hB : B = 5000) (hC : C = 1016) (hD : D = 3000) (hE : E = 1016) (hP : P = 1002) (hN : N = 1000) :
    (if code ∈ L then P else if code < A ∨ code ≥ B ∨ (code ≥ C ∧ code < D) then P else if code < E then N else code) =
      if Spec.closeCodeForbidden code then 1002
      else if 3000 ≤ code ∧ code ≤ 4999 then code else 1000 := by
  subst hL hA hB hC hD hE hP hN
  simp only [List.mem_cons, List.not_mem_nil, or_false]
  by_cases hf : Spec.closeCodeForbidden code
  · rw [if_pos hf]
    unfold Spec.closeCodeForbidden at hf
    repeat' split
    all_goals omega
  · rw [if_neg hf]
    unfold Spec.closeCodeForbidden at hf
    by_cases hr : 3000 ≤ code ∧ code ≤ 4999
    · rw [if_pos hr]
      repeat' split
      all_goals omega
    · rw [if_neg hr]
      repeat' split
      all_goals omega

/-- `classify` (the literals come from `Facts`, i.e. from the current source) agrees with the C06
table: forbidden codes → 1002, 3000–4999 → same code, everything else → 1000.  For every code, by
arithmetic — not by enumeration.  If a literal in `emitClose` changes, the `rfl`s below fail. -/
theorem classify_spec (code : Nat) :
    classify code =
      if Spec.closeCodeForbidden code then 1002
      else if 3000 ≤ code ∧ code ≤ 4999 then code else 1000 :=
  classify_aux code _ _ _ _ _ _ _ _ rfl rfl rfl rfl rfl rfl rfl rfl

end Close

namespace Close

theorem checkEncoding_close (utf8 : Bool) (reason : Bytes) :
    Utf8.checkEncoding utf8 Facts.opClose reason = (!utf8 || Spec.Utf8.valid reason) := by
  unfold Utf8.checkEncoding
  have : Facts.opClose = 8 := rfl
  rw [this]
  cases utf8 <;> simp

/-- the reply `emitClose` chooses is one the C06 table allows, and the application is told the
peer's code and reason -/
theorem emitClose_spec (utf8 : Bool) (body : Bytes) :
    (Reader.End.peerClose (emitClose utf8 body)).replyStatus ∈ Spec.closeReplies utf8 body ∧
    ((emitClose utf8 body).realCode, (emitClose utf8 body).reason) = Spec.closeSeen body := by
  match body with
  | [] => simp [emitClose, Spec.closeReplies, Spec.closeSeen, Reader.End.replyStatus]
  | [x] =>
    have : Facts.closeProtocolError = 1002 := rfl
    simp [emitClose, Spec.closeReplies, Spec.closeSeen, Reader.End.replyStatus, this]
  | a :: b :: reason =>
    have h7 : Facts.closeUnsupportedData = 1007 := rfl
    simp only [emitClose, Spec.closeReplies, Spec.closeSeen, Reader.End.replyStatus, checkEncoding_close, be16_eq,
      classify_spec, h7, and_true]
    cases utf8 <;> cases hv : Spec.Utf8.valid reason <;> simp <;> (repeat' split) <;> simp_all <;> omega

end Close
