import Gws.Lemmas.ComposeCall
/-!
# A sequence of write calls, read by the peer (helpers for Props/C01)

`sequence_delivered`: induction over the calls from `call_delivered`; `okPlain_admissible`: without
the extension the limits do not depend on the sender's state; `tagCodec`: a toy DEFLATE stand-in
whose output DEPENDS on the dictionary (so that it only round-trips when both windows agree),
with proofs of the two laws, for the non-vacuity examples.
-/

namespace Compose

/-- **any sequence of admissible calls** on an open connection whose peer is idle and in sync:
every call succeeds, the connection stays open, and the concatenated bytes take the reader through
exactly the expected events, in call order, back to an idle, in-sync state -/
theorem sequence_delivered (w : Writer.Cfg) (r : Reader.Cfg) (codec : Codec) (hc : Compatible w r)
    (hRT : w.pdEnabled = true → RoundTrip codec) (hMin : w.pdEnabled = true → MinOut codec)
    (calls : List Call)
    (hDF : ∀ c ∈ calls, w.pdEnabled = true → c.send.isBcast = true → DictFree codec) :
    ∀ (cst : Writer.Conn) (rst : Reader.State), cst.closed = false → rst.cont.initialized = false →
      InSync w cst.cps rst.dps → Admissible w r codec cst calls →
      (runCalls w codec cst calls).errs = [] ∧ (runCalls w codec cst calls).st.closed = false ∧
      ∃ rst' : Reader.State, rst'.cont.initialized = false ∧ InSync w (runCalls w codec cst calls).st.cps rst'.dps ∧
        ∀ rest, Runs r codec rst ((runCalls w codec cst calls).wire ++ rest) rst' (calls.map (·.send.event)) rest := by
  induction calls with
  | nil =>
    intro cst rst hopen hidle hs _
    exact ⟨rfl, hopen, rst, hidle, hs, fun rest => Runs.nil rst rest⟩
  | cons c cs ih =>
    intro cst rst hopen hidle hs hadm
    obtain ⟨hkeys, hok, hadm'⟩ := hadm
    obtain ⟨herr, hopen1, rst1, hidle1, hs1, hrun1⟩ :=
      call_delivered w r codec hc hRT hMin c (hDF c (by simp)) cst rst hopen hidle hs hkeys hok
    obtain ⟨herrs, hopen2, rst2, hidle2, hs2, hrun2⟩ :=
      ih (fun c' hc' => hDF c' (by simp [hc'])) (c.run w codec cst).st rst1 hopen1 hidle1 hs1 hadm'
    refine ⟨?_, hopen2, rst2, hidle2, hs2, fun rest => ?_⟩
    · simp only [runCalls, herr, herrs, Option.toList_none, List.append_nil]
    · have := Runs.trans (hrun1 ((runCalls w codec (c.run w codec cst).st cs).wire ++ rest)) (hrun2 rest)
      simpa [runCalls, List.append_assoc] using this

/-- a run that consumes the whole input: the loop delivers the run's events and then waits for more
input (the model's end of stream) -/
theorem Runs.readLoop_all {cfg : Reader.Cfg} {codec : Codec} {st st' : Reader.State} {b : Bytes} {evs : List Reader.Ev}
    (h : Runs cfg codec st (b ++ []) st' evs []) :
    Reader.readLoop cfg codec st b = { evs := evs, ending := .err .other } := by
  rw [List.append_nil] at h
  rw [h.readLoop, readLoop_nil, List.append_nil]

/-- without the extension nothing is compressed -/
theorem willCompress_off {w : Writer.Cfg} {fc : Writer.FrameCfg} (op n : Nat) (h : fc.compress = false) :
    Writer.willCompress w fc op n = false := by
  simp [Writer.willCompress, h]

theorem okPlain_ok (w : Writer.Cfg) (r : Reader.Cfg) (codec : Codec) (cps : Win) (hpd : w.pdEnabled = false)
    (s : Send) (h : s.OkPlain w r) : s.Ok w r codec cps := by
  cases s with
  | msg op p =>
    obtain ⟨h1, h2, h3, h4, h5⟩ := h
    refine ⟨h1, h2, h3, h4, h5, fun hz => ?_⟩
    rw [willCompress_off op _ (by simp [Writer.msgCfg, hpd])] at hz
    exact absurd hz (by simp)
  | ping p => exact h
  | pong p => exact h
  | file op reads outs =>
    obtain ⟨h1, h2, h3, h4, h5⟩ := h
    refine ⟨h1, h2, h4, h5, ?_⟩
    simp only [hpd, Bool.false_eq_true, ↓reduceIte]
    exact h3
  | bcast op p bcfg bcps bkey =>
    obtain ⟨h1, h2, h3, h4, h5, h6, h7, h8⟩ := h
    refine ⟨h1, h2, h3, h4, h5, h6, h7, h8, fun hz => ?_⟩
    rw [willCompress_off op _ (by simp [Writer.bcCfg, h3, hpd])] at hz
    exact absurd hz (by simp)

theorem okPlain_admissible (w : Writer.Cfg) (r : Reader.Cfg) (codec : Codec) (hpd : w.pdEnabled = false)
    (calls : List Call) (h : ∀ c ∈ calls, (∀ i, (c.keys i).length = 4) ∧ c.send.OkPlain w r) :
    ∀ cst : Writer.Conn, Admissible w r codec cst calls := by
  induction calls with
  | nil => intro _; trivial
  | cons c cs ih =>
    intro cst
    exact ⟨(h c (by simp)).1, okPlain_ok w r codec cst.cps hpd c.send (h c (by simp)).2,
      ih (fun c' hc' => h c' (by simp [hc'])) _⟩

/-! ## a toy library for the examples -/

/-- "compression" = a tag byte derived from the dictionary, the data, the sync-flush tail;
"inflation" checks the tag against ITS dictionary and drops the 9-byte tail `Decompress` appended.
It round-trips exactly when both ends use dictionaries of the same length (mod 256). -/
def tagCodec : Codec where
  compress _ dict chunks := UInt8.ofNat dict.length :: (chunks.flatten ++ [0x00, 0x00, 0xff, 0xff])
  inflate dict data :=
    match data with
    | t :: body => if t = UInt8.ofNat dict.length then some (body.take (body.length - 9)) else none
    | [] => none

theorem tagCodec_minOut : MinOut tagCodec := by
  intro bits dict chunks
  simp [tagCodec]

theorem tagCodec_roundTrip : RoundTrip tagCodec := by
  intro bits dict chunks limit hl
  have h1 : tagCodec.compress bits dict chunks =
      (UInt8.ofNat dict.length :: chunks.flatten) ++ [0x00, 0x00, 0xff, 0xff] := rfl
  rw [h1, Writer.stripTail_tail]
  have h9 : Codec.flateTail.length = 9 := by decide
  unfold Codec.decompress
  simp only [List.cons_append, tagCodec, ↓reduceIte, List.length_append, h9, Nat.add_sub_cancel, List.take_left']
  have : ¬ (chunks.flatten.length : Int) > limit := by omega
  simp only [this, ↓reduceIte]

/-! ## concrete configurations and call lists for the examples -/

def demoReader (isServer pd : Bool) : Reader.Cfg :=
  { isServer := isServer, pdEnabled := pd, readMax := 1000, checkUtf8 := true }

/-- the i-th frame of a call draws the key `i 2 3 4` -/
def demoKeys : Nat → Bytes := fun i => [UInt8.ofNat i, 2, 3, 4]

/-- a vectored Text message, a Ping, a streamed Binary message in three reads (one empty), a
broadcast, an empty Pong, an empty Binary message — sent by an endpoint of role `s` -/
def demoCalls (s : Bool) : List Call :=
  [⟨.msg 1 [[0x68], [0x69]], demoKeys⟩, ⟨.ping [7], demoKeys⟩,
   ⟨.file 2 [([1], false), ([], false), ([2, 3], true)] [], demoKeys⟩,
   ⟨.bcast 2 [9] (Writer.demoCfg s false) Win.disabled [0, 0, 0, 0], demoKeys⟩, ⟨.pong [], demoKeys⟩,
   ⟨.msg 2 [], demoKeys⟩]

theorem demoCalls_ok (s : Bool) : ∀ c ∈ demoCalls s,
    (∀ i, (c.keys i).length = 4) ∧ c.send.OkPlain (Writer.demoCfg s false) (demoReader (!s) false) := by
  simp [demoCalls, demoKeys, Send.OkPlain, isData, textOk, Writer.demoCfg, demoReader, Facts.opText, Facts.opBinary,
    Writer.readChunks, Spec.Utf8.valid]

/-- a server with permessage-deflate, context takeover (threshold 0), a window of 2^3 bytes -/
def zipW : Writer.Cfg :=
  { isServer := true, pdEnabled := true, threshold := 0, bits := 3, writeMax := 1000, checkUtf8 := true }

/-- two compressed messages around a Ping, then a compressed streamed message whose compressor
output (against the window the first two left) arrives in three `Write` calls -/
def zipCalls : List Call :=
  [⟨.msg 2 [[1, 2], [3]], demoKeys⟩, ⟨.ping [7], demoKeys⟩, ⟨.msg 2 [[0x68, 0x69]], demoKeys⟩,
   ⟨.file 2 [([4], false), ([5, 6], true)] [[5, 4], [5, 6, 0, 0], [0xff, 0xff]], demoKeys⟩]

theorem zipCalls_adm : Admissible zipW (demoReader false true) tagCodec { cps := Win.init 3 } zipCalls := by
  simp only [Admissible, zipCalls, Send.Ok, isData, textOk]
  refine ⟨fun _ => rfl, by decide, fun _ => rfl, by decide, fun _ => rfl, by decide, fun _ => rfl, by decide, trivial⟩

end Compose
