import Gws.Lemmas.WriterFile
import Gws.Lemmas.Pool
/-!
# The `flateWriter` aggregator (writefile.go:139-206)

`held w` is everything the buffers hold, in order.  `write_spec`: a `write` appends the chunk to
what is held (whichever buffer it lands in).  `plan` lists the payloads handed to the callback;
`plan_spec` proves conservation (emitted ++ held = held before ++ fed), the frame count, and the
hold-back invariant: once a frame has been emitted at least four bytes stay behind, so the final
`00 00 ff ff` can only be in the frame written by `Flush`.  `compressFile_eq` puts it together for
every cutting `outs` of the compressor output.
-/

open Frame Spec

namespace Writer

/-- everything the aggregator currently holds, in order -/
def held (w : FlateWriter) : Bytes := (w.buffers.map (·.data)).flatten

theorem write_spec (w : FlateWriter) (p : Bytes) :
    held (w.write p) = held w ++ p ∧ (w.write p).index = w.index ∧ (w.write p).buffers ≠ [] := by
  obtain ⟨idx, bufs⟩ := w
  cases bufs with
  | nil =>
    simp only [FlateWriter.write, List.length_nil, ↓reduceIte, List.nil_append, List.getLast?_singleton, held]
    split <;> simp
  | cons b bs =>
    have hne : (b :: bs) ≠ [] := by simp
    have hl := List.getLast?_eq_some_getLast hne
    have hsplit := List.dropLast_concat_getLast hne
    generalize (b :: bs).getLast hne = tail at hl hsplit
    generalize hbufs : b :: bs = bufs at hl hsplit hne
    have hlen : ¬ bufs.length = 0 := by rw [← hbufs]; simp
    simp only [FlateWriter.write, hlen, ↓reduceIte, hl]
    split
    · refine ⟨by simp [held], rfl, by simp⟩
    · refine ⟨?_, rfl, by simp⟩
      unfold held
      simp only
      rw [← hsplit]
      simp

theorem shouldCall_spec (w : FlateWriter) (h : w.shouldCall = true) :
    ∃ b0 rest, w.buffers = b0 :: rest ∧ rest ≠ [] ∧ 4 ≤ ((rest.map (·.data)).flatten).length := by
  unfold FlateWriter.shouldCall at h
  simp only at h
  split at h
  · exact absurd h (by simp)
  · rename_i hn
    match hb : w.buffers with
    | [] => simp [hb] at hn
    | [_] => simp [hb] at hn
    | b0 :: b1 :: r =>
      refine ⟨b0, b1 :: r, rfl, by simp, ?_⟩
      rw [hb] at h
      simp only [List.drop_succ_cons, List.drop_zero, decide_eq_true_eq] at h
      rw [List.length_flatten, List.map_map]
      exact h

/-- the payloads the aggregator hands to the callback while it is fed `outs` (callback errors aside) -/
def plan : FlateWriter → List Bytes → FlateWriter × List Bytes
  | w, [] => (w, [])
  | w, p :: ps =>
    let w1 := w.write p
    if w1.shouldCall then
      match w1.buffers with
      | [] => (w1, [])
      | b0 :: rest =>
        let r := plan { index := w1.index + 1, buffers := rest } ps
        (r.1, b0.data :: r.2)
    else plan w1 ps

/-- conservation, frame counting, the hold-back invariant, and "there is a buffer to flush" -/
theorem plan_spec : ∀ (outs : List Bytes) (w : FlateWriter),
    (plan w outs).2.flatten ++ held (plan w outs).1 = held w ++ outs.flatten ∧
    (plan w outs).1.index = w.index + (plan w outs).2.length ∧
    ((w.index > 0 → 4 ≤ (held w).length) → (plan w outs).1.index > 0 → 4 ≤ (held (plan w outs).1).length) ∧
    ((w.buffers ≠ [] ∨ outs ≠ []) → (plan w outs).1.buffers ≠ []) := by
  intro outs
  induction outs with
  | nil => intro w; simp [plan]
  | cons p ps ih =>
    intro w
    obtain ⟨hw1, hw2, hw3⟩ := write_spec w p
    unfold plan
    simp only
    by_cases hs : (w.write p).shouldCall = true
    · obtain ⟨b0, rest, hb, hrest, h4⟩ := shouldCall_spec _ hs
      simp only [hs, ↓reduceIte, hb]
      obtain ⟨i1, i2, i3, i4⟩ := ih { index := (w.write p).index + 1, buffers := rest }
      have hheld : held (w.write p) = b0.data ++ held { index := (w.write p).index + 1, buffers := rest } := by
        simp [held, hb]
      refine ⟨?_, ?_, ?_, ?_⟩
      · simp only [List.flatten_cons, List.append_assoc]
        rw [i1, ← List.append_assoc, ← hheld, hw1]
        simp
      · rw [i2]; simp only [List.length_cons]; omega
      · intro _ hpos
        exact i3 (fun _ => by simpa [held] using h4) hpos
      · intro _
        exact i4 (Or.inl hrest)
    · simp only [hs, Bool.false_eq_true, ↓reduceIte]
      obtain ⟨i1, i2, i3, i4⟩ := ih (w.write p)
      refine ⟨?_, ?_, ?_, ?_⟩
      · rw [i1, hw1]; simp
      · rw [i2, hw2]
      · intro hJ hpos
        refine i3 (fun h => ?_) hpos
        rw [hw1, List.length_append]
        have := hJ (by omega)
        omega
      · intro _
        exact i4 (Or.inl hw3)

theorem feed_eq (cb : Nat → Bool → Bytes → Except WErr Bytes) (g : Nat → Bool → Bytes → Bytes) (L : Nat)
    (hcb : ∀ i e p, p.length ≤ L → cb i e p = .ok (g i e p)) :
    ∀ (outs : List Bytes) (w : FlateWriter), (∀ d ∈ (plan w outs).2, d.length ≤ L) →
      feed cb w outs = ((plan w outs).1, framesOf g w.index ((plan w outs).2.map (·, false)), none) := by
  intro outs
  induction outs with
  | nil => intro w _; simp [feed, plan, framesOf]
  | cons p ps ih =>
    intro w hL
    obtain ⟨hw1, hw2, hw3⟩ := write_spec w p
    unfold plan at hL ⊢
    unfold feed
    simp only at hL ⊢
    by_cases hs : (w.write p).shouldCall = true
    · obtain ⟨b0, rest, hb, hrest, h4⟩ := shouldCall_spec _ hs
      simp only [hs, ↓reduceIte, hb] at hL ⊢
      rw [hcb _ false b0.data (hL _ (by simp))]
      simp only
      rw [ih _ (fun d hd => hL d (by simp [hd]))]
      simp [framesOf, hw2]
    · simp only [hs, Bool.false_eq_true, ↓reduceIte] at hL ⊢
      rw [ih _ hL, hw2]

theorem length_le_flatten_of_mem {d : Bytes} : ∀ {ds : List Bytes}, d ∈ ds → d.length ≤ ds.flatten.length := by
  intro ds
  induction ds with
  | nil => intro h; simp at h
  | cons x xs ih =>
    intro h
    simp only [List.mem_cons] at h
    simp only [List.flatten_cons, List.length_append]
    rcases h with rfl | h
    · omega
    · have := ih h; omega

theorem framesOf_append (g : Nat → Bool → Bytes → Bytes) (s : ReaderScript) :
    ∀ (a : List Bytes) (i : Nat), framesOf g i (a.map (·, false) ++ s) =
      framesOf g i (a.map (·, false)) ++ framesOf g (i + a.length) s := by
  intro a
  induction a with
  | nil => intro i; simp [framesOf]
  | cons x xs ih =>
    intro i
    simp only [List.map_cons, List.cons_append, framesOf, Bool.false_eq_true, ↓reduceIte, List.length_cons]
    rw [ih (i + 1)]
    congr 3
    omega

theorem readChunks_append (s : ReaderScript) :
    ∀ (a : List Bytes), readChunks (a.map (·, false) ++ s) = (a ++ (readChunks s).1, (readChunks s).2) := by
  intro a
  induction a with
  | nil => simp
  | cons x xs ih => simp [readChunks_cons, ih]

theorem flush_eq (cb : Nat → Bool → Bytes → Except WErr Bytes) (w : FlateWriter) (h : w.buffers ≠ []) :
    w.flush cb = cb w.index true (stripTail (held w)) := by
  unfold FlateWriter.flush held
  match hb : w.buffers with
  | [] => exact absurd hb h
  | b0 :: rest => simp

/-- **the aggregator as a whole**: the compressed path writes the frames of the script
`d₀, d₁, …, last` where the payloads concatenate to the compressor output with its final
`00 00 ff ff` (and nothing else) removed -/
theorem compressFile_eq (cb : Nat → Bool → Bytes → Except WErr Bytes) (g : Nat → Bool → Bytes → Bytes) (L : Nat)
    (hcb : ∀ i e p, p.length ≤ L → cb i e p = .ok (g i e p))
    (outs : List Bytes) (hne : outs ≠ []) (hL : outs.flatten.length ≤ L) :
    compressFile cb true outs =
      (framesOf g 0 ((plan {} outs).2.map (·, false) ++ [(stripTail (held (plan {} outs).1), true)]), none) ∧
    ((plan {} outs).2 ++ [stripTail (held (plan {} outs).1)]).flatten = stripTail outs.flatten ∧
    (∀ d ∈ (plan {} outs).2 ++ [stripTail (held (plan {} outs).1)], d.length ≤ outs.flatten.length) := by
  obtain ⟨p1, p2, p3, p4⟩ := plan_spec outs {}
  have hheld0 : held ({} : FlateWriter) = [] := rfl
  rw [hheld0, List.nil_append] at p1
  have hidx0 : ({} : FlateWriter).index = 0 := rfl
  rw [hidx0, Nat.zero_add] at p2
  have hJ := p3 (fun h => by simp at h)
  have hbuf := p4 (Or.inr hne)
  have hd : ∀ d ∈ (plan {} outs).2, d.length ≤ outs.flatten.length := by
    intro d hd
    have := length_le_flatten_of_mem hd
    have h2 := congrArg List.length p1
    simp only [List.length_append] at h2
    omega
  have hlast : (stripTail (held (plan {} outs).1)).length ≤ outs.flatten.length := by
    have := stripTail_length_le (held (plan {} outs).1)
    have h2 := congrArg List.length p1
    simp only [List.length_append] at h2
    omega
  refine ⟨?_, ?_, ?_⟩
  · unfold compressFile
    simp only
    rw [feed_eq cb g L hcb outs {} (fun d h => Nat.le_trans (hd d h) hL)]
    simp only [Bool.not_true, Bool.false_eq_true, ↓reduceIte]
    rw [flush_eq cb _ hbuf, hcb _ true _ (Nat.le_trans hlast hL)]
    simp only
    rw [framesOf_append, p2]
    simp [framesOf]
  · rw [List.flatten_append]
    simp only [List.flatten_cons, List.flatten_nil, List.append_nil]
    rw [← p1]
    by_cases hz : (plan {} outs).2 = []
    · simp [hz]
    · have hpos : (plan {} outs).1.index > 0 := by
        rw [p2]; exact List.length_pos_iff.mpr hz
      rw [stripTail_append _ _ (hJ hpos)]
  · intro d hmem
    simp only [List.mem_append, List.mem_cons, List.not_mem_nil, or_false] at hmem
    rcases hmem with h | rfl
    · exact hd d h
    · exact hlast


/-- a `write` never puts more into a buffer than its capacity: a chunk is appended to the tail
buffer only if it fits (with 14 bytes to spare), otherwise it goes into a fresh buffer of capacity
`Pool.cap (max segmentSize len(p)) ≥ len(p)`.  Hence no `bytes.Buffer` of the aggregator ever
reallocates and `Cap()` is the constant the model carries. -/
theorem write_fits (w : FlateWriter) (p : Bytes) (h : ∀ b ∈ w.buffers, b.data.length ≤ b.cap) :
    ∀ b ∈ (w.write p).buffers, b.data.length ≤ b.cap := by
  have hcap : p.length ≤ Pool.cap (max Facts.segmentSize p.length) :=
    Nat.le_trans (Nat.le_max_right _ _) (Pool.cap_ge _)
  obtain ⟨idx, bufs⟩ := w
  cases bufs with
  | nil =>
    simp only [FlateWriter.write, List.length_nil, ↓reduceIte, List.nil_append, List.getLast?_singleton]
    split
    · intro b hb
      simp only [List.cons_append, List.nil_append, List.mem_cons, List.not_mem_nil, or_false] at hb
      rcases hb with rfl | rfl
      · simp
      · exact hcap
    · rename_i hg
      intro b hb
      simp only [List.dropLast_singleton, List.nil_append, List.mem_cons, List.not_mem_nil, or_false] at hb
      subst hb
      simp at hg ⊢
      omega
  | cons b0 bs =>
    have hne : (b0 :: bs) ≠ [] := by simp
    have hl := List.getLast?_eq_some_getLast hne
    have hsplit := List.dropLast_concat_getLast hne
    generalize (b0 :: bs).getLast hne = tail at hl hsplit
    generalize hbufs : b0 :: bs = bufs at hl hsplit hne h
    have hlen : ¬ bufs.length = 0 := by rw [← hbufs]; simp
    simp only [FlateWriter.write, hlen, ↓reduceIte, hl]
    simp only at h
    split
    · intro b hb
      simp only [List.mem_append, List.mem_cons, List.not_mem_nil, or_false] at hb
      rcases hb with hb | rfl
      · exact h b hb
      · exact hcap
    · rename_i hg
      intro b hb
      simp only [List.mem_append, List.mem_cons, List.not_mem_nil, or_false] at hb
      rcases hb with hb | rfl
      · exact h b (by rw [← hsplit]; simp [hb])
      · simp only [List.length_append]; omega

end Writer
